(* C02 proofs: decimal printing is injective (N_to_dec has a left inverse). *)
From Coq Require Import String List ZArith NArith Bool Lia.
From Coq.Strings Require Import Byte.
Import ListNotations.
From OV Require Import Base.Bytes Base.Cases Gen.Conv Model.Value Model.Decl.
Local Open Scope N_scope.

Definition dstep (a : N) (b : byte) : N := a * 10 + (Byte.to_N b - 48).
Definition dval (l : bytes) : N := fold_left dstep l 0.

Lemma dec_digits_app : forall f n acc, dec_digits f n acc = dec_digits f n [] ++ acc.
Proof.
  induction f as [|f IH]; intros n acc; simpl; [reflexivity|].
  destruct (N.ltb n 10); [reflexivity|].
  rewrite (IH (n / 10) (_ :: acc)), (IH (n / 10) [_]), <- app_assoc. reflexivity.
Qed.

Lemma digit_to_N k : k < 10 -> Byte.to_N (byte_of_N (48 + k)) = 48 + k.
Proof.
  intro H.
  assert (A : forallb (fun j => N.eqb (Byte.to_N (byte_of_N (48 + N.of_nat j))) (48 + N.of_nat j)) (seq 0 10) = true)
    by (vm_compute; reflexivity).
  rewrite forallb_forall in A. specialize (A (N.to_nat k)). rewrite N2Nat.id in A.
  apply N.eqb_eq, A, in_seq. lia.
Qed.

Lemma dval_dec : forall f n, N.log2 n < N.of_nat f -> dval (dec_digits f n []) = n.
Proof.
  induction f as [|f IH]; intros n Hf; [lia|]. cbn [dec_digits].
  assert (Hm : n mod 10 < 10) by (apply N.mod_lt; discriminate).
  destruct (N.ltb n 10) eqn:L.
  - apply N.ltb_lt in L. unfold dval. cbn [fold_left]. unfold dstep. rewrite digit_to_N by exact Hm.
    rewrite (N.add_comm 48 (n mod 10)), N.add_sub. rewrite N.mod_small by exact L. reflexivity.
  - apply N.ltb_ge in L. rewrite dec_digits_app. unfold dval. rewrite fold_left_app. cbn [fold_left].
    fold (dval (dec_digits f (n / 10) [])). rewrite IH.
    + unfold dstep. rewrite digit_to_N by exact Hm.
      rewrite (N.add_comm 48 (n mod 10)), N.add_sub.
      rewrite N.mul_comm. symmetry. apply N.div_mod. discriminate.
    + assert (H2 : N.log2 (n / 10) <= N.log2 (n / 2)).
      { apply N.log2_le_mono. apply N.div_le_compat_l. lia. }
      assert (H3 : N.log2 (n / 2) = N.log2 n - 1).
      { replace (n / 2) with (N.shiftr n 1) by (rewrite N.shiftr_div_pow2; reflexivity). apply N.log2_shiftr. }
      assert (H4 : 1 <= N.log2 n).
      { apply N.log2_le_pow2; [lia|]. simpl. lia. }
      lia.
Qed.

Lemma dval_N_to_dec n : dval (N_to_dec n) = n.
Proof. unfold N_to_dec. apply dval_dec. lia. Qed.

Lemma N_to_dec_inj a b : N_to_dec a = N_to_dec b -> a = b.
Proof. intro H. rewrite <- (dval_N_to_dec a), <- (dval_N_to_dec b), H. reflexivity. Qed.

Lemma elem_name_inj i j : elem_name i = elem_name j -> i = j.
Proof.
  unfold elem_name. intro H. apply app_inv_head in H. apply app_inv_tail in H.
  apply N_to_dec_inj in H. lia.
Qed.
Lemma arg_name_inj i j : arg_name i = arg_name j -> i = j.
Proof.
  unfold arg_name. intro H. apply app_inv_head in H. apply app_inv_tail in H.
  apply N_to_dec_inj in H. lia.
Qed.
