(* C06 proofs, part 2: the csv reader model reads back every table the encoder writes
   (csv_roundtrip), empty lines are ignored. *)
From Coq Require Import List NArith Bool Arith Lia.
From Coq.Strings Require Import Byte.
Import ListNotations.
From OV Require Import Base.Bytes Base.Utf8 Base.Cases Model.Csv Proofs.DelimUtf8.

(* ---- bytes ------------------------------------------------------------------------------------------ *)
Lemma beqb_eq a b : Byte.eqb a b = true <-> a = b.
Proof. split; [apply Byte.byte_dec_bl|apply Byte.byte_dec_lb]. Qed.

Lemma beqb_refl a : Byte.eqb a a = true.
Proof. apply beqb_eq. reflexivity. Qed.

Lemma beqb_neq a b : Byte.eqb a b = false <-> a <> b.
Proof.
  split; intro H.
  - intro E. subst. rewrite beqb_refl in H. discriminate.
  - destruct (Byte.eqb a b) eqn:E; [apply beqb_eq in E; contradiction|reflexivity].
Qed.

Lemma beqb_sym a b : Byte.eqb a b = Byte.eqb b a.
Proof.
  destruct (Byte.eqb a b) eqn:E.
  - apply beqb_eq in E. subst. symmetry. apply beqb_refl.
  - symmetry. apply beqb_neq. apply beqb_neq in E. congruence.
Qed.

Lemma mem_byte_cons c b s : mem_byte c (b :: s) = Byte.eqb c b || mem_byte c s.
Proof. reflexivity. Qed.

Lemma mem_byte_app c a b : mem_byte c (a ++ b) = mem_byte c a || mem_byte c b.
Proof. unfold mem_byte. apply existsb_app. Qed.

(* ---- prefix / search -------------------------------------------------------------------------------- *)
Lemma is_prefix_app p s : is_prefix p (p ++ s) = true.
Proof. induction p as [|a p IH]; [reflexivity|]. simpl. rewrite beqb_refl. exact IH. Qed.

Lemma is_prefix_nil p : is_prefix p [] = true -> p = [].
Proof. destruct p; [reflexivity|discriminate]. Qed.

(* a match that ends before an element that p does not contain lies inside g *)
Lemma is_prefix_notin p : forall g c w,
  is_prefix p (g ++ c :: w) = true -> mem_byte c p = false -> is_prefix p g = true.
Proof.
  induction p as [|a p IH]; intros g c w H Hc; [reflexivity|].
  rewrite mem_byte_cons in Hc. apply orb_false_iff in Hc as [Hca Hcp].
  destruct g as [|b g]; simpl in H.
  - apply andb_prop in H as [H _]. rewrite beqb_sym in Hca. congruence.
  - apply andb_prop in H as [H1 H2]. simpl. rewrite H1. simpl. exact (IH g c w H2 Hcp).
Qed.

Lemma index_sub_cons_none p b s : index_sub p (b :: s) = None ->
  is_prefix p (b :: s) = false /\ index_sub p s = None.
Proof.
  cbn [index_sub]. destruct (is_prefix p (b :: s)); [discriminate|].
  destruct (index_sub p s); [discriminate|]. auto.
Qed.

Lemma index_sub_nil_none p : index_sub p [] = None -> p <> [].
Proof. destruct p; [discriminate|congruence]. Qed.

Lemma index_sub_here h t : mem_byte h t = false -> forall f more,
  index_sub (h :: t) f = None ->
  index_sub (h :: t) (f ++ (h :: t) ++ more) = Some (length f).
Proof.
  intros Hb f more. induction f as [|b f IH]; intro Hn.
  - change ([] ++ (h :: t) ++ more) with ((h :: t) ++ more).
    destruct ((h :: t) ++ more) eqn:E; [discriminate|]. cbn [index_sub]. rewrite <- E.
    rewrite is_prefix_app. reflexivity.
  - apply index_sub_cons_none in Hn as [Hp Hn].
    change ((b :: f) ++ (h :: t) ++ more) with (b :: (f ++ (h :: t) ++ more)).
    cbn [index_sub].
    destruct (is_prefix (h :: t) (b :: f ++ (h :: t) ++ more)) eqn:E.
    + exfalso. cbn [is_prefix] in E. apply andb_prop in E as [E1 E2].
      change (f ++ (h :: t) ++ more) with (f ++ h :: (t ++ more)) in E2.
      apply is_prefix_notin in E2; [|exact Hb].
      cbn [is_prefix] in Hp. rewrite E1, E2 in Hp. discriminate.
    + rewrite (IH Hn). reflexivity.
Qed.

Lemma index_sub_none_app p c : p <> [] -> mem_byte c p = false -> forall f,
  index_sub p f = None -> index_sub p (f ++ [c]) = None.
Proof.
  intros Hne Hc f. induction f as [|b f IH]; intro Hn.
  - cbn [app index_sub].
    destruct (is_prefix p [c]) eqn:E.
    + exfalso. change [c] with ([] ++ c :: []) in E. apply is_prefix_notin in E; [|exact Hc].
      apply is_prefix_nil in E. contradiction.
    + destruct p; [contradiction|reflexivity].
  - apply index_sub_cons_none in Hn as [Hp Hn].
    change ((b :: f) ++ [c]) with (b :: (f ++ [c])). cbn [index_sub].
    destruct (is_prefix p (b :: f ++ [c])) eqn:E.
    + exfalso. change (b :: f ++ [c]) with ((b :: f) ++ c :: []) in E.
      apply is_prefix_notin in E; [|exact Hc]. congruence.
    + rewrite (IH Hn). reflexivity.
Qed.

Lemma index_byte_here c : forall a b, mem_byte c a = false ->
  index_byte c (a ++ c :: b) = Some (length a).
Proof.
  induction a as [|x a IH]; intros b H.
  - simpl. rewrite beqb_refl. reflexivity.
  - rewrite mem_byte_cons in H. apply orb_false_iff in H as [H1 H2].
    simpl. rewrite beqb_sym, H1. rewrite (IH b H2). reflexivity.
Qed.

Lemma index_byte_none c : forall a, mem_byte c a = false -> index_byte c a = None.
Proof.
  induction a as [|x a IH]; intro H; [reflexivity|].
  rewrite mem_byte_cons in H. apply orb_false_iff in H as [H1 H2].
  simpl. rewrite beqb_sym, H1, (IH H2). reflexivity.
Qed.

Lemma firstn_app_len {A} (a b : list A) : firstn (length a) (a ++ b) = a.
Proof. rewrite firstn_app, Nat.sub_diag, firstn_O, app_nil_r. apply firstn_all. Qed.

Lemma skipn_app_len {A} (a b : list A) : skipn (length a) (a ++ b) = b.
Proof. rewrite skipn_app, Nat.sub_diag, skipn_all. reflexivity. Qed.

(* ---- strip_last, split_lf ------------------------------------------------------------------------------ *)
Lemma strip_last_cons c b s : s <> [] -> strip_last c (b :: s) = b :: strip_last c s.
Proof. destruct s; [congruence|reflexivity]. Qed.

Lemma strip_last_app c s : strip_last c (s ++ [c]) = s.
Proof.
  induction s as [|b s IH]; [simpl; rewrite beqb_refl; reflexivity|].
  change ((b :: s) ++ [c]) with (b :: (s ++ [c])).
  rewrite strip_last_cons by (destruct s; discriminate). rewrite IH. reflexivity.
Qed.

Lemma strip_last_notin c s : mem_byte c s = false -> strip_last c s = s.
Proof.
  induction s as [|b s IH]; intro H; [reflexivity|].
  rewrite mem_byte_cons in H. apply orb_false_iff in H as [H1 H2].
  cbn [strip_last]. destruct s as [|b' s'].
  - rewrite beqb_sym, H1. reflexivity.
  - rewrite (IH H2). reflexivity.
Qed.

(* the current line as the reader sees it, and the raw text after it *)
Definition view (R : bytes) : bytes * bytes :=
  let '(x, y) := split_lf R in
  (strip_last CR x ++ [LF], match y with Some r => r | None => [] end).

Lemma readline_view R n : mem_byte LF R = true ->
  csv_readline (mkC R n) = (fst (view R), false, mkC (snd (view R)) (S n)).
Proof.
  intro H. unfold csv_readline, view. cbn [c_in c_line].
  assert (Hs : exists x r, split_lf R = (x, Some r)).
  { clear n. induction R as [|b R IH]; [discriminate|].
    rewrite mem_byte_cons in H. cbn [split_lf]. rewrite beqb_sym.
    destruct (Byte.eqb LF b); [eauto|].
    destruct (IH H) as (x & r & E). rewrite E. eauto. }
  destruct Hs as (x & r & E). rewrite E. reflexivity.
Qed.

Lemma view_lf R : view (LF :: R) = ([LF], R).
Proof. reflexivity. Qed.

Lemma view_crlf R : view (CR :: LF :: R) = ([LF], R).
Proof. reflexivity. Qed.

Lemma view_eol b R : view (eol b ++ R) = ([LF], R).
Proof. destruct b; reflexivity. Qed.

(* the text after a CR that is data: something follows and it is not LF *)
Definition not_lf_next (R : bytes) : bool :=
  match R with b :: _ => negb (Byte.eqb b LF) | [] => false end.

Lemma view_cons b R : b <> LF -> (b = CR -> not_lf_next R = true) ->
  view (b :: R) = (b :: fst (view R), snd (view R)).
Proof.
  intros Hb Hc. unfold view. cbn [split_lf].
  apply beqb_neq in Hb. rewrite Hb.
  destruct (split_lf R) as [x y] eqn:E. cbn [fst snd]. f_equal.
  destruct x as [|x0 x].
  - cbn [strip_last]. destruct (Byte.eqb b CR) eqn:Eb; [|reflexivity].
    exfalso. apply beqb_eq in Eb. specialize (Hc Eb).
    destruct R as [|r0 R]; [discriminate|].
    cbn [split_lf not_lf_next] in *. apply negb_true_iff in Hc. rewrite Hc in E.
    destruct (split_lf R); discriminate.
  - rewrite strip_last_cons by discriminate. reflexivity.
Qed.

(* text without LF and CR stays in front of the current line *)
Lemma view_app_plain p R : mem_byte LF p = false -> mem_byte CR p = false ->
  view (p ++ R) = (p ++ fst (view R), snd (view R)).
Proof.
  induction p as [|b p IH]; intros Hl Hc; [simpl; destruct (view R); reflexivity|].
  rewrite mem_byte_cons in Hl, Hc.
  apply orb_false_iff in Hl as [Hl1 Hl2]. apply orb_false_iff in Hc as [Hc1 Hc2].
  change ((b :: p) ++ R) with (b :: (p ++ R)).
  rewrite view_cons.
  - rewrite (IH Hl2 Hc2). reflexivity.
  - apply beqb_neq. rewrite beqb_sym. exact Hl1.
  - intro E. subst b. rewrite beqb_refl in Hc1. discriminate.
Qed.

(* ---- crlf2lf ------------------------------------------------------------------------------------------- *)
Definition starts_lf (R : bytes) : bool :=
  match R with b :: _ => Byte.eqb b LF | [] => false end.

Lemma crlf2lf_cons b c : (b = CR -> starts_lf c = false) -> crlf2lf (b :: c) = b :: crlf2lf c.
Proof.
  intro H. cbn [crlf2lf]. destruct c as [|c0 c]; [reflexivity|].
  destruct (Byte.eqb b CR) eqn:E; [|reflexivity].
  apply beqb_eq in E. specialize (H E). cbn [starts_lf] in H. rewrite H. reflexivity.
Qed.

Lemma crlf2lf_crlf c : crlf2lf (CR :: LF :: c) = LF :: crlf2lf c.
Proof.
  change (crlf2lf (CR :: LF :: c)) with (crlf2lf (LF :: c)).
  apply crlf2lf_cons. discriminate.
Qed.

Lemma crlf2lf_id c : mem_byte CR c = false -> crlf2lf c = c.
Proof.
  induction c as [|b c IH]; intro H; [reflexivity|].
  rewrite mem_byte_cons in H. apply orb_false_iff in H as [H1 H2].
  rewrite crlf2lf_cons, (IH H2); [reflexivity|].
  intro E. subst. rewrite beqb_refl in H1. discriminate.
Qed.

(* ---- the quoted-field loop over the whole content ---------------------------------------------------- *)
Fixpoint cost (c : bytes) : nat :=
  match c with
  | [] => 0
  | b :: r => (if Byte.eqb b QUOTE || Byte.eqb b LF then 1 else 0) + cost r
  end.

Fixpoint count_lf (c : bytes) : nat :=
  match c with
  | [] => 0
  | b :: r => (if Byte.eqb b LF then 1 else 0) + count_lf r
  end.

Lemma cost_le c : cost c <= length c.
Proof. induction c as [|b c IH]; simpl; [lia|]. destruct (_ || _); lia. Qed.

Lemma esc_quotes_cons b c :
  esc_quotes (b :: c) = (if Byte.eqb b QUOTE then [QUOTE; QUOTE] else [b]) ++ esc_quotes c.
Proof. reflexivity. Qed.

Lemma not_lf_next_esc c tail : starts_lf c = false ->
  not_lf_next (esc_quotes c ++ QUOTE :: tail) = true.
Proof.
  destruct c as [|b c]; intro H; [reflexivity|].
  rewrite esc_quotes_cons. cbn [starts_lf] in H.
  destruct (Byte.eqb b QUOTE); cbn; [reflexivity|]. rewrite H. reflexivity.
Qed.

Section Quoted.
  Variable enc : bytes.
  Variable k : bytes -> cst -> list bytes -> pres.

  Lemma pq_step F b l st acc cur : b <> QUOTE -> l <> [] ->
    parse_quoted enc F k (b :: l) st acc cur = parse_quoted enc F k l st acc (cur ++ [b]).
  Proof.
    intros Hb Hl. destruct F as [|F]; [reflexivity|].
    apply beqb_neq in Hb. cbn [parse_quoted index_byte]. rewrite Hb.
    destruct (index_byte QUOTE l) as [i|]; cbn [option_map].
    - rewrite firstn_cons, skipn_cons.
      replace ((cur ++ [b]) ++ firstn i l) with (cur ++ b :: firstn i l)
        by (rewrite <- app_assoc; reflexivity).
      reflexivity.
    - destruct l as [|l0 l]; [congruence|].
      replace ((cur ++ [b]) ++ l0 :: l) with (cur ++ b :: l0 :: l)
        by (rewrite <- app_assoc; reflexivity).
      reflexivity.
  Qed.

  Lemma view_fst_ne R : fst (view R) <> [].
  Proof. unfold view. destruct (split_lf R) as [x y]. cbn [fst]. destruct (strip_last CR x); discriminate. Qed.

  Variable tail : bytes.
  Hypothesis Htail : mem_byte LF tail = true.

  Lemma has_lf_content c : mem_byte LF (esc_quotes c ++ QUOTE :: tail) = true.
  Proof. rewrite mem_byte_app, mem_byte_cons, Htail. rewrite !orb_true_r. reflexivity. Qed.

  Lemma pq_content m : forall c, length c <= m -> forall F line R n acc cur,
    view (esc_quotes c ++ QUOTE :: tail) = (line, R) ->
    cost c <= F ->
    parse_quoted enc F k line (mkC R n) acc cur =
    parse_quoted enc (F - cost c) k (QUOTE :: fst (view tail))
                 (mkC (snd (view tail)) (n + count_lf c)) acc (cur ++ crlf2lf c).
  Proof.
    induction m as [|m IH]; intros c Hm F line R n acc cur Hv HF.
    { destruct c; [|simpl in Hm; lia]. cbn [esc_quotes flat_map app] in Hv.
      rewrite view_cons in Hv by discriminate. inversion Hv; subst.
      cbn [cost count_lf crlf2lf]. rewrite Nat.sub_0_r, Nat.add_0_r, app_nil_r. reflexivity. }
    destruct c as [|b c].
    { cbn [esc_quotes flat_map app] in Hv.
      rewrite view_cons in Hv by discriminate. inversion Hv; subst.
      cbn [cost count_lf crlf2lf]. rewrite Nat.sub_0_r, Nat.add_0_r, app_nil_r. reflexivity. }
    simpl length in Hm. rewrite esc_quotes_cons in Hv. cbn [cost count_lf] in *.
    destruct (Byte.eqb b QUOTE) eqn:Eq.
    - (* a quote in the content: written twice *)
      apply beqb_eq in Eq. subst b. cbn [orb] in *. change (Byte.eqb QUOTE LF) with false. cbn [Nat.add].
      cbn [app] in Hv. rewrite view_cons in Hv by discriminate.
      rewrite view_cons in Hv by discriminate.
      destruct (view (esc_quotes c ++ QUOTE :: tail)) as [l1 R1] eqn:Ev. cbn [fst snd] in Hv.
      inversion Hv; subst line R.
      destruct F as [|F]; [lia|].
      cbn [parse_quoted index_byte]. change (Byte.eqb QUOTE QUOTE) with true. cbn [firstn skipn].
      rewrite (IH c ltac:(lia) F l1 R1 n acc _ Ev ltac:(lia)).
      rewrite crlf2lf_cons by discriminate.
      rewrite app_nil_r, <- app_assoc. reflexivity.
    - cbn [orb] in *. destruct (Byte.eqb b LF) eqn:El.
      + (* a line break in the content *)
        apply beqb_eq in El. subst b. cbn [app] in Hv. rewrite view_lf in Hv.
        inversion Hv; subst line R.
        destruct F as [|F]; [lia|].
        cbn [parse_quoted index_byte]. change (Byte.eqb LF QUOTE) with false.
        cbn [option_map].
        rewrite readline_view by apply has_lf_content.
        destruct (view (esc_quotes c ++ QUOTE :: tail)) as [l1 R1] eqn:Ev. cbn [fst snd].
        rewrite (IH c ltac:(lia) F l1 R1 (S n) acc _ Ev ltac:(lia)).
        rewrite crlf2lf_cons by discriminate.
        replace (S n + count_lf c) with (n + (1 + count_lf c)) by lia.
        replace (S F - (1 + cost c)) with (F - cost c) by lia.
        rewrite <- app_assoc. reflexivity.
      + destruct (Byte.eqb b CR && starts_lf c) eqn:Ec.
        * (* CRLF in the content reads as LF *)
          apply andb_prop in Ec as [Ec1 Ec2]. apply beqb_eq in Ec1. subst b.
          destruct c as [|c0 c]; [discriminate|]. cbn [starts_lf] in Ec2.
          apply beqb_eq in Ec2. subst c0.
          rewrite esc_quotes_cons in Hv. change (Byte.eqb LF QUOTE) with false in Hv.
          cbn [app] in Hv. rewrite view_crlf in Hv. inversion Hv; subst line R.
          cbn [cost count_lf] in *. change (Byte.eqb LF QUOTE) with false in *.
          change (Byte.eqb LF LF) with true in *. cbn [orb] in *.
          destruct F as [|F]; [lia|].
          cbn [parse_quoted index_byte]. change (Byte.eqb LF QUOTE) with false.
          cbn [option_map].
          rewrite readline_view by apply has_lf_content.
          destruct (view (esc_quotes c ++ QUOTE :: tail)) as [l1 R1] eqn:Ev. cbn [fst snd].
          simpl length in Hm.
          rewrite (IH c ltac:(lia) F l1 R1 (S n) acc _ Ev ltac:(lia)).
          rewrite crlf2lf_crlf.
          replace (S n + count_lf c) with (n + (0 + (1 + count_lf c))) by lia.
          replace (S F - (0 + (1 + cost c))) with (F - cost c) by lia.
          rewrite <- app_assoc. reflexivity.
        * (* any other byte *)
          assert (Hcr : b = CR -> starts_lf c = false).
          { intro E. subst b. rewrite beqb_refl in Ec. exact Ec. }
          cbn [app] in Hv. rewrite view_cons in Hv.
          2:{ apply beqb_neq. exact El. }
          2:{ intro E. apply not_lf_next_esc. auto. }
          destruct (view (esc_quotes c ++ QUOTE :: tail)) as [l1 R1] eqn:Ev. cbn [fst snd] in Hv.
          inversion Hv; subst line R.
          rewrite pq_step.
          2:{ apply beqb_neq. exact Eq. }
          2:{ pose proof (view_fst_ne (esc_quotes c ++ QUOTE :: tail)) as Hne. rewrite Ev in Hne. exact Hne. }
          rewrite (IH c ltac:(lia) F l1 R1 n acc _ Ev ltac:(lia)).
          rewrite crlf2lf_cons by exact Hcr.
          cbn [Nat.add]. rewrite <- app_assoc. reflexivity.
  Qed.
End Quoted.

(* ---- one record ------------------------------------------------------------------------------------------ *)
Definition wf_field (enc : bytes) (qf : bool * bytes) : Prop :=
  needs_quote enc (snd qf) = true -> fst qf = true.

Definition cost_fields (fs : list (bool * bytes)) : nat :=
  fold_right (fun qf a => 2 + length (snd qf) + a) 0 fs.
Definition nl_fields (fs : list (bool * bytes)) : nat :=
  fold_right (fun qf a => count_lf (snd qf) + a) 0 fs.
Definition norm_fields (fs : list (bool * bytes)) : list bytes :=
  map (fun qf => crlf2lf (snd qf)) fs.

Lemma count_lf_none c : mem_byte LF c = false -> count_lf c = 0.
Proof.
  induction c as [|b c IH]; intro H; [reflexivity|].
  rewrite mem_byte_cons in H. apply orb_false_iff in H as [H1 H2].
  cbn [count_lf]. rewrite beqb_sym, H1, (IH H2). reflexivity.
Qed.

Lemma has_lf_eol X crlf rest : mem_byte LF (X ++ eol crlf ++ rest) = true.
Proof.
  rewrite !mem_byte_app. destruct crlf; cbn; rewrite ?orb_true_r; reflexivity.
Qed.

Lemma skipn_app2 {A} (a b c : list A) : skipn (length a + length b) (a ++ b ++ c) = c.
Proof. rewrite app_assoc, <- app_length. apply skipn_app_len. Qed.

Definition head_is_quote (line : bytes) : bool :=
  match line with b :: _ => Byte.eqb b QUOTE | [] => false end.

Lemma pf_unquoted enc F line st acc : head_is_quote line = false ->
  parse_fields enc (S F) line st acc =
  match index_sub enc line with
  | Some i =>
      let field := firstn i line in
      if mem_byte QUOTE field then PErr st
      else parse_fields enc F (skipn (i + length enc) line) st (field :: acc)
  | None =>
      let field := strip_last LF line in
      if mem_byte QUOTE field then PErr st else PDone (rev (field :: acc)) st
  end.
Proof.
  intro H. cbn [parse_fields]. destruct line as [|b l]; [reflexivity|].
  cbn [head_is_quote] in H. rewrite H. reflexivity.
Qed.

Lemma head_app_noquote f X : mem_byte QUOTE f = false -> head_is_quote X = false ->
  head_is_quote (f ++ X) = false.
Proof.
  destruct f as [|b f]; intros H HX; [exact HX|].
  rewrite mem_byte_cons in H. apply orb_false_iff in H as [H _].
  cbn. rewrite beqb_sym. exact H.
Qed.

Section Record.
  Variable enc : bytes.
  Hypothesis G : good_enc enc.

  Lemma enc_ne : enc <> [].
  Proof. destruct G as (h & t & E & _). subst. discriminate. Qed.
  Lemma enc_lf : mem_byte LF enc = false.
  Proof. destruct G as (h & t & _ & _ & H & _). exact H. Qed.
  Lemma enc_cr : mem_byte CR enc = false.
  Proof. destruct G as (h & t & _ & _ & _ & H & _). exact H. Qed.
  Lemma enc_quote : mem_byte QUOTE enc = false.
  Proof. destruct G as (h & t & _ & _ & _ & _ & H). exact H. Qed.
  Lemma enc_head X : head_is_quote (enc ++ X) = false.
  Proof.
    pose proof enc_quote as H. destruct G as (h & t & E & _). subst enc.
    rewrite mem_byte_cons in H. apply orb_false_iff in H as [H _]. cbn. rewrite beqb_sym. exact H.
  Qed.

  Lemma index_sub_enc_here f more : index_sub enc f = None ->
    index_sub enc (f ++ enc ++ more) = Some (length f).
  Proof. destruct G as (h & t & E & Hb & _). subst enc. apply index_sub_here. exact Hb. Qed.

  Lemma pq_close_delim k f line' st acc cur :
    parse_quoted enc (S f) k (QUOTE :: enc ++ line') st acc cur = k line' st (cur :: acc).
  Proof.
    cbn [parse_quoted index_byte]. change (Byte.eqb QUOTE QUOTE) with true.
    cbn [firstn skipn]. rewrite app_nil_r.
    pose proof (enc_head line') as Hh. pose proof (is_prefix_app enc line') as Hp.
    destruct (enc ++ line') as [|b l] eqn:E.
    { apply app_eq_nil in E as [E _]. exfalso. exact (enc_ne E). }
    cbn [head_is_quote] in Hh. rewrite Hh, Hp. rewrite <- E, skipn_app_len. reflexivity.
  Qed.

  Lemma pq_close_eol k f st acc cur :
    parse_quoted enc (S f) k [QUOTE; LF] st acc cur = PDone (rev (cur :: acc)) st.
  Proof.
    cbn [parse_quoted index_byte]. change (Byte.eqb QUOTE QUOTE) with true.
    cbn [firstn skipn]. rewrite app_nil_r. change (Byte.eqb LF QUOTE) with false.
    assert (Hp : is_prefix enc [LF] = false).
    { pose proof enc_lf as H. destruct G as (h & t & E & _). subst enc.
      rewrite mem_byte_cons in H. apply orb_false_iff in H as [H _].
      cbn [is_prefix]. rewrite beqb_sym, H. reflexivity. }
    rewrite Hp. rewrite beqb_refl. reflexivity.
  Qed.

  Lemma wf_unquoted f : wf_field enc (false, f) ->
    index_sub enc f = None /\ mem_byte QUOTE f = false /\ mem_byte CR f = false /\ mem_byte LF f = false.
  Proof.
    unfold wf_field, needs_quote, contains_sub. cbn [fst snd]. intro H.
    destruct (index_sub enc f); [specialize (H eq_refl); discriminate|].
    destruct (mem_byte QUOTE f); [specialize (H eq_refl); discriminate|].
    destruct (mem_byte CR f); [specialize (H eq_refl); discriminate|].
    destruct (mem_byte LF f); [specialize (H eq_refl); discriminate|]. auto.
  Qed.

  Lemma pf_fields : forall fs, fs <> [] -> Forall (wf_field enc) fs ->
    forall crlf rest F line R n acc,
    view (join enc (map enc_field fs) ++ eol crlf ++ rest) = (line, R) ->
    cost_fields fs <= F ->
    parse_fields enc F line (mkC R n) acc =
    PDone (rev acc ++ norm_fields fs) (mkC rest (n + nl_fields fs)).
  Proof.
    induction fs as [|x fs IH]; intros Hne Hwf crlf rest F line R n acc Hv HF; [congruence|].
    inversion Hwf as [|x' fs' Hx Hfs]; subst x' fs'.
    destruct x as [q f]. cbn [cost_fields fold_right snd] in HF. fold (cost_fields fs) in HF.
    cbn [nl_fields fold_right norm_fields map snd]. fold (nl_fields fs). fold (norm_fields fs).
    destruct F as [|F]; [lia|].
    destruct q.
    - (* quoted *)
      assert (Hjoin : exists tail, mem_byte LF tail = true /\
                join enc (map enc_field ((true, f) :: fs)) ++ eol crlf ++ rest
                = QUOTE :: esc_quotes f ++ QUOTE :: tail /\
                ((fs = [] /\ tail = eol crlf ++ rest) \/
                 (fs <> [] /\ tail = enc ++ join enc (map enc_field fs) ++ eol crlf ++ rest))).
      { destruct fs as [|y fs].
        - exists (eol crlf ++ rest). split; [apply (has_lf_eol [])|]. split; [|left; auto].
          cbn [map join enc_field fst snd]. cbn [app]. rewrite <- !app_assoc. reflexivity.
        - exists (enc ++ join enc (map enc_field (y :: fs)) ++ eol crlf ++ rest).
          split; [rewrite mem_byte_app, has_lf_eol; apply orb_true_r|]. split; [|right; split; [discriminate|reflexivity]].
          cbn [map join enc_field fst snd]. cbn [app]. rewrite <- !app_assoc. reflexivity. }
      destruct Hjoin as (tail & Htl & Ej & Hcase). rewrite Ej in Hv.
      rewrite view_cons in Hv by discriminate.
      destruct (view (esc_quotes f ++ QUOTE :: tail)) as [l1 R1] eqn:Ev. cbn [fst snd] in Hv.
      inversion Hv; subst line R.
      cbn [parse_fields]. change (Byte.eqb QUOTE QUOTE) with true.
      pose proof (cost_le f) as Hc.
      rewrite (pq_content enc _ tail Htl (length f) f (le_n _) F l1 R1 n acc [] Ev ltac:(lia)).
      cbn [app]. destruct (F - cost f) as [|f0] eqn:Ef; [lia|].
      destruct Hcase as [[E1 E2]|[E1 E2]]; subst tail.
      + subst fs. rewrite view_eol. cbn [fst snd]. rewrite pq_close_eol.
        cbn [rev norm_fields map nl_fields fold_right]. rewrite Nat.add_0_r. reflexivity.
      + rewrite view_app_plain by (apply enc_lf || apply enc_cr).
        destruct (view (join enc (map enc_field fs) ++ eol crlf ++ rest)) as [l2 R2] eqn:Ev2.
        cbn [fst snd]. rewrite pq_close_delim.
        rewrite (IH E1 Hfs crlf rest F l2 R2 _ _ Ev2 ltac:(lia)).
        cbn [rev]. rewrite <- app_assoc. cbn [app]. rewrite Nat.add_assoc. reflexivity.
    - (* not quoted *)
      apply wf_unquoted in Hx as (Hi & Hq & Hcr & Hlf).
      destruct fs as [|y fs].
      + cbn [map join enc_field fst snd] in Hv.
        rewrite view_app_plain, view_eol in Hv by assumption. cbn [fst snd] in Hv.
        inversion Hv; subst line R.
        rewrite pf_unquoted by (apply head_app_noquote; [exact Hq|reflexivity]).
        rewrite (index_sub_none_app enc LF enc_ne enc_lf f Hi).
        cbn zeta. rewrite strip_last_app, Hq.
        cbn [rev norm_fields map nl_fields fold_right]. rewrite crlf2lf_id by exact Hcr.
        rewrite count_lf_none by exact Hlf. rewrite !Nat.add_0_r. reflexivity.
      + assert (Ej : join enc (map enc_field ((false, f) :: y :: fs)) ++ eol crlf ++ rest
                     = f ++ enc ++ (join enc (map enc_field (y :: fs)) ++ eol crlf ++ rest)).
        { cbn [map join enc_field fst snd]. rewrite <- !app_assoc. reflexivity. }
        rewrite Ej in Hv.
        rewrite view_app_plain in Hv by assumption.
        rewrite view_app_plain in Hv by (apply enc_lf || apply enc_cr).
        destruct (view (join enc (map enc_field (y :: fs)) ++ eol crlf ++ rest)) as [l2 R2] eqn:Ev2.
        cbn [fst snd] in Hv. inversion Hv; subst line R.
        rewrite pf_unquoted by (apply head_app_noquote; [exact Hq|apply enc_head]).
        rewrite (index_sub_enc_here f l2 Hi). cbn zeta.
        rewrite firstn_app_len, Hq, skipn_app2.
        rewrite (IH ltac:(discriminate) Hfs crlf rest F l2 R2 _ _ Ev2 ltac:(lia)).
        cbn [rev]. rewrite <- app_assoc. cbn [app].
        rewrite crlf2lf_id by exact Hcr. rewrite count_lf_none by exact Hlf. reflexivity.
  Qed.
End Record.

(* ---- one row with the empty lines before it; the table ------------------------------------------------- *)
Definition wf_row (enc : bytes) (r : erow) : Prop :=
  r_fields r <> [] /\ Forall (wf_field enc) (r_fields r) /\ r_fields r <> [(false, [])].

Definition row_out (r : erow) : cres := CRec (norm_fields (r_fields r)).

Lemma length_esc f : length f <= length (esc_quotes f).
Proof.
  induction f as [|b f IH]; [simpl; lia|]. rewrite esc_quotes_cons, app_length.
  destruct (Byte.eqb b QUOTE); simpl length; lia.
Qed.

Lemma length_enc_field x : length (snd x) <= length (enc_field x).
Proof.
  destruct x as [q f]. unfold enc_field. cbn [fst snd]. destruct q; [|lia].
  simpl length. rewrite app_length. pose proof (length_esc f). simpl. lia.
Qed.

Lemma cost_fields_bound enc fs : enc <> [] ->
  cost_fields fs <= 2 * (length (join enc (map enc_field fs)) + 1).
Proof.
  intro He. induction fs as [|x fs IH]; [simpl; lia|].
  cbn [cost_fields fold_right]. fold (cost_fields fs).
  pose proof (length_enc_field x) as Hx.
  destruct fs as [|y fs].
  - cbn [map join cost_fields fold_right]. lia.
  - change (join enc (map enc_field (x :: y :: fs)))
      with (enc_field x ++ enc ++ join enc (map enc_field (y :: fs))).
    rewrite !app_length. destruct enc; [congruence|]. simpl length in *. lia.
Qed.

Lemma next_line_blanks : forall bl fuel X n, length bl <= fuel ->
  next_line fuel (mkC (flat_map eol bl ++ X) n) = next_line (fuel - length bl) (mkC X (n + length bl)).
Proof.
  induction bl as [|b bl IH]; intros fuel X n H.
  - cbn [flat_map app length]. rewrite Nat.sub_0_r, Nat.add_0_r. reflexivity.
  - simpl length in *. destruct fuel as [|fuel]; [lia|].
    cbn [flat_map]. rewrite <- app_assoc. cbn [next_line].
    rewrite readline_view by (apply (has_lf_eol [])). rewrite view_eol. cbn [fst snd is_blank].
    rewrite beqb_refl. rewrite IH by lia.
    replace (S n + length bl) with (n + S (length bl)) by lia. reflexivity.
Qed.

Lemma length_blanks bl : length bl <= length (flat_map eol bl).
Proof. induction bl as [|b bl IH]; [simpl; lia|]. cbn [flat_map]. rewrite app_length. destruct b; simpl; lia. Qed.

Lemma is_blank_long b l : l <> [] -> is_blank (b :: l) = false.
Proof. destruct l; [congruence|reflexivity]. Qed.

Section Rows.
  Variable comma : rune.
  Hypothesis V : valid_delim comma = true.
  Let enc := encode_rune comma.
  Let G : good_enc enc := valid_delim_good_enc comma V.

  Lemma first_line_not_blank fs crlf rest line R :
    fs <> [] -> Forall (wf_field enc) fs -> fs <> [(false, [])] ->
    view (join enc (map enc_field fs) ++ eol crlf ++ rest) = (line, R) -> is_blank line = false.
  Proof.
    intros Hne Hwf Hse Hv. destruct fs as [|[q f] fs]; [congruence|].
    inversion Hwf as [|x' fs' Hx Hfs]; subst x' fs'.
    destruct q.
    - assert (E : exists Y, join enc (map enc_field ((true, f) :: fs)) ++ eol crlf ++ rest = QUOTE :: Y).
      { destruct fs; cbn [map join enc_field fst snd app]; eauto. }
      destruct E as (Y & E). rewrite E in Hv. rewrite view_cons in Hv by discriminate.
      inversion Hv. apply is_blank_long. apply view_fst_ne.
    - apply wf_unquoted in Hx as (_ & _ & Hcr & Hlf).
      destruct f as [|b f].
      + destruct fs as [|y fs]; [exfalso; apply Hse; reflexivity|].
        assert (Ej : join enc (map enc_field ((false, []) :: y :: fs)) ++ eol crlf ++ rest
                     = enc ++ (join enc (map enc_field (y :: fs))) ++ eol crlf ++ rest).
        { cbn [map join enc_field fst snd app]. rewrite <- app_assoc. reflexivity. }
        pose proof (eq_trans (f_equal view (eq_sym Ej)) Hv) as Hv2.
        rewrite view_app_plain in Hv2 by (apply (enc_lf enc G) || apply (enc_cr enc G)).
        inversion Hv2. destruct G as (h & t & E & _). rewrite E. cbn [app].
        apply is_blank_long. intro E2. apply app_eq_nil in E2 as [_ E2].
        exact (view_fst_ne _ E2).
      + assert (E : exists Y, join enc (map enc_field ((false, b :: f) :: fs)) ++ eol crlf ++ rest = b :: Y).
        { destruct fs; cbn [map join enc_field fst snd app]; eauto. }
        destruct E as (Y & E). pose proof (eq_trans (f_equal view (eq_sym E)) Hv) as Hv2.
        clear Hv. rename Hv2 into Hv.
        rewrite mem_byte_cons in Hcr, Hlf.
        apply orb_false_iff in Hcr as [Hcr _]. apply orb_false_iff in Hlf as [Hlf _].
        rewrite view_cons in Hv.
        * inversion Hv. apply is_blank_long. apply view_fst_ne.
        * apply beqb_neq. rewrite beqb_sym. exact Hlf.
        * intro E2. subst b. rewrite beqb_refl in Hcr. discriminate.
  Qed.

  Lemma csv_next_row_strict r rest n : wf_row enc r ->
    csv_next_strict comma (mkC (enc_row enc r ++ rest) n) =
    (row_out r, mkC rest (n + length (r_blanks r) + 1 + nl_fields (r_fields r))).
  Proof.
    intros (Hne & Hwf & Hse). unfold csv_next_strict. rewrite V. cbn [negb].
    unfold enc_row. rewrite <- !app_assoc.
    set (T := join enc (map enc_field (r_fields r)) ++ eol (r_crlf r) ++ rest).
    set (st := mkC (flat_map eol (r_blanks r) ++ T) n).
    assert (Hfuel : cost_fields (r_fields r) + length (r_blanks r) + 1 <= csv_fuel st).
    { unfold csv_fuel, st, T. cbn [c_in]. rewrite !app_length.
      pose proof (cost_fields_bound enc (r_fields r) (enc_ne enc G)).
      pose proof (length_blanks (r_blanks r)). destruct (r_crlf r); simpl length; lia. }
    unfold st at 2. rewrite next_line_blanks by lia.
    destruct (csv_fuel st - length (r_blanks r)) as [|f] eqn:Ef; [lia|].
    cbn [next_line]. rewrite readline_view by (unfold T; apply has_lf_eol).
    destruct (view T) as [line R] eqn:Ev. cbn [fst snd].
    rewrite (first_line_not_blank _ _ _ _ _ Hne Hwf Hse Ev).
    fold enc.
    rewrite (pf_fields enc G _ Hne Hwf _ _ (csv_fuel st) _ _ _ [] Ev ltac:(lia)).
    unfold row_out. cbn [rev app]. f_equal. f_equal. lia.
  Qed.

  (* the readers' configuration (Gen/CsvCfg.v, extracted from the two NewReader functions) is the one
     the transcription is for: csv_next is csv_next_strict.  If the source configures encoding/csv
     differently this stops checking, and with it every theorem about the csv readers. *)
  Lemma csv_next_is_strict c st : csv_next c st = csv_next_strict c st.
  Proof. reflexivity. Qed.

  Lemma csv_next_row r rest n : wf_row enc r ->
    csv_next comma (mkC (enc_row enc r ++ rest) n) =
    (row_out r, mkC rest (n + length (r_blanks r) + 1 + nl_fields (r_fields r))).
  Proof. intro H. rewrite csv_next_is_strict. apply csv_next_row_strict. exact H. Qed.

  Lemma csv_next_eof bl n : exists n', csv_next comma (mkC (flat_map eol bl) n) = (CEOF, mkC [] n').
  Proof.
    rewrite csv_next_is_strict. unfold csv_next_strict. rewrite V. cbn [negb].
    set (st := mkC (flat_map eol bl) n).
    assert (Hfuel : length bl + 1 <= csv_fuel st).
    { unfold csv_fuel, st. cbn [c_in]. pose proof (length_blanks bl). lia. }
    unfold st at 2. rewrite <- (app_nil_r (flat_map eol bl)).
    rewrite next_line_blanks by lia.
    destruct (csv_fuel st - length bl) as [|f] eqn:Ef; [lia|].
    cbn. eauto.
  Qed.

  Lemma length_rows t : length t <= length (flat_map (enc_row enc) t).
  Proof.
    induction t as [|r t IH]; [simpl; lia|]. cbn [flat_map]. rewrite app_length.
    unfold enc_row at 1. rewrite !app_length. destruct (r_crlf r); simpl length; lia.
  Qed.

  Lemma csv_read_all_table trailing : forall t fuel n, length t < fuel ->
    Forall (wf_row enc) t ->
    csv_read_all fuel comma (mkC (flat_map (enc_row enc) t ++ flat_map eol trailing) n) = map row_out t.
  Proof.
    induction t as [|r t IH]; intros fuel n Hf Hwf; (destruct fuel as [|fuel]; [simpl in Hf; lia|]).
    - cbn [flat_map app csv_read_all map]. destruct (csv_next_eof trailing n) as (n' & E). rewrite E. reflexivity.
    - inversion Hwf as [|r' t' Hr Ht]; subst r' t'.
      cbn [flat_map csv_read_all map]. rewrite <- app_assoc.
      rewrite (csv_next_row r _ n Hr). unfold row_out at 1.
      rewrite IH; [reflexivity| simpl in Hf; lia | exact Ht].
  Qed.

  Theorem csv_roundtrip_proof t trailing : Forall (wf_row enc) t ->
    csv_read comma (csv_encode comma t trailing) = map row_out t.
  Proof.
    intro Hwf. unfold csv_read, csv_encode. fold enc. apply csv_read_all_table; [|exact Hwf].
    rewrite app_length. pose proof (length_rows t). lia.
  Qed.
End Rows.

(* ---- empty lines are ignored ------------------------------------------------------------------------------ *)
Definition no_blanks (r : erow) : erow := mkRow [] (r_fields r) (r_crlf r).

Theorem empty_lines_ignored_proof comma t trailing :
  valid_delim comma = true -> Forall (wf_row (encode_rune comma)) t ->
  csv_read comma (csv_encode comma t trailing) = csv_read comma (csv_encode comma (map no_blanks t) []).
Proof.
  intros V H. rewrite (csv_roundtrip_proof comma V t trailing H).
  rewrite (csv_roundtrip_proof comma V (map no_blanks t) []).
  - rewrite map_map. reflexivity.
  - rewrite Forall_forall in *. intros r Hr. apply in_map_iff in Hr as (r0 & <- & Hr0).
    exact (H r0 Hr0).
Qed.

(* ---- a line on which the decoder fails: a quote inside an unquoted first cell --------------------------- *)
Lemma csv_next_bare_quote comma f tailf rest n :
  valid_delim comma = true ->
  let enc := encode_rune comma in
  f <> [] -> head_is_quote f = false -> index_sub enc f = None -> mem_byte QUOTE f = true ->
  (tailf = [] \/ exists g, tailf = enc ++ g) ->
  mem_byte LF (f ++ tailf) = false -> mem_byte CR (f ++ tailf) = false ->
  csv_next comma (mkC ((f ++ tailf) ++ LF :: rest) n) = (CParseErr, mkC rest (S n)).
Proof.
  intros V enc Hne Hh Hi Hq Ht Hlf Hcr.
  pose proof (valid_delim_good_enc comma V) as G. fold enc in G.
  change (csv_next comma ?x) with (csv_next_strict comma x).
  unfold csv_next_strict. rewrite V. cbn [negb].
  set (st := mkC ((f ++ tailf) ++ LF :: rest) n).
  assert (Hfu : exists F, csv_fuel st = S F) by (unfold csv_fuel; exists (2 * length (c_in st) + 7); lia).
  destruct Hfu as (F & HF). rewrite HF. cbn [next_line]. unfold st at 1.
  rewrite readline_view by (rewrite mem_byte_app, mem_byte_cons, beqb_refl; apply orb_true_r).
  rewrite view_app_plain by assumption. rewrite view_lf. cbn [fst snd].
  assert (Hb : is_blank ((f ++ tailf) ++ [LF]) = false).
  { destruct f as [|b f]; [congruence|]. cbn [app]. apply is_blank_long.
    destruct (f ++ tailf); discriminate. }
  rewrite Hb. fold enc.
  assert (Hhead : head_is_quote ((f ++ tailf) ++ [LF]) = false).
  { destruct f as [|b f]; [congruence|]. exact Hh. }
  rewrite pf_unquoted by exact Hhead.
  destruct Ht as [-> | (g & ->)].
  - rewrite app_nil_r. rewrite (index_sub_none_app enc LF (enc_ne enc G) (enc_lf enc G) f Hi).
    cbn zeta. rewrite strip_last_app, Hq. reflexivity.
  - rewrite <- !app_assoc. rewrite (index_sub_enc_here enc G f (g ++ [LF]) Hi).
    cbn zeta. rewrite firstn_app_len, Hq. reflexivity.
Qed.

(* ---- replace_double_quotes ------------------------------------------------------------------------------ *)
(* The option turns every double quote of the input into an apostrophe before the csv decoder sees
   it, so nothing is quoted any more: a table written without quoting reads back with the quotes of
   its cells replaced. *)
Definition rq_row (r : erow) : erow :=
  mkRow (r_blanks r) (map (fun qf => (false, replace_dq (snd qf))) (r_fields r)) (r_crlf r).

Lemma replace_dq_app a b : replace_dq (a ++ b) = replace_dq a ++ replace_dq b.
Proof. apply map_app. Qed.

Lemma replace_dq_id s : mem_byte QUOTE s = false -> replace_dq s = s.
Proof.
  induction s as [|b s IH]; intro H; [reflexivity|].
  rewrite mem_byte_cons in H. apply orb_false_iff in H as [H1 H2].
  cbn [replace_dq map]. rewrite beqb_sym, H1. f_equal. exact (IH H2).
Qed.

Lemma replace_dq_eol b : replace_dq (eol b) = eol b.
Proof. destruct b; reflexivity. Qed.

Lemma replace_dq_blanks bl : replace_dq (flat_map eol bl) = flat_map eol bl.
Proof.
  induction bl as [|b bl IH]; [reflexivity|]. cbn [flat_map].
  rewrite replace_dq_app, replace_dq_eol, IH. reflexivity.
Qed.

Lemma replace_dq_join enc : mem_byte QUOTE enc = false -> forall fs,
  Forall (fun qf : bool * bytes => fst qf = false) fs ->
  replace_dq (join enc (map enc_field fs))
  = join enc (map enc_field (map (fun qf => (false, replace_dq (snd qf))) fs)).
Proof.
  intros He fs. induction fs as [|[q v] fs IH]; intro H; [reflexivity|].
  inversion H as [|x y Hq Hr]; subst. cbn [fst] in Hq. subst q.
  destruct fs as [|y fs]; [reflexivity|].
  change (join enc (map enc_field ((false, v) :: y :: fs)))
    with (v ++ enc ++ join enc (map enc_field (y :: fs))).
  rewrite !replace_dq_app, (replace_dq_id enc He), (IH Hr). reflexivity.
Qed.

Lemma replace_dq_row enc r : mem_byte QUOTE enc = false ->
  Forall (fun qf : bool * bytes => fst qf = false) (r_fields r) ->
  replace_dq (enc_row enc r) = enc_row enc (rq_row r).
Proof.
  intros He H. unfold enc_row, rq_row. cbn [r_blanks r_fields r_crlf].
  rewrite !replace_dq_app, replace_dq_blanks, replace_dq_eol, (replace_dq_join enc He _ H). reflexivity.
Qed.

Theorem csv_replace_dq_roundtrip_proof comma t trailing :
  valid_delim comma = true ->
  Forall (fun r => Forall (fun qf : bool * bytes => fst qf = false) (r_fields r)) t ->
  Forall (wf_row (encode_rune comma)) (map rq_row t) ->
  csv_read comma (replace_dq (csv_encode comma t trailing)) = map row_out (map rq_row t).
Proof.
  intros V Hu Hwf.
  pose proof (valid_delim_good_enc comma V) as G. pose proof (enc_quote _ G) as Hq.
  assert (E : replace_dq (csv_encode comma t trailing) = csv_encode comma (map rq_row t) trailing).
  { unfold csv_encode. rewrite replace_dq_app, replace_dq_blanks. f_equal.
    clear Hwf. induction t as [|r t IH]; [reflexivity|].
    inversion Hu as [|x y Hr Ht]; subst. cbn [flat_map map].
    rewrite replace_dq_app, (replace_dq_row _ r Hq Hr), (IH Ht). reflexivity. }
  rewrite E. apply csv_roundtrip_proof; assumption.
Qed.
