(* C12 proofs, part 3: what each transcribed function does to the heap, as lookups.
   add_child, unlink (the first half of RemoveAndReleaseTree) and recycle. *)
From Coq Require Import List NArith ZArith Bool Lia.
From stdpp Require Import pmap.
From OV Require Import Base.Bytes Base.Cases Base.Tree Model.Heap Proofs.HeapTree.
Import ListNotations.

Ltac lk := repeat (rewrite lookup_insert || (rewrite lookup_insert_ne by congruence)).

Lemma oaddr_eqb_spec a b : oaddr_eqb a b = true <-> a = b.
Proof.
  destruct a as [a|], b as [b|]; simpl; split; intros H; try discriminate; try reflexivity.
  - apply Pos.eqb_eq in H. congruence.
  - inversion H. apply Pos.eqb_refl.
Qed.
Lemma oaddr_eqb_false a b : oaddr_eqb a b = false <-> a <> b.
Proof.
  split.
  - intros H E. apply oaddr_eqb_spec in E. congruence.
  - intros H. destruct (oaddr_eqb a b) eqn:E; [|reflexivity]. apply oaddr_eqb_spec in E. contradiction.
Qed.

Ltac hs :=
  repeat first
    [ rewrite lookup_insert
    | rewrite lookup_insert_ne by congruence
    | progress simpl
    | progress unfold upd, updp, load, loadp
    | match goal with
      | H : _ !! _ = Some _ |- _ => rewrite H
      | H : n_first _ = _ |- _ => rewrite H
      | H : n_last _ = _ |- _ => rewrite H
      | H : n_prev _ = _ |- _ => rewrite H
      | H : n_next _ = _ |- _ => rewrite H
      | H : n_parent _ = _ |- _ => rewrite H
      | H : oaddr_eqb _ _ = _ |- _ => rewrite H
      end ].

(* ---- AddChild ------------------------------------------------------------------------------------ *)
Lemma add_child_spec h p n xp xn :
  h !! p = Some xp -> h !! n = Some xn -> p <> n ->
  (n_first xp = None <-> n_last xp = None) ->
  (forall l, n_last xp = Some l -> l <> n /\ l <> p /\ exists xl, h !! l = Some xl) ->
  exists h', add_child h p n = Ok h' /\
    h' !! n = Some (set_prev (n_last xp) (set_next None (set_parent (Some p) xn))) /\
    h' !! p = Some (set_last (Some n)
                      (match n_first xp with None => set_first (Some n) xp | Some _ => xp end)) /\
    (forall l xl, n_last xp = Some l -> h !! l = Some xl -> h' !! l = Some (set_next (Some n) xl)) /\
    (forall a, a <> n -> a <> p -> Some a <> n_last xp -> h' !! a = h !! a).
Proof.
  intros Hp Hn Hpn Hfl Hl. unfold add_child.
  destruct (n_first xp) as [f|] eqn:Ef.
  - destruct (n_last xp) as [l|] eqn:El; [|exfalso; destruct Hfl as [_ H]; specialize (H eq_refl); discriminate].
    destruct (Hl l eq_refl) as (Hln & Hlp & xl & Hxl). hs.
    eexists. split; [reflexivity|]. split; [|split; [|split]].
    + hs. reflexivity.
    + hs. reflexivity.
    + intros l0 xl0 E0 Hx0. inversion E0; subst l0. hs. congruence.
    + intros a Han Hap Hal. hs. reflexivity.
  - assert (El : n_last xp = None) by (apply Hfl; reflexivity). hs.
    eexists. split; [reflexivity|]. split; [|split; [|split]].
    + hs. reflexivity.
    + hs. reflexivity.
    + intros l0 xl0 E0. congruence.
    + intros a Han Hap _. hs. reflexivity.
Qed.

(* ---- RemoveAndReleaseTree: unlinking ---------------------------------------------------------------- *)
Lemma set_first_last_eta xp : set_last (n_last xp) (set_first (n_first xp) xp) = xp.
Proof. destruct xp; reflexivity. Qed.

Lemma unlink_root h n xn : h !! n = Some xn -> n_parent xn = None -> unlink h n = Ok h.
Proof. intros Hn Hp. unfold unlink, load. rewrite Hn. simpl. rewrite Hp. reflexivity. Qed.

Lemma unlink_spec h n xn p xp :
  h !! n = Some xn -> n_parent xn = Some p -> h !! p = Some xp -> p <> n ->
  (n_first xp = Some n <-> n_prev xn = None) -> (n_last xp = Some n <-> n_next xn = None) ->
  (forall a, n_prev xn = Some a -> a <> n /\ a <> p /\ exists xa, h !! a = Some xa) ->
  (forall b, n_next xn = Some b -> b <> n /\ b <> p /\ exists xb, h !! b = Some xb) ->
  (forall a b, n_prev xn = Some a -> n_next xn = Some b -> a <> b) ->
  exists h', unlink h n = Ok h' /\
    h' !! p = Some (set_last (match n_next xn with None => n_prev xn | Some _ => n_last xp end)
                     (set_first (match n_prev xn with None => n_next xn | Some _ => n_first xp end) xp)) /\
    (forall a xa, n_prev xn = Some a -> h !! a = Some xa -> h' !! a = Some (set_next (n_next xn) xa)) /\
    (forall b xb, n_next xn = Some b -> h !! b = Some xb -> h' !! b = Some (set_prev (n_prev xn) xb)) /\
    (forall c, c <> p -> Some c <> n_prev xn -> Some c <> n_next xn -> h' !! c = h !! c).
Proof.
  intros Hn Hpar Hp Hpn Hf Hl Hpv Hnx Hab. unfold unlink.
  destruct (oaddr_eqb (n_first xp) (Some n)) eqn:Ef.
  - pose proof Ef as Ef'. apply oaddr_eqb_spec in Ef'. assert (Epv : n_prev xn = None) by (apply Hf; exact Ef').
    destruct (oaddr_eqb (n_last xp) (Some n)) eqn:El.
    + pose proof El as El'. apply oaddr_eqb_spec in El'. assert (Enx : n_next xn = None) by (apply Hl; exact El').
      clear Ef' El' Hf Hl. hs.
      eexists. split; [reflexivity|]. split; [|split; [|split]].
      * hs. reflexivity.
      * intros a xa E. discriminate.
      * intros b xb E. discriminate.
      * intros c Hc _ _. hs. reflexivity.
    + pose proof El as El'. apply oaddr_eqb_false in El'.
      destruct (n_next xn) as [b|] eqn:Enx; [|exfalso; apply El'; apply Hl; reflexivity].
      destruct (Hnx b eq_refl) as (Hbn & Hbp & xb & Hxb).
      clear Ef' El' Hf Hl. hs.
      eexists. split; [reflexivity|]. split; [|split; [|split]].
      * hs. destruct xp; reflexivity.
      * intros a xa E. discriminate.
      * intros b0 xb0 E Hx0. inversion E; subst b0. hs. congruence.
      * intros c Hc _ Hcb. hs. reflexivity.
  - pose proof Ef as Ef'. apply oaddr_eqb_false in Ef'.
    destruct (n_prev xn) as [a|] eqn:Epv; [|exfalso; apply Ef'; apply Hf; reflexivity].
    destruct (Hpv a eq_refl) as (Han & Hap & xa & Hxa).
    destruct (oaddr_eqb (n_last xp) (Some n)) eqn:El.
    + pose proof El as El'. apply oaddr_eqb_spec in El'. assert (Enx : n_next xn = None) by (apply Hl; exact El').
      clear Ef' El' Hf Hl. hs.
      eexists. split; [reflexivity|]. split; [|split; [|split]].
      * hs. destruct xp; reflexivity.
      * intros a0 xa0 E Hx0. inversion E; subst a0. hs. congruence.
      * intros b xb E. discriminate.
      * intros c Hc Hca _. hs. reflexivity.
    + pose proof El as El'. apply oaddr_eqb_false in El'.
      destruct (n_next xn) as [b|] eqn:Enx; [|exfalso; apply El'; apply Hl; reflexivity].
      destruct (Hnx b eq_refl) as (Hbn & Hbp & xb & Hxb).
      assert (Hne : a <> b) by (apply Hab; reflexivity).
      clear Ef' El' Hf Hl. hs.
      eexists. split; [reflexivity|]. split; [|split; [|split]].
      * hs. destruct xp; reflexivity.
      * intros a0 xa0 E Hx0. inversion E; subst a0. hs. congruence.
      * intros b0 xb0 E Hx0. inversion E; subst b0. hs. congruence.
      * intros c Hc Hca Hcb. hs. reflexivity.
Qed.

(* ---- recycle ------------------------------------------------------------------------------------------ *)
Fixpoint blank_all (h : heapT) (id : Z) (l : list addr) : heapT :=
  match l with
  | [] => h
  | a :: r => blank_all (<[a := blank (id + 1)]> h) (id + 1) r
  end.

(* the state after the nodes l have been reset and pooled one after the other *)
Definition recycled (s : st) (l : list addr) : st :=
  mkSt (blank_all (heap s) (next_id s) l) (rev l ++ pool s)
       (next_id s + Z.of_nat (length l)) (next_addr s).

Lemma blank_all_app h id l1 l2 :
  blank_all h id (l1 ++ l2) = blank_all (blank_all h id l1) (id + Z.of_nat (length l1)) l2.
Proof.
  revert h id. induction l1 as [|a l1 IH]; intros h id; simpl.
  - f_equal. lia.
  - rewrite IH. f_equal. lia.
Qed.

Lemma blank_all_notin l : forall h id a, a ∉ l -> blank_all h id l !! a = h !! a.
Proof.
  induction l as [|b l IH]; intros h id a Ha; simpl; [reflexivity|].
  rewrite IH; [|intros H; apply Ha; apply elem_of_cons; auto].
  apply lookup_insert_ne. intros ->. apply Ha. apply elem_of_cons; auto.
Qed.

Lemma blank_all_nth l : forall h id i a, NoDup l -> l !! i = Some a ->
  blank_all h id l !! a = Some (blank (id + 1 + Z.of_nat i)).
Proof.
  induction l as [|b l IH]; intros h id i a Hnd Hi; [destruct i; discriminate|].
  apply NoDup_cons in Hnd as [Hb Hnd]. simpl. destruct i as [|i]; simpl in Hi.
  - inversion Hi; subst b. rewrite blank_all_notin by exact Hb. rewrite lookup_insert.
    f_equal. f_equal. lia.
  - rewrite (IH _ _ i a Hnd Hi). f_equal. f_equal. lia.
Qed.

Lemma blank_all_in l h id a : a ∈ l ->
  exists id', (id < id' <= id + Z.of_nat (length l))%Z /\ blank_all h id l !! a = Some (blank id').
Proof.
  revert h id. induction l as [|b l IH]; intros h id Ha; [inversion Ha|]. simpl.
  destruct (decide (a ∈ l)) as [Hin|Hnin].
  - destruct (IH (<[b:=blank (id + 1)]> h) (id + 1)%Z Hin) as [id' [H1 H2]].
    exists id'. split; [lia|exact H2].
  - apply elem_of_cons in Ha as [->|Ha]; [|contradiction].
    exists (id + 1)%Z. split; [lia|]. rewrite blank_all_notin by exact Hnin. apply lookup_insert.
Qed.

Lemma recycled_nil s : recycled s [] = s.
Proof. destruct s. unfold recycled. simpl. f_equal. lia. Qed.

Lemma recycled_app s l1 l2 : recycled (recycled s l1) l2 = recycled s (l1 ++ l2).
Proof.
  unfold recycled. simpl. rewrite blank_all_app, rev_app_distr, app_length, app_assoc.
  f_equal. lia.
Qed.

Definition ksize (ks : list atree) : nat := fold_right (fun k n => (tsize k + n)%nat) O ks.

Lemma tsize_pos t : (1 <= tsize t)%nat.
Proof. destruct t. simpl. lia. Qed.

Lemma postorder_perm : forall t, postorder t ≡ₚ addrs t.
Proof.
  induction t as [a ks IH] using atree_ind2. simpl.
  rewrite Permutation_app_comm. simpl. constructor.
  induction IH as [|k r Hk Hr IHr]; simpl; [reflexivity|].
  rewrite Hk, IHr. reflexivity.
Qed.

Lemma postorder_kids_perm ks : flat_map postorder ks ≡ₚ flat_map addrs ks.
Proof.
  induction ks as [|k r IH]; simpl; [reflexivity|]. rewrite postorder_perm, IH. reflexivity.
Qed.

Lemma tsize_length : forall t, tsize t = length (addrs t).
Proof.
  induction t as [a ks IH] using atree_ind2. simpl. f_equal.
  induction IH as [|k r Hk Hr IHr]; simpl; [reflexivity|]. rewrite app_length. lia.
Qed.

Section recycle.
  (* the loop over the children, given the specification of recycle for each child *)
  Lemma recycle_kids_spec : forall ks,
    Forall (fun k => forall fuel s par prev next,
              tree_ok (heap s) par prev next k -> NoDup (addrs k) -> (2 * tsize k <= fuel)%nat ->
              recycle fuel s (root k) = Ok (recycled s (postorder k))) ks ->
    forall fuel s par pv,
      chain (tree_ok (heap s) par) pv None ks -> NoDup (flat_map addrs ks) ->
      (2 * ksize ks + 1 <= fuel)%nat ->
      recycle_kids fuel s (hd_addr ks) = Ok (recycled s (flat_map postorder ks)).
  Proof.
    induction 1 as [|k r Hk Hr IHr]; intros fuel s par pv Hc Hnd Hfuel.
    - simpl. destruct fuel; [lia|]. simpl. rewrite recycled_nil. reflexivity.
    - simpl in Hc. destruct Hc as [Hok Hc]. simpl in Hnd. apply NoDup_app in Hnd as (Hndk & Hdisj & Hndr).
      simpl in Hfuel. pose proof (tsize_pos k) as Hpos. destruct fuel as [|f]; [lia|]. simpl.
      destruct (tree_ok_root _ _ _ _ _ Hok) as [x [Hx (_ & _ & Hnx & _)]].
      unfold load. rewrite Hx. simpl.
      rewrite (Hk f s _ _ _ Hok Hndk) by lia. simpl.
      rewrite Hnx.
      assert (Hn : nx_of None r = hd_addr r) by (destruct r; reflexivity). rewrite Hn.
      rewrite (IHr f (recycled s (postorder k)) par (Some (root k))); [|..|exact Hndr|lia].
      + rewrite recycled_app. reflexivity.
      + eapply chain_impl; [|exact Hc]. intros k' pv' nx' Hk' Hok'.
        eapply tree_ok_frame; [|exact Hok']. intros a Ha. simpl.
        apply blank_all_notin. rewrite postorder_perm. intros Hin. apply (Hdisj a Hin).
        apply elem_of_flat_map. eauto.
  Qed.
End recycle.

Lemma recycle_spec : forall t fuel s par prev next,
  tree_ok (heap s) par prev next t -> NoDup (addrs t) -> (2 * tsize t <= fuel)%nat ->
  recycle fuel s (root t) = Ok (recycled s (postorder t)).
Proof.
  induction t as [a ks IH] using atree_ind2. intros fuel s par prev next [Hn Hc] Hnd Hfuel.
  simpl in Hnd. apply NoDup_cons in Hnd as [Ha Hnd].
  simpl in Hfuel. destruct fuel as [|f]; [lia|]. simpl.
  destruct Hn as [x [Hx (_ & _ & _ & Hf & _)]]. unfold load. rewrite Hx. simpl. rewrite Hf.
  rewrite (recycle_kids_spec ks IH f s (Some a) None Hc Hnd) by (unfold ksize; lia). simpl.
  unfold reset. simpl.
  rewrite blank_all_notin by (rewrite postorder_kids_perm; exact Ha). rewrite Hx.
  unfold pool_put, recycled. simpl.
  rewrite blank_all_app, rev_app_distr, app_length. simpl. f_equal. f_equal; lia.
Qed.

(* ---- counting: a duplicate-free list of addresses below next_addr is shorter than next_addr -------- *)
Lemma nodup_below_length (l : list addr) (n : addr) :
  NoDup l -> (forall a, a ∈ l -> (a < n)%positive) -> (length l < Pos.to_nat n)%nat.
Proof.
  intros Hnd Hlt.
  assert (Hsub : map Pos.to_nat l ⊆+ seq 1 (Pos.to_nat n - 1)).
  { apply NoDup_submseteq.
    - apply NoDup_fmap_2; [|exact Hnd]. intros x y. apply Pos2Nat.inj.
    - intros x Hx. apply elem_of_list_fmap in Hx as [a [-> Ha]]. apply elem_of_seq.
      specialize (Hlt a Ha). lia. }
  apply submseteq_length in Hsub. rewrite map_length, seq_length in Hsub. lia.
Qed.
