(* C06 proofs, part 7: the old csv reader for every header_row_index / data_row_index.
   jumpTo(row) reads whole records while the decoder's line counter is below row; a record takes
   as many physical lines as the empty lines before it, plus one, plus the line breaks inside its
   quoted fields.  [jump_spec] says which rows that consumes; the theorem states, for every table
   (as in csv_roundtrip: blank lines and multi-line rows anywhere), which row is taken as the
   header and which rows are delivered. *)
From Coq Require Import List NArith Bool Arith Lia.
From Coq.Strings Require Import Byte.
Import ListNotations.
From OV Require Import Base.Bytes Base.Utf8 Base.Cases Base.Tree Model.Csv Model.Fixed Model.Delim
  Proofs.DelimUtf8 Proofs.DelimCsv Proofs.DelimReaders.

Definition row_lines (r : erow) : nat := length (r_blanks r) + 1 + nl_fields (r_fields r).

(* jumpTo from line counter n to target over the rows: Some (rows consumed, counter reached), or
   None when the input ends first *)
Fixpoint jump_spec (n target : nat) (rows : list erow) : option (nat * nat) :=
  match rows with
  | [] => if n <? target then None else Some (0, n)
  | r :: rs =>
      if n <? target then
        match jump_spec (n + row_lines r) target rs with
        | Some (j, n') => Some (S j, n')
        | None => None
        end
      else Some (0, n)
  end.

Section Jump.
  Variable trim : bytes -> bytes.
  Variable d : csvdecl.
  Hypothesis V : valid_delim (d_delim d) = true.
  Notation comma := (d_delim d).
  Notation enc := (encode_rune (d_delim d)).
  Notation oread := (old_read trim d).

  Lemma jump_to_spec trailing target : forall rows fuel n, Forall (wf_row enc) rows ->
    target - n < fuel ->
    match jump_spec n target rows with
    | Some (j, n') =>
        jump_to fuel comma target (mkC (flat_map (enc_row enc) rows ++ flat_map eol trailing) n)
        = Some (JOk, mkC (flat_map (enc_row enc) (skipn j rows) ++ flat_map eol trailing) n')
    | None =>
        exists n', jump_to fuel comma target (mkC (flat_map (enc_row enc) rows ++ flat_map eol trailing) n)
                   = Some (JEof, mkC [] n')
    end.
  Proof.
    induction rows as [|r rows IH]; intros fuel n Hwf Hf.
    - cbn [jump_spec flat_map app]. destruct fuel as [|fuel]; [lia|]. cbn [jump_to c_line].
      destruct (n <? target) eqn:E; [|reflexivity].
      destruct (csv_next_eof comma V trailing n) as (n' & ->). eauto.
    - inversion Hwf as [|r' t' Hr Ht]; subst r' t'.
      cbn [jump_spec flat_map]. destruct fuel as [|fuel]; [lia|]. cbn [jump_to c_line].
      destruct (n <? target) eqn:E; [|reflexivity].
      apply Nat.ltb_lt in E. rewrite <- app_assoc.
      rewrite (csv_next_row _ V r _ n Hr). unfold row_out.
      assert (En : n + length (r_blanks r) + 1 + nl_fields (r_fields r) = n + row_lines r)
        by (unfold row_lines; lia).
      rewrite En.
      specialize (IH fuel (n + row_lines r) Ht ltac:(unfold row_lines; lia)).
      destruct (jump_spec (n + row_lines r) target rows) as [[j n']|].
      + cbn [skipn]. exact IH.
      + exact IH.
  Qed.

  Lemma old_rows_more trailing m : forall t n, Forall (wf_row enc) t ->
    run_reads ost oread (S (length t) + m)
              (mkO (mkC (flat_map (enc_row enc) t ++ flat_map eol trailing) n) true false)
    = map (row_node d) t ++ [OEOF].
  Proof.
    induction t as [|r t IH]; intros n Hwf.
    - cbn [flat_map app length Nat.add run_reads map]. unfold old_read. cbn [o_latched o_checked].
      destruct (old_fetch_eof d V trailing n) as (n' & ->). reflexivity.
    - inversion Hwf as [|r' t' Hr Ht]; subst r' t'.
      cbn [flat_map length map app Nat.add]. rewrite <- app_assoc.
      change (run_reads ost oread (S (S (length t + m))) ?s)
        with (let '(o, s') := oread s in if terminal o then [o] else o :: run_reads ost oread (S (length t) + m) s').
      unfold old_read at 1. cbn [o_latched o_checked].
      destruct (old_fetch_row d V r (flat_map (enc_row enc) t ++ flat_map eol trailing) n Hr) as (n' & ->).
      unfold row_node at 1. cbn [terminal]. rewrite (IH n' Ht). reflexivity.
  Qed.

  (* what the reader delivers once the line counter is n and the rows below are unread *)
  Definition after_data (n : nat) (rows : list erow) : list outcome :=
    match jump_spec n (d_data d - 1) rows with
    | None => [OEOF]
    | Some (j, _) => map (row_node d) (skipn j rows) ++ [OEOF]
    end.

  Definition old_spec (rows : list erow) : list outcome :=
    match d_header d with
    | None => after_data 0 rows
    | Some h =>
        match jump_spec 0 (h - 1) rows with
        | None => [OFatal]
        | Some (j, n) =>
            match skipn j rows with
            | [] => [OFatal]
            | hdr :: rest =>
                if header_matches trim d (norm_fields (r_fields hdr))
                then after_data (n + row_lines hdr) rest
                else [OFatal]
            end
        end
    end.

  Lemma length_skipn_le {A} j (l : list A) : length (skipn j l) <= length l.
  Proof. rewrite skipn_length. lia. Qed.

  Lemma Forall_skipn {A} (P : A -> Prop) j : forall l, Forall P l -> Forall P (skipn j l).
  Proof.
    induction j as [|j IH]; intros l H; [exact H|]. destruct l; [constructor|].
    inversion H; subst. cbn [skipn]. apply IH. assumption.
  Qed.

  (* the data-row jump followed by the deliveries; `count` is any number of Reads large enough *)
  Lemma data_phase trailing rows n count : Forall (wf_row enc) rows -> length rows < count ->
    let '(e, st1) := skip_to_data d (mkC (flat_map (enc_row enc) rows ++ flat_map eol trailing) n) in
    (let '(o, s') := match e with
                     | Some o => (o, mkO st1 true false)
                     | None => old_fetch d (mkO st1 true false)
                     end in
     if terminal o then [o] else o :: run_reads ost oread (count - 1) s') = after_data n rows.
  Proof.
    intros Hwf Hc. unfold skip_to_data, after_data.
    pose proof (jump_to_spec trailing (d_data d - 1) rows (S (d_data d)) n Hwf ltac:(lia)) as Hj.
    destruct (jump_spec n (d_data d - 1) rows) as [[j n']|].
    - rewrite Hj.
      pose proof (Forall_skipn _ j rows Hwf) as Hw'. pose proof (length_skipn_le j rows) as Hl.
      remember (skipn j rows) as t eqn:Et. clear Et.
      destruct t as [|r t].
      + cbn [flat_map app]. destruct (old_fetch_eof d V trailing n') as (n'' & ->). reflexivity.
      + inversion Hw' as [|r' t' Hr Ht]; subst r' t'.
        cbn [flat_map]. rewrite <- app_assoc.
        destruct (old_fetch_row d V r (flat_map (enc_row enc) t ++ flat_map eol trailing) n' Hr) as (n'' & ->).
        unfold row_node at 1. cbn [terminal map app]. simpl length in Hl.
        replace (count - 1) with (S (length t) + (count - 2 - length t)) by lia.
        rewrite (old_rows_more trailing _ t n'' Ht). reflexivity.
    - destruct Hj as (n' & ->). reflexivity.
  Qed.

  Theorem csv_jump_general_proof rows trailing count :
    d_replace_dq d = false -> Forall (wf_row enc) rows -> length rows < count ->
    run_reads ost oread count (old_init d (flat_map (enc_row enc) rows ++ flat_map eol trailing))
    = old_spec rows.
  Proof.
    intros Hq Hwf Hc. destruct count as [|count]; [lia|].
    cbn [run_reads]. rewrite (old_read_init trim d). unfold check_header, old_spec, old_init.
    rewrite Hq. cbn [o_c].
    destruct (d_header d) as [h|].
    - pose proof (jump_to_spec trailing (h - 1) rows (S h) 0 Hwf ltac:(lia)) as Hj.
      destruct (jump_spec 0 (h - 1) rows) as [[j n]|].
      + rewrite Hj.
        pose proof (Forall_skipn _ j rows Hwf) as Hw'. pose proof (length_skipn_le j rows) as Hl.
        destruct (skipn j rows) as [|hdr rest].
        * cbn [flat_map app]. destruct (csv_next_eof comma V trailing n) as (n' & ->). reflexivity.
        * inversion Hw' as [|r' t' Hr Ht]; subst r' t'. cbn [flat_map]. rewrite <- app_assoc.
          rewrite (csv_next_row _ V hdr _ n Hr). unfold row_out.
          destruct (header_matches trim d (norm_fields (r_fields hdr))); [|reflexivity].
          assert (En : n + length (r_blanks hdr) + 1 + nl_fields (r_fields hdr) = n + row_lines hdr)
            by (unfold row_lines; lia).
          rewrite En. simpl length in Hl.
          pose proof (data_phase trailing rest (n + row_lines hdr) (S count) Ht ltac:(lia)) as Hd.
          replace (S count - 1) with count in Hd by lia. revert Hd.
          match goal with |- context [skip_to_data d ?x] => destruct (skip_to_data d x) as [e st1] end.
          intro Hd. exact Hd.
      + destruct Hj as (n' & ->). reflexivity.
    - pose proof (data_phase trailing rows 0 (S count) Hwf ltac:(lia)) as Hd.
      replace (S count - 1) with count in Hd by lia. revert Hd.
      match goal with |- context [skip_to_data d ?x] => destruct (skip_to_data d x) as [e st1] end.
      intro Hd. exact Hd.
  Qed.
End Jump.

(* ---- a failure of the input while skipping rows (repair N10) ------------------------------------------- *)
(* The only read error the in-memory model has that is not a *csv.ParseError is encoding/csv's
   rejection of the delimiter (errInvalidDelim: nothing is consumed, every Read fails again).
   jumpTo stops at the first such error instead of retrying it for every row still to skip, and
   the first Read reports a fatal error at once - for every header_row_index / data_row_index. *)
Lemma csv_next_bad_delim comma st : valid_delim comma = false -> csv_next comma st = (CBadDelim, st).
Proof. intro H. rewrite csv_next_is_strict. unfold csv_next_strict. rewrite H. reflexivity. Qed.

Lemma jump_to_stops_on_error comma fuel row st : valid_delim comma = false -> c_line st < row ->
  jump_to (S fuel) comma row st = Some (JErr, st).
Proof.
  intros H Hl. cbn [jump_to]. apply Nat.ltb_lt in Hl. rewrite Hl, (csv_next_bad_delim comma st H). reflexivity.
Qed.

Theorem csv_input_failure_fatal_proof trim d input k :
  valid_delim (d_delim d) = false ->
  run_reads ost (old_read trim d) (S k) (old_init d input) = [OFatal].
Proof.
  intro H. cbn [run_reads]. rewrite (old_read_init trim d).
  set (c0 := o_c (old_init d input)).
  assert (Hc0 : c_line c0 = 0) by reflexivity.
  assert (Hdata : forall st, c_line st = 0 ->
            (let '(e, st1) := skip_to_data d st in
             match e with
             | Some o => (o, mkO st1 true false)
             | None => old_fetch d (mkO st1 true false)
             end) = (OFatal, mkO st true (match d_data d - 1 with O => true | S _ => false end))).
  { intros st Hst. unfold skip_to_data. destruct (d_data d - 1) as [|m] eqn:Ed.
    - cbn [jump_to]. rewrite Hst. cbn. unfold old_fetch. cbn [o_c].
      rewrite (csv_next_bad_delim _ st H). reflexivity.
    - rewrite (jump_to_stops_on_error _ _ _ st H) by lia. reflexivity. }
  unfold check_header. destruct (d_header d) as [h|].
  - destruct (h - 1) as [|m] eqn:Eh.
    + cbn [jump_to]. rewrite Hc0. cbn [Nat.ltb Nat.leb]. rewrite (csv_next_bad_delim _ c0 H). reflexivity.
    + rewrite (jump_to_stops_on_error _ _ _ c0 H) by lia. reflexivity.
  - rewrite (Hdata c0 Hc0). reflexivity.
Qed.
