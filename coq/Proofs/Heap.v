(* C12 proofs, part 7: every operation inside the API preconditions preserves the
   representation invariant and acts on the abstract forest as create / graft / prune; hence the
   invariant holds in every reachable state, for every history and every pool choice. *)
From Coq Require Import List NArith ZArith Bool Lia.
From stdpp Require Import pmap.
From OV Require Import Base.Bytes Base.Cases Base.Tree Model.Heap
  Proofs.HeapIds Proofs.HeapTree Proofs.HeapOps Proofs.HeapPath Proofs.HeapRep Proofs.HeapRemove.
Import ListNotations.

(* the IDs observed at hand-out: a create adds the ID the returned node carries at that moment *)
Definition acq_after (s' : st) (ret : option addr) (acq : list Z) : list Z :=
  match ret with Some a => id_of (heap s') a :: acq | None => acq end.

(* States reachable from the initial state by any history of operations that respect the API
   preconditions, with any pool choices; F is the abstract forest, acq the IDs handed out. *)
Inductive reachable (caching : bool) : st -> forest -> list Z -> Prop :=
| reach_init : reachable caching init [] []
| reach_step s F acq o s' ret :
    reachable caching s F acq ->
    pre_b caching s F o = true ->
    step caching s o = Ok (s', ret) ->
    reachable caching s' (aeffect s F o) (acq_after s' ret acq).

Lemma step_preserves caching s F acq o :
  Rep caching s F -> AcqInv s acq -> pre_b caching s F o = true ->
  exists s' ret, step caching s o = Ok (s', ret) /\
    Rep caching s' (aeffect s F o) /\ AcqInv s' (acq_after s' ret acq).
Proof.
  intros HR HA Hpre. destruct o as [c ty data fs|p n|n].
  - destruct c as [|a].
    + destruct (rep_create_fresh caching s F acq ty data fs HR HA) as (s' & Hc & HR' & HA' & _).
      exists s', (Some (next_addr s)). simpl. rewrite Hc. simpl. auto.
    + simpl in Hpre. apply andb_prop in Hpre as [Hc Ha]. destruct caching; [|discriminate].
      apply mem_spec in Ha.
      destruct (rep_create_pool s F acq a ty data fs HR HA Ha) as (s' & id & Hc' & HR' & HA' & _).
      exists s', (Some a). simpl. rewrite Hc'. simpl. auto.
  - destruct (rep_add caching s F p n HR Hpre) as (h' & Hadd & HR' & Hids).
    exists (with_heap s h'), None. simpl. rewrite Hadd. simpl. split; [reflexivity|split; [exact HR'|]].
    destruct HA as (HA1 & HA2 & HA3). split; [auto|split; [auto|]].
    intros a Ha. simpl. rewrite Hids. apply (HA3 a Ha).
  - destruct (rep_remove caching s F acq n HR HA Hpre) as (s' & Hrm & HR' & HA').
    exists s', None. simpl. rewrite Hrm. simpl. auto.
Qed.

Lemma acq_init : AcqInv init [].
Proof. split; [constructor|split]; intros x Hx; inversion Hx. Qed.

Lemma reachable_inv caching s F acq : reachable caching s F acq -> Rep caching s F /\ AcqInv s acq.
Proof.
  induction 1 as [|s F acq o s' ret Hreach [HR HA] Hpre Hstep].
  - split; [apply rep_init|apply acq_init].
  - destruct (step_preserves caching s F acq o HR HA Hpre) as (s1 & ret1 & Hstep1 & HR1 & HA1).
    rewrite Hstep in Hstep1. inversion Hstep1; subst. auto.
Qed.

(* ---- links of live nodes never leave the live forest ---------------------------------------------------- *)
Lemma rep_links_closed caching s F : Rep caching s F ->
  forall a x, a ∈ addrs_f F -> heap s !! a = Some x ->
    oin (n_parent x) (addrs_f F) /\ oin (n_first x) (addrs_f F) /\ oin (n_last x) (addrs_f F) /\
    oin (n_prev x) (addrs_f F) /\ oin (n_next x) (addrs_f F).
Proof.
  intros HR a x Ha Hx. apply elem_of_flat_map in Ha as [t [Ht Ha]].
  pose proof (R_links _ _ _ HR) as Hl. rewrite Forall_forall in Hl. specialize (Hl t Ht).
  assert (Hup : forall o, oin o (addrs t) -> oin o (addrs_f F)).
  { intros [b|] Hb; simpl in *; [eapply addrs_f_in; eauto|exact I]. }
  destruct (tree_ok_closed _ _ _ _ _ Hl a x Ha Hx) as (Hf & Hla & Hrest).
  destruct (decide (a = root t)) as [->|Hne].
  - destruct (tree_ok_root _ _ _ _ _ Hl) as [y [Hy (H1 & H2 & H3 & _)]]. rewrite Hy in Hx. inversion Hx; subst y.
    rewrite H1, H2, H3. simpl. auto.
  - destruct (Hrest Hne) as (H1 & H2 & H3). auto 10.
Qed.

(* ---- the executable abstraction reads back exactly the represented tree ------------------------------------- *)
Lemma read_kids_spec h : forall ks,
  Forall (fun k => forall fuel par prev next, tree_ok h par prev next k -> (2 * tsize k <= fuel)%nat ->
            read_tree fuel h (root k) = Some k) ks ->
  forall fuel par pv, chain (tree_ok h par) pv None ks -> (2 * ksize ks + 1 <= fuel)%nat ->
    read_kids fuel h (hd_addr ks) = Some ks.
Proof.
  induction 1 as [|k r Hk Hr IHr]; intros fuel par pv Hc Hfuel.
  - destruct fuel; [simpl in Hfuel; lia|]. reflexivity.
  - simpl in Hc. destruct Hc as [Hok Hc]. simpl in Hfuel. pose proof (tsize_pos k) as Hpos.
    destruct fuel as [|f]; [lia|]. simpl.
    destruct (tree_ok_root _ _ _ _ _ Hok) as [x [Hx (_ & _ & Hnx & _)]]. rewrite Hx.
    rewrite (Hk f _ _ _ Hok) by lia. rewrite Hnx, nx_of_none.
    rewrite (IHr f par (Some (root k)) Hc) by lia. reflexivity.
Qed.

Lemma read_tree_spec h : forall t fuel par prev next,
  tree_ok h par prev next t -> (2 * tsize t <= fuel)%nat -> read_tree fuel h (root t) = Some t.
Proof.
  induction t as [a ks IH] using atree_ind2. intros fuel par prev next [Hn Hc] Hfuel.
  simpl in Hfuel. destruct fuel as [|f]; [lia|]. simpl.
  destruct Hn as [x [Hx (_ & _ & _ & Hf & _)]]. rewrite Hx, Hf.
  rewrite (read_kids_spec h ks IH f (Some a) None Hc) by (unfold ksize; lia). reflexivity.
Qed.

Lemma abs_rep caching s F t : Rep caching s F -> t ∈ F -> abs s (root t) = Some t.
Proof.
  intros HR Ht. pose proof (R_links _ _ _ HR) as Hl. rewrite Forall_forall in Hl.
  unfold abs. eapply read_tree_spec; [apply Hl; exact Ht|].
  pose proof (R_nodup _ _ _ HR) as Hnd. apply NoDup_app in Hnd as (HndF & _ & _).
  assert (Hndt : NoDup (addrs t)) by (eapply NoDup_flat_map_inv; eauto).
  pose proof (nodup_below_length (addrs t) (next_addr s) Hndt) as Hlen.
  assert (Hlt : forall a, a ∈ addrs t -> (a < next_addr s)%positive).
  { intros a Ha. apply (R_bound _ _ _ HR). apply elem_of_app. left. eapply addrs_f_in; eauto. }
  specialize (Hlen Hlt). unfold fuel_of. rewrite tsize_length. lia.
Qed.

(* ---- histories as lists: the Boolean replay used for examples ------------------------------------------------- *)
Fixpoint run2 (caching : bool) (s : st) (F : forest) (acq : list Z) (ops : list op)
  : option (st * forest * list Z) :=
  match ops with
  | [] => Some (s, F, acq)
  | o :: r =>
      if pre_b caching s F o then
        match step caching s o with
        | Ok (s', ret) => run2 caching s' (aeffect s F o) (acq_after s' ret acq) r
        | _ => None
        end
      else None
  end.

Lemma run2_reachable caching : forall ops s F acq s' F' acq',
  reachable caching s F acq -> run2 caching s F acq ops = Some (s', F', acq') ->
  reachable caching s' F' acq'.
Proof.
  induction ops as [|o r IH]; intros s F acq s' F' acq' Hreach Hrun; simpl in Hrun.
  - inversion Hrun; subst. exact Hreach.
  - destruct (pre_b caching s F o) eqn:Hpre; [|discriminate].
    destruct (step caching s o) as [[s1 ret]| | |] eqn:Hstep; try discriminate.
    eapply IH; [|exact Hrun]. econstructor; eauto.
Qed.

(* a history whose preconditions hold never panics, never runs out of fuel, never meets an
   impossible pool choice *)
Lemma run2_total caching : forall ops s F acq,
  reachable caching s F acq ->
  run2 caching s F acq ops = None ->
  exists pre o post s1 F1 acq1, ops = pre ++ o :: post /\
    run2 caching s F acq pre = Some (s1, F1, acq1) /\ pre_b caching s1 F1 o = false.
Proof.
  induction ops as [|o r IH]; intros s F acq Hreach Hrun; simpl in Hrun; [discriminate|].
  destruct (pre_b caching s F o) eqn:Hpre.
  - destruct (reachable_inv _ _ _ _ Hreach) as [HR HA].
    destruct (step_preserves caching s F acq o HR HA Hpre) as (s1 & ret & Hstep & _).
    rewrite Hstep in Hrun.
    destruct (IH s1 (aeffect s F o) (acq_after s1 ret acq)) as (pre & o' & post & s2 & F2 & acq2 & E & Hr & Hp); auto.
    { econstructor; eauto. }
    exists (o :: pre), o', post, s2, F2, acq2. subst r. split; [reflexivity|]. simpl. rewrite Hpre, Hstep. auto.
  - exists [], o, r, s, F, acq. auto.
Qed.

(* ---- the statements exported by Props/C12.v ------------------------------------------------------------ *)
Lemma heap_refines_forest_pf : forall caching s F o,
  Rep caching s F -> pre_b caching s F o = true ->
  exists s' ret, step caching s o = Ok (s', ret) /\ Rep caching s' (aeffect s F o).
Proof.
  intros caching s F o HR Hpre.
  assert (HA : AcqInv (mkSt (heap s) (pool s) (next_id s) (next_addr s)) []) by
    (split; [constructor|split]; [intros x Hx; inversion Hx|intros a _ Hx; inversion Hx]).
  destruct s. destruct (step_preserves caching _ F [] o HR HA Hpre) as (s' & ret & H1 & H2 & _). eauto.
Qed.

Lemma reachable_rep_pf : forall caching s F acq, reachable caching s F acq -> Rep caching s F.
Proof. intros caching s F acq H. exact (proj1 (reachable_inv caching s F acq H)). Qed.

Lemma abs_reads_forest_pf : forall caching s F acq t,
  reachable caching s F acq -> t ∈ F -> abs s (root t) = Some t.
Proof. intros caching s F acq t H. apply (abs_rep caching). exact (proj1 (reachable_inv _ _ _ _ H)). Qed.

Lemma pool_disjoint_nodup_pf : forall caching s F acq,
  reachable caching s F acq ->
  NoDup (pool s) /\
  (forall a, a ∈ pool s -> a ∉ addrs_f F) /\
  (forall a x b, a ∈ addrs_f F -> heap s !! a = Some x ->
     (n_parent x = Some b \/ n_first x = Some b \/ n_last x = Some b \/ n_prev x = Some b \/ n_next x = Some b) ->
     b ∈ addrs_f F /\ b ∉ pool s).
Proof.
  intros caching s F acq H. destruct (reachable_inv _ _ _ _ H) as [HR _].
  pose proof (R_nodup _ _ _ HR) as Hnd. apply NoDup_app in Hnd as (H1 & H2 & H3).
  split; [exact H3|split].
  - intros a Ha HaF. exact (H2 a HaF Ha).
  - intros a x b Ha Hx Hb.
    destruct (rep_links_closed _ _ _ HR a x Ha Hx) as (L1 & L2 & L3 & L4 & L5).
    assert (HbF : b ∈ addrs_f F).
    { destruct Hb as [E|[E|[E|[E|E]]]]; rewrite E in *; simpl in *; assumption. }
    split; [exact HbF|exact (H2 b HbF)].
Qed.

Lemma live_forest_nodup_pf : forall caching s F acq,
  reachable caching s F acq -> NoDup (addrs_f F).
Proof.
  intros caching s F acq H. destruct (reachable_inv _ _ _ _ H) as [HR _].
  pose proof (R_nodup _ _ _ HR) as Hnd. apply NoDup_app in Hnd as (H1 & _). exact H1.
Qed.

Lemma fresh_blank_pf : forall caching s F acq c ty data fs s' a,
  reachable caching s F acq ->
  create caching s c ty data fs = Ok (s', a) ->
  exists id, heap s' !! a = Some (mkNode id None None None None None ty data fs).
Proof.
  intros caching s F acq c ty data fs s' a H. destruct (reachable_inv _ _ _ _ H) as [HR _].
  apply create_blank. intros b Hb. apply (R_blank _ _ _ HR). apply elem_of_list_In. exact Hb.
Qed.

Lemma ids_unique_pf : forall caching s F acq, reachable caching s F acq -> NoDup acq.
Proof. intros caching s F acq H. destruct (reachable_inv _ _ _ _ H) as [_ [HA _]]. exact HA. Qed.

Lemma held_ids_distinct_pf : forall caching s F acq,
  reachable caching s F acq -> NoDup (map (id_of (heap s)) (addrs_f F ++ pool s)).
Proof. intros caching s F acq H. destruct (reachable_inv _ _ _ _ H) as [HR _]. exact (R_ids _ _ _ HR). Qed.

Lemma ids_below_counter_pf : forall caching s F acq,
  reachable caching s F acq ->
  (forall a x, heap s !! a = Some x -> (n_id x <= next_id s)%Z) /\
  (forall i, i ∈ acq -> (i <= next_id s)%Z).
Proof.
  intros caching s F acq H. destruct (reachable_inv _ _ _ _ H) as [HR (_ & HA & _)].
  split; [apply (R_idle _ _ _ HR)|exact HA].
Qed.

Lemma reset_takes_next_id_pf : forall site s n s',
  reset site s n = Ok s' ->
  id_of (heap s') n = (next_id s + 1)%Z /\ next_id s' = (next_id s + 1)%Z /\
  heap s' !! n = Some (blank (next_id s + 1)).
Proof.
  intros site s n s'. unfold reset. destruct (heap s !! n); [|discriminate].
  intros H. inversion H; subst. simpl. unfold id_of. rewrite lookup_insert. auto.
Qed.
