(* C05 proofs, part 4: the concrete leaf matchers are sound, validated hierarchies are
   well-formed, and units are consumed strictly left to right. *)
From Coq Require Import List Arith Bool Lia.
Import ListNotations.
From OV Require Import Base.Cases Model.Hier Model.HierSpec Proofs.HierBase.

Lemma find_footer_bounds : forall f us i m, find_footer f us i = Some m -> i < m /\ m <= i + length us.
Proof.
  induction us as [|u r IH]; intros i m H; simpl in H; [discriminate|].
  destruct (u_name u =? f).
  - inversion H; subst. simpl. lia.
  - apply IH in H. simpl. lia.
Qed.

Lemma find_footer_bit_bounds : forall f us i m,
  find_footer_bit f us i = Some m -> i < m /\ m <= i + length us.
Proof.
  induction us as [|u r IH]; intros i m H; simpl in H; [discriminate|].
  destruct (Nat.testbit (u_name u) f).
  - inversion H; subst. simpl. lia.
  - apply IH in H. simpl. lia.
Qed.

Lemma flat_leaf_sound : forall l, leaf_okb l = true -> leaf_sound flat_leaf l.
Proof.
  intros [n|k|h f|h f] Hok us m H; simpl in *.
  - destruct us as [|u r]; [discriminate|]. destruct (u_name u =? n); inversion H; subst. simpl. lia.
  - destruct k as [|k]; [discriminate|]. destruct (length us <? S k) eqn:E; inversion H; subst.
    apply Nat.ltb_ge in E. lia.
  - destruct us as [|u r]; [discriminate|]. destruct (u_name u =? h); [|discriminate].
    apply find_footer_bounds in H. simpl in *. lia.
  - destruct us as [|u r]; [discriminate|]. destruct (Nat.testbit (u_name u) h); [|discriminate].
    destruct f as [f|]; [|inversion H; subst; simpl; lia].
    apply find_footer_bit_bounds in H. simpl in *. lia.
Qed.

Lemma edi_leaf_sound : forall l, leaf_sound edi_leaf l.
Proof.
  intros [n|k|h f|h f] us m H; simpl in *; try discriminate.
  destruct us as [|u r]; [discriminate|]. destruct (u_name u =? n); inversion H; subst. simpl. lia.
Qed.

(* validated (decl_okb: group non-empty, min <= max, rows >= 1) and max >= 1 *)
Definition wfb (d : decl) : bool := decl_okb d && max_posb d.

Lemma wfb_WF_flat : forall d, wfb d = true -> WF flat_leaf d.
Proof.
  induction d as [n g t mn mx lf kids IH] using decl_ind2. unfold wfb. simpl.
  intros H. apply andb_prop in H. destruct H as [H1 H2].
  apply andb_prop in H1. destruct H1 as [H1 Hk1]. apply andb_prop in H1. destruct H1 as [Hs Hle].
  apply andb_prop in H2. destruct H2 as [Hm Hk2].
  split; [|split; [exact Hle|split]].
  - destruct g; [destruct kids; [discriminate|discriminate]|apply flat_leaf_sound; exact Hs].
  - destruct mx as [[|m]|]; discriminate.
  - clear Hs Hle Hm. induction kids as [|k r IHr]; [exact Logic.I|].
    simpl in Hk1, Hk2. apply andb_prop in Hk1. apply andb_prop in Hk2.
    destruct Hk1 as [Ha Hb]. destruct Hk2 as [Hc Hd]. inversion IH; subst.
    split; [apply H1; unfold wfb; rewrite Ha, Hc; reflexivity|apply IHr; auto].
Qed.

Lemma wfb_WF_edi : forall d, wfb d = true -> WF edi_leaf d.
Proof.
  induction d as [n g t mn mx lf kids IH] using decl_ind2. unfold wfb. simpl.
  intros H. apply andb_prop in H. destruct H as [H1 H2].
  apply andb_prop in H1. destruct H1 as [H1 Hk1]. apply andb_prop in H1. destruct H1 as [Hs Hle].
  apply andb_prop in H2. destruct H2 as [Hm Hk2].
  split; [|split; [exact Hle|split]].
  - destruct g; [destruct kids; [discriminate|discriminate]|apply edi_leaf_sound].
  - destruct mx as [[|m]|]; discriminate.
  - clear Hs Hle Hm. induction kids as [|k r IHr]; [exact Logic.I|].
    simpl in Hk1, Hk2. apply andb_prop in Hk1. apply andb_prop in Hk2.
    destruct Hk1 as [Ha Hb]. destruct Hk2 as [Hc Hd]. inversion IH; subst.
    split; [apply H1; unfold wfb; rewrite Ha, Hc; reflexivity|apply IHr; auto].
Qed.

Lemma wfb_Forall_flat : forall ds, forallb wfb ds = true -> Forall (WF flat_leaf) ds.
Proof.
  induction ds as [|d r IH]; intros H; [constructor|]. simpl in H. apply andb_prop in H.
  destruct H. constructor; [apply wfb_WF_flat|]; auto.
Qed.
Lemma wfb_Forall_edi : forall ds, forallb wfb ds = true -> Forall (WF edi_leaf) ds.
Proof.
  induction ds as [|d r IH]; intros H; [constructor|]. simpl in H. apply andb_prop in H.
  destruct H. constructor; [apply wfb_WF_edi|]; auto.
Qed.

(* ---- units are consumed strictly left to right ------------------------------------------------------ *)
Section Consume.
  Variable try_leaf : leaf -> list unt -> option nat.

  Definition next_state (r : sres) : mstate := match r with Cont st => st | Ret _ st => st end.

  Lemma of_rres_rest : forall r rest st, m_rest st = rest -> m_rest (next_state (of_rres r rest st)) = rest.
  Proof. intros [stk tgt|t|s] rest st H; simpl; auto. Qed.

  Lemma instantiate_rest : forall cur below tgt n us ro st, m_rest st = us ->
    exists c, us = c ++ m_rest (next_state (instantiate cur below tgt n us ro st)).
  Proof.
    intros cur below tgt n us ro st Hst. unfold instantiate.
    assert (Hsk : us = firstn n us ++ skipn n us) by (symmetry; apply firstn_skipn).
    assert (Hst' : exists c, us = c ++ m_rest st) by (exists []; rewrite Hst; reflexivity).
    destruct (length us <? n); [exact Hst'|].
    destruct below as [|p b].
    - destruct ro; [|exact Hst'].
      destruct (d_kids (e_decl cur)).
      + match goal with |- context [of_rres ?r ?x ?s] => destruct r end; simpl; eauto.
      + simpl. eauto.
    - destruct (e_node p); [|exact Hst'].
      destruct (d_kids (e_decl cur)).
      + match goal with |- context [of_rres ?r ?x ?s] => destruct r end; simpl; eauto.
      + simpl. eauto.
  Qed.

  (* one step only removes units from the front of the unprocessed input *)
  Lemma hstep_suffix : forall st, exists c, m_rest st = c ++ m_rest (next_state (hstep try_leaf st)).
  Proof.
    intros st. unfold hstep. set (us := m_rest st).
    assert (Hid : exists c, us = c ++ m_rest st) by (exists []; reflexivity).
    destruct (m_tgt st); [exact Hid|].
    assert (Hus : m_rest st = us) by reflexivity. clearbody us.
    destruct us as [|u r].
    - destruct (length (m_stk st) <=? 1); [exact Hid|].
      exists []. simpl. symmetry. apply of_rres_rest. exact Hus.
    - destruct (length (m_stk st) <=? 1); [exact Hid|].
      destruct (m_stk st) as [|cur below]; [exact Hid|].
      destruct (read_rec try_leaf (e_decl cur) (u :: r)).
      + apply instantiate_rest. exact Hus.
      + exists []. simpl. symmetry. apply of_rres_rest. exact Hus.
  Qed.

  Lemma edi_step_suffix : forall st, exists c, m_rest st = c ++ m_rest (next_state (edi_step try_leaf st)).
  Proof.
    intros st. unfold edi_step. set (us := m_rest st).
    assert (Hid : exists c, us = c ++ m_rest st) by (exists []; reflexivity).
    destruct (m_tgt st); [exact Hid|].
    assert (Hus : m_rest st = us) by reflexivity. clearbody us.
    destruct us as [|u r].
    - destruct (length (m_stk st) <=? 1); [exact Hid|].
      exists []. simpl. symmetry. apply of_rres_rest. exact Hus.
    - destruct (m_stk st) as [|cur below]; [exact Hid|].
      destruct (read_rec try_leaf (e_decl cur) (u :: r)).
      + apply instantiate_rest. exact Hus.
      + destruct (length (cur :: below) <=? 1); [exact Hid|].
        exists []. simpl. symmetry. apply of_rres_rest. exact Hus.
  Qed.

  (* states reachable by iterating a step function (across Read calls: a delivered target is
     cleared by Release / the next Read) *)
  Inductive reach (step : mstate -> sres) (st0 : mstate) : mstate -> Prop :=
  | reach_refl : reach step st0 st0
  | reach_step : forall st, reach step st0 st -> reach step st0 (next_state (step st))
  | reach_clear : forall st, reach step st0 st -> reach step st0 (clear_tgt st).

  Lemma reach_consumed : forall step,
    (forall st, exists c, m_rest st = c ++ m_rest (next_state (step st))) ->
    forall st0 st, reach step st0 st -> exists consumed, m_rest st0 = consumed ++ m_rest st.
  Proof.
    intros step Hs st0 st H. induction H as [|st H (c & IH)|st H (c & IH)].
    - exists []. reflexivity.
    - destruct (Hs st) as (c' & Hc). exists (c ++ c'). rewrite IH, Hc, app_assoc. reflexivity.
    - exists c. exact IH.
  Qed.

  Lemma rec_done_no_err : forall b p tgt t, rec_done p b tgt <> RErr t.
  Proof.
    induction b as [|q b IH]; intros p tgt t; cbn [rec_done].
    - destruct (if d_tgt (e_decl p) then _ else _); discriminate.
    - destruct (if d_tgt (e_decl p) then _ else _); [discriminate|].
      destruct (lt_max _ _); [discriminate|]. destruct (_ <? d_min _); [discriminate|].
      destruct (_ <? length _).
      + destruct (nth_error _ _); discriminate.
      + apply IH.
  Qed.

  Lemma rec_next_err : forall stk tgt t, rec_next stk tgt = RErr t -> exists a b, t = TErrMin a b.
  Proof.
    intros stk tgt t H. unfold rec_next in H. destruct stk as [|cur below]; [discriminate|].
    destruct (e_occ cur <? d_min (e_decl cur)); [inversion H; eauto|].
    destruct below as [|p b]; [discriminate|].
    destruct (_ <? length _).
    - destruct (nth_error _ _); discriminate.
    - exfalso. eapply rec_done_no_err; eauto.
  Qed.

  (* EOF is reported only when nothing is left; "unexpected" only when a unit is left (the first
     unprocessed one is the one reported); a minimum error leaves the input position untouched *)
  Lemma hstep_terminal : forall st t st', hstep try_leaf st = Ret (OTerm t) st' ->
    st' = st /\ (t = TEof -> m_rest st = []) /\ (t = TErrUnexpected -> m_rest st <> []).
  Proof.
    intros st t st' H. unfold hstep in H.
    destruct (m_tgt st); [discriminate|].
    destruct (m_rest st) as [|u r] eqn:Er.
    - destruct (length (m_stk st) <=? 1).
      + inversion H; subst. repeat split; auto; discriminate.
      + destruct (rec_next (m_stk st) None) eqn:En; simpl in H; inversion H; subst.
        * apply rec_next_err in En. destruct En as (a & b & ->). repeat split; auto; discriminate.
        * repeat split; auto; discriminate.
    - destruct (length (m_stk st) <=? 1).
      + inversion H; subst. repeat split; auto; discriminate.
      + destruct (m_stk st) as [|cur below] eqn:Es; [inversion H; subst; repeat split; auto; discriminate|].
        destruct (read_rec try_leaf (e_decl cur) (u :: r)).
        * unfold instantiate in H.
          destruct (length (u :: r) <? n); [inversion H; subst; repeat split; auto; discriminate|].
          destruct below as [|p b]; [inversion H; subst; repeat split; auto; discriminate|].
          destruct (e_node p); [|inversion H; subst; repeat split; auto; discriminate].
          destruct (d_kids (e_decl cur)); [|discriminate].
          destruct (rec_done _ _ _) eqn:En; simpl in H; inversion H; subst.
          -- exfalso. eapply rec_done_no_err; eauto.
          -- repeat split; auto; discriminate.
        * destruct (rec_next (cur :: below) None) eqn:En; simpl in H; inversion H; subst.
          -- apply rec_next_err in En. destruct En as (a & b & ->). repeat split; auto; discriminate.
          -- repeat split; auto; discriminate.
  Qed.
End Consume.
