(* C06 proofs: complete sweeps over lead / continuation bytes for "the bytes DecodeRune consumed are
   the encoding of the rune it returned" (own file: compiles in parallel with the rest). *)
From Coq Require Import List NArith Bool Arith Lia.
From Coq.Strings Require Import Byte.
Import ListNotations.
From OV Require Import Base.Bytes Base.Utf8.
Local Open Scope N_scope.

(* ---- all bytes --------------------------------------------------------------------------------------- *)
Definition all_bytes : list byte := map (fun n => byte_of_N (N.of_nat n)) (seq 0 256).

Lemma in_all_bytes b : In b all_bytes.
Proof.
  unfold all_bytes. apply in_map_iff. exists (N.to_nat (b2n b)). split.
  - rewrite N2Nat.id. unfold byte_of_N, b2n. rewrite Byte.of_to_N. reflexivity.
  - apply in_seq. pose proof (Byte.to_N_bounded b). unfold b2n. lia.
Qed.

Definition conts : list byte := filter (in_range 128 191) all_bytes.
Definition leads3 : list byte := filter (fun b => negb (b2n b <? 224) && (b2n b <? 240)) all_bytes.
Definition leads4 : list byte := filter (fun b => negb (b2n b <? 240) && (b2n b <? 245)) all_bytes.

Lemma in_conts b : in_range 128 191 b = true -> In b conts.
Proof. intro H. apply filter_In. split; [apply in_all_bytes|exact H]. Qed.

(* ---- the sweeps: the decoding arithmetic of Base.Utf8.decode_rune, branch by branch ------------------- *)
Definition r2 (x : N) (b1 : byte) : rune := N.lor (N.shiftl (N.land x 31) 6) (low6 b1).
Definition r3 (x : N) (b1 b2 : byte) : rune :=
  N.lor (N.lor (N.shiftl (N.land x 15) 12) (N.shiftl (low6 b1) 6)) (low6 b2).
Definition r4 (x : N) (b1 b2 b3 : byte) : rune :=
  N.lor (N.lor (N.lor (N.shiftl (N.land x 7) 18) (N.shiftl (low6 b1) 12)) (N.shiftl (low6 b2) 6)) (low6 b3).

Definition t1 (b0 : byte) : bool := negb (b2n b0 <? 128) || bytes_eqb [b0] (encode_rune (b2n b0)).
Definition t2 (b0 b1 : byte) : bool :=
  let x := b2n b0 in
  (x <? 194) || negb (x <? 224) || negb (in_range 128 191 b1)
  || bytes_eqb [b0; b1] (encode_rune (r2 x b1)).
Definition t3 (b0 b1 b2 : byte) : bool :=
  let x := b2n b0 in
  let lo := if x =? 224 then 160 else 128 in
  let hi := if x =? 237 then 159 else 191 in
  negb (in_range lo hi b1 && in_range 128 191 b2)
  || bytes_eqb [b0; b1; b2] (encode_rune (r3 x b1 b2)).
Definition t4 (b0 b1 b2 b3 : byte) : bool :=
  let x := b2n b0 in
  let lo := if x =? 240 then 144 else 128 in
  let hi := if x =? 244 then 143 else 191 in
  negb (in_range lo hi b1 && in_range 128 191 b2 && in_range 128 191 b3)
  || bytes_eqb [b0; b1; b2; b3] (encode_rune (r4 x b1 b2 b3)).

Lemma sweep1 : forallb t1 all_bytes = true.
Proof. vm_cast_no_check (eq_refl true). Qed.
Lemma sweep2 : forallb (fun b0 => forallb (t2 b0) all_bytes) all_bytes = true.
Proof. vm_cast_no_check (eq_refl true). Qed.
Lemma sweep3 : forallb (fun b0 => forallb (fun b1 => forallb (t3 b0 b1) conts) all_bytes) leads3 = true.
Proof. vm_cast_no_check (eq_refl true). Qed.
Lemma sweep4 :
  forallb (fun b0 => forallb (fun b1 => forallb (fun b2 => forallb (t4 b0 b1 b2) conts) conts) conts) leads4 = true.
Proof. vm_cast_no_check (eq_refl true). Qed.

Lemma t1_all b0 : t1 b0 = true.
Proof. exact (proj1 (forallb_forall _ _) sweep1 b0 (in_all_bytes b0)). Qed.

Lemma t2_all b0 b1 : t2 b0 b1 = true.
Proof.
  pose proof (proj1 (forallb_forall _ _) sweep2 b0 (in_all_bytes b0)) as H.
  exact (proj1 (forallb_forall _ _) H b1 (in_all_bytes b1)).
Qed.

Lemma t3_all b0 b1 b2 : (b2n b0 <? 224) = false -> (b2n b0 <? 240) = true ->
  in_range 128 191 b2 = true -> t3 b0 b1 b2 = true.
Proof.
  intros H1 H2 H3.
  assert (Hin : In b0 leads3).
  { apply filter_In. split; [apply in_all_bytes|]. rewrite H1, H2. reflexivity. }
  pose proof (proj1 (forallb_forall _ _) sweep3 b0 Hin) as H.
  pose proof (proj1 (forallb_forall _ _) H b1 (in_all_bytes b1)) as H'.
  exact (proj1 (forallb_forall _ _) H' b2 (in_conts b2 H3)).
Qed.

Lemma in_range_sub lo hi b : (128 <= lo)%N -> (hi <= 191)%N -> in_range lo hi b = true -> in_range 128 191 b = true.
Proof.
  unfold in_range. intros Hl Hh H. apply andb_prop in H as [Ha Hb].
  apply N.leb_le in Ha, Hb. apply andb_true_intro. split; apply N.leb_le; lia.
Qed.

Lemma t4_all b0 b1 b2 b3 : (b2n b0 <? 240) = false -> (b2n b0 <? 245) = true ->
  in_range 128 191 b2 = true -> in_range 128 191 b3 = true -> t4 b0 b1 b2 b3 = true.
Proof.
  intros H1 H2 H3 H4.
  destruct (in_range (if b2n b0 =? 240 then 144 else 128) (if b2n b0 =? 244 then 143 else 191) b1) eqn:Hb1.
  2:{ unfold t4. cbn zeta. rewrite Hb1. reflexivity. }
  assert (Hc1 : in_range 128 191 b1 = true).
  { apply (in_range_sub _ _ b1) in Hb1; [exact Hb1| |].
    - destruct (b2n b0 =? 240); lia.
    - destruct (b2n b0 =? 244); lia. }
  assert (Hin : In b0 leads4).
  { apply filter_In. split; [apply in_all_bytes|]. rewrite H1, H2. reflexivity. }
  pose proof (proj1 (forallb_forall _ _) sweep4 b0 Hin) as H.
  pose proof (proj1 (forallb_forall _ _) H b1 (in_conts b1 Hc1)) as H'.
  pose proof (proj1 (forallb_forall _ _) H' b2 (in_conts b2 H3)) as H''.
  exact (proj1 (forallb_forall _ _) H'' b3 (in_conts b3 H4)).
Qed.

