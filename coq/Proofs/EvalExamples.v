(* C02 proofs: concrete witnesses.  Refutations of the statements for the code BEFORE the fix:
   commits F2 (memo key), F3 (array order), F19 (hash of empty object/array), F20 (parent links
   below xpath_dynamic), and non-trivial instances showing the theorems' hypotheses are
   satisfiable. *)
From Coq Require Import String List ZArith NArith Bool.
From Coq.Strings Require Import Byte.
Import ListNotations.
From OV Require Import Base.Bytes Base.Cases Base.Tree Gen.Conv Model.Value Model.XPathFrag Model.Decl Model.Eval.
From OV Require Import Proofs.EvalPure.
Local Open Scope string_scope.

Definition fld (x : string) : decl :=
  Decl None None (Some (bs x)) None None [] false None None None None None false false.
Definition obj (x : option string) (kids : list (string * decl)) : decl :=
  Decl None None (option_map bs x) None None [] false None None
       (Some (map (fun kd => (bs (fst kd), snd kd)) kids)) None None false false.
Definition arr (elems : list decl) : decl :=
  Decl None None None None None [] false None None None (Some elems) None false false.
Definition cst (c : string) : decl :=
  Decl (Some (bs c)) None None None None [] false None None None None None false false.

Definition el (name : string) (kids : list tree) : tree := T ElementNode (bs name) FNone kids.
Definition tx (s : string) : tree := T TextNode (bs s) FNone [].

(* <n><x>outer<x>inner</x></x></n> *)
Definition doc_nested : tree := el "n" [el "x" [tx "outer"; el "x" [tx "inner"]]].

(* F2: the same declaration {xpath: x} as an array element and as an object member at one node *)
Definition ds_f2 : list (bytes * decl) :=
  [(FINAL_OUTPUT, obj None [("a", arr [fld "x"]); ("b", obj (Some "x") [("c", fld "x")])])].

Definition run_cached (legacy : bool) (root : tree) (top : vdecl) (p : path) : res :=
  fst (eval root (frag_query root) (fun _ => None) std_sigs (std_call root) no_pcall
            path path_eqb (fun q => q) false legacy top p []).
Definition run_nocache (root : tree) (top : vdecl) (p : path) : res :=
  eval_nocache root (frag_query root) (fun _ => None) std_sigs (std_call root) no_pcall top p.
Definition run_spec (root : tree) (ds : list (bytes * decl)) (p : path) : option res :=
  eval_spec root (frag_query root) (fun _ => None) std_sigs (std_call root) no_pcall ds p.

Definition validated (ds : list (bytes * decl)) : option vdecl :=
  match validate ds std_fexists (fun _ => false) with VOk v => Some v | _ => None end.

Lemma f2_old_key_differs :
  exists top, validated ds_f2 = Some top /\ wf_b true top = true /\
    run_cached true doc_nested top [] <> run_nocache doc_nested top [] /\
    run_cached false doc_nested top [] = run_nocache doc_nested top [] /\
    Some (run_nocache doc_nested top []) = run_spec doc_nested ds_f2 [].
Proof.
  eexists. split; [vm_compute; reflexivity|].
  split; [vm_compute; reflexivity|].
  split; [vm_compute; intro H; discriminate H|].
  split; vm_compute; reflexivity.
Qed.

(* ---- F3: array children must keep their declared order ------------------------------------------- *)
Definition ds_f3 : list (bytes * decl) :=
  [(FINAL_OUTPUT, obj None [("a", arr (map cst ["1"; "2"; "3"; "4"; "5"; "6"; "7"; "8"; "9"; "10"; "11"; "12"]))])].

(* what validateArray did before the repair: children sorted by fqdn string (elem[10] < elem[2]) *)
Fixpoint legacy_array_sort (d : vdecl) : vdecl :=
  let 'VD i x ks := d in
  let ks' := map legacy_array_sort ks in
  VD i x (match p_kind (v_pub i) with KArray => sort_kids ks' | _ => ks' end).

Lemma f3_sorted_children_differ :
  exists top, validated ds_f3 = Some top /\ wf_b true top = true /\
    Some (run_nocache doc_nested top []) = run_spec doc_nested ds_f3 [] /\
    Some (run_nocache doc_nested (legacy_array_sort top) []) <> run_spec doc_nested ds_f3 [].
Proof.
  eexists. split; [vm_compute; reflexivity|].
  split; [vm_compute; reflexivity|].
  split; [vm_compute; reflexivity|].
  vm_compute. intro H. discriminate H.
Qed.

(* ---- F19: the hash must tell an empty object / empty array from a field ---------------------------- *)
Definition objx (x : string) : decl :=
  Decl None None (Some (bs x)) None None [] false None None (Some []) None None false false.
Definition ds_f19 : list (bytes * decl) :=
  [(FINAL_OUTPUT, obj None [("a", objx "x"); ("b", fld "x")])].

(* the hash before the repair: the public content WITHOUT the resolved kinds (deepCopy dropped
   the empty object, json omitted it anyway) *)
Fixpoint strip_kinds (p : pdecl) : pdecl :=
  let 'PD i x ks := p in
  PD (mkP KField (p_const i) (p_external i) (p_xpath i) (p_fname i) (p_ignore i) (p_parse i)
          (p_template i) (p_rtype i) (p_notrim i) (p_keep i))
     (match x with Some q => Some (strip_kinds q) | None => None end)
     (map (fun kc => (fst kc, strip_kinds (snd kc))) ks).
Fixpoint legacy_hash (d : vdecl) : vdecl :=
  let 'VD i x ks := d in
  VD (mkI (v_pub i) (v_fqdn i) (strip_kinds (v_hash i)) (v_parent i))
     (match x with Some q => Some (legacy_hash q) | None => None end)
     (map legacy_hash ks).

Lemma f19_kindless_hash_collides :
  exists top, validated ds_f19 = Some top /\ wf_b true top = true /\
    run_cached false doc_nested top [] = run_nocache doc_nested top [] /\
    run_cached false doc_nested (legacy_hash top) [] <> run_nocache doc_nested (legacy_hash top) [].
Proof.
  eexists. split; [vm_compute; reflexivity|].
  split; [vm_compute; reflexivity|].
  split; [vm_compute; reflexivity|].
  vm_compute. intro H. discriminate H.
Qed.

(* ---- F20: an array element is linked to its array wherever the array sits --------------------------- *)
Definition fn (name : string) (args : list decl) : decl :=
  Decl None None None None (Some (bs name)) args false None None None None None false false.
Definition ds_f20 : list (bytes * decl) :=
  [(FINAL_OUTPUT,
    obj None [("d", Decl None None None
                         (Some (fn "verif_pick" [Decl (Some (bs "0")) None None None None [] false None None None None (Some RInt) false false;
                                                 fn "coalesce" [cst "x"]]))
                         (Some (bs "verif_echo")) [arr [fld "x"]] false None None None None None false false)])].

(* before the repair nothing below an xpath_dynamic ... and, through linkParent's blind spot, no
   array reached only through one ... had parent links: model it by unlinking every element *)
Fixpoint legacy_unlink (d : vdecl) : vdecl :=
  let 'VD i x ks := d in
  VD (mkI (v_pub i) (v_fqdn i) (v_hash i) None)
     (match x with Some q => Some (legacy_unlink q) | None => None end)
     (map legacy_unlink ks).

(* <n><x>q<x>x</x></x></n> *)
Definition doc_qx : tree := el "n" [el "x" [tx "q"; el "x" [tx "x"]]].
Definition ds_f20b : list (bytes * decl) :=
  [(FINAL_OUTPUT, obj None [("a", fn "verif_echo" [arr [fld "x"]])])].

Lemma f20_unlinked_elements_requery :
  exists top, validated ds_f20b = Some top /\ wf_b true top = true /\
    Some (run_nocache doc_qx top []) = run_spec doc_qx ds_f20b [] /\
    Some (run_nocache doc_qx (legacy_unlink top) []) <> run_spec doc_qx ds_f20b [].
Proof.
  eexists. split; [vm_compute; reflexivity|].
  split; [vm_compute; reflexivity|].
  split; [vm_compute; reflexivity|].
  vm_compute. intro H. discriminate H.
Qed.

(* the printed forms of numbers carry no surrounding white space (hypotheses of
   eval_matches_spec_partial), on samples *)
Example print_trim_samples :
  forallb (fun z => bytes_eqb (trim_space (Z_to_dec z)) (Z_to_dec z)) [0; 7; -7; 1200; -9223372036854775808; 9223372036854775807]%Z = true
  /\ forallb (fun f => bytes_eqb (trim_space (fmt_float f)) (fmt_float f)) [Flt 0 0; Flt 125 (-2); Flt (-5) (-1); Flt 12 3; Flt 125 (-6)] = true.
Proof. split; vm_compute; reflexivity. Qed.

(* ---- F28: the xpath_dynamic of a template reference is validated once ------------------------------ *)
(* m: {xpath_dynamic: verif_join("/", [a, b]), template: t},  t: {object: {v: {xpath: "."}}} *)
Definition arr_ab : decl := arr [cst "a"; cst "b"].
Definition ds_f28 : list (bytes * decl) :=
  [(FINAL_OUTPUT, obj None [("m", Decl None None None (Some (fn "verif_join" [cst "/"; arr_ab])) None [] false None
                                       (Some (bs "t")) None None None false false)]);
   (bs "t", obj None [("v", fld ".")])].

(* validateTemplate before the repair handed the already validated xpath_dynamic to the expanded
   copy, which validated it again in place: the computed children of every array / object /
   custom_func below it were appended a second time *)
Fixpoint dup_children (d : vdecl) : vdecl :=
  let 'VD i x ks := d in
  let ks' := map dup_children ks in
  VD i (match x with Some q => Some (dup_children q) | None => None end)
     (match p_kind (v_pub i) with KArray | KObject => ks' ++ ks' | _ => ks' end).
Fixpoint legacy_double_validation (d : vdecl) : vdecl :=
  let 'VD i x ks := d in
  VD i (match x with Some q => Some (dup_children q) | None => None end) (map legacy_double_validation ks).

(* <n><a><b>AB<a><b>ABAB</b></a></b></a></n> *)
Definition doc_abab : tree := el "n" [el "a" [el "b" [tx "AB"; el "a" [el "b" [tx "ABAB"]]]]].

Lemma f28_double_validation_differs :
  exists top, validated ds_f28 = Some top /\ wf_b true top = true /\
    Some (run_nocache doc_abab top []) = run_spec doc_abab ds_f28 [] /\
    Some (run_nocache doc_abab (legacy_double_validation top) []) <> run_spec doc_abab ds_f28 [].
Proof.
  eexists. split; [vm_compute; reflexivity|].
  split; [vm_compute; reflexivity|].
  split; [vm_compute; reflexivity|].
  vm_compute. intro H. discriminate H.
Qed.
