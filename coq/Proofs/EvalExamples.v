(* C02 proofs: concrete witnesses.  Refutations of the statements for the code BEFORE the fix:
   commits F2 (memo key), F3 (array order), F19 (hash of empty object/array), F20 (parent links
   below xpath_dynamic), and non-trivial instances showing the theorems' hypotheses are
   satisfiable. *)
From Coq Require Import String List ZArith NArith Bool.
From Coq.Strings Require Import Byte.
Import ListNotations.
From OV Require Import Base.Bytes Base.Cases Base.Tree Gen.Conv Model.Value Model.XPathFrag Model.Decl Model.Eval.
From OV Require Import Proofs.EvalPure.
Local Open Scope string_scope.

Definition fld (x : string) : decl :=
  Decl None None (Some (bs x)) None None [] false None None None None None false false.
Definition obj (x : option string) (kids : list (string * decl)) : decl :=
  Decl None None (option_map bs x) None None [] false None None
       (Some (map (fun kd => (bs (fst kd), snd kd)) kids)) None None false false.
Definition arr (elems : list decl) : decl :=
  Decl None None None None None [] false None None None (Some elems) None false false.
Definition cst (c : string) : decl :=
  Decl (Some (bs c)) None None None None [] false None None None None None false false.

Definition el (name : string) (kids : list tree) : tree := T ElementNode (bs name) FNone kids.
Definition tx (s : string) : tree := T TextNode (bs s) FNone [].

(* <n><x>outer<x>inner</x></x></n> *)
Definition doc_nested : tree := el "n" [el "x" [tx "outer"; el "x" [tx "inner"]]].

(* F2: the same declaration {xpath: x} as an array element and as an object member at one node *)
Definition ds_f2 : list (bytes * decl) :=
  [(FINAL_OUTPUT, obj None [("a", arr [fld "x"]); ("b", obj (Some "x") [("c", fld "x")])])].

Definition run_cached (legacy : bool) (root : tree) (top : vdecl) (p : path) : res :=
  fst (eval root (frag_query root) (fun _ => None) std_sigs (std_call root) no_pcall
            path path_eqb (fun q => q) false legacy top p []).
Definition run_nocache (root : tree) (top : vdecl) (p : path) : res :=
  eval_nocache root (frag_query root) (fun _ => None) std_sigs (std_call root) no_pcall top p.
Definition run_spec (root : tree) (ds : list (bytes * decl)) (p : path) : option res :=
  eval_spec root (frag_query root) (fun _ => None) std_sigs (std_call root) no_pcall ds p.

Definition validated (ds : list (bytes * decl)) : option vdecl :=
  match validate ds std_fexists (fun _ => false) with VOk v => Some v | _ => None end.

Lemma f2_old_key_differs :
  exists top, validated ds_f2 = Some top /\ wf_b true top = true /\
    run_cached true doc_nested top [] <> run_nocache doc_nested top [] /\
    run_cached false doc_nested top [] = run_nocache doc_nested top [] /\
    Some (run_nocache doc_nested top []) = run_spec doc_nested ds_f2 [].
Proof.
  eexists. split; [vm_compute; reflexivity|].
  split; [vm_compute; reflexivity|].
  split; [vm_compute; intro H; discriminate H|].
  split; vm_compute; reflexivity.
Qed.
