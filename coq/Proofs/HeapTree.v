(* C12 proofs, part 2: the representation predicate (a heap region represents an ordered tree of
   addresses) and its structural lemmas: framing, closure of links, chains of siblings. *)
From Coq Require Import List NArith ZArith Bool Lia.
From stdpp Require Import pmap.
From OV Require Import Base.Bytes Base.Cases Base.Tree Model.Heap.
Import ListNotations.

(* ---- induction on address trees ---------------------------------------------------------------- *)
Section atree_ind2.
  Context (P : atree -> Prop).
  Context (HT : forall a ks, Forall P ks -> P (AT a ks)).
  Fixpoint atree_ind2 (t : atree) : P t :=
    let 'AT a ks := t in
    HT a ks ((fix go (l : list atree) : Forall P l :=
                match l with
                | [] => @List.Forall_nil _ P
                | x :: r => @List.Forall_cons _ P x r (atree_ind2 x) (go r)
                end) ks).
End atree_ind2.

(* ---- lists ------------------------------------------------------------------------------------- *)
Lemma elem_of_flat_map {A B} (f : A -> list B) (l : list A) (x : B) :
  x ∈ flat_map f l <-> exists y, y ∈ l /\ x ∈ f y.
Proof.
  rewrite elem_of_list_In, in_flat_map. split; intros [y [H1 H2]]; exists y;
    rewrite ?elem_of_list_In in *; auto.
Qed.

Lemma NoDup_flat_map_inv {A B} (f : A -> list B) (l : list A) :
  NoDup (flat_map f l) -> forall y, y ∈ l -> NoDup (f y).
Proof.
  induction l as [|z l IH]; simpl; intros Hnd y Hy; [inversion Hy|].
  apply NoDup_app in Hnd as (H1 & H2 & H3).
  apply elem_of_cons in Hy as [->|Hy]; auto.
Qed.

(* two members of the list that share an element are the same member *)
Lemma NoDup_flat_map_disj {A B} (f : A -> list B) (l : list A) :
  NoDup (flat_map f l) ->
  forall i j y z x, l !! i = Some y -> l !! j = Some z -> x ∈ f y -> x ∈ f z -> i = j.
Proof.
  induction l as [|w l IH]; simpl; intros Hnd i j y z x Hi Hj Hy Hz; [destruct i; discriminate|].
  apply NoDup_app in Hnd as (H1 & H2 & H3).
  destruct i as [|i], j as [|j]; simpl in *; auto.
  - inversion Hi; subst. exfalso. apply (H2 x Hy). apply elem_of_flat_map.
    exists z. split; [eapply elem_of_list_lookup_2; eauto|auto].
  - inversion Hj; subst. exfalso. apply (H2 x Hz). apply elem_of_flat_map.
    exists y. split; [eapply elem_of_list_lookup_2; eauto|auto].
  - f_equal. eapply IH; eauto.
Qed.

Lemma NoDup_flat_map_split {A B} (f : A -> list B) (l1 l2 : list A) (y : A) :
  NoDup (flat_map f (l1 ++ y :: l2)) ->
  NoDup (flat_map f l1) /\ NoDup (f y) /\ NoDup (flat_map f l2) /\
  (forall x, x ∈ f y -> x ∉ flat_map f l1 /\ x ∉ flat_map f l2) /\
  (forall x, x ∈ flat_map f l1 -> x ∉ flat_map f l2).
Proof.
  rewrite flat_map_app. simpl. intros Hnd.
  apply NoDup_app in Hnd as (H1 & H2 & H3). apply NoDup_app in H3 as (H4 & H5 & H6).
  split; [auto|split; [auto|split; [auto|split]]].
  - intros x Hx. split; intros Hx'.
    + apply (H2 x Hx'). apply elem_of_app. auto.
    + apply (H5 x Hx Hx').
  - intros x Hx Hx'. apply (H2 x Hx). apply elem_of_app. auto.
Qed.

(* ---- basic facts about address trees ------------------------------------------------------------ *)
Lemma root_in t : root t ∈ addrs t.
Proof. destruct t; simpl. apply elem_of_cons. auto. Qed.

Lemma hd_addr_app ks l : hd_addr (ks ++ l) = match ks with [] => hd_addr l | k :: _ => Some (root k) end.
Proof. destruct ks; reflexivity. Qed.

Lemma last_addr_app ks k l : last_addr (ks ++ k :: l) = last_addr (k :: l).
Proof.
  induction ks as [|x ks IH]; [reflexivity|]. simpl app.
  change (last_addr (x :: ks ++ k :: l)) with
    (match ks ++ k :: l with [] => Some (root x) | _ :: _ => last_addr (ks ++ k :: l) end).
  destruct (ks ++ k :: l) eqn:E; [destruct ks; discriminate|]. exact IH.
Qed.

Lemma last_addr_snoc ks k : last_addr (ks ++ [k]) = Some (root k).
Proof. rewrite last_addr_app. reflexivity. Qed.

Lemma last_addr_cons k ks : last_addr (k :: ks) = match ks with [] => Some (root k) | _ => last_addr ks end.
Proof. destruct ks; reflexivity. Qed.

Lemma last_addr_in ks a : last_addr ks = Some a -> exists k, k ∈ ks /\ root k = a.
Proof.
  induction ks as [|k ks IH]; [discriminate|]. rewrite last_addr_cons.
  destruct ks as [|k' ks'].
  - intros H; inversion H. exists k. split; [apply elem_of_cons; auto|reflexivity].
  - intros H. destruct (IH H) as [k0 [H1 H2]]. exists k0. split; [apply elem_of_cons; auto|auto].
Qed.

Lemma hd_addr_in ks a : hd_addr ks = Some a -> exists k, k ∈ ks /\ root k = a.
Proof.
  destruct ks as [|k ks]; [discriminate|]. intros H; inversion H.
  exists k. split; [apply elem_of_cons; auto|reflexivity].
Qed.

Lemma hd_addr_none ks : hd_addr ks = None <-> ks = [].
Proof. destruct ks; simpl; split; intros H; try reflexivity; discriminate. Qed.
Lemma last_addr_none ks : last_addr ks = None <-> ks = [].
Proof.
  split; [|intros ->; reflexivity]. induction ks as [|k ks IH]; [reflexivity|].
  rewrite last_addr_cons. destruct ks; [discriminate|]. intros H. specialize (IH H). discriminate.
Qed.

(* ---- the representation predicate ----------------------------------------------------------------
   [node_at h a par prev next first last]: the record at a has exactly these links.
   [chain P pv nx ks]: the siblings ks are linked in order; pv is what precedes the first one
   and nx what follows the last one.
   [tree_ok h par prev next t]: the region addrs t of the heap is the tree t, hanging below par
   between the siblings prev and next. *)
Definition node_at (h : heapT) (a : addr) (par prev next first last : option addr) : Prop :=
  exists x, h !! a = Some x /\ n_parent x = par /\ n_prev x = prev /\ n_next x = next /\
            n_first x = first /\ n_last x = last.

Definition nx_of (nx : option addr) (r : list atree) : option addr :=
  match r with [] => nx | k :: _ => Some (root k) end.

Section chain.
  Context (P : option addr -> option addr -> atree -> Prop).
  Fixpoint chain (pv nx : option addr) (ks : list atree) : Prop :=
    match ks with
    | [] => True
    | k :: r => P pv (nx_of nx r) k /\ chain (Some (root k)) nx r
    end.
End chain.

Fixpoint tree_ok (h : heapT) (par prev next : option addr) (t : atree) {struct t} : Prop :=
  let 'AT a ks := t in
  node_at h a par prev next (hd_addr ks) (last_addr ks) /\ chain (tree_ok h (Some a)) None None ks.

Lemma tree_ok_unfold h par prev next a ks :
  tree_ok h par prev next (AT a ks) <->
  node_at h a par prev next (hd_addr ks) (last_addr ks) /\ chain (tree_ok h (Some a)) None None ks.
Proof. reflexivity. Qed.

Definition pv_of (pv : option addr) (l : list atree) : option addr :=
  match last_addr l with None => pv | Some a => Some a end.

Lemma chain_app P pv nx l1 l2 :
  chain P pv nx (l1 ++ l2) <-> chain P pv (nx_of nx l2) l1 /\ chain P (pv_of pv l1) nx l2.
Proof.
  revert pv. induction l1 as [|k l1 IH]; intros pv; simpl.
  - unfold pv_of. simpl. tauto.
  - rewrite IH. unfold pv_of. rewrite last_addr_cons.
    assert (Hn : nx_of nx (l1 ++ l2) = nx_of (nx_of nx l2) l1) by (destruct l1; reflexivity).
    rewrite Hn.
    assert (Hp : match last_addr l1 with None => Some (root k) | Some a => Some a end =
                 match (match l1 with [] => Some (root k) | _ :: _ => last_addr l1 end) with
                 | None => pv | Some a => Some a end).
    { destruct l1 as [|k' l1']; [reflexivity|].
      destruct (last_addr (k' :: l1')) eqn:E; [reflexivity|].
      apply last_addr_none in E. discriminate. }
    rewrite Hp. tauto.
Qed.

Lemma chain_impl (P Q : option addr -> option addr -> atree -> Prop) pv nx ks :
  (forall k pv nx, k ∈ ks -> P pv nx k -> Q pv nx k) -> chain P pv nx ks -> chain Q pv nx ks.
Proof.
  revert pv. induction ks as [|k r IH]; intros pv HPQ; simpl; [auto|].
  intros [H1 H2]. split.
  - apply HPQ; [apply elem_of_cons; auto|auto].
  - apply IH; [|auto]. intros k0 pv0 nx0 Hin. apply HPQ. apply elem_of_cons; auto.
Qed.

Lemma chain_map (P : option addr -> option addr -> atree -> Prop) (g : atree -> atree) pv nx ks :
  (forall k, root (g k) = root k) ->
  chain (fun pv nx k => P pv nx (g k)) pv nx ks -> chain P pv nx (map g ks).
Proof.
  intros Hg. revert pv. induction ks as [|k r IH]; intros pv; simpl; [auto|].
  intros [H1 H2]. split.
  - assert (Hn : nx_of nx (map g r) = nx_of nx r) by (destruct r; simpl; rewrite ?Hg; reflexivity).
    rewrite Hn. exact H1.
  - rewrite Hg. apply IH. exact H2.
Qed.

Lemma chain_elem P pv nx ks k :
  chain P pv nx ks -> k ∈ ks -> exists pv' nx', P pv' nx' k.
Proof.
  revert pv. induction ks as [|k0 r IH]; intros pv; simpl; [intros _ H; inversion H|].
  intros [H1 H2] Hin. apply elem_of_cons in Hin as [->|Hin]; eauto.
Qed.

Lemma hd_addr_map g ks : (forall k, root (g k) = root k) -> hd_addr (map g ks) = hd_addr ks.
Proof. intros Hg. destruct ks; simpl; rewrite ?Hg; reflexivity. Qed.
Lemma last_addr_map g ks : (forall k, root (g k) = root k) -> last_addr (map g ks) = last_addr ks.
Proof.
  intros Hg. induction ks as [|k ks IH]; [reflexivity|]. simpl map. rewrite !last_addr_cons.
  destruct ks as [|k' ks']; [simpl; rewrite Hg; reflexivity|]. exact IH.
Qed.

(* ---- framing: tree_ok only looks at the addresses of the tree ------------------------------------ *)
Lemma tree_ok_frame h h' : forall t par prev next,
  (forall a, a ∈ addrs t -> h' !! a = h !! a) ->
  tree_ok h par prev next t -> tree_ok h' par prev next t.
Proof.
  induction t as [a ks IH] using atree_ind2. intros par prev next Hag [Hn Hc].
  split.
  - destruct Hn as [x Hx]. exists x. rewrite Hag; [exact Hx|]. apply (root_in (AT a ks)).
  - eapply chain_impl; [|exact Hc]. intros k pv nx Hk Hok.
    rewrite Forall_forall in IH. apply (IH k Hk); [|exact Hok].
    intros b Hb. apply Hag. simpl. apply elem_of_cons. right. apply elem_of_flat_map. eauto.
Qed.

(* the record of a node of a represented tree, and where its links point *)
Definition oin (o : option addr) (l : list addr) : Prop :=
  match o with None => True | Some b => b ∈ l end.

Lemma tree_ok_root h par prev next t :
  tree_ok h par prev next t ->
  exists x, h !! root t = Some x /\ n_parent x = par /\ n_prev x = prev /\ n_next x = next /\
            n_first x = hd_addr (kids t) /\ n_last x = last_addr (kids t).
Proof. destruct t as [a ks]. intros [Hn _]. exact Hn. Qed.

Lemma tree_ok_lookup h : forall t par prev next a,
  tree_ok h par prev next t -> a ∈ addrs t -> exists x, h !! a = Some x.
Proof.
  induction t as [b ks IH] using atree_ind2. intros par prev next a [Hn Hc] Ha.
  simpl in Ha. apply elem_of_cons in Ha as [->|Ha].
  - destruct Hn as [x [Hx _]]. eauto.
  - apply elem_of_flat_map in Ha as [k [Hk Ha]].
    destruct (chain_elem _ _ _ _ _ Hc Hk) as [pv [nx Hok]].
    rewrite Forall_forall in IH. eapply IH; eauto.
Qed.

(* links of a non-root node of t stay inside t; child links of every node stay inside t *)
Lemma chain_links_in (P : option addr -> option addr -> atree -> Prop) l :
  forall ks pv nx, chain P pv nx ks -> oin pv l -> oin nx l ->
  (forall k, k ∈ ks -> root k ∈ l) ->
  forall k, k ∈ ks -> exists pv' nx', P pv' nx' k /\ oin pv' l /\ oin nx' l.
Proof.
  induction ks as [|k0 r IH]; intros pv nx Hc Hpv Hnx Hroots k Hk; [inversion Hk|].
  simpl in Hc. destruct Hc as [H1 H2].
  apply elem_of_cons in Hk as [->|Hk].
  - exists pv, (nx_of nx r). split; [auto|split; [auto|]].
    destruct r as [|k1 r']; simpl; [auto|]. apply Hroots. apply elem_of_cons. right. apply elem_of_cons. auto.
  - eapply (IH (Some (root k0)) nx); eauto.
    + simpl. apply Hroots. apply elem_of_cons. auto.
    + intros k' Hk'. apply Hroots. apply elem_of_cons. auto.
Qed.

Lemma tree_ok_closed h : forall t par prev next,
  tree_ok h par prev next t ->
  forall a x, a ∈ addrs t -> h !! a = Some x ->
    oin (n_first x) (addrs t) /\ oin (n_last x) (addrs t) /\
    (a <> root t -> oin (n_parent x) (addrs t) /\ oin (n_prev x) (addrs t) /\ oin (n_next x) (addrs t)).
Proof.
  induction t as [b ks IH] using atree_ind2. intros par prev next [Hn Hc] a x Ha Hx.
  rewrite Forall_forall in IH.
  assert (Hsub : forall k c, k ∈ ks -> c ∈ addrs k -> c ∈ addrs (AT b ks)).
  { intros k c Hk Hc'. simpl. apply elem_of_cons. right. apply elem_of_flat_map. eauto. }
  assert (Hoin : forall k o, k ∈ ks -> oin o (addrs k) -> oin o (addrs (AT b ks))).
  { intros k [c|] Hk Ho; simpl in *; [|auto]. apply elem_of_cons. right. apply elem_of_flat_map. eauto. }
  simpl in Ha. apply elem_of_cons in Ha as [->|Ha].
  - destruct Hn as [y [Hy (Hp & Hpv & Hnx & Hf & Hl)]]. rewrite Hy in Hx. inversion Hx; subst y.
    split; [|split; [|intros Hne; exfalso; apply Hne; reflexivity]].
    + rewrite Hf. destruct (hd_addr ks) as [c|] eqn:E; simpl; [|auto].
      apply hd_addr_in in E as [k [Hk <-]]. eapply Hsub; eauto. apply root_in.
    + rewrite Hl. destruct (last_addr ks) as [c|] eqn:E; simpl; [|auto].
      apply last_addr_in in E as [k [Hk <-]]. eapply Hsub; eauto. apply root_in.
  - apply elem_of_flat_map in Ha as [k [Hk Ha]].
    destruct (chain_links_in _ (b :: flat_map addrs ks) _ _ _ Hc I I) with (k := k) as [pv [nx [Hok [Hpv Hnx]]]]; auto.
    { intros k' Hk'. apply elem_of_cons. right. apply elem_of_flat_map. exists k'. split; [auto|apply root_in]. }
    destruct (IH k Hk _ _ _ Hok a x Ha Hx) as (Hf & Hl & Hrest).
    split; [eapply Hoin; eauto|split; [eapply Hoin; eauto|]].
    intros _. destruct (decide (a = root k)) as [->|Hne].
    + destruct (tree_ok_root _ _ _ _ _ Hok) as [y [Hy (Hp & Hpv' & Hnx' & _)]].
      rewrite Hy in Hx. inversion Hx; subst y. rewrite Hp, Hpv', Hnx'. simpl.
      split; [apply elem_of_cons; auto|split; assumption].
    + destruct (Hrest Hne) as (H1 & H2 & H3). repeat split; eapply Hoin; eauto.
Qed.

Lemma subtree_t_in n : forall t y, subtree_t n t = Some y -> n ∈ addrs t.
Proof.
  induction t as [c cs IH] using atree_ind2. intros y. simpl.
  destruct (Pos.eqb_spec c n) as [->|Hcn]; [intros _; apply elem_of_cons; auto|].
  intros E. apply elem_of_cons. right. rewrite Forall_forall in IH.
  induction cs as [|c0 cs IHcs]; [discriminate|].
  simpl. apply elem_of_app.
  destruct (subtree_t n c0) as [z|] eqn:E0.
  - left. eapply IH; [apply elem_of_list_here|eauto].
  - right. apply IHcs; auto. intros k1 Hk1. apply IH. apply elem_of_cons; auto.
Qed.

(* the record found at an address of a represented tree determines the subtree rooted there *)
Lemma tree_ok_sub h n : forall t par prev next,
  tree_ok h par prev next t -> n ∈ addrs t ->
  exists tn par' prev' next', subtree_t n t = Some tn /\ root tn = n /\ tree_ok h par' prev' next' tn /\
    (forall a, a ∈ addrs tn -> a ∈ addrs t).
Proof.
  induction t as [b ks IH] using atree_ind2. intros par prev next Hok Hn.
  simpl subtree_t. destruct (Pos.eqb_spec b n) as [->|Hne].
  - exists (AT n ks), par, prev, next. split; [reflexivity|split; [reflexivity|split; [exact Hok|auto]]].
  - destruct Hok as [Hnode Hc]. simpl in Hn. apply elem_of_cons in Hn as [Heq|Hn]; [congruence|].
    rewrite Forall_forall in IH.
    assert (Hgo : forall l, (forall k, k ∈ l -> k ∈ ks) -> n ∈ flat_map addrs l ->
              exists tn par' prev' next',
                (fix go (l : list atree) : option atree :=
                   match l with
                   | [] => None
                   | k :: r => match subtree_t n k with Some x => Some x | None => go r end
                   end) l = Some tn /\ root tn = n /\ tree_ok h par' prev' next' tn /\
                (forall a, a ∈ addrs tn -> a ∈ flat_map addrs l)).
    { induction l as [|k r IHl]; intros Hsub Hin; [inversion Hin|].
      simpl in Hin. apply elem_of_app in Hin.
      destruct (decide (n ∈ addrs k)) as [Hk|Hk].
      - assert (Hkk : k ∈ ks) by (apply Hsub; apply elem_of_cons; auto).
        destruct (chain_elem _ _ _ _ _ Hc Hkk) as [pv [nx Hokk]].
        destruct (IH k Hkk _ _ _ Hokk Hk) as (tn & p' & v' & x' & E & Hr & Ht & Hs).
        exists tn, p', v', x'. rewrite E. repeat split; auto.
        intros a Ha. simpl. apply elem_of_app. left. auto.
      - destruct Hin as [Hin|Hin]; [contradiction|].
        destruct IHl as (tn & p' & v' & x' & E & Hr & Ht & Hs); auto.
        { intros k' Hk'. apply Hsub. apply elem_of_cons; auto. }
        exists tn, p', v', x'.
        destruct (subtree_t n k) as [y|] eqn:Ek.
        + exfalso. apply Hk. eapply subtree_t_in; eauto.
        + repeat split; auto. intros a Ha. simpl. apply elem_of_app. right. auto. }
    destruct (Hgo ks) as (tn & p' & v' & x' & E & Hr & Ht & Hs); auto.
    exists tn, p', v', x'. repeat split; auto.
    intros a Ha. simpl. apply elem_of_cons. right. auto.
Qed.

(* ---- identities of graft / prune outside their focus ---------------------------------------------- *)
Lemma root_graft_t p tn t : root (graft_t p tn t) = root t.
Proof. destruct t as [a ks]. simpl. destruct (Pos.eqb a p); reflexivity. Qed.

Lemma root_prune_t n t : root (prune_t n t) = root t.
Proof. destruct t as [a ks]. reflexivity. Qed.

Lemma graft_t_id p tn : forall t, p ∉ addrs t -> graft_t p tn t = t.
Proof.
  induction t as [a ks IH] using atree_ind2. intros Hp. simpl.
  destruct (Pos.eqb_spec a p) as [->|Hne]; [exfalso; apply Hp; apply elem_of_cons; auto|].
  f_equal. rewrite Forall_forall in IH.
  assert (H : forall l, (forall k, k ∈ l -> k ∈ ks) -> map (graft_t p tn) l = l).
  { induction l as [|k r IHl]; intros Hsub; [reflexivity|]. simpl. f_equal.
    - apply IH; [apply Hsub; apply elem_of_cons; auto|].
      intros Hin. apply Hp. simpl. apply elem_of_cons. right. apply elem_of_flat_map.
      exists k. split; [apply Hsub; apply elem_of_cons; auto|auto].
    - apply IHl. intros k' Hk'. apply Hsub. apply elem_of_cons; auto. }
  apply H. auto.
Qed.

Lemma filter_id {A} (f : A -> bool) l : (forall x, x ∈ l -> f x = true) -> List.filter f l = l.
Proof.
  induction l as [|x l IH]; intros H; [reflexivity|]. simpl.
  rewrite H by (apply elem_of_cons; auto). f_equal. apply IH. intros y Hy. apply H. apply elem_of_cons; auto.
Qed.

Lemma prune_t_id n : forall t, n ∉ addrs t -> prune_t n t = t.
Proof.
  induction t as [a ks IH] using atree_ind2. intros Hn. simpl. f_equal.
  rewrite Forall_forall in IH.
  assert (Hm : map (prune_t n) ks = ks).
  { assert (H : forall l, (forall k, k ∈ l -> k ∈ ks) -> map (prune_t n) l = l).
    { induction l as [|k r IHl]; intros Hsub; [reflexivity|]. simpl. f_equal.
      - apply IH; [apply Hsub; apply elem_of_cons; auto|].
        intros Hin. apply Hn. simpl. apply elem_of_cons. right. apply elem_of_flat_map.
        exists k. split; [apply Hsub; apply elem_of_cons; auto|auto].
      - apply IHl. intros k' Hk'. apply Hsub. apply elem_of_cons; auto. }
    apply H. auto. }
  rewrite Hm. apply filter_id. intros k Hk.
  destruct (Pos.eqb_spec (root k) n) as [<-|Hne]; [|reflexivity].
  exfalso. apply Hn. simpl. apply elem_of_cons. right. apply elem_of_flat_map.
  exists k. split; [auto|apply root_in].
Qed.
