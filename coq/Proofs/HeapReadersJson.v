(* C12 bridge proofs, part 5: the JSON stream reader.  Besides the API calls it writes
   FormatSpecific of the current node directly (sp.cur.FormatSpecific = JSONTypeOf(sp.cur) | bit);
   that write touches no link and keeps the representation invariant. *)
From Coq Require Import List NArith ZArith Bool Lia.
From stdpp Require Import pmap.
From OV Require Import Base.Bytes Base.Cases Base.Tree Model.Stream Model.Heap Model.HeapReaders
  Proofs.HeapIds Proofs.HeapTree Proofs.HeapOps Proofs.HeapPath Proofs.HeapRep Proofs.HeapRemove
  Proofs.Heap Proofs.HeapPay Proofs.HeapZip Proofs.HeapPrims Proofs.HeapReaders.
Import ListNotations.

(* ---- a write that keeps the links ---------------------------------------------------------------------- *)
Definition lnk (x : node) := (n_parent x, n_first x, n_last x, n_prev x, n_next x).
Definition olnk (o : option node) := option_map lnk o.

Lemma tree_ok_links_frame h h' : forall t par prev next,
  (forall a, a ∈ addrs t -> olnk (h' !! a) = olnk (h !! a)) ->
  tree_ok h par prev next t -> tree_ok h' par prev next t.
Proof.
  induction t as [a ks IH] using atree_ind2. intros par prev next Hag [Hn Hc]. split.
  - destruct Hn as [x [Hx (H1 & H2 & H3 & H4 & H5)]].
    specialize (Hag a (root_in (AT a ks))). rewrite Hx in Hag.
    destruct (h' !! a) as [x'|] eqn:Hx'; [|discriminate]. simpl in Hag. unfold lnk in Hag. inversion Hag.
    exists x'. repeat split; congruence.
  - eapply chain_impl; [|exact Hc]. intros k pv nx Hk Hok.
    rewrite Forall_forall in IH. apply (IH k Hk); [|exact Hok].
    intros b Hb. apply Hag. eapply addrs_kid_in; eauto.
Qed.

Lemma rep_set_fs caching s F acq a x fs :
  Rep caching s F -> AcqInv s acq -> heap s !! a = Some x -> a ∈ addrs_f F ->
  let s' := with_heap s (<[a := Heap.set_fs fs x]> (heap s)) in
  Rep caching s' F /\ AcqInv s' acq.
Proof.
  intros HR (HA1 & HA2 & HA3) Hx Ha s'.
  pose proof (R_nodup _ _ _ HR) as Hnd. apply NoDup_app in Hnd as (_ & Hd & _).
  assert (Hids : forall b, id_of (heap s') b = id_of (heap s) b).
  { intros b. unfold id_of, s'. simpl. destruct (decide (b = a)) as [->|Hne].
    - rewrite lookup_insert, Hx. reflexivity.
    - rewrite lookup_insert_ne by congruence. reflexivity. }
  assert (Hpool : forall b, b ∈ pool s -> heap s' !! b = heap s !! b).
  { intros b Hb. unfold s'. simpl. apply lookup_insert_ne. intros ->. exact (Hd b Ha Hb). }
  split; [split; simpl|split; [exact HA1|split; [exact HA2|]]].
  - pose proof (R_links _ _ _ HR) as Hl. rewrite Forall_forall in *. intros t Ht.
    eapply tree_ok_links_frame; [|apply Hl; exact Ht]. intros b Hb.
    destruct (decide (b = a)) as [->|Hne].
    + rewrite lookup_insert, Hx. reflexivity.
    + rewrite lookup_insert_ne by congruence. reflexivity.
  - apply (R_nodup _ _ _ HR).
  - intros b Hb. destruct (R_blank _ _ _ HR b Hb) as [id Hid]. exists id.
    rewrite <- Hid. apply (Hpool b Hb).
  - apply (R_bound _ _ _ HR).
  - intros b Hb. rewrite lookup_insert_ne; [apply (R_dom _ _ _ HR b Hb)|].
    intros ->. pose proof (R_bound _ _ _ HR b (proj2 (elem_of_app _ _ _) (or_introl Ha))). lia.
  - intros b y Hy. destruct (decide (b = a)) as [->|Hne].
    + rewrite lookup_insert in Hy. inversion Hy; subst. simpl. apply (R_idle _ _ _ HR a x Hx).
    + rewrite lookup_insert_ne in Hy by congruence. apply (R_idle _ _ _ HR b y Hy).
  - rewrite (map_ext_elem _ (id_of (heap s))) by (intros; apply Hids). apply (R_ids _ _ _ HR).
  - apply (R_nocache _ _ _ HR).
  - intros b Hb. simpl. rewrite Hids. apply (HA3 b Hb).
Qed.

Definition stepped0 (caching : bool) (r r' : rd) : Prop :=
  good caching (r_m r') /\ wf r' /\ r_env r' = r_env r.

Lemma stepped_0 caching r r' : stepped caching r r' -> stepped0 caching r r'.
Proof. intros (G & W & V & _). split; auto. Qed.

Lemma stepped0_trans caching r1 r2 r3 : stepped0 caching r1 r2 -> stepped0 caching r2 r3 -> stepped0 caching r1 r3.
Proof. intros (_ & _ & E1) (G & W & E2). split; [auto|split; [auto|congruence]]. Qed.

Lemma set_cur_fs_ok caching st r fs :
  good caching (r_m r) -> wf r -> sim st r -> r_stack r <> [] ->
  exists r', set_cur_fs r fs = Some r' /\ stepped0 caching r r' /\
    sim (map_cur (fun f => Stream.set_fs f fs) st) r'.
Proof.
  intros Hg Hwf Hsim Hne. pose proof Hg as [HR HA].
  destruct (r_tree_some r Hne) as [t Ht].
  destruct (frames_in_forest caching r t Hg Hwf Hne Ht) as (Hndfr & Hfr_t & Ht_env & Ht_F).
  unfold set_cur_fs, do_set_fs. destruct (r_stack r) as [|[cur ks] up] eqn:Est; [congruence|].
  destruct Hsim as (Hst & _ & Hdn). rewrite Est in Hst.
  destruct (s_stack st) as [|f fr] eqn:Eabs; [inversion Hst|].
  inversion Hst as [|f' af fr' afr Hf Hrest E1 E2]; subst. destruct Hf as [Hf1 Hf2]. simpl in Hf1, Hf2.
  unfold node_pay in Hf1. destruct (heap (m_s (r_m r)) !! cur) as [x|] eqn:Hx; [|discriminate].
  assert (Hcur_F : cur ∈ addrs_f (m_F (r_m r))).
  { apply Ht_F. apply Hfr_t. rewrite frames_addrs_cons. apply elem_of_app. left. apply elem_of_cons. auto. }
  destruct (rep_set_fs caching _ _ _ cur x fs HR HA Hx Hcur_F) as [HR' HA'].
  eexists. split; [reflexivity|]. split; [split; [split; [exact HR'|exact HA']|split; [|reflexivity]]|].
  - unfold wf, r_forest, r_tree in *. simpl. rewrite Est in *. exact Hwf.
  - unfold sim, map_cur. rewrite Eabs. simpl.
    split; [|split; [intros E; discriminate|intros _; apply Hdn; rewrite Est; discriminate]].
    (* cur is changed, nothing else; cur occurs nowhere else in the frames *)
    rewrite frames_addrs_cons in Hndfr. apply NoDup_app in Hndfr as (Hndtop & Hdtop & _).
    unfold frame_addrs in Hndtop. simpl in Hndtop. apply NoDup_cons in Hndtop as [Hcur_ks _].
    constructor.
    + split; simpl.
      * unfold node_pay. rewrite lookup_insert. simpl. simpl in Hf1. inversion Hf1 as [[E1 E2 E3]].
        reflexivity.
      * rewrite (payloads_pres (heap (m_s (r_m r)))); [exact Hf2|].
        intros b Hb. rewrite lookup_insert_ne; [reflexivity|]. intros ->. contradiction.
    + eapply stack_sim_pres; [|exact Hrest]. intros b Hb. rewrite lookup_insert_ne; [reflexivity|].
      intros ->. apply (Hdtop b); [unfold frame_addrs; apply elem_of_cons; auto|exact Hb].
Qed.

(* ---- jstep --------------------------------------------------------------------------------------------------- *)
Lemma jor_set_fs bit f : jor bit f = Stream.set_fs f (f_fs (jor bit f)).
Proof. unfold jor. destruct f as [ty d fs ks]. simpl. destruct fs; reflexivity. Qed.

Lemma map_cur_jor bit st f rest : s_stack st = f :: rest ->
  map_cur (jor bit) st = map_cur (fun g => Stream.set_fs g (f_fs (jor bit f))) st.
Proof. intros E. unfold map_cur. rewrite E. rewrite <- jor_set_fs. reflexivity. Qed.

Lemma jtext_shape tk txt : jtext tk = Some txt -> txt = T (t_type txt) (t_data txt) (t_fs txt) [].
Proof. destruct tk; simpl; intros H; inversion H; reflexivity. Qed.

Lemma cc_stack pm st : s_stack (candidate_check pm st) = s_stack st.
Proof.
  unfold candidate_check. destruct (s_stream st); auto. destruct (root_tree st); auto.
  destruct (match_any pm ptrue t); reflexivity.
Qed.

Lemma add_text_ne st t : s_stack st <> [] -> s_stack (add_text st t) <> [].
Proof. unfold add_text. destruct (s_stack st); [congruence|discriminate]. Qed.

Section Json.
  Variable pm : list name -> bool.
  Variable pred : tree -> bool.
  Variable hf oc : bool.
  Variable caching : bool.
  Variable choose : st -> choice.
  Hypothesis HL : legal caching choose.

  Notation res_ok st r r' := (stepped0 caching r r' /\ sim st r').

  Lemma new_elem_ok st r data flags :
    good caching (r_m r) -> wf r -> sim st r -> r_stack r <> [] ->
    exists r', new_elem caching choose r data flags = Some r' /\
      res_ok (Stream.push (mkF ElementNode data (FJson flags) []) st) r r'.
  Proof.
    intros Hg Hwf Hsim Hne.
    destruct (new_child_ok caching choose st r ElementNode data (FJson flags) true HL Hg Hwf Hsim Hne)
      as (r1 & E1 & G1 & W1 & V1 & X1 & S1).
    exists r1. split; [exact E1|split; [split; auto|exact S1]].
  Qed.

  Lemma new_text_ok st r tk txt :
    jtext tk = Some txt ->
    good caching (r_m r) -> wf r -> sim st r -> r_stack r <> [] ->
    exists r', new_text caching choose r txt = Some r' /\ res_ok (add_text st txt) r r'.
  Proof.
    intros Ht Hg Hwf Hsim Hne.
    destruct (new_child_ok caching choose st r (t_type txt) (t_data txt) (t_fs txt) false HL Hg Hwf Hsim Hne)
      as (r1 & E1 & G1 & W1 & V1 & X1 & S1).
    exists r1. split; [exact E1|split; [split; auto|]]. rewrite <- (jtext_shape _ _ Ht) in S1. exact S1.
  Qed.

  Lemma or_cur_ok st r f rest bit :
    s_stack st = f :: rest ->
    good caching (r_m r) -> wf r -> sim st r ->
    exists r', or_cur r f bit = Some r' /\ res_ok (map_cur (jor bit) st) r r'.
  Proof.
    intros Est Hg Hwf Hsim.
    assert (Hne : r_stack r <> []) by (apply (sim_ne _ _ Hsim); rewrite Est; discriminate).
    destruct (set_cur_fs_ok caching st r (f_fs (jor bit f)) Hg Hwf Hsim Hne) as (r1 & E1 & St & S1).
    exists r1. split; [exact E1|split; [exact St|]]. rewrite (map_cur_jor bit st f rest Est). exact S1.
  Qed.

  (* the result of a token, as a property of the heap-level reader *)
  Definition tok_ok (res : stepres) (o : option rd) (r : rd) : Prop :=
    match res with
    | RCont st' => exists r', o = Some r' /\ res_ok st' r r'
    | RDeliver t n st' =>
        exists r' ta, o = Some r' /\ res_ok st' r r' /\
          last_closed r' = Some ta /\ payload (heap (m_s (r_m r'))) ta = Some t
    | _ => True
    end.

  Lemma wrap_tok_ok st r r0 :
    stepped0 caching r0 r -> sim st r -> s_stack st <> [] ->
    tok_ok (wrap_up pm pred hf oc st) (h_wrap_up pm pred hf oc caching st r) r0.
  Proof.
    intros (Hg & Hwf & Henv) Hsim Hne. destruct (s_stack st) as [|f rest] eqn:Est; [congruence|].
    pose proof (h_wrap_up_ok pm pred hf oc caching st r f rest Hg Hwf Hsim Est) as H.
    unfold tok_ok. destruct (wrap_up pm pred hf oc st) as [st'|t n st'| |]; auto.
    - destruct H as (r' & E & St & S). exists r'. split; [exact E|split; [|exact S]].
      eapply stepped0_trans; [split; [exact Hg|split; [exact Hwf|exact Henv]]|apply stepped_0; exact St].
    - destruct H as (r' & ta & E & St & S & L & P). exists r', ta. split; [exact E|split; [split; [|exact S]|auto]].
      eapply stepped0_trans; [split; [exact Hg|split; [exact Hwf|exact Henv]]|apply stepped_0; exact St].
  Qed.

  Lemma cont_ok st' r r' o : o = Some r' -> res_ok st' r r' -> tok_ok (RCont st') o r.
  Proof. intros -> H. exists r'. auto. Qed.

  Lemma stepped0_refl r : good caching (r_m r) -> wf r -> stepped0 caching r r.
  Proof. intros. split; auto. Qed.

  Lemma hj_token_ok st r tk :
    good caching (r_m r) -> wf r -> sim st r ->
    tok_ok (jstep pm pred hf oc st tk) (hj_token pm pred hf oc caching choose st r tk) r.
  Proof.
    intros Hg Hwf Hsim. unfold jstep, hj_token.
    destruct (s_stack st) as [|cur rest] eqn:Est; [exact I|].
    assert (Hne : r_stack r <> []) by (apply (sim_ne _ _ Hsim); rewrite Est; discriminate).
    assert (Hrefl : tok_ok (RCont st) (Some r) r).
    { exists r. split; [reflexivity|split; [apply stepped0_refl; auto|exact Hsim]]. }
    assert (Hopen : forall flags bit,
              tok_ok (if jflag J_ARR cur then RCont (candidate_check pm (Stream.push (mkF ElementNode [] (FJson flags) []) st))
                      else if jflag J_PROP cur then RCont (map_cur (jor bit) st)
                      else if jflag J_ROOT cur then RCont (candidate_check pm (map_cur (jor bit) st))
                      else RCont st)
                     (if jflag J_ARR cur then new_elem caching choose r [] flags
                      else if jflag J_PROP cur then or_cur r cur bit
                      else if jflag J_ROOT cur then or_cur r cur bit
                      else Some r) r).
    { intros flags bit. destruct (jflag J_ARR cur).
      - destruct (new_elem_ok st r [] flags Hg Hwf Hsim Hne) as (r1 & E1 & St & S1).
        eapply cont_ok; [exact E1|]. split; [exact St|apply sim_cc; exact S1].
      - destruct (jflag J_PROP cur).
        + destruct (or_cur_ok st r cur rest bit Est Hg Hwf Hsim) as (r1 & E1 & St & S1).
          eapply cont_ok; [exact E1|]. split; [exact St|exact S1].
        + destruct (jflag J_ROOT cur); [|exact Hrefl].
          destruct (or_cur_ok st r cur rest bit Est Hg Hwf Hsim) as (r1 & E1 & St & S1).
          eapply cont_ok; [exact E1|]. split; [exact St|apply sim_cc; exact S1]. }
    assert (Hwrap : tok_ok (wrap_up pm pred hf oc st) (h_wrap_up pm pred hf oc caching st r) r).
    { apply wrap_tok_ok; [apply stepped0_refl; auto|exact Hsim|rewrite Est; discriminate]. }
    assert (Hval : forall txt, jtext tk = Some txt ->
              tok_ok
                (if jflag J_OBJ cur then
                   match tk with
                   | JStrT s => RCont (candidate_check pm (Stream.push (mkF ElementNode s (FJson J_PROP) []) st))
                   | _ => RPanic
                   end
                 else if jflag J_ARR cur then
                   wrap_up pm pred hf oc (add_text (candidate_check pm (Stream.push (mkF ElementNode [] (FJson J_PROP) []) st)) txt)
                 else if jflag J_PROP cur then wrap_up pm pred hf oc (add_text st txt)
                 else if jflag J_ROOT cur then wrap_up pm pred hf oc (add_text (candidate_check pm st) txt)
                 else RCont st)
                (if jflag J_OBJ cur then
                   match tk with
                   | JStrT s => new_elem caching choose r s J_PROP
                   | _ => Some r
                   end
                 else if jflag J_ARR cur then
                   obnd (new_elem caching choose r [] J_PROP) (fun r1 =>
                   obnd (new_text caching choose r1 txt) (fun r2 =>
                   h_wrap_up pm pred hf oc caching
                     (add_text (candidate_check pm (Stream.push (mkF ElementNode [] (FJson J_PROP) []) st)) txt) r2))
                 else if jflag J_PROP cur then
                   obnd (new_text caching choose r txt) (fun r1 =>
                   h_wrap_up pm pred hf oc caching (add_text st txt) r1)
                 else if jflag J_ROOT cur then
                   obnd (new_text caching choose r txt) (fun r1 =>
                   h_wrap_up pm pred hf oc caching (add_text (candidate_check pm st) txt) r1)
                 else Some r) r).
    { intros txt Htxt. destruct (jflag J_OBJ cur).
      - destruct tk; try exact I.
        destruct (new_elem_ok st r s J_PROP Hg Hwf Hsim Hne) as (r1 & E1 & St & S1).
        eapply cont_ok; [exact E1|]. split; [exact St|apply sim_cc; exact S1].
      - destruct (jflag J_ARR cur).
        + destruct (new_elem_ok st r [] J_PROP Hg Hwf Hsim Hne) as (r1 & E1 & (G1 & W1 & V1) & S1).
          rewrite E1. simpl.
          assert (S1' : sim (candidate_check pm (Stream.push (mkF ElementNode [] (FJson J_PROP) []) st)) r1)
            by (apply sim_cc; exact S1).
          assert (Hne1 : r_stack r1 <> []) by (apply (sim_ne _ _ S1); simpl; discriminate).
          destruct (new_text_ok _ r1 tk txt Htxt G1 W1 S1' Hne1) as (r2 & E2 & (G2 & W2 & V2) & S2).
          rewrite E2. simpl.
          apply wrap_tok_ok; [split; [auto|split; [auto|congruence]]|exact S2|].
          apply add_text_ne. rewrite cc_stack. simpl. discriminate.
        + destruct (jflag J_PROP cur).
          * destruct (new_text_ok st r tk txt Htxt Hg Hwf Hsim Hne) as (r1 & E1 & (G1 & W1 & V1) & S1).
            rewrite E1. simpl. apply wrap_tok_ok; [split; auto|exact S1|].
            apply add_text_ne. rewrite Est. discriminate.
          * destruct (jflag J_ROOT cur); [|exact Hrefl].
            assert (Hsim' : sim (candidate_check pm st) r) by (apply sim_cc; exact Hsim).
            destruct (new_text_ok _ r tk txt Htxt Hg Hwf Hsim' Hne) as (r1 & E1 & (G1 & W1 & V1) & S1).
            rewrite E1. simpl. apply wrap_tok_ok; [split; auto|exact S1|].
            apply add_text_ne. rewrite cc_stack, Est. discriminate. }
    destruct tk; simpl; try (apply Hopen); try exact Hwrap; try (apply (Hval _ eq_refl)).
  Qed.
End Json.

(* ---- the JSON reader, read to the end ---------------------------------------------------------------------------- *)
Lemma wrap_deliver_closed pm pred hf oc st t n st' :
  wrap_up pm pred hf oc st = RDeliver t n st' -> s_stream st' = SClosed.
Proof.
  unfold wrap_up. destruct (s_stack st) as [|f rest]; [discriminate|].
  destruct (negb _); [discriminate|]. destruct (_ || _); [|discriminate].
  intros H. inversion H. reflexivity.
Qed.

Section JsonRun.
  Variable pm : list name -> bool.
  Variable pred : tree -> bool.
  Variable hf oc : bool.
  Variable caching : bool.
  Variable choose : st -> choice.
  Hypothesis HL : legal caching choose.

  Lemma jdeliver_closed st tk t n st' :
    jstep pm pred hf oc st tk = RDeliver t n st' -> s_stream st' = SClosed.
  Proof.
    unfold jstep. destruct (s_stack st) as [|cur rest]; [discriminate|].
    destruct tk; simpl;
      repeat match goal with |- context [if ?b then _ else _] => destruct b end;
      try discriminate; try (apply wrap_deliver_closed).
  Qed.

  Lemma hj_run_ok : forall toks st r rel,
    good caching (r_m r) -> wf r -> sim st r ->
    exists r' ds, hj_run pm pred hf oc caching choose st r rel toks = Some (r', ds) /\
      stepped0 caching r r' /\
      Forall2 (deliv_ok caching) ds (map fst (fst (jrun pm pred hf oc st rel toks))).
  Proof.
    induction toks as [|tk toks IH]; intros st r rel Hg Hwf Hsim; simpl.
    - exists r, []. split; [reflexivity|split; [split; auto|constructor]].
    - pose proof (hj_token_ok pm pred hf oc caching choose HL st r tk Hg Hwf Hsim) as Htok.
      unfold tok_ok in Htok.
      destruct (jstep pm pred hf oc st tk) as [st'|t n st'| |] eqn:Estep; simpl in Htok.
      + destruct Htok as (r1 & E1 & ((G1 & W1 & V1) & S1)). rewrite E1. simpl.
        destruct (IH st' r1 rel G1 W1 S1) as (r2 & ds & E2 & (G2 & W2 & V2) & Hds).
        exists r2, ds. split; [exact E2|split; [|exact Hds]]. split; [auto|split; [auto|congruence]].
      + destruct Htok as (r1 & ta & E1 & ((G1 & W1 & V1) & S1) & Hlc & Hpay). rewrite E1. simpl.
        unfold last_closed in Hlc. rewrite Hlc.
        assert (Hd : deliv_ok caching (r_m r1, ta) t).
        { destruct (last_closed_ok caching r1 ta G1 W1 Hlc) as [Hin Hok].
          split; [exact G1|split; [exact Hpay|split; [exact Hin|exact Hok]]]. }
        destruct (match (if hd false rel then release st' else Some st') with
                  | Some s => read_prologue s | None => None end) as [st2|] eqn:Est2.
        * assert (Es : s_stream st' = SClosed) by (eapply jdeliver_closed; eauto).
          assert (Est2' : st2 = remove_closed st').
          { assert (En : s_stream (remove_closed st') = SNone) by (unfold remove_closed; destruct (s_stack st'); reflexivity).
            destruct (hd false rel); unfold release, read_prologue in Est2; rewrite ?Es in Est2; simpl in Est2;
              rewrite ?En in Est2; inversion Est2; reflexivity. }
          assert (Hlast : match r_stack r1 with
                          | [] => exists ta0, r_done r1 = Some ta0
                          | (_, ks) :: _ => exists ks' ta0, ks = ks' ++ [ta0]
                          end).
          { destruct (r_stack r1) as [|[p ks] up]; [eauto|].
            destruct (rev ks) as [|k rest] eqn:Er; [discriminate|]. exists (rev rest), k.
            rewrite <- (rev_involutive ks), Er. reflexivity. }
          destruct (remove_last_ok caching st' r1 G1 W1 S1 Hlast) as (r2 & E2 & G2 & W2 & V2 & X2 & S2).
          rewrite E2. simpl.
          assert (S2' : sim st2 r2) by (rewrite Est2'; exact S2).
          destruct (IH st2 r2 (tl rel) G2 W2 S2') as (r3 & ds & E3 & (G3 & W3 & V3) & Hds).
          rewrite E3. simpl. exists r3, ((r_m r1, ta) :: ds). split; [reflexivity|split].
          -- split; [auto|split; [auto|congruence]].
          -- destruct (jrun pm pred hf oc st2 (tl rel) toks) as [ds' fin]. simpl in *. constructor; assumption.
        * exists r1, [(r_m r1, ta)]. split; [reflexivity|split; [split; auto|]].
          simpl. constructor; [exact Hd|constructor].
      + exists r, []. split; [reflexivity|split; [split; auto|constructor]].
      + exists r, []. split; [reflexivity|split; [split; auto|constructor]].
  Qed.

  (* NewJSONStreamReader, then Read until the end, with or without Release calls *)
  Theorem json_reader_pf : forall m0 rel toks,
    good caching m0 ->
    exists r0 r' ds,
      reader_init caching choose m0 (FJson 1) = Some r0 /\
      hj_run pm pred hf oc caching choose j_init r0 rel toks = Some (r', ds) /\
      good caching (r_m r') /\
      Forall2 (deliv_ok caching) ds (map fst (fst (jrun pm pred hf oc j_init rel toks))).
  Proof.
    intros m0 rel toks Hg.
    destruct (reader_init_ok caching choose m0 (FJson 1) HL Hg) as (r0 & E0 & G0 & W0 & V0 & X0 & S0).
    destruct (hj_run_ok toks j_init r0 rel G0 W0 S0) as (r' & ds & E1 & (G1 & W1 & V1) & Hds).
    exists r0, r', ds. split; [exact E0|split; [exact E1|split; [exact G1|exact Hds]]].
  Qed.
End JsonRun.

Lemma reachable_good_pf : forall caching s F acq log,
  reachable caching s F acq -> good caching (mkM s F acq log).
Proof. intros caching s F acq log H. destruct (reachable_inv _ _ _ _ H). split; assumption. Qed.
