(* C03: template expansion terminates within depth (number of declarations + 1), and accepts only
   declaration sets whose templates reachable from FINAL_OUTPUT are acyclic. *)
From Coq Require Import List Arith Bool Lia.
Import ListNotations.
From OV Require Import Model.Safety.

Lemma has_dup_snoc l t : NoDup l -> has_dup (l ++ [t]) = existsb (Nat.eqb t) l.
Proof.
  induction l as [|x l IH]; intro Hnd; simpl.
  - reflexivity.
  - inversion Hnd as [|? ? Hx Hl]; subst. rewrite IH by assumption.
    rewrite existsb_app. simpl. rewrite orb_false_r.
    assert (existsb (Nat.eqb x) l = false) as ->.
    { destruct (existsb (Nat.eqb x) l) eqn:E; [|reflexivity].
      apply existsb_exists in E as (y&Hy&Hxy). apply Nat.eqb_eq in Hxy. subst. contradiction. }
    simpl. rewrite (Nat.eqb_sym t x). reflexivity.
Qed.

Lemma existsb_eqb_in t l : existsb (Nat.eqb t) l = true <-> In t l.
Proof.
  rewrite existsb_exists. split.
  - intros (y&Hy&E). apply Nat.eqb_eq in E. subst. exact Hy.
  - intro H. exists t. split; [exact H|apply Nat.eqb_refl].
Qed.

Lemma nodup_bounded_length (l : list nat) n :
  NoDup l -> (forall x, In x l -> x < n) -> length l <= n.
Proof.
  intros Hnd Hb.
  assert (H : incl l (seq 0 n)).
  { intros x Hx. apply in_seq. specialize (Hb x Hx). lia. }
  apply NoDup_incl_length in H; [|exact Hnd]. rewrite seq_length in H. exact H.
Qed.

Lemma nodup_snoc (l : list nat) t : NoDup l -> ~ In t l -> NoDup (l ++ [t]).
Proof.
  induction l as [|x l IH]; intros Hnd Hnin; simpl.
  - constructor; [intros []|constructor].
  - inversion Hnd as [|? ? Hx Hl]; subst. constructor.
    + intro Hin. apply in_app_or in Hin as [Hin|[->|[]]]; [contradiction|]. apply Hnin. left. reflexivity.
    + apply IH; [assumption|]. intro H. apply Hnin. right. exact H.
Qed.

(* Fuel: one level per name that is not yet on the reference stack, plus one.  For either
   treatment of null declarations ([on_null] is a terminal outcome). *)
Lemma expand_fuel on_null g : on_null <> VOutOfFuel -> forall fuel stack refs,
  NoDup stack -> (forall x, In x stack -> x < length g) ->
  length g - length stack + 1 <= fuel ->
  expand on_null fuel g stack refs <> VOutOfFuel.
Proof.
  intros Hon. induction fuel as [|k IH]; intros stack refs Hnd Hb Hf; [lia|].
  cbn [expand].
  induction refs as [|[t|] r IHr]; [discriminate| |exact Hon].
  destruct (nth_error g t) as [body|] eqn:Et; [|discriminate].
  rewrite has_dup_snoc by exact Hnd.
  destruct (existsb (Nat.eqb t) stack) eqn:Ein; [discriminate|].
  assert (Hnin : ~ In t stack).
  { intro Hin. apply existsb_eqb_in in Hin. congruence. }
  assert (Ht : t < length g) by (apply nth_error_Some; congruence).
  assert (Hnd' : NoDup (stack ++ [t])).
  { apply nodup_snoc; assumption. }
  assert (Hb' : forall x, In x (stack ++ [t]) -> x < length g).
  { intros x Hx. apply in_app_or in Hx as [Hx|[<-|[]]]; auto. }
  assert (Hlen : length (stack ++ [t]) <= length g) by (apply nodup_bounded_length; assumption).
  rewrite app_length in Hlen. simpl in Hlen.
  specialize (IH (stack ++ [t]) body Hnd' Hb').
  rewrite app_length in IH. simpl in IH.
  destruct (expand on_null k g (stack ++ [t]) body) eqn:Ex; try discriminate.
  - exact IHr.
  - exfalso. apply IH; [lia|reflexivity].
Qed.

(* the repaired validation never dereferences a nil declaration *)
Lemma expand_no_panic : forall fuel g stack refs, expand VErrNull fuel g stack refs <> VPanic.
Proof.
  induction fuel as [|k IH]; intros g stack refs; [discriminate|].
  cbn [expand]. induction refs as [|[t|] r IHr]; try discriminate.
  destruct (nth_error g t) as [body|]; [|discriminate].
  destruct (has_dup (stack ++ [t])); [discriminate|].
  specialize (IH g (stack ++ [t]) body).
  destruct (expand VErrNull k g (stack ++ [t]) body); try discriminate; [exact IHr|congruence].
Qed.

Theorem validate_terminates_lemma g : validate_templates g <> VOutOfFuel /\ validate_templates g <> VPanic.
Proof.
  split; [|apply expand_no_panic].
  unfold validate_templates. destruct g as [|b g].
  - simpl. discriminate.
  - apply expand_fuel.
    + discriminate.
    + constructor; [intros []|constructor].
    + intros x [<-|[]]. simpl. lia.
    + simpl. lia.
Qed.

(* ---- cycles and null declarations are rejected ---- *)
Definition edge (g : tgraph) (a b : nat) : Prop := exists body, nth_error g a = Some body /\ In (Some b) body.
Inductive path (g : tgraph) : nat -> nat -> Prop :=
| path_refl a : path g a a
| path_step a b c : edge g a b -> path g b c -> path g a c.

(* If the expansion of [refs] under [stack] succeeds, nothing reachable from [refs] is on the
   stack, nothing reachable lies on a cycle, [refs] holds no null and no reachable declaration does. *)
Lemma expand_ok_acyclic on_null g : on_null <> VOk -> forall fuel stack refs,
  NoDup stack ->
  expand on_null fuel g stack refs = VOk ->
  ~ In None refs /\
  forall r, In (Some r) refs -> forall u, path g r u ->
    ~ In u stack /\ (forall v, edge g u v -> ~ path g v u)
    /\ (forall body, nth_error g u = Some body -> ~ In None body).
Proof.
  intro Hon. induction fuel as [|k IH]; intros stack refs Hnd; [discriminate|].
  cbn [expand].
  induction refs as [|[t|] rest IHr]; intro Hok.
  - split; [intros []|intros r []].
  - destruct (nth_error g t) as [body|] eqn:Et; [|discriminate].
    rewrite has_dup_snoc in Hok by exact Hnd.
    destruct (existsb (Nat.eqb t) stack) eqn:Ein; [discriminate|].
    assert (Hnin : ~ In t stack).
    { intro Hin. apply existsb_eqb_in in Hin. congruence. }
    destruct (expand on_null k g (stack ++ [t]) body) eqn:Ex; try discriminate.
    destruct (IHr Hok) as [Hnone Hrest].
    split; [intros [E|H]; [discriminate|exact (Hnone H)]|].
    intros r Hr u Hp.
    destruct Hr as [E|Hr]; [inversion E; subst r|exact (Hrest r Hr u Hp)].
    assert (Hnd' : NoDup (stack ++ [t])) by (apply nodup_snoc; assumption).
    destruct (IH (stack ++ [t]) body Hnd' Ex) as [Hbnone Hbelow].
    inversion Hp as [a|a b c Hab Hbc]; subst.
    + (* u = t *)
      split; [exact Hnin|]. split.
      * intros v [body' [Eb Hv]] Hback. rewrite Et in Eb. inversion Eb; subst body'.
        destruct (Hbelow v Hv u Hback) as [Hn _]. apply Hn. apply in_or_app. right. left. reflexivity.
      * intros body' Eb. rewrite Et in Eb. inversion Eb; subst body'. exact Hbnone.
    + destruct Hab as [body' [Eb Hb]]. rewrite Et in Eb. inversion Eb; subst body'.
      destruct (Hbelow b Hb u Hbc) as (Hn&Hc&Hnull). split; [|split; assumption].
      intro Hin. apply Hn. apply in_or_app. left. exact Hin.
  - exfalso. exact (Hon Hok).
Qed.

Theorem validate_cycle_rejected_lemma g :
  validate_templates g = VOk ->
  forall u, path g 0 u ->
    (forall v, edge g u v -> ~ path g v u) /\ (forall body, nth_error g u = Some body -> ~ In None body).
Proof.
  unfold validate_templates. intros Hok u Hp.
  assert (Hnd : NoDup [0]) by (constructor; [intros []|constructor]).
  assert (Hon : VErrNull <> VOk) by discriminate.
  destruct (expand_ok_acyclic VErrNull g Hon _ _ _ Hnd Hok) as [Hnone Hall].
  inversion Hp as [a|a b c Hab Hbc]; subst.
  - (* u = FINAL_OUTPUT *)
    split.
    + intros v [body [Eb Hv]] Hback.
      assert (nth 0 g [] = body) as Hb by (destruct g; simpl in *; congruence).
      rewrite Hb in Hall.
      destruct (Hall v Hv 0 Hback) as [Hn _]. apply Hn. left. reflexivity.
    + intros body Eb. assert (nth 0 g [] = body) as Hb by (destruct g; simpl in *; congruence).
      rewrite <- Hb. exact Hnone.
  - destruct Hab as [body [Eb Hb0]].
    assert (nth 0 g [] = body) as Hb by (destruct g; simpl in *; congruence).
    rewrite Hb in Hall.
    destruct (Hall b Hb0 u Hbc) as (_&Hc&Hnull). split; assumption.
Qed.
