(* C03: template expansion terminates within depth (number of declarations + 1), and accepts only
   declaration sets whose templates reachable from FINAL_OUTPUT are acyclic. *)
From Coq Require Import List Arith Bool Lia.
Import ListNotations.
From OV Require Import Model.Safety.

Lemma has_dup_snoc l t : NoDup l -> has_dup (l ++ [t]) = existsb (Nat.eqb t) l.
Proof.
  induction l as [|x l IH]; intro Hnd; simpl.
  - reflexivity.
  - inversion Hnd as [|? ? Hx Hl]; subst. rewrite IH by assumption.
    rewrite existsb_app. simpl. rewrite orb_false_r.
    assert (existsb (Nat.eqb x) l = false) as ->.
    { destruct (existsb (Nat.eqb x) l) eqn:E; [|reflexivity].
      apply existsb_exists in E as (y&Hy&Hxy). apply Nat.eqb_eq in Hxy. subst. contradiction. }
    simpl. rewrite (Nat.eqb_sym t x). reflexivity.
Qed.

Lemma existsb_eqb_in t l : existsb (Nat.eqb t) l = true <-> In t l.
Proof.
  rewrite existsb_exists. split.
  - intros (y&Hy&E). apply Nat.eqb_eq in E. subst. exact Hy.
  - intro H. exists t. split; [exact H|apply Nat.eqb_refl].
Qed.

Lemma nodup_bounded_length (l : list nat) n :
  NoDup l -> (forall x, In x l -> x < n) -> length l <= n.
Proof.
  intros Hnd Hb.
  assert (H : incl l (seq 0 n)).
  { intros x Hx. apply in_seq. specialize (Hb x Hx). lia. }
  apply NoDup_incl_length in H; [|exact Hnd]. rewrite seq_length in H. exact H.
Qed.

Lemma nodup_snoc (l : list nat) t : NoDup l -> ~ In t l -> NoDup (l ++ [t]).
Proof.
  induction l as [|x l IH]; intros Hnd Hnin; simpl.
  - constructor; [intros []|constructor].
  - inversion Hnd as [|? ? Hx Hl]; subst. constructor.
    + intro Hin. apply in_app_or in Hin as [Hin|[->|[]]]; [contradiction|]. apply Hnin. left. reflexivity.
    + apply IH; [assumption|]. intro H. apply Hnin. right. exact H.
Qed.

(* Fuel: one level per name that is not yet on the reference stack, plus one. *)
Lemma expand_fuel g : forall fuel stack refs,
  NoDup stack -> (forall x, In x stack -> x < length g) ->
  length g - length stack + 1 <= fuel ->
  expand fuel g stack refs <> VOutOfFuel.
Proof.
  induction fuel as [|k IH]; intros stack refs Hnd Hb Hf; [lia|].
  cbn [expand].
  induction refs as [|t r IHr]; [discriminate|].
  destruct (nth_error g t) as [body|] eqn:Et; [|discriminate].
  rewrite has_dup_snoc by exact Hnd.
  destruct (existsb (Nat.eqb t) stack) eqn:Ein; [discriminate|].
  assert (Hnin : ~ In t stack).
  { intro Hin. apply existsb_eqb_in in Hin. congruence. }
  assert (Ht : t < length g) by (apply nth_error_Some; congruence).
  assert (Hnd' : NoDup (stack ++ [t])).
  { apply nodup_snoc; assumption. }
  assert (Hb' : forall x, In x (stack ++ [t]) -> x < length g).
  { intros x Hx. apply in_app_or in Hx as [Hx|[<-|[]]]; auto. }
  assert (Hlen : length (stack ++ [t]) <= length g) by (apply nodup_bounded_length; assumption).
  rewrite app_length in Hlen. simpl in Hlen.
  specialize (IH (stack ++ [t]) body Hnd' Hb').
  rewrite app_length in IH. simpl in IH.
  destruct (expand k g (stack ++ [t]) body) eqn:Ex; try discriminate.
  - exact IHr.
  - exfalso. apply IH; [lia|reflexivity].
Qed.

Theorem validate_terminates_lemma g : validate_templates g <> VOutOfFuel.
Proof.
  unfold validate_templates. destruct g as [|b g].
  - (* no declaration at all: FINAL_OUTPUT itself is missing; fuel 1 suffices for no references *)
    simpl. discriminate.
  - apply expand_fuel.
    + constructor; [intros []|constructor].
    + intros x [<-|[]]. simpl. lia.
    + simpl. lia.
Qed.

(* ---- cycles are rejected ---- *)
Definition edge (g : tgraph) (a b : nat) : Prop := exists body, nth_error g a = Some body /\ In b body.
Inductive path (g : tgraph) : nat -> nat -> Prop :=
| path_refl a : path g a a
| path_step a b c : edge g a b -> path g b c -> path g a c.

Lemma path_trans g a b c : path g a b -> path g b c -> path g a c.
Proof. induction 1; [auto|]. intro H2. econstructor; eauto. Qed.

(* If the expansion of [refs] under [stack] succeeds, nothing reachable from [refs] is on the
   stack, and nothing reachable from [refs] lies on a cycle. *)
Lemma expand_ok_acyclic g : forall fuel stack refs,
  NoDup stack ->
  expand fuel g stack refs = VOk ->
  forall r, In r refs -> forall u, path g r u ->
    ~ In u stack /\ (forall v, edge g u v -> ~ path g v u).
Proof.
  induction fuel as [|k IH]; intros stack refs Hnd; [discriminate|].
  cbn [expand].
  induction refs as [|t rest IHr]; intros Hok r Hr u Hp; [destruct Hr|].
  destruct (nth_error g t) as [body|] eqn:Et; [|discriminate].
  rewrite has_dup_snoc in Hok by exact Hnd.
  destruct (existsb (Nat.eqb t) stack) eqn:Ein; [discriminate|].
  assert (Hnin : ~ In t stack).
  { intro Hin. apply existsb_eqb_in in Hin. congruence. }
  destruct (expand k g (stack ++ [t]) body) eqn:Ex; try discriminate.
  destruct Hr as [E|Hr]; [subst r|exact (IHr Hok r Hr u Hp)].
  assert (Hnd' : NoDup (stack ++ [t])) by (apply nodup_snoc; assumption).
  specialize (IH (stack ++ [t]) body Hnd' Ex).
  (* everything strictly below t avoids stack ++ [t] and is cycle free *)
  assert (Hbelow : forall t' w, In t' body -> path g t' w ->
            ~ In w (stack ++ [t]) /\ (forall v, edge g w v -> ~ path g v w)).
  { intros t' w Ht' Hw. exact (IH t' Ht' w Hw). }
  inversion Hp as [a|a b c Hab Hbc]; subst.
  - (* u = t *)
    split; [exact Hnin|].
    intros v [body' [Eb Hv]] Hback. rewrite Et in Eb. inversion Eb; subst body'.
    destruct (Hbelow v u Hv Hback) as [Hn _]. apply Hn. apply in_or_app. right. left. reflexivity.
  - destruct Hab as [body' [Eb Hb]]. rewrite Et in Eb. inversion Eb; subst body'.
    destruct (Hbelow b u Hb Hbc) as [Hn Hc]. split; [|exact Hc].
    intro Hin. apply Hn. apply in_or_app. left. exact Hin.
Qed.

Theorem validate_cycle_rejected_lemma g :
  validate_templates g = VOk ->
  forall u, path g 0 u -> forall v, edge g u v -> ~ path g v u.
Proof.
  unfold validate_templates. intros Hok u Hp v Huv Hback.
  assert (Hnd : NoDup [0]) by (constructor; [intros []|constructor]).
  inversion Hp as [a|a b c Hab Hbc]; subst.
  - (* u = FINAL_OUTPUT: v is one of its references and reaches 0, which is on the stack *)
    destruct Huv as [body [Eb Hv]].
    assert (nth 0 g [] = body) as Hb by (destruct g; simpl in *; congruence).
    rewrite Hb in Hok.
    destruct (expand_ok_acyclic g _ _ _ Hnd Hok v Hv 0 Hback) as [Hn _]. apply Hn. left. reflexivity.
  - destruct Hab as [body [Eb Hb0]].
    assert (nth 0 g [] = body) as Hb by (destruct g; simpl in *; congruence).
    rewrite Hb in Hok.
    destruct (expand_ok_acyclic g _ _ _ Hnd Hok b Hb0 u Hbc) as [_ Hc]. exact (Hc v Huv Hback).
Qed.
