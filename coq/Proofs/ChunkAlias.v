(* C09 proofs, part 9: the aliasing discipline of the fixedlength2 line buffer: with any number of
   buffered lines and any sequence of readLine / popFront / uses, no stale reference into the
   bufio buffer is ever read.  Dropping the copy for a single read breaks it. *)
From Coq Require Import List NArith Bool Arith Lia.
Import ListNotations.
From OV Require Import Model.Chunk.

Definition lb_inv (st : lbstate) : Prop :=
  forallb ll_copied (removelast (lb_lines st)) = true /\
  (lb_lines st = [] \/ lb_valid (lb_gen st) (last (lb_lines st) (mkLL true 0)) = true).

Lemma removelast_snoc {A} (l : list A) a : removelast (l ++ [a]) = l.
Proof. apply removelast_last. Qed.

Lemma firstn_In {A} n (l : list A) x : In x (firstn n l) -> In x l.
Proof.
  revert l; induction n as [|n IH]; intros l H; [contradiction|].
  destruct l as [|a l]; [contradiction|]. destruct H as [->|H]; [left; reflexivity|right; auto].
Qed.

Lemma inv_all_valid st n :
  lb_inv st -> forallb (lb_valid (lb_gen st)) (firstn n (lb_lines st)) = true.
Proof.
  intros [H1 H2]. apply forallb_forall. intros x Hx. apply firstn_In in Hx.
  destruct (lb_lines st) as [|l0 ls] eqn:E; [contradiction|].
  destruct H2 as [|H2]; [discriminate|].
  destruct (@exists_last _ (l0 :: ls) ltac:(discriminate)) as (pre&z&Ez).
  rewrite Ez in *. rewrite removelast_snoc in H1. rewrite last_last in H2.
  apply in_app_or in Hx as [Hx|[<-|[]]]; [|exact H2].
  rewrite forallb_forall in H1. unfold lb_valid. rewrite (H1 x Hx). reflexivity.
Qed.

Lemma copy_last_all_copied ls : forallb ll_copied (removelast ls) = true ->
  forallb ll_copied (lb_copy_last ls) = true.
Proof.
  intro H. destruct ls as [|l0 ls]; [reflexivity|]. unfold lb_copy_last.
  rewrite forallb_app, H. reflexivity.
Qed.

Lemma removelast_skipn_sub {A} n (l : list A) x : In x (removelast (skipn n l)) -> In x (removelast l).
Proof.
  revert l; induction n as [|n IH]; intros l H; [exact H|].
  destruct l as [|a l]; [exact H|]. simpl skipn in H. specialize (IH l H).
  destruct l as [|b l]; [contradiction|]. right. exact IH.
Qed.

Lemma last_skipn {A} n (l : list A) d : n < length l -> last (skipn n l) d = last l d.
Proof.
  revert l; induction n as [|n IH]; intros l H; [reflexivity|].
  destruct l as [|a l]; [simpl in H; lia|]. simpl skipn. rewrite IH by (simpl in H; lia).
  destruct l; [simpl in H; lia|reflexivity].
Qed.

Lemma lb_step_inv st o st' : lb_code_op o = true -> lb_inv st -> lb_step st o = LOk st' -> lb_inv st'.
Proof.
  intros Hc Hinv Hs. unfold lb_inv in *. destruct o as [e got|e got|n|n]; try discriminate Hc; cbn [lb_step] in Hs.
  - injection Hs as <-. destruct Hinv as [H1 _].
    pose proof (copy_last_all_copied _ H1) as Hall. destruct got; cbn [lb_lines lb_gen].
    + split; [rewrite removelast_snoc; exact Hall|]. right. rewrite last_last. unfold lb_valid.
      cbn [ll_copied ll_gen orb]. apply Nat.eqb_refl.
    + split.
      * apply forallb_forall. intros x Hx. rewrite forallb_forall in Hall. apply Hall.
        destruct (lb_copy_last (lb_lines st)) as [|c0 cl] eqn:E; [contradiction|].
        destruct (@exists_last _ (c0 :: cl) ltac:(discriminate)) as (pre&z&Ez). rewrite Ez in *.
        rewrite removelast_snoc in Hx. apply in_or_app. left; exact Hx.
      * destruct (lb_lines st) as [|l0 ls] eqn:E; [left; reflexivity|]. right.
        unfold lb_copy_last. rewrite last_last. reflexivity.
  - destruct (Nat.ltb_spec (length (lb_lines st)) n) as [|Hn]; [discriminate|]. injection Hs as <-.
    destruct Hinv as [H1 H2]. cbn [lb_lines lb_gen]. split.
    + apply forallb_forall. intros x Hx. rewrite forallb_forall in H1. apply H1.
      eapply removelast_skipn_sub; exact Hx.
    + destruct (Nat.eq_dec n (length (lb_lines st))) as [->|Hne].
      * left. apply skipn_all.
      * right. rewrite last_skipn by lia. destruct H2 as [H2|H2]; [|exact H2].
        rewrite H2 in Hn, Hne. simpl in Hn, Hne. lia.
  - destruct (Nat.ltb_spec (length (lb_lines st)) n); [discriminate|].
    destruct (forallb (lb_valid _) _); [|discriminate]. injection Hs as <-. exact Hinv.
Qed.

(* No sequence of the reader's own operations ever reads a stale line, however many lines are
   buffered. *)
Theorem fl2_no_poison ops : forall st,
  forallb lb_code_op ops = true -> lb_inv st -> lb_run st ops <> LPoison.
Proof.
  induction ops as [|o ops IH]; intros st Hc Hinv; [discriminate|].
  cbn [forallb] in Hc. apply andb_prop in Hc as [Hc1 Hc2]. cbn [lb_run].
  destruct (lb_step st o) as [st'| |] eqn:Es.
  - apply IH; [exact Hc2|]. eapply lb_step_inv; eassumption.
  - exfalso. destruct o as [e got|e got|n|n]; cbn [lb_step] in Es; try discriminate.
    + destruct (_ <? _); discriminate.
    + destruct (_ <? _); [discriminate|]. rewrite (inv_all_valid st n Hinv) in Es. discriminate.
  - discriminate.
Qed.

Lemma lb_inv_init : lb_inv lb_init.
Proof. split; [reflexivity|left; reflexivity]. Qed.

(* Skipping the copy for one read of a three-line envelope is enough to read a stale line. *)
Theorem fl2_skipcopy_refuted :
  exists ops, lb_run lb_init ops = LPoison /\
              length (filter (fun o => negb (lb_code_op o)) ops) = 1.
Proof.
  exists [LRead 0 true; LReadNoCopy 0 true; LRead 0 true; LUse 3]. split; reflexivity.
Qed.
