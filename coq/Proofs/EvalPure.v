(* C02 proofs: a memo-free reading of the evaluator (peval), used as the common denotation of
   the cached and the uncached configuration of Model/Eval.v, plus structural facts about
   validated declaration trees (wf_b) and equality of public content. *)
From Coq Require Import String List ZArith NArith Bool Lia.
From Coq.Strings Require Import Byte.
Import ListNotations.
From OV Require Import Base.Bytes Base.Cases Base.Tree Gen.Conv Model.Value Model.XPathFrag Model.Decl Model.Eval.

(* ---- induction principles for the nested types --------------------------------------------- *)
Definition optP {A} (P : A -> Prop) (x : option A) : Prop :=
  match x with Some q => P q | None => True end.

Section vdecl_ind2.
  Variable P : vdecl -> Prop.
  Hypothesis H : forall i x ks, optP P x -> Forall P ks -> P (VD i x ks).
  Fixpoint vdecl_ind2 (d : vdecl) : P d :=
    match d as d0 return P d0 with VD i x ks =>
    H i x ks
      (match x as x0 return optP P x0 with
       | Some q => vdecl_ind2 q
       | None => I
       end)
      ((fix go (l : list vdecl) : Forall P l :=
          match l with
          | [] => Forall_nil P
          | c :: r => Forall_cons c (vdecl_ind2 c) (go r)
          end) ks)
    end.
End vdecl_ind2.

Section pdecl_ind2.
  Variable P : pdecl -> Prop.
  Hypothesis H : forall i x ks, optP P x -> Forall (fun kc => P (snd kc)) ks -> P (PD i x ks).
  Fixpoint pdecl_ind2 (d : pdecl) : P d :=
    match d as d0 return P d0 with PD i x ks =>
    H i x ks
      (match x as x0 return optP P x0 with
       | Some q => pdecl_ind2 q
       | None => I
       end)
      ((fix go (l : list (bytes * pdecl)) : Forall (fun kc => P (snd kc)) l :=
          match l with
          | [] => Forall_nil _
          | c :: r => Forall_cons c (pdecl_ind2 (snd c)) (go r)
          end) ks)
    end.
End pdecl_ind2.

(* ---- soundness of the boolean equalities ------------------------------------------------------ *)
Lemma obytes_eqb_eq a b : obytes_eqb a b = true -> a = b.
Proof.
  destruct a, b; simpl; intro H; try discriminate; try reflexivity.
  apply bytes_eqb_eq in H. congruence.
Qed.
Lemma kind_eqb_eq a b : kind_eqb a b = true -> a = b.
Proof. destruct a, b; simpl; intro H; try discriminate; reflexivity. Qed.
Lemma kind_eqb_refl a : kind_eqb a a = true.
Proof. destruct a; reflexivity. Qed.
Lemma rtype_eqb_eq a b : rtype_eqb a b = true -> a = b.
Proof. destruct a, b; simpl; intro H; try discriminate; reflexivity. Qed.

Lemma pinfo_eqb_eq a b : pinfo_eqb a b = true -> a = b.
Proof.
  destruct a as [k1 c1 e1 x1 f1 g1 pa1 t1 r1 n1 kp1], b as [k2 c2 e2 x2 f2 g2 pa2 t2 r2 n2 kp2].
  unfold pinfo_eqb. cbn [p_kind p_const p_external p_xpath p_fname p_ignore p_parse p_template p_rtype p_notrim p_keep].
  intro H.
  repeat (apply andb_prop in H; destruct H as [H ?]).
  apply kind_eqb_eq in H.
  repeat match goal with
         | Hx : obytes_eqb _ _ = true |- _ => apply obytes_eqb_eq in Hx
         | Hx : Bool.eqb _ _ = true |- _ => apply Bool.eqb_prop in Hx
         end.
  assert (r1 = r2).
  { destruct r1, r2; simpl in *; try discriminate; try reflexivity.
    f_equal. apply rtype_eqb_eq. assumption. }
  congruence.
Qed.

Lemma pdecl_eqb_eq : forall a b, pdecl_eqb a b = true -> a = b.
Proof.
  induction a as [i x ks IHx IHks] using pdecl_ind2. intros [i' x' ks'] H. simpl in H.
  apply andb_prop in H as [H Hk]. apply andb_prop in H as [Hi Hx].
  apply pinfo_eqb_eq in Hi. subst i'.
  assert (x = x') as ->.
  { destruct x as [q|], x' as [q'|]; try discriminate; try reflexivity.
    f_equal. apply IHx. exact Hx. }
  assert (ks = ks') as ->; [|reflexivity].
  clear Hx IHx. revert ks' Hk. induction IHks as [|[k c] r Hc _ IH]; intros [|[k' c'] r'] Hk;
    try discriminate; try reflexivity.
  apply andb_prop in Hk as [Hk Hr]. apply andb_prop in Hk as [Hk Hc'].
  apply bytes_eqb_eq in Hk. simpl in Hc. apply Hc in Hc'. subst. f_equal. apply IH. exact Hr.
Qed.

(* ---- the memo-free evaluator ------------------------------------------------------------------- *)
Section Pure.
  Variable root : tree.
  Variable query : bytes -> path -> option (list path).
  Variable ext : bytes -> option bytes.
  Variable fsigs : bytes -> option fsig.
  Variable fcall : bytes -> path -> list value -> cfres.
  Variable pcall : bytes -> path -> cfres.

  Definition pev := path -> res.
  Record pcomp := mkPC { pc_info : einfo; pc_xdyn : option pev; pc_ev : pev }.

  Definition p_compute_xpath (i : einfo) (xd : option pev) (p : path) : xres :=
    match static_xpath i with
    | Some x => XOk x
    | None => match xd with
              | Some e => xres_of_dyn (e p)
              | None => XOk (bs ".")
              end
    end.

  Definition p_query_single (i : einfo) (xd : option pev) (p : path) : qres :=
    if negb (e_needed i) then QNode p
    else match p_compute_xpath i xd p with
         | XOk x => match_single query x p
         | XFail => QNone
         | XPanic => QPanic
         end.

  Definition p_anchored (i : einfo) (xd : option pev) (body : path -> res) : pev :=
    fun p => match p_query_single i xd p with
             | QNode n => body n
             | QNone => Ok VNil
             | QErr => Err
             | QPanic => Panic
             end.

  Fixpoint p_object_loop (cs : list (bytes * pcomp)) (n : path) (obj : list (bytes * value)) : res :=
    match cs with
    | [] => Ok (VObj obj)
    | (key, c) :: r =>
        match pc_ev c n with
        | Ok v =>
            match norm_of (pc_info c) v with
            | NSave v' => p_object_loop r n (obj_set key v' obj)
            | NDrop => p_object_loop r n obj
            | NErr => p_object_loop r n obj
            end
        | Err => Err
        | Panic => Panic
        end
    end.

  Fixpoint p_nodes_loop (c : pcomp) (ns : list path) (acc : list value) : list value + res :=
    match ns with
    | [] => inl acc
    | n :: r =>
        match pc_ev c n with
        | Ok v =>
            match norm_of (pc_info c) v with
            | NSave v' => p_nodes_loop c r (acc ++ [v'])
            | NDrop => p_nodes_loop c r acc
            | NErr => p_nodes_loop c r acc
            end
        | rv => inr rv
        end
    end.

  Fixpoint p_array_loop (cs : list (bytes * pcomp)) (p : path) (acc : list value) : res :=
    match cs with
    | [] => Ok (VList acc)
    | (_, c) :: r =>
        match p_compute_xpath (pc_info c) (pc_xdyn c) p with
        | XFail => p_array_loop r p acc
        | XPanic => Panic
        | XOk x =>
            match match_all query x p with
            | None => Err
            | Some ns =>
                match p_nodes_loop c ns acc with
                | inl acc' => p_array_loop r p acc'
                | inr rv => rv
                end
            end
        end
    end.

  Fixpoint p_args_loop (s : fsig) (cs : list (bytes * pcomp)) (i : nat) (n : path) (acc : list value)
    : list value + res :=
    match cs with
    | [] => inl acc
    | (_, c) :: r =>
        match pc_ev c n with
        | Ok v =>
            match arg_type s i with
            | None => inr Panic
            | Some t =>
                if is_nil v then p_args_loop s r (S i) n (acc ++ [zero_of t])
                else if assignable v t then p_args_loop s r (S i) n (acc ++ [v])
                else inr Err
            end
        | rv => inr rv
        end
    end.

  Definition p_invoke (i : einfo) (cs : list (bytes * pcomp)) (n : path) : res :=
    match p_fname (e_pub i) with
    | None => Panic
    | Some name =>
        match fsigs name with
        | None => Panic
        | Some s =>
            let nfix := length (s_fixed s) in
            let nargs := length cs in
            if Nat.ltb nargs nfix || (Nat.ltb nfix nargs && negb (is_some (s_variadic s)))
            then Err
            else
              match p_args_loop s cs 0 n [] with
              | inr rv => rv
              | inl args =>
                  match fcall name n args with
                  | CfOk v => Ok v
                  | CfErr => if p_ignore (e_pub i) then Ok VNil else Err
                  end
              end
        end
    end.

  Definition p_then_norm (i : einfo) (r : res) : res :=
    match r with Ok v => norm_ret i v | _ => r end.

  Definition p_dispatch (i : einfo) (xd : option pev) (cs : list (bytes * pcomp)) : pev :=
    match p_kind (e_pub i) with
    | KConst => fun p =>
        match p_const (e_pub i) with Some c => norm_ret i (VStr c) | None => Panic end
    | KExternal => fun p =>
        match p_external (e_pub i) with
        | Some name => match ext name with Some v => norm_ret i (VStr v) | None => Err end
        | None => Panic
        end
    | KField =>
        p_anchored i xd (fun n =>
          match inner_text_at root n with Some s => norm_ret i (VStr s) | None => Panic end)
    | KObject => p_anchored i xd (fun n => p_then_norm i (p_object_loop cs n []))
    | KArray => fun p => p_then_norm i (p_array_loop cs p [])
    | KCustomFunc => p_anchored i xd (fun n => p_then_norm i (p_invoke i cs n))
    | KCustomParse =>
        p_anchored i xd (fun n =>
          match p_parse (e_pub i) with
          | None => Panic
          | Some name => match pcall name n with CfOk v => norm_ret i v | CfErr => Err end
          end)
    | KTemplate => fun p => Err
    end.

  Fixpoint pcompile (d : vdecl) : pcomp :=
    let 'VD i x ks := d in
    let xd := match x with Some q => Some (pc_ev (pcompile q)) | None => None end in
    let e := einfo_of i (is_some x) in
    mkPC e xd (p_dispatch e xd (map (fun c => (kid_key (p_kind (v_pub i)) c, pcompile c)) ks)).

  Definition peval (d : vdecl) : pev := pc_ev (pcompile d).
End Pure.

(* ---- what ParseNode reads of a declaration ------------------------------------------------------- *)
Definition ei (d : vdecl) : einfo := einfo_of (vd_info d) (is_some (vd_xdyn d)).

(* ---- the shape validate gives a tree, as propositions ------------------------------------------- *)
Definition kid_ok (k : kind) (c : vdecl) : Prop :=
  parent_is_array (vd_info c) = kind_eqb k KArray /\ wf_b false c = true.

Lemma wf_b_inv top i x ks :
  wf_b top (VD i x ks) = true ->
  fqdn_is_final (v_fqdn i) = top /\
  v_hash i = pub_of (VD i x ks) /\
  (match x with
   | Some q => parent_is_array (vd_info q) = false /\ wf_b false q = true
   | None => True
   end) /\
  Forall (kid_ok (p_kind (v_pub i))) ks.
Proof.
  intro H. cbn [wf_b] in H.
  repeat (apply andb_prop in H; destruct H as [H ?]).
  repeat split.
  - apply Bool.eqb_prop. assumption.
  - apply pdecl_eqb_eq. assumption.
  - destruct x as [q|]; [|exact I].
    match goal with Hx : (_ && _ && wf_b false q)%bool = true |- _ =>
      apply andb_prop in Hx as [Hx ?]; apply andb_prop in Hx as [? Hx] end.
    split; [|assumption]. apply negb_true_iff. assumption.
  - apply Forall_forall. intros c Hc.
    match goal with Hf : forallb _ ks = true |- _ =>
      rewrite forallb_forall in Hf; specialize (Hf c Hc); apply andb_prop in Hf as [Hp Hw] end.
    split; [apply Bool.eqb_prop; exact Hp | exact Hw].
Qed.

Lemma wf_b_sub : forall d top, wf_b top d = true ->
  forall d', In d' (subdecls d) -> d' = d \/ wf_b false d' = true.
Proof.
  induction d as [i x ks IHx IHks] using vdecl_ind2. intros top Hwf d' Hin.
  destruct (wf_b_inv _ _ _ _ Hwf) as (_ & _ & Hx & Hks).
  cbn [subdecls] in Hin. destruct Hin as [<-|Hin]; [left; reflexivity|]. right.
  apply in_app_or in Hin as [Hin|Hin].
  - destruct x as [q|]; [|contradiction]. destruct Hx as [_ Hq].
    destruct (IHx false Hq d' Hin) as [->|H]; assumption.
  - apply in_flat_map in Hin as (c & Hc & Hin).
    rewrite Forall_forall in IHks, Hks. destruct (Hks c Hc) as [_ Hwc].
    destruct (IHks c Hc false Hwc d' Hin) as [->|H]; assumption.
Qed.

(* ---- equal public content and equal xpathQueryNeeded give the same evaluator -------------------- *)
Section SameKey.
  Variable root : tree.
  Variable query : bytes -> path -> option (list path).
  Variable ext : bytes -> option bytes.
  Variable fsigs : bytes -> option fsig.
  Variable fcall : bytes -> path -> list value -> cfres.
  Variable pcall : bytes -> path -> cfres.
  Notation pcompile := (pcompile root query ext fsigs fcall pcall).

  Lemma needed_eq i x :
    needed i x = negb (fqdn_is_final (v_fqdn i)) && (is_some (p_xpath (v_pub i)) || x) && negb (parent_is_array i).
  Proof. reflexivity. Qed.

  Lemma needed_inner i x :
    fqdn_is_final (v_fqdn i) = false ->
    needed i x = (is_some (p_xpath (v_pub i)) || x) && negb (parent_is_array i).
  Proof. intro H. rewrite needed_eq, H. reflexivity. Qed.

  Lemma pub_of_isx d1 d2 : pub_of d1 = pub_of d2 ->
    v_pub (vd_info d1) = v_pub (vd_info d2) /\ is_some (vd_xdyn d1) = is_some (vd_xdyn d2).
  Proof.
    destruct d1 as [i1 x1 k1], d2 as [i2 x2 k2]. cbn [pub_of]. intro H. injection H as Hi Hx _.
    split; [exact Hi|]. destruct x1, x2; try discriminate; reflexivity.
  Qed.

  Lemma same_pub_same_eval : forall d1 d2 t1 t2,
    wf_b t1 d1 = true -> wf_b t2 d2 = true ->
    pub_of d1 = pub_of d2 ->
    e_needed (ei d1) = e_needed (ei d2) ->
    pcompile d1 = pcompile d2.
  Proof.
    induction d1 as [i1 x1 ks1 IHx IHks] using vdecl_ind2.
    intros [i2 x2 ks2] t1 t2 Hw1 Hw2 Hpub Hnd.
    destruct (wf_b_inv _ _ _ _ Hw1) as (_ & Hh1 & Hx1 & Hk1).
    destruct (wf_b_inv _ _ _ _ Hw2) as (_ & Hh2 & Hx2 & Hk2).
    assert (Hhash : v_hash i1 = v_hash i2) by (rewrite Hh1, Hh2; exact Hpub).
    cbn [pub_of] in Hpub. injection Hpub as Hi Hx Hks.
    unfold ei in Hnd. cbn [vd_info vd_xdyn einfo_of e_needed] in Hnd.
    (* xpath_dynamic *)
    assert (Hxd : match x1 with Some q => Some (pc_ev (pcompile q)) | None => None end
                  = match x2 with Some q => Some (pc_ev (pcompile q)) | None => None end).
    { destruct x1 as [q1|], x2 as [q2|]; try discriminate; [|reflexivity].
      injection Hx as Hq. destruct Hx1 as [Hp1 Hq1], Hx2 as [Hp2 Hq2].
      f_equal. f_equal. apply (IHx q2 false false Hq1 Hq2 Hq).
      destruct (pub_of_isx _ _ Hq) as [Hqi Hqx].
      destruct q1 as [j1 y1 l1], q2 as [j2 y2 l2]. unfold ei. cbn [vd_info vd_xdyn einfo_of e_needed] in *.
      destruct (wf_b_inv _ _ _ _ Hq1) as (Hf1 & _). destruct (wf_b_inv _ _ _ _ Hq2) as (Hf2 & _).
      rewrite !needed_inner by assumption. rewrite Hqi, Hqx, Hp1, Hp2. reflexivity. }
    assert (Hsx : is_some x1 = is_some x2).
    { destruct x1, x2; try discriminate; reflexivity. }
    (* children *)
    assert (Hkids : map (fun c => (kid_key (p_kind (v_pub i1)) c, pcompile c)) ks1
                    = map (fun c => (kid_key (p_kind (v_pub i2)) c, pcompile c)) ks2).
    { rewrite <- Hi. rewrite <- Hi in Hks. clear Hx Hxd Hx1 Hx2 Hw1 Hw2 Hh1 Hh2 Hnd.
      rewrite <- Hi in Hk2. revert ks2 Hks Hk2.
      induction IHks as [|c1 r1 Hc1 _ IH]; intros [|c2 r2] Hks Hk2; try discriminate; [reflexivity|].
      cbn [map] in Hks. injection Hks as Hkey Hpc Hr.
      inversion Hk1 as [|? ? [Hpa1 Hwc1] Hk1']; subst.
      inversion Hk2 as [|? ? [Hpa2 Hwc2] Hk2']; subst.
      cbn [map]. f_equal.
      - f_equal; [exact Hkey|].
        apply (Hc1 c2 false false Hwc1 Hwc2 Hpc).
        destruct (pub_of_isx _ _ Hpc) as [Hci Hcx].
        destruct c1 as [j1 y1 l1], c2 as [j2 y2 l2]. unfold ei. cbn [vd_info vd_xdyn einfo_of e_needed] in *.
        destruct (wf_b_inv _ _ _ _ Hwc1) as (Hf1 & _). destruct (wf_b_inv _ _ _ _ Hwc2) as (Hf2 & _).
        rewrite !needed_inner by assumption. rewrite Hci, Hcx, Hpa1, Hpa2. reflexivity.
      - apply IH; assumption. }
    cbn [EvalPure.pcompile]. rewrite Hxd, Hkids, Hsx.
    unfold einfo_of. rewrite Hi, Hhash. rewrite Hsx in Hnd. rewrite Hnd. reflexivity.
  Qed.
End SameKey.
