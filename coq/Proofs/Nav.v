(* C11 proofs: the idr navigator over to_idr doc simulates the xmlquery navigator over doc, move
   by move and observation by observation; hence every navigator program (every deterministic
   client of xpath.NodeNavigator, in particular the antchfx/xpath evaluator on any expression)
   computes the same result on both bindings. *)
From Coq Require Import List NArith Bool Arith Lia.
From Coq.Strings Require Import Byte.
Import ListNotations.
From OV Require Import Base.Bytes Base.Cases Base.Tree Model.Nav Gen.NavShape.

(* ---- paths ------------------------------------------------------------------------------------ *)
Section PathLemmas.
  Variable A : Type.
  Variable kids : A -> list A.

  Lemma get_app t p q :
    get kids t (p ++ q) = match get kids t p with Some n => get kids n q | None => None end.
  Proof.
    revert t; induction p as [|i p IH]; intro t; simpl; [reflexivity|].
    destruct (nth_error (kids t) i); [apply IH|reflexivity].
  Qed.

  Lemma node_at_nil t : node_at kids t [] = Some t.
  Proof. reflexivity. Qed.

  Lemma node_at_cons t i rp :
    node_at kids t (i :: rp) =
    match node_at kids t rp with Some n => nth_error (kids n) i | None => None end.
  Proof.
    unfold node_at; simpl. rewrite get_app.
    destruct (get kids t (rev rp)) as [n|]; [|reflexivity].
    simpl. destruct (nth_error (kids n) i); reflexivity.
  Qed.
End PathLemmas.

Lemma path_eqb_refl p : path_eqb p p = true.
Proof.
  unfold path_eqb. apply list_eqb_eq; [|reflexivity].
  intros x y; apply Nat.eqb_eq.
Qed.

Lemma path_eqb_eq p q : path_eqb p q = true <-> p = q.
Proof. unfold path_eqb. apply list_eqb_eq. intros x y; apply Nat.eqb_eq. Qed.

(* ---- dnode induction -------------------------------------------------------------------------- *)
Section dnode_ind2.
  Variable P : dnode -> Prop.
  Hypothesis HD : forall k d p u a ks, Forall P ks -> P (D k d p u a ks).
  Fixpoint dnode_ind2 (t : dnode) : P t :=
    let 'D k d p u a ks := t in
    HD k d p u a ks ((fix go (l : list dnode) : Forall P l :=
                        match l with
                        | [] => Forall_nil P
                        | x :: r => Forall_cons x (dnode_ind2 x) (go r)
                        end) ks).
End dnode_ind2.

(* ---- to_idr ----------------------------------------------------------------------------------- *)
Lemma to_idr_kids n :
  t_kids (to_idr n) = map attr_node (d_attrs n) ++ map to_idr (d_kids n).
Proof. destruct n; reflexivity. Qed.

Lemma to_idr_type n : t_type (to_idr n) = kind_ntype (d_kind n).
Proof. destruct n; reflexivity. Qed.

Lemma to_idr_not_attr n : is_attr (t_type (to_idr n)) = false.
Proof. rewrite to_idr_type. destruct (d_kind n); reflexivity. Qed.

Lemma attr_node_is_attr a : is_attr (t_type (attr_node a)) = true.
Proof. reflexivity. Qed.

Lemma to_idr_data n : t_data (to_idr n) = d_data n.
Proof. destruct n; reflexivity. Qed.

Lemma to_idr_fs n : t_fs (to_idr n) = FXml (d_prefix n) (d_uri n).
Proof. destruct n; reflexivity. Qed.

Lemma flat_map_attr_nodes (f : tree -> bytes) attrs :
  flat_map (fun k => match t_type k with AttributeNode => [] | _ => f k end)
           (map attr_node attrs) = [].
Proof. induction attrs as [|a r IH]; simpl; [reflexivity|exact IH]. Qed.

(* Node.InnerText of the tree = xmlquery's InnerText of the DOM node *)
Lemma inner_text_to_idr n : inner_text (to_idr n) = d_inner_text n.
Proof.
  induction n as [k d p u a ks IH] using dnode_ind2.
  simpl. destruct k; simpl; try reflexivity.
  all: rewrite flat_map_app, flat_map_attr_nodes; simpl.
  all: induction IH as [|x r Hx Hr IHr]; simpl; [reflexivity|].
  all: rewrite to_idr_type, Hx, IHr; destruct (d_kind x); reflexivity.
Qed.

Lemma inner_text_attr_node a : inner_text (attr_node a) = da_value a.
Proof. simpl. apply app_nil_r. Qed.

(* ---- well-formedness -------------------------------------------------------------------------- *)
Definition node_wf (n : dnode) : Prop := d_kind n <> DElem -> d_attrs n = [].

Lemma dom_wfb_node n : dom_wfb n = true -> node_wf n.
Proof.
  destruct n as [k d p u a ks]; unfold node_wf; simpl. intros H Hk.
  apply andb_prop in H as [H _].
  destruct k; try congruence; destruct a; simpl in *; congruence.
Qed.

Lemma dom_wfb_kid n i c :
  dom_wfb n = true -> nth_error (d_kids n) i = Some c -> dom_wfb c = true.
Proof.
  destruct n as [k d p u a ks]; simpl. intros H Hc.
  apply andb_prop in H as [_ H].
  rewrite forallb_forall in H. apply H. eapply nth_error_In; eauto.
Qed.

Lemma dom_wfb_get doc p n :
  dom_wfb doc = true -> get d_kids doc p = Some n -> dom_wfb n = true.
Proof.
  revert doc; induction p as [|i p IH]; intros doc Hw Hg; simpl in Hg.
  - congruence.
  - destruct (nth_error (d_kids doc) i) as [c|] eqn:E; [|discriminate].
    eapply IH; [|exact Hg]. eapply dom_wfb_kid; eauto.
Qed.

Lemma dom_wfb_at doc rp n :
  dom_wfb doc = true -> d_node doc rp = Some n -> node_wf n.
Proof. intros Hw Hn. apply dom_wfb_node. eapply dom_wfb_get; eauto. Qed.

(* ---- the relation between positions ------------------------------------------------------------ *)
(* A DOM node path and the IDR path of the same node: at every level the child index is shifted
   by the number of attributes of the parent. *)
Inductive path_rel (doc : dnode) : path -> path -> Prop :=
| pr_root : path_rel doc [] []
| pr_child dp ip n i :
    path_rel doc dp ip -> d_node doc dp = Some n -> i < length (d_kids n) ->
    path_rel doc (i :: dp) ((length (d_attrs n) + i) :: ip).

(* DOM position (path, attribute index) vs IDR path *)
Definition pos_rel (doc : dnode) (dp : path) (a : option nat) (ip : path) : Prop :=
  match a with
  | None => path_rel doc dp ip
  | Some i => exists ip' n, path_rel doc dp ip' /\ d_node doc dp = Some n /\
                            i < length (d_attrs n) /\ ip = i :: ip'
  end.

Definition nav_rel (doc : dnode) (dv : dnav) (iv : inav) : Prop :=
  path_rel doc (dn_root dv) (in_root iv) /\ pos_rel doc (dn_cur dv) (dn_attr dv) (in_cur iv).

Lemma path_rel_valid doc dp ip : path_rel doc dp ip -> exists n, d_node doc dp = Some n.
Proof.
  intros H; inversion H as [|dp' ip' n i Hr Hn Hi]; subst.
  - exists doc; reflexivity.
  - unfold d_node in *. rewrite node_at_cons, Hn.
    destruct (nth_error (d_kids n) i) eqn:E; [eauto|].
    apply nth_error_None in E; lia.
Qed.

(* related paths denote related nodes *)
Lemma path_rel_node doc dp ip n :
  path_rel doc dp ip -> d_node doc dp = Some n -> i_node (to_idr doc) ip = Some (to_idr n).
Proof.
  intros H; revert n; induction H as [|dp ip m i Hr IH Hm Hi]; intros n Hn.
  - unfold d_node, i_node in *. rewrite node_at_nil in *. congruence.
  - unfold d_node, i_node in *. rewrite node_at_cons in *. rewrite Hm in Hn.
    rewrite (IH m Hm), to_idr_kids.
    rewrite nth_error_app2 by (rewrite map_length; lia).
    rewrite map_length. replace (length (d_attrs m) + i - length (d_attrs m)) with i by lia.
    rewrite nth_error_map, Hn. reflexivity.
Qed.

Lemma path_rel_inj doc dp ip ip' : path_rel doc dp ip -> path_rel doc dp ip' -> ip = ip'.
Proof.
  intros H; revert ip'; induction H as [|dp ip m i Hr IH Hm Hi]; intros ip' H'.
  - inversion H'; reflexivity.
  - inversion H' as [|dp2 ip2 m2 i2 Hr2 Hm2 Hi2]; subst.
    rewrite Hm in Hm2; inversion Hm2; subst. f_equal. apply IH; assumption.
Qed.

(* the IDR path computed by to_ipath is the related one *)
Lemma to_ipath_rel doc dp n : d_node doc dp = Some n -> path_rel doc dp (to_ipath doc dp).
Proof.
  revert n; induction dp as [|i r IH]; intros n Hn; simpl.
  - constructor.
  - unfold d_node in *. rewrite node_at_cons in Hn.
    destruct (node_at d_kids doc r) as [m|] eqn:Em; [|discriminate].
    econstructor; [eapply IH; reflexivity|exact Em|].
    apply nth_error_Some. congruence.
Qed.

(* the attribute node of a related attribute position *)
Lemma attr_pos_node doc dp ip n i a :
  path_rel doc dp ip -> d_node doc dp = Some n -> nth_error (d_attrs n) i = Some a ->
  i_node (to_idr doc) (i :: ip) = Some (attr_node a).
Proof.
  intros Hr Hn Ha. unfold i_node. rewrite node_at_cons.
  fold (i_node (to_idr doc) ip). rewrite (path_rel_node _ _ _ _ Hr Hn), to_idr_kids.
  rewrite nth_error_app1 by (rewrite map_length; apply nth_error_Some; congruence).
  rewrite nth_error_map, Ha. reflexivity.
Qed.

(* ---- child lists of to_idr n ------------------------------------------------------------------- *)
Lemma kids_nth_attr n i a :
  nth_error (d_attrs n) i = Some a -> nth_error (t_kids (to_idr n)) i = Some (attr_node a).
Proof.
  intros Ha. rewrite to_idr_kids.
  rewrite nth_error_app1 by (rewrite map_length; apply nth_error_Some; congruence).
  rewrite nth_error_map, Ha. reflexivity.
Qed.

Lemma kids_nth_kid n i :
  nth_error (t_kids (to_idr n)) (length (d_attrs n) + i) = option_map to_idr (nth_error (d_kids n) i).
Proof.
  rewrite to_idr_kids.
  rewrite nth_error_app2 by (rewrite map_length; lia).
  rewrite map_length. replace (length (d_attrs n) + i - length (d_attrs n)) with i by lia.
  apply nth_error_map.
Qed.

Lemma kids_nth_kid0 n :
  nth_error (t_kids (to_idr n)) (length (d_attrs n)) = option_map to_idr (nth_error (d_kids n) 0).
Proof. rewrite <- kids_nth_kid. f_equal; lia. Qed.

Lemma attr_lookup n i : i < length (d_attrs n) -> exists a, nth_error (d_attrs n) i = Some a.
Proof.
  intros Hi. destruct (nth_error (d_attrs n) i) eqn:E; [eauto|].
  apply nth_error_None in E; lia.
Qed.

Lemma kid_lookup n i : i < length (d_kids n) -> exists c, nth_error (d_kids n) i = Some c.
Proof.
  intros Hi. destruct (nth_error (d_kids n) i) eqn:E; [eauto|].
  apply nth_error_None in E; lia.
Qed.

(* the loop of MoveToChild stops at the first element/text child *)
Lemma skip_attrs_spec attrs (ks : list dnode) j :
  i_skip_attrs (map attr_node attrs ++ map to_idr ks) j =
  match ks with [] => None | _ :: _ => Some (j + length attrs) end.
Proof.
  revert j; induction attrs as [|a r IH]; intro j; simpl.
  - destruct ks as [|c ks]; simpl; [reflexivity|].
    rewrite to_idr_not_attr. f_equal; lia.
  - rewrite IH. destruct ks; [reflexivity|]. f_equal; lia.
Qed.

(* the loop of MoveToFirst stops right after the last attribute *)
Lemma walk_first_spec n i :
  i <= length (d_kids n) ->
  i_walk_first (t_kids (to_idr n)) (length (d_attrs n) + i) = Some (length (d_attrs n)).
Proof.
  induction i as [|i IH]; intro Hi.
  - rewrite Nat.add_0_r. destruct (length (d_attrs n)) as [|l] eqn:El; [reflexivity|].
    simpl. destruct (attr_lookup n l) as [a Ha]; [lia|].
    rewrite (kids_nth_attr _ _ _ Ha). reflexivity.
  - rewrite Nat.add_succ_r. simpl. rewrite kids_nth_kid.
    destruct (kid_lookup n i) as [c Hc]; [lia|]. rewrite Hc; simpl.
    rewrite to_idr_not_attr. apply IH; lia.
Qed.

Lemma d_walk_first_0 i : d_walk_first i = 0.
Proof. induction i; simpl; auto. Qed.

(* ---- observations ------------------------------------------------------------------------------ *)
Lemma d_inner_text_text n : d_kind n = DText -> d_inner_text n = d_data n.
Proof. destruct n as [k d p u a ks]; simpl; intros ->; reflexivity. Qed.

Lemma attr_pos_elem doc dp n i :
  dom_wfb doc = true -> d_node doc dp = Some n -> i < length (d_attrs n) -> d_kind n = DElem.
Proof.
  intros Hw Hn Hi. pose proof (dom_wfb_at _ _ _ Hw Hn) as Hwf. unfold node_wf in Hwf.
  destruct (d_kind n); try reflexivity; rewrite Hwf in Hi by discriminate; simpl in Hi; lia.
Qed.

Lemma obs_sim fx doc dv iv o :
  dom_wfb doc = true -> nav_rel doc dv iv -> fx = true \/ quirk_obs doc dv o = false ->
  exists v, d_obs fx doc dv o = Some v /\ i_obs (to_idr doc) iv o = Some v.
Proof.
  intros Hw [Hroot Hpos] Hq.
  destruct dv as [dr dc da], iv as [ir ic]; simpl in *.
  destruct da as [i|]; simpl in Hpos.
  - (* on an attribute *)
    destruct Hpos as (ip & n & Hr & Hn & Hi & ->).
    pose proof (attr_pos_elem _ _ _ _ Hw Hn Hi) as Hk.
    destruct (attr_lookup n i Hi) as [a Ha].
    pose proof (attr_pos_node _ _ _ _ _ _ Hr Hn Ha) as Hin.
    destruct o; unfold d_obs, i_obs, d_nodetype, d_localname, d_prefix_of, d_value, d_cur_attr,
      i_nodetype, i_localname, i_prefix_of, i_value, i_type, d_nodetype; simpl;
      rewrite ?Hn, ?Hin; simpl; rewrite ?Hk, ?Ha; simpl; eauto.
    rewrite app_nil_r. eauto.
  - (* on a node *)
    destruct (path_rel_valid _ _ _ Hpos) as [n Hn].
    pose proof (path_rel_node _ _ _ _ Hpos Hn) as Hin.
    destruct o; unfold d_obs, i_obs, d_nodetype, d_localname, d_prefix_of, d_value,
      i_nodetype, i_localname, i_prefix_of, i_value, i_type, d_nodetype; simpl;
      rewrite ?Hn, ?Hin; simpl; rewrite ?to_idr_type, ?to_idr_data, ?to_idr_fs.
    + destruct (d_kind n); simpl; eauto.
    + eauto.
    + destruct (d_kind n); simpl; eauto.
    + unfold quirk_obs, d_nodetype in Hq; simpl in Hq. rewrite Hn in Hq.
      rewrite inner_text_to_idr.
      destruct (d_kind n) eqn:Hk; simpl in *.
      * destruct Hq as [->|Hq]; [eauto|discriminate].
      * eauto.
      * rewrite d_inner_text_text by assumption. eauto.
Qed.

(* ---- moves -------------------------------------------------------------------------------------- *)
Lemma path_rel_nil_inv doc ip : path_rel doc [] ip -> ip = [].
Proof. intro H; inversion H; reflexivity. Qed.

Lemma path_rel_cons_inv doc i r ic :
  path_rel doc (i :: r) ic ->
  exists ip p, ic = (length (d_attrs p) + i) :: ip /\ path_rel doc r ip /\
               d_node doc r = Some p /\ i < length (d_kids p).
Proof. intro H; inversion H; subst; eauto 8. Qed.

Lemma i_node_cons t i rp :
  i_node t (i :: rp) = match i_node t rp with Some n => nth_error (t_kids n) i | None => None end.
Proof. apply node_at_cons. Qed.

Lemma d_node_cons doc i rp :
  d_node doc (i :: rp) = match d_node doc rp with Some n => nth_error (d_kids n) i | None => None end.
Proof. apply node_at_cons. Qed.

(* moves from an attribute position *)
Lemma move_sim_attr fx doc dr ir dc ip n i m :
  dom_wfb doc = true -> path_rel doc dr ir -> path_rel doc dc ip -> d_node doc dc = Some n ->
  i < length (d_attrs n) -> fx = true \/ m <> MRoot ->
  exists dv' iv' b,
    d_move fx doc (mkDNav dr dc (Some i)) m = Some (dv', b) /\
    i_move (to_idr doc) (mkINav ir (i :: ip)) m = Some (iv', b) /\
    nav_rel doc dv' iv'.
Proof.
  intros Hw Hroot Hr Hn Hi Hm.
  destruct (attr_lookup n i Hi) as [a Ha].
  pose proof (attr_pos_node _ _ _ _ _ _ Hr Hn Ha) as Hin.
  pose proof (path_rel_node _ _ _ _ Hr Hn) as Hpn.
  assert (Hsame : nav_rel doc (mkDNav dr dc (Some i)) (mkINav ir (i :: ip))).
  { split; simpl; [assumption|]. exists ip, n. auto. }
  unfold d_move, i_move; simpl. rewrite Hn, Hin. simpl.
  destruct m; simpl.
  - (* MRoot: only the repaired reference gets here *)
    destruct Hm as [->|Hm]; [|congruence]. simpl.
    do 3 eexists; split; [reflexivity|split; [reflexivity|]]. split; simpl; assumption.
  - (* MParent *)
    do 3 eexists; split; [reflexivity|split; [reflexivity|]]. split; simpl; assumption.
  - (* MNextAttr *)
    unfold ptr_next_sibling. fold (i_node (to_idr doc) (S i :: ip)).
    rewrite i_node_cons, Hpn.
    destruct (length (d_attrs n) <=? S i) eqn:E.
    + apply Nat.leb_le in E. assert (S i = length (d_attrs n)) as -> by lia.
      rewrite kids_nth_kid0.
      destruct (nth_error (d_kids n) 0) as [c|] eqn:Ec; simpl.
      * unfold i_type. rewrite i_node_cons, Hpn, kids_nth_kid0, Ec. simpl.
        rewrite to_idr_not_attr.
        do 3 eexists; split; [reflexivity|split; [reflexivity|assumption]].
      * do 3 eexists; split; [reflexivity|split; [reflexivity|assumption]].
    + apply Nat.leb_gt in E.
      destruct (attr_lookup n (S i) E) as [a' Ha'].
      rewrite (kids_nth_attr _ _ _ Ha').
      unfold i_type. rewrite i_node_cons, Hpn, (kids_nth_attr _ _ _ Ha'). simpl.
      do 3 eexists; split; [reflexivity|split; [reflexivity|]].
      split; simpl; [assumption|]. exists ip, n. auto.
  - do 3 eexists; split; [reflexivity|split; [reflexivity|assumption]].
  - do 3 eexists; split; [reflexivity|split; [reflexivity|assumption]].
  - do 3 eexists; split; [reflexivity|split; [reflexivity|assumption]].
  - do 3 eexists; split; [reflexivity|split; [reflexivity|assumption]].
Qed.

(* moves from a node position *)
Lemma move_sim_node fx doc dr ir dc ic m :
  dom_wfb doc = true -> path_rel doc dr ir -> path_rel doc dc ic ->
  exists dv' iv' b,
    d_move fx doc (mkDNav dr dc None) m = Some (dv', b) /\
    i_move (to_idr doc) (mkINav ir ic) m = Some (iv', b) /\
    nav_rel doc dv' iv'.
Proof.
  intros Hw Hroot Hr.
  destruct (path_rel_valid _ _ _ Hr) as [n Hn].
  pose proof (path_rel_node _ _ _ _ Hr Hn) as Hin.
  assert (Hsame : nav_rel doc (mkDNav dr dc None) (mkINav ir ic)) by (split; assumption).
  unfold d_move, i_move; simpl. rewrite Hn, Hin. rewrite to_idr_not_attr.
  destruct m; simpl.
  - (* MRoot *)
    do 3 eexists; split; [reflexivity|split; [reflexivity|]].
    destruct fx; split; assumption.
  - (* MParent *)
    destruct dc as [|i r]; simpl.
    + apply path_rel_nil_inv in Hr as ->. simpl.
      do 3 eexists; split; [reflexivity|split; [reflexivity|assumption]].
    + apply path_rel_cons_inv in Hr as (ip & p & -> & Hrp & Hp & Hi). simpl.
      do 3 eexists; split; [reflexivity|split; [reflexivity|]]. split; assumption.
  - (* MNextAttr *)
    unfold ptr_first_child. fold (i_node (to_idr doc) ic). rewrite Hin.
    destruct (d_attrs n) as [|a ar] eqn:Ea; simpl.
    + (* no attribute: the first child, if any, is not an attribute *)
      rewrite to_idr_kids, Ea. simpl.
      destruct (d_kids n) as [|c cr] eqn:Ek; simpl.
      * do 3 eexists; split; [reflexivity|split; [reflexivity|assumption]].
      * unfold i_type. rewrite i_node_cons, Hin, to_idr_kids, Ea, Ek. simpl.
        rewrite to_idr_not_attr.
        do 3 eexists; split; [reflexivity|split; [reflexivity|assumption]].
    + rewrite to_idr_kids, Ea. simpl.
      unfold i_type. rewrite i_node_cons, Hin, to_idr_kids, Ea. simpl.
      do 3 eexists; split; [reflexivity|split; [reflexivity|]].
      split; simpl; [assumption|]. exists ic, n. rewrite Ea; simpl. repeat split; auto; lia.
  - (* MChild *)
    unfold ptr_first_child. fold (d_node doc dc). rewrite Hn.
    rewrite to_idr_kids, skip_attrs_spec.
    destruct (d_kids n) as [|c cr] eqn:Ek; simpl.
    + do 3 eexists; split; [reflexivity|split; [reflexivity|assumption]].
    + do 3 eexists; split; [reflexivity|split; [reflexivity|]].
      split; simpl; [assumption|].
      replace (length (d_attrs n)) with (length (d_attrs n) + 0) by lia.
      econstructor; eauto. rewrite Ek; simpl; lia.
  - (* MFirst *)
    destruct dc as [|i r]; simpl.
    + apply path_rel_nil_inv in Hr as ->. simpl.
      do 3 eexists; split; [reflexivity|split; [reflexivity|assumption]].
    + pose proof Hr as Hr0.
      apply path_rel_cons_inv in Hr as (ip & p & -> & Hrp & Hp & Hi).
      rewrite (path_rel_node _ _ _ _ Hrp Hp).
      rewrite walk_first_spec by lia.
      destruct i as [|j]; simpl.
      * rewrite Nat.add_0_r in *. rewrite Nat.eqb_refl.
        do 3 eexists; split; [reflexivity|split; [reflexivity|assumption]].
      * replace (length (d_attrs p) =? length (d_attrs p) + S j) with false
          by (symmetry; apply Nat.eqb_neq; lia).
        rewrite d_walk_first_0.
        do 3 eexists; split; [reflexivity|split; [reflexivity|]].
        split; simpl; [assumption|].
        replace (length (d_attrs p)) with (length (d_attrs p) + 0) at 1 by lia.
        econstructor; eauto; lia.
  - (* MNext *)
    destruct dc as [|i r]; simpl.
    + apply path_rel_nil_inv in Hr as ->. simpl.
      do 3 eexists; split; [reflexivity|split; [reflexivity|assumption]].
    + apply path_rel_cons_inv in Hr as (ip & p & -> & Hrp & Hp & Hi).
      unfold ptr_next_sibling.
      fold (d_node doc (S i :: r)). fold (i_node (to_idr doc) (S (length (d_attrs p) + i) :: ip)).
      rewrite d_node_cons, Hp, i_node_cons, (path_rel_node _ _ _ _ Hrp Hp).
      replace (S (length (d_attrs p) + i)) with (length (d_attrs p) + S i) by lia.
      rewrite kids_nth_kid.
      destruct (nth_error (d_kids p) (S i)) as [c|] eqn:Ec; simpl.
      * do 3 eexists; split; [reflexivity|split; [reflexivity|]].
        split; simpl; [assumption|].
        econstructor; eauto. apply nth_error_Some; congruence.
      * do 3 eexists; split; [reflexivity|split; [reflexivity|assumption]].
  - (* MPrev *)
    destruct dc as [|i r]; simpl.
    + apply path_rel_nil_inv in Hr as ->. simpl.
      do 3 eexists; split; [reflexivity|split; [reflexivity|assumption]].
    + apply path_rel_cons_inv in Hr as (ip & p & -> & Hrp & Hp & Hi).
      pose proof (path_rel_node _ _ _ _ Hrp Hp) as Hip.
      destruct i as [|j]; simpl.
      * (* first child: the previous sibling is nil or the last attribute *)
        rewrite Nat.add_0_r.
        destruct (length (d_attrs p)) as [|l] eqn:El; simpl.
        -- do 3 eexists; split; [reflexivity|split; [reflexivity|]].
           split; simpl; [assumption|].
           replace 0 with (length (d_attrs p) + 0) at 2 by lia. econstructor; eauto.
        -- destruct (attr_lookup p l) as [a Ha]; [lia|].
           unfold i_type. rewrite i_node_cons, Hip, (kids_nth_attr _ _ _ Ha). simpl.
           do 3 eexists; split; [reflexivity|split; [reflexivity|]].
           split; simpl; [assumption|].
           replace (S l) with (length (d_attrs p) + 0) by lia. econstructor; eauto.
      * rewrite Nat.add_succ_r. simpl.
        destruct (kid_lookup p j) as [c Hc]; [lia|].
        unfold i_type. rewrite i_node_cons, Hip, kids_nth_kid, Hc. simpl.
        rewrite to_idr_not_attr.
        do 3 eexists; split; [reflexivity|split; [reflexivity|]].
        split; simpl; [assumption|]. econstructor; eauto; lia.
Qed.

(* Every move preserves the relation and reports the same success. *)
Lemma move_sim fx doc dv iv m :
  dom_wfb doc = true -> nav_rel doc dv iv -> fx = true \/ quirk_move dv m = false ->
  exists dv' iv' b,
    d_move fx doc dv m = Some (dv', b) /\ i_move (to_idr doc) iv m = Some (iv', b) /\
    nav_rel doc dv' iv'.
Proof.
  intros Hw [Hroot Hpos] Hq.
  destruct dv as [dr dc da], iv as [ir ic]; simpl in *.
  destruct da as [i|]; simpl in Hpos.
  - destruct Hpos as (ip & n & Hr & Hn & Hi & ->).
    apply move_sim_attr with (n := n); auto.
    destruct Hq as [Hq|Hq]; [left; assumption|right]. intros ->. discriminate Hq.
  - apply move_sim_node; auto.
Qed.

Lemma moveto_sim doc dv iv dw iw :
  nav_rel doc dv iv -> nav_rel doc dw iw ->
  exists dv' iv' b,
    d_moveto dv dw = (dv', b) /\ i_moveto iv iw = (iv', b) /\ nav_rel doc dv' iv'.
Proof.
  intros [Hr1 Hp1] [Hr2 Hp2]. unfold d_moveto, i_moveto.
  destruct (path_eqb (dn_root dw) (dn_root dv)) eqn:E.
  - apply path_eqb_eq in E. rewrite E in Hr2.
    rewrite (path_rel_inj _ _ _ _ Hr2 Hr1), path_eqb_refl.
    do 3 eexists; split; [reflexivity|split; [reflexivity|]]. split; simpl; assumption.
  - destruct (path_eqb (in_root iw) (in_root iv)) eqn:E2.
    + (* equal IDR roots come from equal DOM roots *)
      exfalso. apply path_eqb_eq in E2.
      assert (dn_root dw = dn_root dv); [|rewrite H, path_eqb_refl in E; discriminate].
      rewrite E2 in Hr2. clear - Hr1 Hr2.
      revert Hr2. generalize (dn_root dw). revert Hr1. generalize (in_root iv) (dn_root dv).
      intros ip dp H; induction H as [|dp ip n i Hr IH Hn Hi]; intros dq Hq.
      * inversion Hq; reflexivity.
      * inversion Hq as [|dq' ip' n' i' Hr' Hn' Hi' Heq]; subst.
        pose proof (IH _ Hr') as ->. rewrite Hn in Hn'; inversion Hn'; subst.
        f_equal. lia.
    + do 3 eexists; split; [reflexivity|split; [reflexivity|]]. split; assumption.
Qed.

(* ---- programs ------------------------------------------------------------------------------------ *)
Definition regs_rel (doc : dnode) (rd : nat -> dnav) (ri : nat -> inav) : Prop :=
  forall x, nav_rel doc (rd x) (ri x).

Lemma regs_rel_upd doc rd ri x dv iv :
  regs_rel doc rd ri -> nav_rel doc dv iv -> regs_rel doc (upd rd x dv) (upd ri x iv).
Proof. intros H Hv y. unfold upd. destruct (Nat.eqb y x); auto. Qed.

(* [in_scope fx]: nothing to require of the repaired reference; ref_ok of xmlquery as it is *)
Definition in_scope {R} (fx : bool) (doc : dnode) (p : prog R) (rd : nat -> dnav) : Prop :=
  if fx then True else ref_ok doc p rd.

Lemma nav_programs_agree_regs R (p : prog R) : forall fx doc rd ri,
  dom_wfb doc = true -> regs_rel doc rd ri -> in_scope fx doc p rd ->
  run_dom fx doc p rd = run_idr (to_idr doc) p ri /\ run_dom fx doc p rd <> None.
Proof.
  induction p as [r|x o k IH|x m k IH|x y k IH|x y k IH]; intros fx doc rd ri Hw Hrel Hok;
    simpl in *.
  - split; [reflexivity|discriminate].
  - assert (Hq : fx = true \/ quirk_obs doc (rd x) o = false).
    { destruct fx; [left; reflexivity|right; apply Hok]. }
    destruct (obs_sim fx _ _ _ _ Hw (Hrel x) Hq) as (v & Hd & Hi).
    rewrite Hd, Hi. apply IH; try assumption.
    destruct fx; [exact I|]. simpl in Hok. destruct Hok as [_ Hok]. rewrite Hd in Hok. exact Hok.
  - assert (Hq : fx = true \/ quirk_move (rd x) m = false).
    { destruct fx; [left; reflexivity|right; apply Hok]. }
    destruct (move_sim fx _ _ _ _ Hw (Hrel x) Hq) as (dv' & iv' & b & Hd & Hi & Hrel').
    rewrite Hd, Hi. apply IH; [assumption|apply regs_rel_upd; assumption|].
    destruct fx; [exact I|]. simpl in Hok. destruct Hok as [_ Hok]. rewrite Hd in Hok. exact Hok.
  - apply IH; [assumption|apply regs_rel_upd; auto|].
    destruct fx; [exact I|exact Hok].
  - destruct (moveto_sim _ _ _ _ _ (Hrel x) (Hrel y)) as (dv' & iv' & b & Hd & Hi & Hrel').
    rewrite Hd, Hi. apply IH; [assumption|apply regs_rel_upd; assumption|].
    destruct fx; [exact I|]. simpl in Hok. rewrite Hd in Hok. exact Hok.
Qed.

Lemma init_rel doc start n :
  d_node doc start = Some n -> regs_rel doc (d_init start) (i_init (to_ipath doc start)).
Proof.
  intros Hn x. pose proof (to_ipath_rel _ _ _ Hn) as H. split; simpl; assumption.
Qed.

(* Main theorem, xmlquery as it is: any program in scope, any document, any start node. *)
Theorem nav_programs_agree R (p : prog R) doc start :
  dom_wfb doc = true -> valid_start doc start = true -> ref_ok doc p (d_init start) ->
  run_dom false doc p (d_init start) = run_idr (to_idr doc) p (i_init (to_ipath doc start)).
Proof.
  intros Hw Hs Hok. unfold valid_start in Hs.
  destruct (d_node doc start) as [n|] eqn:Hn; [|discriminate].
  apply (nav_programs_agree_regs R p false doc); auto. eapply init_rel; eauto.
Qed.

(* Main theorem, repaired reference: any program at all. *)
Theorem nav_programs_agree_repaired R (p : prog R) doc start :
  dom_wfb doc = true -> valid_start doc start = true ->
  run_dom true doc p (d_init start) = run_idr (to_idr doc) p (i_init (to_ipath doc start)).
Proof.
  intros Hw Hs. unfold valid_start in Hs.
  destruct (d_node doc start) as [n|] eqn:Hn; [|discriminate].
  apply (nav_programs_agree_regs R p true doc); auto. eapply init_rel; eauto. exact I.
Qed.

(* No navigator operation panics or leaves the tree, on either binding. *)
Theorem nav_no_panic R (p : prog R) fx doc start :
  dom_wfb doc = true -> valid_start doc start = true -> in_scope fx doc p (d_init start) ->
  exists r, run_dom fx doc p (d_init start) = Some r /\
            run_idr (to_idr doc) p (i_init (to_ipath doc start)) = Some r.
Proof.
  intros Hw Hs Hok. unfold valid_start in Hs.
  destruct (d_node doc start) as [n|] eqn:Hn; [|discriminate].
  destruct (nav_programs_agree_regs R p fx doc _ _ Hw (init_rel _ _ _ Hn) Hok) as [He Hne].
  destruct (run_dom fx doc p (d_init start)) as [r|] eqn:E; [|congruence].
  exists r; split; [reflexivity|]. rewrite <- He. reflexivity.
Qed.

(* The step-level statement (DESIGN: nav_simulation). *)
Theorem nav_simulation fx doc dv iv :
  dom_wfb doc = true -> nav_rel doc dv iv ->
  (forall o, fx = true \/ quirk_obs doc dv o = false ->
     exists v, d_obs fx doc dv o = Some v /\ i_obs (to_idr doc) iv o = Some v) /\
  (forall m, fx = true \/ quirk_move dv m = false ->
     exists dv' iv' b, d_move fx doc dv m = Some (dv', b) /\
                       i_move (to_idr doc) iv m = Some (iv', b) /\ nav_rel doc dv' iv') /\
  (forall dw iw, nav_rel doc dw iw ->
     exists dv' iv' b, d_moveto dv dw = (dv', b) /\ i_moveto iv iw = (iv', b) /\
                       nav_rel doc dv' iv').
Proof.
  intros Hw Hrel. repeat split.
  - intros o Hq. eapply obs_sim; eauto.
  - intros m Hq. eapply move_sim; eauto.
  - intros dw iw Hw2. eapply moveto_sim; eauto.
Qed.

(* ---- ref_ok is decidable: the computation check_case runs ------------------------------------------ *)
Lemma ref_okb_spec R (p : prog R) : forall doc regs,
  ref_okb doc p regs = true <-> ref_ok doc p regs.
Proof.
  induction p as [r|x o k IH|x m k IH|x y k IH|x y k IH]; intros doc regs; simpl.
  - split; auto.
  - rewrite andb_true_iff, negb_true_iff.
    destruct (d_obs false doc (regs x) o) as [v|]; [rewrite IH|]; tauto.
  - rewrite andb_true_iff, negb_true_iff.
    destruct (d_move false doc (regs x) m) as [[v' b]|]; [rewrite IH|]; tauto.
  - apply IH.
  - destruct (d_moveto (regs x) (regs y)) as [v' b]. apply IH.
Qed.

(* ---- the guard is exactly the two defects of the reference ------------------------------------------ *)
(* Outside Q1 nothing an observation returns differs ... *)
Lemma obs_differ_only_at_Q1 doc dv iv o :
  dom_wfb doc = true -> nav_rel doc dv iv ->
  d_obs false doc dv o <> i_obs (to_idr doc) iv o -> quirk_obs doc dv o = true.
Proof.
  intros Hw Hrel Hne. destruct (quirk_obs doc dv o) eqn:E; [reflexivity|].
  destruct (obs_sim false _ _ _ o Hw Hrel (or_intror E)) as (v & Hd & Hi). congruence.
Qed.

(* ... and at Q1 the two answers are "" and the text of the document: they differ exactly when the
   document contains text. *)
Lemma Q1_characterised doc dv iv o :
  dom_wfb doc = true -> nav_rel doc dv iv -> quirk_obs doc dv o = true ->
  o = OValue /\ exists n, d_node doc (dn_cur dv) = Some n /\ d_kind n = DDoc /\
    d_obs false doc dv o = Some (VStr []) /\
    i_obs (to_idr doc) iv o = Some (VStr (d_inner_text n)).
Proof.
  intros Hw Hrel Hq.
  destruct (obs_sim true _ _ _ o Hw Hrel (or_introl eq_refl)) as (v & Hd & Hi).
  unfold quirk_obs in Hq. destruct o; try discriminate. split; [reflexivity|].
  unfold d_nodetype in Hq. destruct (d_node doc (dn_cur dv)) as [n|] eqn:Hn; [|discriminate].
  exists n. destruct (d_kind n) eqn:Hk; simpl in Hq; try discriminate.
  - repeat split; try reflexivity.
    + unfold d_obs, d_value. rewrite Hn, Hk. reflexivity.
    + rewrite Hi, <- Hd. unfold d_obs, d_value. rewrite Hn, Hk. reflexivity.
  - destruct (dn_attr dv); discriminate.
Qed.

(* Q2: MoveToRoot on an attribute position.  Both report success and go to the root; xmlquery
   keeps the attribute index, which is the only difference. *)
Lemma Q2_characterised doc dv iv m :
  dom_wfb doc = true -> nav_rel doc dv iv -> quirk_move dv m = true ->
  m = MRoot /\ exists i, dn_attr dv = Some i /\
    d_move false doc dv m = Some (mkDNav (dn_root dv) (dn_root dv) (Some i), true) /\
    d_move true doc dv m = Some (mkDNav (dn_root dv) (dn_root dv) None, true) /\
    i_move (to_idr doc) iv m = Some (mkINav (in_root iv) (in_root iv), true).
Proof.
  intros Hw Hrel Hq. unfold quirk_move in Hq.
  destruct m; try discriminate. split; [reflexivity|].
  destruct (dn_attr dv) as [i|] eqn:Ea; [|discriminate]. exists i. split; [reflexivity|].
  destruct Hrel as [Hroot Hpos]. rewrite Ea in Hpos. simpl in Hpos.
  destruct Hpos as (ip & n & Hr & Hn & Hi & Hc).
  destruct (attr_lookup n i Hi) as [a Ha].
  pose proof (attr_pos_node _ _ _ _ _ _ Hr Hn Ha) as Hin.
  unfold d_move, i_move. rewrite Hn, Hc, Hin, Ea. auto.
Qed.

Lemma moves_differ_only_at_Q2 doc dv iv m :
  dom_wfb doc = true -> nav_rel doc dv iv -> quirk_move dv m = false ->
  d_move true doc dv m = d_move false doc dv m.
Proof.
  intros Hw Hrel Hq. unfold d_move. destruct (d_node doc (dn_cur dv)); [|reflexivity].
  destruct m; try reflexivity. unfold quirk_move in Hq.
  destruct (dn_attr dv); [discriminate|reflexivity].
Qed.

(* ---- the relation determines the IDR navigator ---------------------------------------------------- *)
Lemma nav_rel_inj doc dv iv iv' : nav_rel doc dv iv -> nav_rel doc dv iv' -> iv = iv'.
Proof.
  intros [Hr1 Hp1] [Hr2 Hp2]. destruct iv as [r c], iv' as [r' c']; simpl in *.
  f_equal; [eapply path_rel_inj; eauto|].
  destruct (dn_attr dv) as [i|]; simpl in *.
  - destruct Hp1 as (ip1 & n1 & H1 & _ & _ & ->). destruct Hp2 as (ip2 & n2 & H2 & _ & _ & ->).
    f_equal. eapply path_rel_inj; eauto.
  - eapply path_rel_inj; eauto.
Qed.

(* ---- names: what the engine's name test sees ---------------------------------------------------------- *)
(* build.go:44-52: root.LocalName == n.LocalName() && root.Prefix == n.Prefix() *)
Definition name_test_dom (doc : dnode) (dv : dnav) (pfx local : bytes) : option bool :=
  match d_obs false doc dv OLocalName, d_obs false doc dv OPrefix with
  | Some l, Some p => Some (obs_eqb l (VStr local) && obs_eqb p (VStr pfx))
  | _, _ => None
  end.
Definition name_test_idr (t : tree) (iv : inav) (pfx local : bytes) : option bool :=
  match i_obs t iv OLocalName, i_obs t iv OPrefix with
  | Some l, Some p => Some (obs_eqb l (VStr local) && obs_eqb p (VStr pfx))
  | _, _ => None
  end.

Lemma name_of_element doc dr ir dp ip n :
  dom_wfb doc = true -> path_rel doc dr ir -> path_rel doc dp ip -> d_node doc dp = Some n ->
  i_obs (to_idr doc) (mkINav ir ip) OLocalName = Some (VStr (d_data n)) /\
  i_obs (to_idr doc) (mkINav ir ip) OPrefix = Some (VStr (d_prefix n)).
Proof.
  intros Hw Hroot Hr Hn.
  assert (Hrel : nav_rel doc (mkDNav dr dp None) (mkINav ir ip)) by (split; assumption).
  split.
  - destruct (obs_sim false _ _ _ OLocalName Hw Hrel (or_intror eq_refl)) as (v & Hd & Hi).
    rewrite Hi, <- Hd. unfold d_obs, d_localname; simpl. rewrite Hn. reflexivity.
  - destruct (obs_sim false _ _ _ OPrefix Hw Hrel (or_intror eq_refl)) as (v & Hd & Hi).
    rewrite Hi, <- Hd. unfold d_obs, d_prefix_of, d_nodetype; simpl. rewrite Hn.
    destruct (d_kind n); reflexivity.
Qed.

Lemma name_of_attribute doc dr ir dp ip n i a :
  dom_wfb doc = true -> path_rel doc dr ir -> path_rel doc dp ip -> d_node doc dp = Some n ->
  nth_error (d_attrs n) i = Some a ->
  i_obs (to_idr doc) (mkINav ir (i :: ip)) OLocalName = Some (VStr (da_local a)) /\
  i_obs (to_idr doc) (mkINav ir (i :: ip)) OPrefix = Some (VStr (da_prefix a)) /\
  i_obs (to_idr doc) (mkINav ir (i :: ip)) OValue = Some (VStr (da_value a)) /\
  i_obs (to_idr doc) (mkINav ir (i :: ip)) ONodeType = Some (VType XAttribute).
Proof.
  intros Hw Hroot Hr Hn Ha.
  pose proof (attr_pos_node _ _ _ _ _ _ Hr Hn Ha) as Hin.
  unfold i_obs, i_localname, i_prefix_of, i_value, i_nodetype, i_type; simpl. rewrite Hin. simpl.
  rewrite app_nil_r. auto.
Qed.

(* Name tests decide alike on both bindings, at every related position (no guard: LocalName and
   Prefix are never in Q1). *)
Lemma name_test_agree doc dv iv pfx local :
  dom_wfb doc = true -> nav_rel doc dv iv ->
  name_test_idr (to_idr doc) iv pfx local = name_test_dom doc dv pfx local /\
  name_test_idr (to_idr doc) iv pfx local <> None.
Proof.
  intros Hw Hrel. unfold name_test_idr, name_test_dom.
  destruct (obs_sim false _ _ _ OLocalName Hw Hrel (or_intror eq_refl)) as (l & Hd1 & Hi1).
  destruct (obs_sim false _ _ _ OPrefix Hw Hrel (or_intror eq_refl)) as (p & Hd2 & Hi2).
  rewrite Hd1, Hd2, Hi1, Hi2. split; [reflexivity|discriminate].
Qed.

Lemma obs_eqb_str a b : obs_eqb (VStr a) (VStr b) = true <-> a = b.
Proof. simpl. apply bytes_eqb_eq. Qed.

(* A bare name (empty prefix) selects an element exactly when the element has that local name AND
   no prefix - never a prefixed namesake (the C11-r33 class). *)
Lemma bare_name_test_element doc dr ir dp ip n local :
  dom_wfb doc = true -> path_rel doc dr ir -> path_rel doc dp ip -> d_node doc dp = Some n ->
  (name_test_idr (to_idr doc) (mkINav ir ip) [] local = Some true <->
   d_data n = local /\ d_prefix n = []).
Proof.
  intros Hw Hroot Hr Hn.
  destruct (name_of_element _ _ _ _ _ _ Hw Hroot Hr Hn) as [Hl Hp].
  unfold name_test_idr. rewrite Hl, Hp. split.
  - intros H. inversion H as [H1]. apply andb_prop in H1 as [A B].
    apply obs_eqb_str in A. apply obs_eqb_str in B. auto.
  - intros [-> ->]. f_equal. apply andb_true_intro. split; apply obs_eqb_str; reflexivity.
Qed.

(* ---- attribute positions ------------------------------------------------------------------------------- *)
Definition on_attribute (dv : dnav) : Prop := dn_attr dv <> None.

(* child / sibling moves refuse on an attribute and leave the navigator where it is *)
Lemma attr_position_refuses doc dv iv m :
  dom_wfb doc = true -> nav_rel doc dv iv -> on_attribute dv ->
  m = MChild \/ m = MFirst \/ m = MNext \/ m = MPrev ->
  i_move (to_idr doc) iv m = Some (iv, false).
Proof.
  intros Hw Hrel Ha Hm.
  assert (Hq : true = true \/ quirk_move dv m = false) by (left; reflexivity).
  destruct (move_sim true _ _ _ m Hw Hrel Hq) as (dv' & iv' & b & Hd & Hi & Hrel').
  assert (Hdm : d_move true doc dv m = Some (dv, false)).
  { destruct Hrel as [_ Hpos]. unfold on_attribute in Ha.
    destruct (dn_attr dv) as [i|] eqn:E; [|congruence]. simpl in Hpos.
    destruct Hpos as (ip & n & _ & Hn & _ & _).
    unfold d_move. rewrite Hn, E. destruct Hm as [ -> | [ -> | [ -> | -> ] ] ]; reflexivity. }
  rewrite Hdm in Hd. inversion Hd; subst.
  rewrite Hi. f_equal. f_equal. eapply nav_rel_inj; eauto.
Qed.

(* MoveToParent from an attribute goes to the element that carries it *)
Lemma attr_parent_is_owner doc dr ir dp ip n i :
  dom_wfb doc = true -> path_rel doc dr ir -> path_rel doc dp ip -> d_node doc dp = Some n ->
  i < length (d_attrs n) ->
  i_move (to_idr doc) (mkINav ir (i :: ip)) MParent = Some (mkINav ir ip, true).
Proof.
  intros Hw Hroot Hr Hn Hi.
  destruct (attr_lookup n i Hi) as [a Ha].
  pose proof (attr_pos_node _ _ _ _ _ _ Hr Hn Ha) as Hin.
  unfold i_move; simpl. rewrite Hin. reflexivity.
Qed.

(* one MoveToNextAttribute: from the element to attribute 0, from attribute i to attribute i+1,
   refused after the last one *)
Lemma next_attr_step doc dr ir dp ip n (cur : option nat) :
  dom_wfb doc = true -> path_rel doc dr ir -> path_rel doc dp ip -> d_node doc dp = Some n ->
  match cur with Some i => i < length (d_attrs n) | None => True end ->
  let nxt := match cur with Some i => S i | None => 0 end in
  let here := match cur with Some i => i :: ip | None => ip end in
  i_move (to_idr doc) (mkINav ir here) MNextAttr =
  Some (if nxt <? length (d_attrs n) then (mkINav ir (nxt :: ip), true) else (mkINav ir here, false)).
Proof.
  intros Hw Hroot Hr Hn Hc nxt here.
  assert (Hrel : nav_rel doc (mkDNav dr dp cur) (mkINav ir here)).
  { split; simpl; [assumption|]. destruct cur as [i|]; simpl; [exists ip, n; auto|assumption]. }
  destruct (move_sim true _ _ _ MNextAttr Hw Hrel (or_introl eq_refl)) as (dv' & iv' & b & Hd & Hi & Hrel').
  unfold d_move in Hd; simpl in Hd. rewrite Hn in Hd. fold nxt in Hd.
  rewrite Hi. f_equal.
  destruct (nxt <? length (d_attrs n)) eqn:E.
  - apply Nat.ltb_lt in E.
    replace (length (d_attrs n) <=? nxt) with false in Hd by (symmetry; apply Nat.leb_gt; lia).
    inversion Hd; subst. f_equal. eapply nav_rel_inj; [exact Hrel'|].
    split; simpl; [assumption|]. exists ip, n. auto.
  - apply Nat.ltb_ge in E.
    replace (length (d_attrs n) <=? nxt) with true in Hd by (symmetry; apply Nat.leb_le; lia).
    inversion Hd; subst. f_equal. eapply nav_rel_inj; eauto.
Qed.

Lemma attr_walk_from doc dr ir dp ip n :
  dom_wfb doc = true -> path_rel doc dr ir -> path_rel doc dp ip -> d_node doc dp = Some n ->
  forall fuel (cur : option nat),
  match cur with Some i => i < length (d_attrs n) | None => True end ->
  let nxt := match cur with Some i => S i | None => 0 end in
  let here := match cur with Some i => i :: ip | None => ip end in
  length (d_attrs n) - nxt < fuel ->
  i_attr_walk (to_idr doc) (mkINav ir here) fuel = Some (map attr_obs (skipn nxt (d_attrs n))).
Proof.
  intros Hw Hroot Hr Hn. induction fuel as [|f IH]; intros cur Hc nxt here Hf; [lia|].
  simpl. unfold here. rewrite (next_attr_step _ _ _ _ _ _ cur Hw Hroot Hr Hn Hc). fold nxt.
  destruct (nxt <? length (d_attrs n)) eqn:E; lazy beta iota zeta.
  - apply Nat.ltb_lt in E.
    destruct (attr_lookup n nxt E) as [a Ha].
    destruct (name_of_attribute _ _ _ _ _ _ _ _ Hw Hroot Hr Hn Ha) as (Hl & Hp & Hv & _).
    unfold i_obs in Hl, Hp, Hv. rewrite Hp, Hl, Hv.
    rewrite (IH (Some nxt)) by (simpl; lia). simpl.
    f_equal. clear - Ha. revert Ha. generalize (d_attrs n) as l. generalize nxt as k.
    induction k as [|k IHk]; intros [|x l] Ha; simpl in *; try discriminate.
    + inversion Ha; reflexivity.
    + apply IHk; assumption.
  - apply Nat.ltb_ge in E. rewrite skipn_all2 by lia. reflexivity.
Qed.

(* The attribute axis over the IDR: the attributes of the element, all of them, in document order,
   each with its prefix, local name and value. *)
Lemma attr_walk_document_order doc dr ir dp ip n fuel :
  dom_wfb doc = true -> path_rel doc dr ir -> path_rel doc dp ip -> d_node doc dp = Some n ->
  length (d_attrs n) < fuel ->
  i_attr_walk (to_idr doc) (mkINav ir ip) fuel = Some (map attr_obs (d_attrs n)).
Proof.
  intros Hw Hroot Hr Hn Hf.
  apply (attr_walk_from _ _ _ _ _ _ Hw Hroot Hr Hn fuel None I). simpl. lia.
Qed.

(* ---- idr/query.go wrappers over any iterator ---------------------------------------------------------- *)
Section WrapperProofs.
  Variable S N : Type.
  Variable next : S -> istep S N.

  (* the iterator, started in s, produces exactly l and then ends (false) or panics (true) *)
  Inductive yields : S -> list N -> bool -> Prop :=
  | y_end s : next s = IEnd -> yields s [] false
  | y_panic s : next s = IPanic -> yields s [] true
  | y_next s n s' l b : next s = INext n s' -> yields s' l b -> yields s (n :: l) b.

  Lemma match_all_loop_yields s l b :
    yields s l b -> forall fuel acc, length l < fuel ->
    match_all_loop next fuel s acc = if b then WErr EQueryFailed else WOk (rev acc ++ l).
  Proof.
    induction 1 as [s H|s H|s n s' l b H Hy IH]; intros fuel acc Hf;
      (destruct fuel as [|f]; [simpl in Hf; lia|]); simpl; rewrite H.
    - rewrite app_nil_r; reflexivity.
    - reflexivity.
    - rewrite IH by (simpl in Hf; lia). destruct b; [reflexivity|].
      simpl. rewrite <- app_assoc. reflexivity.
  Qed.

  Lemma match_all_loop_ok_inv fuel : forall s acc r,
    match_all_loop next fuel s acc = WOk r -> exists l, yields s l false /\ r = rev acc ++ l.
  Proof.
    induction fuel as [|f IH]; intros s acc r H; simpl in H; [discriminate|].
    destruct (next s) as [n s'| |] eqn:E; try discriminate.
    - apply IH in H as (l & Hy & ->). exists (n :: l). split; [econstructor; eauto|].
      simpl. rewrite <- app_assoc. reflexivity.
    - inversion H; subst. exists []. split; [constructor; assumption|]. rewrite app_nil_r; reflexivity.
  Qed.

  (* MatchAll returns the engine's iteration, every node, in that order, nothing removed, nothing
     merged - and only that. *)
  Theorem match_all_is_the_iteration self s l :
    (exists fuel, match_all next false self (Some s) fuel = WOk l) <-> yields s l false.
  Proof.
    unfold match_all. split.
    - intros [fuel H]. apply match_all_loop_ok_inv in H as (l' & Hy & ->). exact Hy.
    - intros Hy. exists (Datatypes.S (length l)).
      rewrite (match_all_loop_yields _ _ _ Hy) by lia. reflexivity.
  Qed.

  Lemma match_all_enough_fuel self s l b fuel :
    yields s l b -> length l < fuel ->
    match_all next false self (Some s) fuel = if b then WErr EQueryFailed else WOk l.
  Proof. intros Hy Hf. unfold match_all. rewrite (match_all_loop_yields _ _ _ Hy) by assumption. reflexivity. Qed.

  Definition classify (l : list N) : wres N :=
    match l with [] => WErr ENoMatch | [x] => WOk x | _ :: _ :: _ => WErr EMoreThanExpected end.

  (* MatchSingle: none / exactly one / more than one *)
  Theorem match_single_classification self s l :
    yields s l false -> match_single next false self (Some s) = classify l.
  Proof.
    intros Hy. unfold match_single.
    inversion Hy as [s0 H|s0 H|s0 n s' l' b H Hy']; subst; rewrite H; [reflexivity|].
    inversion Hy' as [s1 H1|s1 H1|s1 n1 s1' l1 b1 H1 Hy1]; subst; rewrite H1; reflexivity.
  Qed.

  (* a panic inside the library: reported as a failed query unless two nodes were already seen *)
  Theorem match_single_on_panic self s l :
    yields s l true ->
    match_single next false self (Some s) =
    match l with _ :: _ :: _ => WErr EMoreThanExpected | _ => WErr EQueryFailed end.
  Proof.
    intros Hy. unfold match_single.
    inversion Hy as [s0 H|s0 H|s0 n s' l' b H Hy']; subst; rewrite H; [reflexivity|].
    inversion Hy' as [s1 H1|s1 H1|s1 n1 s1' l1 b1 H1 Hy1]; subst; rewrite H1; reflexivity.
  Qed.

  (* the two entry points answer one question *)
  Theorem match_single_consistent_with_match_all self s fuel l :
    match_all next false self (Some s) fuel = WOk l ->
    match_single next false self (Some s) = classify l.
  Proof.
    intros H. apply match_single_classification.
    apply match_all_is_the_iteration with (self := self). eauto.
  Qed.

  Theorem match_any_spec s l b :
    yields s l b -> match_any next s = match l with [] => false | _ :: _ => true end.
  Proof. intros Hy. unfold match_any. inversion Hy; subst; rewrite H; reflexivity. Qed.

  Theorem match_dot self c fuel :
    match_all next true self c fuel = WOk [self] /\ match_single next true self c = WOk self.
  Proof. split; reflexivity. Qed.
End WrapperProofs.

(* a scripted iterator yields its script *)
Lemma script_yields panics l : yields (list N) N (script_next panics) l l panics.
Proof.
  induction l as [|n l IH].
  - destruct panics; [apply y_panic|apply y_end]; reflexivity.
  - eapply y_next; [reflexivity|exact IH].
Qed.

(* ---- the model's tables and statement shapes are the ones extracted from navigator.go ---------- *)
Lemma nodetype_table_extracted ty : nav_nodetype_code ty = Some (xtype_code (i_xtype_of ty)).
Proof. destruct ty; reflexivity. Qed.

(* what the extracted guard shape means in the model: on an AttributeNode the four moves return
   false at once, on ANY tree (not only on to_idr doc) *)
Lemma attr_guard_model t v n m :
  i_node t (in_cur v) = Some n -> is_attr (t_type n) = true ->
  m = MChild \/ m = MFirst \/ m = MNext \/ m = MPrev ->
  i_move t v m = Some (v, false).
Proof.
  intros Hn Ha Hm. unfold i_move. rewrite Hn.
  destruct Hm as [ -> | [ -> | [ -> | -> ] ] ]; rewrite Ha; reflexivity.
Qed.

Lemma navigator_shape_extracted :
  (forall ty, nav_nodetype_code ty = Some (xtype_code (i_xtype_of ty))) /\
  nav_child_sibling_moves_refuse_on_attribute = true /\
  (forall t v n m, i_node t (in_cur v) = Some n -> is_attr (t_type n) = true ->
     m = MChild \/ m = MFirst \/ m = MNext \/ m = MPrev -> i_move t v m = Some (v, false)) /\
  nav_value_is_inner_text = true /\
  (forall t v, i_value t v = option_map inner_text (i_node t (in_cur v))).
Proof.
  repeat split.
  - apply nodetype_table_extracted.
  - apply attr_guard_model.
Qed.

(* ---- the unguarded statement is false of the faithful models: witnesses for Q1 and Q2 ----------- *)
(* <r k="1">t<x/></r> *)
From Coq Require Import String.
Local Open Scope string_scope.
Definition q_doc : dnode :=
  D DDoc [] [] [] []
    [D DElem (hx "72") [] [] [mkAttr [] (hx "6b") [] (hx "31")]
       [D DText (hx "74") [] [] [] []; D DElem (hx "78") [] [] [] []]].

(* Q1: string(/): Value() of the document node *)
Definition q1_prog : prog obs := Obs 0 OValue (fun v => Ret v).
(* Q2: //@k[/r]: from the document node go to r, to its attribute k, MoveToRoot, MoveToChild *)
Definition q2_prog : prog bool :=
  Move 0 MChild (fun _ => Move 0 MNextAttr (fun _ => Move 0 MRoot (fun _ =>
  Move 0 MChild (fun b => Ret b)))).

Lemma q1_refuted :
  run_dom false q_doc q1_prog (d_init []) = Some (VStr []) /\
  run_idr (to_idr q_doc) q1_prog (i_init (to_ipath q_doc [])) = Some (VStr (hx "74")).
Proof. split; vm_compute; reflexivity. Qed.

Lemma q2_refuted :
  run_dom false q_doc q2_prog (d_init []) = Some false /\
  run_idr (to_idr q_doc) q2_prog (i_init (to_ipath q_doc [])) = Some true.
Proof. split; vm_compute; reflexivity. Qed.

Theorem nav_programs_agree_unguarded_refuted :
  exists doc start,
    dom_wfb doc = true /\ valid_start doc start = true /\
    (exists p : prog obs,
       run_dom false doc p (d_init start) <> run_idr (to_idr doc) p (i_init (to_ipath doc start))) /\
    (exists p : prog bool,
       run_dom false doc p (d_init start) <> run_idr (to_idr doc) p (i_init (to_ipath doc start))).
Proof.
  exists q_doc, []. repeat split.
  - exists q1_prog. destruct q1_refuted as [-> ->]. discriminate.
  - exists q2_prog. destruct q2_refuted as [-> ->]. discriminate.
Qed.

(* A sequence of operations, as the harness issues it, is a program: the two observed traces of
   a correspondence case are equal whenever the reference execution is in scope. *)
Corollary nav_traces_agree ops doc start :
  dom_wfb doc = true -> valid_start doc start = true ->
  ref_ok doc (trace_prog ops []) (d_init start) ->
  run_dom false doc (trace_prog ops []) (d_init start) =
  run_idr (to_idr doc) (trace_prog ops []) (i_init (to_ipath doc start)).
Proof. apply nav_programs_agree. Qed.

(* The repair changes nothing on executions of xmlquery that are in scope. *)
Corollary repair_conservative R (p : prog R) doc start :
  dom_wfb doc = true -> valid_start doc start = true -> ref_ok doc p (d_init start) ->
  run_dom true doc p (d_init start) = run_dom false doc p (d_init start).
Proof.
  intros Hw Hs Hok.
  rewrite (nav_programs_agree R p doc start Hw Hs Hok).
  apply nav_programs_agree_repaired; assumption.
Qed.
