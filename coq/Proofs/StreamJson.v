(* Proofs about Model/Stream.v, part 3: the JSON reader. *)
From Coq Require Import List NArith Bool Arith Lia.
Import ListNotations.
From OV Require Import Base.Bytes Base.Cases Base.Tree Model.Stream Proofs.Stream Proofs.StreamXml.

(* ---- induction over JSON documents -------------------------------------------------------------- *)
Section jnode_ind2.
  Variable P : jnode -> Prop.
  Hypothesis HS : forall k tk, P (JS k tk).
  Hypothesis HO : forall k ms, Forall P ms -> P (JO k ms).
  Hypothesis HA : forall k ms, Forall P ms -> P (JA k ms).
  Fixpoint jnode_ind2 (j : jnode) : P j :=
    let go := fix go (l : list jnode) : Forall P l :=
                match l with
                | [] => Forall_nil P
                | x :: r => Forall_cons x (jnode_ind2 x) (go r)
                end in
    match j with
    | JS k tk => HS k tk
    | JO k ms => HO k ms (go ms)
    | JA k ms => HA k ms (go ms)
    end.
End jnode_ind2.

(* ---- generic step facts (shared shape of both readers) ------------------------------------------ *)
Section Generic.
  Variable pm : list name -> bool.
  Variable pred : tree -> bool.
  Variable has_filter : bool.
  Hypothesis Hnf : has_filter = false -> forall t, pred t = true.

  Notation wrap := (wrap_up pm pred has_filter false).
  Notation cc := (candidate_check pm).

  Lemma cc_open : forall stack d k, cc (mkS stack d (SOpen k)) = mkS stack d (SOpen k).
  Proof. reflexivity. Qed.

  Lemma cc_fresh : forall g f r,
    Inv pm (f :: r) -> elemf g -> Forall (fun k => is_element k = false) (f_kids g) ->
    cc (mkS (g :: f :: r) None SNone) =
    mkS (g :: f :: r) None
        (if pm (chain_of (f :: r) ++ [fname g]) then SOpen (length (g :: f :: r)) else SNone).
  Proof.
    intros g f r HI Hg Hk.
    destruct (match_any_push pm g (f :: r) HI Hg Hk) as (root & Hroot & Hany).
    unfold candidate_check. cbn [s_stream root_tree s_stack]. rewrite Hroot, Hany.
    destruct (pm (chain_of (f :: r) ++ [fname g])); reflexivity.
  Qed.

  (* closing a node that is not the candidate *)
  Lemma wrap_inner : forall g f r s,
    (match s with SOpen k => k <> length (g :: f :: r) | _ => True end) ->
    wrap (mkS (g :: f :: r) None s) = RCont (mkS (add_kid f (close_frame g) :: r) None s).
  Proof.
    intros g f r s Hs. unfold wrap_up. cbn [s_stack s_stream].
    destruct s as [|k|]; try reflexivity.
    apply Nat.eqb_neq in Hs. rewrite Hs. reflexivity.
  Qed.

  (* closing the candidate: delivered iff it satisfies the predicates; otherwise removed, and
     the state is the one before the candidate was opened *)
  Lemma wrap_candidate : forall g f r,
    Inv pm (f :: r) -> elemf g -> pm (chain_of (f :: r) ++ [fname g]) = true ->
    wrap (mkS (g :: f :: r) None (SOpen (length (g :: f :: r)))) =
    if pred (close_frame g)
    then RDeliver (close_frame g)
           (retained (mkS (add_kid f (close_frame g) :: r) None (SOpen (length (g :: f :: r)))))
           (mkS (add_kid f (close_frame g) :: r) None SClosed)
    else RCont (mkS (f :: r) None SNone).
  Proof.
    intros g f r HI Hg Hpm. unfold wrap_up. cbn [s_stack s_stream]. rewrite Nat.eqb_refl. cbn [negb].
    set (t := close_frame g).
    assert (Ht : is_element t = true) by (unfold t, close_frame, is_element; cbn [t_type]; rewrite Hg; reflexivity).
    destruct (match_node_closed pm pred f r t (inv_shape pm _ HI) Ht) as (root1 & Hr1 & Hmn).
    cbn [root_tree s_stack]. rewrite Hr1, Hmn.
    change (node_name t) with (fname g). rewrite Hpm. cbn [andb].
    assert (Hok : negb has_filter || pred t = pred t).
    { destruct has_filter eqn:Hf; [reflexivity|]. rewrite (Hnf eq_refl t). reflexivity. }
    rewrite Hok. destruct (pred t); [reflexivity|].
    unfold remove_closed. cbn [s_stack]. rewrite drop_last_add_kid. reflexivity.
  Qed.

  (* what Release / the next Read's prologue do after a delivery *)
  Lemma after_delivery : forall f t r (b : bool),
    match (if b then release (mkS (add_kid f t :: r) None SClosed)
           else Some (mkS (add_kid f t :: r) None SClosed)) with
    | Some s => read_prologue s
    | None => None
    end = Some (mkS (f :: r) None SNone).
  Proof.
    intros. destruct b; unfold release, read_prologue, remove_closed; cbn [s_stream s_stack];
      rewrite drop_last_add_kid; reflexivity.
  Qed.
End Generic.

(* ---- the JSON reader ------------------------------------------------------------------------------ *)
Section JsonProof.
  Variable pm : list name -> bool.
  Variable pred : tree -> bool.
  Variable has_filter : bool.
  Hypothesis Hnf : has_filter = false -> forall t, pred t = true.

  Notation run := (jrun pm pred has_filter false).
  Notation step := (jstep pm pred has_filter false).
  Notation wrap := (wrap_up pm pred has_filter false).
  Notation cc := (candidate_check pm).

  Definition objmode (f : frame) : Prop := jflag J_OBJ f = true.
  Definition arrmode (f : frame) : Prop := jflag J_OBJ f = false /\ jflag J_ARR f = true.
  Definition mode (keyed : bool) (f : frame) : Prop := if keyed then objmode f else arrmode f.

  Lemma mode_add_kids : forall keyed f l, mode keyed f -> mode keyed (add_kids f l).
  Proof. intros keyed f l H. destruct keyed; exact H. Qed.

  Definition jkey (j : jnode) : bytes := match j with JS k _ | JO k _ | JA k _ => k end.
  Definition jname (keyed : bool) (j : jnode) : name := ([], if keyed then jkey j else []).
  Definition jgrow (c : list name) (keyed : bool) (j : jnode) : list tree :=
    if pm (c ++ [jname keyed j]) then [] else [prune pm (c ++ [jname keyed j]) (jkid keyed j)].
  Definition jspec (c : list name) (keyed : bool) (j : jnode) : list tree :=
    spec pm pred (c ++ [jname keyed j]) (jkid keyed j).

  Lemma jkid_elem : forall keyed j, is_element (jkid keyed j) = true.
  Proof. intros keyed [k tk|k ms|k ms]; reflexivity. Qed.
  Lemma jkid_name : forall keyed j, node_name (jkid keyed j) = jname keyed j.
  Proof. intros keyed [k tk|k ms|k ms]; reflexivity. Qed.

  Lemma prune_kids_jkid : forall c keyed ms,
    prune_kids pm c (map (jkid keyed) ms) = flat_map (jgrow c keyed) ms.
  Proof.
    induction ms as [|j r IH]; [reflexivity|].
    cbn [map prune_kids flat_map]. rewrite IH, jkid_elem, jkid_name. unfold jgrow.
    destruct (pm (c ++ [jname keyed j])); reflexivity.
  Qed.
  Lemma spec_kids_jkid : forall c keyed ms,
    spec_kids pm pred c (map (jkid keyed) ms) = flat_map (jspec c keyed) ms.
  Proof.
    induction ms as [|j r IH]; [reflexivity|].
    cbn [map spec_kids flat_map]. rewrite IH, jkid_elem, jkid_name. reflexivity.
  Qed.

  (* ---- single steps ---------------------------------------------------------------------------- *)
  Lemma run_cont : forall st st' tk rel r,
    step st tk = RCont st' -> run st rel (tk :: r) = run st' rel r.
  Proof. intros. cbn [jrun]. rewrite H. reflexivity. Qed.

  Lemma run_deliver : forall st tk rel r t n f0 r0,
    step st tk = RDeliver t n (mkS (add_kid f0 t :: r0) None SClosed) ->
    run st rel (tk :: r) = prepend [(t, n)] (run (mkS (f0 :: r0) None SNone) (tl rel) r).
  Proof.
    intros. cbn [jrun]. rewrite H, after_delivery.
    destruct (run (mkS (f0 :: r0) None SNone) (tl rel) r). reflexivity.
  Qed.

  Definition PF (k : bytes) : frame := mkF ElementNode k (FJson J_PROP) [].

  Lemma step_key : forall f r s k, objmode f ->
    step (mkS (f :: r) None s) (JStrT k) = RCont (cc (mkS (PF k :: f :: r) None s)).
  Proof. intros f r s k H. unfold jstep. cbn [s_stack jtext]. rewrite H. reflexivity. Qed.

  Lemma step_close_obj : forall f r s, step (mkS (f :: r) None s) JCloseObj = wrap (mkS (f :: r) None s).
  Proof. reflexivity. Qed.
  Lemma step_close_arr : forall f r s, step (mkS (f :: r) None s) JCloseArr = wrap (mkS (f :: r) None s).
  Proof. reflexivity. Qed.

  (* value tokens after a key: cur is the property node, flags exactly JSONProp *)
  Lemma step_prop_scalar : forall k kids r s tk txt, jtext tk = Some txt ->
    step (mkS (mkF ElementNode k (FJson J_PROP) kids :: r) None s) tk =
    wrap (mkS (mkF ElementNode k (FJson J_PROP) (kids ++ [txt]) :: r) None s).
  Proof.
    intros k kids r s tk txt H. unfold jstep. cbn [s_stack].
    destruct tk; try discriminate H; rewrite H; reflexivity.
  Qed.
  Lemma step_prop_obj : forall k kids r s,
    step (mkS (mkF ElementNode k (FJson J_PROP) kids :: r) None s) JOpenObj =
    RCont (mkS (mkF ElementNode k (FJson (N.lor J_PROP J_OBJ)) kids :: r) None s).
  Proof. reflexivity. Qed.
  Lemma step_prop_arr : forall k kids r s,
    step (mkS (mkF ElementNode k (FJson J_PROP) kids :: r) None s) JOpenArr =
    RCont (mkS (mkF ElementNode k (FJson (N.lor J_PROP J_ARR)) kids :: r) None s).
  Proof. reflexivity. Qed.

  (* value tokens inside an array *)
  Lemma step_arr_scalar : forall f r s tk txt, arrmode f -> jtext tk = Some txt ->
    step (mkS (f :: r) None s) tk = wrap (add_text (cc (mkS (PF [] :: f :: r) None s)) txt).
  Proof.
    intros f r s tk txt [H1 H2] H. unfold jstep. cbn [s_stack].
    destruct tk; try discriminate H; rewrite H, H1, H2; reflexivity.
  Qed.
  Lemma step_arr_obj : forall f r s, arrmode f ->
    step (mkS (f :: r) None s) JOpenObj =
    RCont (cc (mkS (mkF ElementNode [] (FJson J_OBJ) [] :: f :: r) None s)).
  Proof. intros f r s [H1 H2]. unfold jstep. cbn [s_stack]. rewrite H2. reflexivity. Qed.
  Lemma step_arr_arr : forall f r s, arrmode f ->
    step (mkS (f :: r) None s) JOpenArr =
    RCont (cc (mkS (mkF ElementNode [] (FJson J_ARR) [] :: f :: r) None s)).
  Proof. intros f r s [H1 H2]. unfold jstep. cbn [s_stack]. rewrite H2. reflexivity. Qed.

  Lemma jtext_scalar : forall tk, jscalar_tok tk = true -> jtext tk = Some (jtext_or_null tk).
  Proof. intros [| | | |s|s|b|] H; try discriminate H; reflexivity. Qed.
  Lemma jtext_nonelem : forall tk, is_element (jtext_or_null tk) = false.
  Proof. intros [| | | |s|s|b|]; reflexivity. Qed.

  (* ---- inside a candidate: the subtree is built faithfully ---------------------------------------- *)
  Definition JBuildP (j : jnode) : Prop :=
    forall keyed f r k rel rest, jwf j = true -> mode keyed f -> k <= length (f :: r) ->
      run (mkS (f :: r) None (SOpen k)) rel (jevents keyed j ++ rest) =
      run (mkS (add_kid f (jkid keyed j) :: r) None (SOpen k)) rel rest.

  Lemma jbuild_kids : forall ms, Forall JBuildP ms -> forallb jwf ms = true ->
    forall keyed g s k rel rest, mode keyed g -> k <= length (g :: s) ->
      run (mkS (g :: s) None (SOpen k)) rel (flat_map (jevents keyed) ms ++ rest) =
      run (mkS (add_kids g (map (jkid keyed) ms) :: s) None (SOpen k)) rel rest.
  Proof.
    induction 1 as [|x l Hx _ IH]; intros Hwf keyed g s k rel rest Hm Hk.
    - simpl. rewrite add_kids_nil. reflexivity.
    - cbn [forallb] in Hwf. apply andb_prop in Hwf as [Hw1 Hw2].
      cbn [flat_map map]. rewrite <- app_assoc, (Hx keyed g s k rel _ Hw1 Hm Hk).
      rewrite add_kid_is_add_kids, (IH Hw2) by (try apply mode_add_kids; assumption).
      rewrite add_kids_add_kids. reflexivity.
  Qed.

  Lemma wrap_inner' : forall g f r k, k <= length (f :: r) ->
    wrap (mkS (g :: f :: r) None (SOpen k)) = RCont (mkS (add_kid f (close_frame g) :: r) None (SOpen k)).
  Proof. intros. apply wrap_inner. simpl in *. lia. Qed.

  Lemma jbuild_inside : forall j, JBuildP j.
  Proof.
    induction j as [key tk|key ms IH|key ms IH] using jnode_ind2;
      intros keyed f r k rel rest Hwf Hm Hk; cbn [jwf] in Hwf.
    - (* scalar *)
      pose proof (jtext_scalar tk Hwf) as Htx.
      destruct keyed; cbn [jevents app mode] in *.
      + rewrite (run_cont _ _ _ _ _ (step_key f r _ key Hm)), cc_open.
        erewrite run_cont; [reflexivity|].
        unfold PF. rewrite (step_prop_scalar _ _ _ _ _ _ Htx). rewrite wrap_inner' by exact Hk. reflexivity.
      + erewrite run_cont; [reflexivity|].
        rewrite (step_arr_scalar _ _ _ _ _ Hm Htx), cc_open. unfold add_text, PF. cbn [s_stack s_stream].
        rewrite wrap_inner' by exact Hk. reflexivity.
    - (* object *)
      destruct keyed; cbn [jevents app mode] in *.
      + rewrite (run_cont _ _ _ _ _ (step_key f r _ key Hm)), cc_open.
        unfold PF. rewrite (run_cont _ _ _ _ _ (step_prop_obj _ _ _ _)).
        rewrite <- app_assoc, (jbuild_kids ms IH Hwf true) by (try reflexivity; simpl in *; lia).
        cbn [app]. erewrite run_cont; [reflexivity|].
        rewrite step_close_obj, wrap_inner' by exact Hk. reflexivity.
      + rewrite (run_cont _ _ _ _ _ (step_arr_obj f r _ Hm)), cc_open.
        rewrite <- app_assoc, (jbuild_kids ms IH Hwf true) by (try reflexivity; simpl in *; lia).
        cbn [app]. erewrite run_cont; [reflexivity|].
        rewrite step_close_obj, wrap_inner' by exact Hk. reflexivity.
    - (* array *)
      destruct keyed; cbn [jevents app mode] in *.
      + rewrite (run_cont _ _ _ _ _ (step_key f r _ key Hm)), cc_open.
        unfold PF. rewrite (run_cont _ _ _ _ _ (step_prop_arr _ _ _ _)).
        rewrite <- app_assoc, (jbuild_kids ms IH Hwf false) by (try (split; reflexivity); simpl in *; lia).
        cbn [app]. erewrite run_cont; [reflexivity|].
        rewrite step_close_arr, wrap_inner' by exact Hk. reflexivity.
      + rewrite (run_cont _ _ _ _ _ (step_arr_arr f r _ Hm)), cc_open.
        rewrite <- app_assoc, (jbuild_kids ms IH Hwf false) by (try (split; reflexivity); simpl in *; lia).
        cbn [app]. erewrite run_cont; [reflexivity|].
        rewrite step_close_arr, wrap_inner' by exact Hk. reflexivity.
  Qed.

  (* ---- outside candidates ------------------------------------------------------------------------- *)
  Definition JRunP (j : jnode) : Prop :=
    forall keyed f r rel rest, jwf j = true -> mode keyed f -> Inv pm (f :: r) ->
      exists L, map fst L = jspec (chain_of (f :: r)) keyed j /\
        run (mkS (f :: r) None SNone) rel (jevents keyed j ++ rest) =
        prepend L (run (mkS (add_kids f (jgrow (chain_of (f :: r)) keyed j) :: r) None SNone)
                       (skipn (length L) rel) rest) /\
        Inv pm (add_kids f (jgrow (chain_of (f :: r)) keyed j) :: r) /\
        (pm (chain_of (f :: r) ++ [jname keyed j]) = true ->
         Forall (fun d => snd d = retained (mkS (f :: r) None SNone) + tree_size (jkid keyed j)) L).

  Lemma jrun_kids : forall ms, Forall JRunP ms -> forallb jwf ms = true ->
    forall keyed g s rel rest, mode keyed g -> Inv pm (g :: s) ->
      exists L, map fst L = flat_map (jspec (chain_of (g :: s)) keyed) ms /\
        run (mkS (g :: s) None SNone) rel (flat_map (jevents keyed) ms ++ rest) =
        prepend L (run (mkS (add_kids g (flat_map (jgrow (chain_of (g :: s)) keyed) ms) :: s) None SNone)
                       (skipn (length L) rel) rest) /\
        Inv pm (add_kids g (flat_map (jgrow (chain_of (g :: s)) keyed) ms) :: s).
  Proof.
    induction 1 as [|x l Hx _ IH]; intros Hwf keyed g s rel rest Hm HI.
    - exists []. simpl. rewrite add_kids_nil, prepend_nil. auto.
    - cbn [forallb] in Hwf. apply andb_prop in Hwf as [Hw1 Hw2].
      cbn [flat_map]. rewrite <- app_assoc.
      destruct (Hx keyed g s rel (flat_map (jevents keyed) l ++ rest) Hw1 Hm HI) as (L1 & E1 & R1 & I1 & _).
      destruct (IH Hw2 keyed _ s (skipn (length L1) rel) rest (mode_add_kids _ _ _ Hm) I1) as (L2 & E2 & R2 & I2).
      rewrite chain_of_add_kids in E2, R2, I2.
      exists (L1 ++ L2). split; [|split].
      + rewrite map_app, E1, E2. reflexivity.
      + rewrite R1, R2, prepend_app, add_kids_add_kids, app_length, skipn_add. reflexivity.
      + rewrite add_kids_add_kids in I2. exact I2.
  Qed.

  Lemma finish_cand : forall st0 tk g f r rel rest,
    Inv pm (f :: r) -> elemf g -> pm (chain_of (f :: r) ++ [fname g]) = true ->
    step st0 tk = wrap (mkS (g :: f :: r) None (SOpen (length (g :: f :: r)))) ->
    exists L, map fst L = (if pred (close_frame g) then [close_frame g] else []) /\
      run st0 rel (tk :: rest) = prepend L (run (mkS (f :: r) None SNone) (skipn (length L) rel) rest) /\
      Forall (fun d => snd d = retained (mkS (f :: r) None SNone) + tree_size (close_frame g)) L.
  Proof.
    intros st0 tk g f r rel rest HI Hg Hpm Hstep.
    rewrite (wrap_candidate pm pred has_filter Hnf g f r HI Hg Hpm) in Hstep.
    destruct (pred (close_frame g)).
    - eexists [(_, _)]. split; [reflexivity|]. split.
      + rewrite (run_deliver _ _ _ _ _ _ _ _ Hstep). cbn [length]. rewrite skipn_1. reflexivity.
      + constructor; [|constructor]. cbn [snd]. apply retained_add_kid.
    - exists []. split; [reflexivity|]. split; [|constructor].
      rewrite (run_cont _ _ _ _ _ Hstep), prepend_nil. reflexivity.
  Qed.

  Lemma finish_plain : forall st0 tk g f r rel rest,
    step st0 tk = wrap (mkS (g :: f :: r) None SNone) ->
    run st0 rel (tk :: rest) = run (mkS (add_kid f (close_frame g) :: r) None SNone) rel rest.
  Proof.
    intros. apply run_cont. rewrite H. apply wrap_inner. exact I.
  Qed.

  Lemma all_JBuildP : forall l, Forall JBuildP l.
  Proof. induction l; constructor; [apply jbuild_inside|assumption]. Qed.

  Definition after_check (c' : list name) (g : frame) (f : frame) (r : list frame) : state :=
    mkS (g :: f :: r) None (if pm c' then SOpen (length (g :: f :: r)) else SNone).
  Definition grown (c' : list name) (t : tree) : list tree :=
    if pm c' then [] else [prune pm c' t].

  (* a node whose children are all in place (a scalar's text), closed by the token [tk] *)
  Lemma leaf_finish : forall st0 tk g f r rel rest,
    Inv pm (f :: r) -> elemf g -> Forall (fun k => is_element k = false) (f_kids g) ->
    let c' := chain_of (f :: r) ++ [fname g] in
    step st0 tk = wrap (after_check c' g f r) ->
    exists L, map fst L = spec pm pred c' (close_frame g) /\
      run st0 rel (tk :: rest) =
      prepend L (run (mkS (add_kids f (grown c' (close_frame g)) :: r) None SNone) (skipn (length L) rel) rest) /\
      Inv pm (add_kids f (grown c' (close_frame g)) :: r) /\
      (pm c' = true -> Forall (fun d => snd d = retained (mkS (f :: r) None SNone) + tree_size (close_frame g)) L).
  Proof.
    intros st0 tk g f r rel rest HI Hg Hk c' Hstep. unfold after_check, grown in *.
    assert (Hspec : spec pm pred c' (close_frame g) =
                    if pm c' then (if pred (close_frame g) then [close_frame g] else []) else []).
    { unfold close_frame. rewrite spec_unfold. destruct (pm c'); [reflexivity|].
      apply spec_kids_nonelem. exact Hk. }
    rewrite Hspec. destruct (pm c') eqn:Hpm.
    - destruct (finish_cand st0 tk g f r rel rest HI Hg Hpm Hstep) as (L & EL & RL & SL).
      exists L. rewrite add_kids_nil. auto.
    - exists []. split; [reflexivity|].
      assert (Hpr : prune pm c' (close_frame g) = close_frame g).
      { unfold close_frame. rewrite prune_unfold, prune_kids_nonelem by exact Hk. reflexivity. }
      rewrite Hpr, prepend_nil. split; [|split; [|intro Habs; discriminate Habs]].
      + apply finish_plain. exact Hstep.
      + change (add_kids f [close_frame g]) with (add_kid f (close_frame g)).
        apply inv_add_kid; [exact HI|].
        change (node_name (close_frame g)) with (fname g). fold c'.
        unfold close_frame. rewrite has_match_unfold, Hpm, hm_kids_nonelem by exact Hk.
        apply andb_false_r.
  Qed.

  (* a container (object or array) whose node [g] has just been created and checked *)
  Lemma cont_finish : forall kd ms g f r rel rest ctok,
    Forall JRunP ms -> forallb jwf ms = true -> mode kd g -> elemf g -> f_kids g = [] ->
    Inv pm (f :: r) ->
    (forall g' s, step (mkS (g' :: f :: r) None s) ctok = wrap (mkS (g' :: f :: r) None s)) ->
    let c' := chain_of (f :: r) ++ [fname g] in
    let t := T ElementNode (f_data g) (f_fs g) (map (jkid kd) ms) in
    exists L, map fst L = spec pm pred c' t /\
      run (after_check c' g f r) rel (flat_map (jevents kd) ms ++ ctok :: rest) =
      prepend L (run (mkS (add_kids f (grown c' t) :: r) None SNone) (skipn (length L) rel) rest) /\
      Inv pm (add_kids f (grown c' t) :: r) /\
      (pm c' = true -> Forall (fun d => snd d = retained (mkS (f :: r) None SNone) + tree_size (t)) L).
  Proof.
    intros kd ms g f r rel rest ctok HF Hwf Hm Hg Hk HI Hc c' t. unfold after_check, grown.
    assert (Hspec : spec pm pred c' t =
                    if pm c' then (if pred t then [t] else []) else flat_map (jspec c' kd) ms).
    { unfold t. rewrite spec_unfold. destruct (pm c'); [reflexivity|]. apply spec_kids_jkid. }
    rewrite Hspec. destruct (pm c') eqn:Hpm.
    - (* candidate *)
      rewrite (jbuild_kids ms (all_JBuildP ms) Hwf kd g (f :: r) _ rel (ctok :: rest) Hm (le_n _)).
      set (g1 := add_kids g (map (jkid kd) ms)).
      assert (Hg1 : elemf g1) by exact Hg.
      change (length (g :: f :: r)) with (length (g1 :: f :: r)).
      destruct (finish_cand _ ctok g1 f r rel rest HI Hg1 Hpm (Hc g1 _)) as (L & EL & RL & SL).
      assert (Et : close_frame g1 = t).
      { unfold close_frame, g1, add_kids, t. cbn [f_ty f_data f_fs f_kids]. rewrite Hg, Hk. reflexivity. }
      rewrite Et in EL, SL. exists L. rewrite add_kids_nil. auto.
    - (* not on the path *)
      assert (Hgk : Forall (fun k => is_element k = false) (f_kids g)) by (rewrite Hk; constructor).
      assert (HI1 : Inv pm (g :: f :: r)) by (apply inv_push; assumption).
      assert (Hc1 : chain_of (g :: f :: r) = c').
      { destruct (inv_shape pm _ HI) as (f0 & fs0 & Hrev & _).
        rewrite (chain_of_push g (f :: r) f0 fs0 Hrev). reflexivity. }
      destruct (jrun_kids ms HF Hwf kd g (f :: r) rel (ctok :: rest) Hm HI1) as (L & EL & RL & IL).
      rewrite Hc1 in EL, RL, IL.
      set (g1 := add_kids g (flat_map (jgrow c' kd) ms)) in *.
      assert (Et : close_frame g1 = prune pm c' t).
      { unfold close_frame, g1, add_kids, t. cbn [f_ty f_data f_fs f_kids].
        rewrite prune_unfold, prune_kids_jkid, Hg, Hk. reflexivity. }
      exists L. split; [exact EL|]. split; [|split; [|intro Habs; discriminate Habs]].
      + rewrite RL. f_equal. rewrite (finish_plain _ ctok g1 f r _ rest (Hc g1 _)), Et. reflexivity.
      + change (add_kids f [prune pm c' t]) with (add_kid f (prune pm c' t)).
        apply inv_add_kid; [exact HI|].
        destruct (prune_hdr pm c' t) as [E1 E2]. rewrite E2.
        change (node_name t) with (fname g). fold c'.
        rewrite prune_clean by exact Hpm. apply andb_false_r.
  Qed.

  Lemma cc_after : forall g f r, Inv pm (f :: r) -> elemf g -> f_kids g = [] ->
    cc (mkS (g :: f :: r) None SNone) = after_check (chain_of (f :: r) ++ [fname g]) g f r.
  Proof.
    intros g f r HI Hg Hk. unfold after_check. apply cc_fresh; try assumption. rewrite Hk. constructor.
  Qed.

  Lemma jrun_node : forall j, JRunP j.
  Proof.
    induction j as [key tk|key ms IH|key ms IH] using jnode_ind2;
      intros keyed f r rel rest Hwf Hm HI; cbn [jwf] in Hwf.
    - (* scalar *)
      pose proof (jtext_scalar tk Hwf) as Htx.
      assert (Hne : Forall (fun k => is_element k = false) [jtext_or_null tk])
        by (constructor; [apply jtext_nonelem|constructor]).
      destruct keyed; cbn [jevents app mode] in *.
      + rewrite (run_cont _ _ _ _ _ (step_key f r _ key Hm)), cc_after by (try assumption; reflexivity).
        apply (leaf_finish _ tk (mkF ElementNode key (FJson J_PROP) [jtext_or_null tk]) f r rel rest HI eq_refl Hne).
        unfold after_check, PF. apply (step_prop_scalar key [] (f :: r) _ tk _ Htx).
      + apply (leaf_finish _ tk (mkF ElementNode [] (FJson J_PROP) [jtext_or_null tk]) f r rel rest HI eq_refl Hne).
        rewrite (step_arr_scalar _ _ _ _ _ Hm Htx), cc_after by (try assumption; reflexivity).
        reflexivity.
    - (* object *)
      destruct keyed; cbn [jevents app mode] in *; rewrite <- app_assoc; cbn [app].
      + rewrite (run_cont _ _ _ _ _ (step_key f r _ key Hm)), cc_after by (try assumption; reflexivity).
        unfold after_check, PF. rewrite (run_cont _ _ _ _ _ (step_prop_obj _ _ _ _)).
        exact (cont_finish true ms (mkF ElementNode key (FJson (N.lor J_PROP J_OBJ)) []) f r rel rest JCloseObj
                 IH Hwf eq_refl eq_refl eq_refl HI (fun g' s => eq_refl)).
      + rewrite (run_cont _ _ _ _ _ (step_arr_obj f r _ Hm)), cc_after by (try assumption; reflexivity).
        exact (cont_finish true ms (mkF ElementNode [] (FJson J_OBJ) []) f r rel rest JCloseObj
                 IH Hwf eq_refl eq_refl eq_refl HI (fun g' s => eq_refl)).
    - (* array *)
      destruct keyed; cbn [jevents app mode] in *; rewrite <- app_assoc; cbn [app].
      + rewrite (run_cont _ _ _ _ _ (step_key f r _ key Hm)), cc_after by (try assumption; reflexivity).
        unfold after_check, PF. rewrite (run_cont _ _ _ _ _ (step_prop_arr _ _ _ _)).
        exact (cont_finish false ms (mkF ElementNode key (FJson (N.lor J_PROP J_ARR)) []) f r rel rest JCloseArr
                 IH Hwf (conj eq_refl eq_refl) eq_refl eq_refl HI (fun g' s => eq_refl)).
      + rewrite (run_cont _ _ _ _ _ (step_arr_arr f r _ Hm)), cc_after by (try assumption; reflexivity).
        exact (cont_finish false ms (mkF ElementNode [] (FJson J_ARR) []) f r rel rest JCloseArr
                 IH Hwf (conj eq_refl eq_refl) eq_refl eq_refl HI (fun g' s => eq_refl)).
  Qed.

  Lemma all_JRunP : forall l, Forall JRunP l.
  Proof. induction l; constructor; [apply jrun_node|assumption]. Qed.

  (* ---- the root ------------------------------------------------------------------------------------ *)
  Definition rootf (flags : N) (kids : list tree) : frame := mkF DocumentNode [] (FJson flags) kids.

  Lemma cc_root : forall flags,
    cc (mkS [rootf flags []] None SNone) =
    mkS [rootf flags []] None (if pm [] then SOpen 1 else SNone).
  Proof.
    intro flags. unfold candidate_check. cbn [s_stream root_tree s_stack zip_up rootf f_ty f_data f_fs f_kids app].
    rewrite match_any_has_match, has_match_unfold. cbn [hm_kids]. rewrite orb_false_r.
    destruct (pm []); reflexivity.
  Qed.

  (* closing the root when it is the candidate / when it is not *)
  Lemma wrap_root_cand : forall g, pm [] = true ->
    wrap (mkS [g] None (SOpen 1)) =
    if pred (close_frame g)
    then RDeliver (close_frame g) (retained (mkS [] (Some (close_frame g)) (SOpen 1)))
                  (mkS [] (Some (close_frame g)) SClosed)
    else RCont (mkS [] None SNone).
  Proof.
    intros g Hp. unfold wrap_up. cbn [s_stack s_stream length Nat.eqb negb root_tree s_done next_child_pos rev map].
    rewrite match_node_lookup. cbn [lookup]. rewrite Hp. cbn [andb].
    assert (Hok : negb has_filter || pred (close_frame g) = pred (close_frame g)).
    { destruct has_filter eqn:Hf; [reflexivity|]. rewrite (Hnf eq_refl _). reflexivity. }
    rewrite Hok. destruct (pred (close_frame g)); reflexivity.
  Qed.

  Lemma root_end : forall st0 tk g rel,
    step st0 tk = wrap (mkS [g] None (if pm [] then SOpen 1 else SNone)) ->
    exists L, run st0 rel [tk] = (L, FEOF) /\
      map fst L = if pm [] then (if pred (close_frame g) then [close_frame g] else []) else [].
  Proof.
    intros st0 tk g rel Hstep. cbn [jrun]. rewrite Hstep.
    destruct (pm []) eqn:Hp.
    - rewrite (wrap_root_cand g Hp). destruct (pred (close_frame g)).
      + eexists [(_, _)]. split; [|reflexivity].
        destruct (hd false rel); reflexivity.
      + exists []. split; reflexivity.
    - exists []. split; reflexivity.
  Qed.

  Lemma root_container : forall flags kd ms ctok rel,
    forallb jwf ms = true -> mode kd (rootf flags []) ->
    (forall g s, step (mkS [g] None s) ctok = wrap (mkS [g] None s)) ->
    exists L, run (mkS [rootf flags []] None (if pm [] then SOpen 1 else SNone)) rel
                  (flat_map (jevents kd) ms ++ [ctok]) = (L, FEOF) /\
              map fst L = spec pm pred [] (T DocumentNode [] (FJson flags) (map (jkid kd) ms)).
  Proof.
    intros flags kd ms ctok rel Hwf Hm Hc. rewrite spec_unfold.
    destruct (pm []) eqn:Hp.
    - rewrite (jbuild_kids ms (all_JBuildP ms) Hwf kd (rootf flags []) [] 1 rel [ctok] Hm (le_n 1)).
      pose proof (root_end (mkS [add_kids (rootf flags []) (map (jkid kd) ms)] None (SOpen 1)) ctok
                    (add_kids (rootf flags []) (map (jkid kd) ms)) rel) as HR.
      rewrite Hp in HR. exact (HR (Hc _ _)).
    - assert (HI : Inv pm [rootf flags []]).
      { exists (rootf flags []), []. split; [reflexivity|]. split; [constructor|].
        cbn [downT rootf f_ty f_data f_fs f_kids opt_list app].
        rewrite has_match_unfold, Hp. reflexivity. }
      destruct (jrun_kids ms (all_JRunP ms) Hwf kd (rootf flags []) [] rel [ctok] Hm HI) as (L & EL & RL & _).
      change (chain_of [rootf flags []]) with (@nil name) in *.
      pose proof (root_end (mkS [add_kids (rootf flags []) (flat_map (jgrow [] kd) ms)] None SNone) ctok
                    (add_kids (rootf flags []) (flat_map (jgrow [] kd) ms)) (skipn (length L) rel)) as HR.
      rewrite Hp in HR. destruct (HR (Hc _ _)) as (L2 & R2 & E2).
      exists (L ++ L2). split.
      + rewrite RL, R2. reflexivity.
      + rewrite map_app, E2, app_nil_r, EL, spec_kids_jkid. reflexivity.
  Qed.

  Lemma json_stream_spec : forall j rel, jwf j = true ->
    exists L, run j_init rel (jdoc_events j) = (L, FEOF) /\
              map fst L = spec pm pred [] (jdoc_tree j).
  Proof.
    intros j rel Hwf. unfold jdoc_events, j_init.
    change (mkF DocumentNode [] (FJson 1) []) with (rootf 1 []).
    destruct j as [key tk|key ms|key ms]; cbn [jwf] in Hwf.
    - (* a scalar document *)
      pose proof (jtext_scalar tk Hwf) as Htx.
      cbn [jevents app jdoc_tree].
      assert (Hstep : step (mkS [rootf 1 []] None SNone) tk =
                      wrap (mkS [rootf 1 [jtext_or_null tk]] None (if pm [] then SOpen 1 else SNone))).
      { unfold jstep. cbn [s_stack].
        destruct tk; try discriminate Hwf; cbn [jtext jtext_or_null] in *; rewrite cc_root; reflexivity. }
      destruct (root_end _ tk _ rel Hstep) as (L & RL & EL).
      exists L. split; [exact RL|]. rewrite EL, spec_unfold.
      destruct (pm []); [reflexivity|].
      symmetry. apply spec_kids_nonelem. constructor; [apply jtext_nonelem|constructor].
    - (* an object document *)
      cbn [jevents app jdoc_tree].
      assert (Hstep : step (mkS [rootf 1 []] None SNone) JOpenObj = RCont (cc (mkS [rootf 3 []] None SNone)))
        by reflexivity.
      rewrite (run_cont _ _ _ _ _ Hstep), cc_root.
      exact (root_container 3 true ms JCloseObj rel Hwf eq_refl (fun g s => eq_refl)).
    - (* an array document *)
      cbn [jevents app jdoc_tree].
      assert (Hstep : step (mkS [rootf 1 []] None SNone) JOpenArr = RCont (cc (mkS [rootf 5 []] None SNone)))
        by reflexivity.
      rewrite (run_cont _ _ _ _ _ Hstep), cc_root.
      exact (root_container 5 false ms JCloseArr rel Hwf (conj eq_refl eq_refl) (fun g s => eq_refl)).
  Qed.
End JsonProof.

Theorem json_stream_eq_select_proof :
  forall (pm : list name -> bool) (pred : tree -> bool) (has_filter : bool),
    (has_filter = false -> forall t, pred t = true) ->
    forall j rel, jwf j = true ->
      exists L, jrun pm pred has_filter false j_init rel (jdoc_events j) = (L, FEOF) /\
                map fst L = whole_doc_selection pm pred (jdoc_tree j).
Proof.
  intros pm pred hf Hnf j rel Hwf.
  destruct (json_stream_spec pm pred hf Hnf j rel Hwf) as (L & H1 & H2).
  exists L. split; [exact H1|]. rewrite whole_doc_selection_is_spec. exact H2.
Qed.
