(* The pipeline theorems of Proofs/Pipeline.v with the evaluator hypotheses DISCHARGED by the C02
   evaluator (Model/Eval.v, Proofs/EvalCache.v): eval_cache_transparent, eval_id_renaming and
   eval_caches_sound are no longer assumptions here.
   Conversion world -> C02 setting:
     root tree  = T DocumentNode [] FNone (w_ctx ++ [w_rec])     (flat records under one parent)
     cursor     = [length w_ctx]                                 (the record: the root's last child)
     node IDs   = nid p := the (preorder index of p)-th element of w_ids
   The C02 evaluator has no evaluator-side caches besides the memo: the xpath engine and the
   custom functions (javascript among them) are deterministic Section variables there, so the
   cache state C of the pipeline is unit here (the JS / expression caches are the subject of the
   separate ingredients of Props/C13.v).
   C02's theorems need a well-formed declaration tree and pairwise distinct IDs; the instantiating
   evaluator checks both (decidable) and fails the record otherwise - on the worlds the pipeline
   builds and on the reference labelling the check passes (canon_world_ok). *)
From Coq Require Import String List ZArith NArith Bool Arith Lia.
Import ListNotations.
From OV Require Import Base.Bytes Base.Cases Base.Tree Model.Value Model.XPathFrag Model.Decl Model.Eval.
From OV Require Import Proofs.EvalCache Model.Pipeline Proofs.Pipeline.

(* ---- preorder index of a path --------------------------------------------------------------------- *)
Fixpoint kidx (f : tree -> option nat) (ks : list tree) (i off : nat) : option nat :=
  match ks with
  | [] => None
  | k :: ks' =>
      match i with
      | O => match f k with Some m => Some (off + m) | None => None end
      | S j => kidx f ks' j (off + tree_size k)
      end
  end.

Fixpoint pidx (p : path) (t : tree) {struct p} : option nat :=
  match p with
  | [] => Some 0
  | i :: r => kidx (pidx r) (t_kids t) i 1
  end.

Lemma tree_size_kids t : tree_size t = S (ctx_size (t_kids t)).
Proof. destruct t; reflexivity. Qed.

Lemma kidx_some f : forall ks i off n,
  kidx f ks i off = Some n ->
  exists k m, nth_error ks i = Some k /\ f k = Some m /\ n = off + ctx_size (firstn i ks) + m.
Proof.
  induction ks as [|k ks IH]; intros i off n E; simpl in E; [discriminate|].
  destruct i as [|j].
  - destruct (f k) as [m|] eqn:Ef; [|discriminate]. inversion E; subst.
    exists k, m. simpl. repeat split; auto; lia.
  - apply IH in E as (k' & m & Hn & Hf & ->). exists k', m. simpl. repeat split; auto; lia.
Qed.

Lemma kidx_of_some f : forall ks i off k m,
  nth_error ks i = Some k -> f k = Some m -> kidx f ks i off = Some (off + ctx_size (firstn i ks) + m).
Proof.
  induction ks as [|k0 ks IH]; intros [|j] off k m Hn Hf; simpl in *; try discriminate.
  - inversion Hn; subst. rewrite Hf. f_equal. lia.
  - rewrite (IH j _ k m Hn Hf). f_equal. lia.
Qed.

Lemma presize_le : forall (ks : list tree) i k,
  nth_error ks i = Some k -> ctx_size (firstn i ks) + tree_size k <= ctx_size ks.
Proof.
  induction ks as [|k0 ks IH]; intros [|j] k Hn; simpl in *; try discriminate.
  - inversion Hn; subst. lia.
  - specialize (IH j k Hn). lia.
Qed.

Lemma presize_lt : forall (ks : list tree) i j k,
  i < j -> nth_error ks i = Some k -> ctx_size (firstn i ks) + tree_size k <= ctx_size (firstn j ks).
Proof.
  induction ks as [|k0 ks IH]; intros [|i] [|j] k Hij Hn; simpl in *; try discriminate; try lia.
  - inversion Hn; subst. lia.
  - assert (i < j) by lia. specialize (IH i j k H Hn). lia.
Qed.

Lemma pidx_bound : forall p t n, pidx p t = Some n -> n < tree_size t.
Proof.
  induction p as [|i r IH]; intros t n E; simpl in E.
  - inversion E. rewrite tree_size_kids. lia.
  - apply kidx_some in E as (k & m & Hn & Hf & ->).
    apply IH in Hf. pose proof (presize_le _ _ _ Hn). rewrite tree_size_kids. lia.
Qed.

Lemma pidx_valid : forall p t, subtree t p <> None -> exists n, pidx p t = Some n.
Proof.
  induction p as [|i r IH]; intros t Hv; simpl in *.
  - eauto.
  - destruct (nth_error (t_kids t) i) as [k|] eqn:Hn; [|congruence].
    destruct (IH k Hv) as [m Hm]. eexists. eapply kidx_of_some; eauto.
Qed.

Lemma pidx_inj : forall p t q n, pidx p t = Some n -> pidx q t = Some n -> p = q.
Proof.
  induction p as [|i r IH]; intros t q n Ep Eq.
  - simpl in Ep. inversion Ep; subst. destruct q as [|j q']; [reflexivity|].
    simpl in Eq. apply kidx_some in Eq as (k & m & _ & _ & E); lia.
  - simpl in Ep. apply kidx_some in Ep as (k & m & Hn & Hf & ->).
    destruct q as [|j q'].
    + simpl in Eq. inversion Eq; lia.
    + simpl in Eq. apply kidx_some in Eq as (k' & m' & Hn' & Hf' & E).
      pose proof (pidx_bound _ _ _ Hf) as Hb. pose proof (pidx_bound _ _ _ Hf') as Hb'.
      destruct (Nat.lt_trichotomy i j) as [Hlt|[->|Hgt]].
      * pose proof (presize_lt _ _ _ _ Hlt Hn). lia.
      * rewrite Hn in Hn'. inversion Hn'; subst k'.
        assert (m = m') by lia. subst m'. f_equal. eapply IH; eauto.
      * pose proof (presize_lt _ _ _ _ Hgt Hn'). lia.
Qed.

(* ---- duplicate-freeness, decidable ------------------------------------------------------------------ *)
Fixpoint nodupN (l : list N) : bool :=
  match l with
  | [] => true
  | x :: r => negb (existsb (N.eqb x) r) && nodupN r
  end.

Lemma nodupN_spec l : nodupN l = true <-> NoDup l.
Proof.
  induction l as [|x r IH]; simpl; split; intro Hn; try constructor; auto.
  - apply andb_prop in Hn as [H1 H2]. apply negb_true_iff in H1.
    intro Hi. assert (existsb (N.eqb x) r = true); [|congruence].
    apply existsb_exists. exists x. split; [assumption|apply N.eqb_refl].
  - apply IH. apply andb_prop in Hn as [_ H2]. exact H2.
  - inversion Hn; subst. apply andb_true_intro. split.
    + apply negb_true_iff. destruct (existsb (N.eqb x) r) eqn:E; [|reflexivity].
      apply existsb_exists in E as (y & Hy & Hxy). apply N.eqb_eq in Hxy. subst. contradiction.
    + apply IH. assumption.
Qed.

Lemma NoDup_map_inj_on (f : N -> N) l :
  (forall x y, In x l -> In y l -> f x = f y -> x = y) -> NoDup l -> NoDup (map f l).
Proof.
  induction l as [|a l IH]; intros Hinj Hn; simpl; [constructor|].
  inversion Hn; subst. constructor.
  - intro Hi. apply in_map_iff in Hi as (y & Hy & Hyl).
    assert (y = a) by (apply Hinj; simpl; auto). subst. contradiction.
  - apply IH; auto. intros x y Hx Hy. apply Hinj; simpl; auto.
Qed.

Lemma NoDup_map_inv (f : N -> N) l : NoDup (map f l) -> NoDup l.
Proof.
  induction l as [|a l IH]; simpl; intro Hn; [constructor|].
  inversion Hn; subst. constructor; auto. intro Hi. apply H1. now apply in_map.
Qed.

(* ---- the instantiation ---------------------------------------------------------------------------------- *)
Definition root_of (w : world) : tree := T DocumentNode [] FNone (w_ctx w ++ [w_rec w]).
Definition cursor_of (w : world) : path := [length (w_ctx w)].
Definition nid_of (w : world) (p : path) : option N :=
  match pidx p (root_of w) with Some i => nth_error (w_ids w) i | None => None end.
Definition valid (t : tree) (p : path) : Prop := subtree t p <> None.

Definition world_ok (w : world) : bool :=
  nodupN (w_ids w) && Nat.eqb (length (w_ids w)) (tree_size (root_of w)).

Definition optN_eqb (a b : option N) : bool := opt_eqb N.eqb a b.

Lemma optN_eqb_sound a b : optN_eqb a b = true -> a = b.
Proof.
  destruct a, b; simpl; intro E; try discriminate; auto. apply N.eqb_eq in E. now subst.
Qed.

Lemma root_size w : tree_size (root_of w) = S (ctx_size (w_ctx w) + tree_size (w_rec w)).
Proof.
  unfold root_of. rewrite tree_size_kids. simpl. f_equal.
  induction (w_ctx w) as [|k ks IH]; simpl; [lia|]. unfold ctx_size in *. simpl. lia.
Qed.

Lemma cursor_valid w : valid (root_of w) (cursor_of w).
Proof.
  unfold valid, cursor_of, root_of. simpl.
  rewrite nth_error_app2 by lia. rewrite Nat.sub_diag. simpl. discriminate.
Qed.

Lemma root_of_rename f w : root_of (w_rename f w) = root_of w.
Proof. reflexivity. Qed.

Lemma w_ids_rename f w : w_ids (w_rename f w) = map f (w_ids w).
Proof. unfold w_ids, w_rename. simpl. now rewrite map_app. Qed.

(* pairwise distinct IDs, one per node => distinct nodes carry distinct IDs *)
Lemma nid_injective w : world_ok w = true ->
  forall p q, valid (root_of w) p -> valid (root_of w) q -> nid_of w p = nid_of w q -> p = q.
Proof.
  intros Hok p q Hp Hq E. unfold world_ok in Hok. apply andb_prop in Hok as [Hnd Hlen].
  apply nodupN_spec in Hnd. apply Nat.eqb_eq in Hlen.
  destruct (pidx_valid _ _ Hp) as [a Ha]. destruct (pidx_valid _ _ Hq) as [b Hb].
  unfold nid_of in E. rewrite Ha, Hb in E.
  pose proof (pidx_bound _ _ _ Ha) as Hba. pose proof (pidx_bound _ _ _ Hb) as Hbb.
  assert (a = b).
  { apply (proj1 (NoDup_nth_error (w_ids w)) Hnd); [lia|exact E]. }
  subst b. eapply pidx_inj; eauto.
Qed.

Definition res_opt (r : res) : option value :=
  match r with Ok v => Some v | Err | Panic => None end.

Section C02Inst.
  (* the xpath engine and the custom functions, as functions of the document they run on *)
  Variable query : tree -> bytes -> path -> option (list path).
  Variable ext : bytes -> option bytes.
  Variable fsigs : bytes -> option fsig.
  Variable fcall : tree -> bytes -> path -> list value -> cfres.
  Variable pcall : tree -> bytes -> path -> cfres.
  (* the engine returns nodes of the tree it was run on *)
  Hypothesis query_valid : forall root x p ps,
    valid root p -> query root x p = Some ps -> Forall (valid root) ps.

  Variable marshal : value -> option bytes.
  Variable marshal_err_cont : bool.
  Variable H : bytes -> bytes.
  Variable canon : tree -> bytes.

  (* transform.NewParseCtx(...).ParseNode(record, FINAL_OUTPUT) through the C02 evaluator *)
  Definition eval_c02 (memo_on : bool) (c : unit) (s : vdecl) (w : world) : option value * unit :=
    if wf_b true s && world_ok w then
      let root := root_of w in
      (res_opt (if memo_on
                then fst (eval_cached root (query root) ext fsigs (fcall root) (pcall root)
                                      optN_eqb (nid_of w) s (cursor_of w) [])
                else eval_nocache root (query root) ext fsigs (fcall root) (pcall root) s (cursor_of w)),
       tt)
    else (None, tt).

  Lemma top_in_subdecls (s : vdecl) : In s (subdecls s).
  Proof. destruct s. simpl. now left. Qed.

  Lemma c02_cache_transparent : forall c s w,
    fst (eval_c02 true c s w) = fst (eval_c02 false c s w).
  Proof.
    intros c s w. unfold eval_c02.
    destruct (wf_b true s) eqn:Hwf; simpl; [|reflexivity].
    destruct (world_ok w) eqn:Hok; simpl; [|reflexivity].
    f_equal.
    apply (eval_cache_transparent (root_of w) (query (root_of w)) ext fsigs (fcall (root_of w))
             (pcall (root_of w)) (valid (root_of w)) s (query_valid (root_of w)) Hwf
             (option N) optN_eqb (nid_of w) optN_eqb_sound (nid_injective w Hok)
             s (cursor_of w) (top_in_subdecls s) (cursor_valid w)).
  Qed.

  Lemma world_ok_rename (f : N -> N) w :
    (forall x y, In x (w_ids w) -> In y (w_ids w) -> f x = f y -> x = y) ->
    world_ok (w_rename f w) = world_ok w.
  Proof.
    intros Hinj. unfold world_ok. rewrite root_of_rename, w_ids_rename, map_length. f_equal.
    destruct (nodupN (w_ids w)) eqn:E.
    - apply nodupN_spec. apply NoDup_map_inj_on; auto. now apply nodupN_spec.
    - destruct (nodupN (map f (w_ids w))) eqn:E'; [|reflexivity].
      apply nodupN_spec, NoDup_map_inv, nodupN_spec in E'. congruence.
  Qed.

  Lemma c02_id_renaming : forall (f : N -> N) m s w,
    (forall x y, In x (w_ids w) -> In y (w_ids w) -> f x = f y -> x = y) ->
    fst (eval_c02 m tt s (w_rename f w)) = fst (eval_c02 m tt s w).
  Proof.
    intros f m s w Hinj. unfold eval_c02.
    rewrite (world_ok_rename f w Hinj).
    destruct (wf_b true s) eqn:Hwf; simpl; [|reflexivity].
    destruct (world_ok w) eqn:Hok; simpl; [|reflexivity].
    destruct m; [|reflexivity].
    f_equal. rewrite root_of_rename.
    assert (Hok' : world_ok (w_rename f w) = true) by (rewrite world_ok_rename; auto).
    apply (eval_id_renaming (root_of w) (query (root_of w)) ext fsigs (fcall (root_of w))
             (pcall (root_of w)) (valid (root_of w)) s (query_valid (root_of w)) Hwf
             (option N) (option N) optN_eqb optN_eqb (nid_of (w_rename f w)) (nid_of w)
             optN_eqb_sound optN_eqb_sound).
    - intros p q Hp Hq. apply (nid_injective (w_rename f w) Hok'); rewrite root_of_rename; assumption.
    - apply (nid_injective w Hok).
    - apply top_in_subdecls.
    - apply cursor_valid.
  Qed.

  (* no evaluator-side caches in the C02 evaluator: the cache invariant is trivial *)
  Definition CInv0 (_ : list N) (_ : unit) : Prop := True.
  Definition guard0 (_ : vdecl) : Prop := True.

  Lemma c02_caches_sound : forall used c m s w,
    CInv0 used c -> (forall i, In i (w_rec_ids w) -> ~ In i used) -> guard0 s ->
    fst (eval_c02 m c s w) = fst (eval_c02 m tt s w) /\ CInv0 (w_rec_ids w ++ used) (snd (eval_c02 m c s w)).
  Proof. intros used [] m s w _ _ _. split; [reflexivity|exact I]. Qed.

  (* in the shapes Proofs/Pipeline.v asks for (those carry a guard and a NoDup premise that the
     C02 instance does not need: its evaluator checks duplicate-freeness itself) *)
  Lemma c02_cache_transparent' : forall s w, guard0 s -> NoDup (w_ids w) ->
    fst (eval_c02 true tt s w) = fst (eval_c02 false tt s w).
  Proof. intros. apply c02_cache_transparent. Qed.
  Lemma c02_id_renaming' : forall (f : N -> N) m s w, guard0 s -> NoDup (w_ids w) ->
    (forall x y, In x (w_ids w) -> In y (w_ids w) -> f x = f y -> x = y) ->
    fst (eval_c02 m tt s (w_rename f w)) = fst (eval_c02 m tt s w).
  Proof. intros. now apply c02_id_renaming. Qed.
  Lemma c02_caches_sound' : forall used c m s w,
    CInv0 used c -> (forall i, In i (w_rec_ids w) -> ~ In i used) -> guard0 s -> NoDup (w_ids w) ->
    fst (eval_c02 m c s w) = fst (eval_c02 m tt s w) /\ CInv0 (w_rec_ids w ++ used) (snd (eval_c02 m c s w)).
  Proof. intros. now apply c02_caches_sound. Qed.

  Lemma c02_CInv_mono : forall used used' c,
    (forall x, In x used -> In x used') -> CInv0 used c -> CInv0 used' c.
  Proof. intros. exact I. Qed.

  (* the hidden state: any allocator state satisfying the allocator invariant, memo on or off *)
  Definition Inv0 (h : hid unit) : Prop := exists used, AInv used (h_alloc h).

  Lemma Inv0_Inv h : Inv0 h -> Inv unit CInv0 h.
  Proof. intros (used & Ha). exists used. split; [exact Ha|exact I]. Qed.

  Notation run_env_c02 := (run_env vdecl value unit eval_c02 marshal marshal_err_cont H canon).

  (* C13 with the C02 evaluator: node pool on / off / any contents / any sync.Pool schedule, any
     value of the ID counter, transform memo on / off - same results.  No evaluator hypothesis. *)
  Theorem caches_invisible_c02 : forall h h' s ctx us,
    Inv0 h -> Inv0 h' -> run_env_c02 h s ctx us = run_env_c02 h' s ctx us.
  Proof.
    intros h h' s ctx us Hh Hh'.
    apply (caches_invisible_env vdecl value unit tt eval_c02 marshal marshal_err_cont H canon CInv0 guard0
             c02_CInv_mono c02_cache_transparent' c02_id_renaming' c02_caches_sound');
      [apply Inv0_Inv; assumption|apply Inv0_Inv; assumption|exact I].
  Qed.

  (* C15 with the C02 evaluator: after any list of earlier transforms in the process *)
  Theorem run_deterministic_c02 : forall h h' hist s ctx us,
    Inv0 h -> Inv0 h' ->
    run_env_c02 (after_history vdecl value unit eval_c02 marshal marshal_err_cont H canon h hist) s ctx us
    = run_env_c02 h' s ctx us.
  Proof.
    intros h h' hist s ctx us Hh Hh'.
    apply (run_after_history vdecl value unit tt eval_c02 marshal marshal_err_cont H canon CInv0 guard0
             c02_CInv_mono c02_cache_transparent' c02_id_renaming' c02_caches_sound');
      [apply Inv0_Inv; assumption|apply Inv0_Inv; assumption| |exact I].
    apply Forall_forall. intros x _. exact I.
  Qed.

  (* C10 with the C02 evaluator *)
  Theorem run_app_c02 : forall h ha hb s ctx a b,
    Inv0 h -> Inv0 ha -> Inv0 hb ->
    nofatal (run_env_c02 ha s ctx a) ->
    run_env_c02 h s ctx (a ++ b) = run_env_c02 ha s ctx a ++ run_env_c02 hb s ctx b.
  Proof.
    intros h ha hb s ctx a b Hh Ha Hb Hn.
    apply (run_app vdecl value unit tt eval_c02 marshal marshal_err_cont H canon CInv0 guard0
             c02_CInv_mono c02_cache_transparent' c02_id_renaming' c02_caches_sound');
      try (apply Inv0_Inv; assumption); [exact I|exact Hn].
  Qed.

  (* the well-formedness check inside eval_c02 passes on the reference labelling, so the common
     value of all runs is the C02 evaluation of each record *)
  Lemma canon_world_ok ctx t : world_ok (canon_world ctx t) = true.
  Proof.
    unfold world_ok. apply andb_true_intro. split.
    - apply nodupN_spec, canon_world_NoDup.
    - apply Nat.eqb_eq. rewrite root_size. unfold w_ids, canon_world. simpl.
      rewrite app_length, !map_length, !seq_length. reflexivity.
  Qed.
End C02Inst.
