(* C19 proofs: epoch arithmetic of customfuncs/datetime.go is exact and invertible for every
   instant of years 1..9999 (no int64 wrap-around), and parseDateTime's zone logic keeps the
   instant (zone in the input) or the wall-clock reading (no zone). *)
From Coq Require Import ZArith List Bool Lia String.
Import ListNotations.
From OV Require Import Model.Int64 Gen.DateTime Model.Time.
Local Open Scope Z_scope.

(* ---- int64 ------------------------------------------------------------------------------------- *)
Lemma wrap64_id x : is_int64 x -> wrap64 x = x.
Proof.
  unfold is_int64, wrap64.
  change (2^63) with 9223372036854775808. change (2^64) with 18446744073709551616.
  intro H. rewrite Z.mod_small; lia.
Qed.

Ltac int64_const := unfold is_int64; change (2^63) with 9223372036854775808.

Definition instant_ok (t : instant) : Prop := 0 <= nsec t < NS.
Definition in_years_1_9999 (t : instant) : Prop := MIN_SEC <= sec t <= MAX_SEC /\ instant_ok t.

(* the bounds are the first and the last second of the proleptic Gregorian years 1 and 9999 *)
Lemma year_bounds :
  MIN_SEC = days_from_civil 1 1 1 * 86400 /\ MAX_SEC = days_from_civil 10000 1 1 * 86400 - 1.
Proof. split; reflexivity. Qed.

(* ---- instant -> epoch ------------------------------------------------------------------------- *)
Lemma epoch_seconds_exact t : to_epoch USecond t = sec t.
Proof. reflexivity. Qed.

Lemma nsec_ms_bounds ns : 0 <= ns < NS -> 0 <= ns / MS_NS <= 999.
Proof.
  unfold NS, MS_NS. intro H. split.
  - apply Z.div_pos; lia.
  - apply Z.lt_succ_r. apply Z.div_lt_upper_bound; lia.
Qed.

Lemma epoch_millis_exact t : in_years_1_9999 t ->
  to_epoch UMillisecond t = sec t * 1000 + nsec t / MS_NS.
Proof.
  intros [[Hlo Hhi] Hns]. unfold instant_ok in Hns. unfold MIN_SEC, MAX_SEC in *.
  pose proof (nsec_ms_bounds _ Hns) as Hm.
  unfold to_epoch, to_epoch_expr, add64, mul64, quot64.
  rewrite Z.quot_div_nonneg by (unfold MS_NS, NS in *; lia).
  rewrite (wrap64_id (sec t * 1000)) by (int64_const; lia).
  rewrite (wrap64_id (nsec t / MS_NS)) by (int64_const; lia).
  apply wrap64_id. int64_const. lia.
Qed.

(* ... which is the Unix time in milliseconds: floor of the nanosecond count / 10^6 *)
Lemma epoch_millis_is_floor t : in_years_1_9999 t ->
  to_epoch UMillisecond t = (sec t * NS + nsec t) / MS_NS.
Proof.
  intro H. rewrite (epoch_millis_exact t H). destruct H as [_ Hns]. unfold instant_ok in Hns.
  unfold NS, MS_NS in *.
  replace (sec t * 1000000000 + nsec t) with (nsec t + (sec t * 1000) * 1000000) by lia.
  rewrite Z.div_add by lia. lia.
Qed.

(* ---- epoch -> instant ------------------------------------------------------------------------- *)
(* time.Unix for a nanosecond argument of less than a second in absolute value *)
Lemma time_unix_small s ns :
  is_int64 (s - 1) -> is_int64 s -> - NS < ns < NS ->
  time_unix s ns = if ns <? 0 then mkI (s - 1) (ns + NS) else mkI s ns.
Proof.
  intros Hs1 Hs Hns. unfold time_unix, NS in *.
  destruct (ns <? 0) eqn:Hneg; simpl.
  - apply Z.ltb_lt in Hneg.
    assert (Hq : Z.quot ns 1000000000 = 0).
    { rewrite <- (Z.opp_involutive ns), Z.quot_opp_l by lia. rewrite Z.quot_small by lia. reflexivity. }
    unfold quot64, add64, sub64, mul64. rewrite Hq.
    rewrite (wrap64_id 0) by (int64_const; lia).
    rewrite Z.add_0_r, Z.mul_0_l, (wrap64_id 0) by (int64_const; lia).
    rewrite Z.sub_0_r.
    rewrite (wrap64_id ns) by (int64_const; lia).
    rewrite (wrap64_id s) by assumption.
    assert (Hlt : (ns <? 0) = true) by (apply Z.ltb_lt; lia). rewrite Hlt.
    rewrite (wrap64_id (s - 1)) by assumption.
    rewrite (wrap64_id (ns + 1000000000)) by (int64_const; lia). reflexivity.
  - apply Z.ltb_ge in Hneg.
    assert (Hge : (ns >=? 1000000000) = false) by (rewrite Z.geb_leb; apply Z.leb_gt; lia).
    rewrite Hge. reflexivity.
Qed.

Definition MIN_MS : Z := MIN_SEC * 1000.
Definition MAX_MS : Z := MAX_SEC * 1000 + 999.

(* Go's truncating / and % against floor division *)
Lemma quot_rem_floor n :
  (Z.rem n 1000 <? 0) = false /\ Z.quot n 1000 = n / 1000 /\ Z.rem n 1000 = n mod 1000
  \/ (Z.rem n 1000 <? 0) = true /\ Z.quot n 1000 = n / 1000 + 1 /\ Z.rem n 1000 = n mod 1000 - 1000
     /\ 0 < n mod 1000.
Proof.
  pose proof (Z.quot_rem' n 1000) as E.
  pose proof (Z.div_mod n 1000 ltac:(lia)) as E2.
  pose proof (Z.mod_pos_bound n 1000 ltac:(lia)) as B2.
  destruct (Z_lt_le_dec n 0) as [Hn|Hn].
  - pose proof (Z.rem_bound_pos_neg n 1000 ltac:(lia) ltac:(lia)) as B.
    destruct (Z.eq_dec (Z.rem n 1000) 0) as [Hz|Hnz].
    + left. rewrite Hz. split; [reflexivity|].
      assert (n / 1000 = Z.quot n 1000 /\ n mod 1000 = 0) as [-> ->]; [|split; reflexivity].
      { assert (Hd : 1000 * (Z.quot n 1000 - n / 1000) = n mod 1000) by lia. lia. }
    + right. assert (Hlt : (Z.rem n 1000 <? 0) = true) by (apply Z.ltb_lt; lia).
      split; [exact Hlt|].
      assert (Hd : 1000 * (Z.quot n 1000 - n / 1000 - 1) = n mod 1000 - 1000 - Z.rem n 1000) by lia.
      lia.
  - pose proof (Z.rem_bound_pos n 1000 Hn ltac:(lia)) as B.
    left. split; [apply Z.ltb_ge; lia|].
    assert (Hd : 1000 * (Z.quot n 1000 - n / 1000) = n mod 1000 - Z.rem n 1000) by lia.
    lia.
Qed.

Lemma from_epoch_seconds_exact n : from_epoch USecond n = mkI n 0.
Proof. reflexivity. Qed.

(* every millisecond count of years 1..9999, negative ones included, becomes the instant
   floor(n/1000) seconds + (n mod 1000) milliseconds *)
Lemma from_epoch_millis_exact n : MIN_MS <= n <= MAX_MS ->
  from_epoch UMillisecond n = mkI (n / 1000) (n mod 1000 * MS_NS).
Proof.
  unfold MIN_MS, MAX_MS, MIN_SEC, MAX_SEC. intro Hn.
  pose proof (Z.mod_pos_bound n 1000 ltac:(lia)) as B2.
  pose proof (Z.div_mod n 1000 ltac:(lia)) as E2.
  assert (Hq : -62135596800 <= n / 1000 <= 253402300799) by lia.
  unfold from_epoch, from_epoch_expr, quot64, rem64, mul64, MS_NS.
  destruct (quot_rem_floor n) as [(Hlt & Eq & Er) | (Hlt & Eq & Er & Hpos)]; rewrite Eq, Er.
  - rewrite (wrap64_id (n / 1000)) by (int64_const; lia).
    rewrite (wrap64_id (n mod 1000 * 1000000)) by (int64_const; lia).
    rewrite time_unix_small by (try (int64_const; lia); unfold NS; lia).
    assert (H0 : (n mod 1000 * 1000000 <? 0) = false) by (apply Z.ltb_ge; lia).
    rewrite H0. reflexivity.
  - rewrite (wrap64_id (n / 1000 + 1)) by (int64_const; lia).
    rewrite (wrap64_id ((n mod 1000 - 1000) * 1000000)) by (int64_const; lia).
    rewrite Er in Hlt. apply Z.ltb_lt in Hlt.
    rewrite time_unix_small by (try (int64_const; lia); unfold NS; lia).
    assert (H0 : ((n mod 1000 - 1000) * 1000000 <? 0) = true) by (apply Z.ltb_lt; lia).
    rewrite H0. unfold NS. f_equal; lia.
Qed.

Lemma from_epoch_millis_value n : MIN_MS <= n <= MAX_MS ->
  let i := from_epoch UMillisecond n in
  sec i * NS + nsec i = n * MS_NS /\ instant_ok i.
Proof.
  intro Hn. rewrite (from_epoch_millis_exact n Hn). simpl.
  pose proof (Z.mod_pos_bound n 1000 ltac:(lia)) as B2.
  pose proof (Z.div_mod n 1000 ltac:(lia)) as E2.
  unfold instant_ok, NS, MS_NS; simpl. lia.
Qed.

(* ---- the round trips ----------------------------------------------------------------------------- *)
Lemma epoch_roundtrip u t : in_years_1_9999 t ->
  from_epoch u (to_epoch u t) = trunc_unit u t.
Proof.
  intro H. destruct u; [reflexivity|].
  rewrite (epoch_millis_exact t H).
  destruct H as [[Hlo Hhi] Hns]. unfold instant_ok in Hns.
  pose proof (nsec_ms_bounds _ Hns) as Hm.
  assert (Hr : MIN_MS <= sec t * 1000 + nsec t / MS_NS <= MAX_MS)
    by (unfold MIN_MS, MAX_MS, MIN_SEC, MAX_SEC in *; lia).
  rewrite (from_epoch_millis_exact _ Hr). unfold trunc_unit.
  replace (sec t * 1000 + nsec t / MS_NS) with (nsec t / MS_NS + sec t * 1000) by lia.
  rewrite Z.div_add, Z.mod_add by lia.
  rewrite Z.div_small, Z.mod_small by lia. f_equal.
Qed.

Lemma epoch_roundtrip_inv u n :
  match u with USecond => True | UMillisecond => MIN_MS <= n <= MAX_MS end ->
  to_epoch u (from_epoch u n) = n.
Proof.
  destruct u; [reflexivity|]. intro Hn.
  pose proof (from_epoch_millis_exact n Hn) as E.
  pose proof (Z.mod_pos_bound n 1000 ltac:(lia)) as B2.
  pose proof (Z.div_mod n 1000 ltac:(lia)) as E2.
  rewrite E.
  assert (Hy : in_years_1_9999 (mkI (n / 1000) (n mod 1000 * MS_NS))).
  { unfold in_years_1_9999, instant_ok, MIN_MS, MAX_MS, MIN_SEC, MAX_SEC, NS, MS_NS in *; simpl. lia. }
  rewrite (epoch_millis_exact _ Hy). simpl. unfold MS_NS.
  rewrite Z.div_mul by lia. lia.
Qed.

(* regression witnesses for the arithmetic before the fix (F6b) *)
Lemma epoch_millis_refuted_old :
  old_to_epoch_ms (mkI 253402214400 0) = -4852202631933 /\
  to_epoch UMillisecond (mkI 253402214400 0) = 253402214400000.
Proof. split; vm_compute; reflexivity. Qed.

Lemma epoch_from_millis_refuted_old :
  old_from_epoch_ms 253402214400000 = mkI (-4852202632) 66277376 /\
  from_epoch UMillisecond 253402214400000 = mkI 253402214400 0.
Proof. split; vm_compute; reflexivity. Qed.

(* ---- zone logic ---------------------------------------------------------------------------------- *)
Section ZoneProofs.
  Variable off_of_instant : zone -> Z -> Z.
  Variable off_of_wall : zone -> Z -> Z.
  Notation parse_date_time := (parse_date_time off_of_instant off_of_wall).
  Notation wall_sec := (wall_sec off_of_instant).
  Notation off_at := (off_at off_of_instant).
  Notation rfc3339 := (rfc3339 off_of_instant).

  Definition tz_ok (a : tzarg) : Prop := a <> TzBad.
  Definition loc_after (toTZ : tzarg) (l : loc) : loc :=
    match toTZ with TzZone z => LZone z | _ => l end.

  (* input with zone: fromTZ is not even looked at *)
  Lemma from_tz_ignored_with_zone t fromTZ toTZ :
    parse_date_time (POk t true) fromTZ toTZ = parse_date_time (POk t true) TzEmpty toTZ.
  Proof. reflexivity. Qed.

  Lemma tz_logic_instant t fromTZ toTZ : tz_ok toTZ ->
    parse_date_time (POk t true) fromTZ toTZ
    = Some (mkG (g_sec t) (g_nsec t) (loc_after toTZ (g_loc t)), true).
  Proof.
    intro Hto. destruct t as [s n l]. destruct toTZ; try reflexivity. exfalso. apply Hto. reflexivity.
  Qed.

  Lemma tz_logic_wall t :
    parse_date_time (POk t false) TzEmpty TzEmpty = Some (t, false)
    /\ rfc3339 t false = ObsWall (wall_sec t).
  Proof. split; reflexivity. Qed.

  (* the instant time.Date gives the reading w in zone z *)
  Definition date_in (z : zone) (w : Z) : Z := w - off_of_wall z w.
  (* time.Date gave the reading the offset that is in force at the instant it returns; false
     only for readings inside a gap (clocks set forward), which time.Date normalises *)
  Definition date_consistent (z : zone) (w : Z) : Prop :=
    off_of_instant z (date_in z w) = off_of_wall z w.

  Lemma tz_from_only t z :
    parse_date_time (POk t false) (TzZone z) TzEmpty
    = Some (mkG (date_in z (wall_sec t)) (g_nsec t) (LZone z), true).
  Proof. reflexivity. Qed.

  Lemma tz_to_only t z :
    parse_date_time (POk t false) TzEmpty (TzZone z)
    = Some (mkG (date_in z (wall_sec t)) (g_nsec t) (LZone z), true).
  Proof. reflexivity. Qed.

  Lemma tz_from_to t zf zt :
    parse_date_time (POk t false) (TzZone zf) (TzZone zt)
    = Some (mkG (date_in zf (wall_sec t)) (g_nsec t) (LZone zt), true).
  Proof. reflexivity. Qed.

  Lemma overwrite_keeps_wall t z : date_consistent z (wall_sec t) ->
    wall_sec (mkG (date_in z (wall_sec t)) (g_nsec t) (LZone z)) = wall_sec t.
  Proof.
    intro H. unfold Time.wall_sec at 1. simpl. unfold date_consistent in H. rewrite H.
    unfold date_in. lia.
  Qed.

  Lemma tz_bad_is_error t h fromTZ :
    (h = false -> parse_date_time (POk t h) TzBad TzEmpty = None)
    /\ parse_date_time (POk t h) (if h then fromTZ else TzEmpty) TzBad = None.
  Proof. split; [intros ->; reflexivity|]. destruct h; reflexivity. Qed.

  (* the printed text: wall reading exact; the instant read back is exact iff the offset is a
     whole number of minutes *)
  Definition minute_aligned (off : Z) : Prop := Z.rem off 60 = 0.

  Lemma rfc3339_instant t :
    obs_instant (rfc3339 t true)
    = Some (g_sec t + Z.rem (off_at (g_loc t) (g_sec t)) 60).
  Proof.
    unfold Time.rfc3339, obs_instant, Time.wall_sec.
    pose proof (Z.quot_rem' (off_at (g_loc t) (g_sec t)) 60). f_equal. lia.
  Qed.

  Lemma rfc3339_instant_aligned t : minute_aligned (off_at (g_loc t) (g_sec t)) ->
    obs_instant (rfc3339 t true) = Some (g_sec t).
  Proof. intro H. rewrite rfc3339_instant. unfold minute_aligned in H. rewrite H. f_equal. lia. Qed.

  (* the text in full: wall reading exact; printed offset = the offset with its seconds part cut
     off toward zero (so sign, hours and minutes are the offset's) *)
  Lemma rfc3339_text_exact t :
    let off := off_at (g_loc t) (g_sec t) in
    rfc3339 t true = ObsZoned (g_sec t + off) (off - Z.rem off 60).
  Proof.
    intro off. unfold Time.rfc3339, Time.wall_sec. fold off.
    pose proof (Z.quot_rem' off 60). f_equal. lia.
  Qed.

  Lemma printed_offset_props off :
    let p := off - Z.rem off 60 in
    Z.abs (Z.rem off 60) < 60 /\ (0 <= off -> 0 <= p <= off) /\ (off <= 0 -> off <= p <= 0).
  Proof.
    intro p. subst p. split; [|split].
    - pose proof (Z.rem_bound_abs off 60 ltac:(lia)). lia.
    - intro H. pose proof (Z.rem_bound_pos off 60 H ltac:(lia)).
      pose proof (Z.rem_le off 60 H ltac:(lia)). lia.
    - intro H. pose proof (Z.rem_bound_pos_neg off 60 ltac:(lia) H).
      assert (Hn : 0 <= - off) by lia.
      pose proof (Z.rem_le (- off) 60 Hn ltac:(lia)) as Hl. rewrite Z.rem_opp_l in Hl by lia. lia.
  Qed.

  (* ---- parseDateTime (transcribed over the steps extracted from the source) is the decision table ---- *)
  Lemma parse_date_time_table t h fromTZ toTZ :
    parse_date_time (POk t h) fromTZ toTZ = interp off_of_instant off_of_wall t (decide h fromTZ toTZ).
  Proof. destruct t as [s n l]; destruct h, fromTZ, toTZ; reflexivity. Qed.

  (* the instant read back from the text is the input instant exactly when the offset is a whole
     number of minutes: minute_aligned is the failing class of F23, no more and no less *)
  Lemma rfc3339_instant_iff t :
    obs_instant (rfc3339 t true) = Some (g_sec t) <-> minute_aligned (off_at (g_loc t) (g_sec t)).
  Proof.
    rewrite rfc3339_instant. unfold minute_aligned. split.
    - intro H. injection H as H1. lia.
    - intro H. rewrite H. f_equal. lia.
  Qed.

  (* ---- the four functions ---- *)
  Notation date_time_to_rfc3339 := (date_time_to_rfc3339 off_of_instant off_of_wall).
  Notation date_time_layout_to_rfc3339 := (date_time_layout_to_rfc3339 off_of_instant off_of_wall).
  Notation date_time_to_epoch := (date_time_to_epoch off_of_instant off_of_wall).
  Notation epoch_to_date_time := (epoch_to_date_time off_of_instant).

  Lemma to_rfc3339_zoned t fromTZ toTZ : tz_ok toTZ ->
    let l := loc_after toTZ (g_loc t) in
    exists o, date_time_to_rfc3339 (Some (POk t true)) fromTZ toTZ = RVal o
      /\ obs_wall o = g_sec t + off_at l (g_sec t)
      /\ (minute_aligned (off_at l (g_sec t)) -> obs_instant o = Some (g_sec t)).
  Proof.
    intros Hto l. unfold Time.date_time_to_rfc3339. rewrite (tz_logic_instant t fromTZ toTZ Hto).
    eexists. split; [reflexivity|]. split; [reflexivity|].
    intro Ha. apply (rfc3339_instant_aligned (mkG (g_sec t) (g_nsec t) l)). exact Ha.
  Qed.

  Lemma layout_to_rfc3339_zoned t h fromTZ toTZ : tz_ok toTZ ->
    let l := loc_after toTZ (g_loc t) in
    exists o, date_time_layout_to_rfc3339 (Some (POk t h)) false (LtzBool true) fromTZ toTZ = RVal o
      /\ obs_wall o = g_sec t + off_at l (g_sec t)
      /\ (minute_aligned (off_at l (g_sec t)) -> obs_instant o = Some (g_sec t)).
  Proof.
    intros Hto l. subst l.
    destruct toTZ; try (exfalso; apply Hto; reflexivity);
      (eexists; split; [reflexivity|]; split; [reflexivity|]; intro Ha;
       apply (rfc3339_instant_aligned (mkG (g_sec t) (g_nsec t) _)); exact Ha).
  Qed.

  (* without the guard: the result is Go's own RFC3339 text of the instant in the result zone, and
     the instant it denotes is off by exactly the seconds part of the offset - less than 60 s,
     toward the side the truncation goes; the printed offset never changes sign *)
  Lemma to_rfc3339_zoned_exact t fromTZ toTZ : tz_ok toTZ ->
    let off := off_at (loc_after toTZ (g_loc t)) (g_sec t) in
    date_time_to_rfc3339 (Some (POk t true)) fromTZ toTZ
      = RVal (ObsZoned (g_sec t + off) (off - Z.rem off 60))
    /\ obs_instant (ObsZoned (g_sec t + off) (off - Z.rem off 60)) = Some (g_sec t + Z.rem off 60)
    /\ Z.abs (Z.rem off 60) < 60
    /\ (0 <= off -> 0 <= off - Z.rem off 60 <= off) /\ (off <= 0 -> off <= off - Z.rem off 60 <= 0).
  Proof.
    intros Hto off. split.
    - unfold Time.date_time_to_rfc3339. rewrite (tz_logic_instant t fromTZ toTZ Hto).
      f_equal. apply (rfc3339_text_exact (mkG (g_sec t) (g_nsec t) (loc_after toTZ (g_loc t)))).
    - split; [simpl; f_equal; lia|]. apply printed_offset_props.
  Qed.

  Notation interp := (interp off_of_instant off_of_wall).

  (* dateTimeLayoutToRFC3339 with a layout: layoutTZ alone decides whether the parsed reading
     carries a zone - whatever the parser itself found in the text *)
  Lemma layout_table t h b fromTZ toTZ :
    date_time_layout_to_rfc3339 (Some (POk t h)) false (LtzBool b) fromTZ toTZ
    = match interp t (decide b fromTZ toTZ) with
      | None => RError
      | Some (t', h') => RVal (rfc3339 t' h')
      end.
  Proof.
    unfold Time.date_time_layout_to_rfc3339. cbn [negb]. rewrite parse_date_time_table. reflexivity.
  Qed.

  Lemma layout_table_no_flag t h fromTZ toTZ :
    date_time_layout_to_rfc3339 (Some (POk t h)) false LtzEmpty fromTZ toTZ
    = date_time_layout_to_rfc3339 (Some (POk t h)) false (LtzBool false) fromTZ toTZ.
  Proof. reflexivity. Qed.

  Lemma smart_table t h fromTZ toTZ :
    date_time_to_rfc3339 (Some (POk t h)) fromTZ toTZ
    = match interp t (decide h fromTZ toTZ) with
      | None => RError
      | Some (t', h') => RVal (rfc3339 t' h')
      end.
  Proof. unfold Time.date_time_to_rfc3339. rewrite parse_date_time_table. reflexivity. Qed.

  Lemma to_rfc3339_instant_iff t fromTZ toTZ : tz_ok toTZ ->
    let l := loc_after toTZ (g_loc t) in
    forall o, date_time_to_rfc3339 (Some (POk t true)) fromTZ toTZ = RVal o ->
      (obs_instant o = Some (g_sec t) <-> minute_aligned (off_at l (g_sec t))).
  Proof.
    intros Hto l o H. unfold Time.date_time_to_rfc3339 in H.
    rewrite (tz_logic_instant t fromTZ toTZ Hto) in H. inversion H as [H1]. clear H H1.
    apply (rfc3339_instant_iff (mkG (g_sec t) (g_nsec t) l)).
  Qed.

  Lemma to_rfc3339_no_zone t :
    date_time_to_rfc3339 (Some (POk t false)) TzEmpty TzEmpty = RVal (ObsWall (wall_sec t)).
  Proof. reflexivity. Qed.

  Lemma to_epoch_zoned t fromTZ u :
    date_time_to_epoch (Some (POk t true)) fromTZ (Some u) = RVal (to_epoch u (mkI (g_sec t) (g_nsec t))).
  Proof. destruct t; reflexivity. Qed.

  Lemma to_epoch_from_only t z u :
    date_time_to_epoch (Some (POk t false)) (TzZone z) (Some u)
    = RVal (to_epoch u (mkI (date_in z (wall_sec t)) (g_nsec t))).
  Proof. reflexivity. Qed.

  Lemma epoch_to_date_time_value n u tz l :
    match tz with [] => l = LUTC | [Some z] => l = LZone z | _ => False end ->
    epoch_to_date_time (Some (Some n)) (Some u) tz
    = RVal (rfc3339 (mkG (sec (from_epoch u n)) (nsec (from_epoch u n)) l) true).
  Proof.
    destruct tz as [|[z|] [|? ?]]; try contradiction; intros ->; reflexivity.
  Qed.

  Lemma epoch_to_date_time_exact n u tz l :
    match tz with [] => l = LUTC | [Some z] => l = LZone z | _ => False end ->
    let s := sec (from_epoch u n) in
    let off := off_at l s in
    epoch_to_date_time (Some (Some n)) (Some u) tz = RVal (ObsZoned (s + off) (off - Z.rem off 60)).
  Proof.
    intros Htz s off. rewrite (epoch_to_date_time_value n u tz l Htz). f_equal.
    apply (rfc3339_text_exact (mkG (sec (from_epoch u n)) (nsec (from_epoch u n)) l)).
  Qed.

  (* EpochToDateTimeRFC3339 inverts DateTimeToEpoch: the text denotes the instant truncated to
     the second (RFC3339 text carries no fraction), in any zone with whole-minute offset *)
  Lemma epoch_inverts t fromTZ u tz l :
    in_years_1_9999 (mkI (g_sec t) (g_nsec t)) ->
    match tz with [] => l = LUTC | [Some z] => l = LZone z | _ => False end ->
    minute_aligned (off_at l (g_sec t)) ->
    exists n o, date_time_to_epoch (Some (POk t true)) fromTZ (Some u) = RVal n
      /\ epoch_to_date_time (Some (Some n)) (Some u) tz = RVal o
      /\ obs_instant o = Some (g_sec t).
  Proof.
    intros Hy Htz Hal. rewrite to_epoch_zoned. eexists. eexists. split; [reflexivity|].
    rewrite (epoch_to_date_time_value _ u tz l Htz). split; [reflexivity|].
    rewrite (epoch_roundtrip u _ Hy).
    assert (Hs : sec (trunc_unit u (mkI (g_sec t) (g_nsec t))) = g_sec t) by (destruct u; reflexivity).
    rewrite rfc3339_instant. simpl. rewrite Hs.
    unfold minute_aligned in Hal. rewrite Hal. f_equal. lia.
  Qed.

  Lemma empty_in_empty_out fromTZ toTZ u le ltzv tz :
    date_time_to_rfc3339 None fromTZ toTZ = REmpty
    /\ date_time_to_epoch None fromTZ u = REmpty
    /\ epoch_to_date_time None u tz = REmpty
    /\ ((le = true \/ ltzv <> LtzBad) -> date_time_layout_to_rfc3339 None le ltzv fromTZ toTZ = REmpty).
  Proof.
    repeat split. intros [-> | Hl]; [reflexivity|].
    unfold Time.date_time_layout_to_rfc3339. destruct le; [reflexivity|]. simpl.
    destruct ltzv; try reflexivity. contradiction.
  Qed.

  (* the guard of the last clause is needed: ParseBool is consulted first *)
  Lemma layout_empty_input_bad_flag fromTZ toTZ :
    date_time_layout_to_rfc3339 None false LtzBad fromTZ toTZ = RError.
  Proof. reflexivity. Qed.

  Lemma unparsable_is_error fromTZ toTZ u le ltzv tz :
    date_time_to_rfc3339 (Some PErr) fromTZ toTZ = RError
    /\ date_time_to_epoch (Some PErr) fromTZ u = RError
    /\ epoch_to_date_time (Some None) u tz = RError
    /\ date_time_layout_to_rfc3339 (Some PErr) le ltzv fromTZ toTZ = RError.
  Proof.
    repeat split.
    - destruct tz as [|a [|b r]]; reflexivity.
    - unfold Time.date_time_layout_to_rfc3339. destruct le; simpl; [reflexivity|].
      destruct ltzv; reflexivity.
  Qed.
End ZoneProofs.

(* The instant is NOT preserved by the RFC3339 text when the zone's offset has a seconds part
   (local mean time before standard time: America/New_York is -4:56:02 until 1883). *)
Lemma rfc3339_submin_refuted :
  exists (off_of_instant : zone -> Z -> Z) (t : gotime),
    obs_instant (rfc3339 off_of_instant t true) <> Some (g_sec t).
Proof.
  exists (fun _ _ => -17762), (mkG (-5364644638) 0 (LZone 1%N)).
  vm_compute. discriminate.
Qed.

(* ---- through a schema: a strict member given unparsable input fails the record -------------- *)
Lemma strict_error_fails_record ms1 ms2 :
  record_outcome (ms1 ++ (false, RError) :: ms2) = None.
Proof.
  induction ms1 as [|[ig r] ms1 IH]; simpl.
  - reflexivity.
  - rewrite IH. destruct (member_outcome ig r); reflexivity.
Qed.

Lemma record_outcome_some ms :
  (forall ig r, In (ig, r) ms -> ig = true \/ r <> RError) ->
  record_outcome ms = Some (map (fun m => match snd m with RVal _ => true | _ => false end) ms).
Proof.
  induction ms as [|[ig r] ms IH]; intro H; simpl; [reflexivity|].
  rewrite IH by (intros ig' r' Hin; apply (H ig' r'); right; exact Hin).
  destruct (H ig r (or_introl eq_refl)) as [-> | Hr]; destruct r as [[]| |]; try reflexivity.
  contradiction.
Qed.

(* ---- facts read from the source by the extractor (Gen/DateTime.v) ------------------------------ *)
Lemma extracted_units :
  unit_of_string "SECOND"%string = Some USecond /\ unit_of_string "MILLISECOND"%string = Some UMillisecond
  /\ unit_of_string ""%string = None /\ unit_of_string "second"%string = None /\ unit_of_string "MINUTE"%string = None
  /\ epoch_default_zone = "UTC"%string.
Proof. repeat split; reflexivity. Qed.

Lemma unit_of_string_total s :
  unit_of_string s = Some USecond /\ s = "SECOND"%string
  \/ unit_of_string s = Some UMillisecond /\ s = "MILLISECOND"%string
  \/ unit_of_string s = None.
Proof.
  unfold unit_of_string.
  destruct (String.eqb s "MILLISECOND"%string) eqn:E1.
  - right; left. apply String.eqb_eq in E1. split; [reflexivity | exact E1].
  - destruct (String.eqb s "SECOND"%string) eqn:E2.
    + left. apply String.eqb_eq in E2. split; [reflexivity | exact E2].
    + right; right. reflexivity.
Qed.

