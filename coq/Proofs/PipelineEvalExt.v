(* The C02 evaluator depends on the custom-function oracle only through its values: two oracles
   that agree pointwise give the same memo-free denotation (peval), hence - by C02's
   caches_invisible_eval - the same cached and uncached evaluations.  Needed to compose the
   JavaScript layer (whose answers are tabulated per record) with the evaluator. *)
From Coq Require Import String List ZArith NArith Bool Lia.
Import ListNotations.
From OV Require Import Base.Bytes Base.Cases Base.Tree Gen.Conv Model.Value Model.XPathFrag Model.Decl Model.Eval.
From OV Require Import Proofs.EvalPure Proofs.EvalCache.

Section Ext.
  Variable root : tree.
  Variable query : bytes -> path -> option (list path).
  Variable ext : bytes -> option bytes.
  Variable fsigs : bytes -> option fsig.
  Variable fcall fcall' : bytes -> path -> list value -> cfres.
  Variable pcall : bytes -> path -> cfres.
  Hypothesis Hf : forall n p a, fcall n p a = fcall' n p a.

  Definition xd_eq (a b : option pev) : Prop :=
    match a, b with
    | Some e, Some e' => forall p, e p = e' p
    | None, None => True
    | _, _ => False
    end.

  Definition pc_eq (c c' : pcomp) : Prop :=
    pc_info c = pc_info c' /\ (forall p, pc_ev c p = pc_ev c' p) /\ xd_eq (pc_xdyn c) (pc_xdyn c').

  Definition kids_eq (cs cs' : list (bytes * pcomp)) : Prop :=
    Forall2 (fun a b => fst a = fst b /\ pc_eq (snd a) (snd b)) cs cs'.

  Lemma compute_xpath_ext i xd xd' p : xd_eq xd xd' -> p_compute_xpath i xd p = p_compute_xpath i xd' p.
  Proof.
    intros H. unfold p_compute_xpath. destruct (static_xpath i); [reflexivity|].
    destruct xd, xd'; simpl in H; try contradiction; [now rewrite H|reflexivity].
  Qed.

  Lemma query_single_ext i xd xd' p : xd_eq xd xd' -> p_query_single query i xd p = p_query_single query i xd' p.
  Proof. intros H. unfold p_query_single. now rewrite (compute_xpath_ext i xd xd' p H). Qed.

  Lemma anchored_ext i xd xd' body body' p :
    xd_eq xd xd' -> (forall n, body n = body' n) -> p_anchored query i xd body p = p_anchored query i xd' body' p.
  Proof.
    intros H Hb. unfold p_anchored. rewrite (query_single_ext i xd xd' p H).
    destruct (p_query_single query i xd' p); auto.
  Qed.

  Lemma object_loop_ext : forall cs cs', kids_eq cs cs' ->
    forall n obj, p_object_loop cs n obj = p_object_loop cs' n obj.
  Proof.
    induction 1 as [|[k c] [k' c'] cs cs' [Hk (Hi & He & _)] _ IH]; intros n obj; simpl in *; [reflexivity|].
    subst k'. rewrite He, Hi. destruct (pc_ev c' n); auto.
    destruct (norm_of (pc_info c') v); auto.
  Qed.

  Lemma nodes_loop_ext c c' : pc_eq c c' ->
    forall ns acc, p_nodes_loop c ns acc = p_nodes_loop c' ns acc.
  Proof.
    intros (Hi & He & _). induction ns as [|n r IH]; intros acc; simpl; [reflexivity|].
    rewrite He, Hi. destruct (pc_ev c' n); auto. destruct (norm_of (pc_info c') v); auto.
  Qed.

  Lemma array_loop_ext : forall cs cs', kids_eq cs cs' ->
    forall p acc, p_array_loop query cs p acc = p_array_loop query cs' p acc.
  Proof.
    induction 1 as [|[k c] [k' c'] cs cs' [Hk Hc] _ IH]; intros p acc; simpl in *; [reflexivity|].
    pose proof Hc as (Hi & He & Hx). rewrite Hi. rewrite (compute_xpath_ext (pc_info c') _ _ p Hx).
    destruct (p_compute_xpath (pc_info c') (pc_xdyn c') p); auto.
    destruct (match_all query x p); auto.
    rewrite (nodes_loop_ext c c' Hc). destruct (p_nodes_loop c' l acc); auto.
  Qed.

  Lemma args_loop_ext s : forall cs cs', kids_eq cs cs' ->
    forall i n acc, p_args_loop s cs i n acc = p_args_loop s cs' i n acc.
  Proof.
    induction 1 as [|[k c] [k' c'] cs cs' [Hk (Hi & He & _)] _ IH]; intros i n acc; simpl in *; [reflexivity|].
    rewrite He. destruct (pc_ev c' n); auto. destruct (arg_type s i); auto.
    destruct (is_nil v); auto. destruct (assignable v g); auto.
  Qed.

  Lemma kids_eq_length cs cs' : kids_eq cs cs' -> length cs = length cs'.
  Proof. induction 1; simpl; auto. Qed.

  Lemma invoke_ext i cs cs' n : kids_eq cs cs' -> p_invoke fsigs fcall i cs n = p_invoke fsigs fcall' i cs' n.
  Proof.
    intros H. unfold p_invoke. destruct (p_fname (e_pub i)); auto. destruct (fsigs b); auto.
    rewrite (kids_eq_length cs cs' H). destruct (_ || _); auto.
    rewrite (args_loop_ext f cs cs' H). destruct (p_args_loop f cs' 0 n []); auto. now rewrite Hf.
  Qed.

  Lemma dispatch_ext i xd xd' cs cs' p : xd_eq xd xd' -> kids_eq cs cs' ->
    p_dispatch root query ext fsigs fcall pcall i xd cs p = p_dispatch root query ext fsigs fcall' pcall i xd' cs' p.
  Proof.
    intros Hx Hc. unfold p_dispatch. destruct (p_kind (e_pub i)); auto.
    - apply anchored_ext; auto.
    - apply anchored_ext; auto. intros n. now rewrite (object_loop_ext cs cs' Hc).
    - now rewrite (array_loop_ext cs cs' Hc).
    - apply anchored_ext; auto. intros n. now rewrite (invoke_ext i cs cs' n Hc).
    - apply anchored_ext; auto.
  Qed.

  Lemma pcompile_ext : forall d,
    pc_eq (pcompile root query ext fsigs fcall pcall d) (pcompile root query ext fsigs fcall' pcall d).
  Proof.
    induction d as [i x ks IHx IHk] using vdecl_ind2. simpl.
    assert (Hxd : xd_eq (match x with Some q => Some (pc_ev (pcompile root query ext fsigs fcall pcall q)) | None => None end)
                        (match x with Some q => Some (pc_ev (pcompile root query ext fsigs fcall' pcall q)) | None => None end)).
    { destruct x as [q|]; simpl in *; [|exact I]. destruct IHx as (_ & He & _). exact He. }
    assert (Hks : kids_eq (map (fun c => (kid_key (p_kind (v_pub i)) c, pcompile root query ext fsigs fcall pcall c)) ks)
                          (map (fun c => (kid_key (p_kind (v_pub i)) c, pcompile root query ext fsigs fcall' pcall c)) ks)).
    { induction IHk as [|k r Hk _ IHr]; simpl; constructor; auto. }
    split; [reflexivity|]. split; [|exact Hxd]. simpl. intros p. apply dispatch_ext; assumption.
  Qed.

  Theorem peval_ext d p :
    peval root query ext fsigs fcall pcall d p = peval root query ext fsigs fcall' pcall d p.
  Proof. unfold peval. apply (pcompile_ext d). Qed.
End Ext.
