(* Proofs about Model/Stream.v, part 4: removeLastFilterInXPath / removeTrailingFiltersInXPath on
   the concrete syntax of the property's class of targets. *)
From Coq Require Import List NArith Bool Arith Lia String.
From Coq.Strings Require Import Byte.
Import ListNotations.
From OV Require Import Base.Bytes Base.Cases Base.Tree Model.Stream.

(* characters the backward scan reacts to *)
Definition plain (c : byte) : bool :=
  negb (Byte.eqb c Q1 || Byte.eqb c Q2 || Byte.eqb c LB || Byte.eqb c RB).
Definition name_char (c : byte) : bool := plain c && negb (is_ws c).

(* well-formed pieces of a target of the class *)
Definition name_ok (n : bytes) : Prop := n <> [] /\ forallb name_char n = true.
Definition qname_ok (n : name) : Prop := (fst n = [] \/ name_ok (fst n)) /\ name_ok (snd n).
Definition nt_ok (nt : nametest) : Prop :=
  match nt with NTAny => True | NTName p l => qname_ok (p, l) end.
(* a string literal can be written iff it does not contain both kinds of quote *)
Definition value_ok (v : bytes) : Prop :=
  existsb (Byte.eqb Q1) v && existsb (Byte.eqb Q2) v = false.
Fixpoint pexp_ok (p : pexp) : Prop :=
  match p with
  | PChildEq nt v | PDescEq nt v => nt_ok nt /\ value_ok v
  | PAttrEq a v => qname_ok a /\ value_ok v
  | PSelfEq v | PTextEq v => value_ok v
  | PHasChild nt => nt_ok nt
  | PHasAttr a => qname_ok a
  | PChildPred nt q => nt_ok nt /\ pexp_ok q
  | PAttrEqChild a nt => qname_ok a /\ nt_ok nt
  | PChildPosEq nt _ v => nt_ok nt /\ value_ok v
  | PCount nt _ => nt_ok nt
  | PAnd a b | POr a b => pexp_ok a /\ pexp_ok b
  | PNot a => pexp_ok a
  end.
Definition target_ok (tg : target) : Prop :=
  Forall (fun s => nt_ok (snd s)) (t_steps tg) /\ Forall pexp_ok (t_filters tg).

(* ---- the backward scan ---------------------------------------------------------------------------- *)
Lemma scan_plain : forall l rest b, forallb plain l = true ->
  rlf_scan (l ++ rest) b None = rlf_scan rest b None.
Proof.
  induction l as [|c l IH]; intros rest b H; [reflexivity|].
  cbn [forallb] in H. apply andb_prop in H as [Hc Hl].
  cbn [app rlf_scan]. unfold plain in Hc. apply negb_true_iff in Hc.
  apply orb_false_iff in Hc as [Hc H4]. apply orb_false_iff in Hc as [Hc H3].
  apply orb_false_iff in Hc as [H1 H2]. rewrite H1, H2, H3, H4. cbn [orb]. apply IH. exact Hl.
Qed.

Lemma scan_inquote : forall l q rest b, existsb (Byte.eqb q) l = false ->
  rlf_scan (l ++ q :: rest) b (Some q) = rlf_scan rest b None.
Proof.
  induction l as [|c l IH]; intros q rest b H.
  - cbn [app rlf_scan]. rewrite Byte.byte_dec_lb by reflexivity. reflexivity.
  - cbn [existsb] in H. apply orb_false_iff in H as [Hc Hl].
    cbn [app rlf_scan].
    assert (E : Byte.eqb c q = false).
    { destruct (Byte.eqb c q) eqn:E; [|reflexivity]. apply Byte.byte_dec_bl in E. subst.
      rewrite Byte.byte_dec_lb in Hc by reflexivity. discriminate. }
    rewrite E. apply IH. exact Hl.
Qed.

Lemma existsb_rev : forall (f : byte -> bool) l, existsb f (rev l) = existsb f l.
Proof.
  intros f l. induction l as [|c l IH]; [reflexivity|]. cbn [rev existsb].
  rewrite existsb_app, IH. cbn [existsb]. rewrite orb_false_r, orb_comm. reflexivity.
Qed.
Lemma forallb_rev : forall (f : byte -> bool) l, forallb f (rev l) = forallb f l.
Proof.
  intros f l. induction l as [|c l IH]; [reflexivity|]. cbn [rev forallb].
  rewrite forallb_app, IH. cbn [forallb]. rewrite andb_true_r, andb_comm. reflexivity.
Qed.

Lemma scan_quoted : forall v rest b, value_ok v ->
  rlf_scan (rev (quote v) ++ rest) b None = rlf_scan rest b None.
Proof.
  intros v rest b Hv. unfold quote. unfold value_ok in Hv.
  destruct (existsb (Byte.eqb Q1) v) eqn:E1.
  - cbn [andb] in Hv.
    change (Q2 :: v ++ [Q2]) with ([Q2] ++ v ++ [Q2]).
    rewrite !rev_app_distr. cbn [rev app]. rewrite <- app_assoc. cbn [app rlf_scan].
    change (Byte.eqb Q2 Q1 || Byte.eqb Q2 Q2) with true. cbn iota.
    apply scan_inquote. rewrite existsb_rev. exact Hv.
  - change (Q1 :: v ++ [Q1]) with ([Q1] ++ v ++ [Q1]).
    rewrite !rev_app_distr. cbn [rev app]. rewrite <- app_assoc. cbn [app rlf_scan].
    change (Byte.eqb Q1 Q1 || Byte.eqb Q1 Q2) with true. cbn iota.
    apply scan_inquote. rewrite existsb_rev. exact E1.
Qed.

Lemma name_ok_plain : forall n, name_ok n -> forallb plain n = true.
Proof.
  intros n [_ H]. apply forallb_forall. intros c Hc.
  rewrite forallb_forall in H. specialize (H c Hc). unfold name_char in H.
  apply andb_prop in H as [H _]. exact H.
Qed.

Lemma render_name_plain : forall n, qname_ok n -> forallb plain (render_name n) = true.
Proof.
  intros [p l] [Hp Hl]. unfold render_name. cbn [fst snd] in *.
  destruct p as [|c p]; [apply name_ok_plain; exact Hl|].
  destruct Hp as [Hp|Hp]; [discriminate Hp|].
  rewrite !forallb_app, (name_ok_plain _ Hp), (name_ok_plain _ Hl). reflexivity.
Qed.

Lemma render_nt_plain : forall nt, nt_ok nt -> forallb plain (render_nt nt) = true.
Proof. intros [|p l] H; [reflexivity|]. apply render_name_plain. exact H. Qed.

Lemma scan_rev_plain : forall l rest b, forallb plain l = true ->
  rlf_scan (rev l ++ rest) b None = rlf_scan rest b None.
Proof. intros. apply scan_plain. rewrite forallb_rev. exact H. Qed.

(* a rendered predicate is transparent to the scan: brackets balance, quotes close *)
Lemma digit_plain : forall n, forallb plain (digit n) = true.
Proof. intro n. do 5 (destruct n as [|n]; [reflexivity|]). reflexivity. Qed.

Lemma scan_wrap : forall c p rest b,
  (forall rest' b', rlf_scan (rev (render_pexp p) ++ rest') (S b') None = rlf_scan rest' (S b') None) ->
  rlf_scan (rev (wrap_paren c (render_pexp p)) ++ rest) (S b) None = rlf_scan rest (S b) None.
Proof.
  intros c p rest b IH. destruct c; cbn [wrap_paren]; [|apply IH].
  rewrite !rev_app_distr, <- !app_assoc.
  rewrite scan_rev_plain by reflexivity. rewrite IH. apply scan_rev_plain. reflexivity.
Qed.

Lemma scan_pexp : forall p rest b, pexp_ok p ->
  rlf_scan (rev (render_pexp p) ++ rest) (S b) None = rlf_scan rest (S b) None.
Proof.
  induction p as [nt v|a v|v|v|nt v|nt|a|nt q IH|a nt|nt i v|nt n|p1 IH1 p2 IH2|p1 IH1 p2 IH2|p1 IH1];
    intros rest b Hok; cbn [render_pexp pexp_ok] in *;
    rewrite ?rev_app_distr, <- ?app_assoc.
  - destruct Hok as [H1 H2]. rewrite scan_quoted by exact H2.
    rewrite scan_rev_plain by reflexivity. apply scan_rev_plain, render_nt_plain, H1.
  - destruct Hok as [H1 H2]. rewrite scan_quoted by exact H2.
    rewrite scan_rev_plain by reflexivity. rewrite scan_rev_plain by (apply render_name_plain, H1).
    apply scan_rev_plain. reflexivity.
  - rewrite scan_quoted by exact Hok. apply scan_rev_plain. reflexivity.
  - rewrite scan_quoted by exact Hok. apply scan_rev_plain. reflexivity.
  - destruct Hok as [H1 H2]. rewrite scan_quoted by exact H2.
    rewrite scan_rev_plain by reflexivity. rewrite scan_rev_plain by (apply render_nt_plain, H1).
    apply scan_rev_plain. reflexivity.
  - apply scan_rev_plain, render_nt_plain, Hok.
  - rewrite scan_rev_plain by (apply render_name_plain, Hok). apply scan_rev_plain. reflexivity.
  - destruct Hok as [H1 H2].
    (* "]" q "[" nt, read backwards *)
    change (rev (bs "]")) with [RB]. change (rev (bs "[")) with [LB].
    cbn [app rlf_scan]. change (Byte.eqb RB Q1 || Byte.eqb RB Q2) with false.
    change (Byte.eqb RB LB) with false. change (Byte.eqb RB RB) with true. cbn iota.
    rewrite (IH _ (S b) H2). cbn [app rlf_scan].
    change (Byte.eqb LB Q1 || Byte.eqb LB Q2) with false. change (Byte.eqb LB LB) with true. cbn iota.
    cbn [pred]. apply scan_rev_plain, render_nt_plain, H1.
  - destruct Hok as [H1 H2].
    rewrite scan_rev_plain by (apply render_nt_plain, H2). rewrite scan_rev_plain by reflexivity.
    rewrite scan_rev_plain by (apply render_name_plain, H1). apply scan_rev_plain. reflexivity.
  - destruct Hok as [H1 H2]. rewrite scan_quoted by exact H2.
    (* "]=" i "[" nt, read backwards *)
    change (rev (bs "]=")) with (bs "=" ++ [RB]). change (rev (bs "[")) with [LB].
    rewrite <- app_assoc. rewrite scan_plain by reflexivity.
    cbn [app rlf_scan]. change (Byte.eqb RB Q1 || Byte.eqb RB Q2) with false.
    change (Byte.eqb RB LB) with false. change (Byte.eqb RB RB) with true. cbn iota.
    rewrite scan_rev_plain by apply digit_plain. cbn [app rlf_scan].
    change (Byte.eqb LB Q1 || Byte.eqb LB Q2) with false. change (Byte.eqb LB LB) with true. cbn iota.
    cbn [pred]. apply scan_rev_plain, render_nt_plain, H1.
  - rewrite scan_rev_plain by apply digit_plain. rewrite scan_rev_plain by reflexivity.
    rewrite scan_rev_plain by (apply render_nt_plain, Hok). apply scan_rev_plain. reflexivity.
  - destruct Hok as [H1 H2].
    rewrite (scan_wrap _ p2) by (intros; apply IH2; exact H2).
    rewrite scan_rev_plain by reflexivity.
    apply (scan_wrap _ p1). intros; apply IH1; exact H1.
  - destruct Hok as [H1 H2].
    rewrite (scan_wrap _ p2) by (intros; apply IH2; exact H2).
    rewrite scan_rev_plain by reflexivity.
    apply (scan_wrap _ p1). intros; apply IH1; exact H1.
  - rewrite scan_rev_plain by reflexivity. rewrite IH1 by exact Hok.
    apply scan_rev_plain. reflexivity.
Qed.

(* stripping one trailing predicate *)
Lemma remove_last_filter_one : forall y p, pexp_ok p ->
  remove_last_filter (y ++ bs "[" ++ render_pexp p ++ bs "]") = y.
Proof.
  intros y p Hp. unfold remove_last_filter.
  rewrite !rev_app_distr. change (rev (bs "]")) with [RB]. change (rev (bs "[")) with [LB].
  cbn [app]. change (Byte.eqb RB RB) with true. cbn iota.
  rewrite <- app_assoc. rewrite (scan_pexp p _ 0 Hp). cbn [app rlf_scan].
  change (Byte.eqb LB Q1 || Byte.eqb LB Q2) with false. change (Byte.eqb LB LB) with true. cbn iota.
  apply rev_involutive.
Qed.

(* the path part: ends with a name character, "*" or "." *)
Definition ends_plainly (x : bytes) : Prop :=
  exists y c, x = y ++ [c] /\ is_ws c = false /\ Byte.eqb c RB = false.

Lemma trim_right_ends : forall y c, is_ws c = false -> trim_right (y ++ [c]) = y ++ [c].
Proof.
  intros. unfold trim_right. rewrite rev_app_distr. cbn [rev app drop_ws]. rewrite H.
  change (c :: rev y) with ([c] ++ rev y). rewrite rev_app_distr, rev_involutive. reflexivity.
Qed.

Lemma remove_last_filter_plain : forall x, ends_plainly x -> remove_last_filter x = x.
Proof.
  intros x (y & c & -> & _ & Hc). unfold remove_last_filter. rewrite rev_app_distr. cbn [rev app].
  rewrite Hc. reflexivity.
Qed.

Lemma name_ends : forall pre n, name_ok n -> ends_plainly (pre ++ n).
Proof.
  intros pre n [Hne Hall].
  destruct (exists_last Hne) as (y & c & ->). exists (pre ++ y), c. split; [apply app_assoc|].
  rewrite forallb_app in Hall. apply andb_prop in Hall as [_ Hc]. cbn [forallb] in Hc.
  rewrite andb_true_r in Hc. unfold name_char in Hc. apply andb_prop in Hc as [Hp Hw].
  split; [apply negb_true_iff; exact Hw|].
  unfold plain in Hp. apply negb_true_iff in Hp. apply orb_false_iff in Hp as [_ Hp]. exact Hp.
Qed.

Lemma render_nt_ends : forall pre nt, nt_ok nt -> ends_plainly (pre ++ render_nt nt).
Proof.
  intros pre [|p l] H.
  - exists pre, x2a. repeat split.
  - destruct H as [Hp Hl]. cbn [fst snd] in *. cbn [render_nt]. unfold render_name. cbn [fst snd].
    destruct p as [|c p]; [apply name_ends; exact Hl|].
    rewrite !app_assoc. apply name_ends. exact Hl.
Qed.

Lemma render_steps_ends : forall steps, Forall (fun s => nt_ok (snd s)) steps ->
  ends_plainly (render_steps steps).
Proof.
  intros steps H. destruct steps as [|s0 steps]; [exists [], x2e; repeat split|].
  unfold render_steps. remember (s0 :: steps) as l eqn:El.
  assert (Hne : l <> []) by (subst; discriminate). clear El s0 steps.
  destruct (exists_last Hne) as (l' & s & ->).
  rewrite flat_map_app. cbn [flat_map]. rewrite app_nil_r.
  apply Forall_app in H as [_ Hs]. inversion Hs as [|? ? Hs1 _]; subst.
  destruct l' as [|a l']; cbn [app]; rewrite ?app_assoc; apply render_nt_ends; exact Hs1.
Qed.

Lemma bytes_eqb_refl : forall x, bytes_eqb x x = true.
Proof. intro. apply bytes_eqb_eq. reflexivity. Qed.

Lemma bytes_eqb_shorter : forall y z, z <> [] -> bytes_eqb y (y ++ z) = false.
Proof.
  intros y z Hz. destruct (bytes_eqb y (y ++ z)) eqn:E; [|reflexivity].
  apply bytes_eqb_eq in E. rewrite <- (app_nil_r y) in E at 1. apply app_inv_head in E.
  symmetry in E. contradiction.
Qed.

Lemma render_filters_snoc : forall fs p,
  render_filters (fs ++ [p]) = render_filters fs ++ bs "[" ++ render_pexp p ++ bs "]".
Proof. intros. unfold render_filters. rewrite flat_map_app. cbn [flat_map]. rewrite app_nil_r. reflexivity. Qed.

(* the loop of removeTrailingFiltersInXPath strips all of them *)
Lemma rtf_filters : forall fs fuel base,
  ends_plainly base -> Forall pexp_ok fs -> List.length fs < fuel ->
  rtf fuel (base ++ render_filters fs) = Some base.
Proof.
  induction fs as [|p fs IH] using rev_ind; intros fuel base Hb Hok Hfuel.
  - cbn [render_filters flat_map]. rewrite app_nil_r.
    destruct fuel as [|n]; [inversion Hfuel|]. cbn [rtf].
    destruct Hb as (y & c & -> & Hw & Hc).
    rewrite trim_right_ends by exact Hw.
    rewrite remove_last_filter_plain by (exists y, c; auto).
    rewrite bytes_eqb_refl. reflexivity.
  - apply Forall_app in Hok as [Hfs Hp]. inversion Hp as [|? ? Hp1 _]; subst.
    rewrite app_length in Hfuel. cbn [List.length] in Hfuel.
    destruct fuel as [|n]; [inversion Hfuel|]. cbn [rtf].
    rewrite render_filters_snoc.
    set (y := base ++ render_filters fs).
    assert (Ex : base ++ render_filters fs ++ bs "[" ++ render_pexp p ++ bs "]"
                 = (y ++ bs "[" ++ render_pexp p) ++ [RB]).
    { unfold y. rewrite <- !app_assoc. reflexivity. }
    rewrite Ex, trim_right_ends by reflexivity.
    replace ((y ++ bs "[" ++ render_pexp p) ++ [RB]) with (y ++ bs "[" ++ render_pexp p ++ bs "]")
      by (rewrite <- !app_assoc; reflexivity).
    rewrite remove_last_filter_one by exact Hp1.
    rewrite bytes_eqb_shorter by discriminate.
    apply IH; [exact Hb|exact Hfs|lia].
Qed.

Lemma render_filters_length : forall fs, 2 * List.length fs <= List.length (render_filters fs).
Proof.
  induction fs as [|p fs IH]; [simpl; lia|].
  change (render_filters (p :: fs)) with ((bs "[" ++ render_pexp p ++ bs "]") ++ render_filters fs).
  rewrite !app_length. change (List.length (bs "[")) with 1. change (List.length (bs "]")) with 1.
  cbn [List.length]. lia.
Qed.

Theorem split_filter_sound_proof : forall tg, target_ok tg ->
  split_filter (render_target tg) =
  Some (render_steps (t_steps tg), negb (match t_filters tg with [] => true | _ => false end)).
Proof.
  intros [steps fs] [Hs Hf]. cbn [t_steps t_filters] in *.
  unfold split_filter, remove_trailing_filters, render_target. cbn [t_steps t_filters].
  rewrite (rtf_filters fs _ (render_steps steps) (render_steps_ends _ Hs) Hf).
  - f_equal. f_equal. destruct fs as [|p fs].
    + cbn [render_filters flat_map]. rewrite app_nil_r, bytes_eqb_refl. reflexivity.
    + assert (E : bytes_eqb (render_steps steps ++ render_filters (p :: fs)) (render_steps steps) = false).
      { destruct (bytes_eqb _ _) eqn:E; [|reflexivity]. apply bytes_eqb_eq in E.
        rewrite <- (app_nil_r (render_steps steps)) in E at 2. apply app_inv_head in E. discriminate E. }
      rewrite E. reflexivity.
  - rewrite app_length. pose proof (render_filters_length fs). lia.
Qed.
