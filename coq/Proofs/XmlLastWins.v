(* C08 proofs, XML half, part 3: namespace prefixes under the weaker guard lastwins_ok.

   xml_dom_built_lw: for every document inside ns_wf and lastwins_ok - at every element and
   prefixed attribute the reader's document-wide, last-declaration-wins URI->prefix map holds
   the prefix written at that node - the reader builds the reference DOM xdom_doc.  This covers
   documents that legitimately re-bind a URI to another prefix in an inner (or later) scope and
   use the new prefix there; uri_single_prefix (Proofs/XmlScope.v) excludes them.  The documents
   outside lastwins_ok are exactly the known class F11.
   The proof threads the EXACT map: after the declarations of a start tag the reader's map is
   lw_declare m attrs (update_ns_eq), so the guard's lookups are the reader's lookups. *)
From Coq Require Import List NArith Bool Lia.
From Coq.Strings Require Import Byte.
Import ListNotations.
From OV Require Import Base.Bytes Base.Cases Base.Tree Model.Json Model.Xml Proofs.Xml Proofs.XmlScope.

Definition lw_kids (env : smap) : list xnode -> smap -> bool -> bool * smap :=
  fix go ks m ok :=
    match ks with
    | [] => (ok, m)
    | k :: r => let '(b, m1) := lw_node env m k in go r m1 (ok && b)
    end.

Lemma lw_node_elem env m p l attrs kids :
  lw_node env m (XElem p l attrs kids) =
  let env' := push_decls env attrs in
  let m' := lw_declare m attrs in
  lw_kids env' kids m' (lw_use m' env' p && forallb (lw_attr m' env') attrs).
Proof. reflexivity. Qed.

Lemma lw_kids_acc env ks : forall m ok,
  lw_kids env ks m ok = (ok && fst (lw_kids env ks m true), snd (lw_kids env ks m true)).
Proof.
  induction ks as [|k r IH]; intros m ok.
  - simpl. rewrite andb_true_r. reflexivity.
  - simpl. destruct (lw_node env m k) as [b m1]. rewrite (IH m1 (ok && b)), (IH m1 b).
    simpl. rewrite andb_assoc. reflexivity.
Qed.

Lemma lw_kids_cons env k r m :
  lw_kids env (k :: r) m true =
  (fst (lw_node env m k) && fst (lw_kids env r (snd (lw_node env m k)) true),
   snd (lw_kids env r (snd (lw_node env m k)) true)).
Proof.
  simpl. destruct (lw_node env m k) as [b m1]. simpl. rewrite lw_kids_acc. reflexivity.
Qed.

Lemma opt_eqb_some m u p : opt_eqb bytes_eqb (slookup m u) (Some p) = true -> slookup m u = Some p.
Proof.
  destruct (slookup m u) as [q|]; simpl; [|discriminate]. intro H. apply bytes_eqb_true in H. congruence.
Qed.

Lemma lw_use_lookup m env p :
  lw_use m env p = true -> is_nil (scope_uri env p) = false -> slookup m (scope_uri env p) = Some p.
Proof. unfold lw_use. intros H Hn. rewrite Hn in H. simpl in H. apply opt_eqb_some. exact H. Qed.

Section LastWins.
  Variable D : list (bytes * bytes).
  Hypothesis D_uri : forall p u, In (p, u) D -> bytes_eqb u b_xmlns = false.

  Lemma start_inv_lw m env attrs :
    map_sound D m -> env_ok D env -> incl (attr_decls attrs) D -> forallb decl_ok attrs = true ->
    map_sound D (lw_declare m attrs) /\ env_ok D (push_decls env attrs).
  Proof.
    intros Hs He Hin Hd. rewrite push_decls_eq. unfold lw_declare. split.
    - intros u p H. rewrite slookup_app in H.
      destruct (slookup (rev (map (fun d => (snd d, fst d)) (attr_decls attrs))) u) as [v|] eqn:E; [|exact (Hs u p H)].
      inversion H; subst. apply slookup_in, in_rev, in_map_iff in E as ([p' u'] & Hsw & Hd').
      simpl in Hsw. inversion Hsw; subst. exact (Hin _ Hd').
    - split.
      + rewrite slookup_app.
        destruct (slookup (rev (attr_decls attrs)) xml_url) as [v|] eqn:E; [|exact (proj1 He)].
        apply slookup_in, in_rev in E. apply (decl_prefix_ok attrs Hd) in E.
        rewrite bytes_eqb_rfl in E. discriminate.
      + intros p u Hp Hu. rewrite slookup_app in Hp.
        destruct (slookup (rev (attr_decls attrs)) p) as [v|] eqn:E.
        * inversion Hp; subst. apply slookup_in, in_rev in E. exact (Hin _ E).
        * exact (proj2 He p u Hp Hu).
  Qed.

  Lemma elem_specific_lw m env p l :
    env_ok D env -> bytes_eqb p b_xmlns = false ->
    (if is_nil p then negb (bytes_eqb l b_xmlns) else pfx_bound env p) = true ->
    lw_use m env p = true ->
    xml_specific m ElementNode (translate env p l true) = Some (p, scope_uri env p).
  Proof.
    intros He E1 Hn Hlw. destruct (is_nil p) eqn:E2.
    - apply is_nil_true in E2. subst p. apply negb_true_iff in Hn.
      rewrite (translate_unpref env l Hn). unfold xml_specific.
      destruct (is_nil (scope_uri env [])) eqn:E3.
      + apply is_nil_true in E3. rewrite E3. reflexivity.
      + rewrite (lw_use_lookup m env [] Hlw E3). reflexivity.
    - destruct (translate_pref env p l true E1 E2 Hn (proj1 He)) as (Ht & Hu & _).
      rewrite Ht. unfold xml_specific. rewrite Hu, (lw_use_lookup m env p Hlw Hu). reflexivity.
  Qed.

  Lemma attr_specific_lw m env a :
    map_sound D m -> env_ok D env ->
    decl_ok a = true -> attr_use_ok env a = true -> lw_attr m env a = true ->
    exists p u, xml_specific m AttributeNode (translate env (xa_pfx a) (xa_loc a) false) = Some (p, u)
                /\ xdom_attr env a = T AttributeNode (xa_loc a) (FXml p u) [xtext (xa_val a)].
  Proof.
    intros Hs He Hd Hu Hlw. unfold xdom_attr, attr_use_ok, lw_attr in *.
    destruct (bytes_eqb (xa_pfx a) b_xmlns) eqn:E1.
    - exists b_xmlns, []. split; [|reflexivity].
      unfold translate. rewrite E1. apply bytes_eqb_true in E1. rewrite E1.
      unfold xml_specific. simpl is_nil. cbv iota. rewrite (no_xmlns_uri D D_uri m Hs). reflexivity.
    - destruct (is_nil (xa_pfx a)) eqn:E2.
      + exists [], []. split; [|reflexivity].
        unfold translate. rewrite E1, E2. simpl. apply is_nil_true in E2. rewrite E2. reflexivity.
      + apply andb_prop in Hu as [Hb Hl].
        destruct (translate_pref env (xa_pfx a) (xa_loc a) false E1 E2 Hb (proj1 He)) as (Ht & Hn & _).
        exists (xa_pfx a), (scope_uri env (xa_pfx a)). split; [|reflexivity].
        rewrite Ht. unfold xml_specific. rewrite Hn, (lw_use_lookup m env _ Hlw Hn). reflexivity.
  Qed.

  Lemma attr_nodes_dom_lw m env attrs :
    map_sound D m -> env_ok D env ->
    forallb decl_ok attrs = true -> forallb (attr_use_ok env) attrs = true ->
    forallb (lw_attr m env) attrs = true ->
    attr_nodes m (map (tokattr env) attrs) = Some (map (xdom_attr env) attrs).
  Proof.
    intros Hs He. induction attrs as [|a r IH]; intros Hd Hu Hl; [reflexivity|].
    simpl in Hd, Hu, Hl. apply andb_prop in Hd as [Hd1 Hd2]. apply andb_prop in Hu as [Hu1 Hu2].
    apply andb_prop in Hl as [Hl1 Hl2].
    destruct (attr_specific_lw m env a Hs He Hd1 Hu1 Hl1) as (p & u & Hx & Hdom).
    simpl. rewrite Hx, (IH Hd2 Hu2 Hl2), Hdom. reflexivity.
  Qed.

  (* a node below the document element; the reader's map after it is the guard's map *)
  Definition NodeStmtLW (n : xnode) : Prop :=
    forall env m top below rest,
      node_wf env n = true -> incl (all_decls n) D ->
      map_sound D m -> env_ok D env -> below <> [] ->
      fst (lw_node env m n) = true ->
      xread (mkXS (top :: below) m (Some 2%nat)) (xtoks env n ++ rest)
      = xread (mkXS (xf_addl top (xdom env n) :: below) (snd (lw_node env m n)) (Some 2%nat)) rest
      /\ map_sound D (snd (lw_node env m n)).

  Lemma kids_run_lw kids :
    Forall NodeStmtLW kids ->
    forall env m top below rest e,
      forallb (node_wf env) kids = true -> incl (flat_map all_decls kids) D ->
      map_sound D m -> env_ok D env -> below <> [] ->
      fst (lw_kids env kids m true) = true ->
      xread (mkXS (top :: below) m (Some 2%nat)) (xkids_toks env e kids ++ rest)
      = xread (mkXS (xf_addl top (flat_map (xdom env) kids) :: below)
                    (snd (lw_kids env kids m true)) (Some 2%nat)) (e :: rest)
      /\ map_sound D (snd (lw_kids env kids m true)).
  Proof.
    induction 1 as [|k r Hk Hr IH]; intros env m top below rest e Hwf Hin Hs He Hb Hlw.
    - simpl. rewrite xf_addl_nil. split; [reflexivity|exact Hs].
    - simpl in Hwf. apply andb_prop in Hwf as [Hw1 Hw2].
      simpl in Hin. apply incl_app_inv in Hin as [Hin1 Hin2].
      rewrite lw_kids_cons in Hlw |- *. cbn [fst snd] in Hlw |- *.
      apply andb_prop in Hlw as [Hl1 Hl2].
      simpl xkids_toks. rewrite <- app_assoc.
      destruct (Hk env m top below (xkids_toks env e r ++ rest) Hw1 Hin1 Hs He Hb Hl1) as (E1 & Hs1).
      destruct (IH env (snd (lw_node env m k)) (xf_addl top (xdom env k)) below rest e Hw2 Hin2 Hs1 He Hb Hl2)
        as (E2 & Hs2).
      rewrite E1, E2, xf_addl_app. simpl flat_map. split; [reflexivity|exact Hs2].
  Qed.

  Lemma elem_to_end_lw p l attrs kids :
    Forall NodeStmtLW kids ->
    forall env m stack st rest,
      stack <> [] -> (st = Some 2%nat \/ (st = None /\ length stack = 1%nat)) ->
      node_wf env (XElem p l attrs kids) = true -> incl (all_decls (XElem p l attrs kids)) D ->
      map_sound D m -> env_ok D env ->
      fst (lw_node env m (XElem p l attrs kids)) = true ->
      let env' := push_decls env attrs in
      let sp := translate env' p l true in
      xread (mkXS stack m st) (xtoks env (XElem p l attrs kids) ++ rest)
      = xread (mkXS (mkXF ElementNode l p (scope_uri env' p)
                       (rev (flat_map (xdom env') kids) ++ rev (map (xdom_attr env') attrs)) :: stack)
                    (snd (lw_node env m (XElem p l attrs kids))) (Some 2%nat)) (XTEnd sp l :: rest)
      /\ map_sound D (snd (lw_node env m (XElem p l attrs kids))).
  Proof.
    intros Hkids env m stack st rest Hne Hst Hwf Hin Hs He Hlw env' sp.
    rewrite node_wf_elem in Hwf. fold env' in Hwf. cbv zeta in Hwf.
    repeat (apply andb_prop in Hwf as [Hwf ?]).
    rename H into Hwk, H0 into Hname, H1 into Hpx, H2 into Hau, Hwf into Hdk.
    apply negb_true_iff in Hpx.
    rewrite all_decls_elem in Hin. apply incl_app_inv in Hin as [Hin1 Hin2].
    destruct (start_inv_lw m env attrs Hs He Hin1 Hdk) as (Hs' & He'). fold env' in He'.
    rewrite lw_node_elem in Hlw |- *. fold env' in Hlw |- *. cbv zeta in Hlw |- *.
    set (m1 := lw_declare m attrs) in *.
    rewrite lw_kids_acc in Hlw |- *. cbn [fst snd] in Hlw |- *.
    apply andb_prop in Hlw as [Hl0 Hlk]. apply andb_prop in Hl0 as [Hle Hla].
    rewrite xtoks_elem. fold env'. cbv zeta. fold sp.
    rewrite <- app_comm_cons, xread_cons.
    unfold xstep. cbn [xs_map xs_stack xs_stream].
    rewrite (update_ns_eq D D_uri env' attrs He' Hdk Hau m).
    change (rev (map swap (attr_decls attrs)) ++ m) with m1.
    unfold sp at 1. rewrite (elem_specific_lw m1 env' p l He' Hpx Hname Hle).
    destruct stack as [|top below]; [contradiction|].
    rewrite (attr_nodes_dom_lw m1 env' attrs Hs' He' Hdk Hau Hla).
    assert (Est : match st with None => Some (length (mkXF ElementNode l p (scope_uri env' p) (rev (map (xdom_attr env') attrs)) :: top :: below)) | Some d => Some d end = Some 2%nat).
    { destruct Hst as [-> | [-> Hl]]; [reflexivity|]. simpl in Hl |- *. f_equal. lia. }
    rewrite Est.
    destruct (kids_run_lw kids Hkids env' m1
                (mkXF ElementNode l p (scope_uri env' p) (rev (map (xdom_attr env') attrs)))
                (top :: below) rest (XTEnd sp l) Hwk Hin2 Hs' He' ltac:(discriminate) Hlk) as (E2 & Hs2).
    rewrite E2. split; [reflexivity|exact Hs2].
  Qed.

  Lemma node_stmt_lw n : NodeStmtLW n.
  Proof.
    induction n as [p l attrs kids IH | s | ] using xnode_ind2;
      intros env m top below rest Hwf Hin Hs He Hb Hlw.
    - destruct (elem_to_end_lw p l attrs kids IH env m (top :: below) (Some 2%nat) rest
                  ltac:(discriminate) (or_introl eq_refl) Hwf Hin Hs He Hlw) as (E & Hs').
      rewrite E. split; [|exact Hs'].
      rewrite xread_cons. unfold xstep. cbn [xs_stack xs_stream xs_map].
      destruct below as [|b bs]; [contradiction|].
      cbn [length Nat.eqb]. rewrite dom_tree_closed, xdom_elem. reflexivity.
    - split; [reflexivity|exact Hs].
    - split; [simpl; rewrite xf_addl_nil; reflexivity|exact Hs].
  Qed.

  Lemma doc_run_lw d :
    forall docf,
      forallb (node_wf []) d = true -> incl (flat_map all_decls d) D -> has_elem d = true ->
      map_sound D lw_init -> lastwins_ok d = true ->
      exists e s' rest,
        xread (mkXS [docf] lw_init None) (flat_map (xtoks []) d)
        = (XRNode e (T (xf_ty docf) (xf_data docf) (FXml (xf_pfx docf) (xf_uri docf))
                       (rev (xf_kids docf) ++ xdom_items d)), s', rest)
        /\ In e (xdom_items d).
  Proof.
    assert (He0 : env_ok D []) by (split; [reflexivity|intros p u H; discriminate]).
    induction d as [|n r IH]; intros docf Hwf Hin Hel Hs Hlw; [discriminate|].
    simpl in Hwf. apply andb_prop in Hwf as [Hw1 Hw2].
    simpl in Hin. apply incl_app_inv in Hin as [Hin1 Hin2].
    destruct n as [p l attrs kids | s | ].
    - change (flat_map (xtoks []) (XElem p l attrs kids :: r))
        with (xtoks [] (XElem p l attrs kids) ++ flat_map (xtoks []) r).
      change (lastwins_ok (XElem p l attrs kids :: r)) with (fst (lw_node [] lw_init (XElem p l attrs kids))) in Hlw.
      destruct (elem_to_end_lw p l attrs kids
                  (proj2 (Forall_forall NodeStmtLW kids) (fun k _ => node_stmt_lw k))
                  [] lw_init [docf] None (flat_map (xtoks []) r)
                  ltac:(discriminate) (or_intror (conj eq_refl eq_refl)) Hw1 Hin1 Hs He0 Hlw)
        as (E & Hs').
      rewrite E. rewrite xread_cons. unfold xstep. cbn [xs_stack xs_stream xs_map length Nat.eqb last].
      rewrite dom_tree_closed.
      eexists _, _, _. split.
      + unfold xf_tree, xf_add. cbn [xf_ty xf_data xf_pfx xf_uri xf_kids]. simpl rev.
        change (xdom_items (XElem p l attrs kids :: r)) with (xdom [] (XElem p l attrs kids)).
        rewrite xdom_elem. reflexivity.
      + change (xdom_items (XElem p l attrs kids :: r)) with (xdom [] (XElem p l attrs kids)).
        rewrite xdom_elem. left. reflexivity.
    - change (flat_map (xtoks []) (XText s :: r)) with (XTChar s :: flat_map (xtoks []) r).
      rewrite xread_cons. unfold xstep. cbn [xs_stack xs_stream xs_map].
      destruct (IH (xf_add docf (xtext s)) Hw2 Hin2 Hel Hs Hlw) as (e & s' & rest & E & Hine).
      exists e, s', rest. rewrite E. split.
      + unfold xf_add. cbn [xf_ty xf_data xf_pfx xf_uri xf_kids]. simpl rev.
        rewrite <- app_assoc. reflexivity.
      + simpl. right. exact Hine.
    - change (flat_map (xtoks []) (XSkip :: r)) with (XTOther :: flat_map (xtoks []) r).
      rewrite xread_cons. unfold xstep.
      destruct (IH docf Hw2 Hin2 Hel Hs Hlw) as (e & s' & rest & E & Hine).
      exists e, s', rest. rewrite E. split; [reflexivity|exact Hine].
  Qed.
End LastWins.

Theorem xml_dom_built_lw d :
  ns_wf d = true -> lastwins_ok d = true -> has_elem d = true ->
  exists e, xbuild (xtokens d) = XRNode e (xdom_doc d) /\ In e (t_kids (xdom_doc d)).
Proof.
  intros Hwf Hlw Hel.
  set (D := doc_decls d).
  assert (D_uri : forall p u, In (p, u) D -> bytes_eqb u b_xmlns = false).
  { intros p u [H|H]; [inversion H; subst; reflexivity|].
    apply in_flat_map in H as (n & Hn & Hin). unfold ns_wf in Hwf. rewrite forallb_forall in Hwf.
    exact (wf_decl_uri n [] (Hwf n Hn) p u Hin). }
  destruct (doc_run_lw D D_uri d (mkXF DocumentNode [] [] [] [])) as (e & s' & rest & E & Hin);
    try assumption.
  - apply incl_tl, incl_refl.
  - intros u p H. unfold lw_init in H. simpl in H. destruct (bytes_eqb u xml_url) eqn:Eu; [|discriminate].
    inversion H; subst. apply bytes_eqb_true in Eu. subst. left. reflexivity.
  - exists e. unfold xbuild, xtokens, xinit. fold lw_init. rewrite E. split; [reflexivity|exact Hin].
Qed.

(* The F11 witness is outside lastwins_ok; the coordinator's example of a legitimate inner
   re-binding is inside it (and outside uri_single_prefix). *)
Example f11_outside_lastwins : lastwins_ok f11_witness = false.
Proof. reflexivity. Qed.
