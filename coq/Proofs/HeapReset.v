(* C12 proofs: the model's [blank] IS what the reset() of the current source does. *)
From Coq Require Import List NArith ZArith.
From stdpp Require Import pmap.
From OV Require Import Base.Bytes Base.Tree Gen.NodeReset Model.Heap Model.HeapReset Proofs.HeapIds Proofs.HeapRep Proofs.Heap.
Import ListNotations.

Lemma go_reset_blank : forall id x, go_reset id x = Some (blank id).
Proof. intros id x. destruct x. reflexivity. Qed.

Lemma node_fields_ok : node_fields = model_fields.
Proof. reflexivity. Qed.

(* every field of Node is assigned by reset() *)
Lemma reset_covers_all_fields : forall f, In f node_fields -> In f (map fst node_reset_assigns).
Proof. intros f H. simpl in H. simpl. tauto. Qed.

(* fresh_blank, with the source's reset: the model's reset and allocNode write exactly what the
   extracted reset() writes, so the node a create returns is blank in the sense of the source *)
Lemma reset_is_go_reset site s n s' x :
  heap s !! n = Some x -> reset site s n = Ok s' -> Some (heap s' !! n) = Some (go_reset (next_id s + 1) x).
Proof.
  intros Hx. unfold reset. rewrite Hx. intros H. inversion H; subst. simpl.
  rewrite lookup_insert, go_reset_blank. reflexivity.
Qed.

Lemma alloc_is_go_reset s :
  let '(s', a) := alloc_node s in
  forall zero, Some (heap s' !! a) = Some (go_reset (next_id s + 1) zero).
Proof. simpl. intros zero. rewrite lookup_insert, go_reset_blank. reflexivity. Qed.
