(* C03: the repaired custom_func invocation never reaches a reflect panic, for every signature
   whose first parameter accepts *transformctx.Ctx and every list of evaluated arguments. *)
From Coq Require Import List Arith ZArith Bool Lia.
Import ListNotations.
From OV Require Import Model.Safety.

Definition sig_ok (f : fsig) : Prop :=
  exists t0 rest, params f = t0 :: rest /\ assignable TCtx t0 = true.

Lemma ptype_eqb_refl t : ptype_eqb t t = true.
Proof. induction t; simpl; auto. Qed.

Lemma nth_error_lt {A} (l : list A) i : i < length l -> exists x, nth_error l i = Some x.
Proof. intro H. destruct (nth_error l i) eqn:E; [eauto|]. apply nth_error_None in E. lia. Qed.

(* getFuncArgType never panics on a function with at least one parameter ... *)
Lemma gfat_some f i : 1 <= num_in f -> get_func_arg_type f i <> None.
Proof.
  intro Hn. unfold get_func_arg_type.
  destruct (Nat.eqb (num_in f) 0) eqn:E0; [apply Nat.eqb_eq in E0; lia|].
  set (j := if Nat.leb (num_in f) i then num_in f - 1 else i).
  assert (Hj : j < num_in f).
  { subst j. destruct (Nat.leb (num_in f) i) eqn:E; [lia|]. apply Nat.leb_gt in E. exact E. }
  unfold type_in. destruct (nth_error_lt (params f) j Hj) as [t Et]. rewrite Et.
  destruct (variadic f) eqn:Ev; cbn [andb]; [|discriminate].
  destruct (Nat.eqb j (num_in f - 1)) eqn:Ej.
  - apply Nat.eqb_eq in Ej. assert (Nat.eqb (S j) (num_in f) = true) as -> by (apply Nat.eqb_eq; lia).
    cbn [type_elem]. discriminate.
  - discriminate.
Qed.

(* ... and returns exactly the type reflect.Call checks the argument at that position against *)
Lemma gfat_target f i : 1 <= num_in f -> (variadic f = true \/ i < num_in f) ->
  get_func_arg_type f i = target f i.
Proof.
  intros Hn Hi. unfold get_func_arg_type, target.
  destruct (Nat.eqb (num_in f) 0) eqn:E0; [apply Nat.eqb_eq in E0; lia|].
  destruct (Nat.leb (num_in f) i) eqn:Ele.
  - apply Nat.leb_le in Ele. destruct Hi as [Hv|Hi]; [|lia]. rewrite Hv. cbn [andb].
    assert (Nat.leb (num_in f - 1) i = true) as -> by (apply Nat.leb_le; lia).
    unfold type_in. destruct (nth_error_lt (params f) (num_in f - 1)) as [t Et]; [unfold num_in in *; lia|].
    rewrite Et, Hv. cbn [andb].
    assert (Nat.eqb (S (num_in f - 1)) (num_in f) = true) as -> by (apply Nat.eqb_eq; lia).
    rewrite Nat.eqb_refl. reflexivity.
  - apply Nat.leb_gt in Ele.
    unfold type_in. destruct (nth_error_lt (params f) i Ele) as [t Et]. rewrite Et.
    destruct (variadic f) eqn:Ev; cbn [andb]; [|reflexivity].
    destruct (Nat.eqb i (num_in f - 1)) eqn:Ei.
    + apply Nat.eqb_eq in Ei.
      assert (Nat.eqb (S i) (num_in f) = true) as -> by (apply Nat.eqb_eq; lia).
      assert (Nat.leb (num_in f - 1) i = true) as -> by (apply Nat.leb_le; lia).
      cbn [type_elem]. rewrite <- Ei. symmetry. exact Et.
    + apply Nat.eqb_neq in Ei.
      assert (Nat.eqb (S i) (num_in f) = false) as -> by (apply Nat.eqb_neq; lia).
      assert (Nat.leb (num_in f - 1) i = false) as -> by (apply Nat.leb_gt; lia).
      reflexivity.
Qed.

Lemma prep_args_no_panic f : 1 <= num_in f ->
  forall args idx, prep_args f idx args <> PPanic.
Proof.
  intros Hn args. induction args as [|a r IH]; intro idx; simpl; [discriminate|].
  destruct a as [|v|]; try discriminate.
  - destruct (get_func_arg_type f idx) as [t|] eqn:E; [|exfalso; exact (gfat_some f idx Hn E)].
    specialize (IH (S idx)). destruct (prep_args f (S idx) r); try discriminate. congruence.
  - destruct (get_func_arg_type f idx) as [t|] eqn:E; [|exfalso; exact (gfat_some f idx Hn E)].
    destruct (assignable v t); [|discriminate].
    specialize (IH (S idx)). destruct (prep_args f (S idx) r); try discriminate. congruence.
Qed.

Lemma assignable_refl t : assignable t t = true.
Proof. unfold assignable. rewrite ptype_eqb_refl. reflexivity. Qed.

Lemma prep_args_ok f : 1 <= num_in f ->
  forall args idx vs,
  (forall i, idx <= i < idx + length args -> variadic f = true \/ i < num_in f) ->
  prep_args f idx args = POk vs ->
  args_ok f idx vs = true /\ length vs = length args.
Proof.
  intros Hn args. induction args as [|a r IH]; intros idx vs Hr H; simpl in H.
  - inversion H; subst. split; reflexivity.
  - assert (Hidx : variadic f = true \/ idx < num_in f) by (apply Hr; simpl; lia).
    assert (Hr' : forall i, S idx <= i < S idx + length r -> variadic f = true \/ i < num_in f).
    { intros i Hi. apply Hr. simpl. lia. }
    destruct a as [|v|]; try discriminate.
    + rewrite (gfat_target f idx Hn Hidx) in H.
      destruct (target f idx) as [t|] eqn:Et; [|discriminate].
      destruct (prep_args f (S idx) r) as [| |vs'] eqn:Ep; try discriminate.
      inversion H; subst. destruct (IH (S idx) vs' Hr' Ep) as [Ha Hl].
      simpl. rewrite Et, assignable_refl, Ha, Hl. split; reflexivity.
    + rewrite (gfat_target f idx Hn Hidx) in H.
      destruct (target f idx) as [t|] eqn:Et; [|discriminate].
      destruct (assignable v t) eqn:Ea; [|discriminate].
      destruct (prep_args f (S idx) r) as [| |vs'] eqn:Ep; try discriminate.
      inversion H; subst. destruct (IH (S idx) vs' Hr' Ep) as [Ha Hl].
      simpl. rewrite Et, Ea, Ha, Hl. split; reflexivity.
Qed.

Lemma args_ok_app f a : forall i b, args_ok f i (a ++ b) = args_ok f i a && args_ok f (i + length a) b.
Proof.
  induction a as [|x a IH]; intros i b; simpl.
  - rewrite Nat.add_0_r. reflexivity.
  - destruct (target f i); [|reflexivity]. rewrite IH, <- andb_assoc.
    replace (S i + length a) with (i + S (length a)) by lia. reflexivity.
Qed.

Lemma target0 f t0 rest : params f = t0 :: rest -> target f 0 = Some t0.
Proof.
  intro Hp. unfold target, num_in. rewrite Hp. cbn [length].
  destruct (variadic f && Nat.leb (S (length rest) - 1) 0) eqn:E.
  - apply andb_true_iff in E as [_ E]. apply Nat.leb_le in E.
    replace (S (length rest) - 1) with 0 by lia. reflexivity.
  - reflexivity.
Qed.

Lemma node_second_target f : node_second f = true -> target f 1 = Some TNode /\ 2 <= num_in f.
Proof.
  unfold node_second. intro H. apply andb_true_iff in H as [H2 Ht]. apply Nat.leb_le in H2.
  split; [|exact H2]. unfold type_in in Ht.
  destruct (nth_error (params f) 1) as [t1|] eqn:E1; [|discriminate].
  destruct (variadic f && Nat.eqb 2 (num_in f)) eqn:Ev; [discriminate|].
  unfold target.
  assert (variadic f && Nat.leb (num_in f - 1) 1 = false) as ->.
  { destruct (variadic f); cbn [andb] in *; [|reflexivity].
    apply Nat.eqb_neq in Ev. apply Nat.leb_gt. lia. }
  rewrite E1. destruct t1; try discriminate. reflexivity.
Qed.

Theorem invoke_no_panic_lemma f args : sig_ok f -> invoke f args <> OPanic.
Proof.
  intros (t0&rest&Hp&Hctx). unfold invoke, prep_arg_values.
  assert (Hn : 1 <= num_in f) by (unfold num_in; rewrite Hp; simpl; lia).
  set (base := if node_second f then 2 else 1).
  set (acc0 := if node_second f then [TCtx; TNode] else [TCtx]).
  set (expected := (Z.of_nat (num_in f) - Z.of_nat base - (if variadic f then 1 else 0))%Z).
  destruct ((Z.of_nat (length args) <? expected)%Z || ((expected <? Z.of_nat (length args))%Z && negb (variadic f))) eqn:Ear;
    [discriminate|].
  apply orb_false_iff in Ear as [E1 E2]. apply Z.ltb_ge in E1.
  destruct (prep_args f base args) as [| |vs] eqn:Ep; [discriminate|exfalso; exact (prep_args_no_panic f Hn args base Ep)|].
  assert (Hbase : length acc0 = base /\ base <= num_in f /\ args_ok f 0 acc0 = true).
  { subst base acc0. destruct (node_second f) eqn:Ens.
    - destruct (node_second_target f Ens) as [Ht1 H2]. repeat split; [exact H2|].
      cbn [args_ok]. rewrite (target0 f t0 rest Hp), Hctx, Ht1. reflexivity.
    - repeat split; [exact Hn|]. cbn [args_ok]. rewrite (target0 f t0 rest Hp), Hctx. reflexivity. }
  destruct Hbase as (Hl0&Hble&Hacc).
  assert (Hrange : forall i, base <= i < base + length args -> variadic f = true \/ i < num_in f).
  { intros i Hi. destruct (variadic f) eqn:Ev; [left; reflexivity|right].
    cbn [negb] in E2. rewrite andb_true_r in E2. apply Z.ltb_ge in E2. subst expected. lia. }
  destruct (prep_args_ok f Hn args base vs Hrange Ep) as [Hok Hlen].
  unfold call. rewrite args_ok_app, Hacc, Hl0. cbn [andb Nat.add]. rewrite Hok, andb_true_r.
  rewrite app_length, Hl0, Hlen.
  destruct (variadic f) eqn:Ev.
  - assert (Nat.leb 1 (num_in f) = true) as -> by (apply Nat.leb_le; exact Hn).
    assert (Nat.leb (num_in f - 1) (base + length args) = true) as ->.
    { apply Nat.leb_le. subst expected. lia. }
    discriminate.
  - cbn [negb] in E2. rewrite andb_true_r in E2. apply Z.ltb_ge in E2.
    assert (Nat.eqb (base + length args) (num_in f) = true) as ->.
    { apply Nat.eqb_eq. subst expected. lia. }
    discriminate.
Qed.

(* The pre-fix code panics: `upper` (ctx, string) called with no argument, with an int64, and
   `javascript` (ctx, string, ...interface{}) whose script argument evaluates to nil. *)
Definition sig_upper : fsig := mkSig [TCtx; TString] false.
Definition sig_javascript : fsig := mkSig [TCtx; TString; TAny] true.
Definition sig_javascript_ctx : fsig := mkSig [TCtx; TNode; TString; TAny] true.

Lemma invoke_panic_old_refuted_lemma :
  invoke_old sig_upper [] = OPanic /\ invoke_old sig_upper [AVal TInt64] = OPanic
  /\ invoke_old sig_javascript [ANil] = OPanic
  /\ invoke sig_upper [] = OErr /\ invoke sig_upper [AVal TInt64] = OErr /\ invoke sig_javascript [ANil] = OCalled.
Proof. vm_compute. repeat split; reflexivity. Qed.
