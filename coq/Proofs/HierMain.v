(* C05 proofs, part 3: runs.  Every run of the flat-file machine that terminates yields the
   recursive matcher's result (machine_eq_spec_run); the EDI machine does so under the guard
   no_root_repeat; the F14 witness refutes the unguarded statement. *)
From Coq Require Import List Arith Bool Lia.
Import ListNotations.
From OV Require Import Base.Cases Model.Hier Model.HierSpec Proofs.HierBase Proofs.HierSim.

(* the terminal results the recursive matcher itself can produce *)
Definition spec_term (t : term) : Prop :=
  match t with TPanic _ | TEof => False | _ => True end.

Section Main.
  Variable try_leaf : leaf -> list unt -> option nat.
  Notation occl := (occ_loop try_leaf (sp_inst try_leaf)).
  Notation seql := (seq_loop try_leaf (sp_inst try_leaf)).
  Notation WF := (WF try_leaf).
  Notation Kst := (Kst try_leaf).
  Notation InvS := (InvS try_leaf).

  (* ---- the matcher never produces a panic ------------------------------------------------------ *)
  Section Terms.
    Variable inst_of : decl -> list unt -> mres inst.
    Definition errs_ok (d : decl) : Prop := forall us e t, inst_of d us = MErr e t -> spec_term t.

    Lemma occ_loop_term : forall d, errs_ok d ->
      forall f n us e t, occ_loop try_leaf inst_of d f n us = MErr e t -> spec_term t.
    Proof.
      intros d Hd. induction f as [|f IH]; intros n us e t H.
      - inversion H; subst. exact Logic.I.
      - rewrite occ_loop_S in H.
        destruct (lt_max n (d_max d) && starts try_leaf d us).
        + destruct (inst_of d us) as [e0 i0 us0|e0 t0] eqn:Ei.
          * destruct (occ_loop try_leaf inst_of d f (S n) us0) as [e1 is1 us1|e1 t1] eqn:Eo; [discriminate|].
            inversion H; subst. eapply IH; eauto.
          * inversion H; subst. eapply Hd; eauto.
        + destruct (n <? d_min d); [|discriminate]. inversion H; subst. exact Logic.I.
    Qed.

    Lemma seq_loop_term : forall ds, Forall errs_ok ds ->
      forall us e t, seq_loop try_leaf inst_of ds us = MErr e t -> spec_term t.
    Proof.
      induction ds as [|d ds IH]; intros Hds us e t H; [discriminate|].
      inversion Hds; subst. rewrite seq_loop_cons in H.
      destruct (occ_loop try_leaf inst_of d (S (length us)) 0 us) as [e1 is1 us1|e1 t1] eqn:Eo.
      - destruct (seq_loop try_leaf inst_of ds us1) as [e2 is2 us2|e2 t2] eqn:Es; [discriminate|].
        inversion H; subst. eapply IH; eauto.
      - inversion H; subst. eapply occ_loop_term; eauto.
    Qed.
  End Terms.

  Lemma sp_inst_term : forall d, errs_ok (sp_inst try_leaf) d.
  Proof.
    induction d as [nm g t mn mx lf kids IH] using decl_ind2. intros us e t0 H. simpl in H.
    destruct g.
    - destruct (seql kids us) as [e1 ks us1|e1 t1] eqn:Es; [discriminate|].
      inversion H; subst. eapply seq_loop_term; eauto.
    - destruct (try_leaf lf us) as [n|]; [|inversion H; subst; exact Logic.I].
      destruct (seql kids (skipn n us)) as [e1 ks us1|e1 t1] eqn:Es; [discriminate|].
      inversion H; subst. eapply seq_loop_term; eauto.
  Qed.

  Lemma seql_term : forall ds us e t, seql ds us = MErr e t -> spec_term t.
  Proof.
    intros ds us e t H. eapply seq_loop_term; [|exact H].
    apply Forall_forall. intros d _. apply sp_inst_term.
  Qed.

  (* ---- the specification's own fuel always suffices ------------------------------------------------ *)
  Section NoOof.
    Variable inst_of : decl -> list unt -> mres inst.
    Definition no_oof (d : decl) : Prop := forall us e, inst_of d us <> MErr e TOutOfFuel.

    Lemma occ_loop_no_oof : forall d, shrinks try_leaf inst_of d -> no_oof d ->
      forall f n us e, length us < f -> occ_loop try_leaf inst_of d f n us <> MErr e TOutOfFuel.
    Proof.
      intros d Hsh Hd. induction f as [|f IH]; intros n us e Hf H; [lia|].
      rewrite occ_loop_S in H.
      destruct (lt_max n (d_max d) && starts try_leaf d us) eqn:Eb.
      - apply andb_prop in Eb. destruct Eb as [_ Est].
        destruct (inst_of d us) as [e0 i0 us0|e0 t0] eqn:Ei.
        + destruct (Hsh _ _ _ _ Ei) as [_ Hlt]. specialize (Hlt Est).
          destruct (occ_loop try_leaf inst_of d f (S n) us0) as [e1 is1 us1|e1 t1] eqn:Eo; [discriminate|].
          inversion H; subst. eapply (IH (S n) us0); [lia|exact Eo].
        + inversion H; subst. eapply Hd; eauto.
      - destruct (n <? d_min d); discriminate.
    Qed.

    Lemma seq_loop_no_oof : forall ds, Forall (shrinks try_leaf inst_of) ds -> Forall no_oof ds ->
      forall us e, seq_loop try_leaf inst_of ds us <> MErr e TOutOfFuel.
    Proof.
      induction ds as [|d ds IH]; intros Hsh Hds us e H; [discriminate|].
      inversion Hsh; inversion Hds; subst. rewrite seq_loop_cons in H.
      destruct (occ_loop try_leaf inst_of d (S (length us)) 0 us) as [e1 is1 us1|e1 t1] eqn:Eo.
      - destruct (seq_loop try_leaf inst_of ds us1) as [e2 is2 us2|e2 t2] eqn:Es; [discriminate|].
        inversion H; subst. eapply IH; eauto.
      - inversion H; subst. eapply occ_loop_no_oof; [| |apply Nat.lt_succ_diag_r|exact Eo]; auto.
    Qed.
  End NoOof.

  Lemma sp_inst_no_oof : forall d, WF d -> no_oof (sp_inst try_leaf) d.
  Proof.
    induction d as [nm g t mn mx lf kids IH] using decl_ind2. intros Hd us e H.
    pose proof (WF_kids try_leaf _ Hd) as Hk. simpl in Hk.
    assert (Hsh : Forall (shrinks try_leaf (sp_inst try_leaf)) kids).
    { apply Forall_forall. intros k Hin. apply sp_inst_shrinks. rewrite Forall_forall in Hk. auto. }
    assert (Hno : Forall (no_oof (sp_inst try_leaf)) kids).
    { apply Forall_forall. intros k Hin. rewrite Forall_forall in IH, Hk. auto. }
    simpl in H. destruct g.
    - destruct (seql kids us) as [e1 ks us1|e1 t1] eqn:Es; [discriminate|].
      inversion H; subst. eapply seq_loop_no_oof; eauto.
    - destruct (try_leaf lf us) as [n|]; [|discriminate].
      destruct (seql kids (skipn n us)) as [e1 ks us1|e1 t1] eqn:Es; [discriminate|].
      inversion H; subst. eapply seq_loop_no_oof; eauto.
  Qed.

  Theorem spec_fuel_enough : forall ds us, Forall WF ds -> snd (spec try_leaf ds us) <> TOutOfFuel.
  Proof.
    intros ds us Hwf. unfold spec.
    destruct (seql ds us) as [e a [|u r]|e t] eqn:Es; cbn; try discriminate.
    intros ->. eapply seq_loop_no_oof; [| |exact Es].
    - apply Forall_forall. intros d Hin. apply sp_inst_shrinks. rewrite Forall_forall in Hwf. auto.
    - apply Forall_forall. intros d Hin. apply sp_inst_no_oof. rewrite Forall_forall in Hwf. auto.
  Qed.


  (* ---- runs ---------------------------------------------------------------------------------------- *)
  Section Runs.
    Variable fin : decl -> list unt -> res.
    Variable step : mstate -> sres.
    Variable bad : term -> Prop.

    Definition step_ok : Prop :=
      forall st, InvS (m_stk st) -> m_tgt st = None -> ~ bad (snd (Kst fin st)) ->
        match step st with
        | Cont st' => InvS (m_stk st') /\ Kst fin st' = Kst fin st
        | Ret (OTerm t) _ => Kst fin st = ([], t)
        | Ret (ODeliver _) _ => False
        end.
    Definition step_deliver : Prop :=
      forall st t, m_tgt st = Some t -> step st = Ret (ODeliver t) st.

    Lemma run_K : step_ok -> step_deliver ->
      forall fuel st, InvS (m_stk st) -> ~ bad (snd (Kst fin st)) ->
        snd (run step fuel st) <> TOutOfFuel -> run step fuel st = Kst fin st.
    Proof.
      intros Hok Hdel. induction fuel as [|f IH]; intros st Hinv Hbad Hfuel.
      - simpl in Hfuel. congruence.
      - cbn [run] in *. destruct (m_tgt st) as [t|] eqn:Et.
        + rewrite (Hdel st t Et) in *.
          assert (HK : Kst fin st = app_res [t] (Kst fin (clear_tgt st))).
          { unfold HierSim.Kst, clear_tgt. cbn [m_tgt m_stk m_rest tl_of]. rewrite Et, app_res_nil. reflexivity. }
          specialize (IH (clear_tgt st)).
          destruct (run step f (clear_tgt st)) as [ds e] eqn:Er.
          rewrite HK in *. rewrite <- IH; [reflexivity|exact Hinv|exact Hbad|exact Hfuel].
        + specialize (Hok st Hinv Et Hbad).
          destruct (step st) as [st'|[i|t] st'].
          * destruct Hok as [Hinv' HK]. rewrite <- HK. apply IH; auto. rewrite HK. exact Hbad.
          * contradiction.
          * symmetry. exact Hok.
    Qed.
  End Runs.

  Lemma hstep_deliver : step_deliver (hstep try_leaf).
  Proof. intros st t H. unfold hstep. rewrite H. reflexivity. Qed.
  Lemma edi_step_deliver : step_deliver (edi_step try_leaf).
  Proof. intros st t H. unfold edi_step. rewrite H. reflexivity. Qed.

  Definition fin_std (_ : decl) (us : list unt) : res := ([], std_fin us).

  Lemma hstep_ok : step_ok fin_std (hstep try_leaf) (fun _ => False).
  Proof. intros st Hinv Ht _. apply hstep_K; auto. Qed.

  (* ---- EDI: the name test comes before the "only the root is left" test ---------------------------- *)
  Definition ROOT_AGAIN := TPanic 99.
  Definition fin_edi (d : decl) (us : list unt) : res :=
    ([], match us with
         | [] => TEof
         | _ :: _ => if starts try_leaf d us then ROOT_AGAIN else TErrUnexpected
         end).

  Lemma edi_eq_hstep : forall st, m_tgt st = None -> m_stk st <> [] ->
    (forall top, m_stk st = [top] -> starts try_leaf (e_decl top) (m_rest st) = false) ->
    edi_step try_leaf st = hstep try_leaf st.
  Proof.
    intros [stk tgt us] Ht Hne Hs. cbn [m_tgt m_stk m_rest] in *. subst tgt.
    unfold edi_step, hstep. cbn [m_tgt m_stk m_rest].
    destruct us as [|u r]; [reflexivity|].
    destruct stk as [|top [|q b]]; [congruence| |].
    - specialize (Hs top eq_refl). apply read_rec_none in Hs. rewrite Hs. reflexivity.
    - cbn [length]. replace (S (S (length b)) <=? 1) with false by (symmetry; apply Nat.leb_gt; lia).
      destruct (read_rec try_leaf (e_decl top) (u :: r)); reflexivity.
  Qed.

  Lemma edi_step_ok : step_ok fin_edi (edi_step try_leaf) (fun t => t = ROOT_AGAIN).
  Proof.
    intros st Hinv Ht Hbad.
    assert (Hsingle : forall top, m_stk st = [top] ->
              fin_edi (e_decl top) (m_rest st) = ([], std_fin (m_rest st)) /\
              starts try_leaf (e_decl top) (m_rest st) = false).
    { intros top Hstk. destruct st as [stk tgt us]. cbn [m_stk m_tgt m_rest] in *. subst stk tgt.
      unfold HierSim.Kst in Hbad. cbn [m_stk m_tgt m_rest tl_of] in Hbad.
      rewrite app_res_nil, (Ktop_single try_leaf fin_edi top us Hinv) in Hbad. cbn [snd] in Hbad.
      destruct us as [|u r].
      - split; [reflexivity|]. destruct Hinv as (Hwf & _). apply (starts_nil try_leaf); exact Hwf.
      - unfold fin_edi in *. cbn [snd] in Hbad. destruct (starts try_leaf (e_decl top) (u :: r)); [exfalso; apply Hbad; reflexivity|]. split; reflexivity. }
    rewrite edi_eq_hstep; [|exact Ht|destruct (m_stk st); [destruct Hinv|discriminate]|intros top H; apply Hsingle; exact H].
    apply hstep_K; auto. intros top H. apply Hsingle; exact H.
  Qed.

  (* ---- initial state -------------------------------------------------------------------------------- *)
  Definition spec_gen (fin : decl -> list unt -> res) (ds : list decl) (us : list unt) : res :=
    mbind (seql ds us) (fun _ us' => fin (root_decl ds) us').

  Lemma spec_gen_std : forall ds us, spec try_leaf ds us = spec_gen fin_std ds us.
  Proof.
    intros. unfold spec, spec_gen. destruct (seql ds us) as [e a [|u r]|e t]; unfold mbind, app_res, fin_std, std_fin; cbn [fst snd]; rewrite ?app_nil_r; reflexivity.
  Qed.

  Lemma Kst_init : forall fin d0 r us,
    Kst fin (init (d0 :: r) us) = spec_gen fin (d0 :: r) us.
  Proof.
    intros. unfold HierSim.Kst, init, spec_gen. cbn [m_tgt m_stk m_rest tl_of Ktop e_decl e_occ].
    rewrite app_res_nil, mbind_seq_cons. apply mbind_ext. intros is1 us1.
    cbn [Kopen e_node e_decl e_cur e_occ root_decl d_kids skipn d_tgt].
    apply mbind_ext. intros ks us2. rewrite app_res_nil, mbind_occ_S. reflexivity.
  Qed.

  Lemma count_tgts_head : forall d r, count_tgt d <= count_tgts (d :: r).
  Proof. intros. unfold count_tgts. simpl. lia. Qed.

  Lemma Inv_init : forall d0 r us, Forall WF (d0 :: r) -> count_tgts (d0 :: r) <= 1 ->
    InvS (m_stk (init (d0 :: r) us)).
  Proof.
    intros d0 r us Hwf Hc. inversion Hwf as [|? ? Hd0 Hr]; subst.
    unfold init. cbn [m_stk HierSim.InvS e_decl e_cur e_occ].
    split; [exact Hd0|]. split; [reflexivity|]. split.
    - cbn [opens_ok e_decl e_cur e_node e_occ]. split; [eexists _, _, _; reflexivity|].
      split; [reflexivity|]. split.
      + cbn. split; [discriminate|]. split; [reflexivity|]. split; [discriminate|].
        split; [exact Hd0|]. clear Hc Hd0 Hwf. induction Hr; simpl; auto.
      + split; [intros _; repeat split|exact Logic.I].
    - split; [|apply (lt_max_0 try_leaf); exact Hd0].
      cbn [map e_decl tp]. pose proof (count_tgts_head d0 r).
      assert (count_tgt (root_decl (d0 :: r)) = count_tgts (d0 :: r)) by reflexivity.
      cbn [filter d_tgt root_decl length]. repeat split; lia.
  Qed.

  (* ---- the flat-file machine ---------------------------------------------------------------------- *)
  Theorem machine_eq_spec_run : forall ds us fuel,
    Forall WF ds -> count_tgts ds <= 1 ->
    snd (run (hstep try_leaf) fuel (init ds us)) <> TOutOfFuel ->
    run (hstep try_leaf) fuel (init ds us) = spec try_leaf ds us.
  Proof.
    intros ds us fuel Hwf Hc Hf. destruct ds as [|d0 r].
    - destruct fuel as [|f]; [simpl in Hf; congruence|].
      destruct us; reflexivity.
    - rewrite spec_gen_std, <- Kst_init.
      apply (run_K fin_std (hstep try_leaf) (fun _ => False) hstep_ok hstep_deliver); auto.
      apply Inv_init; auto.
  Qed.

  (* ---- the EDI machine ------------------------------------------------------------------------------ *)
  (* the guard: when the declared top-level sequence has completed and input is left, the next
     unit does not start the first top-level declaration again *)
  Definition no_root_repeat (ds : list decl) (us : list unt) : Prop :=
    match seql ds us with
    | MOk _ _ (u :: r) => starts try_leaf (root_decl ds) (u :: r) = false
    | _ => True
    end.

  Theorem edi_eq_spec_run : forall ds us fuel,
    Forall WF ds -> count_tgts ds <= 1 -> no_root_repeat ds us ->
    snd (run (edi_step try_leaf) fuel (init ds us)) <> TOutOfFuel ->
    run (edi_step try_leaf) fuel (init ds us) = spec try_leaf ds us.
  Proof.
    intros ds us fuel Hwf Hc Hg Hf. destruct ds as [|d0 r].
    - destruct fuel as [|f]; [simpl in Hf; congruence|].
      destruct us; reflexivity.
    - assert (Hgen : spec_gen fin_edi (d0 :: r) us = spec try_leaf (d0 :: r) us /\
                     snd (spec_gen fin_edi (d0 :: r) us) <> ROOT_AGAIN).
      { rewrite spec_gen_std. unfold spec_gen, no_root_repeat in *.
        destruct (seql (d0 :: r) us) as [e a [|u rest]|e t] eqn:Es; cbn.
        - split; [reflexivity|discriminate].
        - cbn in Hg. unfold fin_edi, fin_std, std_fin. cbn [root_decl starts d_kids]. rewrite Hg. split; [reflexivity|discriminate].
        - split; [reflexivity|]. apply seql_term in Es. intros ->. exact Es. }
      destruct Hgen as [Hgen Hnb]. rewrite <- Hgen, <- Kst_init.
      apply (run_K fin_edi (edi_step try_leaf) (fun t => t = ROOT_AGAIN) edi_step_ok edi_step_deliver); auto.
      + apply Inv_init; auto.
      + rewrite Kst_init. exact Hnb.
  Qed.
End Main.
