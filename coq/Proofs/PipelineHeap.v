(* Bridge between the ID allocator of Model/Pipeline.v ([alloc]: counter, IDs of the pooled blank
   nodes, pooling switch, schedule of sync.Pool choices) and the pointer-level model of
   idr/node.go of C12 (Model/Heap.v, Proofs/Heap*.v).
   [abs_alloc] reads an [alloc] off a heap state.  Then
     - create (fresh or from the pool, any choice) hands out the ID  Pipeline.create_node  hands
       out, and the abstractions of the successor states agree            (create_fresh_sim, create_pool_sim)
     - RemoveAndReleaseTree / recycle of a tree of n nodes is  Pipeline.release n   (recycled_sim, remove_sim)
     - in every state reachable by any history of API-respecting operations, the allocator
       invariant AInv of Proofs/Pipeline.v holds of the abstraction, with used = the IDs C12
       records as handed out                                              (reachable_AInv)
   so the hidden-state hypothesis Inv of the pipeline theorems is discharged for every process
   state C12 considers reachable (reachable_Inv0), from C12's Rep / AcqInv (pool_disjoint_nodup,
   ids_unique, held_ids_distinct, ids_below_counter are projections of these).
   IDs are Z in C12 and N here; they are non-negative in every reachable state (Nonneg,
   reachable_nonneg), so Z.to_N is an order embedding on them. *)
From Coq Require Import List NArith ZArith Bool Lia.
From stdpp Require Import pmap.
From OV Require Import Base.Bytes Base.Cases Base.Tree Model.Heap
  Proofs.HeapIds Proofs.HeapTree Proofs.HeapOps Proofs.HeapPath Proofs.HeapRep Proofs.HeapRemove Proofs.Heap.
From OV Require Model.Pipeline Proofs.Pipeline.
Import ListNotations.

Module P := OV.Model.Pipeline.
Module PP := OV.Proofs.Pipeline.

Definition idN (h : heapT) (a : addr) : N := Z.to_N (id_of h a).

Definition abs_alloc (caching : bool) (s : st) (picks : list nat) : P.alloc :=
  P.mkA (Z.to_N (next_id s)) (map (idN (heap s)) (pool s)) caching picks.

(* all IDs around are non-negative *)
Definition Nonneg (s : st) (acq : list Z) : Prop :=
  (0 <= next_id s)%Z /\ (forall a x, heap s !! a = Some x -> (0 <= n_id x)%Z) /\
  (forall i, i ∈ acq -> (0 <= i)%Z).

Lemma id_of_nonneg s acq a : Nonneg s acq -> (0 <= id_of (heap s) a)%Z.
Proof.
  intros (_ & H & _). unfold id_of. destruct (heap s !! a) as [x|] eqn:E; [eapply H; eauto|lia].
Qed.

Lemma map_ext_elem' {A B} (f g : A -> B) (l : list A) :
  (forall a, a ∈ l -> f a = g a) -> map f l = map g l.
Proof.
  intros H. apply map_ext_in. intros a Ha. apply H. apply elem_of_list_In. exact Ha.
Qed.

(* ---- create, fresh ------------------------------------------------------------------------------------ *)
Lemma create_fresh_sim caching s F acq ty data fs picks :
  Rep caching s F -> Nonneg s acq ->
  exists s', create caching s Fresh ty data fs = Ok (s', next_addr s) /\
    P.fresh_node (abs_alloc caching s picks) picks = (idN (heap s') (next_addr s), abs_alloc caching s' picks) /\
    id_of (heap s') (next_addr s) = (next_id s + 1)%Z /\ Nonneg s' (id_of (heap s') (next_addr s) :: acq).
Proof.
  intros HR (Hn & Hh & Ha). rewrite create_fresh_eq. eexists. split; [reflexivity|].
  assert (Eid : id_of (<[next_addr s := mkNode (next_id s + 1) None None None None None ty data fs]> (heap s)) (next_addr s)
                = (next_id s + 1)%Z).
  { unfold id_of. rewrite lookup_insert. reflexivity. }
  split; [|split; [exact Eid|]].
  - unfold P.fresh_node, abs_alloc, idN. cbn [heap pool next_id P.a_next P.a_pool P.a_pooling].
    rewrite Eid. rewrite Z2N.inj_add by lia. change (Z.to_N 1) with 1%N. rewrite N.add_1_r.
    f_equal. f_equal. apply map_ext_elem'. intros a Hin. unfold id_of.
    rewrite lookup_insert_ne; [reflexivity|].
    intros <-. pose proof (R_bound _ _ _ HR (next_addr s) (proj2 (elem_of_app _ _ _) (or_intror Hin))). lia.
  - split; [cbn; lia|split].
    + cbn [heap]. intros a x Hx. destruct (decide (a = next_addr s)) as [->|Hne].
      * rewrite lookup_insert in Hx. inversion Hx; subst. simpl. lia.
      * rewrite lookup_insert_ne in Hx by congruence. eapply Hh; eauto.
    + intros i Hi. apply elem_of_cons in Hi as [->|Hi]; [cbn [heap]; rewrite Eid; lia|auto].
Qed.

(* ---- create, from the pool -------------------------------------------------------------------------- *)
Lemma remove1_nth (l : list addr) : forall k a,
  NoDup l -> nth_error l k = Some a -> remove1 a l = Some (P.remove_nth k l).
Proof.
  induction l as [|x r IH]; intros k a Hnd Hk; [destruct k; discriminate|].
  apply NoDup_cons in Hnd as [Hx Hnd]. destruct k as [|k]; simpl in *.
  - inversion Hk; subst. rewrite Pos.eqb_refl. reflexivity.
  - destruct (Pos.eqb_spec x a) as [->|Hne].
    + exfalso. apply Hx. apply elem_of_list_In. eapply nth_error_In; eauto.
    + rewrite (IH k a Hnd Hk). reflexivity.
Qed.

Lemma map_remove_nth {A B} (f : A -> B) (l : list A) k :
  map f (P.remove_nth k l) = P.remove_nth k (map f l).
Proof. revert k. induction l as [|x r IH]; intros [|k]; simpl; auto. now rewrite IH. Qed.

Lemma remove_nth_elem {A} (l : list A) k x : x ∈ P.remove_nth k l -> x ∈ l.
Proof.
  intros H. apply elem_of_list_In. apply elem_of_list_In in H. eapply PP.remove_nth_In; eauto.
Qed.

Lemma create_pool_sim s F acq k a ty data fs picks :
  Rep true s F -> Nonneg s acq -> nth_error (pool s) k = Some a ->
  exists s', create true s (FromPool a) ty data fs = Ok (s', a) /\
    P.create_node (abs_alloc true s (k :: picks)) = (idN (heap s') a, abs_alloc true s' picks) /\
    id_of (heap s') a = id_of (heap s) a /\ Nonneg s' (id_of (heap s') a :: acq).
Proof.
  intros HR (Hn & Hh & Hq) Hk.
  assert (Hin : a ∈ pool s) by (apply elem_of_list_In; eapply nth_error_In; eauto).
  pose proof (R_nodup _ _ _ HR) as Hnd. apply NoDup_app in Hnd as (_ & _ & Hndp).
  destruct (R_blank _ _ _ HR a Hin) as [id Hid].
  rewrite (create_pool_eq s a id _ ty data fs (remove1_nth _ _ _ Hndp Hk) Hid).
  eexists. split; [reflexivity|].
  assert (Eid : id_of (<[a := mkNode id None None None None None ty data fs]> (heap s)) a = id_of (heap s) a).
  { unfold id_of. rewrite lookup_insert, Hid. reflexivity. }
  split; [|split; [exact Eid|]].
  - unfold P.create_node, abs_alloc. cbn [P.a_pooling P.a_picks P.a_pool P.a_next heap pool next_id].
    rewrite nth_error_map, Hk. cbn [option_map].
    assert (E1 : idN (<[a := mkNode id None None None None None ty data fs]> (heap s)) a = idN (heap s) a)
      by (unfold idN; now rewrite Eid).
    rewrite E1. f_equal. f_equal. rewrite <- map_remove_nth. apply map_ext_elem'. intros b Hb. unfold idN, id_of.
    rewrite lookup_insert_ne; [reflexivity|]. intros <-.
    apply elem_of_list_In in Hb. eapply PP.remove_nth_not_In; eauto.
    apply NoDup_ListNoDup. exact Hndp.
  - split; [cbn; lia|split].
    + cbn [heap]. intros b x Hx. destruct (decide (b = a)) as [->|Hne].
      * rewrite lookup_insert in Hx. inversion Hx; subst. simpl.
        pose proof (Hh a _ Hid). simpl in H. exact H.
      * rewrite lookup_insert_ne in Hx by congruence. eapply Hh; eauto.
    + intros i Hi. apply elem_of_cons in Hi as [->|Hi]; [|auto]. cbn [heap]. rewrite Eid.
      unfold id_of. rewrite Hid. pose proof (Hh a _ Hid). simpl in *. exact H.
Qed.

(* ---- recycle ---------------------------------------------------------------------------------------------- *)
Lemma recycled_sim : forall l s picks,
  NoDup l -> (forall a, a ∈ l -> a ∉ pool s) -> (0 <= next_id s)%Z ->
  abs_alloc true (recycled s l) picks = P.release (length l) (abs_alloc true s picks).
Proof.
  induction l as [|a r IH]; intros s picks Hnd Hd Hn.
  - rewrite recycled_nil. reflexivity.
  - apply NoDup_cons in Hnd as [Ha Hnd].
    change (a :: r) with ([a] ++ r). rewrite <- recycled_app.
    rewrite IH.
    + cbn [length app P.release]. unfold abs_alloc at 2. cbn [P.a_pooling P.a_next P.a_pool P.a_picks].
      f_equal. unfold abs_alloc, recycled. cbn [heap pool next_id length blank_all rev app].
      rewrite Z.add_0_r || idtac.
      f_equal.
      * rewrite Z2N.inj_add by lia. change (Z.to_N (Z.of_nat 1)) with 1%N. now rewrite N.add_1_r.
      * cbn [map]. f_equal.
        { unfold idN, id_of. rewrite lookup_insert. simpl.
          rewrite Z2N.inj_add by lia. change (Z.to_N 1) with 1%N. now rewrite N.add_1_r. }
        { apply map_ext_elem'. intros b Hb. unfold idN, id_of. rewrite lookup_insert_ne; [reflexivity|].
          intros <-. apply (Hd a); [apply elem_of_cons; auto|exact Hb]. }
    + exact Hnd.
    + intros b Hb. unfold recycled. cbn [pool rev app]. intros Hin.
      apply elem_of_cons in Hin as [->|Hin]; [contradiction|].
      apply (Hd b); [apply elem_of_cons; auto|exact Hin].
    + unfold recycled. cbn. lia.
Qed.

(* what RemoveAndReleaseTree does to the state (the part of rep_remove's proof that computes it) *)
Lemma remove_shape caching s F n :
  Rep caching s F -> pre_b caching s F (ORemove n) = true ->
  exists h1 tn,
    remove_and_release caching (fuel_of s) s n =
      Ok (if caching then recycled (with_heap s h1) (postorder tn) else with_heap s h1) /\
    NoDup (postorder tn) /\ (forall a, a ∈ postorder tn -> a ∉ pool s) /\
    (forall a, a ∈ pool s -> h1 !! a = heap s !! a) /\
    (forall a x1, h1 !! a = Some x1 -> exists x, heap s !! a = Some x /\ n_id x = n_id x1).
Proof.
  intros HR Hpre. simpl in Hpre. apply mem_spec in Hpre.
  pose proof (R_nodup _ _ _ HR) as Hnd. apply NoDup_app in Hnd as (HndF & HdFP & Hndpool).
  destruct (unlink_forest (heap s) F n (R_links _ _ _ HR) HndF Hpre)
    as (h1 & tn & par' & pv' & nx' & Hun & Hrn & Hoktn & Hlinks1 & Hperm & Hout & Hidrec & Hdom).
  exists h1, tn.
  assert (HndGtn : NoDup (addrs_f (prune n F) ++ addrs tn)) by (rewrite <- Hperm; exact HndF).
  apply NoDup_app in HndGtn as (HndG & HdGtn & Hndtn).
  assert (Hsubtn : forall a, a ∈ addrs tn -> a ∈ addrs_f F) by (intros a Ha; rewrite Hperm; apply elem_of_app; auto).
  assert (Hlperm : postorder tn ≡ₚ addrs tn) by apply postorder_perm.
  split; [|split; [rewrite Hlperm; exact Hndtn|split; [|split]]].
  - unfold remove_and_release. rewrite Hun. simpl. destruct caching; [|reflexivity].
    assert (Hfuel : (2 * tsize tn <= fuel_of s)%nat).
    { unfold fuel_of. rewrite tsize_length.
      pose proof (nodup_below_length (addrs tn) (next_addr s) Hndtn) as Hlen.
      assert (Hlt : forall a, a ∈ addrs tn -> (a < next_addr s)%positive).
      { intros a Ha. apply (R_bound _ _ _ HR). apply elem_of_app. left. auto. }
      specialize (Hlen Hlt). lia. }
    rewrite <- Hrn.
    rewrite (recycle_spec tn (fuel_of s) (with_heap s h1) par' pv' nx' Hoktn Hndtn Hfuel). reflexivity.
  - intros a Ha Hp. rewrite Hlperm in Ha. apply (HdFP a (Hsubtn a Ha) Hp).
  - intros a Ha. apply Hout. intros HaF. apply (HdFP a HaF Ha).
  - exact Hidrec.
Qed.

Lemma remove_sim caching s F acq n picks :
  Rep caching s F -> Nonneg s acq -> pre_b caching s F (ORemove n) = true ->
  exists s' k, remove_and_release caching (fuel_of s) s n = Ok s' /\
    abs_alloc caching s' picks = P.release k (abs_alloc caching s picks) /\ Nonneg s' acq.
Proof.
  intros HR (Hn & Hh & Hq) Hpre.
  destruct (remove_shape caching s F n HR Hpre) as (h1 & tn & Hrm & Hndl & Hdl & Hpool1 & Hidrec).
  assert (Habs1 : forall c, abs_alloc c (with_heap s h1) picks = abs_alloc c s picks).
  { intros c. unfold abs_alloc. cbn [next_id pool heap with_heap]. f_equal.
    apply map_ext_elem'. intros a Ha. unfold idN, id_of. now rewrite (Hpool1 a Ha). }
  assert (Hh1 : forall a x, h1 !! a = Some x -> (0 <= n_id x)%Z).
  { intros a x Hx. destruct (Hidrec a x Hx) as (x0 & Hx0 & E). rewrite <- E. eapply Hh; eauto. }
  destruct caching.
  - eexists. exists (length (postorder tn)). split; [exact Hrm|]. split.
    + rewrite recycled_sim; [now rewrite Habs1|exact Hndl|exact Hdl|exact Hn].
    + split; [unfold recycled; cbn; lia|split; [|exact Hq]].
      unfold recycled. cbn [heap]. intros a x Hx.
      destruct (decide (a ∈ postorder tn)) as [Hal|Hal].
      * destruct (blank_all_in (postorder tn) h1 (next_id s) a Hal) as (id' & Hr & Hid').
        cbn [heap with_heap next_id] in Hx. rewrite Hid' in Hx. inversion Hx; subst. simpl. lia.
      * cbn [heap with_heap next_id] in Hx. rewrite blank_all_notin in Hx by exact Hal. eapply Hh1; eauto.
  - eexists. exists 0%nat. split; [exact Hrm|]. split; [now rewrite Habs1|].
    split; [exact Hn|split; [exact Hh1|exact Hq]].
Qed.

(* ---- every reachable state -------------------------------------------------------------------------- *)
Lemma nonneg_init : Nonneg init [].
Proof. split; [cbn; lia|split]; [intros a x Hx; discriminate|intros i Hi; inversion Hi]. Qed.

Theorem reachable_nonneg caching s F acq : reachable caching s F acq -> Nonneg s acq.
Proof.
  induction 1 as [|s F acq o s' ret Hr IH Hpre Hstep]; [exact nonneg_init|].
  destruct (reachable_inv _ _ _ _ Hr) as [HR HA].
  destruct o as [c ty data fs|p n|n].
  - destruct c as [|a].
    + destruct (create_fresh_sim caching s F acq ty data fs [] HR IH) as (s1 & Hc & _ & _ & Hn1).
      simpl in Hstep. rewrite Hc in Hstep. simpl in Hstep. inversion Hstep; subst. exact Hn1.
    + simpl in Hpre. apply andb_prop in Hpre as [Hc Ha]. destruct caching; [|discriminate].
      apply mem_spec in Ha. apply elem_of_list_In in Ha. apply In_nth_error in Ha as [k Hk].
      destruct (create_pool_sim s F acq k a ty data fs [] HR IH Hk) as (s1 & Hc1 & _ & _ & Hn1).
      simpl in Hstep. rewrite Hc1 in Hstep. simpl in Hstep. inversion Hstep; subst. exact Hn1.
  - destruct (rep_add caching s F p n HR Hpre) as (h' & Hadd & _ & Hids).
    simpl in Hstep. rewrite Hadd in Hstep. simpl in Hstep. inversion Hstep; subst.
    destruct IH as (Hn & Hh & Hq). split; [exact Hn|split; [|exact Hq]].
    cbn [heap with_heap]. intros a x Hx. specialize (Hids a). unfold id_of in Hids. rewrite Hx in Hids.
    rewrite Hids. destruct (heap s !! a) as [x0|] eqn:E; [eapply Hh; eauto|lia].
  - destruct (remove_sim caching s F acq n [] HR IH Hpre) as (s1 & k & Hrm & _ & Hn1).
    simpl in Hstep. rewrite Hrm in Hstep. simpl in Hstep. inversion Hstep; subst. exact Hn1.
Qed.

Lemma to_N_inj_on (l : list Z) : (forall i, i ∈ l -> (0 <= i)%Z) -> NoDup l -> NoDup (map Z.to_N l).
Proof.
  induction l as [|x r IH]; intros Hnn Hnd; [constructor|].
  apply NoDup_cons in Hnd as [Hx Hnd]. simpl. apply NoDup_cons. split.
  - intros Hin. apply elem_of_list_fmap in Hin as (y & E & Hy).
    assert (x = y).
    { apply Z2N.inj; [apply Hnn; apply elem_of_cons; auto|apply Hnn; apply elem_of_cons; auto|exact E]. }
    subst. contradiction.
  - apply IH; auto. intros i Hi. apply Hnn. apply elem_of_cons. auto.
Qed.

(* the allocator invariant of Proofs/Pipeline.v holds of every reachable process state *)
Theorem reachable_AInv caching s F acq picks :
  reachable caching s F acq -> PP.AInv (map Z.to_N acq) (abs_alloc caching s picks).
Proof.
  intros Hr. destruct (reachable_inv _ _ _ _ Hr) as [HR (HA1 & HA2 & HA3)].
  pose proof (reachable_nonneg _ _ _ _ Hr) as Hnn. destruct Hnn as (Hn & Hh & Hq).
  assert (Hidnn : forall a, (0 <= id_of (heap s) a)%Z).
  { intros a. eapply id_of_nonneg. split; [exact Hn|split; [exact Hh|exact Hq]]. }
  unfold PP.AInv, abs_alloc. cbn [P.a_pool P.a_next]. split; [|split; [|split]].
  - (* NoDup pool ids *)
    apply NoDup_ListNoDup.
    change (map (idN (heap s)) (pool s)) with (map (fun a => Z.to_N (id_of (heap s) a)) (pool s)).
    rewrite <- (map_map (id_of (heap s)) Z.to_N). apply to_N_inj_on.
    + intros i Hi. apply elem_of_list_fmap in Hi as (a & -> & _). apply Hidnn.
    + pose proof (R_ids _ _ _ HR) as Hids. rewrite map_app in Hids. apply NoDup_app in Hids as (_ & _ & Hp). exact Hp.
  - apply Forall_forall. intros i Hi. apply elem_of_list_fmap in Hi as (a & -> & Ha).
    unfold idN. apply N2Z.inj_le. rewrite !Z2N.id by (auto; lia).
    eapply rep_id_le; [exact HR|apply elem_of_app; right; exact Ha].
  - apply Forall_forall. intros i Hi. apply elem_of_list_fmap in Hi as (z & -> & Hz).
    apply N2Z.inj_le. rewrite !Z2N.id by (auto; lia). apply HA2. exact Hz.
  - intros i Hi Hp. apply elem_of_list_In in Hi. apply elem_of_list_fmap in Hi as (z & -> & Hz).
    apply elem_of_list_In in Hp. apply elem_of_list_fmap in Hp as (a & E & Ha).
    unfold idN in E. apply Z2N.inj in E; [|apply Hq; exact Hz|apply Hidnn].
    apply (HA3 a Ha). rewrite <- E. exact Hz.
Qed.

(* ---- the hidden-state hypothesis of the pipeline theorems, discharged ------------------------------ *)
From OV Require Model.Value Model.XPathFrag Model.Decl Model.Eval Proofs.PipelineC02.

Module PC := OV.Proofs.PipelineC02.

(* any process state C12 considers reachable, with any schedule of future sync.Pool choices and
   either memo setting, satisfies Inv0 *)
Theorem reachable_Inv0 caching s F acq picks memo :
  reachable caching s F acq -> PC.Inv0 (P.mkHid (abs_alloc caching s picks) memo tt).
Proof. intros Hr. exists (map Z.to_N acq). simpl. exact (reachable_AInv caching s F acq picks Hr). Qed.

Section HeapC02.
  Variable query : tree -> bytes -> XPathFrag.path -> option (list XPathFrag.path).
  Variable ext : bytes -> option bytes.
  Variable fsigs : bytes -> option Eval.fsig.
  Variable fcall : tree -> bytes -> XPathFrag.path -> list Value.value -> Eval.cfres.
  Variable pcall : tree -> bytes -> XPathFrag.path -> Eval.cfres.
  Hypothesis query_valid : forall root x p ps,
    PC.valid root p -> query root x p = Some ps -> Forall (PC.valid root) ps.
  Variable marshal : Value.value -> option bytes.
  Variable marshal_err_cont : bool.
  Variable H : bytes -> bytes.
  Variable canon : tree -> bytes.
  Notation run_env_c02 :=
    (P.run_env Decl.vdecl Value.value unit (PC.eval_c02 query ext fsigs fcall pcall) marshal marshal_err_cont H canon).

  (* C13 / C15 with the C02 evaluator over the C12 heap machine: two processes in ANY reachable
     node-heap states (any histories of create / AddChild / RemoveAndReleaseTree with any pool
     choices, pooling on or off independently), any future pool choices, memo on or off, produce
     the same results.  No hypothesis on the hidden state is left. *)
  Theorem caches_invisible_c02_heap :
    forall caching s F acq picks memo caching' s' F' acq' picks' memo' d ctx us,
    reachable caching s F acq -> reachable caching' s' F' acq' ->
    run_env_c02 (P.mkHid (abs_alloc caching s picks) memo tt) d ctx us =
    run_env_c02 (P.mkHid (abs_alloc caching' s' picks') memo' tt) d ctx us.
  Proof.
    intros. apply (PC.caches_invisible_c02 query ext fsigs fcall pcall query_valid); eapply reachable_Inv0; eassumption.
  Qed.
End HeapC02.

(* ---- ... and with the JavaScript layer -------------------------------------------------------------- *)
From OV Require Model.Js Proofs.Js Proofs.PipelineJs.
Module PJS := OV.Proofs.PipelineJs.

(* a process whose node heap is in ANY reachable state and whose JavaScript caches are empty
   (on or off, any capacities) satisfies the invariant of caches_invisible_js *)
Theorem reachable_InvJ r compile caching s F acq picks memo nocache pc nc :
  reachable caching s F acq ->
  PJS.InvJ r compile (P.mkHid (abs_alloc caching s picks) memo (Model.Js.st_init nocache pc nc)).
Proof.
  intros Hr. exists (map Z.to_N acq). split.
  - exact (reachable_AInv caching s F acq picks Hr).
  - apply PJS.CInvJ_empty.
Qed.
