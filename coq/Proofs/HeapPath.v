(* C12 proofs, part 4: graft and prune as paths into a tree, and what AddChild / the unlinking
   half of RemoveAndReleaseTree do to a represented tree along such a path. *)
From Coq Require Import List NArith ZArith Bool Lia.
From stdpp Require Import pmap.
From OV Require Import Base.Bytes Base.Cases Base.Tree Model.Heap Proofs.HeapTree Proofs.HeapOps.
Import ListNotations.

(* ---- paths ---------------------------------------------------------------------------------------- *)
Inductive Graft (p : addr) (tn : atree) : atree -> atree -> Prop :=
| G_here ks : Graft p tn (AT p ks) (AT p (ks ++ [tn]))
| G_deep a l1 k k' l2 :
    a <> p -> Graft p tn k k' -> Graft p tn (AT a (l1 ++ k :: l2)) (AT a (l1 ++ k' :: l2)).

Inductive Prune (n : addr) (tn : atree) : atree -> atree -> Prop :=
| P_here a l1 l2 : root tn = n -> Prune n tn (AT a (l1 ++ tn :: l2)) (AT a (l1 ++ l2))
| P_deep a l1 k k' l2 :
    Prune n tn k k' -> Prune n tn (AT a (l1 ++ k :: l2)) (AT a (l1 ++ k' :: l2)).

Lemma map_id_on {A} (g : A -> A) l : (forall x, x ∈ l -> g x = x) -> map g l = l.
Proof.
  induction l as [|x l IH]; intros H; [reflexivity|]. simpl. f_equal.
  - apply H. apply elem_of_cons; auto.
  - apply IH. intros y Hy. apply H. apply elem_of_cons; auto.
Qed.

Lemma addrs_kid_in a ks k b : k ∈ ks -> b ∈ addrs k -> b ∈ addrs (AT a ks).
Proof. intros Hk Hb. simpl. apply elem_of_cons. right. apply elem_of_flat_map. eauto. Qed.

Lemma graft_path p tn : forall t, p ∈ addrs t -> NoDup (addrs t) -> Graft p tn t (graft_t p tn t).
Proof.
  induction t as [a ks IH] using atree_ind2. intros Hp Hnd. simpl.
  destruct (Pos.eqb_spec a p) as [->|Hne]; [constructor|].
  simpl in Hp, Hnd. apply elem_of_cons in Hp as [Hp|Hp]; [congruence|].
  apply NoDup_cons in Hnd as [Ha Hnd].
  apply elem_of_flat_map in Hp as [k [Hk Hpk]].
  apply elem_of_list_split in Hk as [l1 [l2 ->]].
  destruct (NoDup_flat_map_split _ _ _ _ Hnd) as (_ & Hndk & _ & Hdisj & _).
  destruct (Hdisj p Hpk) as [Hp1 Hp2].
  rewrite map_app. simpl map.
  rewrite (map_id_on (graft_t p tn) l1), (map_id_on (graft_t p tn) l2).
  - constructor; [auto|]. rewrite Forall_forall in IH. apply IH; auto.
    apply elem_of_app. right. apply elem_of_cons. auto.
  - intros x Hx. apply graft_t_id. intros Hin. apply Hp2. apply elem_of_flat_map. eauto.
  - intros x Hx. apply graft_t_id. intros Hin. apply Hp1. apply elem_of_flat_map. eauto.
Qed.

Lemma filter_app' {A} (f : A -> bool) l1 l2 : List.filter f (l1 ++ l2) = List.filter f l1 ++ List.filter f l2.
Proof. induction l1 as [|x l1 IH]; simpl; [reflexivity|]. destruct (f x); simpl; rewrite IH; reflexivity. Qed.

Lemma prune_path n : forall t, n ∈ addrs t -> root t <> n -> NoDup (addrs t) ->
  exists tn, Prune n tn t (prune_t n t) /\ root tn = n.
Proof.
  induction t as [a ks IH] using atree_ind2. intros Hn Hroot Hnd. simpl in Hroot.
  simpl in Hn, Hnd. apply elem_of_cons in Hn as [Hn|Hn]; [congruence|].
  apply NoDup_cons in Hnd as [Ha Hnd].
  apply elem_of_flat_map in Hn as [k [Hk Hnk]].
  apply elem_of_list_split in Hk as [l1 [l2 ->]].
  destruct (NoDup_flat_map_split _ _ _ _ Hnd) as (_ & Hndk & _ & Hdisj & _).
  destruct (Hdisj n Hnk) as [Hn1 Hn2].
  assert (Hf : forall l, n ∉ flat_map addrs l ->
             List.filter (fun k => negb (Pos.eqb (root k) n)) l = l).
  { intros l Hl. apply filter_id. intros x Hx. destruct (Pos.eqb_spec (root x) n) as [E|E]; [|reflexivity].
    exfalso. apply Hl. apply elem_of_flat_map. exists x. split; [auto|]. rewrite <- E. apply root_in. }
  simpl prune_t. rewrite map_app. simpl map.
  rewrite (map_id_on (prune_t n) l1), (map_id_on (prune_t n) l2).
  2:{ intros x Hx. apply prune_t_id. intros Hin. apply Hn2. apply elem_of_flat_map. eauto. }
  2:{ intros x Hx. apply prune_t_id. intros Hin. apply Hn1. apply elem_of_flat_map. eauto. }
  rewrite filter_app'. simpl List.filter. rewrite root_prune_t, (Hf l1 Hn1), (Hf l2 Hn2).
  destruct (Pos.eqb_spec (root k) n) as [E|E]; simpl.
  - exists k. split; [constructor; exact E|exact E].
  - rewrite Forall_forall in IH.
    destruct (IH k) as [tn [Hp Hr]]; auto.
    { apply elem_of_app. right. apply elem_of_cons. auto. }
    exists tn. split; [constructor; exact Hp|exact Hr].
Qed.

Lemma Graft_root p tn t t' : Graft p tn t t' -> root t' = root t.
Proof. destruct 1; reflexivity. Qed.
Lemma Prune_root n tn t t' : Prune n tn t t' -> root t' = root t.
Proof. destruct 1; reflexivity. Qed.

Lemma Graft_in p tn t t' : Graft p tn t t' -> p ∈ addrs t.
Proof.
  induction 1 as [ks|a l1 k k' l2 Hne HG IH]; [apply (root_in (AT p ks))|].
  eapply addrs_kid_in; [|exact IH]. apply elem_of_app. right. apply elem_of_cons. auto.
Qed.

Lemma Prune_in n tn t t' : Prune n tn t t' ->
  n ∈ flat_map addrs (kids t) /\ (forall b, b ∈ addrs tn -> b ∈ flat_map addrs (kids t)).
Proof.
  induction 1 as [a l1 l2 Hr|a l1 k k' l2 HP [IH1 IH2]]; simpl.
  - split.
    + apply elem_of_flat_map. exists tn. split; [apply elem_of_app; right; apply elem_of_cons; auto|].
      rewrite <- Hr. apply root_in.
    + intros b Hb. apply elem_of_flat_map. exists tn. split; [apply elem_of_app; right; apply elem_of_cons; auto|auto].
  - assert (Hsub : forall b, b ∈ flat_map addrs (kids k) -> b ∈ flat_map addrs (l1 ++ k :: l2)).
    { intros b Hb. apply elem_of_flat_map. exists k. split; [apply elem_of_app; right; apply elem_of_cons; auto|].
      destruct k; simpl in *. apply elem_of_cons. auto. }
    split; [auto|]. intros b Hb. auto.
Qed.

Lemma Graft_perm p tn t t' : Graft p tn t t' -> addrs t' ≡ₚ addrs t ++ addrs tn.
Proof.
  induction 1 as [ks|a l1 k k' l2 Hne HG IH]; simpl.
  - rewrite flat_map_app. simpl. rewrite app_nil_r. reflexivity.
  - constructor. rewrite !flat_map_app. simpl. rewrite IH. rewrite <- !app_assoc.
    apply Permutation_app_head. apply Permutation_app_head. apply Permutation_app_comm.
Qed.

Lemma Prune_perm n tn t t' : Prune n tn t t' -> addrs t ≡ₚ addrs t' ++ addrs tn.
Proof.
  induction 1 as [a l1 l2 Hr|a l1 k k' l2 HP IH]; simpl.
  - constructor. rewrite !flat_map_app. simpl. rewrite <- !app_assoc.
    apply Permutation_app_head. apply Permutation_app_comm.
  - constructor. rewrite !flat_map_app. simpl. rewrite IH. rewrite <- !app_assoc.
    apply Permutation_app_head. apply Permutation_app_head. apply Permutation_app_comm.
Qed.

(* ---- rebuilding a node one of whose children was transformed ---------------------------------------- *)
Lemma hd_addr_subst l1 k k' l2 : root k' = root k -> hd_addr (l1 ++ k' :: l2) = hd_addr (l1 ++ k :: l2).
Proof. intros H. destruct l1; simpl; [rewrite H|]; reflexivity. Qed.
Lemma last_addr_subst l1 k k' l2 : root k' = root k -> last_addr (l1 ++ k' :: l2) = last_addr (l1 ++ k :: l2).
Proof. intros H. rewrite !last_addr_app, !last_addr_cons. destruct l2; [rewrite H|]; reflexivity. Qed.

Lemma pv_of_none l : pv_of None l = last_addr l.
Proof. unfold pv_of. destruct (last_addr l); reflexivity. Qed.
Lemma nx_of_none l : nx_of None l = hd_addr l.
Proof. destruct l; reflexivity. Qed.

Lemma deep_rebuild h h' a l1 k k' l2 par prev next :
  tree_ok h par prev next (AT a (l1 ++ k :: l2)) -> root k' = root k ->
  h' !! a = h !! a ->
  (forall b, b ∈ flat_map addrs (l1 ++ l2) -> h' !! b = h !! b) ->
  (forall pv nx, tree_ok h (Some a) pv nx k -> tree_ok h' (Some a) pv nx k') ->
  tree_ok h' par prev next (AT a (l1 ++ k' :: l2)).
Proof.
  intros [Hn Hc] Hr Ha Hfr Hk. split.
  - destruct Hn as [x Hx]. exists x. rewrite Ha, (hd_addr_subst _ _ _ _ Hr), (last_addr_subst _ _ _ _ Hr). exact Hx.
  - apply chain_app in Hc as [Hc1 Hc2]. simpl in Hc2. destruct Hc2 as [Hck Hc2].
    apply chain_app. simpl. rewrite Hr. split; [|split].
    + eapply chain_impl; [|exact Hc1]. intros k0 pv nx Hk0 Hok. eapply tree_ok_frame; [|exact Hok].
      intros b Hb. apply Hfr. apply elem_of_flat_map. exists k0. split; [apply elem_of_app; auto|auto].
    + apply Hk. exact Hck.
    + eapply chain_impl; [|exact Hc2]. intros k0 pv nx Hk0 Hok. eapply tree_ok_frame; [|exact Hok].
      intros b Hb. apply Hfr. apply elem_of_flat_map. exists k0. split; [apply elem_of_app; auto|auto].
Qed.

(* a child list whose last element gets a new successor *)
Lemma chain_set_next h h' par pv nx0 nx ks :
  chain (tree_ok h par) pv nx0 ks ->
  (forall k, k ∈ ks -> Some (root k) <> last_addr ks -> forall b, b ∈ addrs k -> h' !! b = h !! b) ->
  (forall kl pv', kl ∈ ks -> Some (root kl) = last_addr ks ->
     tree_ok h par pv' nx0 kl -> tree_ok h' par pv' nx kl) ->
  NoDup (flat_map addrs ks) ->
  chain (tree_ok h' par) pv nx ks.
Proof.
  intros Hc Hfr Hlast Hnd.
  destruct (decide (ks = [])) as [->|Hne]; [exact I|].
  destruct (exists_last Hne) as [l0 [kl ->]].
  apply chain_app in Hc as [Hc1 Hc2]. simpl in Hc2. destruct Hc2 as [Hc2 _].
  apply chain_app. simpl. split; [|split; [|exact I]].
  - eapply chain_impl; [|exact Hc1]. intros k pv' nx' Hk Hok. eapply tree_ok_frame; [|exact Hok].
    apply Hfr; [apply elem_of_app; auto|]. rewrite last_addr_snoc. intros E. inversion E as [E'].
    destruct (NoDup_flat_map_split _ _ _ _ Hnd) as (_ & _ & _ & Hd & _).
    destruct (Hd (root kl) (root_in kl)) as [Hd1 _]. apply Hd1. apply elem_of_flat_map.
    exists k. split; [auto|]. rewrite <- E'. apply root_in.
  - apply Hlast; [apply elem_of_app; right; apply elem_of_cons; auto|rewrite last_addr_snoc; reflexivity|exact Hc2].
Qed.

(* ---- AddChild along a graft path ------------------------------------------------------------------------ *)
Section graft_heap.
  Context (h h' : heapT) (p n : addr) (tn : atree) (xp xn : node).
  Context (Hp : h !! p = Some xp) (Hn : h !! n = Some xn).
  Context (Hrn : root tn = n) (Htn : tree_ok h None None None tn) (Hndn : NoDup (addrs tn)).
  Context (Hn' : h' !! n = Some (set_prev (n_last xp) (set_next None (set_parent (Some p) xn)))).
  Context (Hp' : h' !! p = Some (set_last (Some n)
                    (match n_first xp with None => set_first (Some n) xp | Some _ => xp end))).
  Context (Hl' : forall l xl, n_last xp = Some l -> h !! l = Some xl -> h' !! l = Some (set_next (Some n) xl)).
  Context (Hother : forall a, a <> n -> a <> p -> Some a <> n_last xp -> h' !! a = h !! a).

  Lemma graft_ok : forall t t', Graft p tn t t' ->
    forall par prev next, tree_ok h par prev next t -> NoDup (addrs t) ->
    (forall a, a ∈ addrs t -> a ∉ addrs tn) ->
    tree_ok h' par prev next t'.
  Proof.
    induction 1 as [ks|a l1 k k' l2 Hne HG IH]; intros par prev next Hok Hnd Hdisj.
    - (* the parent itself *)
      destruct Hok as [Hnode Hc]. destruct Hnode as [x [Hx (Hpar & Hpv & Hnx & Hf & Hl)]].
      rewrite Hp in Hx. inversion Hx; subst x. clear Hx.
      simpl in Hnd. apply NoDup_cons in Hnd as [Hpks Hndks].
      assert (Hn_t : n ∉ addrs (AT p ks)).
      { intros Hin. apply (Hdisj n Hin). rewrite <- Hrn. apply root_in. }
      assert (Hnp : n <> p). { intros ->. apply Hn_t. apply (root_in (AT p ks)). }
      assert (Hks_tn : forall b, b ∈ flat_map addrs ks -> b ∉ addrs tn).
      { intros b Hb. apply Hdisj. simpl. apply elem_of_cons. auto. }
      split.
      + eexists. split; [exact Hp'|].
        rewrite last_addr_snoc, Hrn, hd_addr_app.
        destruct ks as [|k0 ks0]; simpl in Hf; rewrite Hf; simpl; rewrite ?Hrn; repeat split; auto.
      + apply chain_app. simpl. split; [|split; [|exact I]].
        * (* the old children: the last one gets n as successor *)
          rewrite Hrn. eapply chain_set_next; [exact Hc| | |exact Hndks].
          -- intros k Hk Hnl b Hb. apply Hother.
             ++ intros ->. apply Hn_t. eapply addrs_kid_in; eauto.
             ++ intros ->. apply Hpks. apply elem_of_flat_map. eauto.
             ++ rewrite Hl. intros E. apply Hnl. rewrite <- E. f_equal.
                (* b is the last child's root and lies in k: then k is the last child *)
                symmetry in E. apply last_addr_in in E as [kl [Hkl Hrl]].
                apply elem_of_list_lookup in Hk as [i Hi]. apply elem_of_list_lookup in Hkl as [j Hj].
                assert (i = j).
                { eapply (NoDup_flat_map_disj addrs ks Hndks i j k kl b); eauto. rewrite <- Hrl. apply root_in. }
                subst j. rewrite Hi in Hj. inversion Hj; subst kl. auto.
          -- intros kl pv' Hkl Hlast Hokl. destruct kl as [l kk]. simpl in Hlast.
             destruct Hokl as [[xl [Hxl Hrec]] Hckk]. split.
             ++ exists (set_next (Some n) xl). split.
                ** apply Hl'; [rewrite Hl; auto|exact Hxl].
                ** simpl. destruct Hrec as (H1 & H2 & H3 & H4 & H5). repeat split; auto.
             ++ eapply chain_impl; [|exact Hckk]. intros k0 pv0 nx0 Hk0 Hok0.
                eapply tree_ok_frame; [|exact Hok0]. intros b Hb.
                assert (Hbl : b ∈ addrs (AT l kk)) by (eapply addrs_kid_in; eauto).
                assert (Hbks : b ∈ flat_map addrs ks) by (apply elem_of_flat_map; eauto).
                apply Hother.
                --- intros ->. apply Hn_t. simpl. apply elem_of_cons. auto.
                --- intros ->. contradiction.
                --- rewrite Hl, <- Hlast. intros E. inversion E; subst b.
                    assert (Hndl : NoDup (addrs (AT l kk))) by (eapply NoDup_flat_map_inv; eauto).
                    simpl in Hndl. apply NoDup_cons in Hndl as [Hl0 _]. apply Hl0.
                    apply elem_of_flat_map. eauto.
        * (* the new last child *)
          rewrite pv_of_none. destruct tn as [n0 kn]. simpl in Hrn. subst n0.
          destruct Htn as [[x [Hx (H1 & H2 & H3 & H4 & H5)]] Hckn].
          rewrite Hn in Hx. inversion Hx; subst x. clear Hx. split.
          -- eexists. split; [exact Hn'|]. simpl. rewrite Hl. repeat split; auto.
          -- eapply chain_impl; [|exact Hckn]. intros k0 pv0 nx0 Hk0 Hok0.
             eapply tree_ok_frame; [|exact Hok0]. intros b Hb.
             assert (Hbn : b ∈ addrs (AT n kn)) by (eapply addrs_kid_in; eauto).
             apply Hother.
             ++ intros ->. simpl in Hndn. apply NoDup_cons in Hndn as [Hn0 _]. apply Hn0.
                apply elem_of_flat_map. eauto.
             ++ intros ->. apply (Hdisj p); [apply (root_in (AT p ks))|exact Hbn].
             ++ rewrite Hl. intros E. symmetry in E. apply last_addr_in in E as [kl [Hkl Hrl]].
                apply (Hks_tn b); [|exact Hbn]. apply elem_of_flat_map. exists kl. split; [auto|].
                rewrite <- Hrl. apply root_in.
    - (* above the parent *)
      pose proof (Graft_in _ _ _ _ HG) as Hpk.
      pose proof Hnd as Hnd0. simpl in Hnd. apply NoDup_cons in Hnd as [Ha Hnd].
      destruct (NoDup_flat_map_split _ _ _ _ Hnd) as (_ & Hndk & _ & Hdk & Hd12).
      destruct Hok as [Hnode Hc]. pose proof Hc as Hc0.
      apply chain_app in Hc as [_ Hc2]. simpl in Hc2. destruct Hc2 as [Hokk _].
      assert (Hkin : forall b, b ∈ addrs k -> b ∈ addrs (AT a (l1 ++ k :: l2))).
      { intros b Hb. eapply addrs_kid_in; [|exact Hb]. apply elem_of_app. right. apply elem_of_cons. auto. }
      assert (Hlk : forall l, n_last xp = Some l -> l ∈ addrs k).
      { intros l El. destruct (tree_ok_closed _ _ _ _ _ Hokk p xp Hpk Hp) as (_ & Hlast & _).
        rewrite El in Hlast. exact Hlast. }
      assert (Hfr : forall b, b ∈ addrs (AT a (l1 ++ k :: l2)) -> b ∉ addrs k -> h' !! b = h !! b).
      { intros b Hb Hbk. apply Hother.
        - intros ->. apply (Hdisj n Hb). rewrite <- Hrn. apply root_in.
        - intros ->. contradiction.
        - intros E. symmetry in E. apply Hlk in E. contradiction. }
      eapply deep_rebuild; [split; [exact Hnode|exact Hc0]|eapply Graft_root; eauto| | |].
      + apply Hfr; [apply (root_in (AT a (l1 ++ k :: l2)))|].
        intros Hak. apply Ha. apply elem_of_flat_map. exists k. split; [|auto].
        apply elem_of_app. right. apply elem_of_cons. auto.
      + intros b Hb. apply Hfr.
        * simpl. apply elem_of_cons. right. rewrite flat_map_app in *. simpl.
          apply elem_of_app in Hb as [Hb|Hb]; apply elem_of_app; [auto|right; apply elem_of_app; auto].
        * intros Hbk. destruct (Hdk b Hbk) as [H1 H2]. rewrite flat_map_app in Hb.
          apply elem_of_app in Hb as [Hb|Hb]; contradiction.
      + intros pv nx Hokk'. apply IH; auto.
  Qed.
End graft_heap.

(* ---- unlinking along a prune path -------------------------------------------------------------------------- *)
Section prune_heap.
  Context (h h1 : heapT) (n : addr) (tn : atree) (xn : node) (q : addr) (xq : node).
  Context (Hn : h !! n = Some xn) (Hpar : n_parent xn = Some q) (Hq : h !! q = Some xq).
  Context (Hq1 : h1 !! q = Some (set_last (match n_next xn with None => n_prev xn | Some _ => n_last xq end)
                     (set_first (match n_prev xn with None => n_next xn | Some _ => n_first xq end) xq))).
  Context (Hpv1 : forall a xa, n_prev xn = Some a -> h !! a = Some xa -> h1 !! a = Some (set_next (n_next xn) xa)).
  Context (Hnx1 : forall b xb, n_next xn = Some b -> h !! b = Some xb -> h1 !! b = Some (set_prev (n_prev xn) xb)).
  Context (Hother : forall c, c <> q -> Some c <> n_prev xn -> Some c <> n_next xn -> h1 !! c = h !! c).

  Lemma prune_ok : forall t t', Prune n tn t t' ->
    forall par prev next, tree_ok h par prev next t -> NoDup (addrs t) ->
    tree_ok h1 par prev next t' /\ tree_ok h1 (Some q) (n_prev xn) (n_next xn) tn.
  Proof.
    induction 1 as [a l1 l2 Hr|a l1 k k' l2 HP IH]; intros par prev next Hok Hnd.
    - (* the parent of n *)
      destruct Hok as [Hnode Hc]. destruct Hnode as [x [Hx (Hpr & Hpv & Hnx & Hf & Hl)]].
      apply chain_app in Hc as [Hc1 Hc2]. simpl in Hc2. destruct Hc2 as [Hoktn Hc2].
      rewrite pv_of_none, nx_of_none in Hoktn. simpl in Hc1. rewrite Hr in Hc1, Hc2.
      destruct (tree_ok_root _ _ _ _ _ Hoktn) as [y [Hy (Hy1 & Hy2 & Hy3 & _)]].
      rewrite Hr, Hn in Hy. inversion Hy; subst y. clear Hy.
      assert (Eq : q = a) by congruence. subst a. rewrite Hq in Hx. inversion Hx; subst x. clear Hx.
      simpl in Hnd. apply NoDup_cons in Hnd as [Hqk Hnd].
      destruct (NoDup_flat_map_split _ _ _ _ Hnd) as (Hnd1 & Hndtn & Hnd2 & Hdtn & Hd12).
      assert (Hin1 : forall k b, k ∈ l1 -> b ∈ addrs k -> b ∈ flat_map addrs l1) by (intros; apply elem_of_flat_map; eauto).
      assert (Hin2 : forall k b, k ∈ l2 -> b ∈ addrs k -> b ∈ flat_map addrs l2) by (intros; apply elem_of_flat_map; eauto).
      assert (Hq1' : forall b, b ∈ flat_map addrs l1 -> b <> q).
      { intros b Hb ->. apply Hqk. rewrite flat_map_app. apply elem_of_app. auto. }
      assert (Hq2' : forall b, b ∈ flat_map addrs l2 -> b <> q).
      { intros b Hb ->. apply Hqk. rewrite flat_map_app. apply elem_of_app. right. simpl. apply elem_of_app. auto. }
      assert (Hroot1 : forall b, Some b = last_addr l1 -> b ∈ flat_map addrs l1).
      { intros b E. symmetry in E. apply last_addr_in in E as [kl [Hkl <-]]. eapply Hin1; eauto. apply root_in. }
      assert (Hroot2 : forall b, Some b = hd_addr l2 -> b ∈ flat_map addrs l2).
      { intros b E. symmetry in E. apply hd_addr_in in E as [kl [Hkl <-]]. eapply Hin2; eauto. apply root_in. }
      split; [split|].
      + (* the parent's record *)
        eexists. split; [exact Hq1|]. simpl. rewrite Hy2, Hy3. repeat split; auto.
        * destruct l1 as [|k1 l1']; [reflexivity|].
          destruct (last_addr (k1 :: l1')) eqn:E; [|apply last_addr_none in E; discriminate].
          rewrite hd_addr_app in Hf. simpl. exact Hf.
        * rewrite last_addr_app in Hl. destruct l2 as [|k2 l2']; simpl.
          -- rewrite app_nil_r. reflexivity.
          -- rewrite last_addr_app. rewrite last_addr_cons in Hl. exact Hl.
      + apply chain_app. rewrite nx_of_none, pv_of_none. split.
        * (* left siblings: the last one gets n's successor *)
          eapply chain_set_next; [exact Hc1| | |exact Hnd1].
          -- intros k Hk Hnl b Hb. apply Hother.
             ++ apply Hq1'. eauto.
             ++ rewrite Hy2. intros E. apply Hnl. rewrite <- E. f_equal.
                symmetry in E. apply last_addr_in in E as [kl [Hkl Hrl]].
                apply elem_of_list_lookup in Hk as [i Hi]. apply elem_of_list_lookup in Hkl as [j Hj].
                assert (i = j).
                { eapply (NoDup_flat_map_disj addrs l1 Hnd1 i j k kl b); eauto. rewrite <- Hrl. apply root_in. }
                subst j. rewrite Hi in Hj. inversion Hj; subst kl. auto.
             ++ rewrite Hy3. intros E. apply Hroot2 in E. apply (Hd12 b); eauto.
          -- intros kl pv' Hkl Hlast Hokl. destruct kl as [l kk]. simpl in Hlast.
             destruct Hokl as [[xl [Hxl Hrec]] Hckk]. split.
             ++ exists (set_next (n_next xn) xl). split.
                ** apply Hpv1; [rewrite Hy2; auto|exact Hxl].
                ** simpl. rewrite Hy3. destruct Hrec as (H1 & H2 & H3 & H4 & H5). repeat split; auto.
             ++ eapply chain_impl; [|exact Hckk]. intros k0 pv0 nx0 Hk0 Hok0.
                eapply tree_ok_frame; [|exact Hok0]. intros b Hb.
                assert (Hbl : b ∈ addrs (AT l kk)) by (eapply addrs_kid_in; eauto).
                apply Hother.
                --- apply Hq1'. eauto.
                --- rewrite Hy2, <- Hlast. intros E. inversion E; subst b.
                    assert (Hndl : NoDup (addrs (AT l kk))) by (apply (NoDup_flat_map_inv addrs l1 Hnd1); exact Hkl).
                    simpl in Hndl. apply NoDup_cons in Hndl as [Hl0 _]. apply Hl0.
                    apply elem_of_flat_map. eauto.
                --- rewrite Hy3. intros E. apply Hroot2 in E. apply (Hd12 b); eauto.
        * (* right siblings: the first one gets n's predecessor *)
          destruct l2 as [|k2 l2']; [exact I|]. simpl in Hc2. destruct Hc2 as [Hok2 Hc2']. simpl.
          assert (Hk2 : k2 ∈ k2 :: l2') by (apply elem_of_cons; auto).
          split.
          -- destruct k2 as [b2 kk]. destruct Hok2 as [[xb [Hxb Hrec]] Hckk]. split.
             ++ exists (set_prev (n_prev xn) xb). split.
                ** apply Hnx1; [rewrite Hy3; reflexivity|exact Hxb].
                ** simpl. rewrite Hy2. destruct Hrec as (H1 & H2 & H3 & H4 & H5). repeat split; auto.
             ++ eapply chain_impl; [|exact Hckk]. intros k0 pv0 nx0 Hk0 Hok0.
                eapply tree_ok_frame; [|exact Hok0]. intros b Hb.
                assert (Hbl : b ∈ addrs (AT b2 kk)) by (eapply addrs_kid_in; eauto).
                apply Hother.
                --- apply Hq2'. eauto.
                --- rewrite Hy2. intros E. apply Hroot1 in E. apply (Hd12 b); eauto.
                --- rewrite Hy3. simpl. intros E. inversion E; subst b.
                    assert (Hndl : NoDup (addrs (AT b2 kk))) by (apply (NoDup_flat_map_inv addrs _ Hnd2); exact Hk2).
                    simpl in Hndl. apply NoDup_cons in Hndl as [Hl0 _]. apply Hl0.
                    apply elem_of_flat_map. eauto.
          -- eapply chain_impl; [|exact Hc2']. intros k0 pv0 nx0 Hk0 Hok0.
             eapply tree_ok_frame; [|exact Hok0]. intros b Hb.
             assert (Hk0' : k0 ∈ k2 :: l2') by (apply elem_of_cons; auto).
             apply Hother.
             ++ apply Hq2'. eauto.
             ++ rewrite Hy2. intros E. apply Hroot1 in E. apply (Hd12 b); eauto.
             ++ rewrite Hy3. simpl. intros E. inversion E; subst b.
                simpl in Hnd2. apply NoDup_app in Hnd2 as (_ & Hd & _).
                apply (Hd (root k2) (root_in k2)). apply elem_of_flat_map. eauto.
      + (* the detached subtree is untouched *)
        eapply tree_ok_frame; [|rewrite Hy2, Hy3; exact Hoktn].
        intros b Hb. destruct (Hdtn b Hb) as [Hb1 Hb2]. apply Hother.
        * intros ->. apply Hqk. rewrite flat_map_app. apply elem_of_app. right. simpl. apply elem_of_app. auto.
        * rewrite Hy2. intros E. apply Hroot1 in E. contradiction.
        * rewrite Hy3. intros E. apply Hroot2 in E. contradiction.
    - (* above the parent of n *)
      destruct (Prune_in _ _ _ _ HP) as [Hnk _].
      pose proof Hnd as Hnd0. simpl in Hnd. apply NoDup_cons in Hnd as [Ha Hnd].
      destruct (NoDup_flat_map_split _ _ _ _ Hnd) as (_ & Hndk & _ & Hdk & Hd12).
      destruct Hok as [Hnode Hc]. pose proof Hc as Hc0.
      apply chain_app in Hc as [_ Hc2]. simpl in Hc2. destruct Hc2 as [Hokk _].
      assert (Hnk' : n ∈ addrs k) by (destruct k; simpl in *; apply elem_of_cons; auto).
      assert (Hnroot : n <> root k).
      { destruct k as [c kk]. simpl in *. apply NoDup_cons in Hndk as [Hc' _]. intros ->. contradiction. }
      destruct (tree_ok_closed _ _ _ _ _ Hokk n xn Hnk' Hn) as (_ & _ & Hrest).
      destruct (Hrest Hnroot) as (Hqk & Hpvk & Hnxk). rewrite Hpar in Hqk. simpl in Hqk.
      assert (Hfr : forall b, b ∉ addrs k -> h1 !! b = h !! b).
      { intros b Hbk. apply Hother.
        - intros ->. contradiction.
        - intros E. rewrite <- E in Hpvk. contradiction.
        - intros E. rewrite <- E in Hnxk. contradiction. }
      destruct (IH _ _ _ Hokk Hndk) as [_ Htn1].
      split; [|exact Htn1].
      eapply deep_rebuild; [split; [exact Hnode|exact Hc0]|eapply Prune_root; eauto| | |].
      + apply Hfr. intros Hak. apply Ha. apply elem_of_flat_map. exists k. split; [|auto].
        apply elem_of_app. right. apply elem_of_cons. auto.
      + intros b Hb. apply Hfr. intros Hbk. destruct (Hdk b Hbk) as [H1 H2]. rewrite flat_map_app in Hb.
        apply elem_of_app in Hb as [Hb|Hb]; contradiction.
      + intros pv nx Hokk'. apply (IH _ _ _ Hokk' Hndk).
  Qed.
End prune_heap.
