(* C20: concrete witnesses.  A miniature runtime: global 10 is a configurable built-in object
   ("JSON"), 11 a non-configurable one ("NaN"), 12 is inherited ("toString"), 13 is the inherited
   accessor ("__proto__", only meaningful to the pre-repair model); 20.. are arg names. *)
From Coq Require Import List NArith Bool.
From Coq Require String. Import String.StringSyntax.
Local Delimit Scope string_scope with string.
From stdpp Require Import gmap.
From OV Require Import Base.Bytes Base.Cases Model.Js Proofs.Js.
Import ListNotations.

Definition r0 : rt := mk_rt [(10%N, (JOpaque false, true)); (11%N, (JNum NNaN, false))]
                           [(12%N, JOpaque true); (13%N, JOpaque false)].
Definition ret_node : sexpr := SVar NODE.
Definition compile0 : N -> option script := compile_of [(1%N, Some ret_node); (2%N, Some (STypeof 10%N))].

Lemma r0_wf : rt_wf r0.
Proof. apply rt_wf_b_sound. vm_compute. reflexivity. Qed.

(* F6: the same node ID with changed content gets the stale text.  Two calls on node ID 7,
   first with JSON "1" then with JSON "2": the second call's _node is still "1". *)
Definition f6_events : list event :=
  [EvCall (mkCall (Some (7%N, hx "31"%string)) 1 [] false) (mkSched ChFresh [NODE] [NODE]);
   EvCall (mkCall (Some (7%N, hx "32"%string)) 1 [] false) (mkSched (ChPool 0) [NODE] [NODE])].

Lemma node_json_refuted :
  exists r compile es c sc now id o,
    rt_wf r /\ (forall c sc, In (c, sc) (calls_of es) -> call_wf c sc) /\
    nth_error (calls_of es) 1 = Some (c, sc) /\ c_node c = Some (id, now) /\
    nth_error (snd (run r compile (st_init false 65536 65536) es)) 1 = Some o /\
    o <> call_spec r compile c sc /\ exists stale, snd o = Some stale /\ stale <> now.
Proof.
  exists r0, compile0, f6_events.
  eexists _, _, _, _, _. split; [exact r0_wf|]. split.
  - intros c sc [H|[H|[]]]; inversion H; subst; apply call_wf_b_sound; vm_compute; reflexivity.
  - split; [reflexivity|]. split; [reflexivity|]. split; [vm_compute; reflexivity|].
    split; [vm_compute; discriminate|]. eexists; split; [reflexivity|discriminate].
Qed.

(* the hypothesis of node_json_fresh is what fails on the witness *)
Lemma f6_not_stable : ~ content_stable_per_id (map fst (calls_of f6_events)).
Proof.
  intros H. simpl in H.
  specialize (H _ _ 7%N (hx "31"%string) (hx "32"%string) (or_introl eq_refl) (or_intror (or_introl eq_refl)) eq_refl eq_refl).
  discriminate.
Qed.

(* ---- code before the repairs: isolation failed --------------------------------------------------- *)
Definition old0 : vm_old := mkOld (rt_own r0) ∅.
Definition acc0 (k : N) : bool := N.eqb k 13.

(* F17 (before b3b4f53): an arg named like a configurable built-in: the wipe deleted the built-in *)
Example js_isolation_old_refuted_builtin :
  let m1 := fst (run_old false r0 acc0 old0 [(10%N, JStr (hx "78"%string))] (denote (SLit (JBool true)))) in
  view_old r0 acc0 old0 !! 10%N = Some (JOpaque false) /\ view_old r0 acc0 m1 !! 10%N = None.
Proof. vm_compute. split; reflexivity. Qed.

(* F17b (before d724cc8): an arg named __proto__ with an object value: its fields stayed visible *)
Example js_isolation_old_refuted_proto :
  let m1 := fst (run_old true r0 acc0 old0 [(13%N, JObj [(20%N, JNum (NFin 42))])] (denote (SLit (JBool true)))) in
  view_old r0 acc0 old0 !! 20%N = None /\ view_old r0 acc0 m1 !! 20%N = Some (JNum (NFin 42)).
Proof. vm_compute. split; reflexivity. Qed.

(* F17c (d724cc8, before 12a3496): defining arg 11 fails first; arg 10 was never recorded as
   shadowed but is wiped all the same *)
Example js_isolation_d724_refuted :
  let '(m1, res) := run_on_d724 r0 (fresh_vm r0) [(11%N, JBool true); (10%N, JBool true)] [11%N; 10%N]
                                (denote (SLit (JBool true))) in
  res = RSetErr /\ view r0 (fresh_vm r0) !! 10%N = Some (JOpaque false) /\ view r0 m1 !! 10%N = None.
Proof. vm_compute. repeat split; reflexivity. Qed.

(* the same three inputs on the current model leave the runtime as new *)
Example js_isolation_now_holds :
  fst (run_on r0 (fresh_vm r0) [(10%N, JStr (hx "78"%string))] [10%N] (denote (SLit (JBool true)))) = fresh_vm r0 /\
  fst (run_on r0 (fresh_vm r0) [(13%N, JObj [(20%N, JNum (NFin 42))])] [13%N] (denote (SLit (JBool true)))) = fresh_vm r0 /\
  fst (run_on r0 (fresh_vm r0) [(11%N, JBool true); (10%N, JBool true)] [11%N; 10%N] (denote (SLit (JBool true)))) = fresh_vm r0.
Proof.
  repeat split; apply run_on_restores; try exact r0_wf; intros k; simpl; set_solver.
Qed.

(* ---- the excluded class really is outside: a script that creates a global ---------------------- *)
(* call 1 (`t = 5; t`) leaves the binding 30 on the runtime; call 2 (`typeof t`), which has no
   args at all, sees it on the pooled runtime but not on a new one.  With a script that cannot
   write globals (the property's class) run_on_g is run_on. *)
Definition gw_s1 : gscript := fun _ => (Normal (JNum (NFin 5)), [(30%N, JNum (NFin 5))]).

Lemma js_global_writers_refuted :
  exists r (s1 : gscript) (s2 : script),
    rt_wf r /\
    fst (run_on_g r (fresh_vm r) [] [] s1) <> fresh_vm r /\
    snd (run_on r (fst (run_on_g r (fresh_vm r) [] [] s1)) [] [] s2)
      <> snd (run_on r (fresh_vm r) [] [] s2).
Proof.
  exists r0, gw_s1, (denote (STypeof 30%N)).
  split; [exact r0_wf|]. split.
  - intros H.
    assert (E1 : fst (run_on_g r0 (fresh_vm r0) [] [] gw_s1) !! 30%N = Some (mkSlot (JNum (NFin 5)) true false))
      by (vm_compute; reflexivity).
    assert (E2 : fresh_vm r0 !! 30%N = None) by (vm_compute; reflexivity).
    rewrite H, E2 in E1. discriminate.
  - vm_compute. discriminate.
Qed.

Lemma run_on_g_pure_script r m ord1 ord2 (s : script) :
  run_on_g r m ord1 ord2 (fun g => (s g, [])) = run_on r m ord1 ord2 s.
Proof. unfold run_on_g, run_on. destruct (set_args m ord1) as [m1 [|]]; reflexivity. Qed.
