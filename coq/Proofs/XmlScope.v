(* C08 proofs, XML half, part 2: namespace prefixes.

   xml_dom_built: for every document inside ns_wf and uri_single_prefix the reader builds the
   reference DOM xdom_doc (prefix as written, URI as bound in scope).  The proof threads the
   reader's single global URI->prefix map through the document: every entry of the map comes
   from a declaration of the document (map_sound), every binding in scope has been entered
   (map_covers), and since no URI has two prefixes the lookup returns the written prefix.
   xml_prefix_refuted: the F11 witness, outside uri_single_prefix. *)
From Coq Require Import List NArith Bool Lia.
From Coq.Strings Require Import Byte.
Import ListNotations.
From OV Require Import Base.Bytes Base.Cases Base.Tree Model.Json Model.Xml Proofs.Xml.

(* ---- association lists ------------------------------------------------------------------------ *)
Lemma slookup_app l m k :
  slookup (l ++ m) k = match slookup l k with Some v => Some v | None => slookup m k end.
Proof.
  induction l as [|[k' v] r IH]; [reflexivity|]. simpl. destruct (bytes_eqb k k'); [reflexivity|exact IH].
Qed.
Lemma slookup_in l k v : slookup l k = Some v -> In (k, v) l.
Proof.
  induction l as [|[k' v'] r IH]; [discriminate|]. simpl. destruct (bytes_eqb k k') eqn:E.
  - intro H. inversion H; subst. apply bytes_eqb_true in E. subst. left. reflexivity.
  - intro H. right. exact (IH H).
Qed.
Lemma in_slookup l k v : In (k, v) l -> slookup l k <> None.
Proof.
  induction l as [|[k' v'] r IH]; [intros []|]. intros [H|H]; simpl.
  - inversion H; subst. rewrite bytes_eqb_rfl. discriminate.
  - destruct (bytes_eqb k k'); [discriminate|exact (IH H)].
Qed.

Definition swap (d : bytes * bytes) : bytes * bytes := (snd d, fst d).

(* ---- named versions of the nested recursions --------------------------------------------------- *)
Definition xkids_toks (env : smap) (e : xtok) : list xnode -> list xtok :=
  fix go ks := match ks with [] => [e] | k :: r => xtoks env k ++ go r end.
Definition tokattr (env : smap) (a : xattr) : bytes * bytes * bytes :=
  (translate env (xa_pfx a) (xa_loc a) false, xa_loc a, xa_val a).

Lemma xtoks_elem env p l attrs kids :
  xtoks env (XElem p l attrs kids) =
  let env' := push_decls env attrs in
  let sp := translate env' p l true in
  XTStart sp l (map (tokattr env') attrs) :: xkids_toks env' (XTEnd sp l) kids.
Proof. reflexivity. Qed.

Lemma xdom_elem env p l attrs kids :
  xdom env (XElem p l attrs kids) =
  let env' := push_decls env attrs in
  [T ElementNode l (FXml p (scope_uri env' p)) (map (xdom_attr env') attrs ++ flat_map (xdom env') kids)].
Proof.
  reflexivity.
Qed.

Lemma node_wf_elem env p l attrs kids :
  node_wf env (XElem p l attrs kids) =
  let env' := push_decls env attrs in
  forallb decl_ok attrs && forallb (attr_use_ok env') attrs
  && negb (bytes_eqb p b_xmlns)
  && (if is_nil p then negb (bytes_eqb l b_xmlns) else pfx_bound env' p)
  && forallb (node_wf env') kids.
Proof. reflexivity. Qed.

Lemma all_decls_elem p l attrs kids :
  all_decls (XElem p l attrs kids) = attr_decls attrs ++ flat_map all_decls kids.
Proof. reflexivity. Qed.

Lemma push_decls_eq attrs : forall env, push_decls env attrs = rev (attr_decls attrs) ++ env.
Proof.
  induction attrs as [|a r IH]; intro env; [reflexivity|].
  simpl. destruct (bytes_eqb (xa_pfx a) b_xmlns) eqn:E1.
  - assert (En : is_nil (xa_pfx a) = false)
      by (apply bytes_eqb_true in E1; rewrite E1; reflexivity).
    rewrite En. simpl. rewrite IH. unfold sset. rewrite <- app_assoc. reflexivity.
  - destruct (is_nil (xa_pfx a) && bytes_eqb (xa_loc a) b_xmlns) eqn:E2.
    + simpl. rewrite IH. unfold sset. rewrite <- app_assoc. reflexivity.
    + apply IH.
Qed.

Lemma xml_url_not_xmlns : bytes_eqb xml_url b_xmlns = false.
Proof. reflexivity. Qed.
Lemma xml_not_xmlns : bytes_eqb b_xml b_xmlns = false.
Proof. reflexivity. Qed.

Section Scope.
  (* every declaration of the document, plus the built-in xml binding *)
  Variable D : list (bytes * bytes).
  Hypothesis D_builtin : In (b_xml, xml_url) D.
  Hypothesis D_single : forall p1 p2 u, In (p1, u) D -> In (p2, u) D -> p1 = p2.
  Hypothesis D_uri : forall p u, In (p, u) D -> bytes_eqb u b_xmlns = false.

  (* sp.space2prefix holds only declarations of the document ... *)
  Definition map_sound (m : smap) : Prop := forall u p, slookup m u = Some p -> In (p, u) D.
  (* ... and has an entry for every non-empty URI bound in scope, and for the xml namespace *)
  Definition map_covers (m : smap) (env : smap) : Prop :=
    slookup m xml_url <> None /\
    forall p u, slookup env p = Some u -> is_nil u = false -> slookup m u <> None.
  (* the scope holds only declarations of the document; no prefix is the xml namespace URI *)
  Definition env_ok (env : smap) : Prop :=
    slookup env xml_url = None /\
    forall p u, slookup env p = Some u -> is_nil u = false -> In (p, u) D.
  Definition grows (m m' : smap) : Prop := forall u, slookup m u <> None -> slookup m' u <> None.

  Lemma grows_refl m : grows m m.
  Proof. intros u H. exact H. Qed.
  Lemma grows_trans m1 m2 m3 : grows m1 m2 -> grows m2 m3 -> grows m1 m3.
  Proof. intros H1 H2 u H. apply H2, H1, H. Qed.
  Lemma covers_grows m m' env : map_covers m env -> grows m m' -> map_covers m' env.
  Proof. intros [H1 H2] Hg. split; [apply Hg, H1|]. intros p u Hp Hu. apply Hg. exact (H2 p u Hp Hu). Qed.

  (* the lookup returns the prefix written in the document *)
  Lemma resolve m env p u :
    map_sound m -> map_covers m env -> env_ok env ->
    slookup env p = Some u -> is_nil u = false -> slookup m u = Some p.
  Proof.
    intros Hs [_ Hc] [_ He] Hp Hu.
    destruct (slookup m u) as [p'|] eqn:E; [|exfalso; exact (Hc p u Hp Hu E)].
    f_equal. apply (D_single p' p u); [exact (Hs u p' E)|exact (He p u Hp Hu)].
  Qed.
  Lemma resolve_xml m env : map_sound m -> map_covers m env -> slookup m xml_url = Some b_xml.
  Proof.
    intros Hs [Hc _]. destruct (slookup m xml_url) as [p'|] eqn:E; [|contradiction].
    f_equal. apply (D_single p' b_xml xml_url); [exact (Hs _ _ E)|exact D_builtin].
  Qed.
  Lemma no_xmlns_uri m : map_sound m -> slookup m b_xmlns = None.
  Proof.
    intro Hs. destruct (slookup m b_xmlns) as [p|] eqn:E; [|reflexivity].
    apply Hs, D_uri in E. rewrite bytes_eqb_rfl in E. discriminate.
  Qed.

  (* a used, bound prefix: what encoding/xml reports as Name.Space is the URI in scope *)
  Lemma translate_pref env p l is_elem :
    bytes_eqb p b_xmlns = false -> is_nil p = false -> pfx_bound env p = true ->
    slookup env xml_url = None ->
    translate env p l is_elem = scope_uri env p /\ is_nil (scope_uri env p) = false /\
    (bytes_eqb p b_xml = false -> slookup env p = Some (scope_uri env p)).
  Proof.
    intros E1 E2 Hb Hx. unfold translate, scope_uri. rewrite E1, E2. simpl.
    unfold pfx_bound in Hb. destruct (bytes_eqb p b_xml) eqn:E3.
    - rewrite Hx. repeat split. discriminate.
    - simpl in Hb. destruct (slookup env p) as [u|]; [|discriminate].
      repeat split. apply negb_true_iff in Hb. exact Hb.
  Qed.

  Lemma translate_unpref env l :
    bytes_eqb l b_xmlns = false -> translate env [] l true = scope_uri env [].
  Proof.
    intro E. unfold translate, scope_uri. simpl. rewrite E.
    destruct (slookup env []); reflexivity.
  Qed.

  Lemma scope_uri_in env p :
    env_ok env -> bytes_eqb p b_xml = false -> is_nil (scope_uri env p) = false ->
    slookup env p = Some (scope_uri env p).
  Proof.
    intros _ E Hn. unfold scope_uri in *. rewrite E in *.
    destruct (slookup env p); [reflexivity|discriminate].
  Qed.

  Lemma elem_specific m env p l :
    map_sound m -> map_covers m env -> env_ok env ->
    bytes_eqb p b_xmlns = false ->
    (if is_nil p then negb (bytes_eqb l b_xmlns) else pfx_bound env p) = true ->
    xml_specific m ElementNode (translate env p l true) = Some (p, scope_uri env p).
  Proof.
    intros Hs Hc He E1 Hn. destruct (is_nil p) eqn:E2.
    - apply is_nil_true in E2. subst p. apply negb_true_iff in Hn.
      rewrite (translate_unpref env l Hn). unfold xml_specific.
      destruct (is_nil (scope_uri env [])) eqn:E3.
      + apply is_nil_true in E3. rewrite E3. reflexivity.
      + rewrite (resolve m env [] _ Hs Hc He (scope_uri_in env [] He eq_refl E3) E3). reflexivity.
    - destruct (translate_pref env p l true E1 E2 Hn (proj1 He)) as (Ht & Hu & Hl).
      rewrite Ht. unfold xml_specific. rewrite Hu.
      destruct (bytes_eqb p b_xml) eqn:E3.
      + apply bytes_eqb_true in E3. subst p. unfold scope_uri. simpl.
        rewrite (resolve_xml m env Hs Hc). reflexivity.
      + rewrite (resolve m env p _ Hs Hc He (Hl eq_refl) Hu). reflexivity.
  Qed.

  Lemma attr_specific m env a :
    map_sound m -> map_covers m env -> env_ok env ->
    decl_ok a = true -> attr_use_ok env a = true ->
    exists p u, xml_specific m AttributeNode (translate env (xa_pfx a) (xa_loc a) false) = Some (p, u)
                /\ xdom_attr env a = T AttributeNode (xa_loc a) (FXml p u) [xtext (xa_val a)].
  Proof.
    intros Hs Hc He Hd Hu. unfold xdom_attr, attr_use_ok in *.
    destruct (bytes_eqb (xa_pfx a) b_xmlns) eqn:E1.
    - exists b_xmlns, []. split; [|reflexivity].
      unfold translate. rewrite E1. apply bytes_eqb_true in E1. rewrite E1.
      unfold xml_specific. simpl is_nil. cbv iota. rewrite (no_xmlns_uri m Hs). reflexivity.
    - destruct (is_nil (xa_pfx a)) eqn:E2.
      + exists [], []. split; [|reflexivity].
        unfold translate. rewrite E1, E2. simpl. apply is_nil_true in E2. rewrite E2. reflexivity.
      + apply andb_prop in Hu as [Hb Hl].
        destruct (translate_pref env (xa_pfx a) (xa_loc a) false E1 E2 Hb (proj1 He)) as (Ht & Hn & Hlk).
        exists (xa_pfx a), (scope_uri env (xa_pfx a)). split; [|reflexivity].
        rewrite Ht. unfold xml_specific. rewrite Hn.
        destruct (bytes_eqb (xa_pfx a) b_xml) eqn:E3.
        * apply bytes_eqb_true in E3. rewrite E3. unfold scope_uri. simpl.
          rewrite (resolve_xml m env Hs Hc). reflexivity.
        * rewrite (resolve m env _ _ Hs Hc He (Hlk eq_refl) Hn). reflexivity.
  Qed.

  Lemma attr_nodes_dom m env attrs :
    map_sound m -> map_covers m env -> env_ok env ->
    forallb decl_ok attrs = true -> forallb (attr_use_ok env) attrs = true ->
    attr_nodes m (map (tokattr env) attrs) = Some (map (xdom_attr env) attrs).
  Proof.
    intros Hs Hc He. induction attrs as [|a r IH]; intros Hd Hu; [reflexivity|].
    simpl in Hd, Hu. apply andb_prop in Hd as [Hd1 Hd2]. apply andb_prop in Hu as [Hu1 Hu2].
    destruct (attr_specific m env a Hs Hc He Hd1 Hu1) as (p & u & Hx & Hdom).
    simpl. rewrite Hx, (IH Hd2 Hu2), Hdom. reflexivity.
  Qed.

  Lemma update_ns_eq env attrs :
    env_ok env -> forallb decl_ok attrs = true -> forallb (attr_use_ok env) attrs = true ->
    forall m, update_ns m (map (tokattr env) attrs) = rev (map swap (attr_decls attrs)) ++ m.
  Proof.
    intros He. induction attrs as [|a r IH]; intros Hd Hu m; [reflexivity|].
    simpl in Hd, Hu. apply andb_prop in Hd as [Hd1 Hd2]. apply andb_prop in Hu as [Hu1 Hu2].
    simpl. unfold decl_ok, attr_use_ok in Hd1, Hu1.
    destruct (bytes_eqb (xa_pfx a) b_xmlns) eqn:E1.
    - (* xmlns:p="..." *)
      unfold translate. rewrite E1.
      assert (El : bytes_eqb (xa_loc a) b_xmlns = false).
      { repeat (apply andb_prop in Hd1 as [Hd1 ?]). apply negb_true_iff. assumption. }
      rewrite El, E1. rewrite (IH Hd2 Hu2). simpl. unfold sset, swap. simpl.
      rewrite <- app_assoc. reflexivity.
    - destruct (is_nil (xa_pfx a) && bytes_eqb (xa_loc a) b_xmlns) eqn:E2.
      + (* xmlns="..." *)
        apply andb_prop in E2 as [E2 E3]. rewrite E3.
        rewrite (IH Hd2 Hu2). simpl. unfold sset, swap. simpl. rewrite <- app_assoc. reflexivity.
      + (* an ordinary attribute leaves the map alone *)
        assert (Hno : bytes_eqb (xa_loc a) b_xmlns = false /\
                      bytes_eqb (translate env (xa_pfx a) (xa_loc a) false) b_xmlns = false).
        { destruct (is_nil (xa_pfx a)) eqn:E3.
          - simpl in E2. split; [exact E2|]. unfold translate. rewrite E1, E3. simpl.
            apply is_nil_true in E3. rewrite E3. reflexivity.
          - apply andb_prop in Hu1 as [Hb Hl]. apply negb_true_iff in Hl. split; [exact Hl|].
            destruct (translate_pref env (xa_pfx a) (xa_loc a) false E1 E3 Hb (proj1 He)) as (Ht & Hn & Hlk).
            rewrite Ht. destruct (bytes_eqb (xa_pfx a) b_xml) eqn:E4.
            + unfold scope_uri. rewrite E4. reflexivity.
            + apply (D_uri (xa_pfx a)). apply (proj2 He); [exact (Hlk eq_refl)|exact Hn]. }
        destruct Hno as [H1 H2]. rewrite H1, H2. apply (IH Hd2 Hu2).
  Qed.

  Lemma decl_prefix_ok attrs :
    forallb decl_ok attrs = true ->
    forall p u, In (p, u) (attr_decls attrs) -> bytes_eqb xml_url p = false.
  Proof.
    induction attrs as [|a r IH]; intros Hd p u Hin; [destruct Hin|].
    simpl in Hd. apply andb_prop in Hd as [Hd1 Hd2]. simpl in Hin. unfold decl_ok in Hd1.
    destruct (bytes_eqb (xa_pfx a) b_xmlns) eqn:E1.
    - destruct Hin as [Hin|Hin]; [|exact (IH Hd2 p u Hin)]. inversion Hin; subst.
      apply andb_prop in Hd1 as [Hd1 _]. apply andb_prop in Hd1 as [_ Hd1].
      apply negb_true_iff in Hd1. destruct (bytes_eqb xml_url (xa_loc a)) eqn:E; [|reflexivity].
      apply bytes_eqb_true in E. rewrite <- E, bytes_eqb_rfl in Hd1. discriminate.
    - destruct (is_nil (xa_pfx a) && bytes_eqb (xa_loc a) b_xmlns).
      + destruct Hin as [Hin|Hin]; [|exact (IH Hd2 p u Hin)]. inversion Hin; subst. reflexivity.
      + exact (IH Hd2 p u Hin).
  Qed.

  (* the state after the declarations of a start tag *)
  Lemma start_invariants m env attrs :
    map_sound m -> map_covers m env -> env_ok env ->
    incl (attr_decls attrs) D -> forallb decl_ok attrs = true ->
    let env' := rev (attr_decls attrs) ++ env in
    let m' := rev (map swap (attr_decls attrs)) ++ m in
    map_sound m' /\ map_covers m' env' /\ env_ok env' /\ grows m m'.
  Proof.
    intros Hs Hc He Hin Hd env' m'.
    assert (Hg : grows m m').
    { intros u Hu. unfold m'. rewrite slookup_app.
      destruct (slookup (rev (map swap (attr_decls attrs))) u); [discriminate|exact Hu]. }
    split; [|split; [|split]]; [| | |exact Hg].
    - intros u p H. unfold m' in H. rewrite slookup_app in H.
      destruct (slookup (rev (map swap (attr_decls attrs))) u) as [v|] eqn:E; [|exact (Hs u p H)].
      inversion H; subst. apply slookup_in, in_rev, in_map_iff in E as ([p' u'] & Hsw & Hd').
      unfold swap in Hsw. simpl in Hsw. inversion Hsw; subst. exact (Hin _ Hd').
    - split; [apply Hg, (proj1 Hc)|]. intros p u Hp Hu. unfold env' in Hp. rewrite slookup_app in Hp.
      destruct (slookup (rev (attr_decls attrs)) p) as [v|] eqn:E.
      + inversion Hp; subst. apply slookup_in, in_rev in E.
        unfold m'. apply (in_slookup _ u p). apply in_or_app. left. apply in_rev. rewrite rev_involutive.
        apply in_map_iff. exists (p, u). split; [reflexivity|exact E].
      + apply Hg. exact (proj2 Hc p u Hp Hu).
    - split.
      + unfold env'. rewrite slookup_app.
        destruct (slookup (rev (attr_decls attrs)) xml_url) as [v|] eqn:E; [|exact (proj1 He)].
        apply slookup_in, in_rev in E. apply (decl_prefix_ok attrs Hd) in E.
        rewrite bytes_eqb_rfl in E. discriminate.
      + intros p u Hp Hu. unfold env' in Hp. rewrite slookup_app in Hp.
        destruct (slookup (rev (attr_decls attrs)) p) as [v|] eqn:E.
        * inversion Hp; subst. apply slookup_in, in_rev in E. exact (Hin _ E).
        * exact (proj2 He p u Hp Hu).
  Qed.

  (* ---- the reader on the tokens of a document ------------------------------------------------ *)
  Definition xf_addl (f : xframe) (l : list tree) : xframe :=
    mkXF (xf_ty f) (xf_data f) (xf_pfx f) (xf_uri f) (rev l ++ xf_kids f).
  Lemma xf_addl_nil f : xf_addl f [] = f.
  Proof. destruct f; reflexivity. Qed.
  Lemma xf_addl_app f l1 l2 : xf_addl (xf_addl f l1) l2 = xf_addl f (l1 ++ l2).
  Proof. unfold xf_addl. simpl. rewrite rev_app_distr, app_assoc. reflexivity. Qed.
  Lemma xf_addl_one f c : xf_addl f [c] = xf_add f c.
  Proof. reflexivity. Qed.

  Lemma xread_cons s t r :
    xread s (t :: r) =
    let '(s', o) := xstep s t in
    match o with Some res => (res, s', r) | None => xread s' r end.
  Proof. reflexivity. Qed.

  (* a node below the document element (the stream node is already marked, at depth 2) *)
  Definition NodeStmt (n : xnode) : Prop :=
    forall env m top below rest,
      node_wf env n = true -> incl (all_decls n) D ->
      map_sound m -> map_covers m env -> env_ok env -> below <> [] ->
      exists m',
        xread (mkXS (top :: below) m (Some 2%nat)) (xtoks env n ++ rest)
        = xread (mkXS (xf_addl top (xdom env n) :: below) m' (Some 2%nat)) rest
        /\ map_sound m' /\ grows m m'.

  Lemma kids_run kids :
    Forall NodeStmt kids ->
    forall env m top below rest e,
      forallb (node_wf env) kids = true -> incl (flat_map all_decls kids) D ->
      map_sound m -> map_covers m env -> env_ok env -> below <> [] ->
      exists m',
        xread (mkXS (top :: below) m (Some 2%nat)) (xkids_toks env e kids ++ rest)
        = xread (mkXS (xf_addl top (flat_map (xdom env) kids) :: below) m' (Some 2%nat)) (e :: rest)
        /\ map_sound m' /\ grows m m'.
  Proof.
    induction 1 as [|k r Hk Hr IH]; intros env m top below rest e Hwf Hin Hs Hc He Hb.
    - exists m. simpl. rewrite xf_addl_nil. split; [reflexivity|]. split; [exact Hs|apply grows_refl].
    - simpl in Hwf. apply andb_prop in Hwf as [Hw1 Hw2].
      simpl in Hin. apply incl_app_inv in Hin as [Hin1 Hin2].
      simpl xkids_toks. rewrite <- app_assoc.
      destruct (Hk env m top below (xkids_toks env e r ++ rest) Hw1 Hin1 Hs Hc He Hb) as (m1 & E1 & Hs1 & Hg1).
      destruct (IH env m1 (xf_addl top (xdom env k)) below rest e Hw2 Hin2 Hs1
                  (covers_grows _ _ _ Hc Hg1) He Hb) as (m2 & E2 & Hs2 & Hg2).
      exists m2. rewrite E1, E2, xf_addl_app. simpl flat_map.
      split; [reflexivity|]. split; [exact Hs2|exact (grows_trans _ _ _ Hg1 Hg2)].
  Qed.

  (* an element, from its start tag up to (not including) its end tag; also used for the
     document element, where the start tag marks the stream node *)
  Lemma elem_to_end p l attrs kids :
    Forall NodeStmt kids ->
    forall env m stack st rest,
      stack <> [] -> (st = Some 2%nat \/ (st = None /\ length stack = 1%nat)) ->
      node_wf env (XElem p l attrs kids) = true -> incl (all_decls (XElem p l attrs kids)) D ->
      map_sound m -> map_covers m env -> env_ok env ->
      let env' := push_decls env attrs in
      let sp := translate env' p l true in
      exists m',
        xread (mkXS stack m st) (xtoks env (XElem p l attrs kids) ++ rest)
        = xread (mkXS (mkXF ElementNode l p (scope_uri env' p)
                         (rev (flat_map (xdom env') kids) ++ rev (map (xdom_attr env') attrs)) :: stack)
                      m' (Some 2%nat)) (XTEnd sp l :: rest)
        /\ map_sound m' /\ grows m m'.
  Proof.
    intros Hkids env m stack st rest Hne Hst Hwf Hin Hs Hc He env' sp.
    rewrite node_wf_elem in Hwf. fold env' in Hwf. cbv zeta in Hwf.
    repeat (apply andb_prop in Hwf as [Hwf ?]).
    rename H into Hwk, H0 into Hname, H1 into Hpx, H2 into Hau, Hwf into Hdk.
    apply negb_true_iff in Hpx.
    rewrite all_decls_elem in Hin. apply incl_app_inv in Hin as [Hin1 Hin2].
    pose proof (push_decls_eq attrs env) as Henv. fold env' in Henv.
    destruct (start_invariants m env attrs Hs Hc He Hin1 Hdk) as (Hs' & Hc' & He' & Hg').
    rewrite <- Henv in Hc', He'.
    set (m1 := rev (map swap (attr_decls attrs)) ++ m) in *.
    rewrite xtoks_elem. fold env'. cbv zeta. fold sp.
    rewrite <- app_comm_cons, xread_cons.
    unfold xstep. cbn [xs_map xs_stack xs_stream].
    rewrite (update_ns_eq env' attrs He' Hdk Hau m). fold m1.
    unfold sp at 1. rewrite (elem_specific m1 env' p l Hs' Hc' He' Hpx Hname).
    destruct stack as [|top below]; [contradiction|].
    rewrite (attr_nodes_dom m1 env' attrs Hs' Hc' He' Hdk Hau).
    assert (Est : match st with None => Some (length (mkXF ElementNode l p (scope_uri env' p) (rev (map (xdom_attr env') attrs)) :: top :: below)) | Some d => Some d end = Some 2%nat).
    { destruct Hst as [-> | [-> Hl]]; [reflexivity|]. simpl in Hl |- *. f_equal. lia. }
    rewrite Est.
    destruct (kids_run kids Hkids env' m1
                (mkXF ElementNode l p (scope_uri env' p) (rev (map (xdom_attr env') attrs)))
                (top :: below) rest (XTEnd sp l) Hwk Hin2 Hs' Hc' He') as (m2 & E2 & Hs2 & Hg2);
      [discriminate|].
    exists m2. rewrite E2. split; [reflexivity|]. split; [exact Hs2|exact (grows_trans _ _ _ Hg' Hg2)].
  Qed.

  Lemma dom_tree_closed env' l p attrs kids :
    xf_tree (mkXF ElementNode l p (scope_uri env' p)
               (rev (flat_map (xdom env') kids) ++ rev (map (xdom_attr env') attrs)))
    = T ElementNode l (FXml p (scope_uri env' p)) (map (xdom_attr env') attrs ++ flat_map (xdom env') kids).
  Proof.
    unfold xf_tree. cbn [xf_ty xf_data xf_pfx xf_uri xf_kids].
    rewrite rev_app_distr, !rev_involutive. reflexivity.
  Qed.

  Section xnode_ind2.
    Variable P : xnode -> Prop.
    Hypothesis HE : forall p l attrs kids, Forall P kids -> P (XElem p l attrs kids).
    Hypothesis HT : forall s, P (XText s).
    Hypothesis HS : P XSkip.
    Fixpoint xnode_ind2 (n : xnode) : P n :=
      match n with
      | XElem p l attrs kids =>
          HE p l attrs kids ((fix go (ks : list xnode) : Forall P ks :=
                                match ks with
                                | [] => Forall_nil P
                                | k :: r => Forall_cons k (xnode_ind2 k) (go r)
                                end) kids)
      | XText s => HT s
      | XSkip => HS
      end.
  End xnode_ind2.

  Lemma node_stmt n : NodeStmt n.
  Proof.
    induction n as [p l attrs kids IH | s | ] using xnode_ind2;
      intros env m top below rest Hwf Hin Hs Hc He Hb.
    - destruct (elem_to_end p l attrs kids IH env m (top :: below) (Some 2%nat) rest
                  ltac:(discriminate) (or_introl eq_refl) Hwf Hin Hs Hc He) as (m' & E & Hs' & Hg').
      exists m'. rewrite E. split; [|split; assumption].
      rewrite xread_cons. unfold xstep. cbn [xs_stack xs_stream xs_map].
      destruct below as [|b bs]; [contradiction|].
      cbn [length Nat.eqb]. rewrite dom_tree_closed, xdom_elem. reflexivity.
    - exists m. split; [reflexivity|]. split; [exact Hs|apply grows_refl].
    - exists m. split; [simpl; rewrite xf_addl_nil; reflexivity|]. split; [exact Hs|apply grows_refl].
  Qed.

  (* the document level: prolog items, then the document element, whose end tag ends the Read *)
  Lemma doc_run d :
    forall docf m,
      forallb (node_wf []) d = true -> incl (flat_map all_decls d) D -> has_elem d = true ->
      map_sound m -> map_covers m [] ->
      exists e s' rest,
        xread (mkXS [docf] m None) (flat_map (xtoks []) d)
        = (XRNode e (T (xf_ty docf) (xf_data docf) (FXml (xf_pfx docf) (xf_uri docf))
                       (rev (xf_kids docf) ++ xdom_items d)), s', rest)
        /\ In e (xdom_items d).
  Proof.
    assert (He0 : env_ok []) by (split; [reflexivity|intros p u H; discriminate]).
    induction d as [|n r IH]; intros docf m Hwf Hin Hel Hs Hc; [discriminate|].
    simpl in Hwf. apply andb_prop in Hwf as [Hw1 Hw2].
    simpl in Hin. apply incl_app_inv in Hin as [Hin1 Hin2].
    destruct n as [p l attrs kids | s | ].
    - change (flat_map (xtoks []) (XElem p l attrs kids :: r))
        with (xtoks [] (XElem p l attrs kids) ++ flat_map (xtoks []) r).
      destruct (elem_to_end p l attrs kids
                  (proj2 (Forall_forall NodeStmt kids) (fun k _ => node_stmt k))
                  [] m [docf] None (flat_map (xtoks []) r)
                  ltac:(discriminate) (or_intror (conj eq_refl eq_refl)) Hw1 Hin1 Hs Hc He0)
        as (m' & E & Hs' & Hg').
      rewrite E. rewrite xread_cons. unfold xstep. cbn [xs_stack xs_stream xs_map length Nat.eqb last].
      rewrite dom_tree_closed.
      eexists _, _, _. split.
      + unfold xf_tree, xf_add. cbn [xf_ty xf_data xf_pfx xf_uri xf_kids]. simpl rev.
        change (xdom_items (XElem p l attrs kids :: r)) with (xdom [] (XElem p l attrs kids)).
        rewrite xdom_elem. reflexivity.
      + change (xdom_items (XElem p l attrs kids :: r)) with (xdom [] (XElem p l attrs kids)).
        rewrite xdom_elem. left. reflexivity.
    - change (flat_map (xtoks []) (XText s :: r)) with (XTChar s :: flat_map (xtoks []) r).
      rewrite xread_cons. unfold xstep. cbn [xs_stack xs_stream xs_map].
      destruct (IH (xf_add docf (xtext s)) m Hw2 Hin2 Hel Hs Hc) as (e & s' & rest & E & Hine).
      exists e, s', rest. rewrite E. split.
      + unfold xf_add. cbn [xf_ty xf_data xf_pfx xf_uri xf_kids]. simpl rev.
        rewrite <- app_assoc. reflexivity.
      + simpl. right. exact Hine.
    - change (flat_map (xtoks []) (XSkip :: r)) with (XTOther :: flat_map (xtoks []) r).
      rewrite xread_cons. unfold xstep.
      destruct (IH docf m Hw2 Hin2 Hel Hs Hc) as (e & s' & rest & E & Hine).
      exists e, s', rest. rewrite E. split; [reflexivity|exact Hine].
  Qed.
End Scope.

(* ---- discharging the Section hypotheses for D = doc_decls d ------------------------------------ *)
Lemma attr_decl_uri attrs :
  forallb decl_ok attrs = true ->
  forall p u, In (p, u) (attr_decls attrs) -> bytes_eqb u b_xmlns = false.
Proof.
  induction attrs as [|a r IH]; intros Hd p u Hin; [destruct Hin|].
  simpl in Hd. apply andb_prop in Hd as [Hd1 Hd2]. simpl in Hin. unfold decl_ok in Hd1.
  destruct (bytes_eqb (xa_pfx a) b_xmlns) eqn:E1.
  - destruct Hin as [Hin|Hin]; [|exact (IH Hd2 p u Hin)]. inversion Hin; subst.
    do 4 (apply andb_prop in Hd1 as [Hd1 _]). apply andb_prop in Hd1 as [_ Hd1].
    apply negb_true_iff in Hd1. exact Hd1.
  - destruct (is_nil (xa_pfx a) && bytes_eqb (xa_loc a) b_xmlns).
    + destruct Hin as [Hin|Hin]; [|exact (IH Hd2 p u Hin)]. inversion Hin; subst.
      apply negb_true_iff in Hd1. exact Hd1.
    + exact (IH Hd2 p u Hin).
Qed.

Lemma wf_decl_uri n :
  forall env, node_wf env n = true ->
  forall p u, In (p, u) (all_decls n) -> bytes_eqb u b_xmlns = false.
Proof.
  induction n as [p0 l attrs kids IH | s | ] using xnode_ind2; intros env Hwf p u Hin;
    [|destruct Hin|destruct Hin].
  rewrite node_wf_elem in Hwf. cbv zeta in Hwf.
  repeat (apply andb_prop in Hwf as [Hwf ?]). rename H into Hwk.
  rewrite all_decls_elem in Hin. apply in_app_or in Hin as [Hin|Hin].
  - exact (attr_decl_uri attrs Hwf p u Hin).
  - apply in_flat_map in Hin as (k & Hk & Hin).
    rewrite Forall_forall in IH. rewrite forallb_forall in Hwk.
    exact (IH k Hk _ (Hwk k Hk) p u Hin).
Qed.

Theorem xml_dom_built d :
  ns_wf d = true -> uri_single_prefix d = true -> has_elem d = true ->
  exists e, xbuild (xtokens d) = XRNode e (xdom_doc d) /\ In e (t_kids (xdom_doc d)).
Proof.
  intros Hwf Hsp Hel.
  set (D := doc_decls d).
  assert (D_builtin : In (b_xml, xml_url) D) by (left; reflexivity).
  assert (D_single : forall p1 p2 u, In (p1, u) D -> In (p2, u) D -> p1 = p2).
  { intros p1 p2 u H1 H2. unfold uri_single_prefix, decls_single in Hsp. fold D in Hsp.
    rewrite forallb_forall in Hsp. specialize (Hsp _ H1). rewrite forallb_forall in Hsp.
    specialize (Hsp _ H2). simpl in Hsp. rewrite bytes_eqb_rfl in Hsp. simpl in Hsp.
    apply bytes_eqb_true. exact Hsp. }
  assert (D_uri : forall p u, In (p, u) D -> bytes_eqb u b_xmlns = false).
  { intros p u [H|H]; [inversion H; subst; reflexivity|].
    apply in_flat_map in H as (n & Hn & Hin). unfold ns_wf in Hwf. rewrite forallb_forall in Hwf.
    exact (wf_decl_uri n [] (Hwf n Hn) p u Hin). }
  destruct (doc_run D D_builtin D_single D_uri d (mkXF DocumentNode [] [] [] []) [(xml_url, b_xml)])
    as (e & s' & rest & E & Hin); try assumption.
  - apply incl_tl, incl_refl.
  - intros u p H. simpl in H. destruct (bytes_eqb u xml_url) eqn:Eu; [|discriminate].
    inversion H; subst. apply bytes_eqb_true in Eu. subst. exact D_builtin.
  - split; [vm_compute; discriminate|intros p u H; discriminate].
  - exists e. unfold xbuild, xtokens, xinit. rewrite E. split; [reflexivity|exact Hin].
Qed.

(* F11: <r xmlns:a="u"><x xmlns:b="u">1</x><a:y>2</a:y></r> *)
Definition f11_witness : xdoc :=
  [XElem [] [x72] [mkXA b_xmlns [x61] [x75]]
     [XElem [] [x78] [mkXA b_xmlns [x62] [x75]] [XText [x31]];
      XElem [x61] [x79] [] [XText [x32]]]].

Theorem xml_prefix_refuted :
  exists d, ns_wf d = true /\ lastwins_ok d = false /\ uri_single_prefix d = false /\
    exists e t, xbuild (xtokens d) = XRNode e t /\ tree_eqb t (xdom_doc d) = false /\
      In (T ElementNode [x79] (FXml [x62] [x75]) [T TextNode [x32] (FXml [] []) []]) (t_kids e).
Proof.
  exists f11_witness. split; [reflexivity|]. split; [reflexivity|]. split; [reflexivity|].
  eexists _, _. split; [vm_compute; reflexivity|]. split; [reflexivity|].
  simpl. right. right. left. reflexivity.
Qed.
