(* Proofs for C17: what is reachable from a delivered record does not grow with the number of
   records delivered (XML and JSON stream readers; record-at-a-time readers). *)
From Coq Require Import List NArith Bool Arith Lia.
Import ListNotations.
From OV Require Import Base.Bytes Base.Cases Base.Tree Model.Stream
  Proofs.Stream Proofs.StreamXml Proofs.StreamJson.

Lemma skipn_all_nil : forall {A} n, skipn n (@nil A) = [].
Proof. destruct n; reflexivity. Qed.

Lemma retained_push : forall g stack s s',
  stack <> [] ->
  retained (mkS (g :: stack) None s) = retained (mkS stack None s') + tree_size (close_frame g).
Proof.
  intros g [|f r] s s' Hne; [congruence|].
  destruct (rev_nonempty f r) as (f0 & fs & Hrev).
  unfold retained, root_tree. cbn [s_stack].
  rewrite zip_push, (zip_up_shape _ _ _ _ Hrev), (zip_up_shape _ _ _ _ Hrev).
  apply size_downT.
Qed.

Lemma fst_of_map : forall (L : list (tree * nat)) (t : tree) (b : bool),
  map fst L = (if b then [t] else []) -> Forall (fun d => fst d = t) L.
Proof.
  intros L t b H. destruct b.
  - destruct L as [|d [|d' L]]; try discriminate H. inversion H. constructor; [reflexivity|constructor].
  - destruct L; [constructor|discriminate H].
Qed.

Section XmlRetain.
  Variable pm : list name -> bool.
  Variable pred : tree -> bool.
  Variable has_filter : bool.
  Hypothesis Hnf : has_filter = false -> forall t, pred t = true.
  Notation run := (xrun pm pred has_filter false).

  (* a record: an element that is itself on the target path.  Character data is not a record:
     the guard [no_separator_text] of the theorem below is this [False]. *)
  Definition on_path_record (c : list name) (x : xnode) : Prop :=
    match x with XE _ _ _ _ => pm (c ++ [xname x]) = true | XT _ => False end.

  (* any number of records, nothing between them: after every one of them - delivered and
     released, or rejected - the reader is in the state it had before, and what was reachable at
     each delivery is that state's tree plus the delivered record. *)
  Lemma xml_records : forall recs f r rel rest,
    Inv pm (f :: r) -> Forall (on_path_record (chain_of (f :: r))) recs ->
    exists L,
      run (mkS (f :: r) None SNone) rel (flat_map xevents recs ++ rest) =
      prepend L (run (mkS (f :: r) None SNone) (skipn (length L) rel) rest) /\
      Forall (fun d => snd d = retained (mkS (f :: r) None SNone) + tree_size (fst d)) L /\
      map fst L = filter pred (map xtree recs).
  Proof.
    induction recs as [|x recs IH]; intros f r rel rest HI Hall.
    - exists []. cbn [flat_map app]. rewrite prepend_nil. repeat split. constructor.
    - inversion Hall as [|x0 l Hx Hrest]. subst x0 l.
      destruct x as [nm fs attrs kids|s]; [|destruct Hx]. cbn [on_path_record] in Hx.
      set (rec := XE nm fs attrs kids) in *.
      assert (Hg : grow pm (chain_of (f :: r)) rec = []) by (subst rec; cbn [grow]; rewrite Hx; reflexivity).
      assert (Hs : xspec pm pred (chain_of (f :: r)) rec = if pred (xtree rec) then [xtree rec] else []).
      { subst rec. cbn [xspec xtree]. rewrite spec_unfold, Hx. reflexivity. }
      cbn [flat_map]. rewrite <- app_assoc.
      destruct (run_node pm pred has_filter Hnf rec f r rel (flat_map xevents recs ++ rest) HI)
        as (L1 & E1 & R1 & _ & S1).
      rewrite Hg, add_kids_nil in R1. rewrite Hs in E1.
      destruct (IH f r (skipn (length L1) rel) rest HI Hrest) as (L2 & R2 & S2 & E2).
      exists (L1 ++ L2). split; [|split].
      + rewrite R1, R2, prepend_app, app_length, skipn_add. reflexivity.
      + apply Forall_app. split; [|exact S2].
        pose proof (fst_of_map _ _ _ E1) as F1. specialize (S1 Hx).
        clear -S1 F1. induction L1 as [|d L1 IHL]; [constructor|].
        inversion S1; inversion F1; subst. constructor; [|apply IHL; assumption].
        cbn beta in *. congruence.
      + rewrite map_app, E1, E2. cbn [map filter]. destruct (pred (xtree rec)); reflexivity.
  Qed.

  Lemma xrun_cont : forall st st' tk rel r,
    xstep pm pred has_filter false st tk = RCont st' -> run st rel (tk :: r) = run st' rel r.
  Proof. intros. cbn [xrun]. rewrite H. reflexivity. Qed.

  Lemma anc_frame_size : forall nm fs (attrs : list (bytes * fspec * bytes)),
    tree_size (close_frame (mkF ElementNode nm fs (map attr_node attrs))) = 1 + 2 * length attrs.
  Proof.
    intros.
    assert (H : forall l : list (bytes * fspec * bytes), sizes (map attr_node l) = 2 * length l).
    { induction l as [|[[a b] c] l IH]; [reflexivity|]. cbn [map length].
      change (sizes (attr_node (a, b, c) :: map attr_node l))
        with (tree_size (attr_node (a, b, c)) + sizes (map attr_node l)).
      rewrite IH. cbn. lia. }
    unfold close_frame. cbn [f_ty f_data f_fs f_kids]. rewrite tree_size_unfold, H. lia.
  Qed.

  (* the same below a chain of ancestors none of which is on the path *)
  Lemma xml_nest : forall recs anc f r rel rest,
    Inv pm (f :: r) ->
    (forall k, 1 <= k <= length anc -> pm (chain_of (f :: r) ++ firstn k (xanc_chain anc)) = false) ->
    Forall (on_path_record (chain_of (f :: r) ++ xanc_chain anc)) recs ->
    exists L l,
      run (mkS (f :: r) None SNone) rel (flat_map xevents (xnest anc recs) ++ rest) =
      prepend L (run (mkS (add_kids f l :: r) None SNone) (skipn (length L) rel) rest) /\
      Forall (fun d => snd d = retained (mkS (f :: r) None SNone) + xanc_size anc + tree_size (fst d)) L /\
      map fst L = filter pred (map xtree recs).
  Proof.
    intros recs anc. induction anc as [|[[anm afs] aattrs] anc IH];
      intros f r rel rest HI Hanc Hrecs.
    - cbn [xnest xanc_chain map app xanc_size fold_right] in *. rewrite app_nil_r in Hrecs.
      destruct (xml_records recs f r rel rest HI Hrecs) as (L & RL & SL & EL).
      exists L, []. rewrite add_kids_nil. split; [exact RL|]. split; [|exact EL].
      eapply Forall_impl; [|exact SL]. intros d Hd. cbn beta in Hd. rewrite Hd. lia.
    - cbn [xnest flat_map xevents]. rewrite app_nil_r, <- app_comm_cons, <- app_assoc.
      set (g := mkF ElementNode anm afs (map attr_node aattrs)).
      assert (Hg : elemf g) by reflexivity.
      assert (Hgk : Forall (fun k => is_element k = false) (f_kids g)) by apply attrs_nonelem.
      assert (Hp1 : pm (chain_of (f :: r) ++ [fname g]) = false).
      { apply (Hanc 1). cbn [length]. lia. }
      assert (Hstep : xstep pm pred has_filter false (mkS (f :: r) None SNone) (XStart anm afs aattrs)
                      = RCont (mkS (g :: f :: r) None SNone)).
      { cbn [xstep s_stack]. rewrite xstart_eq. fold g.
        rewrite (cc_fresh pm g f r HI Hg Hgk), Hp1. reflexivity. }
      rewrite (xrun_cont _ _ _ _ _ Hstep).
      assert (HI1 : Inv pm (g :: f :: r)) by (apply inv_push; assumption).
      assert (Hc1 : chain_of (g :: f :: r) = chain_of (f :: r) ++ [fname g]).
      { destruct (inv_shape pm _ HI) as (f0 & fs0 & Hrev & _).
        apply (chain_of_push g (f :: r) f0 fs0 Hrev). }
      destruct (IH g (f :: r) rel ([XEnd] ++ rest) HI1) as (L & l & RL & SL & EL).
      + intros k Hk. rewrite Hc1, <- app_assoc.
        apply (Hanc (S k)). cbn [length]. lia.
      + rewrite Hc1, <- app_assoc. exact Hrecs.
      + exists L, [close_frame (add_kids g l)]. split; [|split; [|exact EL]].
        * rewrite RL. f_equal;
            try (cbn [app]; apply xrun_cont; cbn [xstep]; apply wrap_inner; exact I).
        * eapply Forall_impl; [|exact SL]. intros d Hd. cbn beta in Hd. rewrite Hd.
          rewrite (retained_push g (f :: r) SNone SNone) by discriminate.
          unfold g. rewrite anc_frame_size. cbn [xanc_size fold_right].
          fold (xanc_size anc). lia.
  Qed.

  Theorem retained_bounded_xml_nosep_proof : forall anc recs rel,
    (forall k, k <= length anc -> pm (firstn k (xanc_chain anc)) = false) ->
    Forall (on_path_record (xanc_chain anc)) recs ->
    exists L,
      run x_init rel (xdoc_events (xnest anc recs)) = (L, FEOF) /\
      Forall (fun d => snd d = 1 + xanc_size anc + tree_size (fst d)) L /\
      map fst L = filter pred (map xtree recs).
  Proof.
    intros anc recs rel Hanc Hrecs.
    set (rootf := mkF DocumentNode [] (FXml [] []) []).
    assert (HI : Inv pm [rootf]).
    { exists rootf, []. split; [reflexivity|]. split; [constructor|].
      unfold rootf. cbn [downT f_ty f_data f_fs f_kids opt_list app].
      pose proof (Hanc 0 (Nat.le_0_l _)) as H0. cbn [firstn] in H0.
      rewrite has_match_unfold, H0. reflexivity. }
    destruct (xml_nest recs anc rootf [] rel [] HI) as (L & l & RL & SL & EL).
    - intros k Hk. apply Hanc. lia.
    - exact Hrecs.
    - exists L. split; [|split; [exact SL|exact EL]].
      unfold x_init, xdoc_events. fold rootf.
      rewrite <- (app_nil_r (flat_map xevents (xnest anc recs))), RL.
      cbn [xrun]. unfold prepend. cbn [fst snd]. rewrite app_nil_r. reflexivity.
  Qed.
End XmlRetain.

Section JsonRetain.
  Variable pm : list name -> bool.
  Variable pred : tree -> bool.
  Variable has_filter : bool.
  Hypothesis Hnf : has_filter = false -> forall t, pred t = true.
  Notation run := (jrun pm pred has_filter false).

  Definition jrecord (c : list name) (keyed : bool) (j : jnode) : Prop :=
    jwf j = true /\ pm (c ++ [jname keyed j]) = true.

  Lemma json_records : forall recs keyed f r rel rest,
    mode keyed f -> Inv pm (f :: r) -> Forall (jrecord (chain_of (f :: r)) keyed) recs ->
    exists L,
      run (mkS (f :: r) None SNone) rel (flat_map (jevents keyed) recs ++ rest) =
      prepend L (run (mkS (f :: r) None SNone) (skipn (length L) rel) rest) /\
      Forall (fun d => snd d = retained (mkS (f :: r) None SNone) + tree_size (fst d)) L /\
      map fst L = filter pred (map (jkid keyed) recs).
  Proof.
    induction recs as [|j recs IH]; intros keyed f r rel rest Hm HI Hall.
    - exists []. cbn [flat_map app]. rewrite prepend_nil. repeat split. constructor.
    - inversion Hall as [|x0 l [Hwf Hpm] Hrest]. subst x0 l.
      cbn [flat_map]. rewrite <- app_assoc.
      destruct (jrun_node pm pred has_filter Hnf j keyed f r rel
                  (flat_map (jevents keyed) recs ++ rest) Hwf Hm HI) as (L1 & E1 & R1 & _ & S1).
      unfold jgrow in R1. rewrite Hpm, add_kids_nil in R1.
      assert (Hs : jspec pm pred (chain_of (f :: r)) keyed j =
                   if pred (jkid keyed j) then [jkid keyed j] else []).
      { unfold jspec. destruct (jkid keyed j) as [ty d fs ks] eqn:Ej. rewrite spec_unfold, Hpm. reflexivity. }
      rewrite Hs in E1.
      destruct (IH keyed f r (skipn (length L1) rel) rest Hm HI Hrest) as (L2 & R2 & S2 & E2).
      exists (L1 ++ L2). split; [|split].
      + rewrite R1, R2, prepend_app, app_length, skipn_add. reflexivity.
      + apply Forall_app. split; [|exact S2].
        pose proof (fst_of_map _ _ _ E1) as F1. specialize (S1 Hpm).
        clear -S1 F1. induction L1 as [|d L1 IHL]; [constructor|].
        inversion S1; inversion F1; subst. constructor; [|apply IHL; assumption].
        cbn beta in *. congruence.
      + rewrite map_app, E1, E2. cbn [map filter]. destruct (pred (jkid keyed j)); reflexivity.
  Qed.

  (* a top-level array of records, target "the members of the root array" *)
  Theorem retained_bounded_json_proof : forall recs rel,
    pm [] = false -> Forall (jrecord [] false) recs ->
    exists L,
      run j_init rel (jdoc_events (JA [] recs)) = (L, FEOF) /\
      Forall (fun d => snd d = 1 + tree_size (fst d)) L /\
      map fst L = filter pred (map (jkid false) recs).
  Proof.
    intros recs rel Hroot Hrecs.
    unfold jdoc_events, j_init. cbn [jevents app].
    change (mkF DocumentNode [] (FJson 1) []) with (rootf 1 []).
    assert (Hstep : jstep pm pred has_filter false (mkS [rootf 1 []] None SNone) JOpenArr
                    = RCont (candidate_check pm (mkS [rootf 5 []] None SNone))) by reflexivity.
    rewrite (run_cont pm pred has_filter _ _ _ _ _ Hstep), cc_root, Hroot.
    assert (HI : Inv pm [rootf 5 []]).
    { exists (rootf 5 []), []. split; [reflexivity|]. split; [constructor|].
      cbn [downT rootf f_ty f_data f_fs f_kids opt_list app].
      rewrite has_match_unfold, Hroot. reflexivity. }
    destruct (json_records recs false (rootf 5 []) [] rel [JCloseArr] (conj eq_refl eq_refl) HI Hrecs)
      as (L & RL & SL & EL).
    exists L. split; [|split; [exact SL|exact EL]].
    rewrite RL. cbn [jrun jstep s_stack]. unfold prepend. cbn [fst snd]. rewrite app_nil_r. reflexivity.
  Qed.

  (* records inside a container that sits below a chain of single-member objects, seen from an
     object frame [f]: none of the objects on the way is on the path *)
  Lemma json_nest : forall keys key arr recs f r rel rest,
    objmode f -> Inv pm (f :: r) ->
    (forall k, 1 <= k <= length (key :: keys) ->
       pm (chain_of (f :: r) ++ firstn k (jkeys_chain (key :: keys))) = false) ->
    Forall (jrecord (chain_of (f :: r) ++ jkeys_chain (key :: keys)) (negb arr)) recs ->
    exists L l,
      run (mkS (f :: r) None SNone) rel (jevents true (jnest key keys arr recs) ++ rest) =
      prepend L (run (mkS (add_kids f l :: r) None SNone) (skipn (length L) rel) rest) /\
      Forall (fun d => snd d = retained (mkS (f :: r) None SNone) + length (key :: keys) + tree_size (fst d)) L /\
      map fst L = filter pred (map (jkid (negb arr)) recs).
  Proof.
    induction keys as [|k2 keys IH]; intros key arr recs f r rel rest Hm HI Hanc Hrecs.
    - (* the container itself *)
      assert (Hp1 : pm (chain_of (f :: r) ++ [fname (PF key)]) = false).
      { apply (Hanc 1). cbn [length]. lia. }
      cbn [jnest jkeys_chain map] in *.
      assert (Hcommon : forall flags ctok kd,
                mode kd (mkF ElementNode key (FJson flags) []) ->
                (forall g' s, jstep pm pred has_filter false (mkS (g' :: f :: r) None s) ctok =
                              wrap_up pm pred has_filter false (mkS (g' :: f :: r) None s)) ->
                Forall (jrecord (chain_of (f :: r) ++ [([], key)]) kd) recs ->
                exists L l,
                  run (mkS (mkF ElementNode key (FJson flags) [] :: f :: r) None SNone) rel
                      (flat_map (jevents kd) recs ++ ctok :: rest) =
                  prepend L (run (mkS (add_kids f l :: r) None SNone) (skipn (length L) rel) rest) /\
                  Forall (fun d => snd d = retained (mkS (f :: r) None SNone) + 1 + tree_size (fst d)) L /\
                  map fst L = filter pred (map (jkid kd) recs)).
      { intros flags ctok kd Hmg Hc Hr.
        set (g := mkF ElementNode key (FJson flags) []).
        assert (HI1 : Inv pm (g :: f :: r)).
        { apply inv_push; try assumption; try reflexivity. constructor. }
        assert (Hc1 : chain_of (g :: f :: r) = chain_of (f :: r) ++ [([], key)]).
        { destruct (inv_shape pm _ HI) as (f0 & fs0 & Hrev & _).
          apply (chain_of_push g (f :: r) f0 fs0 Hrev). }
        rewrite <- Hc1 in Hr.
        destruct (json_records recs kd g (f :: r) rel (ctok :: rest) Hmg HI1 Hr) as (L & RL & SL & EL).
        exists L, [close_frame g]. split; [|split; [|exact EL]].
        - rewrite RL. f_equal;
            try apply (finish_plain pm pred has_filter _ ctok g f r _ rest (Hc g _)).
        - eapply Forall_impl; [|exact SL]. intros d Hd. cbn beta in Hd. rewrite Hd.
          rewrite (retained_push g (f :: r) SNone SNone) by discriminate.
          unfold g, close_frame. cbn [f_ty f_data f_fs f_kids tree_size fold_right]. lia. }
      destruct arr; cbn [negb jevents app] in *; rewrite <- app_assoc; cbn [app];
        rewrite (run_cont pm pred has_filter _ _ _ _ _ (step_key pm pred has_filter f r _ key Hm));
        rewrite cc_after by (try assumption; reflexivity);
        unfold after_check; rewrite Hp1; unfold PF.
      + rewrite (run_cont pm pred has_filter _ _ _ _ _ (step_prop_arr pm pred has_filter _ _ _ _)).
        exact (Hcommon (N.lor J_PROP J_ARR) JCloseArr false (conj eq_refl eq_refl) (fun g' s => eq_refl) Hrecs).
      + rewrite (run_cont pm pred has_filter _ _ _ _ _ (step_prop_obj pm pred has_filter _ _ _ _)).
        exact (Hcommon (N.lor J_PROP J_OBJ) JCloseObj true eq_refl (fun g' s => eq_refl) Hrecs).
    - (* one more object on the way down *)
      assert (Hp1 : pm (chain_of (f :: r) ++ [fname (PF key)]) = false).
      { apply (Hanc 1). cbn [length]. lia. }
      cbn [jnest jevents app flat_map]. rewrite app_nil_r, <- app_assoc. cbn [app].
      rewrite (run_cont pm pred has_filter _ _ _ _ _ (step_key pm pred has_filter f r _ key Hm)).
      rewrite cc_after by (try assumption; reflexivity).
      unfold after_check. rewrite Hp1. unfold PF.
      rewrite (run_cont pm pred has_filter _ _ _ _ _ (step_prop_obj pm pred has_filter _ _ _ _)).
      set (g := mkF ElementNode key (FJson (N.lor J_PROP J_OBJ)) []).
      assert (HI1 : Inv pm (g :: f :: r)).
      { apply inv_push; try assumption; try reflexivity. constructor. }
      assert (Hc1 : chain_of (g :: f :: r) = chain_of (f :: r) ++ [([], key)]).
      { destruct (inv_shape pm _ HI) as (f0 & fs0 & Hrev & _).
        apply (chain_of_push g (f :: r) f0 fs0 Hrev). }
      destruct (IH k2 arr recs g (f :: r) rel (JCloseObj :: rest) eq_refl HI1) as (L & l & RL & SL & EL).
      + intros k Hk. rewrite Hc1, <- app_assoc. apply (Hanc (S k)). cbn [length] in *. lia.
      + rewrite Hc1, <- app_assoc. exact Hrecs.
      + exists L, [close_frame (add_kids g l)]. split; [|split; [|exact EL]].
        * rewrite RL. f_equal;
            try apply (finish_plain pm pred has_filter _ JCloseObj (add_kids g l) f r _ rest eq_refl).
        * eapply Forall_impl; [|exact SL]. intros d Hd. cbn beta in Hd. rewrite Hd.
          rewrite (retained_push g (f :: r) SNone SNone) by discriminate.
          unfold g, close_frame. cbn [f_ty f_data f_fs f_kids tree_size fold_right length]. lia.
  Qed.

  (* {"k":{...{"kn": C}...}} with C an object keyed by ids or an array of records *)
  Theorem retained_bounded_json_nested_proof : forall key keys arr recs rel,
    (forall k, k <= length (key :: keys) -> pm (firstn k (jkeys_chain (key :: keys))) = false) ->
    Forall (jrecord (jkeys_chain (key :: keys)) (negb arr)) recs ->
    exists L,
      run j_init rel (jdoc_events (JO [] [jnest key keys arr recs])) = (L, FEOF) /\
      Forall (fun d => snd d = 1 + length (key :: keys) + tree_size (fst d)) L /\
      map fst L = filter pred (map (jkid (negb arr)) recs).
  Proof.
    intros key keys arr recs rel Hanc Hrecs.
    pose proof (Hanc 0 (Nat.le_0_l _)) as Hroot. cbn [firstn] in Hroot.
    unfold jdoc_events, j_init. cbn [jevents app flat_map]. rewrite app_nil_r.
    change (mkF DocumentNode [] (FJson 1) []) with (rootf 1 []).
    assert (Hstep : jstep pm pred has_filter false (mkS [rootf 1 []] None SNone) JOpenObj
                    = RCont (candidate_check pm (mkS [rootf 3 []] None SNone))) by reflexivity.
    rewrite (run_cont pm pred has_filter _ _ _ _ _ Hstep), cc_root, Hroot.
    assert (HI : Inv pm [rootf 3 []]).
    { exists (rootf 3 []), []. split; [reflexivity|]. split; [constructor|].
      cbn [downT rootf f_ty f_data f_fs f_kids opt_list app].
      rewrite has_match_unfold, Hroot. reflexivity. }
    destruct (json_nest keys key arr recs (rootf 3 []) [] rel [JCloseObj] eq_refl HI) as (L & l & RL & SL & EL).
    - intros k Hk. apply Hanc. lia.
    - exact Hrecs.
    - exists L. split; [|split; [exact SL|exact EL]].
      rewrite RL. cbn [jrun jstep s_stack]. unfold prepend. cbn [fst snd]. rewrite app_nil_r. reflexivity.
  Qed.
End JsonRetain.

(* ---- record-at-a-time readers ---------------------------------------------------------------------- *)
Section FlatRetain.
  Variable R : Type.
  Variable rsize : R -> nat.
  Variable standalone : bool.
  Variable above : nat.
  Notation frun := (flat_run R rsize standalone above).

  Definition is_target_rec (rc : frec R) : Prop := match rc with FTarget _ _ _ => True | FKeep _ _ => False end.

  Lemma fl_size_app : forall a b, fl_size R rsize (a ++ b) = fl_size R rsize a + fl_size R rsize b.
  Proof. induction a; intros; simpl; [reflexivity|]. rewrite IHa. lia. Qed.

  Lemma flat_prologue_idem : forall st, flat_prologue R (flat_prologue R st) = flat_prologue R st.
  Proof.
    intros [k t]. unfold flat_prologue. cbn [fl_target fl_kids]. destruct t; cbn [fl_target]; reflexivity.
  Qed.

  (* whatever the filter outcomes: after Release / at the next Read the child list is what it was
     before the record, so every delivery sees the fixed part plus exactly one record *)
  Theorem retained_bounded_flat_proof : forall recs kids0 st,
    Forall is_target_rec recs ->
    fl_kids R (flat_prologue R st) = kids0 ->
    Forall (fun d => snd d = if standalone then rsize (fst d)
                             else above + fl_size R rsize kids0 + rsize (fst d))
           (frun st recs).
  Proof.
    induction recs as [|rc rest IH]; intros kids0 st Hall Hk; [constructor|].
    inversion Hall as [|x0 l Hrc Hrest]. subst x0 l.
    destruct rc as [x pass|x]; [|destruct Hrc].
    cbn [flat_run flat_step]. destruct standalone eqn:Hs.
    - destruct pass; cbn [app].
      + constructor; [reflexivity|]. apply (IH kids0); [exact Hrest|].
        rewrite flat_prologue_idem. exact Hk.
      + apply (IH kids0); [exact Hrest|]. rewrite flat_prologue_idem. exact Hk.
    - destruct pass; cbn [app].
      + constructor.
        * cbn [snd fst]. rewrite Hk, fl_size_app. simpl. lia.
        * apply (IH kids0); [exact Hrest|]. unfold flat_prologue. cbn [fl_target fl_kids].
          rewrite removelast_last. exact Hk.
      + apply (IH kids0); [exact Hrest|]. unfold flat_prologue. cbn [fl_target fl_kids].
        rewrite removelast_last. exact Hk.
  Qed.

  Lemma flat_release_prologue : forall st,
    flat_prologue R (flat_release R st) = flat_prologue R st.
  Proof.
    intros [k t]. unfold flat_release, flat_prologue. cbn [fl_target fl_kids].
    destruct t; cbn [fl_target]; reflexivity.
  Qed.

  (* whether and when the caller releases makes no difference to what the reader retains *)
  Theorem flat_run_rel_eq_proof : forall recs rel st,
    flat_run_rel R rsize standalone above st rel recs = frun st recs.
  Proof.
    induction recs as [|rc rest IH]; intros rel st; [reflexivity|].
    cbn [flat_run_rel flat_run].
    assert (E : flat_prologue R (if hd false rel then flat_release R st else st) = flat_prologue R st).
    { destruct (hd false rel); [apply flat_release_prologue|reflexivity]. }
    rewrite E. destruct (flat_step R rsize standalone above (flat_prologue R st) rc) as [st1 d].
    rewrite IH. reflexivity.
  Qed.

  Lemma flat_prologue_no_target : forall st,
    mkFS R (fl_kids R (flat_prologue R st)) false = flat_prologue R st.
  Proof. intros [k t]. unfold flat_prologue. cbn [fl_target fl_kids]. destruct t; reflexivity. Qed.

  (* a run of any number of consecutive rejected instances - all within one Read of the caller -
     leaves the reader exactly where it was *)
  Theorem rejected_run_leaves_nothing_proof : forall ys st rest,
    flat_run R rsize false above st (map (fun y => FTarget R y false) ys ++ rest) =
    flat_run R rsize false above (flat_prologue R st) rest.
  Proof.
    induction ys as [|y ys IH]; intros st rest.
    - cbn [map app]. destruct rest as [|rc rest]; [reflexivity|].
      cbn [flat_run]. rewrite flat_prologue_idem. reflexivity.
    - cbn [map app flat_run flat_step]. rewrite removelast_last. cbn [app].
      rewrite flat_prologue_no_target, (IH _ rest), flat_prologue_idem. reflexivity.
  Qed.
End FlatRetain.
