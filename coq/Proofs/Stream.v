(* Proofs about Model/Stream.v, part 1: selection on trees (sel / match_any / match_node, the
   recursive specification [spec] and its equality with "outermost matches, then filter"). *)
From Coq Require Import List NArith Bool Arith Lia.
Import ListNotations.
From OV Require Import Base.Bytes Base.Cases Base.Tree Model.Stream.

(* Calling Release on the delivered node before the next Read leaves the reader in the same
   state as letting the next Read remove it. *)
Lemma release_then_prologue : forall st st1,
  release st = Some st1 -> read_prologue st1 = read_prologue st.
Proof.
  intros st st1 H. unfold release in H. unfold read_prologue.
  destruct (s_stream st) eqn:E; try discriminate. inversion H; subst.
  unfold remove_closed. destruct (s_stack st); reflexivity.
Qed.

Lemma path_eqb_refl : forall p, path_eqb p p = true.
Proof. induction p; simpl; [reflexivity|]. unfold path_eqb in *. simpl. rewrite Nat.eqb_refl, IHp. reflexivity. Qed.

Lemma path_eqb_eq : forall p q, path_eqb p q = true <-> p = q.
Proof. intros. unfold path_eqb. apply list_eqb_eq. intros. apply Nat.eqb_eq. Qed.

Section Sel.
  Variable pm : list name -> bool.
  Variable pred : tree -> bool.

  Lemma sel_unfold : forall chain pos ty d f ks,
    sel pm pred chain pos (T ty d f ks) =
    (if pm chain && pred (T ty d f ks) then [(pos, T ty d f ks)] else [])
    ++ sel_kids pm pred chain pos 0 ks.
  Proof.
    intros. cbn [sel]. f_equal. generalize 0.
    induction ks as [|k r IH]; intro i; [reflexivity|].
    cbn [sel_kids]. rewrite <- IH. reflexivity.
  Qed.

  Lemma sel_kids_app : forall chain pos l1 l2 i,
    sel_kids pm pred chain pos i (l1 ++ l2) =
    sel_kids pm pred chain pos i l1 ++ sel_kids pm pred chain pos (length l1 + i) l2.
  Proof.
    induction l1 as [|k r IH]; intros; simpl; [reflexivity|].
    rewrite IH, <- app_assoc. do 3 f_equal. lia.
  Qed.

  (* positions are relative: selecting below [pos] is selecting below [] and prefixing *)
  Lemma sel_shift : forall t chain pos,
    sel pm pred chain pos t = map (fun x => (pos ++ fst x, snd x)) (sel pm pred chain [] t).
  Proof.
    induction t as [ty d f ks IH] using tree_ind2. intros chain pos.
    rewrite !sel_unfold, map_app. f_equal.
    - destruct (pm chain && pred (T ty d f ks)); simpl; [rewrite app_nil_r|]; reflexivity.
    - generalize 0. induction IH as [|k r Hk _ IHr]; intro i; simpl; [reflexivity|].
      rewrite map_app, IHr. f_equal.
      destruct (is_element k); [|reflexivity].
      rewrite (Hk _ (pos ++ [i])), (Hk _ ([] ++ [i])), map_map. apply map_ext.
      intros [p x]; simpl. rewrite <- app_assoc. reflexivity.
  Qed.
End Sel.

(* ---- "does any node match": MatchAny with the filter-less xpath ------------------------------- *)
Section HasMatch.
  Variable pm : list name -> bool.

  Fixpoint has_match (c : list name) (t : tree) {struct t} : bool :=
    let 'T _ _ _ ks := t in
    pm c || (fix go (l : list tree) : bool :=
               match l with
               | [] => false
               | k :: r => (is_element k && has_match (c ++ [node_name k]) k) || go r
               end) ks.
  Fixpoint hm_kids (c : list name) (l : list tree) : bool :=
    match l with
    | [] => false
    | k :: r => (is_element k && has_match (c ++ [node_name k]) k) || hm_kids c r
    end.

  Lemma has_match_unfold : forall c ty d f ks,
    has_match c (T ty d f ks) = pm c || hm_kids c ks.
  Proof.
    intros. cbn [has_match]. f_equal. induction ks as [|k r IH]; [reflexivity|].
    cbn [hm_kids]. rewrite <- IH. reflexivity.
  Qed.

  Lemma hm_kids_app : forall c l1 l2, hm_kids c (l1 ++ l2) = hm_kids c l1 || hm_kids c l2.
  Proof. induction l1; intros; simpl; [reflexivity|]. rewrite IHl1, orb_assoc. reflexivity. Qed.

  Lemma sel_nil_has_match : forall t c pos,
    (match sel pm ptrue c pos t with [] => true | _ => false end) = negb (has_match c t).
  Proof.
    induction t as [ty d f ks IH] using tree_ind2. intros c pos.
    rewrite sel_unfold, has_match_unfold. unfold ptrue at 1. rewrite andb_true_r.
    destruct (pm c); simpl; [reflexivity|].
    generalize 0. induction IH as [|k r Hk _ IHr]; intro i; simpl; [reflexivity|].
    destruct (is_element k); simpl; [|apply IHr].
    specialize (Hk (c ++ [node_name k]) (pos ++ [i])).
    destruct (sel pm ptrue (c ++ [node_name k]) (pos ++ [i]) k); simpl.
    - simpl in Hk. symmetry in Hk. apply negb_true_iff in Hk. rewrite Hk. apply IHr.
    - simpl in Hk. symmetry in Hk. apply negb_false_iff in Hk. rewrite Hk. reflexivity.
  Qed.

  Lemma match_any_has_match : forall root, match_any pm ptrue root = has_match [] root.
  Proof. intros. unfold match_any. rewrite sel_nil_has_match, negb_involutive. reflexivity. Qed.
End HasMatch.

(* ---- "is this node among the matches": matchNode with the full xpath -------------------------- *)
Section Lookup.
  Variable pm : list name -> bool.
  Variable pred : tree -> bool.

  (* the node at position p, with its name chain; only element children are entered *)
  Fixpoint lookup (c : list name) (t : tree) (p : path) {struct p} : option (list name * tree) :=
    match p with
    | [] => Some (c, t)
    | i :: q => match nth_error (t_kids t) i with
                | Some k => if is_element k then lookup (c ++ [node_name k]) k q else None
                | None => None
                end
    end.

  Definition hit (p : path) (x : path * tree) : bool := path_eqb (fst x) p.

  Lemma existsb_hit_shift : forall i l p,
    existsb (hit p) (map (fun x : path * tree => (i :: fst x, snd x)) l) =
    match p with
    | [] => false
    | j :: q => Nat.eqb i j && existsb (hit q) l
    end.
  Proof.
    intros i l p. induction l as [|[a x] l IH]; simpl.
    - destruct p; [reflexivity|]. rewrite andb_false_r. reflexivity.
    - rewrite IH. unfold hit at 1. simpl. unfold path_eqb. destruct p as [|j q]; simpl; [reflexivity|].
      unfold hit at 2. simpl. unfold path_eqb. destruct (Nat.eqb i j); simpl; reflexivity.
  Qed.

  Lemma mem_sel : forall t c p,
    existsb (hit p) (sel pm pred c [] t) =
    match lookup c t p with Some (c', t') => pm c' && pred t' | None => false end.
  Proof.
    induction t as [ty d f ks IH] using tree_ind2. intros c p.
    rewrite sel_unfold, existsb_app.
    destruct p as [|j q].
    - (* the node itself *)
      cbn [lookup].
      assert (Hk : forall i, existsb (hit []) (sel_kids pm pred c [] i ks) = false).
      { clear IH. induction ks as [|k r IHr]; intro i; simpl; [reflexivity|].
        rewrite existsb_app, IHr, orb_false_r.
        destruct (is_element k); [|reflexivity].
        rewrite sel_shift. simpl app. rewrite (existsb_hit_shift i). reflexivity. }
      rewrite Hk, orb_false_r.
      destruct (pm c && pred (T ty d f ks)); reflexivity.
    - (* below *)
      assert (Hg : forall i, existsb (hit (j :: q)) (sel_kids pm pred c [] i ks) =
                match (if Nat.leb i j then nth_error ks (j - i) else None) with
                | Some k => if is_element k
                            then match lookup (c ++ [node_name k]) k q with
                                 | Some (c', t') => pm c' && pred t' | None => false end
                            else false
                | None => false
                end).
      { induction IH as [|k r Hk _ IHr]; intro i.
        - simpl. destruct (Nat.leb i j); [destruct (j - i)|]; reflexivity.
        - cbn [sel_kids]. rewrite existsb_app, IHr.
          destruct (Nat.leb i j) eqn:Hij.
          + apply Nat.leb_le in Hij. destruct (Nat.eq_dec i j) as [->|Hne].
            * rewrite Nat.sub_diag. cbn [nth_error].
              assert (Hlt : Nat.leb (S j) j = false) by (apply Nat.leb_gt; lia).
              rewrite Hlt, orb_false_r.
              destruct (is_element k); [|reflexivity].
              rewrite sel_shift. simpl app. rewrite (existsb_hit_shift j), Nat.eqb_refl. simpl.
              apply Hk.
            * assert (Hle : Nat.leb (S i) j = true) by (apply Nat.leb_le; lia).
              rewrite Hle. replace (j - i) with (S (j - S i)) by lia. cbn [nth_error].
              assert (Hz : existsb (hit (j :: q))
                        (if is_element k then sel pm pred (c ++ [node_name k]) ([] ++ [i]) k else []) = false).
              { destruct (is_element k); [|reflexivity].
                rewrite sel_shift. simpl app. rewrite (existsb_hit_shift i).
                apply Nat.eqb_neq in Hne. rewrite Hne. reflexivity. }
              rewrite Hz. reflexivity.
          + apply Nat.leb_gt in Hij.
            assert (Hgt : Nat.leb (S i) j = false) by (apply Nat.leb_gt; lia).
            rewrite Hgt, orb_false_r.
            destruct (is_element k); [|reflexivity].
            rewrite sel_shift. simpl app. rewrite (existsb_hit_shift i).
            assert (Hne : Nat.eqb i j = false) by (apply Nat.eqb_neq; lia).
            rewrite Hne. reflexivity. }
      match goal with |- existsb ?h ?l || _ = _ =>
        assert (Hself : existsb h l = false)
          by (destruct (pm c && pred (T ty d f ks)); reflexivity) end.
      rewrite Hself. simpl orb. cbn [lookup t_kids].
      rewrite Hg. simpl Nat.leb. rewrite Nat.sub_0_r.
      destruct (nth_error ks j) as [k|]; [|reflexivity].
      destruct (is_element k); reflexivity.
  Qed.

  Lemma match_node_lookup : forall root p,
    match_node pm pred root p =
    match lookup [] root p with Some (c, t) => pm c && pred t | None => false end.
  Proof. intros. unfold match_node. apply (mem_sel root [] p). Qed.
End Lookup.
