(* Proofs about Model/Stream.v (C04, C17). *)
From Coq Require Import List NArith Bool Arith Lia.
Import ListNotations.
From OV Require Import Base.Bytes Base.Cases Base.Tree Model.Stream.

(* Calling Release on the delivered node before the next Read leaves the reader in the same
   state as letting the next Read remove it. *)
Lemma release_then_prologue : forall st st1,
  release st = Some st1 -> read_prologue st1 = read_prologue st.
Proof.
  intros st st1 H. unfold release in H. unfold read_prologue.
  destruct (s_stream st) eqn:E; try discriminate. inversion H; subst.
  unfold remove_closed. destruct (s_stack st); reflexivity.
Qed.
