(* Proofs about Model/Stream.v, part 1: selection on trees (sel / match_any / match_node, the
   recursive specification [spec] and its equality with "outermost matches, then filter"). *)
From Coq Require Import List NArith Bool Arith Lia.
Import ListNotations.
From OV Require Import Base.Bytes Base.Cases Base.Tree Model.Stream.

(* Calling Release on the delivered node before the next Read leaves the reader in the same
   state as letting the next Read remove it. *)
Lemma release_then_prologue : forall st st1,
  release st = Some st1 -> read_prologue st1 = read_prologue st.
Proof.
  intros st st1 H. unfold release in H. unfold read_prologue.
  destruct (s_stream st) eqn:E; try discriminate. inversion H; subst.
  unfold remove_closed. destruct (s_stack st); reflexivity.
Qed.

Lemma path_eqb_refl : forall p, path_eqb p p = true.
Proof. induction p; simpl; [reflexivity|]. unfold path_eqb in *. simpl. rewrite Nat.eqb_refl, IHp. reflexivity. Qed.

Lemma path_eqb_eq : forall p q, path_eqb p q = true <-> p = q.
Proof. intros. unfold path_eqb. apply list_eqb_eq. intros. apply Nat.eqb_eq. Qed.

Section Sel.
  Variable pm : list name -> bool.
  Variable pred : tree -> bool.

  Lemma sel_unfold : forall chain pos ty d f ks,
    sel pm pred chain pos (T ty d f ks) =
    (if pm chain && pred (T ty d f ks) then [(pos, T ty d f ks)] else [])
    ++ sel_kids pm pred chain pos 0 ks.
  Proof.
    intros. cbn [sel]. f_equal. generalize 0.
    induction ks as [|k r IH]; intro i; [reflexivity|].
    cbn [sel_kids]. rewrite <- IH. reflexivity.
  Qed.

  Lemma sel_kids_app : forall chain pos l1 l2 i,
    sel_kids pm pred chain pos i (l1 ++ l2) =
    sel_kids pm pred chain pos i l1 ++ sel_kids pm pred chain pos (length l1 + i) l2.
  Proof.
    induction l1 as [|k r IH]; intros; simpl; [reflexivity|].
    rewrite IH, <- app_assoc. do 3 f_equal. lia.
  Qed.

  (* positions are relative: selecting below [pos] is selecting below [] and prefixing *)
  Lemma sel_shift : forall t chain pos,
    sel pm pred chain pos t = map (fun x => (pos ++ fst x, snd x)) (sel pm pred chain [] t).
  Proof.
    induction t as [ty d f ks IH] using tree_ind2. intros chain pos.
    rewrite !sel_unfold, map_app. f_equal.
    - destruct (pm chain && pred (T ty d f ks)); simpl; [rewrite app_nil_r|]; reflexivity.
    - generalize 0. induction IH as [|k r Hk _ IHr]; intro i; simpl; [reflexivity|].
      rewrite map_app, IHr. f_equal.
      destruct (is_element k); [|reflexivity].
      rewrite (Hk _ (pos ++ [i])), (Hk _ ([] ++ [i])), map_map. apply map_ext.
      intros [p x]; simpl. rewrite <- app_assoc. reflexivity.
  Qed.
End Sel.

(* ---- "does any node match": MatchAny with the filter-less xpath ------------------------------- *)
Section HasMatch.
  Variable pm : list name -> bool.

  Fixpoint has_match (c : list name) (t : tree) {struct t} : bool :=
    let 'T _ _ _ ks := t in
    pm c || (fix go (l : list tree) : bool :=
               match l with
               | [] => false
               | k :: r => (is_element k && has_match (c ++ [node_name k]) k) || go r
               end) ks.
  Fixpoint hm_kids (c : list name) (l : list tree) : bool :=
    match l with
    | [] => false
    | k :: r => (is_element k && has_match (c ++ [node_name k]) k) || hm_kids c r
    end.

  Lemma has_match_unfold : forall c ty d f ks,
    has_match c (T ty d f ks) = pm c || hm_kids c ks.
  Proof.
    intros. cbn [has_match]. f_equal. induction ks as [|k r IH]; [reflexivity|].
    cbn [hm_kids]. rewrite <- IH. reflexivity.
  Qed.

  Lemma hm_kids_app : forall c l1 l2, hm_kids c (l1 ++ l2) = hm_kids c l1 || hm_kids c l2.
  Proof. induction l1; intros; simpl; [reflexivity|]. rewrite IHl1, orb_assoc. reflexivity. Qed.

  Lemma sel_nil_has_match : forall t c pos,
    (match sel pm ptrue c pos t with [] => true | _ => false end) = negb (has_match c t).
  Proof.
    induction t as [ty d f ks IH] using tree_ind2. intros c pos.
    rewrite sel_unfold, has_match_unfold. unfold ptrue at 1. rewrite andb_true_r.
    destruct (pm c); simpl; [reflexivity|].
    generalize 0. induction IH as [|k r Hk _ IHr]; intro i; simpl; [reflexivity|].
    destruct (is_element k); simpl; [|apply IHr].
    specialize (Hk (c ++ [node_name k]) (pos ++ [i])).
    destruct (sel pm ptrue (c ++ [node_name k]) (pos ++ [i]) k); simpl.
    - simpl in Hk. symmetry in Hk. apply negb_true_iff in Hk. rewrite Hk. apply IHr.
    - simpl in Hk. symmetry in Hk. apply negb_false_iff in Hk. rewrite Hk. reflexivity.
  Qed.

  Lemma match_any_has_match : forall root, match_any pm ptrue root = has_match [] root.
  Proof. intros. unfold match_any. rewrite sel_nil_has_match, negb_involutive. reflexivity. Qed.
End HasMatch.

(* ---- "is this node among the matches": matchNode with the full xpath -------------------------- *)
Section Lookup.
  Variable pm : list name -> bool.
  Variable pred : tree -> bool.

  (* the node at position p, with its name chain; only element children are entered *)
  Fixpoint lookup (c : list name) (t : tree) (p : path) {struct p} : option (list name * tree) :=
    match p with
    | [] => Some (c, t)
    | i :: q => match nth_error (t_kids t) i with
                | Some k => if is_element k then lookup (c ++ [node_name k]) k q else None
                | None => None
                end
    end.

  Definition hit (p : path) (x : path * tree) : bool := path_eqb (fst x) p.

  Lemma existsb_hit_shift : forall i l p,
    existsb (hit p) (map (fun x : path * tree => (i :: fst x, snd x)) l) =
    match p with
    | [] => false
    | j :: q => Nat.eqb i j && existsb (hit q) l
    end.
  Proof.
    intros i l p. induction l as [|[a x] l IH]; simpl.
    - destruct p; [reflexivity|]. rewrite andb_false_r. reflexivity.
    - rewrite IH. unfold hit at 1. simpl. unfold path_eqb. destruct p as [|j q]; simpl; [reflexivity|].
      unfold hit at 2. simpl. unfold path_eqb. destruct (Nat.eqb i j); simpl; reflexivity.
  Qed.

  Lemma mem_sel : forall t c p,
    existsb (hit p) (sel pm pred c [] t) =
    match lookup c t p with Some (c', t') => pm c' && pred t' | None => false end.
  Proof.
    induction t as [ty d f ks IH] using tree_ind2. intros c p.
    rewrite sel_unfold, existsb_app.
    destruct p as [|j q].
    - (* the node itself *)
      cbn [lookup].
      assert (Hk : forall i, existsb (hit []) (sel_kids pm pred c [] i ks) = false).
      { clear IH. induction ks as [|k r IHr]; intro i; simpl; [reflexivity|].
        rewrite existsb_app, IHr, orb_false_r.
        destruct (is_element k); [|reflexivity].
        rewrite sel_shift. simpl app. rewrite (existsb_hit_shift i). reflexivity. }
      rewrite Hk, orb_false_r.
      destruct (pm c && pred (T ty d f ks)); reflexivity.
    - (* below *)
      assert (Hg : forall i, existsb (hit (j :: q)) (sel_kids pm pred c [] i ks) =
                match (if Nat.leb i j then nth_error ks (j - i) else None) with
                | Some k => if is_element k
                            then match lookup (c ++ [node_name k]) k q with
                                 | Some (c', t') => pm c' && pred t' | None => false end
                            else false
                | None => false
                end).
      { induction IH as [|k r Hk _ IHr]; intro i.
        - simpl. destruct (Nat.leb i j); [destruct (j - i)|]; reflexivity.
        - cbn [sel_kids]. rewrite existsb_app, IHr.
          destruct (Nat.leb i j) eqn:Hij.
          + apply Nat.leb_le in Hij. destruct (Nat.eq_dec i j) as [->|Hne].
            * rewrite Nat.sub_diag. cbn [nth_error].
              assert (Hlt : Nat.leb (S j) j = false) by (apply Nat.leb_gt; lia).
              rewrite Hlt, orb_false_r.
              destruct (is_element k); [|reflexivity].
              rewrite sel_shift. simpl app. rewrite (existsb_hit_shift j), Nat.eqb_refl. simpl.
              apply Hk.
            * assert (Hle : Nat.leb (S i) j = true) by (apply Nat.leb_le; lia).
              rewrite Hle. replace (j - i) with (S (j - S i)) by lia. cbn [nth_error].
              assert (Hz : existsb (hit (j :: q))
                        (if is_element k then sel pm pred (c ++ [node_name k]) ([] ++ [i]) k else []) = false).
              { destruct (is_element k); [|reflexivity].
                rewrite sel_shift. simpl app. rewrite (existsb_hit_shift i).
                apply Nat.eqb_neq in Hne. rewrite Hne. reflexivity. }
              rewrite Hz. reflexivity.
          + apply Nat.leb_gt in Hij.
            assert (Hgt : Nat.leb (S i) j = false) by (apply Nat.leb_gt; lia).
            rewrite Hgt, orb_false_r.
            destruct (is_element k); [|reflexivity].
            rewrite sel_shift. simpl app. rewrite (existsb_hit_shift i).
            assert (Hne : Nat.eqb i j = false) by (apply Nat.eqb_neq; lia).
            rewrite Hne. reflexivity. }
      match goal with |- existsb ?h ?l || _ = _ =>
        assert (Hself : existsb h l = false)
          by (destruct (pm c && pred (T ty d f ks)); reflexivity) end.
      rewrite Hself. simpl orb. cbn [lookup t_kids].
      rewrite Hg. simpl Nat.leb. rewrite Nat.sub_0_r.
      destruct (nth_error ks j) as [k|]; [|reflexivity].
      destruct (is_element k); reflexivity.
  Qed.

  Lemma match_node_lookup : forall root p,
    match_node pm pred root p =
    match lookup [] root p with Some (c, t) => pm c && pred t | None => false end.
  Proof. intros. unfold match_node. apply (mem_sel root [] p). Qed.
End Lookup.

(* ---- "outermost matches of the path part, then filter" is the recursion [spec] --------------- *)
Section Outermost.
  Variable pm : list name -> bool.
  Variable pred : tree -> bool.

  Definition pp (x y : path * tree) : bool := proper_prefix (fst y) (fst x).
  Definition outermost_in (amb l : list (path * tree)) : list (path * tree) :=
    filter (fun x => negb (existsb (pp x) amb)) l.
  Definition Q (l : list (path * tree)) : list tree := map snd (filter (fun x => pred (snd x)) l).
  Definition shift (i : nat) (x : path * tree) : path * tree := (i :: fst x, snd x).

  Lemma outermost_is : forall l, outermost l = outermost_in l l.
  Proof. reflexivity. Qed.

  Lemma Q_app : forall a b, Q (a ++ b) = Q a ++ Q b.
  Proof. intros. unfold Q. rewrite filter_app, map_app. reflexivity. Qed.

  Lemma Q_shift : forall i l, Q (map (shift i) l) = Q l.
  Proof.
    intros. unfold Q. induction l as [|x l IH]; [reflexivity|]. simpl.
    destruct (pred (snd x)); simpl; rewrite IH; reflexivity.
  Qed.

  Lemma proper_prefix_cons : forall i a j b,
    proper_prefix (i :: a) (j :: b) = Nat.eqb i j && proper_prefix a b.
  Proof.
    intros. unfold proper_prefix, path_eqb. simpl.
    destruct (Nat.eqb i j); simpl; reflexivity.
  Qed.
  Lemma proper_prefix_nil_r : forall a, proper_prefix a [] = false.
  Proof. destruct a; reflexivity. Qed.
  Lemma proper_prefix_nil_cons : forall j b, proper_prefix [] (j :: b) = true.
  Proof. reflexivity. Qed.

  Lemma outermost_in_app : forall amb a b,
    outermost_in amb (a ++ b) = outermost_in amb a ++ outermost_in amb b.
  Proof. intros. unfold outermost_in. apply filter_app. Qed.

  Lemma outermost_in_ext : forall amb amb' l,
    (forall x, In x l -> existsb (pp x) amb = existsb (pp x) amb') ->
    outermost_in amb l = outermost_in amb' l.
  Proof.
    intros. unfold outermost_in. apply filter_ext_in. intros x Hx. rewrite (H x Hx). reflexivity.
  Qed.

  Lemma outermost_shift : forall i l,
    outermost (map (shift i) l) = map (shift i) (outermost l).
  Proof.
    intros i l. unfold outermost.
    assert (H : forall amb l0,
      filter (fun x => negb (existsb (fun y => proper_prefix (fst y) (fst x)) (map (shift i) amb)))
             (map (shift i) l0) =
      map (shift i) (filter (fun x => negb (existsb (fun y => proper_prefix (fst y) (fst x)) amb)) l0)).
    { intros amb l0. induction l0 as [|x r IH]; [reflexivity|]. simpl.
      assert (E : existsb (fun y => proper_prefix (fst y) (i :: fst x)) (map (shift i) amb) =
                  existsb (fun y => proper_prefix (fst y) (fst x)) amb).
      { clear. induction amb as [|y amb IH]; [reflexivity|]. simpl.
        rewrite proper_prefix_cons, Nat.eqb_refl, IH. reflexivity. }
      rewrite E. destruct (existsb _ amb); simpl; rewrite IH; reflexivity. }
    apply H.
  Qed.

  (* heads of the positions in a selection below [] *)
  Definition head_is (P : nat -> Prop) (x : path * tree) : Prop :=
    exists j b, fst x = j :: b /\ P j.

  Lemma sel_heads : forall P0 c i k x,
    In x (sel pm P0 c ([] ++ [i]) k) -> head_is (fun j => j = i) x.
  Proof.
    intros P0 c i k x Hx. rewrite sel_shift in Hx. apply in_map_iff in Hx as (y & <- & _).
    exists i, (fst y). split; reflexivity.
  Qed.

  Lemma sel_kids_heads : forall P0 c ks i x,
    In x (sel_kids pm P0 c [] i ks) -> head_is (fun j => i <= j) x.
  Proof.
    induction ks as [|k r IH]; intros i x Hx; [destruct Hx|].
    simpl in Hx. apply in_app_or in Hx as [Hx|Hx].
    - destruct (is_element k); [|destruct Hx].
      destruct (sel_heads _ _ _ _ _ Hx) as (j & b & E & ->). exists i, b. split; [exact E|lia].
    - destruct (IH _ _ Hx) as (j & b & E & Hj). exists j, b. split; [exact E|lia].
  Qed.

  Lemma existsb_pp_disjoint : forall x l (P1 P2 : nat -> Prop),
    head_is P1 x -> (forall y, In y l -> head_is P2 y) ->
    (forall a b, P1 a -> P2 b -> a <> b) ->
    existsb (pp x) l = false.
  Proof.
    intros x l P1 P2 (i & a & Ex & Hi) Hl Hd.
    induction l as [|y l IH]; [reflexivity|]. simpl.
    rewrite IH by (intros; apply Hl; right; assumption). rewrite orb_false_r.
    destruct (Hl y (or_introl eq_refl)) as (j & b & Ey & Hj).
    unfold pp. rewrite Ex, Ey, proper_prefix_cons.
    assert (Nat.eqb j i = false) by (apply Nat.eqb_neq; intro; subst; exact (Hd i i Hi Hj eq_refl)).
    rewrite H. reflexivity.
  Qed.

  Lemma spec_is_outermost : forall t c,
    Q (outermost (sel pm ptrue c [] t)) = spec pm pred c t.
  Proof.
    induction t as [ty d f ks IH] using tree_ind2. intro c.
    rewrite sel_unfold. unfold ptrue at 1. rewrite andb_true_r.
    (* spec, unfolded *)
    assert (Hspec : spec pm pred c (T ty d f ks) =
                    if pm c then (if pred (T ty d f ks) then [T ty d f ks] else [])
                    else spec_kids pm pred c ks).
    { cbn [spec]. destruct (pm c); [reflexivity|].
      clear. induction ks as [|k r IHr]; [reflexivity|]. cbn [spec_kids]. rewrite <- IHr. reflexivity. }
    rewrite Hspec. clear Hspec.
    destruct (pm c) eqn:Hc.
    - (* the node itself is on the path: it hides everything below *)
      set (K := sel_kids pm ptrue c [] 0 ks).
      assert (HK : forall x, In x K -> head_is (fun j => 0 <= j) x) by (intros; eapply sel_kids_heads; eassumption).
      rewrite outermost_is. cbn [app]. unfold outermost_in. cbn [filter existsb].
      unfold pp at 1. cbn [fst]. rewrite proper_prefix_nil_r. cbn [orb].
      match goal with |- context [existsb (pp ?a) K] => set (self := a) end.
      assert (E1 : existsb (pp self) K = false).
      { clear -K. induction K as [|y K IHK]; [reflexivity|]. simpl. unfold pp at 1. simpl.
        rewrite proper_prefix_nil_r. exact IHK. }
      rewrite E1. cbn [negb].
      assert (E2 : forall K0, (forall x, In x K0 -> head_is (fun j => 0 <= j) x) ->
                   filter (fun x => negb (pp x self || existsb (pp x) K)) K0 = []).
      { induction K0 as [|x K0 IHK]; intro HK0; [reflexivity|]. simpl.
        destruct (HK0 x (or_introl eq_refl)) as (j & b & Ex & _).
        unfold pp at 1. simpl. rewrite Ex. simpl.
        apply IHK. intros; apply HK0; right; assumption. }
      rewrite (E2 K HK). unfold self.
      unfold Q. simpl. destruct (pred (T ty d f ks)); reflexivity.
    - (* descend: siblings do not hide each other *)
      cbn [app].
      assert (Hk : forall i, Q (outermost (sel_kids pm ptrue c [] i ks)) = spec_kids pm pred c ks).
      { induction IH as [|k r Hk _ IHr]; intro i; [reflexivity|].
        cbn [sel_kids spec_kids].
        set (K := if is_element k then sel pm ptrue (c ++ [node_name k]) ([] ++ [i]) k else []).
        set (R := sel_kids pm ptrue c [] (S i) r).
        assert (HKh : forall x, In x K -> head_is (fun j => j = i) x).
        { intros x Hx. unfold K in Hx. destruct (is_element k); [|destruct Hx]. eapply sel_heads; eassumption. }
        assert (HRh : forall x, In x R -> head_is (fun j => S i <= j) x).
        { intros x Hx. eapply sel_kids_heads; eassumption. }
        rewrite outermost_is, outermost_in_app, Q_app.
        rewrite (outermost_in_ext (K ++ R) K K), (outermost_in_ext (K ++ R) R R).
        + change (outermost_in K K) with (outermost K). change (outermost_in R R) with (outermost R).
          unfold R. rewrite IHr. f_equal.
          unfold K. destruct (is_element k); [|reflexivity].
          rewrite sel_shift. cbn [app].
          change (fun x : list nat * tree => (i :: fst x, snd x)) with (shift i).
          rewrite outermost_shift, Q_shift. apply Hk.
        + intros x Hx. rewrite existsb_app.
          rewrite (existsb_pp_disjoint x K _ _ (HRh x Hx) HKh) by (intros; lia). reflexivity.
        + intros x Hx. rewrite existsb_app.
          rewrite (existsb_pp_disjoint x R _ _ (HKh x Hx) HRh) by (intros; lia).
          apply orb_false_r. }
      apply Hk.
  Qed.

  Theorem whole_doc_selection_is_spec : forall doc,
    whole_doc_selection pm pred doc = spec pm pred [] doc.
  Proof. intro doc. apply (spec_is_outermost doc []). Qed.
End Outermost.
