(* C03: removeLastFilterInXPath is total (no index out of range, no slice out of range) on every
   string and yields a rune-prefix of its input; removeTrailingFiltersInXPath terminates. *)
From Coq Require Import List Arith NArith ZArith Bool Lia.
From Coq.Strings Require Import Byte.
Import ListNotations.
From OV Require Import Base.Bytes Base.Cases Base.Utf8 Model.Safety Proofs.DelimUtf8 Proofs.DelimValid.

Lemma rune_at_some rs pos : (0 <= pos < Z.of_nat (length rs))%Z -> exists c, rune_at rs pos = Some c.
Proof.
  intro H. unfold rune_at. destruct (pos <? 0)%Z eqn:E; [apply Z.ltb_lt in E; lia|].
  destruct (nth_error rs (Z.to_nat pos)) eqn:En; [eauto|].
  apply nth_error_None in En. lia.
Qed.

(* the inner quote-skipping loop stays in range and stops at or below where it started *)
Lemma skip_quote_total rs q : forall fuel pos,
  (-1 <= pos < Z.of_nat (length rs))%Z -> (pos + 2 <= Z.of_nat fuel)%Z ->
  exists p, skip_quote fuel rs q pos = SqAt p /\ (-1 <= p <= pos)%Z.
Proof.
  induction fuel as [|k IH]; intros pos Hr Hf; [lia|].
  cbn [skip_quote]. destruct (pos <? 0)%Z eqn:E.
  - exists pos. split; [reflexivity|lia].
  - apply Z.ltb_ge in E. destruct (rune_at_some rs pos) as [c Hc]; [lia|]. rewrite Hc.
    destruct (N.eqb c q).
    + exists pos. split; [reflexivity|lia].
    + destruct (IH (pos - 1)%Z) as (p&Hp&Hb); [lia|lia|]. exists p. split; [exact Hp|lia].
Qed.

Definition rlf_good (rs : list rune) (r : rlf_res) : Prop :=
  r = RlfSame \/ exists n, r = RlfPrefix n /\ n < length rs.

Lemma rlf_loop_total rs : forall fuel bracket pos,
  (-1 <= pos < Z.of_nat (length rs))%Z -> (pos + 2 <= Z.of_nat fuel)%Z ->
  rlf_good rs (rlf_loop fuel rs bracket pos).
Proof.
  induction fuel as [|k IH]; intros bracket pos Hr Hf; [lia|].
  cbn [rlf_loop]. destruct (pos <? 0)%Z eqn:E; [left; reflexivity|].
  apply Z.ltb_ge in E. destruct (rune_at_some rs pos) as [c Hc]; [lia|]. rewrite Hc.
  destruct (is_quote c).
  - destruct (skip_quote_total rs c k (pos - 1)%Z) as (p&Hp&Hb); [lia|lia|]. rewrite Hp.
    destruct (p <? 0)%Z eqn:Ep; [left; reflexivity|]. apply Z.ltb_ge in Ep. apply IH; lia.
  - destruct (N.eqb c R_LBRACKET).
    + destruct (bracket - 1 =? 0)%Z.
      * assert ((pos <=? Z.of_nat (length rs))%Z = true) as -> by (apply Z.leb_le; lia).
        right. exists (Z.to_nat pos). split; [reflexivity|lia].
      * apply IH; lia.
    + destruct (N.eqb c R_RBRACKET); apply IH; lia.
Qed.

Lemma rlf_runes_total rs : rlf_good rs (rlf_runes rs).
Proof.
  unfold rlf_runes. destruct rs as [|r0 rs']; [left; reflexivity|].
  set (rs := r0 :: rs').
  destruct (rune_at_some rs (Z.of_nat (length rs) - 1)%Z) as [c Hc].
  { subst rs. cbn [length]. lia. }
  rewrite Hc. destruct (negb (N.eqb c R_RBRACKET)); [left; reflexivity|].
  apply rlf_loop_total; subst rs; cbn [length]; lia.
Qed.

Definition is_prefix {A} (p l : list A) : Prop := exists suffix, l = p ++ suffix.

(* Total on every byte string; the result is the input itself or the encoding of a strict
   rune-prefix of the input. *)
Theorem remove_last_filter_total_lemma (s : bytes) :
  exists out, remove_last_filter s = Some out /\
    (out = s \/ exists n, n < length (runes s) /\ out = encode_runes (firstn n (runes s))).
Proof.
  unfold remove_last_filter. destruct (rlf_runes_total (runes s)) as [->|(n&->&Hn)].
  - exists s. split; [reflexivity|left; reflexivity].
  - eexists. split; [reflexivity|]. right. exists n. split; [exact Hn|reflexivity].
Qed.

Lemma encode_runes_app a b : encode_runes (a ++ b) = encode_runes a ++ encode_runes b.
Proof. unfold encode_runes. apply flat_map_app. Qed.

(* On a string that re-encodes to itself (valid UTF-8: every schema string, since encoding/json
   produces only those) the result is a byte prefix of the input. *)
Theorem remove_last_filter_prefix_lemma (s : bytes) :
  encode_runes (runes s) = s ->
  exists out, remove_last_filter s = Some out /\ is_prefix out s.
Proof.
  intro Hrt. destruct (remove_last_filter_total_lemma s) as (out&Ho&[->|(n&_&->)]).
  - exists s. split; [exact Ho|]. exists []. symmetry. apply app_nil_r.
  - eexists. split; [exact Ho|]. exists (encode_runes (skipn n (runes s))).
    rewrite <- encode_runes_app, firstn_skipn. symmetry. exact Hrt.
Qed.

(* Valid UTF-8 re-encodes to itself (C06: the bytes DecodeRune consumes are the encoding of the
   rune it returns -- complete sweeps over lead / continuation bytes, Proofs/DelimSweepB.v). *)
Lemma utf8_valid_roundtrip (s : bytes) : utf8_valid s = true -> encode_runes (runes s) = s.
Proof.
  intro Hv. unfold encode_runes. rewrite flat_map_concat_map. pose proof (chunks_valid s Hv) as Hc.
  transitivity (concat (Delim.chunks s)); [f_equal; symmetry; exact Hc|apply concat_chunks].
Qed.

Theorem remove_last_filter_prefix_utf8_lemma (s : bytes) :
  utf8_valid s = true -> exists out, remove_last_filter s = Some out /\ is_prefix out s.
Proof. intro Hv. apply remove_last_filter_prefix_lemma. apply utf8_valid_roundtrip. exact Hv. Qed.

(* Without that hypothesis the byte-prefix statement is false: invalid UTF-8 is re-encoded. *)
Lemma remove_last_filter_bytes_prefix_refuted_lemma :
  exists s out, remove_last_filter s = Some out /\ ~ is_prefix out s.
Proof.
  exists [xff; x5b; x61; x5d]%byte, [xef; xbf; xbd]%byte. split; [vm_compute; reflexivity|].
  intros [suffix H]. vm_compute in H. discriminate.
Qed.

(* ---- the loop of removeTrailingFiltersInXPath ---- *)
Lemma drop_ws_length l : length (drop_ws l) <= length l.
Proof. induction l as [|c r IH]; simpl; [lia|]. destruct (is_ws_rune c); simpl; lia. Qed.

Lemma drop_ws_same_length l : length (drop_ws l) = length l -> drop_ws l = l.
Proof.
  destruct l as [|c r]; simpl; [reflexivity|]. destruct (is_ws_rune c); [|reflexivity].
  intro H. pose proof (drop_ws_length r). lia.
Qed.

Lemma trim_right_length rs : length (trim_right_runes rs) <= length rs.
Proof. unfold trim_right_runes. rewrite rev_length. pose proof (drop_ws_length (rev rs)). rewrite rev_length in H. exact H. Qed.

Lemma trim_right_same rs : length (trim_right_runes rs) = length rs -> trim_right_runes rs = rs.
Proof.
  unfold trim_right_runes. rewrite rev_length. intro H.
  rewrite drop_ws_same_length; [apply rev_involutive|]. rewrite H, rev_length. reflexivity.
Qed.

Lemma rlf_apply_total rs : exists out, rlf_apply rs = Some out /\ (out = rs \/ length out < length rs).
Proof.
  unfold rlf_apply. destruct (rlf_runes_total rs) as [->|(n&->&Hn)].
  - exists rs. split; [reflexivity|left; reflexivity].
  - exists (firstn n rs). split; [reflexivity|right]. rewrite firstn_length. lia.
Qed.

Lemma list_eqb_N_eq (a b : list N) : list_eqb N.eqb a b = true <-> a = b.
Proof. apply list_eqb_eq. intros x y. apply N.eqb_eq. Qed.

Lemma rtf_loop_terminates : forall fuel rs, length rs < fuel ->
  exists out, rtf_loop fuel rs = Some out /\ length out <= length rs.
Proof.
  induction fuel as [|k IH]; intros rs Hf; [lia|].
  cbn [rtf_loop].
  destruct (rlf_apply_total (trim_right_runes rs)) as (removed&Hr&Hcase). rewrite Hr.
  destruct (list_eqb N.eqb removed rs) eqn:Eq.
  - exists rs. split; [reflexivity|lia].
  - assert (Hlt : length removed < length rs).
    { pose proof (trim_right_length rs) as Ht.
      destruct Hcase as [->|Hlt]; [|lia].
      destruct (Nat.eq_dec (length (trim_right_runes rs)) (length rs)) as [E|E]; [|lia].
      apply trim_right_same in E. rewrite E in Eq.
      assert (list_eqb N.eqb rs rs = true) by (apply list_eqb_N_eq; reflexivity). congruence. }
    destruct (IH removed) as (out&Ho&Hl); [lia|]. exists out. split; [exact Ho|lia].
Qed.

Theorem remove_trailing_filters_terminates_lemma (s : bytes) :
  exists out, remove_trailing_filters s = Some out.
Proof.
  unfold remove_trailing_filters.
  destruct (rtf_loop_terminates (length (runes s) + 1) (runes s)) as (out&Ho&_); [lia|].
  rewrite Ho. eexists. reflexivity.
Qed.
