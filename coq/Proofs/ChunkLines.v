(* C09 proofs, part 3: bufio.ReadSlice / ReadLine, ios.ByteReadLine and the line loop over any
   well-behaved reader compute the pure stream functions of Model/Chunk.v. *)
From Coq Require Import List NArith Bool Arith Lia.
From Coq.Strings Require Import Byte.
Import ListNotations.
From OV Require Import Base.Bytes Base.Cases Base.Utf8 Model.Chunk Proofs.Chunk.

(* ---- index_byte ---- *)
Lemma index_byte_lt c l i : index_byte c l = Some i -> i < length l.
Proof.
  revert i; induction l as [|a l IH]; intros i H; simpl in *; [discriminate|].
  destruct (Byte.eqb a c).
  - inversion H; lia.
  - destruct (index_byte c l) as [j|]; simpl in H; [|discriminate].
    inversion H; subst. specialize (IH j eq_refl). lia.
Qed.

Lemma index_byte_app_some c l r i : index_byte c l = Some i -> index_byte c (l ++ r) = Some i.
Proof.
  revert i; induction l as [|a l IH]; intros i H; simpl in *; [discriminate|].
  destruct (Byte.eqb a c); [exact H|].
  destruct (index_byte c l) as [j|]; simpl in H; [|discriminate].
  rewrite (IH j eq_refl). exact H.
Qed.

Lemma index_byte_app_none c l r :
  index_byte c l = None ->
  index_byte c (l ++ r) = option_map (fun i => length l + i) (index_byte c r).
Proof.
  induction l as [|a l IH]; intro H; simpl in *.
  - destruct (index_byte c r); reflexivity.
  - destruct (Byte.eqb a c); [discriminate|].
    destruct (index_byte c l) as [j|]; simpl in H; [discriminate|].
    rewrite IH by reflexivity. destruct (index_byte c r); reflexivity.
Qed.

Lemma index_byte_split c d s :
  s <= length d -> index_byte c (firstn s d) = None ->
  index_byte c d = option_map (fun i => s + i) (index_byte c (skipn s d)).
Proof.
  intros Hs Hn. rewrite <- (firstn_skipn s d) at 1.
  rewrite index_byte_app_none by exact Hn. rewrite firstn_length. replace (Nat.min s (length d)) with s by lia.
  reflexivity.
Qed.

Lemma index_byte_firstn_some c l n i :
  index_byte c l = Some i -> i < n -> index_byte c (firstn n l) = Some i.
Proof.
  revert n i; induction l as [|a l IH]; intros n i H Hi; simpl in *; [discriminate|].
  destruct n as [|n]; [lia|]. simpl.
  destruct (Byte.eqb a c); [exact H|].
  destruct (index_byte c l) as [j|] eqn:E; simpl in H; [|discriminate]. inversion H; subst.
  rewrite (IH n j eq_refl) by lia. reflexivity.
Qed.

Lemma index_byte_firstn_none c l n : index_byte c l = None -> index_byte c (firstn n l) = None.
Proof.
  revert n; induction l as [|a l IH]; intros n H; destruct n; simpl in *; try reflexivity.
  destruct (Byte.eqb a c); [discriminate|].
  destruct (index_byte c l); simpl in H; [discriminate|]. rewrite IH; reflexivity.
Qed.

Lemma firstn_app_le {A} n (l r : list A) : n <= length l -> firstn n (l ++ r) = firstn n l.
Proof.
  intro H. rewrite firstn_app. replace (n - length l) with 0 by lia. simpl. apply app_nil_r.
Qed.

Lemma skipn_app_le {A} n (l r : list A) : n <= length l -> skipn n (l ++ r) = skipn n l ++ r.
Proof.
  intro H. rewrite skipn_app. replace (n - length l) with 0 by lia. reflexivity.
Qed.

Lemma firstn_app_exact {A} (l r : list A) : firstn (length l) (l ++ r) = l.
Proof. rewrite firstn_app, firstn_all, Nat.sub_diag. simpl. apply app_nil_r. Qed.

Lemma skipn_app_exact {A} (l r : list A) : skipn (length l) (l ++ r) = r.
Proof. rewrite skipn_app, skipn_all, Nat.sub_diag. reflexivity. Qed.

Lemma lastn1_app_last (p l : bytes) : l <> [] -> lastn 1 (p ++ l) = [last l x00].
Proof.
  intro Hl. destruct (exists_last Hl) as (l'&a&->).
  rewrite last_last. unfold lastn. rewrite app_assoc. rewrite (app_length (p ++ l') [a]). simpl.
  replace (length (p ++ l') + 1 - 1) with (length (p ++ l')) by lia.
  apply skipn_app_exact.
Qed.

Section LineProofs.
  Variable St : Type.
  Variable sread : St -> nat -> rres * St.
  Variable Rep : St -> bytes -> tail -> Prop.
  Variable wt : St -> nat.
  Variable lead : St -> nat.
  Hypothesis Hok : reader_ok St sread Rep wt lead.
  Variable N : nat.
  Hypothesis HN : 4 <= N.

  Notation BR := (BR St Rep N).
  Notation read_slice := (read_slice St sread N).
  Notation read_line := (read_line St sread N).
  Notation byte_read_line := (byte_read_line St sread N).
  Notation read_lines := (read_lines St sread N).

  Definition bm (b : bufrd) (x : St) : nat := wt x + (if b_err b then 0 else 1).

  Lemma read_slice_spec fuel : forall s b x data t res a',
    BR (b, x) (data, t) -> s <= length (b_data b) ->
    index_byte NL (firstn s (b_data b)) = None ->
    a_read_slice N (data, t) = Ok (res, a') -> bm b x < fuel ->
    exists b' x', read_slice fuel s b x = Ok (res, (b', x')) /\ BR (b', x') a' /\ wt x' <= wt x /\
                  (exists p, b_pre b' = p ++ fst res) /\
                  (snd res = Some IoBufferFull -> b_data b' = [] /\ b_err b' = None).
  Proof.
    induction fuel as [|k IH]; intros s b x data t res a' HBR Hs Hnone Ha Hf; [lia|].
    cbn [Chunk.read_slice]. destruct HBR as [HdN HBR]. set (d := b_data b) in *.
    pose proof (index_byte_split NL d s Hs Hnone) as Hsplit.
    unfold a_read_slice in Ha.
    destruct (index_byte NL (skipn s d)) as [i|] eqn:Ei.
    - (* delimiter in the buffer *)
      simpl in Hsplit. pose proof (index_byte_lt _ _ _ Hsplit) as Hlt.
      assert (Hpre : exists rest, data = d ++ rest).
      { destruct (b_err b); [destruct HBR as (_&_&->); exists []; symmetry; apply app_nil_r
                            |destruct HBR as (r&_&->); eauto]. }
      destruct Hpre as (rest&->).
      assert (Hix : index_byte NL (firstn N (d ++ rest)) = Some (s + i)).
      { apply index_byte_firstn_some; [apply index_byte_app_some; exact Hsplit|lia]. }
      rewrite Hix in Ha.
      rewrite firstn_app_le, skipn_app_le in Ha by lia.
      injection Ha as <- <-.
      replace (s + i + 1) with (S (s + i)) by lia.
      eexists _, _. split; [reflexivity|]. cbn [fst snd].
      split; [|split; [lia|split; [cbn [b_pre]; eauto|intro; discriminate]]].
      unfold Chunk.BR. cbn [b_data b_err]. split; [rewrite skipn_length; lia|].
      destruct (b_err b) eqn:Ee.
      + destruct HBR as (A&B&C). apply (f_equal (@length byte)) in C.
        rewrite app_length in C. assert (rest = []) by (destruct rest; [reflexivity|simpl in C; lia]).
        subst rest. rewrite app_nil_r. auto.
      + destruct HBR as (r&A&C). apply app_inv_head in C. subst r. eauto.
    - (* no delimiter buffered *)
      simpl in Hsplit.
      destruct (b_err b) as [e|] eqn:Ee.
      + destruct HBR as (HR&->&->). fold d in Ha.
        rewrite firstn_all2 in Ha by exact HdN. rewrite Hsplit in Ha.
        destruct (Nat.eqb_spec (length d) N) as [|Hne]; [discriminate|].
        destruct (Nat.ltb_spec N (length d)) as [|_]; [lia|].
        injection Ha as <- <-.
        eexists _, _. split; [reflexivity|]. cbn [fst snd].
        split; [|split; [lia|split; [cbn [b_pre]; eauto|intro H; destruct t; discriminate H]]].
        unfold Chunk.BR. cbn [b_data b_err]. split; [simpl; lia|].
        exists []. split; [exact HR|reflexivity].
      + destruct HBR as (rest&HR&->). fold d in Ha.
        destruct (Nat.leb_spec N (length d)) as [Hfull|Hroom].
        * (* buffer full *)
          assert (length d = N) by lia.
          rewrite <- H in Ha at 1. rewrite firstn_app_exact, Hsplit in Ha.
          rewrite app_length in Ha.
          destruct (Nat.eqb_spec (length d + length rest) N) as [|Hne]; [discriminate|].
          destruct (Nat.ltb_spec N (length d + length rest)) as [_|]; [|lia].
          rewrite <- H in Ha. rewrite firstn_app_exact, skipn_app_exact in Ha.
          injection Ha as <- <-.
          eexists _, _. split; [reflexivity|]. cbn [fst snd].
          split; [|split; [lia|split; [cbn [b_pre]; eauto|intro; split; reflexivity]]].
          unfold Chunk.BR. cbn [b_data b_err]. split; [simpl; lia|].
          exists rest. split; [exact HR|reflexivity].
        * (* fill and look again *)
          destruct (fill_spec St sread Rep wt lead Hok N HN b x rest t Ee HR Hroom)
            as (b'&x'&Hfill&Hp&_&HBR'&Hw&Hprog&(c&Hc)).
          fold d in HBR', Hprog, Hc. rewrite Hfill.
          assert (Hbm : bm b' x' < k).
          { unfold bm in *. rewrite Ee in Hf. destruct (b_err b') eqn:E'; [lia|].
            destruct (Hprog eq_refl). lia. }
          destruct (IH (length d) b' x' (d ++ rest) t res a' HBR') as (b2&x2&A&B&C&D&E).
          -- rewrite Hc, app_length. lia.
          -- rewrite Hc, firstn_app_exact. exact Hsplit.
          -- unfold a_read_slice. exact Ha.
          -- exact Hbm.
          -- exists b2, x2. split; [exact A|]. split; [exact B|]. split; [lia|]. split; [exact D|exact E].
  Qed.

  Lemma read_line_spec fuel b x a res a' :
    BR (b, x) a -> a_read_line N a = Ok (res, a') -> wt x + 1 < fuel ->
    exists b' x', read_line fuel b x = Ok (res, (b', x')) /\ BR (b', x') a' /\ wt x' <= wt x.
  Proof.
    intros HBR Ha Hf. destruct a as [data t]. unfold a_read_line in Ha. unfold Chunk.read_line.
    destruct (a_read_slice N (data, t)) as [[[line oe] [data' t']]| |] eqn:Es; try discriminate.
    destruct (read_slice_spec fuel 0 b x data t (line, oe) (data', t') HBR ltac:(lia) eq_refl Es)
      as (b'&x'&A&B&C&(p&D)&E).
    { unfold bm. destruct (b_err b); lia. }
    rewrite A. cbn [fst snd] in *.
    destruct (rl_post line oe) as [r rew] eqn:Ep. inversion Ha; subst res a'; clear Ha.
    destruct rew.
    - (* rewind: only after ErrBufferFull with a line ending in CR *)
      assert (Hoe : oe = Some IoBufferFull /\ line <> [] /\ last line x00 = CR).
      { unfold rl_post in Ep. destruct oe as [[]|]; try (destruct line; [|destruct (Byte.eqb _ NL)]; inversion Ep; fail).
        destruct line as [|l0 line]; [simpl in Ep; inversion Ep|].
        cbn [is_nil negb andb] in Ep. destruct (Byte.eqb (last (l0 :: line) x00) CR) eqn:Ec; [|inversion Ep].
        repeat split; [discriminate|]. apply Byte.byte_dec_bl in Ec. exact Ec. }
      destruct Hoe as (->&Hne&Hlast). destruct (E eq_refl) as [Hd He].
      rewrite D. destruct (p ++ line) eqn:Epl; [apply app_eq_nil in Epl as [_ ?]; congruence|].
      rewrite <- Epl. eexists _, _. split; [reflexivity|]. split; [|exact C].
      rewrite lastn1_app_last by exact Hne. rewrite Hlast, Hd.
      destruct B as [_ B]. rewrite He in B. destruct B as (rest&HR&->).
      unfold Chunk.BR. cbn [b_data b_err]. rewrite He. split; [simpl; lia|].
      exists rest. split; [exact HR|]. rewrite Hd. reflexivity.
    - eexists _, _. split; [reflexivity|]. split; assumption.
  Qed.

  Lemma byte_read_line_spec gas fuel : forall acc b x a res a',
    BR (b, x) a -> a_byte_read_line N fuel acc a = Ok (res, a') -> wt x + 1 < gas ->
    exists b' x', byte_read_line gas fuel acc b x = Ok (res, (b', x')) /\ BR (b', x') a' /\ wt x' <= wt x.
  Proof.
    induction fuel as [|k IH]; intros acc b x a res a' HBR Ha Hg; [discriminate|].
    cbn [a_byte_read_line Chunk.byte_read_line] in *.
    destruct (a_read_line N a) as [[[[l more] oe] a1]| |] eqn:El; try discriminate.
    destruct (read_line_spec gas b x a _ a1 HBR El Hg) as (b1&x1&A&B&C). rewrite A.
    destruct oe as [e|].
    - inversion Ha; subst. eauto.
    - destruct more.
      + destruct (IH (acc ++ l) b1 x1 a1 res a' B Ha ltac:(lia)) as (b2&x2&A2&B2&C2).
        exists b2, x2. repeat split; auto. lia.
      + inversion Ha; subst. eauto.
  Qed.

  Theorem read_lines_spec gas fuel : forall b x a res,
    BR (b, x) a -> a_read_lines N fuel a = Ok res -> wt x + 1 < gas ->
    read_lines gas fuel b x = Ok res.
  Proof.
    induction fuel as [|k IH]; intros b x a res HBR Ha Hg; [discriminate|].
    cbn [a_read_lines Chunk.read_lines] in *.
    destruct (a_byte_read_line N (S k) [] a) as [[[e|l] a1]| |] eqn:El; try discriminate.
    - destruct (byte_read_line_spec gas (S k) [] b x a _ a1 HBR El Hg) as (b1&x1&A&B&C).
      rewrite A. exact Ha.
    - destruct (byte_read_line_spec gas (S k) [] b x a _ a1 HBR El Hg) as (b1&x1&A&B&C).
      rewrite A. destruct (a_read_lines N k a1) as [[ls e]| |] eqn:E2; try discriminate.
      rewrite (IH b1 x1 a1 (ls, e) B E2 ltac:(lia)). exact Ha.
  Qed.
End LineProofs.
