(* C07 proofs, part 3: nothing is lost.  For EVERY configuration (no cfg_ok) and EVERY input:
   the scanner cuts the input into tokens that each end with their first unescaped segment
   delimiter, plus an unterminated rest (dropped: DESIGN section 6 F8); CR/LF-only tokens are
   skipped; every other token is split into pieces that, joined again with the delimiters, give
   the token back (minus its delimiter and the CR the LF rule drops), and those pieces are the
   RawSegElem data.  Never a panic, never out of fuel. *)
From Coq Require Import List NArith Bool Arith Lia.
From Coq.Strings Require Import Byte.
Import ListNotations.
From OV Require Import Base.Bytes Base.Cases Base.Utf8 Gen.EdiConsts Gen.EdiShape Model.Edi Proofs.Edi Proofs.EdiRT.

(* a token: ends with seg, and that is its first unescaped occurrence of seg *)
Definition is_token (seg esc t : bytes) : Prop :=
  exists p, t = p ++ seg /\ unesc_occ esc t seg (length p) /\
            forall j, j < length p -> ~ unesc_occ esc t seg j.

Lemma occ_at_app_l t rest sep j : j + length sep <= length t ->
  occ_at (t ++ rest) sep j <-> occ_at t sep j.
Proof.
  intro Hb. split.
  - intros (u & v & Heq & Hu). subst j.
    rewrite (app_assoc u sep v) in Heq. symmetry in Heq.
    apply app_split_ge in Heq; [|rewrite app_length; lia].
    destruct Heq as (m & Ht & _). exists u, m. split; [|reflexivity]. rewrite Ht, <- app_assoc. reflexivity.
  - intros (u & v & -> & Hu). exists u, (v ++ rest). rewrite <- !app_assoc. auto.
Qed.

Lemma unesc_occ_app_l esc t rest sep j : j + length sep <= length t ->
  unesc_occ esc (t ++ rest) sep j <-> unesc_occ esc t sep j.
Proof.
  intro Hb. unfold unesc_occ, escaped_at. rewrite (occ_at_app_l t rest sep j Hb).
  rewrite firstn_app. replace (j - length t) with 0 by lia. cbn [firstn]. rewrite app_nil_r. reflexivity.
Qed.

Lemma no_occ_nil esc sep j : sep <> [] -> ~ unesc_occ esc [] sep j.
Proof.
  intros Hs [(u & v & Heq & _) _]. destruct u; destruct sep; simpl in Heq; congruence.
Qed.

(* ---- the scanner ------------------------------------------------------------------------------------- *)
Lemma scan_tokens_cover seg esc : seg <> [] -> forall fuel inp, length inp < fuel ->
  exists toks rest, scan_tokens fuel inp seg esc = Ok toks /\ inp = concat toks ++ rest /\
                    Forall (is_token seg esc) toks /\ forall j, ~ unesc_occ esc rest seg j.
Proof.
  intros Hs. induction fuel as [|k IH]; intros inp Hf; [lia|].
  cbn [scan_tokens]. destruct inp as [|b0 inp0] eqn:Einp.
  { exists [], []. repeat split; [constructor|]. intro j. apply no_occ_nil. exact Hs. }
  rewrite <- Einp in *. clear Einp b0 inp0.
  destruct (index_with_esc_spec inp seg esc Hs) as (r & -> & Hpost). cbn [bind].
  change edi_scanner_eof_as_delim with false. change edi_scanner_drop_delim with false. cbn iota.
  destruct r as [idx|].
  - destruct Hpost as [Hat Hfirst]. pose proof Hat as [(u & v & Hinp & Hu) _].
    assert (Hlen : idx + length seg <= length inp) by (rewrite Hinp, !app_length; lia).
    assert (0 < length seg) by (destruct seg; [congruence|simpl; lia]).
    rewrite slice_ok by lia. cbn [bind]. rewrite slice_from_ok by lia. cbn [bind skipn]. rewrite Nat.sub_0_r.
    destruct (IH (skipn (idx + length seg) inp)) as (toks & rest & -> & Hrest & Htoks & Hno).
    { rewrite skipn_length. lia. }
    cbn [bind]. exists (firstn (idx + length seg) inp :: toks), rest.
    split; [reflexivity|]. split; [|split; [|exact Hno]].
    + cbn [concat]. rewrite <- app_assoc, <- Hrest. symmetry. apply firstn_skipn.
    + constructor; [|exact Htoks].
      set (t := firstn (idx + length seg) inp).
      assert (Hinp2 : inp = t ++ skipn (idx + length seg) inp) by (symmetry; apply firstn_skipn).
      assert (Htl : length t = idx + length seg) by (unfold t; apply firstn_length_le; exact Hlen).
      exists u. split.
      * unfold t. rewrite Hinp, app_assoc, firstn_app.
        replace (idx + length seg - length (u ++ seg)) with 0 by (rewrite app_length; lia).
        cbn [firstn]. rewrite app_nil_r. apply firstn_all2. rewrite app_length. lia.
      * rewrite Hu. split.
        -- apply (unesc_occ_app_l esc t (skipn (idx + length seg) inp) seg idx); [lia|]. rewrite <- Hinp2. exact Hat.
        -- intros j Hj Hoc. apply (Hfirst j Hj). rewrite Hinp2.
           apply (unesc_occ_app_l esc t _ seg j); [lia|exact Hoc].
  - exists [], inp. repeat split; [constructor|exact Hpost].
Qed.

(* an input that is a sequence of tokens is cut into exactly those tokens: nothing is dropped *)
Lemma scan_tokens_terminated seg esc : seg <> [] -> forall toks fuel,
  Forall (is_token seg esc) toks -> length (concat toks) < fuel ->
  scan_tokens fuel (concat toks) seg esc = Ok toks.
Proof.
  intros Hs. induction toks as [|t toks IH]; intros fuel Hall Hf.
  - destruct fuel; [simpl in Hf; lia|]. reflexivity.
  - inversion Hall as [|? ? Ht Htoks]; subst. destruct Ht as (p & Ht & Hat & Hfirst).
    assert (0 < length seg) by (destruct seg; [congruence|simpl; lia]).
    assert (Htl : length t = length p + length seg) by (rewrite Ht, app_length; reflexivity).
    destruct fuel as [|k]; [lia|]. cbn [concat] in *. cbn [scan_tokens].
    destruct (t ++ concat toks) as [|b0 d0] eqn:Ed.
    { apply (f_equal (@length byte)) in Ed. rewrite app_length in Ed. simpl in Ed. lia. }
    rewrite <- Ed in *. clear Ed b0 d0.
    destruct (index_with_esc_spec (t ++ concat toks) seg esc Hs) as (r & -> & Hpost). cbn [bind].
    change edi_scanner_eof_as_delim with false. change edi_scanner_drop_delim with false. cbn iota.
    assert (Hat' : unesc_occ esc (t ++ concat toks) seg (length p)).
    { apply unesc_occ_app_l; [lia|exact Hat]. }
    assert (Hbefore : forall j, j < length p -> ~ unesc_occ esc (t ++ concat toks) seg j).
    { intros j Hj Hoc. apply (Hfirst j Hj). apply (unesc_occ_app_l esc t (concat toks) seg j); [lia|exact Hoc]. }
    assert (r = Some (length p)) as ->.
    { destruct r as [i|].
      - destruct Hpost as [Hi Hfi]. f_equal.
        destruct (Nat.lt_trichotomy i (length p)) as [Hlt|[Heq|Hgt]]; [|exact Heq|].
        + exfalso. apply (Hbefore i Hlt Hi).
        + exfalso. apply (Hfi (length p) Hgt Hat').
      - exfalso. apply (Hpost (length p) Hat'). }
    rewrite app_length in Hf.
    rewrite slice_ok by (rewrite ?app_length; lia). cbn [bind].
    rewrite slice_from_ok by (rewrite app_length; lia). cbn [bind skipn]. rewrite Nat.sub_0_r.
    rewrite <- Htl, firstn_app, Nat.sub_diag, firstn_all, skipn_app_exact. cbn [firstn]. rewrite app_nil_r.
    rewrite IH by (try exact Htoks; lia). reflexivity.
Qed.

(* ---- readToken: the pieces joined again give the token back ----------------------------------------------- *)
Definition nest := list (list (list bytes)).  (* elements x repetitions x components, raw *)

Fixpoint nest_elems (i : nat) (n : nest) : list rawelem :=
  match n with
  | [] => []
  | e :: r => flat_map (comps_of i 0) e ++ nest_elems (S i) r
  end.

Definition rejoin (c : cfg) (n : nest) : bytes :=
  join (c_elem c) (map (fun reps => join (optb (c_rep c)) (map (join (optb (c_comp c))) reps)) n).

Definition seg_result (raw : list rawelem) : segres :=
  match raw with
  | [] => SegErr
  | e0 :: _ => if is_empty (re_data e0) then SegErr else SegOk (re_data e0) raw
  end.

Lemma split_total s delim esc : exists l, split_with_esc s delim esc = Ok l /\ (delim <> [] -> join delim l = s).
Proof.
  destruct (list_eq_dec Byte.byte_eq_dec delim []) as [->|Hd].
  - unfold split_with_esc, bytes_split. cbn [is_empty]. rewrite orb_true_r. cbn [orb]. eexists. split; [reflexivity|congruence].
  - destruct (split_concat s delim esc Hd) as (l & Hl & Hj & _). exists l. auto.
Qed.

Lemma vals_to_elems_cover c i : forall vals, exists reps,
  vals_to_elems c i vals = Ok (flat_map (comps_of i 0) reps) /\
  map (join (optb (c_comp c))) reps = vals.
Proof.
  induction vals as [|v vals IH]; [exists []; auto|]. destruct IH as (reps & Hr & Hm).
  cbn [vals_to_elems]. destruct (is_empty (optb (c_comp c))) eqn:Ec.
  - cbn [bind]. rewrite Hr. cbn [bind]. exists ([v] :: reps). split; [reflexivity|]. cbn [map join]. rewrite Hm. reflexivity.
  - destruct (split_total v (optb (c_comp c)) (optb (c_rel c))) as (cs & -> & Hj). cbn [bind]. rewrite Hr. cbn [bind].
    exists (cs :: reps). split; [reflexivity|]. cbn [map]. rewrite Hm, Hj; [reflexivity|].
    destruct (optb (c_comp c)); [discriminate|discriminate].
Qed.

Lemma elems_to_raw_cover c : forall els i, exists n : nest,
  elems_to_raw c i els = Ok (nest_elems i n) /\
  map (fun reps => join (optb (c_rep c)) (map (join (optb (c_comp c))) reps)) n = els.
Proof.
  induction els as [|e els IH]; intro i; [exists []; auto|]. destruct (IH (S i)) as (n & Hn & Hm).
  cbn [elems_to_raw]. destruct (is_empty (optb (c_rep c))) eqn:Er.
  - cbn [bind]. destruct (vals_to_elems_cover c i [e]) as (reps & -> & Hv). cbn [bind]. rewrite Hn. cbn [bind].
    exists (reps :: n). split; [reflexivity|]. cbn [map]. rewrite Hm, Hv. reflexivity.
  - destruct (split_total e (optb (c_rep c)) (optb (c_rel c))) as (vals & -> & Hj). cbn [bind].
    destruct (vals_to_elems_cover c i vals) as (reps & -> & Hv). cbn [bind]. rewrite Hn. cbn [bind].
    exists (reps :: n). split; [reflexivity|]. cbn [map]. rewrite Hm, Hv, Hj; [reflexivity|].
    destruct (optb (c_rep c)); discriminate.
Qed.

(* what readToken does with a token p ++ seg: never a panic; the RawSegElems are the pieces n, and
   n joined with the delimiters is p, or p without the CR that precedes an LF delimiter *)
Definition tok_accounted (c : cfg) (t : bytes) (r : segres) : Prop :=
  exists p nsd (n : nest), t = p ++ c_seg c /\
    (nsd = p \/ (c_seg c = [LF] /\ p = nsd ++ [CR])) /\
    rejoin c n = nsd /\ r = seg_result (nest_elems 0 n).

Lemma read_token_cover c p : c_elem c <> [] ->
  exists r, read_token c (p ++ c_seg c) = Ok r /\ tok_accounted c (p ++ c_seg c) r.
Proof.
  intro He. unfold read_token.
  change lf_rule_delim with [LF]. change lf_rule_suffix with [CR]. change edi_lf_rule_drop with 1.
  assert (length (p ++ c_seg c) <? length (c_seg c) = false) as ->.
  { apply Nat.ltb_ge. rewrite app_length. lia. }
  rewrite slice_ok by (rewrite ?app_length; lia). cbn [bind skipn]. rewrite Nat.sub_0_r.
  replace (length (p ++ c_seg c) - length (c_seg c)) with (length p) by (rewrite app_length; lia).
  rewrite firstn_app, Nat.sub_diag, firstn_all. cbn [firstn]. rewrite app_nil_r.
  assert (Hnsd : exists nsd, (if bytes_eqb (c_seg c) [LF] && has_suffix p [CR]
                              then slice p 0 (length p - 1) else Ok p) = Ok nsd /\
                             (nsd = p \/ (c_seg c = [LF] /\ p = nsd ++ [CR]))).
  { destruct (bytes_eqb (c_seg c) [LF]) eqn:Es; cbn [andb]; [|exists p; auto].
    apply bytes_eqb_eq in Es. destruct (has_suffix p [CR]) eqn:Hp; [|exists p; auto].
    apply has_suffix_cr in Hp as [u ->].
    rewrite slice_ok by (rewrite ?app_length; simpl; lia). cbn [skipn]. rewrite Nat.sub_0_r, app_length.
    cbn [length]. rewrite Nat.add_sub, firstn_app, Nat.sub_diag, firstn_all. cbn [firstn]. rewrite app_nil_r.
    exists u. auto. }
  destruct Hnsd as (nsd & Hnsd & Hrel).
  match goal with |- exists r, bind ?X _ = _ /\ _ => replace X with (Ok nsd) by (symmetry; exact Hnsd) end.
  cbn [bind]. destruct (split_total nsd (c_elem c) (optb (c_rel c))) as (els & -> & Hj). cbn [bind].
  destruct (elems_to_raw_cover c els 0) as (n & -> & Hm). cbn [bind].
  exists (seg_result (nest_elems 0 n)). split.
  - unfold seg_result. destruct (nest_elems 0 n) as [|e0 raw]; [reflexivity|].
    destruct (is_empty (re_data e0)); reflexivity.
  - exists p, nsd, n. split; [reflexivity|]. split; [exact Hrel|]. split; [|reflexivity].
    unfold rejoin. rewrite Hm. apply Hj. exact He.
Qed.

(* ---- Read over all tokens -------------------------------------------------------------------------------------- *)
Lemma read_tokens_cover c : c_elem c <> [] -> forall toks,
  Forall (is_token (c_seg c) (optb (c_rel c))) toks ->
  exists results, read_tokens c toks = Ok results /\
    Forall2 (tok_accounted c) (filter (fun t => negb (only_crlf t)) toks) results.
Proof.
  intros He. induction toks as [|t toks IH]; intro Hall; [exists []; split; [reflexivity|constructor]|].
  inversion Hall as [|? ? Ht Htoks]; subst. destruct (IH Htoks) as (results & Hr & Hf).
  cbn [read_tokens filter]. destruct (only_crlf t) eqn:Eo; cbn [negb].
  - exists results. auto.
  - destruct Ht as (p & -> & _). destruct (read_token_cover c p He) as (r & -> & Hacc). cbn [bind].
    rewrite Hr. cbn [bind]. exists (r :: results). split; [reflexivity|]. constructor; assumption.
Qed.

Lemma strip_crlf_spec inp : strip_crlf inp = filter (fun b => negb (is_crlf b)) inp.
Proof.
  (* the sequences extracted from NewNonValidatingReader are "\r" and "\n", in this order *)
  change (strip_crlf inp) with (filter (fun b => negb (Byte.eqb b LF)) (filter (fun b => negb (Byte.eqb b CR)) inp)).
  unfold is_crlf. induction inp as [|b inp IH]; [reflexivity|]. cbn [filter].
  destruct (Byte.eqb b CR) eqn:E1; cbn [negb orb filter].
  - exact IH.
  - destruct (Byte.eqb b LF); cbn [negb]; [exact IH|]. rewrite IH. reflexivity.
Qed.

(* the accounting of one whole run *)
Lemma nv_read_all_cover c inp : c_seg c <> [] -> c_elem c <> [] ->
  let inp' := if c_ignore_crlf c then strip_crlf inp else inp in
  exists toks rest results,
    nv_read_all c inp = Ok results /\
    inp' = concat toks ++ rest /\
    Forall (is_token (c_seg c) (optb (c_rel c))) toks /\
    (forall j, ~ unesc_occ (optb (c_rel c)) rest (c_seg c) j) /\
    Forall2 (tok_accounted c) (filter (fun t => negb (only_crlf t)) toks) results.
Proof.
  intros Hs He inp'. unfold nv_read_all.
  assert (is_empty (c_seg c) = false) as -> by (destruct (c_seg c); [congruence|reflexivity]).
  fold inp'.
  destruct (scan_tokens_cover (c_seg c) (optb (c_rel c)) Hs (S (length inp')) inp') as (toks & rest & -> & Hin & Htoks & Hrest); [lia|].
  cbn [bind]. destruct (read_tokens_cover c He toks Htoks) as (results & Hr & Hf).
  exists toks, rest, results. auto.
Qed.

(* when the input is a sequence of terminated segments nothing is left over *)
Lemma nv_read_all_complete c inp toks : c_seg c <> [] -> c_elem c <> [] ->
  (if c_ignore_crlf c then strip_crlf inp else inp) = concat toks ->
  Forall (is_token (c_seg c) (optb (c_rel c))) toks ->
  exists results, nv_read_all c inp = Ok results /\
    Forall2 (tok_accounted c) (filter (fun t => negb (only_crlf t)) toks) results.
Proof.
  intros Hs He Hin Htoks. unfold nv_read_all.
  assert (is_empty (c_seg c) = false) as -> by (destruct (c_seg c); [congruence|reflexivity]).
  rewrite Hin, (scan_tokens_terminated (c_seg c) (optb (c_rel c)) Hs toks _ Htoks) by lia. cbn [bind].
  apply read_tokens_cover; assumption.
Qed.

(* whatever the scanner returns are tokens (handy to exhibit tokens by computation) *)
Lemma scan_is_token seg esc inp toks : seg <> [] ->
  scan_tokens (S (length inp)) inp seg esc = Ok toks ->
  Forall (is_token seg esc) toks /\ exists rest, inp = concat toks ++ rest.
Proof.
  intros Hs Hsc. destruct (scan_tokens_cover seg esc Hs (S (length inp)) inp) as (toks' & rest & Hsc' & Hin & Ht & _); [lia|].
  rewrite Hsc in Hsc'. injection Hsc' as Heq. subst toks'. split; [exact Ht|exists rest; exact Hin].
Qed.
