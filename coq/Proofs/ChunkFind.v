(* C09 proofs, part 12: the delimiter search of the split function (bytes.Index, and
   strs.ByteIndexWithEsc with a release character) is prefix-stable: a delimiter found in a
   buffered prefix is the one found in any longer buffer.  This is what the scanner theorem needs
   of its [find]. *)
From Coq Require Import List NArith Bool Arith Lia.
From Coq.Strings Require Import Byte.
Import ListNotations.
From OV Require Import Base.Bytes Base.Cases Base.Utf8 Model.Chunk Proofs.Chunk Proofs.ChunkLines Proofs.ChunkBom.

Lemma skipn_add {A} a b (l : list A) : skipn (a + b) l = skipn b (skipn a l).
Proof.
  revert l; induction a as [|a IH]; intro l; [reflexivity|].
  destruct l as [|x l]; [destruct b; reflexivity|]. simpl. apply IH.
Qed.

Lemma index_sub_at p l i : index_sub p l = Some i -> exists tl, skipn i l = p ++ tl.
Proof.
  revert i; induction l as [|a l IHl]; intros i Ei; cbn [index_sub] in Ei.
  - destruct (prefix_eqb p []) eqn:E; [|discriminate]. injection Ei as <-.
    destruct p; [exists []; reflexivity|discriminate].
  - destruct (prefix_eqb p (a :: l)) eqn:E.
    + injection Ei as <-. cbn [skipn]. clear -E. revert E. generalize (a :: l). intro m. revert m.
      induction p as [|c p IHp]; intros m E; [exists m; reflexivity|].
      destruct m as [|c' m]; [discriminate|]. simpl in E. apply andb_prop in E as [E1 E2].
      apply Byte.byte_dec_bl in E1. subst c'. destruct (IHp m E2) as (tl&->). exists tl. reflexivity.
    + destruct (index_sub p l) as [j|] eqn:Ej; [|discriminate]. injection Ei as <-.
      cbn [skipn]. apply IHl. reflexivity.
Qed.

Lemma prefix_eqb_len p l : prefix_eqb p l = true -> length p <= length l.
Proof.
  revert l; induction p as [|a p IH]; intros l H; [simpl; lia|].
  destruct l as [|b l]; [discriminate|]. simpl in H. apply andb_prop in H as [_ H].
  specialize (IH l H). simpl. lia.
Qed.

Lemma prefix_eqb_app p l r : prefix_eqb p l = true -> prefix_eqb p (l ++ r) = true.
Proof.
  revert l; induction p as [|a p IH]; intros l H; [reflexivity|].
  destruct l as [|b l]; [discriminate|]. simpl in *. apply andb_prop in H as [H1 H2].
  rewrite H1, (IH l H2). reflexivity.
Qed.

Lemma prefix_eqb_app_inv p l r : length p <= length l -> prefix_eqb p (l ++ r) = prefix_eqb p l.
Proof.
  revert l; induction p as [|a p IH]; intros l H; [reflexivity|].
  destruct l as [|b l]; [simpl in H; lia|]. simpl in *. rewrite IH by lia. reflexivity.
Qed.

Lemma index_sub_bound p l i : index_sub p l = Some i -> i + length p <= length l.
Proof.
  revert i; induction l as [|a l IH]; intros i H; cbn [index_sub] in H.
  - destruct (prefix_eqb p []) eqn:E; [|discriminate]. injection H as <-. apply prefix_eqb_len in E. lia.
  - destruct (prefix_eqb p (a :: l)) eqn:E.
    + injection H as <-. apply prefix_eqb_len in E. lia.
    + destruct (index_sub p l) as [j|]; [|discriminate]. injection H as <-.
      specialize (IH j eq_refl). simpl. lia.
Qed.

Lemma index_sub_ext p l r i : index_sub p l = Some i -> index_sub p (l ++ r) = Some i.
Proof.
  revert i; induction l as [|a l IH]; intros i H; cbn [index_sub] in H.
  - destruct (prefix_eqb p []) eqn:E; [|discriminate]. injection H as <-.
    destruct p; [|discriminate]. destruct r; reflexivity.
  - cbn [app index_sub]. destruct (prefix_eqb p (a :: l)) eqn:E.
    + injection H as <-. change (a :: l ++ r) with ((a :: l) ++ r). rewrite prefix_eqb_app by exact E. reflexivity.
    + destruct (index_sub p l) as [j|] eqn:Ej; [|discriminate]. injection H as <-.
      pose proof (index_sub_bound p l j Ej) as Hb.
      change (a :: l ++ r) with ((a :: l) ++ r). rewrite prefix_eqb_app_inv by (simpl; lia).
      rewrite E, (IH j eq_refl). reflexivity.
Qed.

(* bytes.Index as the scanner's find (no release character) *)
Lemma find_plain_ok delim : delim <> [] ->
  (forall d i, byte_index_with_esc delim [] d = Some i -> i + length delim <= length d) /\
  (forall d r i, byte_index_with_esc delim [] d = Some i -> byte_index_with_esc delim [] (d ++ r) = Some i).
Proof.
  intro Hd. unfold byte_index_with_esc. cbn [is_nil]. split.
  - intros d i. rewrite !orb_true_r. apply index_sub_bound.
  - intros d r i. rewrite !orb_true_r. apply index_sub_ext.
Qed.

(* strs.ByteIndexWithEsc *)
Section Esc.
  Variable delim esc : bytes.
  Hypothesis Hdelim : full_rune delim = true.     (* the delimiter starts with a complete rune *)

  Lemma delim_nonnil : delim <> [].
  Proof. intro E. rewrite E in Hdelim. discriminate. Qed.

  Lemma loop_ext fuel : forall s r begin b,
    begin <= length s ->
    index_esc_loop delim esc fuel s begin = Some b ->
    forall fuel', fuel <= fuel' -> index_esc_loop delim esc fuel' (s ++ r) begin = Some b /\ b + length delim <= length s.
  Proof.
    induction fuel as [|k IH]; intros s r begin b Hbeg H fuel' Hf; [discriminate|].
    destruct fuel' as [|k']; [lia|]. cbn [index_esc_loop] in *.
    destruct (index_sub delim (skipn begin s)) as [i|] eqn:Ei; [|discriminate].
    pose proof (index_sub_bound _ _ _ Ei) as Hb. rewrite skipn_length in Hb.
    rewrite skipn_app_le by exact Hbeg. rewrite (index_sub_ext _ _ r _ Ei).
    rewrite (firstn_app_le (begin + i)) by lia.
    destruct (Nat.odd (esc_run esc (S (begin + i)) (firstn (begin + i) s))).
    - assert (Hdec : decode_rune (skipn (begin + i) (s ++ r)) = decode_rune (skipn (begin + i) s)).
      { (* both start with the delimiter, whose first rune is complete *)
        assert (Hpre : exists tl, skipn (begin + i) s = delim ++ tl).
        { rewrite skipn_add. apply index_sub_at. exact Ei. }
        destruct Hpre as (tl&Hs). rewrite skipn_app_le by lia. rewrite Hs, <- app_assoc.
        rewrite !decode_rune_stable by (right; exact Hdelim). reflexivity. }
      rewrite Hdec.
      pose proof (decode_rune_size (skipn (begin + i) s)) as Hsz.
      assert (Hne : skipn (begin + i) s <> []).
      { intro E. apply (f_equal (@length byte)) in E. rewrite skipn_length in E. simpl in E.
        pose proof delim_nonnil. destruct delim; [congruence|simpl in Hb; lia]. }
      specialize (Hsz Hne). rewrite skipn_length in Hsz.
      apply (IH s r (begin + i + snd (decode_rune (skipn (begin + i) s))) b ltac:(lia) H k' ltac:(lia)).
    - injection H as <-. split; [reflexivity|lia].
  Qed.

  Lemma find_esc_ok :
    (forall d i, byte_index_with_esc delim esc d = Some i -> i + length delim <= length d) /\
    (forall d r i, byte_index_with_esc delim esc d = Some i -> byte_index_with_esc delim esc (d ++ r) = Some i).
  Proof.
    pose proof delim_nonnil as Hdn.
    destruct esc as [|e0 es] eqn:Eesc.
    - rewrite <- Eesc in *. subst esc. apply find_plain_ok. exact Hdn.
    - rewrite <- Eesc in *. assert (Hen : is_nil esc = false) by (rewrite Eesc; reflexivity).
      assert (Hdl : is_nil delim = false) by (destruct delim; [congruence|reflexivity]).
      unfold byte_index_with_esc. rewrite Hen, Hdl. split.
      + intros d i H. destruct d as [|d0 d]; cbn [is_nil orb] in H.
        * apply index_sub_bound in H. exact H.
        * apply (loop_ext _ (d0 :: d) [] 0 i ltac:(simpl; lia) H (S (length (d0 :: d))) ltac:(lia)).
      + intros d r i H. destruct d as [|d0 d]; cbn [is_nil orb] in H.
        * apply index_sub_bound in H. destruct delim; [congruence|simpl in H; lia].
        * cbn [app is_nil orb].
          apply (loop_ext _ (d0 :: d) r 0 i ltac:(simpl; lia) H (S (length ((d0 :: d) ++ r)))).
          rewrite app_length. lia.
  Qed.
End Esc.
