(* C12 proofs, part 8: the slot discipline of the readers never releases a node twice. *)
From Coq Require Import List NArith ZArith Bool Lia.
From stdpp Require Import pmap.
From OV Require Import Base.Bytes Base.Cases Base.Tree Model.Heap Proofs.HeapOps.
Import ListNotations.

(* slot and current node agree, and what they hold has been delivered and not yet removed *)
Definition rinv (st : rstate) (pending : option addr) : Prop :=
  r_slot st = pending /\ (r_cur st = pending \/ r_cur st = None).

Lemma reader_run_spec : forall cs st pending,
  rinv st pending ->
  NoDup (deliveries cs) ->
  (forall p, pending = Some p -> p ∉ deliveries cs) ->
  let rm := snd (reader_run st cs) in
  NoDup rm /\ (forall r, r ∈ rm -> pending = Some r \/ r ∈ deliveries cs).
Proof.
  induction cs as [|c cs IH]; intros st pending [Hs Hc] Hnd Hp; simpl.
  - split; [constructor|]. intros r Hr. inversion Hr.
  - destruct c as [d|].
    + (* reader.Read delivering d *)
      simpl. rewrite Hs.
      assert (Hnd' : NoDup (deliveries cs)).
      { destruct d; simpl in Hnd; [apply NoDup_cons in Hnd as [_ Hnd]|]; exact Hnd. }
      assert (Hd : forall p, d = Some p -> p ∉ deliveries cs).
      { intros p ->. simpl in Hnd. apply NoDup_cons in Hnd as [Hnd _]. exact Hnd. }
      specialize (IH (mkR d d) d (conj eq_refl (or_introl eq_refl)) Hnd' Hd).
      destruct (reader_run (mkR d d) cs) as [st2 rms] eqn:E. simpl in *. destruct IH as [IH1 IH2].
      destruct pending as [p|]; simpl.
      * split.
        -- apply NoDup_cons. split; [|exact IH1]. intros Hin. destruct (IH2 p Hin) as [Hd'|Hd'].
           ++ subst d. apply (Hp p eq_refl). simpl. apply elem_of_cons. auto.
           ++ apply (Hp p eq_refl). destruct d; simpl; [apply elem_of_cons; auto|auto].
        -- intros r Hr. apply elem_of_cons in Hr as [->|Hr]; [auto|].
           right. destruct (IH2 r Hr) as [Hd'|Hd']; [subst d; simpl; apply elem_of_cons; auto|].
           destruct d; simpl; [apply elem_of_cons; auto|auto].
      * split; [exact IH1|]. intros r Hr. right.
        destruct (IH2 r Hr) as [Hd'|Hd']; [subst d; simpl; apply elem_of_cons; auto|].
        destruct d; simpl; [apply elem_of_cons; auto|auto].
    + (* release the current node *)
      simpl in Hnd, Hp. simpl.
      destruct (r_cur st) as [n|] eqn:Ecur.
      * destruct Hc as [Hc|Hc]; [|discriminate]. rewrite <- Hc in *. clear Hc pending. rewrite Hs.
        assert (Eb : oaddr_eqb (Some n) (Some n) = true) by (apply oaddr_eqb_spec; reflexivity).
        rewrite Eb.
        specialize (IH (mkR None None) None (conj eq_refl (or_introl eq_refl)) Hnd).
        destruct (reader_run (mkR None None) cs) as [st2 rms] eqn:E. simpl in *.
        destruct IH as [IH1 IH2]; [intros p Hp'; discriminate|].
        split.
        -- apply NoDup_cons. split; [|exact IH1]. intros Hin.
           destruct (IH2 n Hin) as [Hd'|Hd']; [discriminate|]. apply (Hp n eq_refl Hd').
        -- intros r Hr. apply elem_of_cons in Hr as [->|Hr]; [auto|].
           destruct (IH2 r Hr) as [Hd'|Hd']; [discriminate|auto].
      * specialize (IH st pending (conj Hs (or_intror Ecur)) Hnd Hp).
        destruct (reader_run st cs) as [st2 rms] eqn:E. simpl in *. exact IH.
Qed.

Lemma reader_slot_pf : forall cs,
  NoDup (deliveries cs) ->
  let rm := snd (reader_run (mkR None None) cs) in
  NoDup rm /\ (forall r, r ∈ rm -> r ∈ deliveries cs).
Proof.
  intros cs Hnd. destruct (reader_run_spec cs (mkR None None) None) as [H1 H2]; auto.
  - split; [reflexivity|left; reflexivity].
  - intros p Hp. discriminate.
  - split; [exact H1|]. intros r Hr. destruct (H2 r Hr) as [H|H]; [discriminate|exact H].
Qed.
