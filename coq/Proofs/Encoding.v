(* C18 proofs: code-page decoding followed by BOM stripping equals converting the input to UTF-8
   with the standard code page first and declaring utf-8; BOM handling. *)
From Coq Require Import List NArith Bool String Lia PeanoNat.
From Coq.Strings Require Import Byte.
Import ListNotations.
From OV Require Import Base.Bytes Base.Cases Base.Utf8 Gen.Encoding Model.Encoding.
Local Open Scope N_scope.

(* ---- finite sweeps over the 256 byte values -------------------------------------------------- *)
Lemma all_bytes_complete : forall b : byte, In b all_bytes.
Proof.
  intro b.
  assert (H : existsb (Byte.eqb b) all_bytes = true) by (destruct b; vm_compute; reflexivity).
  apply existsb_exists in H as (x & Hin & He).
  apply Byte.byte_dec_bl in He. subst. exact Hin.
Qed.

Lemma sweep_bytes (P : byte -> bool) :
  forallb P all_bytes = true -> forall b, P b = true.
Proof. intros H b. eapply forallb_forall in H; [exact H|apply all_bytes_complete]. Qed.

Definition is_codepage (cp : byte -> rune) : Prop := cp = cp_iso8859_1 \/ cp = cp_windows1252.

(* No byte of either code page is U+FEFF. *)
Lemma bom_not_in_range_iso8859_1 : forall b, cp_iso8859_1 b <> BOM.
Proof.
  intros b H.
  assert (S : negb (cp_iso8859_1 b =? BOM) = true)
    by (revert b H; intros b _; apply (sweep_bytes (fun b => negb (cp_iso8859_1 b =? BOM))); vm_compute; reflexivity).
  apply negb_true_iff, N.eqb_neq in S. contradiction.
Qed.

Lemma bom_not_in_range_windows1252 : forall b, cp_windows1252 b <> BOM.
Proof.
  intros b H.
  assert (S : negb (cp_windows1252 b =? BOM) = true)
    by (apply (sweep_bytes (fun b => negb (cp_windows1252 b =? BOM))); vm_compute; reflexivity).
  apply negb_true_iff, N.eqb_neq in S. contradiction.
Qed.

Lemma bom_not_in_range : forall cp, is_codepage cp -> forall b, cp b <> BOM.
Proof.
  intros cp [-> | ->]; [apply bom_not_in_range_iso8859_1 | apply bom_not_in_range_windows1252].
Qed.

(* The decoder's ASCII shortcut agrees with encoding the code page's rune. *)
Lemma dec_byte_encode : forall cp, is_codepage cp -> forall b, dec_byte cp b = encode_rune (cp b).
Proof.
  intros cp Hc b.
  assert (S : bytes_eqb (dec_byte cp b) (encode_rune (cp b)) = true).
  { destruct Hc as [-> | ->].
    - apply (sweep_bytes (fun b => bytes_eqb (dec_byte cp_iso8859_1 b) (encode_rune (cp_iso8859_1 b)))).
      vm_compute; reflexivity.
    - apply (sweep_bytes (fun b => bytes_eqb (dec_byte cp_windows1252 b) (encode_rune (cp_windows1252 b)))).
      vm_compute; reflexivity. }
  apply bytes_eqb_eq in S. exact S.
Qed.

(* ---- decode is a bytewise homomorphism ---------------------------------------------------------- *)
Lemma decode_app cp a b : decode cp (a ++ b) = decode cp a ++ decode cp b.
Proof. unfold decode. apply flat_map_app. Qed.

Lemma decode_concat cp chunks : decode cp (List.concat chunks) = List.concat (map (decode cp) chunks).
Proof.
  induction chunks as [|c r IH]; [reflexivity|].
  simpl. rewrite decode_app, IH. reflexivity.
Qed.

Lemma decode_with_app d a b : decode_with d (a ++ b) = decode_with d a ++ decode_with d b.
Proof. destruct d; simpl; [reflexivity | apply decode_app | apply decode_app]. Qed.

Lemma decode_with_concat d chunks :
  decode_with d (List.concat chunks) = List.concat (map (decode_with d) chunks).
Proof.
  induction chunks as [|c r IH]; [destruct d; reflexivity|].
  simpl. rewrite decode_with_app, IH. reflexivity.
Qed.

Lemma decode_is_standard cp : is_codepage cp ->
  forall s, decode cp s = encode_runes (map cp s).
Proof.
  intros Hc s. unfold decode, encode_runes.
  induction s as [|b r IH]; [reflexivity|].
  simpl. rewrite IH, (dec_byte_encode cp Hc). reflexivity.
Qed.

(* ---- StripBOM --------------------------------------------------------------------------------- *)
Lemma strip_bom_bom s : strip_bom (bom_bytes ++ s) = s.
Proof. reflexivity. Qed.

(* The first byte a code page decodes to never starts a byte-order mark, whatever follows. *)
Lemma strip_bom_dec_byte cp : is_codepage cp ->
  forall b rest, strip_bom (dec_byte cp b ++ rest) = dec_byte cp b ++ rest.
Proof.
  intros [-> | ->] b rest; destruct b; reflexivity.
Qed.

Lemma strip_bom_decode cp : is_codepage cp -> forall s, strip_bom (decode cp s) = decode cp s.
Proof.
  intros Hc [|b r]; [reflexivity|].
  unfold decode. simpl. apply (strip_bom_dec_byte cp Hc).
Qed.

(* -- exact characterisation of StripBOM: one leading EF BB BF is removed and nothing else -- *)
Fixpoint starts_with (p s : bytes) : bool :=
  match p, s with
  | [], _ => true
  | x :: p', y :: s' => Byte.eqb x y && starts_with p' s'
  | _ :: _, [] => false
  end.

Lemma starts_with_iff p s : starts_with p s = true <-> exists r, s = p ++ r.
Proof.
  revert s; induction p as [|x p IH]; intros s; simpl.
  - split; [intros _; exists s; reflexivity | reflexivity].
  - destruct s as [|y s].
    + split; [discriminate | intros (r & H); discriminate].
    + rewrite andb_true_iff, IH. split.
      * intros (He & r & ->). apply Byte.byte_dec_bl in He. subst. exists r. reflexivity.
      * intros (r & H). inversion H; subst. split; [apply Byte.byte_dec_lb; reflexivity | exists r; reflexivity].
Qed.

Definition LOG2_BOM : N.log2 BOM = 15 := eq_refl.

Lemma log2_shiftl_le a n : N.log2 (N.shiftl a n) <= N.log2 a + n.
Proof.
  destruct (N.eq_dec a 0) as [->|Hn].
  - rewrite N.shiftl_0_l. simpl. lia.
  - rewrite N.log2_shiftl by assumption. lia.
Qed.

Lemma log2_land_le_r a m : N.log2 (N.land a m) <= N.log2 m.
Proof. pose proof (N.log2_land a m). lia. Qed.

Lemma low6_log2 b : N.log2 (low6 b) <= 5.
Proof. unfold low6. pose proof (log2_land_le_r (b2n b) 63). change (N.log2 63) with 5 in H. exact H. Qed.

(* two-byte sequences encode code points below U+0800 *)
Lemma rune2_ne_bom x b1 : N.lor (N.shiftl (N.land x 31) 6) (low6 b1) <> BOM.
Proof.
  intro E. apply (f_equal N.log2) in E. rewrite LOG2_BOM, N.log2_lor in E.
  pose proof (log2_shiftl_le (N.land x 31) 6) as H1.
  pose proof (log2_land_le_r x 31) as H2. change (N.log2 31) with 4 in H2.
  pose proof (low6_log2 b1). lia.
Qed.

(* four-byte sequences encode code points from U+10000 *)
Definition lead4_ok (b0 b1 : byte) : bool :=
  let x := b2n b0 in
  negb (x <? 240) && (x <? 245)
  && in_range (if x =? 240 then 144 else 128) (if x =? 244 then 143 else 191) b1.
Definition hi4 (b0 b1 : byte) : N :=
  N.lor (N.shiftl (N.land (b2n b0) 7) 18) (N.shiftl (low6 b1) 12).

Lemma hi4_large b0 b1 : lead4_ok b0 b1 = true -> 16 <= N.log2 (hi4 b0 b1).
Proof.
  intro H.
  assert (S : implb (lead4_ok b0 b1) (16 <=? N.log2 (hi4 b0 b1)) = true).
  { apply (sweep_bytes (fun b1 => implb (lead4_ok b0 b1) (16 <=? N.log2 (hi4 b0 b1)))).
    apply (sweep_bytes (fun b0 => forallb (fun b1 => implb (lead4_ok b0 b1) (16 <=? N.log2 (hi4 b0 b1))) all_bytes)).
    vm_compute. reflexivity. }
  rewrite H in S. simpl in S. apply N.leb_le in S. exact S.
Qed.

Lemma rune4_ne_bom b0 b1 c d : lead4_ok b0 b1 = true -> N.lor (N.lor (hi4 b0 b1) c) d <> BOM.
Proof.
  intros H E. apply (f_equal N.log2) in E. rewrite LOG2_BOM, !N.log2_lor in E.
  pose proof (hi4_large b0 b1 H). lia.
Qed.

(* three-byte sequences: U+FEFF has exactly one encoding *)
Definition lead3 : list byte := filter (fun b => negb (b2n b <? 224) && (b2n b <? 240)) all_bytes.
Definition rune3_chk (b0 b1 b2 : byte) : bool :=
  implb (fst (decode_rune [b0; b1; b2]) =? BOM) (Byte.eqb b0 xef && Byte.eqb b1 xbb && Byte.eqb b2 xbf).

Lemma rune3_sweep :
  forallb (fun b0 => forallb (fun b1 => forallb (fun b2 => rune3_chk b0 b1 b2) all_bytes) all_bytes) lead3 = true.
Proof. vm_compute. reflexivity. Qed.

Lemma rune3_bom b0 b1 b2 :
  (b2n b0 <? 224) = false -> (b2n b0 <? 240) = true ->
  fst (decode_rune [b0; b1; b2]) = BOM -> b0 = xef /\ b1 = xbb /\ b2 = xbf.
Proof.
  intros H1 H2 E.
  assert (Hin : In b0 lead3).
  { apply filter_In. split; [apply all_bytes_complete|]. rewrite H1, H2. reflexivity. }
  pose proof rune3_sweep as S.
  eapply forallb_forall in S; [|exact Hin].
  eapply forallb_forall in S; [|apply (all_bytes_complete b1)].
  eapply forallb_forall in S; [|apply (all_bytes_complete b2)].
  unfold rune3_chk in S. rewrite E, N.eqb_refl in S. simpl in S.
  apply andb_true_iff in S as [S S3]. apply andb_true_iff in S as [S1 S2].
  repeat split; apply Byte.byte_dec_bl; assumption.
Qed.

Lemma ltb_chain x : (x <? 224) = false -> (x <? 128) = false /\ (x <? 194) = false.
Proof. intro H. apply N.ltb_ge in H. split; apply N.ltb_ge; lia. Qed.

Lemma decode_rune_bom_inv s : fst (decode_rune s) = BOM -> exists r, s = xef :: xbb :: xbf :: r.
Proof.
  destruct s as [|b0 r]; [discriminate|].
  intro E.
  destruct (b2n b0 <? 224) eqn:H224.
  - (* one- and two-byte forms *)
    exfalso. revert E. unfold decode_rune.
    destruct (b2n b0 <? 128) eqn:H128.
    { simpl. apply N.ltb_lt in H128. unfold BOM. lia. }
    destruct (b2n b0 <? 194); [discriminate|].
    rewrite H224.
    destruct r as [|b1 r]; [discriminate|].
    destruct (in_range 128 191 b1); [|discriminate].
    simpl. apply rune2_ne_bom.
  - destruct (ltb_chain _ H224) as [H128 H194].
    destruct (b2n b0 <? 240) eqn:H240.
    + (* three-byte form: decode_rune looks at exactly three bytes *)
      destruct r as [|b1 [|b2 r]].
      * exfalso. revert E. unfold decode_rune. rewrite H128, H194, H224, H240. discriminate.
      * exfalso. revert E. unfold decode_rune. rewrite H128, H194, H224, H240. discriminate.
      * assert (Eq3 : decode_rune (b0 :: b1 :: b2 :: r) = decode_rune [b0; b1; b2]).
        { unfold decode_rune. rewrite H128, H194, H224, H240. reflexivity. }
        rewrite Eq3 in E.
        destruct (rune3_bom b0 b1 b2 H224 H240 E) as (-> & -> & ->).
        exists r. reflexivity.
    + (* four-byte form and invalid lead bytes *)
      exfalso. revert E. unfold decode_rune. rewrite H128, H194, H224, H240.
      destruct (b2n b0 <? 245) eqn:H245; [|discriminate].
      destruct r as [|b1 [|b2 [|b3 r]]]; try discriminate.
      destruct (in_range (if b2n b0 =? 240 then 144 else 128) (if b2n b0 =? 244 then 143 else 191) b1) eqn:Hr;
        [|discriminate].
      destruct (in_range 128 191 b2); [|simpl; discriminate].
      destruct (in_range 128 191 b3); [|simpl; discriminate].
      simpl. apply (rune4_ne_bom b0 b1).
      unfold lead4_ok. rewrite H240, H245, Hr. reflexivity.
Qed.

Lemma strip_bom_spec s :
  strip_bom s = if starts_with bom_bytes s then skipn 3 s else s.
Proof.
  destruct (starts_with bom_bytes s) eqn:Hs.
  - apply starts_with_iff in Hs as (r & ->). reflexivity.
  - destruct s as [|b0 r]; [reflexivity|].
    unfold strip_bom. destruct (decode_rune (b0 :: r)) as [rn n] eqn:Ed.
    destruct (rn =? BOM) eqn:Eb; [|reflexivity].
    apply N.eqb_eq in Eb. subst rn.
    destruct (decode_rune_bom_inv (b0 :: r)) as (r' & Hr'); [rewrite Ed; reflexivity|].
    rewrite Hr' in Hs. discriminate.
Qed.

Lemma strip_bom_no_bom s : starts_with bom_bytes s = false -> strip_bom s = s.
Proof. intro H. rewrite strip_bom_spec, H. reflexivity. Qed.

(* ---- StripBOM does not depend on how the source splits the input ---------------------------- *)
(* once four bytes or a full rune are buffered, DecodeRune does not look further *)
Lemma accept_lo_3 b : (b2n b <? 240) = true ->
  accept_lo b = (if b2n b =? 224 then 160 else 128).
Proof.
  intro H. unfold accept_lo. destruct (b2n b =? 224); [reflexivity|].
  destruct (b2n b =? 240) eqn:E; [|reflexivity].
  apply N.eqb_eq in E. apply N.ltb_lt in H. lia.
Qed.
Lemma accept_hi_3 b : (b2n b <? 240) = true ->
  accept_hi b = (if b2n b =? 237 then 159 else 191).
Proof.
  intro H. unfold accept_hi. destruct (b2n b =? 237); [reflexivity|].
  destruct (b2n b =? 244) eqn:E; [|reflexivity].
  apply N.eqb_eq in E. apply N.ltb_lt in H. lia.
Qed.
Lemma accept_lo_4 b : (b2n b <? 240) = false ->
  accept_lo b = (if b2n b =? 240 then 144 else 128).
Proof.
  intro H. unfold accept_lo. destruct (b2n b =? 224) eqn:E; [|reflexivity].
  apply N.eqb_eq in E. apply N.ltb_ge in H. lia.
Qed.
Lemma accept_hi_4 b : (b2n b <? 240) = false ->
  accept_hi b = (if b2n b =? 244 then 143 else 191).
Proof.
  intro H. unfold accept_hi. destruct (b2n b =? 237) eqn:E; [|reflexivity].
  apply N.eqb_eq in E. apply N.ltb_ge in H. lia.
Qed.

Lemma decode_rune_prefix p rest :
  (4 <= List.length p)%nat \/ full_rune p = true -> decode_rune (p ++ rest) = decode_rune p.
Proof.
  intro H.
  destruct p as [|b0 p']; [destruct H as [H|H]; [simpl in H; lia | discriminate]|].
  assert (Hlen1 : ~ (4 <= List.length [b0])%nat) by (simpl; lia).
  change ((b0 :: p') ++ rest) with (b0 :: (p' ++ rest)).
  unfold decode_rune.
  destruct (b2n b0 <? 128) eqn:H128; [reflexivity|].
  destruct (b2n b0 <? 194) eqn:H194; [reflexivity|].
  destruct (b2n b0 <? 224) eqn:H224.
  { (* two-byte lead *)
    destruct p' as [|b1 t]; [|reflexivity].
    exfalso. destruct H as [H|H]; [contradiction|].
    unfold full_rune, lead_size in H. rewrite H194, H224 in H. discriminate H. }
  destruct (b2n b0 <? 240) eqn:H240.
  { (* three-byte lead *)
    destruct p' as [|b1 [|b2 t]]; [| |reflexivity].
    - exfalso. destruct H as [H|H]; [contradiction|].
      unfold full_rune, lead_size in H. rewrite H194, H224, H240 in H. discriminate H.
    - destruct H as [H|H]; [simpl in H; lia|].
      unfold full_rune, lead_size in H. rewrite H194, H224, H240 in H.
      change (Nat.leb 3 (List.length [b0; b1])) with false in H. cbv iota in H.
      rewrite (accept_lo_3 b0 H240), (accept_hi_3 b0 H240) in H.
      destruct (in_range (if b2n b0 =? 224 then 160 else 128) (if b2n b0 =? 237 then 159 else 191) b1) eqn:Hr;
        [discriminate H|].
      change ([b1] ++ rest) with (b1 :: rest).
      destruct rest as [|c0 rest]; [reflexivity|]. cbv zeta. rewrite Hr. reflexivity. }
  destruct (b2n b0 <? 245) eqn:H245; [|reflexivity].
  (* four-byte lead *)
  destruct p' as [|b1 [|b2 [|b3 t]]]; [| | |reflexivity].
  - exfalso. destruct H as [H|H]; [contradiction|].
    unfold full_rune, lead_size in H. rewrite H194, H224, H240, H245 in H. discriminate H.
  - destruct H as [H|H]; [simpl in H; lia|].
    unfold full_rune, lead_size in H. rewrite H194, H224, H240, H245 in H.
    change (Nat.leb 4 (List.length [b0; b1])) with false in H. cbv iota in H.
    rewrite (accept_lo_4 b0 H240), (accept_hi_4 b0 H240) in H.
    destruct (in_range (if b2n b0 =? 240 then 144 else 128) (if b2n b0 =? 244 then 143 else 191) b1) eqn:Hr;
      [discriminate H|].
    change ([b1] ++ rest) with (b1 :: rest).
    destruct rest as [|c0 [|c1 rest]]; try reflexivity. cbv zeta. rewrite Hr. reflexivity.
  - destruct H as [H|H]; [simpl in H; lia|].
    unfold full_rune, lead_size in H. rewrite H194, H224, H240, H245 in H.
    change (Nat.leb 4 (List.length [b0; b1; b2])) with false in H. cbv iota in H.
    rewrite (accept_lo_4 b0 H240), (accept_hi_4 b0 H240) in H.
    change ([b1; b2] ++ rest) with (b1 :: b2 :: rest).
    destruct rest as [|c0 rest]; [reflexivity|].
    cbv zeta.
    destruct (in_range (if b2n b0 =? 240 then 144 else 128) (if b2n b0 =? 244 then 143 else 191) b1) eqn:Hr;
      [|reflexivity].
    simpl negb in H. cbv iota in H.
    destruct (in_range 128 191 b2); [discriminate H | reflexivity].
Qed.

Lemma decode_rune_size_le s : s <> [] -> (snd (decode_rune s) <= List.length s)%nat.
Proof.
  destruct s as [|b0 r]; [contradiction|]. intros _. unfold decode_rune.
  destruct (b2n b0 <? 128); [simpl; lia|]. destruct (b2n b0 <? 194); [simpl; lia|].
  destruct (b2n b0 <? 224).
  { destruct r as [|b1 r]; [simpl; lia|]. destruct (in_range 128 191 b1); simpl; lia. }
  destruct (b2n b0 <? 240).
  { destruct r as [|b1 [|b2 r]]; try (simpl; lia).
    match goal with |- context[if ?c then _ else _] => destruct c end; simpl; lia. }
  destruct (b2n b0 <? 245); [|simpl; lia].
  destruct r as [|b1 [|b2 [|b3 r]]]; try (simpl; lia).
  match goal with |- context[if ?c then _ else _] => destruct c end; simpl; lia.
Qed.

Lemma fill_until_spec pieces : forall buf buf' rest,
  fill_until buf pieces = (buf', rest) ->
  buf' ++ List.concat rest = buf ++ List.concat pieces
  /\ (rest = [] \/ (4 <= List.length buf')%nat \/ full_rune buf' = true).
Proof.
  induction pieces as [|c r IH]; intros buf buf' rest H.
  - simpl in H. inversion H; subst. split; [reflexivity | left; reflexivity].
  - cbn [fill_until] in H. destruct (Nat.leb 4 (List.length buf) || full_rune buf) eqn:Hc.
    + inversion H; subst. split; [reflexivity|]. right.
      apply orb_true_iff in Hc as [Hc|Hc]; [left; apply Nat.leb_le; exact Hc | right; exact Hc].
    + apply IH in H as [H1 H2]. split; [|exact H2].
      rewrite H1. simpl. rewrite app_assoc. reflexivity.
Qed.

Lemma strip_bom_pieces_spec pieces : strip_bom_pieces pieces = strip_bom (List.concat pieces).
Proof.
  unfold strip_bom_pieces.
  destruct (fill_until [] pieces) as [buf rest] eqn:Hf.
  apply fill_until_spec in Hf as [Hcat Hstop]. simpl in Hcat. rewrite <- Hcat.
  destruct buf as [|b0 buf].
  - (* nothing could be buffered: the source is exhausted *)
    destruct Hstop as [-> | [Hl | Hfr]]; [reflexivity | simpl in Hl; lia | discriminate].
  - assert (Hd : decode_rune ((b0 :: buf) ++ List.concat rest) = decode_rune (b0 :: buf)).
    { destruct Hstop as [-> | Hstop]; [simpl; rewrite app_nil_r; reflexivity|].
      apply decode_rune_prefix. exact Hstop. }
    unfold strip_bom. change ((b0 :: buf) ++ List.concat rest) with (b0 :: (buf ++ List.concat rest)) at 1.
    cbv beta iota. change (b0 :: (buf ++ List.concat rest)) with ((b0 :: buf) ++ List.concat rest).
    rewrite Hd. destruct (decode_rune (b0 :: buf)) as [rn n] eqn:Ed.
    destruct (rn =? BOM); [|reflexivity].
    pose proof (decode_rune_size_le (b0 :: buf) ltac:(discriminate)) as Hn. rewrite Ed in Hn. simpl in Hn.
    rewrite skipn_app.
    replace (n - List.length (b0 :: buf))%nat with 0%nat by (simpl; lia). reflexivity.
Qed.

(* ---- the pipeline, over the facts extracted from header.go / schema.go --------------------- *)
Definition dec_of (e : encoding) : decoder_id :=
  match e with Utf8 => DecIdentity | Latin1 => DecISO8859_1 | Win1252 => DecWindows1252 end.

(* These two lemmas are where Gen/Encoding.v is consulted: every accepted name selects the
   decoder of its own code page, and BOM stripping is applied to the decoded stream. *)
Lemma wrap_encoding_name e : wrap_encoding (Some (enc_name e)) = Some (dec_of e).
Proof. destruct e; reflexivity. Qed.

Lemma wrap_encoding_default : wrap_encoding None = Some DecIdentity.
Proof. reflexivity. Qed.

Lemma pipeline_unfold e s :
  pipeline (Some (enc_name e)) s = Ok (strip_bom (decode_with (dec_of e) s)).
Proof. unfold pipeline. rewrite wrap_encoding_name. reflexivity. Qed.

Lemma pipeline_default s : pipeline None s = pipeline (Some (enc_name Utf8)) s.
Proof. reflexivity. Qed.

Lemma decode_with_standard e s : decode_with (dec_of e) s = utf8_of e s.
Proof.
  destruct e; simpl; [reflexivity | |]; apply decode_is_standard; [left | right]; reflexivity.
Qed.

Lemma encoding_transparent e s :
  pipeline (Some (enc_name e)) s = pipeline (Some (enc_name Utf8)) (utf8_of e s).
Proof. rewrite !pipeline_unfold, decode_with_standard. reflexivity. Qed.

Lemma pipeline_total e s : exists out, pipeline (Some (enc_name e)) s = Ok out.
Proof. rewrite pipeline_unfold. eexists. reflexivity. Qed.

Lemma encoding_eq_dec (a b : encoding) : {a = b} + {a <> b}.
Proof. decide equality. Qed.

(* Under a code page nothing is ever stripped: the bytes EF BB BF are three characters. *)
Lemma codepage_never_stripped e s : e <> Utf8 ->
  pipeline (Some (enc_name e)) s = Ok (utf8_of e s).
Proof.
  intro Hne. rewrite pipeline_unfold, decode_with_standard.
  destruct e; [contradiction | |]; simpl;
    rewrite <- decode_is_standard by ((left; reflexivity) || (right; reflexivity));
    rewrite strip_bom_decode by ((left; reflexivity) || (right; reflexivity)); reflexivity.
Qed.

Lemma bom_stripped_once s : pipeline (Some (enc_name Utf8)) (bom_bytes ++ s) = Ok s.
Proof. rewrite pipeline_unfold. reflexivity. Qed.

Lemma utf8_without_bom_untouched s :
  starts_with bom_bytes s = false -> pipeline (Some (enc_name Utf8)) s = Ok s.
Proof. intro H. rewrite pipeline_unfold. simpl. rewrite strip_bom_no_bom by assumption. reflexivity. Qed.

Lemma strip_bom_utf8_of e s : e <> Utf8 -> strip_bom (utf8_of e s) = utf8_of e s.
Proof.
  intro Hne. destruct e; [contradiction | |]; simpl.
  - rewrite <- decode_is_standard by (left; reflexivity). apply strip_bom_decode. left; reflexivity.
  - rewrite <- decode_is_standard by (right; reflexivity). apply strip_bom_decode. right; reflexivity.
Qed.

Lemma codepage_output_no_leading_bom e s r : e <> Utf8 -> utf8_of e s <> bom_bytes ++ r.
Proof.
  intros Hne H. pose proof (strip_bom_utf8_of e s Hne) as Hx.
  rewrite H, strip_bom_bom in Hx.
  apply (f_equal (@List.length byte)) in Hx. rewrite app_length in Hx. simpl in Hx. lia.
Qed.

(* The stream handed to the format reader starts with a byte-order mark only when the utf-8
   input started with two of them. *)
Lemma leading_bom_only_if_doubled e s r :
  pipeline (Some (enc_name e)) s = Ok (bom_bytes ++ r) ->
  e = Utf8 /\ s = bom_bytes ++ bom_bytes ++ r.
Proof.
  intro H.
  destruct (encoding_eq_dec e Utf8) as [->|Hne].
  - split; [reflexivity|].
    rewrite pipeline_unfold in H. simpl in H. inversion H as [H1]. clear H.
    rewrite strip_bom_spec in H1.
    destruct (starts_with bom_bytes s) eqn:Hs.
    + apply starts_with_iff in Hs as (r' & ->). simpl in H1. subst r'. reflexivity.
    + subst s. discriminate.
  - exfalso. rewrite codepage_never_stripped in H by assumption. inversion H as [H1].
    exact (codepage_output_no_leading_bom e s r Hne H1).
Qed.

(* Chunk invariance of the decoding stage (the part of C09 that lives here): decoding the
   chunks of any split of the input and concatenating gives the decoding of the whole. *)
Lemma decode_chunk_invariant e chunks :
  List.concat (map (decode_with (dec_of e)) chunks) = decode_with (dec_of e) (List.concat chunks).
Proof. symmetry. apply decode_with_concat. Qed.

(* However the decoded stream reaches StripBOM's bufio.Reader - in whatever pieces - the
   format reader receives the same bytes. *)
Lemma pipeline_split_invariant e input pieces :
  List.concat pieces = decode_with (dec_of e) input ->
  Ok (strip_bom_pieces pieces) = pipeline (Some (enc_name e)) input.
Proof. intro H. rewrite pipeline_unfold, strip_bom_pieces_spec, H. reflexivity. Qed.

(* ---- every byte becomes exactly one rune; nothing is dropped, anywhere ------------------------- *)
(* the bytes a code page byte decodes to are one complete UTF-8 sequence of the table's rune,
   whatever follows *)
Lemma dec_byte_one_rune cp : is_codepage cp ->
  forall b rest, decode_rune (dec_byte cp b ++ rest) = (cp b, List.length (dec_byte cp b)).
Proof. intros [-> | ->] b rest; destruct b; reflexivity. Qed.

Lemma dec_byte_length cp : is_codepage cp ->
  forall b, (1 <= List.length (dec_byte cp b) <= 3)%nat.
Proof.
  intros Hc b.
  assert (S : (Nat.leb 1 (List.length (dec_byte cp b)) && Nat.leb (List.length (dec_byte cp b)) 3) = true).
  { destruct Hc as [-> | ->].
    - apply (sweep_bytes (fun b => Nat.leb 1 (List.length (dec_byte cp_iso8859_1 b)) && Nat.leb (List.length (dec_byte cp_iso8859_1 b)) 3)).
      vm_compute; reflexivity.
    - apply (sweep_bytes (fun b => Nat.leb 1 (List.length (dec_byte cp_windows1252 b)) && Nat.leb (List.length (dec_byte cp_windows1252 b)) 3)).
      vm_compute; reflexivity. }
  apply andb_true_iff in S as [S1 S2]. apply Nat.leb_le in S1, S2. lia.
Qed.

Lemma runes_fuel_decode cp : is_codepage cp ->
  forall s fuel, (List.length (decode cp s) <= fuel)%nat ->
  runes_fuel fuel (decode cp s) = map (fun b => (cp b, List.length (dec_byte cp b))) s.
Proof.
  intros Hc s. induction s as [|b s IH]; intros fuel Hf.
  - destruct fuel; reflexivity.
  - change (decode cp (b :: s)) with (dec_byte cp b ++ decode cp s) in *.
    pose proof (dec_byte_length cp Hc b) as Hl.
    rewrite app_length in Hf.
    destruct fuel as [|k]; [lia|].
    destruct (dec_byte cp b ++ decode cp s) as [|c tl] eqn:E.
    { apply (f_equal (@List.length byte)) in E. rewrite app_length in E. simpl in E. lia. }
    cbn [runes_fuel]. rewrite <- E. rewrite (dec_byte_one_rune cp Hc b (decode cp s)).
    cbn [map]. f_equal.
    rewrite skipn_app, skipn_all, Nat.sub_diag. simpl.
    apply IH. lia.
Qed.

(* utf8's view of the decoded stream: one rune per input byte, the code page's rune, in order *)
Lemma runes_decode cp : is_codepage cp -> forall s, runes (decode cp s) = map cp s.
Proof.
  intros Hc s. unfold runes, runes_sz. rewrite (runes_fuel_decode cp Hc s) by lia.
  rewrite map_map. reflexivity.
Qed.

Lemma rune_count_decode cp : is_codepage cp -> forall s, rune_count (decode cp s) = List.length s.
Proof.
  intros Hc s. unfold rune_count, runes_sz. rewrite (runes_fuel_decode cp Hc s) by lia.
  apply map_length.
Qed.

(* the last byte of the input is decoded like every other one (no byte value is special at the
   end: 0x1A, 0x00, an undefined byte ...) *)
Lemma decode_snoc cp : is_codepage cp -> forall s b,
  decode cp (s ++ [b]) = decode cp s ++ dec_byte cp b /\ dec_byte cp b <> [].
Proof.
  intros Hc s b. split.
  - rewrite decode_app. unfold decode at 2. simpl. rewrite app_nil_r. reflexivity.
  - pose proof (dec_byte_length cp Hc b). intro E. rewrite E in H. simpl in H. lia.
Qed.

Lemma decode_length_ge cp : is_codepage cp -> forall s, (List.length s <= List.length (decode cp s))%nat.
Proof.
  intros Hc s. induction s as [|b s IH]; [simpl; lia|].
  change (decode cp (b :: s)) with (dec_byte cp b ++ decode cp s).
  rewrite app_length. pose proof (dec_byte_length cp Hc b). simpl. lia.
Qed.

(* the decoded stream is well-formed UTF-8 (the undefined windows-1252 bytes become the
   three-byte U+FFFD, not a stray byte) *)
Lemma decode_utf8_valid cp : is_codepage cp -> forall s, utf8_valid (decode cp s) = true.
Proof.
  intros Hc s. unfold utf8_valid, runes_sz. rewrite (runes_fuel_decode cp Hc s) by lia.
  apply forallb_forall. intros [r n] Hin. apply in_map_iff in Hin as (b & E & _).
  inversion E; subst. clear E. simpl.
  assert (S : negb ((cp b =? RuneError) && Nat.eqb (List.length (dec_byte cp b)) 1) = true).
  { destruct Hc as [-> | ->].
    - apply (sweep_bytes (fun b => negb ((cp_iso8859_1 b =? RuneError) && Nat.eqb (List.length (dec_byte cp_iso8859_1 b)) 1))).
      vm_compute; reflexivity.
    - apply (sweep_bytes (fun b => negb ((cp_windows1252 b =? RuneError) && Nat.eqb (List.length (dec_byte cp_windows1252 b)) 1))).
      vm_compute; reflexivity. }
  exact S.
Qed.

(* windows-1252: exactly the five bytes CP1252.TXT leaves undefined become U+FFFD *)
Definition cp1252_unassigned (b : byte) : bool :=
  match b with x81 | x8d | x8f | x90 | x9d => true | _ => false end.
Lemma windows1252_unassigned b :
  (cp_windows1252 b = RuneError <-> cp1252_unassigned b = true)
  /\ (cp1252_unassigned b = true -> dec_byte cp_windows1252 b = [xef; xbf; xbd]).
Proof.
  assert (S : Bool.eqb (cp_windows1252 b =? RuneError) (cp1252_unassigned b)
              && implb (cp1252_unassigned b) (bytes_eqb (dec_byte cp_windows1252 b) [xef; xbf; xbd]) = true).
  { apply (sweep_bytes (fun b => Bool.eqb (cp_windows1252 b =? RuneError) (cp1252_unassigned b)
              && implb (cp1252_unassigned b) (bytes_eqb (dec_byte cp_windows1252 b) [xef; xbf; xbd]))).
    vm_compute; reflexivity. }
  apply andb_true_iff in S as [S1 S2]. apply Bool.eqb_prop in S1. split.
  - rewrite <- S1. symmetry. apply N.eqb_eq.
  - intro H. rewrite H in S2. simpl in S2. apply bytes_eqb_eq in S2. exact S2.
Qed.

(* ---- the utf-8 path is the identity (minus one leading mark) on ALL byte strings ------------ *)
Lemma strip_bom_suffix s : exists p, s = p ++ strip_bom s /\ (p = [] \/ p = bom_bytes).
Proof.
  rewrite strip_bom_spec. destruct (starts_with bom_bytes s) eqn:E.
  - apply starts_with_iff in E as (r & ->). exists bom_bytes. split; [reflexivity | right; reflexivity].
  - exists []. split; [reflexivity | left; reflexivity].
Qed.

Lemma utf8_path_identity s :
  decode_with DecIdentity s = s /\ pipeline (Some (enc_name Utf8)) s = Ok (strip_bom s)
  /\ pipeline None s = Ok (strip_bom s).
Proof. split; [reflexivity|]. split; [apply pipeline_unfold | rewrite pipeline_default; apply pipeline_unfold]. Qed.

(* ---- the tables observed from the implementation ---------------------------------------------- *)
(* check_case on a TableCase is a complete comparison over the finite domain. *)
Lemma table_case_sound enc obs :
  check_case (TableCase enc obs) = true ->
  exists e, encoding_of_name enc = Some e /\ e <> Utf8 /\
    obs = map (match e with Latin1 => cp_iso8859_1 | _ => cp_windows1252 end) all_bytes.
Proof.
  unfold check_case. destruct (encoding_of_name enc) as [[| |]|]; try discriminate; intro H;
    apply (list_eqb_eq N.eqb N.eqb_eq) in H; eexists; (split; [reflexivity|]); (split; [discriminate|]);
    symmetry; exact H.
Qed.
