(* Proofs about Model/Stream.v, part 5: the small-step invariant of the XML reader over ARBITRARY
   token sequences and arbitrary interleavings of Release / Read prologues. *)
From Coq Require Import List NArith Bool Arith Lia.
Import ListNotations.
From OV Require Import Base.Bytes Base.Cases Base.Tree Model.Stream
  Proofs.Stream Proofs.StreamXml Proofs.StreamJson.

Section Invariant.
  Variable pm : list name -> bool.
  Variable pred : tree -> bool.
  Variable has_filter : bool.
  Hypothesis Hnf : has_filter = false -> forall t, pred t = true.

  (* What holds of every reachable reader state:
     - no candidate open, none pending (SNone): no node of the partial tree is on the path;
     - a candidate is open (SOpen k): it is the k-th node of the spine, its own name chain is on
       the path, cur is that node or below it (the frames [inner]), and the tree WITHOUT the
       candidate's subtree has no node on the path;
     - a record was just returned (SClosed): it is the last child of cur and the tree without it
       has no node on the path.
     In all cases cur and its ancestors are the open frames of the zipper (the spine) by
     construction of the state. *)
  Definition sinv (st : state) : Prop :=
    s_done st = None /\
    match s_stream st with
    | SNone => Inv pm (s_stack st)
    | SOpen k => exists inner g f r,
        s_stack st = inner ++ g :: f :: r /\ k = length (g :: f :: r) /\
        Inv pm (f :: r) /\ elemf g /\ Forall elemf inner /\
        pm (chain_of (f :: r) ++ [fname g]) = true
    | SClosed => exists f r, s_stack st = f :: r /\ Inv pm (drop_last_kid f :: r)
    end.

  (* removing the last open frame from a clean spine leaves a clean spine, and the closed node
     has no match either *)
  Lemma inv_pop : forall f p up,
    Inv pm (f :: p :: up) -> Inv pm (add_kid p (close_frame f) :: up).
  Proof.
    intros f p up (f0 & fs & Hrev & Hel & Hclean).
    cbn [rev] in Hrev.
    destruct (rev_nonempty p up) as (p0 & ps & Hp). cbn [rev] in Hp.
    rewrite Hp in Hrev. cbn [app] in Hrev. inversion Hrev; subst f0 fs.
    apply Forall_app in Hel as [Hps Hf]. inversion Hf as [|? ? Hfe _]; subst.
    rewrite downT_snoc in Hclean. cbn [opt_list] in Hclean. rewrite app_nil_r in Hclean.
    change (T (f_ty f) (f_data f) (f_fs f) (f_kids f)) with (close_frame f) in Hclean.
    rewrite hm_downT in Hclean by exact Hps. apply orb_false_iff in Hclean as [Hc1 Hc2].
    apply inv_add_kid.
    - exists p0, ps. split; [exact Hp|]. split; [exact Hps|exact Hc1].
    - rewrite (chain_of_shape (p :: up) p0 ps Hp). exact Hc2.
  Qed.

  Lemma inv_stack_cons : forall stack, Inv pm stack -> exists f r, stack = f :: r.
  Proof.
    intros [|f r] (f0 & fs & Hrev & _); [discriminate Hrev|eauto].
  Qed.

  Notation step := (xstep pm pred has_filter false).

  Lemma elemf_add_kid : forall g t, elemf g -> elemf (add_kid g t).
  Proof. intros g t H. exact H. Qed.

  (* one token, from a state that is not waiting for its Release *)
  Lemma sinv_step : forall st tk,
    sinv st -> s_stream st <> SClosed ->
    match step st tk with
    | RCont st' => sinv st' \/ s_stack st' = []
    | RDeliver t n st' => sinv st' /\ pred t = true
    | RErr | RPanic => True
    end.
  Proof.
    intros [stack done s] tk [Hd Hs] Hns. cbn [s_done s_stream s_stack] in *. subst done.
    destruct s as [|k|]; [| |congruence].
    - (* no candidate open *)
      destruct (inv_stack_cons _ Hs) as (f & r & ->).
      destruct tk as [nm fs attrs| |txt]; cbn [xstep s_stack].
      + set (g := mkF ElementNode nm fs (map attr_node attrs)).
        rewrite xstart_eq. fold g.
        rewrite (cc_fresh pm g f r Hs eq_refl (attrs_nonelem attrs)).
        left. split; [reflexivity|]. cbn [s_stream s_stack].
        destruct (pm (chain_of (f :: r) ++ [fname g])) eqn:Hp.
        * exists [], g, f, r. repeat split; auto.
        * apply inv_push; try assumption; try reflexivity. apply attrs_nonelem.
      + destruct r as [|p up].
        * (* the document node itself is closed: only possible on a stray end tag *)
          unfold wrap_up. cbn. right. reflexivity.
        * rewrite wrap_inner by exact I.
          left. split; [reflexivity|]. cbn [s_stream s_stack]. apply inv_pop. exact Hs.
      + left. split; [reflexivity|]. cbn [s_stream s_stack]. apply inv_add_kid; [exact Hs|reflexivity].
    - (* a candidate is open *)
      destruct Hs as (inner & g & f & r & -> & -> & HI & Hg & Hin & Hp).
      destruct tk as [nm fs attrs| |txt]; cbn [xstep s_stack].
      + rewrite xstart_eq.
        destruct inner as [|h inner]; cbn [app]; cbn [s_stack s_stream candidate_check];
          left; (split; [reflexivity|]); cbn [s_stream s_stack].
        * exists [mkF ElementNode nm fs (map attr_node attrs)], g, f, r. repeat split; auto.
          constructor; [reflexivity|constructor].
        * exists (mkF ElementNode nm fs (map attr_node attrs) :: h :: inner), g, f, r.
          repeat split; auto. constructor; [reflexivity|exact Hin].
      + destruct inner as [|h inner]; cbn [app].
        * (* the candidate itself closes *)
          rewrite (wrap_candidate pm pred has_filter Hnf g f r HI Hg Hp).
          destruct (pred (close_frame g)) eqn:Hpr.
          -- split; [|exact Hpr]. split; [reflexivity|]. cbn [s_stream s_stack].
             exists (add_kid f (close_frame g)), r. split; [reflexivity|].
             rewrite drop_last_add_kid. exact HI.
          -- left. split; [reflexivity|]. exact HI.
        * (* a node inside the candidate closes *)
          inversion Hin as [|? ? Hh Hin']; subst.
          destruct inner as [|h2 inner]; cbn [app].
          -- rewrite wrap_inner by (cbn [length]; lia).
             left. split; [reflexivity|]. cbn [s_stream s_stack].
             exists [], (add_kid g (close_frame h)), f, r. repeat split; auto.
          -- rewrite wrap_inner by (cbn [length]; rewrite app_length; cbn [length]; lia).
             left. split; [reflexivity|]. cbn [s_stream s_stack].
             exists (add_kid h2 (close_frame h) :: inner), g, f, r. repeat split; auto.
             inversion Hin'; subst. constructor; assumption.
      + destruct inner as [|h inner]; cbn [app]; left; (split; [reflexivity|]); cbn [s_stream s_stack].
        * exists [], (add_kid g (text_node txt)), f, r. repeat split; auto.
        * exists (add_kid h (text_node txt) :: inner), g, f, r. repeat split; auto.
          inversion Hin; subst. constructor; assumption.
  Qed.

  (* Release of the returned record / the next Read's prologue *)
  Lemma sinv_prologue : forall st st', sinv st -> read_prologue st = Some st' -> sinv st'.
  Proof.
    intros [stack done s] st' [Hd Hs] H. cbn [s_done s_stream s_stack] in *. subst done.
    unfold read_prologue in H. cbn [s_stream] in H. destruct s as [|k|]; try discriminate H.
    - inversion H; subst. split; [reflexivity|exact Hs].
    - inversion H; subst. destruct Hs as (f & r & -> & HI).
      unfold remove_closed. cbn [s_stack]. split; [reflexivity|exact HI].
  Qed.
  Lemma sinv_release : forall st st', sinv st -> release st = Some st' -> sinv st'.
  Proof.
    intros st st' Hs H. unfold release in H. destruct (s_stream st) eqn:E; try discriminate H.
    apply (sinv_prologue st st' Hs). unfold read_prologue. rewrite E. exact H.
  Qed.

  (* every state the reader can be in, for ANY token sequence (well-formed or not) and any use
     of Release, up to the point where the document node itself gets closed *)
  Inductive xreach : state -> Prop :=
  | reach_init : xreach x_init
  | reach_cont : forall st tk st', xreach st -> s_stream st <> SClosed -> s_stack st' <> [] ->
      step st tk = RCont st' -> xreach st'
  | reach_deliver : forall st tk t n st', xreach st -> s_stream st <> SClosed ->
      step st tk = RDeliver t n st' -> xreach st'
  | reach_prologue : forall st st', xreach st -> read_prologue st = Some st' -> xreach st'
  | reach_release : forall st st', xreach st -> release st = Some st' -> xreach st'.

  Theorem stream_invariant_proof : pm [] = false -> forall st, xreach st -> sinv st.
  Proof.
    intros Hroot st H. induction H as [|st tk st' _ IH Hns Hne Hstep|st tk t n st' _ IH Hns Hstep
                                       |st st' _ IH Hp|st st' _ IH Hr].
    - split; [reflexivity|]. cbn [s_stream s_stack x_init].
      exists (mkF DocumentNode [] (FXml [] []) []), []. split; [reflexivity|]. split; [constructor|].
      cbn [downT f_ty f_data f_fs f_kids opt_list app]. rewrite has_match_unfold, Hroot. reflexivity.
    - pose proof (sinv_step st tk IH Hns) as S. rewrite Hstep in S. destruct S as [S|S]; [exact S|contradiction].
    - pose proof (sinv_step st tk IH Hns) as S. rewrite Hstep in S. exact (proj1 S).
    - exact (sinv_prologue _ _ IH Hp).
    - exact (sinv_release _ _ IH Hr).
  Qed.

  (* and what is delivered from a reachable state satisfies the final predicates *)
  Theorem delivered_satisfies_pred_proof : pm [] = false -> forall st tk t n st',
    xreach st -> s_stream st <> SClosed -> step st tk = RDeliver t n st' -> pred t = true.
  Proof.
    intros Hroot st tk t n st' H Hns Hstep.
    pose proof (sinv_step st tk (stream_invariant_proof Hroot st H) Hns) as S.
    rewrite Hstep in S. exact (proj2 S).
  Qed.
End Invariant.
