(* C06 proofs, part 5: go-corelib ios.ByteReadLine over bufio.Reader.ReadLine with its BUFSZ-byte
   buffer joins the fragments of a long line correctly - for every LF-terminated line of any length
   the result is the ideal line (text up to the LF without a CR directly before it), including the
   CR put-back when CRLF straddles a fragment boundary.  The only text it loses is an unterminated
   last line that ends exactly at a fragment boundary (known finding F22). *)
From Coq Require Import List NArith Bool Arith Lia.
From Coq.Strings Require Import Byte.
Import ListNotations.
From OV Require Import Base.Bytes Base.Cases Model.Csv Model.Fixed Proofs.DelimCsv Proofs.DelimFixed.

Lemma BUFSZ_ge : 2 <= BUFSZ.
Proof. unfold BUFSZ. lia. Qed.

Local Opaque BUFSZ.

(* ---- split_lf -------------------------------------------------------------------------------------- *)
Lemma split_lf_some : forall T x r, split_lf T = (x, Some r) ->
  T = x ++ LF :: r /\ mem_byte LF x = false.
Proof.
  induction T as [|b T IH]; intros x r E; [discriminate|].
  cbn [split_lf] in E. destruct (Byte.eqb b LF) eqn:Eb.
  - inversion E; subst. apply beqb_eq in Eb. subst. split; reflexivity.
  - destruct (split_lf T) as [x0 y0] eqn:E0. inversion E; subst.
    destruct (IH x0 r eq_refl) as [-> Hn]. split; [reflexivity|].
    rewrite mem_byte_cons, beqb_sym, Eb, Hn. reflexivity.
Qed.

Lemma split_lf_none : forall T x, split_lf T = (x, None) -> x = T /\ mem_byte LF T = false.
Proof.
  induction T as [|b T IH]; intros x E; [inversion E; split; reflexivity|].
  cbn [split_lf] in E. destruct (Byte.eqb b LF) eqn:Eb; [discriminate|].
  destruct (split_lf T) as [x0 y0] eqn:E0. inversion E; subst.
  destruct (IH x0 eq_refl) as [-> Hn]. split; [reflexivity|].
  rewrite mem_byte_cons, beqb_sym, Eb, Hn. reflexivity.
Qed.

Lemma split_lf_nolf : forall w, mem_byte LF w = false -> split_lf w = (w, None).
Proof.
  induction w as [|b w IH]; intro H; [reflexivity|].
  rewrite mem_byte_cons in H. apply orb_false_iff in H as [H1 H2].
  cbn [split_lf]. rewrite beqb_sym, H1, (IH H2). reflexivity.
Qed.

Lemma split_lf_app : forall x r, mem_byte LF x = false -> split_lf (x ++ LF :: r) = (x, Some r).
Proof.
  induction x as [|b x IH]; intros r H; [reflexivity|].
  rewrite mem_byte_cons in H. apply orb_false_iff in H as [H1 H2].
  cbn [app split_lf]. rewrite beqb_sym, H1, (IH r H2). reflexivity.
Qed.

Lemma mem_byte_firstn c n : forall w, mem_byte c w = false -> mem_byte c (firstn n w) = false.
Proof.
  induction n as [|n IH]; intros w H; [reflexivity|]. destruct w as [|b w]; [reflexivity|].
  rewrite mem_byte_cons in H. apply orb_false_iff in H as [H1 H2].
  cbn [firstn]. rewrite mem_byte_cons, H1, (IH w H2). reflexivity.
Qed.

Lemma mem_byte_skipn c n : forall w, mem_byte c w = false -> mem_byte c (skipn n w) = false.
Proof.
  induction n as [|n IH]; intros w H; [exact H|]. destruct w as [|b w]; [reflexivity|].
  rewrite mem_byte_cons in H. apply orb_false_iff in H as [_ H2]. cbn [skipn]. exact (IH w H2).
Qed.

(* ---- strip_last ------------------------------------------------------------------------------------ *)
Lemma strip_last_cases c : forall w, strip_last c w = w \/ w = strip_last c w ++ [c].
Proof.
  induction w as [|b w IH]; [left; reflexivity|].
  destruct w as [|b' w'].
  - cbn [strip_last]. destruct (Byte.eqb b c) eqn:E; [|left; reflexivity].
    apply beqb_eq in E. subst. right. reflexivity.
  - rewrite strip_last_cons by discriminate. destruct IH as [IH|IH].
    + left. rewrite IH. reflexivity.
    + right. cbn [app]. rewrite <- IH. reflexivity.
Qed.

Lemma strip_last_app_ne c a x : x <> [] -> strip_last c (a ++ x) = a ++ strip_last c x.
Proof.
  intro H. induction a as [|b a IH]; [reflexivity|].
  cbn [app]. rewrite strip_last_cons; [rewrite IH; reflexivity|].
  destruct a; [exact H|discriminate].
Qed.

(* ---- the fragment loop on a terminated line ------------------------------------------------------- *)
Lemma buf_readline_short x r : mem_byte LF x = false -> length x < BUFSZ ->
  buf_readline (x ++ LF :: r) = RLine (strip_last CR x) r.
Proof.
  intros Hn Hl. unfold buf_readline.
  pose proof (split_lf_app x r Hn) as Es.
  destruct (x ++ LF :: r) as [|b T] eqn:ET; [destruct x; discriminate|]. rewrite <- ET in *.
  destruct (split_lf_firstn_found BUFSZ _ x r Es Hl) as (r' & ->).
  rewrite (split_lf_skipn _ x r Es). reflexivity.
Qed.

Lemma buf_readline_full x Y : mem_byte LF x = false -> BUFSZ <= length x ->
  let w := firstn BUFSZ x in
  buf_readline (x ++ Y) =
  if Nat.eqb (length (strip_last CR w)) (length w) then RFrag w (skipn BUFSZ x ++ Y)
  else RFrag (strip_last CR w) (skipn (BUFSZ - 1) x ++ Y).
Proof.
  intros Hn Hl w. unfold buf_readline.
  pose proof BUFSZ_ge as HB.
  destruct (x ++ Y) as [|b T] eqn:ET.
  { apply app_eq_nil in ET as [-> _]. simpl in Hl. lia. }
  rewrite <- ET.
  assert (Ew : firstn BUFSZ (x ++ Y) = w).
  { rewrite firstn_app. replace (BUFSZ - length x) with 0 by lia. rewrite firstn_O, app_nil_r. reflexivity. }
  rewrite Ew. rewrite (split_lf_nolf w (mem_byte_firstn LF BUFSZ x Hn)).
  assert (Elw : length w = BUFSZ) by (unfold w; rewrite firstn_length; lia).
  assert (E1 : (length w <? BUFSZ) = false) by (apply Nat.ltb_ge; lia). rewrite E1.
  rewrite !skipn_app.
  replace (BUFSZ - length x) with 0 by lia. replace (BUFSZ - 1 - length x) with 0 by lia.
  reflexivity.
Qed.

(* acc ++ x is the line read so far and still to come; if nothing of it is left in this fragment,
   what was joined so far does not end with a CR (a CR at the end of a fragment is put back) *)
Lemma brl_terminated : forall n x, length x <= n -> forall r acc fuel,
  mem_byte LF x = false -> length x < fuel ->
  (x = [] -> strip_last CR acc = acc) ->
  byte_read_line fuel acc (x ++ LF :: r) = RLOk (strip_last CR (acc ++ x)) r.
Proof.
  pose proof BUFSZ_ge as HB.
  induction n as [|n IH]; intros x Hx r acc fuel Hn Hf Hinv.
  - destruct x; [|simpl in Hx; lia]. destruct fuel as [|fuel]; [simpl in Hf; lia|].
    cbn [byte_read_line]. rewrite (buf_readline_short [] r eq_refl ltac:(simpl; lia)).
    cbn [strip_last]. rewrite !app_nil_r. rewrite (Hinv eq_refl). reflexivity.
  - destruct fuel as [|fuel]; [lia|]. cbn [byte_read_line].
    destruct (Nat.lt_ge_cases (length x) BUFSZ) as [Hs|Hl].
    + rewrite (buf_readline_short x r Hn Hs). f_equal.
      destruct x as [|b x]; [cbn [strip_last]; rewrite !app_nil_r; symmetry; auto|].
      symmetry. apply strip_last_app_ne. discriminate.
    + rewrite (buf_readline_full x (LF :: r) Hn Hl). cbn zeta.
      set (w := firstn BUFSZ x).
      assert (Elw : length w = BUFSZ) by (unfold w; rewrite firstn_length; lia).
      assert (Ex : x = w ++ skipn BUFSZ x) by (unfold w; symmetry; apply firstn_skipn).
      destruct (Nat.eqb (length (strip_last CR w)) (length w)) eqn:Eq.
      * (* the fragment does not end with CR *)
        apply Nat.eqb_eq in Eq.
        assert (Hw : strip_last CR w = w).
        { destruct (strip_last_cases CR w) as [E|E]; [exact E|].
          apply (f_equal (@length byte)) in E. rewrite app_length in E. simpl in E. lia. }
        rewrite (IH (skipn BUFSZ x)).
        -- rewrite <- app_assoc, <- Ex. reflexivity.
        -- rewrite skipn_length. lia.
        -- apply mem_byte_skipn. exact Hn.
        -- rewrite skipn_length. lia.
        -- intros _. rewrite strip_last_app_ne, Hw; [reflexivity|].
           intro E. rewrite E in Elw. simpl in Elw. lia.
      * (* the fragment ends with CR: it is put back *)
        apply Nat.eqb_neq in Eq.
        destruct (strip_last_cases CR w) as [E|E]; [rewrite E in Eq; congruence|].
        set (w0 := strip_last CR w) in *.
        assert (El0 : length w0 = BUFSZ - 1).
        { apply (f_equal (@length byte)) in E. rewrite app_length in E. simpl in E. lia. }
        assert (Es : skipn (BUFSZ - 1) x = CR :: skipn BUFSZ x).
        { rewrite Ex at 1. rewrite E, <- app_assoc, <- El0. rewrite skipn_app_len. reflexivity. }
        rewrite Es.
        change ((CR :: skipn BUFSZ x) ++ LF :: r) with ((CR :: skipn BUFSZ x) ++ LF :: r).
        rewrite (IH (CR :: skipn BUFSZ x)).
        -- rewrite <- app_assoc. f_equal. f_equal. f_equal.
           rewrite Ex at 2. rewrite E, <- app_assoc. reflexivity.
        -- simpl length. rewrite skipn_length. lia.
        -- rewrite mem_byte_cons. rewrite (mem_byte_skipn LF BUFSZ x Hn). reflexivity.
        -- simpl length. rewrite skipn_length. lia.
        -- discriminate.
Qed.

(* every LF-terminated line, of any length: the ideal line *)
Theorem read_line_terminated_proof T x r :
  split_lf T = (x, Some r) -> read_line T = RLOk (strip_last CR x) r.
Proof.
  intro E. destruct (split_lf_some T x r E) as [-> Hn]. unfold read_line.
  rewrite (brl_terminated (length x) x (le_n _) r [] _ Hn).
  - reflexivity.
  - rewrite app_length. simpl. lia.
  - reflexivity.
Qed.

(* The guard of known finding F22: the text contains an LF (the line is terminated), or the
   unterminated last line is shorter than the buffer. *)
Definition f22_guard (T : bytes) : Prop :=
  match split_lf T with
  | (_, Some _) => True
  | (x, None) => length x < BUFSZ
  end.

Theorem read_line_ideal_proof T : f22_guard T -> read_line T = ideal_read_line T.
Proof.
  unfold f22_guard. intro H. destruct (split_lf T) as [x [r|]] eqn:E.
  - rewrite (read_line_terminated_proof T x r E). unfold ideal_read_line.
    destruct T; [discriminate|]. rewrite E. reflexivity.
  - apply read_line_ideal_partial. unfold line_fits. rewrite E. exact H.
Qed.

(* ---- the unterminated last line: exactly which ones are lost (CR-free text) ------------------------- *)
(* without CR in the text there is no put-back: fragments are exactly BUFSZ bytes *)
Lemma strip_last_nocr w : mem_byte CR w = false -> strip_last CR w = w.
Proof. apply strip_last_notin. Qed.

Lemma brl_unterminated : forall k x acc fuel,
  mem_byte LF x = false -> mem_byte CR x = false -> length x < fuel ->
  k * BUFSZ <= length x < S k * BUFSZ ->
  byte_read_line fuel acc x =
  if Nat.eqb (length x) (k * BUFSZ) then RLEof else RLOk (acc ++ x) [].
Proof.
  pose proof BUFSZ_ge as HB.
  induction k as [|k IH]; intros x acc fuel Hn Hc Hf Hk.
  - destruct fuel as [|fuel]; [lia|]. cbn [byte_read_line]. cbn [Nat.mul] in *.
    destruct x as [|b x]; [reflexivity|].
    assert (E0 : Nat.eqb (length (b :: x)) 0 = false) by reflexivity. rewrite E0.
    unfold buf_readline.
    assert (Ew : firstn BUFSZ (b :: x) = b :: x) by (apply firstn_all2; lia).
    rewrite Ew, (split_lf_nolf _ Hn).
    assert (E1 : (length (b :: x) <? BUFSZ) = true) by (apply Nat.ltb_lt; lia). rewrite E1. reflexivity.
  - destruct fuel as [|fuel]; [lia|]. cbn [byte_read_line].
    assert (Hl : BUFSZ <= length x) by (cbn [Nat.mul] in Hk; lia).
    rewrite <- (app_nil_r x) at 1. rewrite (buf_readline_full x [] Hn Hl). cbn zeta.
    rewrite (strip_last_nocr _ (mem_byte_firstn CR BUFSZ x Hc)), Nat.eqb_refl, app_nil_r.
    rewrite (IH (skipn BUFSZ x)).
    + rewrite skipn_length.
      assert (Ee : Nat.eqb (length x - BUFSZ) (k * BUFSZ) = Nat.eqb (length x) (S k * BUFSZ)).
      { cbn [Nat.mul]. destruct (Nat.eqb (length x) (BUFSZ + k * BUFSZ)) eqn:E.
        - apply Nat.eqb_eq in E. apply Nat.eqb_eq. lia.
        - apply Nat.eqb_neq in E. apply Nat.eqb_neq. lia. }
      rewrite Ee. destruct (Nat.eqb (length x) (S k * BUFSZ)); [reflexivity|].
      rewrite <- app_assoc, firstn_skipn. reflexivity.
    + apply mem_byte_skipn. exact Hn.
    + apply mem_byte_skipn. exact Hc.
    + rewrite skipn_length. lia.
    + rewrite skipn_length. cbn [Nat.mul] in *. lia.
Qed.

(* F22, exactly: an unterminated CR-free last line is lost iff its length is a positive multiple of
   the buffer size; every other one is returned whole *)
Theorem read_line_unterminated_proof x :
  mem_byte LF x = false -> mem_byte CR x = false -> x <> [] ->
  read_line x = if Nat.eqb (length x mod BUFSZ) 0 then RLEof else RLOk x [].
Proof.
  pose proof BUFSZ_ge as HB. intros Hn Hc Hne. unfold read_line.
  set (k := length x / BUFSZ).
  assert (Hd : length x = BUFSZ * k + length x mod BUFSZ) by (apply Nat.div_mod; lia).
  assert (Hm : length x mod BUFSZ < BUFSZ) by (apply Nat.mod_upper_bound; lia).
  rewrite (brl_unterminated k x [] (S (length x)) Hn Hc ltac:(lia)).
  - destruct (Nat.eqb (length x mod BUFSZ) 0) eqn:E.
    + apply Nat.eqb_eq in E. assert (E2 : Nat.eqb (length x) (k * BUFSZ) = true) by (apply Nat.eqb_eq; lia).
      rewrite E2. reflexivity.
    + apply Nat.eqb_neq in E. assert (E2 : Nat.eqb (length x) (k * BUFSZ) = false) by (apply Nat.eqb_neq; lia).
      rewrite E2. reflexivity.
  - cbn [Nat.mul]. lia.
Qed.

(* ---- only completely empty lines are ignored ----------------------------------------------------------- *)
(* a line that is not empty - in particular one made of blanks only, or a single space - is returned
   as a line by both fixed-length line loops (any length, LF or CRLF terminated) *)
Lemma nonempty_line_kept l crlf X :
  l <> [] -> mem_byte LF l = false -> mem_byte CR l = false ->
  (forall fuel, f1_readline (S fuel) (l ++ eol crlf ++ X) = Some (Some l, X))
  /\ (forall fuel gen, f2_fetch (S fuel) (l ++ eol crlf ++ X) gen = Some (Some l, X, S gen)).
Proof.
  intros Hne Hlf Hcr.
  assert (Hr : read_line (l ++ eol crlf ++ X) = RLOk l X).
  { destruct crlf; cbn [eol app].
    - rewrite (read_line_terminated_proof (l ++ CR :: LF :: X) (l ++ [CR]) X).
      + rewrite strip_last_app. reflexivity.
      + change (l ++ CR :: LF :: X) with (l ++ [CR] ++ LF :: X). rewrite app_assoc.
        apply split_lf_app. rewrite mem_byte_app, Hlf. reflexivity.
    - rewrite (read_line_terminated_proof (l ++ LF :: X) l X (split_lf_app l X Hlf)).
      rewrite strip_last_nocr by exact Hcr. reflexivity. }
  split; intros; cbn [f1_readline f2_fetch]; rewrite Hr; destruct l; [congruence|reflexivity|congruence|reflexivity].
Qed.

(* a CRLF terminator takes exactly one CR: the text before it - with CRs anywhere in it, also at its
   very end, or consisting of CRs only - is the line, unchanged *)
Lemma crlf_takes_one_cr t X : t <> [] -> mem_byte LF t = false ->
  read_line (t ++ CR :: LF :: X) = RLOk t X
  /\ (forall fuel, f1_readline (S fuel) (t ++ CR :: LF :: X) = Some (Some t, X))
  /\ (forall fuel gen, f2_fetch (S fuel) (t ++ CR :: LF :: X) gen = Some (Some t, X, S gen)).
Proof.
  intros Hne Hlf.
  assert (Hr : read_line (t ++ CR :: LF :: X) = RLOk t X).
  { rewrite (read_line_terminated_proof (t ++ CR :: LF :: X) (t ++ [CR]) X).
    - rewrite strip_last_app. reflexivity.
    - change (t ++ CR :: LF :: X) with (t ++ [CR] ++ LF :: X). rewrite app_assoc.
      apply split_lf_app. rewrite mem_byte_app, Hlf. reflexivity. }
  split; [exact Hr|].
  split; intros; cbn [f1_readline f2_fetch]; rewrite Hr; destruct t; [congruence|reflexivity|congruence|reflexivity].
Qed.
