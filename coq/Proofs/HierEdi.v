(* C05 proofs, part 7: the EDI machine WITHOUT the guard no_root_repeat.  What edi_step does when
   the root frame matches again is exactly spec_repeat: the declared top-level sequence is matched
   again, round after round, as long as the next unit starts its first declaration. *)
From Coq Require Import List Arith Bool Lia.
Import ListNotations.
From OV Require Import Base.Cases Model.Hier Model.HierSpec Proofs.HierBase Proofs.HierSim
  Proofs.HierMain Proofs.HierInst Proofs.HierTerm.

Section EdiRepeat.
  Variable try_leaf : leaf -> list unt -> option nat.
  Notation occl := (occ_loop try_leaf (sp_inst try_leaf)).
  Notation seql := (seq_loop try_leaf (sp_inst try_leaf)).
  Notation WF := (WF try_leaf).
  Notation rep := (rep_loop try_leaf).

  Lemma rep_S : forall f root u r,
    rep (S f) root (u :: r) =
    if starts try_leaf root (u :: r)
    then mbind (seql (d_kids root) (u :: r)) (fun _ us' => rep f root us')
    else ([], TErrUnexpected).
  Proof. reflexivity. Qed.

  Lemma root_round_shrinks : forall root us e a us',
    WF root -> d_grp root = true -> starts try_leaf root us = true ->
    seql (d_kids root) us = MOk e a us' -> length us' < length us.
  Proof.
    intros root us e a us' Hwf Hg Hst Hs.
    destruct (WF_parts try_leaf root Hwf) as (Hk & _). rewrite Hg in Hk.
    destruct (d_kids root) as [|k r] eqn:Ek; [congruence|].
    pose proof (WF_kids try_leaf root Hwf) as Hf. rewrite Ek in Hf.
    eapply (seq_loop_lt try_leaf (sp_inst try_leaf) k r); eauto.
    - apply Forall_forall. intros d Hin. apply sp_inst_shrinks. rewrite Forall_forall in Hf. auto.
    - inversion Hf; subst. apply (lt_max_0 try_leaf). auto.
    - rewrite <- (starts_kid0 try_leaf root k r us Hg Ek). exact Hst.
  Qed.

  Lemma rep_irrel : forall root, WF root -> d_grp root = true ->
    forall f1 f2 us, length us < f1 -> length us < f2 -> rep f1 root us = rep f2 root us.
  Proof.
    intros root Hwf Hg. induction f1 as [|f1 IH]; intros f2 us H1 H2; [lia|].
    destruct f2 as [|f2]; [lia|]. destruct us as [|u r]; [reflexivity|].
    rewrite !rep_S. destruct (starts try_leaf root (u :: r)) eqn:Es; [|reflexivity].
    apply mbind_ext_strong. intros e a us' E.
    pose proof (root_round_shrinks root (u :: r) e a us' Hwf Hg Es E).
    apply IH; lia.
  Qed.

  Definition fin_rep (root : decl) (us : list unt) : res := rep (S (length us)) root us.

  Lemma edi_step_ok_rep : step_ok try_leaf fin_rep (edi_step try_leaf) (fun _ => False).
  Proof.
    intros st Hinv Ht _. destruct st as [stk tgt us]. cbn [m_stk m_tgt m_rest] in *. subst tgt.
    destruct stk as [|top [|q b]]; [destruct Hinv| |].
    - (* only the root frame *)
      pose proof Hinv as (Hwf & Hcur & _ & Htp & Hbot & Hlt & Hmin).
      destruct Hbot as (Hgrp & Htg & Hmn & Hmx).
      unfold HierSim.Kst. cbn [m_stk m_tgt m_rest tl_of]. rewrite app_res_nil.
      rewrite (Ktop_single try_leaf fin_rep top us Hinv).
      unfold edi_step. cbn [m_tgt m_rest m_stk length].
      destruct us as [|u r]; [reflexivity|].
      unfold fin_rep. rewrite rep_S.
      destruct (read_rec try_leaf (e_decl top) (u :: r)) as [n|] eqn:Err.
      + destruct (read_rec_some try_leaf _ _ _ Err) as [Hst Hm]. rewrite Hst, Hgrp in *. subst n.
        destruct (WF_parts try_leaf _ Hwf) as (Hk & _). rewrite Hgrp in Hk.
        unfold instantiate. cbn [length Nat.ltb Nat.leb].
        destruct (d_kids (e_decl top)) as [|k ks] eqn:Ek; [congruence|].
        assert (Hk0 : nth_error (d_kids (e_decl top)) 0 = Some k) by (rewrite Ek; reflexivity).
        cbn [firstn skipn map m_stk].
        split.
        * cbn [HierSim.InvS e_decl e_cur e_occ].
          split; [exact (nth_error_WF try_leaf _ _ _ Hwf Hk0)|]. split; [reflexivity|]. split.
          { cbn [opens_ok]. split; [eexists _, _, _; cbn; reflexivity|].
            split; [cbn; rewrite Hcur; exact Hk0|]. split; [cbn; exact Hwf|].
            split; [intros _; unfold is_bottom; cbn; auto|exact Logic.I]. }
          split; [|apply (lt_max_0 try_leaf); exact (nth_error_WF try_leaf _ _ _ Hwf Hk0)].
          cbn [map e_decl]. apply (tp_push try_leaf fin_rep); [exact (nth_error_In _ _ Hk0)|]. exact Htp.
        * unfold HierSim.Kst. cbn [m_tgt m_stk m_rest tl_of]. rewrite app_res_nil.
          cbn [Ktop e_decl e_occ]. rewrite mbind_seq_cons.
          apply mbind_ext_strong. intros is1 a1 us1 E1.
          cbn [Kopen e_node e_decl e_cur e_occ]. rewrite Hcur, Ek, Htg. cbn [skipn].
          apply mbind_ext_strong. intros is2 a2 us2 E2.
          rewrite app_res_nil, mbind_occ_S, Hmx, Hmn. cbn [lt_max andb Kopen].
          replace (S (e_occ top) <? 1) with false by (symmetry; apply Nat.ltb_ge; lia).
          assert (Hlen : length us2 < length (u :: r)).
          { assert (Hs : seql (k :: ks) (u :: r) = MOk (is1 ++ is2) (a1 ++ a2) us2).
            { rewrite seq_loop_cons, E1, E2. reflexivity. }
            rewrite <- Ek in Hs. eapply root_round_shrinks; eauto. }
          unfold fin_rep. apply rep_irrel; auto; simpl in *; lia.
      + apply read_rec_none in Err. rewrite Err. reflexivity.
    - (* deeper stacks: edi_step is hstep there *)
      rewrite edi_eq_hstep; [|reflexivity|discriminate|intros top' H; discriminate H].
      apply hstep_K; auto. intros top' H. discriminate H.
  Qed.

  Lemma spec_repeat_gen : forall ds us, spec_repeat try_leaf ds us = spec_gen try_leaf fin_rep ds us.
  Proof. reflexivity. Qed.

  Theorem edi_eq_repeat_run : forall ds us fuel,
    Forall WF ds -> count_tgts ds <= 1 ->
    snd (run (edi_step try_leaf) fuel (init ds us)) <> TOutOfFuel ->
    run (edi_step try_leaf) fuel (init ds us) = spec_repeat try_leaf ds us.
  Proof.
    intros ds us fuel Hwf Hc Hf. destruct ds as [|d0 r].
    - destruct fuel as [|f]; [simpl in Hf; congruence|]. destruct us; reflexivity.
    - rewrite spec_repeat_gen, <- Kst_init.
      apply (run_K try_leaf fin_rep (edi_step try_leaf) (fun _ => False) edi_step_ok_rep (edi_step_deliver try_leaf)); auto.
      apply Inv_init; auto.
  Qed.

  Theorem edi_eq_repeat_full : forall ds us,
    Forall WF ds -> count_tgts ds <= 1 ->
    run (edi_step try_leaf) (run_fuel ds us) (init ds us) = spec_repeat try_leaf ds us.
  Proof.
    intros ds us Hwf Hc. apply edi_eq_repeat_run; auto. apply edi_terminates; auto.
  Qed.

  (* the guard is exactly the condition under which no further round starts *)
  Theorem repeat_eq_spec_iff_guard : forall ds us,
    no_root_repeat try_leaf ds us -> spec_repeat try_leaf ds us = spec try_leaf ds us.
  Proof.
    intros ds us Hg. unfold spec_repeat, spec, no_root_repeat in *.
    destruct (seq_loop try_leaf (sp_inst try_leaf) ds us) as [e a [|u r]|e t]; [| |reflexivity].
    - cbn. rewrite app_nil_r. reflexivity.
    - cbn [rep_loop]. rewrite Hg. cbn. rewrite app_nil_r. reflexivity.
  Qed.
End EdiRepeat.
