(* C05 proofs, part 9: the line acquisition layer refines the unit-level leaf matchers: the matcher
   sees exactly the non-empty physical lines, in order; read-ahead loses and reorders nothing; the
   header/footer loop computes the declarative window. *)
From Coq Require Import List Arith Bool Lia.
Import ListNotations.
From OV Require Import Model.Hier Model.HierLines.

Lemma read_line_units : forall src,
  match read_line src with
  | None => units_of src = []
  | Some (u, src') => units_of src = u :: units_of src' /\ length src' < length src
  end.
Proof.
  induction src as [|[u|] r IH]; simpl; auto.
  destruct (read_line r) as [[u' s']|]; auto. destruct IH. split; auto.
Qed.

(* MoreUnprocessedData: true iff a unit is left; nothing lost *)
Lemma more_unprocessed_ok : forall buf src,
  let '(more, buf', src') := more_unprocessed buf src in
  buf' ++ units_of src' = buf ++ units_of src /\
  (more = true <-> buf ++ units_of src <> []) /\ (more = true -> buf' <> []) /\
  length buf' + length src' <= length buf + length src.
Proof.
  intros [|b buf] src; simpl.
  - pose proof (read_line_units src) as H. destruct (read_line src) as [[u s']|].
    + destruct H as [H1 H2]. rewrite H1. simpl. repeat split; auto; try discriminate; lia.
    + rewrite H. simpl. repeat split; auto; try discriminate; try congruence.
  - repeat split; auto; discriminate.
Qed.

(* rows-based records: matched iff k units are left; read-ahead only appends to linesBuf *)
Lemma rows_fill_ok : forall k fuel buf src, length src <= fuel ->
  let '(ok, buf', src') := rows_fill k buf src fuel in
  buf' ++ units_of src' = buf ++ units_of src /\
  (ok = true <-> k <= length (buf ++ units_of src)) /\ (ok = true -> k <= length buf').
Proof.
  intros k. induction fuel as [|f IH]; intros buf src Hf.
  - destruct src; [|simpl in Hf; lia]. cbn [rows_fill].
    destruct (k <=? length buf) eqn:E; [apply Nat.leb_le in E|apply Nat.leb_gt in E];
      cbn [units_of]; rewrite ?app_nil_r; repeat split; auto; try lia; try discriminate.
  - cbn [rows_fill]. destruct (k <=? length buf) eqn:E.
    + apply Nat.leb_le in E. rewrite app_length. repeat split; auto; lia.
    + apply Nat.leb_gt in E. pose proof (read_line_units src) as H.
      destruct (read_line src) as [[u s']|].
      * destruct H as [H1 H2]. specialize (IH (buf ++ [u]) s').
        destruct (rows_fill k (buf ++ [u]) s' f) as [[ok b'] s''].
        assert (Hs : length s' <= f) by lia. specialize (IH Hs).
        rewrite H1. rewrite <- app_assoc in IH. simpl in IH. exact IH.
      * rewrite H, app_nil_r. repeat split; auto; try lia; try discriminate.
  Qed.

Lemma skipn_nth_error : forall A (l : list A) c k,
  nth_error l c = Some k -> skipn c l = k :: skipn (S c) l.
Proof.
  induction l as [|x l IH]; intros [|c] k H; simpl in *; try discriminate.
  - congruence.
  - apply IH. exact H.
Qed.

Section HF.
  Variable hp fp : unt -> bool.

  Lemma first_from_skip : forall pre us i,
    forallb (fun u => negb (fp u)) pre = true ->
    first_from fp (pre ++ us) i = first_from fp us (length pre + i).
  Proof.
    induction pre as [|p pre IH]; intros us i H; [reflexivity|].
    simpl in H. apply andb_prop in H. destruct H as [Hp Hr]. simpl.
    destruct (fp p); [discriminate|]. rewrite IH by exact Hr. f_equal. lia.
  Qed.

  (* the footer loop: with the first i lines of linesBuf not matching the footer, it finds the
     first footer from line i on, reading ahead as needed and keeping every line *)
  Lemma hf_scan_ok : forall fuel i buf src,
    i < length buf -> length buf - i + length src < fuel ->
    let '(r, buf', src') := hf_scan fp fuel i buf src in
    buf' ++ units_of src' = buf ++ units_of src /\
    r = first_from fp (skipn i (buf ++ units_of src)) i /\
    (forall m, r = Some m -> m <= length buf').
  Proof.
    induction fuel as [|f IH]; intros i buf src Hi Hf; [lia|].
    cbn [hf_scan]. destruct (nth_error buf i) as [l|] eqn:En; [|apply nth_error_None in En; lia].
    assert (Hsk : skipn i (buf ++ units_of src) = l :: skipn (S i) (buf ++ units_of src)).
    { apply skipn_nth_error. rewrite nth_error_app1 by exact Hi. exact En. }
    rewrite Hsk. cbn [first_from].
    destruct (fp l) eqn:Ef.
    - repeat split; auto. intros m Hm. inversion Hm; subst. lia.
    - destruct (length buf - 1 <=? i) eqn:El.
      + apply Nat.leb_le in El. assert (Hlast : S i = length buf) by lia.
        pose proof (read_line_units src) as H. destruct (read_line src) as [[u s']|].
        * destruct H as [H1 H2].
          specialize (IH (S i) (buf ++ [u]) s').
          destruct (hf_scan fp f (S i) (buf ++ [u]) s') as [[r b'] s''].
          assert (A : S i < length (buf ++ [u])) by (rewrite app_length; simpl; lia).
          assert (B : length (buf ++ [u]) - S i + length s' < f) by (rewrite app_length; simpl; lia).
          specialize (IH A B). rewrite <- app_assoc in IH. simpl in IH. rewrite <- H1 in IH. exact IH.
        * rewrite H, app_nil_r. rewrite skipn_all2 by lia. repeat split; auto. intros m Hm. discriminate.
      + apply Nat.leb_gt in El. specialize (IH (S i) buf src).
        destruct (hf_scan fp f (S i) buf src) as [[r b'] s''].
        apply IH; lia.
  Qed.

  (* readAndMatchHeaderFooterBased*, probing: the result is the declarative window over the units
     still to come; all of them are still there afterwards, in order *)
  Theorem hf_match_ok : forall buf src,
    let '(r, buf', src') := hf_match hp fp buf src in
    buf' ++ units_of src' = buf ++ units_of src /\
    r = window hp fp (buf ++ units_of src) /\
    (forall m, r = Some m -> m <= length buf').
  Proof.
    intros buf src. unfold hf_match.
    pose proof (more_unprocessed_ok buf src) as H.
    destruct (more_unprocessed buf src) as [[more b1] s1].
    destruct H as (Heq & Hmore & Hne & Hlen). rewrite <- Heq.
    destruct more; cbn [negb].
    - destruct b1 as [|l0 b1']; [exfalso; apply Hne; auto|].
      cbn [window app]. destruct (hp l0); [|repeat split; auto; intros m Hm; discriminate].
      pose proof (hf_scan_ok (S (length (l0 :: b1') + length s1)) 0 (l0 :: b1') s1) as Hs.
      destruct (hf_scan fp (S (length (l0 :: b1') + length s1)) 0 (l0 :: b1') s1) as [[r b'] s''].
      apply Hs; simpl; lia.
    - assert (He : b1 ++ units_of s1 = []).
      { destruct (b1 ++ units_of s1) eqn:E; [reflexivity|]. exfalso.
        assert (Hft : false = true) by (apply Hmore; rewrite <- Heq; discriminate). discriminate Hft. }
      rewrite He. repeat split; auto. intros m Hm. discriminate.
  Qed.
End HF.

(* the unit-level leaf matchers of Model/Hier.v are these windows *)
Lemma flat_leaf_LHF_window : forall h f us,
  flat_leaf (LHF h f) us = window (fun u => u_name u =? h) (fun u => u_name u =? f) us.
Proof.
  intros h f us. unfold flat_leaf, window. destruct us as [|u r]; [reflexivity|].
  destruct (u_name u =? h); [|reflexivity].
  generalize 0. generalize (u :: r). induction l as [|x l IH]; intros n; simpl; [reflexivity|].
  destruct (u_name x =? f); [reflexivity|apply IH].
Qed.

Lemma flat_leaf_LPat_window : forall h f us,
  flat_leaf (LPat h (Some f)) us =
  window (fun u => Nat.testbit (u_name u) h) (fun u => Nat.testbit (u_name u) f) us.
Proof.
  intros h f us. unfold flat_leaf, window. destruct us as [|u r]; [reflexivity|].
  destruct (Nat.testbit (u_name u) h); [|reflexivity].
  generalize 0. generalize (u :: r). induction l as [|x l IH]; intros n; simpl; [reflexivity|].
  destruct (Nat.testbit (u_name x) f); [reflexivity|apply IH].
Qed.
