(* C09 proofs, part 1: sources. *)
From Coq Require Import List NArith Bool Arith Lia.
From Coq.Strings Require Import Byte.
Import ListNotations.
From OV Require Import Base.Bytes Base.Cases Base.Utf8 Model.Chunk.

Lemma firstn_skipn_len {A} n (l : list A) : n < length l -> length (firstn n l) = n.
Proof. intro H. rewrite firstn_length. lia. Qed.

(* One Read of a source: what comes out is a prefix of the remaining data; without an error the
   measure drops by more than the bytes delivered; an error comes exactly when the data is used
   up, it is the tail's error, and the source moves on to the rest of the tail. *)
Lemma io_read_spec s cap :
  0 < cap ->
  match io_read s cap with
  | ((c, None), s') =>
      concat (chunks s) = c ++ concat (chunks s') /\ stail s' = stail s /\
      weight (chunks s') + length c < weight (chunks s) /\ length c <= cap /\
      (c = [] -> lead_empties (chunks s) = S (lead_empties (chunks s'))) /\
      (runs_ok (chunks s) = true -> runs_ok (chunks s') = true)
  | ((c, Some e), s') =>
      concat (chunks s) = c /\ e = tail_err (stail s) /\ chunks s' = [] /\
      stail s' = tail_next (stail s) /\ length c <= cap
  end.
Proof.
  intro Hcap. unfold io_read. destruct s as [cs wl t]. cbn [chunks with_last stail].
  destruct cs as [|c rest].
  - simpl. repeat split; lia.
  - destruct (Nat.leb_spec (length c) cap) as [Hle|Hgt].
    + destruct rest as [|c2 rest].
      * destruct wl; cbn [chunks with_last stail concat weight].
        -- rewrite app_nil_r. repeat split; auto.
        -- rewrite app_nil_r. repeat split; auto; try lia.
           intros ->. reflexivity.
      * cbn [chunks with_last stail]. repeat split; auto.
        -- cbn [weight]. lia.
        -- intros ->. reflexivity.
        -- cbn [runs_ok]. intro H. apply andb_prop in H as [_ H]. exact H.
    + cbn [chunks with_last stail]. repeat split; auto.
      * cbn [concat]. rewrite app_assoc, firstn_skipn. reflexivity.
      * cbn [weight]. rewrite skipn_length, firstn_length. lia.
      * rewrite firstn_length. lia.
      * intro H. exfalso. assert (length (firstn cap c) = cap) by (rewrite firstn_length; lia).
        rewrite H in H0. simpl in H0. lia.
      * cbn [runs_ok lead_empties]. intro H. apply andb_prop in H as [_ H].
        assert (Hne : is_nil (skipn cap c) = false).
        { destruct (skipn cap c) eqn:E; [|reflexivity].
          assert (length (skipn cap c) = 0) by (rewrite E; reflexivity).
          rewrite skipn_length in H0. lia. }
        rewrite Hne. simpl. exact H.
Qed.

(* Draining a source with reads of any positive size yields its bytes and its first tail error,
   whatever the chunking. *)
Lemma drain_spec cap : 0 < cap -> forall fuel s,
  weight (chunks s) < fuel ->
  drain fuel cap s = Ok (concat (chunks s), tail_err (stail s)).
Proof.
  intros Hcap fuel. induction fuel as [|k IH]; intros s Hw; [lia|].
  cbn [drain]. pose proof (io_read_spec s cap Hcap) as H.
  destruct (io_read s cap) as [[c [e|]] s'].
  - destruct H as (H1&H2&_). subst. reflexivity.
  - destruct H as (H1&H2&H3&_). rewrite IH by lia. rewrite H1, H2. reflexivity.
Qed.

Theorem drain_chunk_invariant cap fuel fuel' cs cs' wl wl' t :
  0 < cap -> concat cs = concat cs' ->
  weight cs < fuel -> weight cs' < fuel' ->
  drain fuel cap (mkSrc cs wl t) = drain fuel' cap (mkSrc cs' wl' t).
Proof.
  intros Hcap Hc Hf Hf'. rewrite !drain_spec by assumption. simpl. rewrite Hc. reflexivity.
Qed.
