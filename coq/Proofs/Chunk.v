(* C09 proofs, part 1: sources. *)
From Coq Require Import List NArith Bool Arith Lia.
From Coq.Strings Require Import Byte.
Import ListNotations.
From OV Require Import Base.Bytes Base.Cases Base.Utf8 Model.Chunk.

Lemma firstn_skipn_len {A} n (l : list A) : n < length l -> length (firstn n l) = n.
Proof. intro H. rewrite firstn_length. lia. Qed.

(* One Read of a source: what comes out is a prefix of the remaining data; without an error the
   measure drops by more than the bytes delivered; an error comes exactly when the data is used
   up, it is the tail's error, and the source moves on to the rest of the tail. *)
Lemma io_read_spec s cap :
  0 < cap ->
  match io_read s cap with
  | ((c, None), s') =>
      concat (chunks s) = c ++ concat (chunks s') /\ stail s' = stail s /\
      weight (chunks s') + length c < weight (chunks s) /\ length c <= cap /\
      (c = [] -> lead_empties (chunks s) = S (lead_empties (chunks s'))) /\
      (runs_ok (chunks s) = true -> runs_ok (chunks s') = true)
  | ((c, Some e), s') =>
      concat (chunks s) = c /\ e = tail_err (stail s) /\ chunks s' = [] /\
      stail s' = tail_next (stail s) /\ length c <= cap /\ length c <= weight (chunks s)
  end.
Proof.
  intro Hcap. unfold io_read. destruct s as [cs wl t]. cbn [chunks with_last stail].
  destruct cs as [|c rest].
  - simpl. repeat split; lia.
  - destruct (Nat.leb_spec (length c) cap) as [Hle|Hgt].
    + destruct rest as [|c2 rest].
      * destruct wl; cbn [chunks with_last stail concat weight].
        -- rewrite app_nil_r. repeat split; auto. lia.
        -- rewrite app_nil_r. repeat split; auto; try lia.
           intros ->. reflexivity.
      * cbn [chunks with_last stail]. repeat split; auto.
        -- cbn [weight]. lia.
        -- intros ->. reflexivity.
        -- cbn [runs_ok]. intro H. apply andb_prop in H as [_ H]. exact H.
    + cbn [chunks with_last stail]. repeat split; auto.
      * cbn [concat]. rewrite app_assoc, firstn_skipn. reflexivity.
      * cbn [weight]. rewrite skipn_length, firstn_length. lia.
      * rewrite firstn_length. lia.
      * intro H. exfalso. assert (length (firstn cap c) = cap) by (rewrite firstn_length; lia).
        rewrite H in H0. simpl in H0. lia.
      * cbn [runs_ok lead_empties]. intro H. apply andb_prop in H as [_ H].
        assert (Hne : is_nil (skipn cap c) = false).
        { destruct (skipn cap c) eqn:E; [|reflexivity].
          assert (length (skipn cap c) = 0) by (rewrite E; reflexivity).
          rewrite skipn_length in H0. lia. }
        rewrite Hne. simpl. exact H.
Qed.

(* Draining a source with reads of any positive size yields its bytes and its first tail error,
   whatever the chunking. *)
Lemma drain_spec cap : 0 < cap -> forall fuel s,
  weight (chunks s) < fuel ->
  drain fuel cap s = Ok (concat (chunks s), tail_err (stail s)).
Proof.
  intros Hcap fuel. induction fuel as [|k IH]; intros s Hw; [lia|].
  cbn [drain]. pose proof (io_read_spec s cap Hcap) as H.
  destruct (io_read s cap) as [[c [e|]] s'].
  - destruct H as (H1&H2&_). subst. reflexivity.
  - destruct H as (H1&H2&H3&_). rewrite IH by lia. rewrite H1, H2. reflexivity.
Qed.

Theorem drain_chunk_invariant cap fuel fuel' cs cs' wl wl' t :
  0 < cap -> concat cs = concat cs' ->
  weight cs < fuel -> weight cs' < fuel' ->
  drain fuel cap (mkSrc cs wl t) = drain fuel' cap (mkSrc cs' wl' t).
Proof.
  intros Hcap Hc Hf Hf'. rewrite !drain_spec by assumption. simpl. rewrite Hc. reflexivity.
Qed.

(* ================================================================================================ *)
(* Part 2: the contract of a well-behaved reader, and bufio.Reader over any such reader.            *)
(* ================================================================================================ *)

(* [Rep x data t]: the reader state x will deliver exactly the bytes [data] and then behave like
   the tail t.  [wt] is a termination measure, [lead] bounds the number of consecutive empty
   (0, nil) reads that may come next (never 100). *)
Section Contract.
  Variable St : Type.
  Variable sread : St -> nat -> rres * St.
  Variable Rep : St -> bytes -> tail -> Prop.
  Variable wt : St -> nat.
  Variable lead : St -> nat.

  Definition reader_ok : Prop :=
    forall x data t cap, Rep x data t -> 0 < cap ->
      lead x <= 99 /\
      match sread x cap with
      | ((c, None), x') =>
          exists data', data = c ++ data' /\ Rep x' data' t /\
                        wt x' + length c < wt x /\ length c <= cap /\
                        (c = [] -> lead x' < lead x)
      | ((c, Some e), x') =>
          data = c /\ e = tail_err t /\ Rep x' [] (tail_next t) /\ length c <= cap /\
          wt x' + length c <= wt x
      end.
End Contract.

(* A chunk source is a well-behaved reader of concat chunks. *)
Definition src_rep (s : source) (data : bytes) (t : tail) : Prop :=
  concat (chunks s) = data /\ stail s = t /\ runs_ok (chunks s) = true.
Definition src_wt (s : source) : nat := weight (chunks s).
Definition src_lead (s : source) : nat := lead_empties (chunks s).

Lemma runs_ok_lead cs : runs_ok cs = true -> lead_empties cs <= 99.
Proof.
  destruct cs as [|c r]; [simpl; lia|]. cbn [runs_ok]. intro H. apply andb_prop in H as [H _].
  apply Nat.leb_le in H. exact H.
Qed.

Lemma source_reader_ok : reader_ok source io_read src_rep src_wt src_lead.
Proof.
  intros s data t cap (Hc&Ht&Hr) Hcap. split; [apply runs_ok_lead; exact Hr|].
  pose proof (io_read_spec s cap Hcap) as H. unfold src_rep, src_wt, src_lead.
  destruct (io_read s cap) as [[c [e|]] s'].
  - destruct H as (H1&H2&H3&H4&H5&H6). subst. rewrite H3, H4. simpl. repeat split; auto.
  - destruct H as (H1&H2&H3&H4&H5&H6). exists (concat (chunks s')). subst.
    repeat split; auto. intro Hn. specialize (H5 Hn). lia.
Qed.

Section BufioProofs.
  Variable St : Type.
  Variable sread : St -> nat -> rres * St.
  Variable Rep : St -> bytes -> tail -> Prop.
  Variable wt : St -> nat.
  Variable lead : St -> nat.
  Hypothesis Hok : reader_ok St sread Rep wt lead.
  Variable N : nat.
  Hypothesis HN : 4 <= N.

  Notation fill_loop := (fill_loop St sread N).
  Notation fill := (fill St sread N).

  (* fill's read loop never gives up on a well-behaved reader: it ends with new bytes or with the
     reader's error. *)
  Lemma fill_loop_spec i : forall d x rest t,
    Rep x rest t -> lead x < i -> length d < N ->
    match fill_loop i d x with
    | ((d', None), x') =>
        exists c rest', c <> [] /\ d' = d ++ c /\ rest = c ++ rest' /\ Rep x' rest' t /\
                        wt x' + length c < wt x /\ length d' <= N
    | ((d', Some e), x') =>
        d' = d ++ rest /\ e = tail_err t /\ Rep x' [] (tail_next t) /\ length d' <= N /\ wt x' <= wt x
    end.
  Proof.
    induction i as [|i IH]; intros d x rest t HR Hl Hd; [lia|].
    cbn [Chunk.fill_loop].
    assert (Hcap : 0 < N - length d) by lia.
    destruct (Hok x rest t (N - length d) HR Hcap) as [Hle H].
    destruct (sread x (N - length d)) as [[c [e|]] x'].
    - destruct H as (H1&H2&H3&H4&H5). subst. repeat split; auto; try lia. rewrite app_length. lia.
    - destruct H as (rest'&H1&H2&H3&H4&H5). destruct c as [|c0 c]; cbn [is_nil].
      + specialize (H5 eq_refl). simpl in H1. subst rest'.
        specialize (IH d x' rest t H2 ltac:(lia) Hd).
        destruct (fill_loop i d x') as [[d' [e|]] x''].
        * destruct IH as (A&B&C&D&E). repeat split; auto. simpl in H3. lia.
        * destruct IH as (c&r'&A&B&C&D&E&F). exists c, r'. repeat split; auto. simpl in H3. lia.
      + exists (c0 :: c), rest'. repeat split; auto; try discriminate.
        rewrite app_length. lia.
  Qed.

  (* The relation between a bufio.Reader over a well-behaved reader and the abstract stream. *)
  Definition BR (bx : bufrd * St) (a : astream) : Prop :=
    let '(b, x) := bx in let '(data, t) := a in
    length (b_data b) <= N /\
    match b_err b with
    | None => exists rest, Rep x rest t /\ data = b_data b ++ rest
    | Some e => Rep x [] (tail_next t) /\ e = tail_err t /\ data = b_data b
    end.

  Definition bwt (bx : bufrd * St) : nat := wt (snd bx).

  Lemma fill_spec b x rest t :
    b_err b = None -> Rep x rest t -> length (b_data b) < N ->
    exists b' x', fill b x = Ok (b', x') /\ b_pre b' = [] /\ b_lastrune b' = b_lastrune b /\
      BR (b', x') (b_data b ++ rest, t) /\ wt x' <= wt x /\
      (b_err b' = None -> length (b_data b) < length (b_data b') /\ wt x' < wt x) /\
      (exists c, b_data b' = b_data b ++ c).
  Proof.
    intros He HR Hd. unfold Chunk.fill.
    destruct (Nat.leb_spec N (length (b_data b))) as [H|_]; [lia|].
    destruct (Hok x rest t 1 HR ltac:(lia)) as [Hle _].
    pose proof (fill_loop_spec 100 (b_data b) x rest t HR ltac:(lia) Hd) as H.
    destruct (fill_loop 100 (b_data b) x) as [[d' [e|]] x'].
    - destruct H as (A&B&C&D&E). eexists _, _. split; [reflexivity|]. cbn [b_pre b_lastrune b_err b_data].
      repeat split; auto; try discriminate. subst; eauto.
    - destruct H as (c&r'&A&B&C&D&E&F). eexists _, _. split; [reflexivity|].
      cbn [b_pre b_lastrune b_err b_data]. rewrite He.
      repeat split; auto; try lia.
      + exists r'. split; [exact D|]. subst. rewrite app_assoc. reflexivity.
      + subst d'. rewrite app_length. destruct c; [congruence|simpl; lia].
      + exists c. exact B.
  Qed.
End BufioProofs.
