(* C06 proofs, part 1: facts about Base/Utf8.v (DecodeRune advance, the chunks DecodeRune cuts a
   string into, the UTF-8 encoding of a csv delimiter) and the fixed-length slice specification. *)
From Coq Require Import List NArith Bool Arith Lia.
From Coq.Strings Require Import Byte.
Import ListNotations.
From OV Require Import Base.Bytes Base.Utf8 Base.Cases Model.Csv Model.Fixed Model.Delim Proofs.DelimSweepA.

(* ---- DecodeRune consumes at least one and at most len(s) bytes --------------------------------- *)
Lemma decode_adv b r : 1 <= snd (decode_rune (b :: r)) <= length (b :: r).
Proof.
  unfold decode_rune.
  destruct (b2n b <? 128)%N; [simpl; lia|].
  destruct (b2n b <? 194)%N; [simpl; lia|].
  destruct (b2n b <? 224)%N.
  { destruct r as [|b1 r]; [simpl; lia|]. destruct (in_range 128 191 b1); simpl; lia. }
  destruct (b2n b <? 240)%N.
  { destruct r as [|b1 [|b2 r]]; try (simpl; lia).
    destruct (in_range _ _ b1 && in_range 128 191 b2); simpl; lia. }
  destruct (b2n b <? 245)%N.
  { destruct r as [|b1 [|b2 [|b3 r]]]; try (simpl; lia).
    destruct (in_range _ _ b1 && in_range 128 191 b2 && in_range 128 191 b3); simpl; lia. }
  simpl; lia.
Qed.

Lemma decode_adv_ne s : s <> [] -> 1 <= snd (decode_rune s) <= length s.
Proof. destruct s as [|b r]; [congruence|]. intros _. apply decode_adv. Qed.

(* ---- chunks ---------------------------------------------------------------------------------------- *)
Lemma chunks_fuel_enough k1 : forall k2 s,
  length s <= k1 -> length s <= k2 -> chunks_fuel k1 s = chunks_fuel k2 s.
Proof.
  induction k1 as [|k1 IH]; intros k2 s H1 H2.
  - destruct s; [|simpl in H1; lia]. destruct k2; reflexivity.
  - destruct s as [|b r]; [destruct k2; reflexivity|].
    destruct k2 as [|k2]; [simpl in H2; lia|].
    cbn [chunks_fuel]. f_equal.
    pose proof (decode_adv b r) as Ha.
    assert (Hl : length (skipn (snd (decode_rune (b :: r))) (b :: r)) <= length r).
    { rewrite skipn_length. simpl length in *. lia. }
    simpl length in H1, H2. apply IH; lia.
Qed.

Lemma chunks_nil : chunks [] = [].
Proof. reflexivity. Qed.

Lemma chunks_cons b r :
  let n := snd (decode_rune (b :: r)) in
  chunks (b :: r) = firstn n (b :: r) :: chunks (skipn n (b :: r)).
Proof.
  intro n. unfold chunks at 1. cbn [length chunks_fuel]. fold n. f_equal.
  unfold chunks. apply chunks_fuel_enough; [|lia].
  pose proof (decode_adv b r) as Ha. fold n in Ha.
  rewrite skipn_length. simpl length in *. lia.
Qed.

Lemma concat_chunks_fuel k : forall s, length s <= k -> concat (chunks_fuel k s) = s.
Proof.
  induction k as [|k IH]; intros s H.
  - destruct s; [reflexivity|simpl in H; lia].
  - destruct s as [|b r]; [reflexivity|].
    cbn [chunks_fuel concat]. rewrite IH.
    + apply firstn_skipn.
    + pose proof (decode_adv b r). rewrite skipn_length. simpl length in *. lia.
Qed.

Lemma concat_chunks s : concat (chunks s) = s.
Proof. apply concat_chunks_fuel. lia. Qed.

(* chunks are exactly the (rune, size) steps of Base.Utf8.runes_sz *)
Lemma chunks_runes_sz_fuel k : forall s,
  map (@length byte) (chunks_fuel k s) = map snd (runes_fuel k s).
Proof.
  induction k as [|k IH]; intro s; [reflexivity|].
  destruct s as [|b r]; [reflexivity|].
  cbn [chunks_fuel runes_fuel]. destruct (decode_rune (b :: r)) as [rn n] eqn:E.
  cbn [map snd]. rewrite IH. f_equal.
  pose proof (decode_adv b r) as Ha. rewrite E in Ha. cbn [snd] in Ha.
  rewrite firstn_length. lia.
Qed.

Lemma chunks_runes_sz s : map (@length byte) (chunks s) = map snd (runes_sz s).
Proof. apply chunks_runes_sz_fuel. Qed.

Lemma chunks_count s : length (chunks s) = rune_count s.
Proof.
  unfold rune_count. rewrite <- (map_length (@length byte)), chunks_runes_sz, map_length. reflexivity.
Qed.

(* ---- lineToColumnValue ---------------------------------------------------------------------------- *)
Lemma skip_runes_chunks k : forall line,
  chunks (skip_runes k line) = skipn k (chunks line).
Proof.
  induction k as [|k IH]; intro line; [reflexivity|].
  destruct line as [|b r]; [reflexivity|].
  cbn [skip_runes]. rewrite IH. rewrite (chunks_cons b r). reflexivity.
Qed.

Lemma skip_runes_spec k line : skip_runes k line = concat (skipn k (chunks line)).
Proof. rewrite <- skip_runes_chunks. symmetry. apply concat_chunks. Qed.

Lemma skipn_skipn' {A} y : forall x (l : list A), skipn x (skipn y l) = skipn (y + x) l.
Proof.
  induction y as [|y IH]; intros x l; [reflexivity|].
  destruct l as [|a l]; [simpl; destruct x; reflexivity|]. simpl. apply IH.
Qed.

Lemma runes_end_spec len : forall i line, i <= length line ->
  runes_end len i line = i + length (concat (firstn len (chunks (skipn i line)))).
Proof.
  induction len as [|len IH]; intros i line Hi; [simpl; lia|].
  cbn [runes_end]. destruct (i <? length line) eqn:E.
  - apply Nat.ltb_lt in E.
    destruct (skipn i line) as [|b r] eqn:Es.
    { apply (f_equal (@length byte)) in Es. rewrite skipn_length in Es. simpl in Es. lia. }
    pose proof (decode_adv b r) as Ha.
    assert (Hlen : length (b :: r) = length line - i) by (rewrite <- Es; apply skipn_length).
    rewrite IH by lia.
    rewrite (chunks_cons b r). cbn [firstn concat]. rewrite app_length, firstn_length.
    set (n := snd (decode_rune (b :: r))) in *.
    assert (Hs : skipn n (b :: r) = skipn (i + n) line) by (rewrite <- Es; apply skipn_skipn').
    rewrite Hs. lia.
  - apply Nat.ltb_ge in E. assert (i = length line) by lia. subst i.
    rewrite skipn_all. simpl. lia.
Qed.

Lemma firstn_concat_prefix {A} (cs : list (list A)) n :
  firstn (length (concat (firstn n cs))) (concat cs) = concat (firstn n cs).
Proof.
  rewrite <- (firstn_skipn n cs) at 2. rewrite concat_app.
  rewrite firstn_app, Nat.sub_diag, firstn_O, app_nil_r. apply firstn_all.
Qed.

(* The value of a fixed-length column: the runes (DecodeRune units) [start_pos, start_pos+len) of
   the line, for every line, including positions past its end. *)
Theorem fixed_slice_spec start_pos len line :
  rune_slice start_pos len line = concat (firstn len (skipn (start_pos - 1) (chunks line))).
Proof.
  unfold rune_slice. rewrite runes_end_spec by lia. cbn [skipn Nat.add].
  rewrite skip_runes_chunks. rewrite skip_runes_spec. apply firstn_concat_prefix.
Qed.

(* ---- a length that reaches the end of the line: "the rest of the line" ---------------------------------- *)
Lemma chunks_fuel_len k : forall s, length (chunks_fuel k s) <= length s.
Proof.
  induction k as [|k IH]; intro s; [simpl; lia|].
  destruct s as [|b r]; [simpl; lia|]. cbn [chunks_fuel length].
  pose proof (decode_adv b r) as Ha. specialize (IH (skipn (snd (decode_rune (b :: r))) (b :: r))).
  rewrite skipn_length in IH. simpl length in *. lia.
Qed.

Lemma rune_count_le s : rune_count s <= length s.
Proof. rewrite <- chunks_count. apply chunks_fuel_len. Qed.

(* every declared length that is at least the number of runes of the line (so every length from
   len(line) up to MaxInt64, whatever start_pos is) gives the rest of the line from start_pos *)
Theorem fixed_slice_rest_proof start_pos len line : rune_count line <= len ->
  rune_slice start_pos len line = concat (skipn (start_pos - 1) (chunks line))
  /\ rune_slice start_pos len line = skip_runes (start_pos - 1) line.
Proof.
  intro H. rewrite fixed_slice_spec, skip_runes_spec. split; [|].
  - rewrite firstn_all2; [reflexivity|]. rewrite skipn_length, chunks_count. lia.
  - rewrite firstn_all2; [reflexivity|]. rewrite skipn_length, chunks_count. lia.
Qed.

Lemma valid_delim_enc_ok r : enc_ok r = true.
Proof.
  destruct (valid_delim r) eqn:V; [|unfold enc_ok; rewrite V; reflexivity].
  pose proof enc_ok_all as H. apply andb_prop in H as [H1 H2].
  assert (Hr : (r <= 1114111)%N).
  { unfold valid_delim in V. repeat (apply andb_prop in V as [V ?]).
    unfold valid_rune in *. match goal with H : (_ <=? MaxRune)%N && _ = true |- _ =>
      apply andb_prop in H as [H _]; apply N.leb_le in H; exact H end. }
  destruct (N.lt_ge_cases r 1048576) as [Hlt|Hge].
  - apply (sweep_sound _ _ _ H1). simpl. lia.
  - apply (sweep_sound _ _ _ H2). simpl. lia.
Qed.

(* what the csv proofs need of a delimiter's encoding: non-empty, its first byte does not occur
   again, and it contains no LF, CR or quote *)
Definition good_enc (enc : bytes) : Prop :=
  exists h t, enc = h :: t /\ mem_byte h t = false /\ mem_byte LF enc = false
              /\ mem_byte CR enc = false /\ mem_byte QUOTE enc = false.

Lemma valid_delim_good_enc r : valid_delim r = true -> good_enc (encode_rune r).
Proof.
  intro V. pose proof (valid_delim_enc_ok r) as H. unfold enc_ok in H. rewrite V in H. simpl in H.
  destruct (encode_rune r) as [|h t] eqn:E; [discriminate|].
  apply andb_prop in H as [H Hq]. apply andb_prop in H as [H Hc]. apply andb_prop in H as [Hb Hl].
  apply negb_true_iff in Hq, Hc, Hb, Hl.
  exists h, t. repeat split; assumption.
Qed.
