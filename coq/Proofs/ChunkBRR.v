(* C09 proofs, part 6: go-corelib BytesReplacingReader with a one-byte search token and a
   replacement of length <= 1 (the three instances omniparser constructs: double quote to single
   quote, CR removed, LF removed) over any well-behaved reader is again a well-behaved reader, of the bytes
   a_replace1 s repl data.  It latches the first error of its input. *)
From Coq Require Import List NArith Bool Arith Lia.
From Coq.Strings Require Import Byte.
Import ListNotations.
From OV Require Import Base.Bytes Base.Cases Base.Utf8 Model.Chunk Proofs.Chunk Proofs.ChunkLines.

Definition latch (t : tail) : tail := match t with TOnce e1 _ => TFault e1 | _ => t end.
Lemma latch_err t : tail_err (latch t) = tail_err t. Proof. destruct t; reflexivity. Qed.
Lemma latch_next t : tail_next (latch t) = latch t. Proof. destruct t; reflexivity. Qed.

Lemma replace1_app s repl a b : a_replace1 s repl (a ++ b) = a_replace1 s repl a ++ a_replace1 s repl b.
Proof. unfold a_replace1. apply flat_map_app. Qed.

Lemma replace1_len s repl d : length repl <= 1 -> length (a_replace1 s repl d) <= length d.
Proof.
  intro H. induction d as [|c d IH]; simpl; [lia|].
  rewrite app_length. destruct (Byte.eqb c s); simpl; lia.
Qed.

Lemma byte_eqb_sym a b : Byte.eqb a b = Byte.eqb b a.
Proof.
  destruct (Byte.eqb a b) eqn:E.
  - apply Byte.byte_dec_bl in E. subst. symmetry. apply Byte.byte_dec_lb. reflexivity.
  - destruct (Byte.eqb b a) eqn:E2; [|reflexivity].
    apply Byte.byte_dec_bl in E2. subst. rewrite (Byte.byte_dec_lb eq_refl) in E. discriminate.
Qed.

Lemma index_sub1 s l : index_sub [s] l = index_byte s l.
Proof.
  induction l as [|c l IH]; [reflexivity|]. cbn [index_sub prefix_eqb index_byte].
  rewrite (byte_eqb_sym s c), andb_true_r. destruct (Byte.eqb c s); [reflexivity|].
  rewrite IH. reflexivity.
Qed.

Lemma index_byte_some_split s l i :
  index_byte s l = Some i ->
  exists pre post, l = pre ++ s :: post /\ length pre = i /\ index_byte s pre = None.
Proof.
  revert i; induction l as [|c l IH]; intros i H; simpl in H; [discriminate|].
  destruct (Byte.eqb c s) eqn:E.
  - injection H as <-. apply Byte.byte_dec_bl in E. subst. exists [], l. auto.
  - destruct (index_byte s l) as [j|]; simpl in H; [|discriminate]. injection H as <-.
    destruct (IH j eq_refl) as (pre&post&->&Hl&Hn). exists (c :: pre), post.
    repeat split; simpl; [lia|]. rewrite E, Hn. reflexivity.
Qed.

Lemma replace1_none s repl l : index_byte s l = None -> a_replace1 s repl l = l.
Proof.
  induction l as [|c l IH]; intro H; [reflexivity|]. simpl in *.
  destruct (Byte.eqb c s); [discriminate|].
  destruct (index_byte s l); [discriminate|]. simpl. rewrite IH; reflexivity.
Qed.

Lemma replace1_hit s repl : a_replace1 s repl [s] = repl.
Proof. unfold a_replace1. simpl. rewrite (Byte.byte_dec_lb eq_refl). apply app_nil_r. Qed.

Section BRRProofs.
  Variable s : byte.
  Variable repl : bytes.
  Hypothesis Hrepl : length repl <= 1.
  Variable bufsize : nat.
  Hypothesis Hbs : 0 < bufsize.

  Lemma brr_replace_spec fuel : forall done todo,
    length todo < fuel -> length (done ++ todo) <= bufsize ->
    brr_replace [s] repl bufsize fuel (done ++ todo) (length done) =
      Ok (done ++ a_replace1 s repl todo, length (done ++ a_replace1 s repl todo)).
  Proof.
    induction fuel as [|k IH]; intros done todo Hf Hb; [lia|].
    cbn [brr_replace]. rewrite skipn_app_exact, index_sub1.
    destruct (index_byte s todo) as [i|] eqn:Ei.
    - destruct (index_byte_some_split s todo i Ei) as (pre&post&->&Hl&Hn).
      cbn [length].
      assert (E1 : firstn (length done + i) (done ++ pre ++ s :: post) = done ++ pre).
      { rewrite app_assoc. rewrite <- Hl, <- app_length. apply firstn_app_exact. }
      assert (E2 : skipn (length done + i + 1) (done ++ pre ++ s :: post) = post).
      { replace (done ++ pre ++ s :: post) with ((done ++ pre ++ [s]) ++ post)
          by (rewrite <- !app_assoc; reflexivity).
        replace (length done + i + 1) with (length (done ++ pre ++ [s]))
          by (rewrite !app_length; simpl; lia).
        apply skipn_app_exact. }
      rewrite E1, E2.
      assert (Hlen : length ((done ++ pre) ++ repl ++ post) <= bufsize).
      { rewrite !app_length in *. simpl in Hb. lia. }
      destruct (Nat.ltb_spec bufsize (length ((done ++ pre) ++ repl ++ post))) as [|_]; [lia|].
      replace ((done ++ pre) ++ repl ++ post) with ((done ++ pre ++ repl) ++ post)
        by (rewrite <- !app_assoc; reflexivity).
      replace (length done + i + length repl) with (length (done ++ pre ++ repl))
        by (rewrite !app_length; lia).
      rewrite IH.
      + rewrite replace1_app, (replace1_none s repl pre Hn).
        change (s :: post) with ([s] ++ post). rewrite replace1_app, replace1_hit.
        rewrite <- !app_assoc. reflexivity.
      + rewrite app_length in Hf. simpl in Hf. lia.
      + rewrite !app_length in Hlen |- *. lia.
    - rewrite (replace1_none s repl todo Ei). cbn [length].
      replace (length (done ++ todo) + 1 - 1) with (length (done ++ todo)) by lia.
      rewrite Nat.max_r by (rewrite app_length; lia). reflexivity.
  Qed.

  Variable St : Type.
  Variable sread : St -> nat -> rres * St.
  Variable Rep : St -> bytes -> tail -> Prop.
  Variable wt : St -> nat.
  Variable lead : St -> nat.
  Hypothesis Hok : reader_ok St sread Rep wt lead.

  Notation brr_read := (brr_read St sread [s] repl bufsize).

  (* what a BytesReplacingReader state still has to deliver *)
  Definition brr_rep (st : brr * St) (out : bytes) (T : tail) : Prop :=
    let '(r, x) := st in
    r_buf0 r = length (r_buf r) /\ length (r_buf r) <= bufsize /\
    match r_err r with
    | None => exists rest t, T = latch t /\ Rep x rest t /\ out = r_buf r ++ a_replace1 s repl rest
    | Some e => e = tail_err T /\ tail_next T = T /\ out = r_buf r
    end.
  Definition brr_wt (st : brr * St) : nat := 2 * length (r_buf (fst st)) + 2 * wt (snd st).

  Definition brr_m (st : brr * St) : nat :=
    match r_err (fst st) with Some _ => 0 | None => wt (snd st) + 1 end.

  Lemma brr_max_eq : brr_max [s] repl bufsize = bufsize.
  Proof. unfold brr_max. cbn [length]. destruct (Nat.ltb_spec 1 (length repl)); [lia|reflexivity]. Qed.

  (* one Read(p), len(p) = cap > 0 *)
  Lemma brr_read_spec fuel : forall r x out T cap,
    brr_rep (r, x) out T -> 0 < cap -> brr_m (r, x) < fuel ->
    exists c oe st', brr_read fuel (r, x) cap = Ok ((c, oe), st') /\ brr_m st' <= brr_m (r, x) /\
      length c <= cap /\
      match oe with
      | None => c <> [] /\ exists out', out = c ++ out' /\ brr_rep st' out' T /\
                                         brr_wt st' + length c < brr_wt (r, x)
      | Some e => out = c /\ e = tail_err T /\ brr_rep st' [] T /\ brr_wt st' + length c <= brr_wt (r, x)
      end.
  Proof.
    induction fuel as [|k IH]; intros r x out T cap HR Hcap Hf; [lia|].
    destruct HR as (H0&Hb&HR). cbn [Chunk.brr_read].
    destruct (Nat.ltb_spec 0 (r_buf0 r)) as [Hpos|Hzero].
    - (* bytes ready in the buffer *)
      set (n := Nat.min cap (r_buf0 r)).
      assert (Hn : 1 <= n <= length (r_buf r)) by (unfold n; lia).
      assert (Hfl : length (firstn n (r_buf r)) = n) by (rewrite firstn_length; lia).
      assert (Hne : firstn n (r_buf r) <> []).
      { intro E. rewrite E in Hfl. simpl in Hfl. lia. }
      destruct (skipn n (r_buf r)) as [|c1 rest1] eqn:Es.
      + assert (Hall : firstn n (r_buf r) = r_buf r).
        { rewrite <- (firstn_skipn n (r_buf r)) at 2. rewrite Es, app_nil_r. reflexivity. }
        assert (Hn2 : n = length (r_buf r)) by (rewrite Hall in Hfl; lia).
        destruct (r_err r) as [e|] eqn:Ee.
        * destruct HR as (->&Hnx&->). eexists _, _, _. split; [reflexivity|]. split; [unfold brr_m; cbn [fst snd r_err]; try rewrite Ee; lia|].
          split; [rewrite Hfl; unfold n; lia|]. rewrite Hall.
          split; [reflexivity|]. split; [reflexivity|]. split.
          -- unfold brr_rep. cbn [r_buf r_buf0 r_err length]. try rewrite Ee.
             repeat split; auto; lia.
          -- unfold brr_wt. cbn [fst snd r_buf length]. lia.
        * destruct HR as (rest&t&->&HRx&->). eexists _, _, _. split; [reflexivity|]. split; [unfold brr_m; cbn [fst snd r_err]; try rewrite Ee; lia|].
          split; [rewrite Hfl; unfold n; lia|]. split; [exact Hne|].
          exists (a_replace1 s repl rest). rewrite Hall. split; [reflexivity|]. split.
          -- unfold brr_rep. cbn [r_buf r_buf0 r_err length]. try rewrite Ee.
             split; [rewrite Hall in Hfl; lia|]. split; [lia|]. exists rest, t. auto.
          -- unfold brr_wt. cbn [fst snd r_buf length]. rewrite Hall in Hfl. lia.
      + assert (Hsl : length (skipn n (r_buf r)) = length (r_buf r) - n) by apply skipn_length.
        eexists _, _, _. split; [reflexivity|]. split; [unfold brr_m; cbn [fst snd r_err]; try rewrite Ee; lia|].
        split; [rewrite Hfl; unfold n; lia|]. split; [exact Hne|].
        rewrite <- Es.
        destruct (r_err r) as [e|] eqn:Ee.
        * destruct HR as (->&Hnx&->). exists (skipn n (r_buf r)).
          split; [symmetry; apply firstn_skipn|]. split.
          -- unfold brr_rep. cbn [r_buf r_buf0 r_err]. try rewrite Ee. repeat split; auto; lia.
          -- unfold brr_wt. cbn [fst snd r_buf]. lia.
        * destruct HR as (rest&t&->&HRx&->). exists (skipn n (r_buf r) ++ a_replace1 s repl rest).
          split; [rewrite app_assoc, firstn_skipn; reflexivity|]. split.
          -- unfold brr_rep. cbn [r_buf r_buf0 r_err]. try rewrite Ee.
             split; [lia|]. split; [lia|]. exists rest, t. auto.
          -- unfold brr_wt. cbn [fst snd r_buf]. lia.
    - (* buffer empty *)
      assert (Hnil : r_buf r = []) by (destruct (r_buf r); [reflexivity|simpl in H0; lia]).
      destruct (r_err r) as [e|] eqn:Ee.
      + destruct HR as (->&Hnx&->). eexists _, _, _. split; [reflexivity|]. split; [unfold brr_m; cbn [fst snd r_err]; try rewrite Ee; lia|].
        rewrite Hnil. split; [simpl; lia|].
        split; [reflexivity|]. split; [reflexivity|]. split; [|simpl; lia].
        unfold brr_rep. try rewrite Ee; rewrite Hnil. repeat split; auto; simpl; lia.
      + destruct HR as (rest&t&->&HRx&->). rewrite Hnil. cbn [length app].
        rewrite brr_max_eq, Nat.sub_0_r.
        destruct (Hok x rest t bufsize HRx Hbs) as [_ Hs].
        destruct (sread x bufsize) as [[c oe] x'].
        destruct oe as [e|].
        * (* the input reader's error, possibly with the last bytes *)
          destruct Hs as (->&->&HRx'&Hlc&Hw').
          match goal with |- context [if is_nil c then ?A else ?B] =>
            assert (Hrep : (if is_nil c then A else B)
                           = Ok (a_replace1 s repl c, if is_nil c then r_buf0 r else length (a_replace1 s repl c)))
          end.
          { destruct c as [|c0 c]; [reflexivity|]. cbn [is_nil].
            replace (r_buf0 r) with (@length byte []) by (simpl; lia).
            rewrite (brr_replace_spec _ [] (c0 :: c)) by (simpl in *; lia). reflexivity. }
          rewrite Hrep. cbn [is_none].
          set (B := a_replace1 s repl c).
          assert (HB : length B <= bufsize) by (pose proof (replace1_len s repl c Hrepl); unfold B; lia).
          destruct (IH (mkBRR B (length B) (Some (tail_err t))) x' B (latch t) cap) as (c2&oe2&st2&A&Hm2&Hl2&HS).
          -- unfold brr_rep. cbn [r_buf r_buf0 r_err]. rewrite latch_err, latch_next. repeat split; auto.
          -- exact Hcap.
          -- unfold brr_m in *. cbn [fst snd r_err] in *. rewrite Ee in Hf. lia.
          -- exists c2, oe2, st2. split; [exact A|]. split; [unfold brr_m in *; cbn [fst snd r_err] in *; try rewrite Ee; lia|]. split; [exact Hl2|].
             unfold brr_wt in *. cbn [fst snd r_buf] in *. rewrite Hnil. cbn [length].
             pose proof (replace1_len s repl c Hrepl). fold B in H.
             destruct oe2 as [e2|].
             ++ destruct HS as (P1&P2&P3&P4). repeat split; auto. lia.
             ++ destruct HS as (P0&(out'&P1&P3&P4)). split; [exact P0|]. exists out'.
                repeat split; auto. lia.
        * (* more bytes (or an empty read): process them and go round again *)
          destruct Hs as (rest'&->&HRx'&Hw'&Hlc&Hlead).
          match goal with |- context [if is_nil c then ?A else ?B] =>
            assert (Hrep : (if is_nil c then A else B)
                           = Ok (a_replace1 s repl c, length (a_replace1 s repl c)))
          end.
          { destruct c as [|c0 c]; [cbn; f_equal; f_equal; lia|]. cbn [is_nil].
            replace (r_buf0 r) with (@length byte []) by (simpl; lia).
            rewrite (brr_replace_spec _ [] (c0 :: c)) by (simpl in *; lia). reflexivity. }
          rewrite Hrep. cbn [is_none].
          set (B := a_replace1 s repl c).
          assert (HB : length B <= length c) by (apply replace1_len; exact Hrepl).
          destruct (IH (mkBRR B (length B) None) x' (B ++ a_replace1 s repl rest') (latch t) cap)
            as (c2&oe2&st2&A&Hm2&Hl2&HS).
          -- unfold brr_rep. cbn [r_buf r_buf0 r_err]. split; [reflexivity|]. split; [lia|].
             exists rest', t. auto.
          -- exact Hcap.
          -- unfold brr_m in *. cbn [fst snd r_err] in *. rewrite Ee in Hf. lia.
          -- exists c2, oe2, st2. split; [exact A|]. split; [unfold brr_m in *; cbn [fst snd r_err] in *; try rewrite Ee; lia|]. split; [exact Hl2|].
             rewrite replace1_app. fold B.
             unfold brr_wt in *. cbn [fst snd r_buf] in *. rewrite Hnil. cbn [length].
             destruct oe2 as [e2|].
             ++ destruct HS as (P1&P2&P3&P4). repeat split; auto. lia.
             ++ destruct HS as (P0&(out'&P1&P3&P4)). split; [exact P0|]. exists out'.
                repeat split; auto. lia.
  Qed.
End BRRProofs.

Section DrainAnyProofs.
  Variable St : Type.
  Variable sread : St -> nat -> rres * St.
  Variable Rep : St -> bytes -> tail -> Prop.
  Variable wt : St -> nat.
  Variable lead : St -> nat.
  Hypothesis Hok : reader_ok St sread Rep wt lead.

  Lemma drain_rd_spec cap : 0 < cap -> forall fuel x data t,
    Rep x data t -> wt x < fuel -> drain_rd St sread fuel cap x = Ok (data, tail_err t).
  Proof.
    intros Hcap fuel. induction fuel as [|k IH]; intros x data t HR Hf; [lia|].
    cbn [drain_rd]. destruct (Hok x data t cap HR Hcap) as [_ H].
    destruct (sread x cap) as [[c [e|]] x'].
    - destruct H as (->&->&_). reflexivity.
    - destruct H as (d'&->&HR'&Hw&_). rewrite (IH x' d' t HR') by lia. reflexivity.
  Qed.
End DrainAnyProofs.

Section BRRLayer.
  Variable s : byte.
  Variable repl : bytes.
  Hypothesis Hrepl : length repl <= 1.
  Variable bufsize : nat.
  Hypothesis Hbs : 0 < bufsize.
  Variable St : Type.
  Variable sread : St -> nat -> rres * St.
  Variable Rep : St -> bytes -> tail -> Prop.
  Variable wt : St -> nat.
  Variable lead : St -> nat.
  Hypothesis Hok : reader_ok St sread Rep wt lead.
  Variable fuel : nat.

  Definition brr_rd : brr * St -> nat -> rres * (brr * St) :=
    total (brr_read St sread [s] repl bufsize fuel).
  Definition brr_rep_f (st : brr * St) (out : bytes) (T : tail) : Prop :=
    brr_rep s repl bufsize St Rep st out T /\ brr_m St wt st < fuel.

  (* The replacing reader over a well-behaved reader is a well-behaved reader (of the replaced
     bytes, with the first error of its input latched), and never returns an empty read. *)
  Theorem brr_reader_ok : reader_ok (brr * St) brr_rd brr_rep_f (brr_wt St wt) (fun _ => 0).
  Proof.
    intros [r x] out T cap [HR Hm] Hcap. split; [lia|].
    destruct (brr_read_spec s repl Hrepl bufsize Hbs St sread Rep wt lead Hok fuel r x out T cap HR Hcap Hm)
      as (c&oe&st'&E&Hm'&Hl&HS).
    unfold brr_rd, total. rewrite E.
    destruct oe as [e|].
    - destruct HS as (->&->&HR'&Hw). repeat split; auto.
      + assert (tail_next T = T) as ->.
        { destruct st' as [r' x']. destruct HR' as (_&_&HR'). destruct (r_err r').
          - tauto.
          - destruct HR' as (rest&t&->&_). apply latch_next. }
        exact HR'.
      + lia.
    - destruct HS as (Hne&(out'&->&HR'&Hw)). exists out'. repeat split; auto; try lia.
      intro; contradiction.
  Qed.
End BRRLayer.

(* Over chunk sources: every chunking of the same bytes, read to the end through the replacing
   reader with reads of any size, gives the replaced bytes and the source's first error. *)
Theorem brr_spec s repl cap fuel F cs wl t :
  length repl <= 1 -> 0 < cap -> runs_ok cs = true -> weight cs + 1 < fuel -> 2 * weight cs < F ->
  drain_rd _ (brr_rd s repl 4096 source io_read fuel) F cap (brr_init, mkSrc cs wl t)
  = Ok (a_replace1 s repl (concat cs), tail_err t).
Proof.
  intros Hrepl Hcap Hr Hfuel HF.
  rewrite <- (latch_err t).
  apply (drain_rd_spec _ _ _ _ _
           (brr_reader_ok s repl Hrepl 4096 ltac:(lia) source io_read src_rep src_wt src_lead source_reader_ok fuel)
           cap Hcap).
  - split.
    + unfold brr_rep. cbn [brr_init r_buf r_buf0 r_err length]. repeat split; try lia.
      exists (concat cs), t. repeat split; auto.
    + unfold brr_m, src_wt. cbn. lia.
  - unfold brr_wt, src_wt. cbn. lia.
Qed.

Theorem brr_chunk_invariant s repl cap fuel fuel' F F' cs cs' wl wl' t :
  length repl <= 1 -> 0 < cap -> concat cs = concat cs' ->
  runs_ok cs = true -> runs_ok cs' = true ->
  weight cs + 1 < fuel -> weight cs' + 1 < fuel' -> 2 * weight cs < F -> 2 * weight cs' < F' ->
  drain_rd _ (brr_rd s repl 4096 source io_read fuel) F cap (brr_init, mkSrc cs wl t) =
  drain_rd _ (brr_rd s repl 4096 source io_read fuel') F' cap (brr_init, mkSrc cs' wl' t).
Proof.
  intros. rewrite !brr_spec by assumption. congruence.
Qed.

(* Two replacing readers stacked (ignore_crlf: CR removal under LF removal), over any chunking. *)
Theorem brr2_spec s1 r1 s2 r2 cap fuel F cs wl t :
  length r1 <= 1 -> length r2 <= 1 -> 0 < cap -> runs_ok cs = true ->
  weight cs + 1 < fuel -> 2 * (2 * weight cs) + 1 < fuel -> 2 * (2 * weight cs) < F ->
  drain_rd _ (brr_rd s2 r2 4096 _ (brr_rd s1 r1 4096 source io_read fuel) fuel) F cap
           (brr_init, (brr_init, mkSrc cs wl t))
  = Ok (a_replace1 s2 r2 (a_replace1 s1 r1 (concat cs)), tail_err t).
Proof.
  intros H1 H2 Hcap Hr Hf1 Hf2 HF.
  rewrite <- (latch_err t), <- (latch_err (latch t)).
  pose proof (brr_reader_ok s1 r1 H1 4096 ltac:(lia) source io_read src_rep src_wt src_lead source_reader_ok fuel) as Hok1.
  apply (drain_rd_spec _ _ _ _ _ (brr_reader_ok s2 r2 H2 4096 ltac:(lia) _ _ _ _ _ Hok1 fuel) cap Hcap).
  - split.
    + unfold brr_rep. cbn [brr_init r_buf r_buf0 r_err length]. repeat split; try lia.
      exists (a_replace1 s1 r1 (concat cs)), (latch t). split; [reflexivity|]. split; [|reflexivity].
      split.
      * unfold brr_rep. cbn [brr_init r_buf r_buf0 r_err length]. repeat split; try lia.
        exists (concat cs), t. repeat split; auto.
      * unfold brr_m, src_wt. cbn. lia.
    + unfold brr_m, brr_wt, src_wt. cbn. lia.
  - unfold brr_wt, src_wt. cbn. lia.
Qed.
