(* C03: every delimiter the csv / csv2 schema validation accepts is one encoding/csv can use,
   hence the jumpTo skip loop of the old csv reader makes progress and ends within
   (remaining lines + 1) iterations.  Without the validation (the code before fix d50065c) the
   loop spins. *)
From Coq Require Import List Arith NArith ZArith Bool Lia.
Import ListNotations.
From OV Require Import Base.Bytes Base.Utf8 Gen.Safety Model.Safety.

Lemma stdcsv_usable_of_valid r : stdcsv_valid_delim r = true -> stdcsv_delim_usable r = true.
Proof.
  unfold stdcsv_delim_usable. intro H. rewrite H. simpl. rewrite orb_false_r.
  unfold stdcsv_valid_delim in H. repeat (apply andb_true_iff in H as [H ?]). exact H.
Qed.

(* depends on Gen/Safety.v: re-checked against isValidDelimiter as it is in the source now *)
Lemma csv_check_usable r : csv_delim_check r = true -> stdcsv_delim_usable r = true.
Proof.
  intro H. apply stdcsv_usable_of_valid. unfold csv_delim_check in H. unfold stdcsv_valid_delim.
  (* by cases on the atoms: insensitive to the order / grouping of the Go expression *)
  destruct (N.eqb r 0), (N.eqb r 34), (N.eqb r 13), (N.eqb r 10), (valid_rune r), (N.eqb r RuneError);
    simpl in *; try reflexivity; discriminate.
Qed.

Lemma csv2_check_usable r : csv2_delim_check r = true -> stdcsv_delim_usable r = true.
Proof.
  intro H. apply stdcsv_usable_of_valid. unfold csv2_delim_check in H. unfold stdcsv_valid_delim.
  (* by cases on the atoms: insensitive to the order / grouping of the Go expression *)
  destruct (N.eqb r 0), (N.eqb r 34), (N.eqb r 13), (N.eqb r 10), (valid_rune r), (N.eqb r RuneError);
    simpl in *; try reflexivity; discriminate.
Qed.

Section JumpProofs.
  Variable span : csvst -> nat.
  Variable io_fails : csvst -> bool.
  (* encoding/csv: a Read with a usable delimiter consumes at least one physical line (readLine
     is called at least once and counts it), and no more than there are *)
  Hypothesis span_ok : forall s, 0 < lines_left s -> 1 <= span s <= lines_left s.

  (* the repaired loop: for any delimiter, usable or not, and any failure pattern of the input *)
  Lemma jump_to_terminates : forall fuel usable row s,
    lines_left s < fuel -> jump_gen span io_fails true fuel usable row s <> JumpOutOfFuel.
  Proof.
    induction fuel as [|k IH]; intros usable row s Hf; [lia|].
    cbn [jump_gen]. destruct (Nat.ltb (numline s) row); [|discriminate].
    unfold csv_read. destruct usable; cbn [negb]; [|discriminate].
    destruct (io_fails s); [discriminate|].
    destruct (Nat.eqb (lines_left s) 0) eqn:E0; [discriminate|].
    apply Nat.eqb_neq in E0. pose proof (span_ok s ltac:(lia)) as Hs.
    apply IH. cbn [lines_left]. lia.
  Qed.

  (* old loop, unusable delimiter: the line counter never moves: out of fuel for every fuel *)
  Lemma jump_to_old_spins : forall fuel s row, numline s < row ->
    jump_gen span io_fails false fuel false row s = JumpOutOfFuel.
  Proof.
    induction fuel as [|k IH]; intros s row Hlt; [reflexivity|].
    cbn [jump_gen]. assert (Nat.ltb (numline s) row = true) as -> by (apply Nat.ltb_lt; exact Hlt).
    unfold csv_read. cbn [negb]. apply IH. exact Hlt.
  Qed.
End JumpProofs.

(* old loop, usable delimiter, input failing persistently: one iteration per row to skip -- the
   number of iterations is the schema's row index, not bounded by the input *)
Lemma jump_to_old_fault_spins span : forall fuel s row, numline s + fuel <= row ->
  jump_gen span (fun _ => true) false fuel true row s = JumpOutOfFuel.
Proof.
  induction fuel as [|k IH]; intros s row Hlt; [reflexivity|].
  cbn [jump_gen]. assert (Nat.ltb (numline s) row = true) as -> by (apply Nat.ltb_lt; lia).
  unfold csv_read. cbn [negb]. apply IH. cbn [numline]. lia.
Qed.

Theorem csv_delim_progress_lemma :
  forall (d : bytes) (fmt : N), csv_accepts_delimiter fmt d = true ->
  stdcsv_delim_usable (fst (decode_rune d)) = true.
Proof.
  intros d fmt H. unfold csv_accepts_delimiter in H. destruct (N.eqb fmt 0);
    apply andb_true_iff in H as [_ H]; [apply csv_check_usable|apply csv2_check_usable]; exact H.
Qed.

(* depends on Gen/Safety.v: jumpTo as it is in the source now *)
Theorem csv_jump_terminates_lemma :
  forall span io_fails, (forall s, 0 < lines_left s -> 1 <= span s <= lines_left s) ->
  forall usable row s,
    jump_gen span io_fails csv_jumpto_fails_on_non_parse_error (lines_left s + 1) usable row s <> JumpOutOfFuel.
Proof. intros span io_fails Hs usable row s. apply jump_to_terminates; [exact Hs|lia]. Qed.

Lemma csv_delim_hang_old_refuted_lemma :
  (exists r : N, stdcsv_delim_usable r = false /\
    forall span io_fails fuel, jump_to_old span io_fails fuel (stdcsv_delim_usable r) 1 (mkCsv 0 3) = JumpOutOfFuel)
  /\ (forall span fuel row, fuel <= row -> jump_to_old span (fun _ => true) fuel true row (mkCsv 0 3) = JumpOutOfFuel)
  /\ jump_to (fun _ => 1) (fun _ => true) 4 true 4000 (mkCsv 0 3) = JumpFailed
  /\ jump_to (fun _ => 1) (fun _ => false) 4 false 2 (mkCsv 0 3) = JumpFailed.
Proof.
  split; [|split; [|split; reflexivity]].
  - exists 34%N. split; [reflexivity|]. intros span io_fails fuel.
    change (stdcsv_delim_usable 34) with false. apply jump_to_old_spins. simpl. lia.
  - intros span fuel row H. apply jump_to_old_fault_spins. simpl. lia.
Qed.
