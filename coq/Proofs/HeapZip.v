(* C12 bridge proofs, part 2: the addressed zipper, and the primitive actions of the stream
   readers (create-and-attach, cur = cur.Parent, remove the node closed last, set
   FormatSpecific): each meets the API preconditions, keeps the representation invariant, and
   does to the addressed zipper what the abstract reader model does to its zipper. *)
From Coq Require Import List NArith ZArith Bool Lia.
From stdpp Require Import pmap.
From OV Require Import Base.Bytes Base.Cases Base.Tree Model.Stream Model.Heap Model.HeapReaders
  Proofs.HeapIds Proofs.HeapTree Proofs.HeapOps Proofs.HeapPath Proofs.HeapRep Proofs.HeapRemove
  Proofs.Heap Proofs.HeapPay.
Import ListNotations.

(* ---- the zipper ------------------------------------------------------------------------------------ *)
Definition frame_addrs (f : aframe) : list addr := fst f :: flat_map addrs (snd f).
Definition frames_addrs (r : list aframe) : list addr := flat_map frame_addrs r.
Lemma frames_addrs_cons f r : frames_addrs (f :: r) = frame_addrs f ++ frames_addrs r.
Proof. reflexivity. Qed.

Lemma azip_some r : forall sub, exists t, azip r (Some sub) = Some t.
Proof. induction r as [|[a ks] r IH]; intros sub; simpl; eauto. Qed.

Lemma azip_cons_none a ks r : azip ((a, ks) :: r) None = azip r (Some (AT a ks)).
Proof. simpl. rewrite app_nil_r. reflexivity. Qed.

Lemma azip_addrs r : forall sub t,
  azip r (Some sub) = Some t -> addrs t ≡ₚ addrs sub ++ frames_addrs r.
Proof.
  induction r as [|[a ks] r IH]; intros sub t H; simpl in H.
  - inversion H; subst. simpl. rewrite app_nil_r. reflexivity.
  - rewrite (IH _ _ H). unfold frames_addrs. simpl. unfold frame_addrs at 1. simpl.
    rewrite flat_map_app. simpl. rewrite app_nil_r.
    rewrite <- Permutation_middle. constructor.
    rewrite !app_assoc. apply Permutation_app_tail. apply Permutation_app_comm.
Qed.

Lemma azip_root r : forall sub t, azip r (Some sub) = Some t ->
  root t = match rev r with [] => root sub | f :: _ => fst f end.
Proof.
  induction r as [|[a ks] r IH]; intros sub t H; simpl in H.
  - inversion H. reflexivity.
  - rewrite (IH _ _ H). simpl. destruct (rev r) as [|f r']; reflexivity.
Qed.

Lemma azip_map (g : atree -> atree) r :
  (forall a ks sub, In (a, ks) r -> g (AT a (ks ++ [sub])) = AT a (ks ++ [g sub])) ->
  forall sub, option_map g (azip r (Some sub)) = azip r (Some (g sub)).
Proof.
  induction r as [|[a ks] r IH]; intros Hg sub; simpl; [reflexivity|].
  rewrite IH; [|intros a' ks' s' Hin; apply Hg; right; exact Hin].
  rewrite Hg; [reflexivity|left; reflexivity].
Qed.

Lemma In_frames_addrs a ks r : In (a, ks) r ->
  forall b, b = a \/ b ∈ flat_map addrs ks -> b ∈ frames_addrs r.
Proof.
  intros Hin b Hb. apply elem_of_flat_map. exists (a, ks). split; [apply elem_of_list_In; exact Hin|].
  unfold frame_addrs. simpl. apply elem_of_cons. exact Hb.
Qed.

Lemma graft_azip c tn r sub :
  c ∉ frames_addrs r ->
  option_map (graft_t c tn) (azip r (Some sub)) = azip r (Some (graft_t c tn sub)).
Proof.
  intros Hc. apply azip_map. intros a ks s Hin. simpl.
  destruct (Pos.eqb_spec a c) as [->|Hne].
  - exfalso. apply Hc. eapply In_frames_addrs; eauto.
  - rewrite map_app. simpl. f_equal. f_equal. apply map_id_on. intros k Hk. apply graft_t_id.
    intros Hck. apply Hc. eapply In_frames_addrs; eauto. right. apply elem_of_flat_map. eauto.
Qed.

Lemma prune_azip x r : forall sub,
  x ∉ frames_addrs r -> root sub <> x ->
  option_map (prune_t x) (azip r (Some sub)) = azip r (Some (prune_t x sub)).
Proof.
  induction r as [|[a ks] r IH]; intros sub Hx Hr; simpl; [reflexivity|].
  assert (Hxa : x <> a).
  { intros ->. apply Hx. simpl. unfold frame_addrs. simpl. apply elem_of_cons. auto. }
  assert (Hxks : x ∉ flat_map addrs ks).
  { intros Hin. apply Hx. simpl. apply elem_of_cons. right. apply elem_of_app. auto. }
  rewrite IH; [|intros Hin; apply Hx; simpl; apply elem_of_cons; right; apply elem_of_app; auto|simpl; congruence].
  f_equal. f_equal. simpl. f_equal. rewrite map_app. simpl.
  rewrite (map_id_on (prune_t x) ks).
  - rewrite filter_app'. simpl. rewrite root_prune_t.
    destruct (Pos.eqb_spec (root sub) x) as [E|E]; [contradiction|]. simpl.
    f_equal. apply filter_id. intros k Hk. destruct (Pos.eqb_spec (root k) x) as [E'|E']; [|reflexivity].
    exfalso. apply Hxks. apply elem_of_flat_map. exists k. split; [auto|]. rewrite <- E'. apply root_in.
  - intros k Hk. apply prune_t_id. intros Hin. apply Hxks. apply elem_of_flat_map. eauto.
Qed.

Lemma prune_t_last x p ks tx :
  root tx = x -> x ∉ flat_map addrs ks -> prune_t x (AT p (ks ++ [tx])) = AT p ks.
Proof.
  intros Hr Hx. simpl. f_equal. rewrite map_app. simpl.
  rewrite (map_id_on (prune_t x) ks).
  - rewrite filter_app'. simpl. rewrite root_prune_t, Hr, Pos.eqb_refl. simpl. rewrite app_nil_r.
    apply filter_id. intros k Hk. destruct (Pos.eqb_spec (root k) x) as [E'|E']; [|reflexivity].
    exfalso. apply Hx. apply elem_of_flat_map. exists k. split; [auto|]. rewrite <- E'. apply root_in.
  - intros k Hk. apply prune_t_id. intros Hin. apply Hx. apply elem_of_flat_map. eauto.
Qed.

(* ---- forests with an untouched environment ---------------------------------------------------------- *)
Lemma find_root_last n env t :
  n ∉ addrs_f env -> root t = n -> find_root n (env ++ [t]) = Some t.
Proof.
  intros Hn Hr. induction env as [|e env IH]; simpl.
  - rewrite Hr, Pos.eqb_refl. reflexivity.
  - destruct (Pos.eqb_spec (root e) n) as [E|E].
    + exfalso. apply Hn. simpl. apply elem_of_app. left. rewrite <- E. apply root_in.
    + apply IH. intros Hin. apply Hn. simpl. apply elem_of_app. auto.
Qed.

Lemma drop_root_last n env t :
  n ∉ addrs_f env -> root t = n -> drop_root n (env ++ [t]) = env.
Proof.
  intros Hn Hr. unfold drop_root. rewrite filter_app'. simpl. rewrite Hr, Pos.eqb_refl. simpl. rewrite app_nil_r.
  apply filter_id. intros e He. destruct (Pos.eqb_spec (root e) n) as [E|E]; [|reflexivity].
  exfalso. apply Hn. eapply addrs_f_in; [exact He|]. rewrite <- E. apply root_in.
Qed.

Lemma graft_env c n env t :
  n ∉ addrs_f (env ++ [t]) -> c ∉ addrs_f env ->
  graft c n ((env ++ [t]) ++ [AT n []]) = env ++ [graft_t c (AT n []) t].
Proof.
  intros Hn Hc. unfold graft. rewrite (find_root_last n (env ++ [t]) (AT n []) Hn eq_refl).
  rewrite (drop_root_last n (env ++ [t]) (AT n []) Hn eq_refl). rewrite map_app. simpl. f_equal.
  apply map_id_on. intros e He. apply graft_t_id. intros Hin. apply Hc. eapply addrs_f_in; eauto.
Qed.

Lemma prune_env_root x env t :
  x ∉ addrs_f env -> root t = x -> prune x (env ++ [t]) = env.
Proof.
  intros Hx Hr. unfold prune. rewrite (drop_root_last x env t Hx Hr).
  apply map_id_on. intros e He. apply prune_t_id. intros Hin. apply Hx. eapply addrs_f_in; eauto.
Qed.

Lemma prune_env_inner x env t :
  x ∉ addrs_f env -> root t <> x -> prune x (env ++ [t]) = env ++ [prune_t x t].
Proof.
  intros Hx Hr. unfold prune. rewrite drop_root_none.
  - rewrite map_app. simpl. f_equal. apply map_id_on. intros e He. apply prune_t_id.
    intros Hin. apply Hx. eapply addrs_f_in; eauto.
  - intros e He. apply elem_of_app in He as [He|He].
    + intros E. apply Hx. eapply addrs_f_in; [exact He|]. rewrite <- E. apply root_in.
    + apply elem_of_list_singleton in He. subst e. exact Hr.
Qed.

(* ---- machines ------------------------------------------------------------------------------------------- *)
Definition good (caching : bool) (m : mach) : Prop :=
  Rep caching (m_s m) (m_F m) /\ AcqInv (m_s m) (m_acq m).

Definition legal (caching : bool) (choose : st -> choice) : Prop :=
  forall s, match choose s with Fresh => True | FromPool a => caching = true /\ a ∈ pool s end.

Lemma do_op_ok caching m o :
  good caching m -> pre_b caching (m_s m) (m_F m) o = true ->
  exists m1 ret, do_op caching m o = Some (m1, ret) /\ good caching m1 /\
    step caching (m_s m) o = Ok (m_s m1, ret) /\
    m_F m1 = aeffect (m_s m) (m_F m) o /\ m_log m1 = m_log m ++ [o].
Proof.
  intros [HR HA] Hpre. destruct (step_preserves caching _ _ _ o HR HA Hpre) as (s' & ret & Hstep & HR' & HA').
  unfold do_op. rewrite Hpre, Hstep. eexists. eexists. split; [reflexivity|]. simpl.
  split; [split; [exact HR'|exact HA']|auto].
Qed.

Lemma legal_pre caching choose s F ty d fs :
  legal caching choose -> pre_b caching s F (OCreate (choose s) ty d fs) = true.
Proof.
  intros HL. specialize (HL s). simpl. destruct (choose s) as [|a]; [reflexivity|].
  destruct HL as [-> Ha]. simpl. apply mem_spec. exact Ha.
Qed.

Lemma do_create caching choose m ty d fs :
  legal caching choose -> good caching m ->
  exists m1 n id, do_op caching m (OCreate (choose (m_s m)) ty d fs) = Some (m1, Some n) /\
    good caching m1 /\ m_F m1 = m_F m ++ [AT n []] /\ n ∉ addrs_f (m_F m) /\
    m_log m1 = m_log m ++ [OCreate (choose (m_s m)) ty d fs] /\
    heap (m_s m1) !! n = Some (mkNode id None None None None None ty d fs) /\
    (forall b, b <> n -> heap (m_s m1) !! b = heap (m_s m) !! b).
Proof.
  intros HL Hg.
  destruct (do_op_ok caching m _ Hg (legal_pre caching choose (m_s m) (m_F m) ty d fs HL))
    as (m1 & ret & Hdo & Hg1 & Hstep & HF & Hlog).
  pose proof Hg as [HR HA]. specialize (HL (m_s m)).
  simpl in Hstep. simpl in HF.
  destruct (choose (m_s m)) as [|a] eqn:Ec.
  - rewrite create_fresh_eq in Hstep. simpl in Hstep. inversion Hstep as [[Hs Hret]]. subst ret.
    exists m1, (next_addr (m_s m)), (next_id (m_s m) + 1)%Z. rewrite Hdo, HF, Hlog, <- Hs. simpl.
    split; [reflexivity|split; [exact Hg1|split; [reflexivity|split; [|split; [reflexivity|split]]]]].
    + intros Hin. pose proof (R_bound _ _ _ HR _ (proj2 (elem_of_app _ _ _) (or_introl Hin))). lia.
    + apply lookup_insert.
    + intros b Hb. apply lookup_insert_ne. congruence.
  - destruct HL as [-> Ha].
    destruct (remove1_some _ _ Ha) as [p' Hp']. destruct (R_blank _ _ _ HR a Ha) as [id Hid].
    rewrite (create_pool_eq _ _ _ _ _ _ _ Hp' Hid) in Hstep. simpl in Hstep. inversion Hstep as [[Hs Hret]]. subst ret.
    exists m1, a, id. rewrite Hdo, HF, Hlog, <- Hs. simpl.
    split; [reflexivity|split; [exact Hg1|split; [reflexivity|split; [|split; [reflexivity|split]]]]].
    + intros Hin. pose proof (R_nodup _ _ _ HR) as Hnd. apply NoDup_app in Hnd as (_ & Hd & _). exact (Hd a Hin Ha).
    + apply lookup_insert.
    + intros b Hb. apply lookup_insert_ne. congruence.
Qed.

(* ---- the simulation relation -------------------------------------------------------------------------------- *)
Definition node_pay (h : heapT) (a : addr) (ty : ntype) (d : bytes) (fs : fspec) : Prop :=
  opay (h !! a) = Some (N_of_ntype ty, d, fs).

Definition frame_sim (h : heapT) (f : frame) (af : aframe) : Prop :=
  node_pay h (fst af) (f_ty f) (f_data f) (f_fs f) /\ payloads h (snd af) = Some (f_kids f).

Definition sim (st : Stream.state) (r : rd) : Prop :=
  let h := heap (m_s (r_m r)) in
  Forall2 (frame_sim h) (s_stack st) (r_stack r) /\
  (r_stack r = [] ->
     match r_done r with
     | Some ta => exists t, s_done st = Some t /\ payload h ta = Some t
     | None => s_done st = None
     end) /\
  (r_stack r <> [] -> r_done r = None).

Definition wf (r : rd) : Prop := m_F (r_m r) = r_forest r.

Lemma ntype_roundtrip ty : ntype_of_N (N_of_ntype ty) = Some ty.
Proof. destruct ty; reflexivity. Qed.

Lemma payload_node h a ks ty d fs ts :
  node_pay h a ty d fs -> payloads h ks = Some ts -> payload h (AT a ks) = Some (T ty d fs ts).
Proof.
  unfold node_pay. intros Hn Hk. rewrite payload_unfold. destruct (h !! a) as [x|]; [|discriminate].
  simpl in Hn. inversion Hn as [[E1 E2 E3]]. rewrite E1, ntype_roundtrip, Hk. reflexivity.
Qed.

Lemma payloads_app h l1 l2 t1 t2 :
  payloads h l1 = Some t1 -> payloads h l2 = Some t2 -> payloads h (l1 ++ l2) = Some (t1 ++ t2).
Proof.
  revert t1. induction l1 as [|k r IH]; intros t1 H1 H2; simpl in *.
  - inversion H1. exact H2.
  - destruct (payload h k); [|discriminate]. destruct (payloads h r) as [ts|] eqn:E; [|discriminate].
    inversion H1; subst. rewrite (IH ts eq_refl H2). reflexivity.
Qed.

Lemma payloads_pres h h' l :
  (forall a, a ∈ flat_map addrs l -> opay (h' !! a) = opay (h !! a)) -> payloads h' l = payloads h l.
Proof.
  induction l as [|k r IH]; intros Hp; [reflexivity|]. simpl.
  rewrite (payload_pres h h' k); [|intros a Ha; apply Hp; simpl; apply elem_of_app; auto].
  rewrite IH; [reflexivity|]. intros a Ha. apply Hp. simpl. apply elem_of_app. auto.
Qed.

Lemma frame_sim_pres h h' f af :
  (forall a, a ∈ frame_addrs af -> opay (h' !! a) = opay (h !! a)) -> frame_sim h f af -> frame_sim h' f af.
Proof.
  intros Hp [H1 H2]. split.
  - unfold node_pay. rewrite Hp; [exact H1|]. unfold frame_addrs. apply elem_of_cons. auto.
  - rewrite (payloads_pres h h'); [exact H2|]. intros a Ha. apply Hp. unfold frame_addrs. apply elem_of_cons. auto.
Qed.

Lemma stack_sim_pres h h' fs afs :
  (forall a, a ∈ frames_addrs afs -> opay (h' !! a) = opay (h !! a)) ->
  Forall2 (frame_sim h) fs afs -> Forall2 (frame_sim h') fs afs.
Proof.
  intros Hp H. induction H as [|f af fs afs Hf Hr IH]; constructor.
  - eapply frame_sim_pres; [|exact Hf]. intros a Ha. apply Hp. rewrite frames_addrs_cons. apply elem_of_app. auto.
  - apply IH. intros a Ha. apply Hp. rewrite frames_addrs_cons. apply elem_of_app. auto.
Qed.

(* addresses of the reader's tree *)
Lemma r_tree_addrs r t :
  r_stack r <> [] -> r_tree r = Some t -> addrs t ≡ₚ frames_addrs (r_stack r).
Proof.
  unfold r_tree. destruct (r_stack r) as [|[a ks] up] eqn:E; [congruence|]. intros _ H.
  rewrite azip_cons_none in H. rewrite (azip_addrs _ _ _ H). rewrite frames_addrs_cons. reflexivity.
Qed.

Lemma r_tree_some r : r_stack r <> [] -> exists t, r_tree r = Some t.
Proof.
  unfold r_tree. destruct (r_stack r) as [|[a ks] up]; [congruence|]. intros _.
  rewrite azip_cons_none. apply azip_some.
Qed.
