(* C07 proofs: UTF-8 sequences ("units") the way Go's utf8.DecodeRune cuts a byte string, and the
   facts about them the rune-wise encoder needs. *)
From Coq Require Import List NArith Bool Arith Lia.
From Coq.Strings Require Import Byte.
Import ListNotations.
From OV Require Import Base.Bytes Base.Cases Base.Utf8 Model.Edi Proofs.Edi.

Local Open Scope N_scope.

(* a continuation byte 0x80..0xBF *)
Definition is_cont (b : byte) : Prop := 128 <= b2n b <= 191.

(* a successful decode depends only on the bytes it consumes *)
Lemma decode_prefix s r n : decode_rune s = (r, n) -> ((1 < n)%nat \/ r <> RuneError) ->
  forall w, decode_rune (firstn n s ++ w) = (r, n).
Proof.
  intros Hd Hv w. destruct s as [|b0 rest].
  { simpl in Hd. inversion Hd; subst. destruct Hv as [Hv|Hv]; [lia|congruence]. }
  revert Hd. unfold decode_rune.
  assert (HRE : (RuneError, 1%nat) = (r, n) -> False).
  { intro Hk. inversion Hk; subst. destruct Hv as [Hv|Hv]; [lia|congruence]. }
  destruct (b2n b0 <? 128) eqn:E1.
  { intro Hd. inversion Hd; subst. cbn [firstn app]. rewrite E1. reflexivity. }
  destruct (b2n b0 <? 194) eqn:E2; [intro Hd; exfalso; apply HRE; exact Hd|].
  destruct (b2n b0 <? 224) eqn:E3.
  { destruct rest as [|b1 rest]; [intro Hd; exfalso; apply HRE; exact Hd|].
    destruct (in_range 128 191 b1) eqn:R1; [|intro Hd; exfalso; apply HRE; exact Hd].
    intro Hd. inversion Hd; subst. cbn [firstn app]. rewrite E1, E2, E3, R1. reflexivity. }
  destruct (b2n b0 <? 240) eqn:E4.
  { destruct rest as [|b1 [|b2 rest]]; try (intro Hd; exfalso; apply HRE; exact Hd).
    match goal with |- (if ?cnd then _ else _) = _ -> _ => destruct cnd eqn:R end;
      [|intro Hd; exfalso; apply HRE; exact Hd].
    intro Hd. inversion Hd; subst. cbn [firstn app]. rewrite E1, E2, E3, E4, R. reflexivity. }
  destruct (b2n b0 <? 245) eqn:E5; [|intro Hd; exfalso; apply HRE; exact Hd].
  destruct rest as [|b1 [|b2 [|b3 rest]]]; try (intro Hd; exfalso; apply HRE; exact Hd).
  match goal with |- (if ?cnd then _ else _) = _ -> _ => destruct cnd eqn:R end;
    [|intro Hd; exfalso; apply HRE; exact Hd].
  intro Hd. inversion Hd; subst. cbn [firstn app]. rewrite E1, E2, E3, E4, E5, R. reflexivity.
Qed.

(* a string that starts with a continuation byte (or 0xC0/0xC1) decodes to (RuneError, 1) *)
Lemma decode_cont b s : is_cont b -> decode_rune (b :: s) = (RuneError, 1%nat).
Proof.
  unfold is_cont, decode_rune. intro Hc.
  assert (b2n b <? 128 = false) as -> by (apply N.ltb_ge; lia).
  assert (b2n b <? 194 = true) as -> by (apply N.ltb_lt; lia). reflexivity.
Qed.

(* the first byte of a string whose first rune decodes is not a continuation byte *)
Lemma decode_ok_not_cont b s : fst (decode_rune (b :: s)) <> RuneError -> ~ is_cont b.
Proof. intros Hd Hc. rewrite (decode_cont b s Hc) in Hd. apply Hd. reflexivity. Qed.

Lemma decode_multi_cont b0 r x n : decode_rune (b0 :: r) = (x, n) -> (1 < n)%nat ->
  194 <= b2n b0 /\ forall k, (k < n - 1)%nat -> exists c, nth_error r k = Some c /\ is_cont c.
Proof. apply decode_rune_multi. Qed.
Local Close Scope N_scope.

Lemma in_firstn_nth {A} (l : list A) m y : In y (firstn m l) -> exists k, k < m /\ nth_error l k = Some y.
Proof.
  revert l; induction m as [|m IH]; intros l Hin; [destruct Hin|].
  destruct l as [|a l]; [destruct Hin|]. cbn [firstn] in Hin. destruct Hin as [->|Hin].
  - exists 0. split; [lia|reflexivity].
  - destruct (IH l Hin) as (k & Hk & Hn). exists (S k). split; [lia|exact Hn].
Qed.

Lemma in_skipn {A} (l : list A) m y : In y (skipn m l) -> In y l.
Proof.
  revert l; induction m as [|m IH]; intros l Hin; [exact Hin|].
  destruct l; [destruct Hin|]. right. apply IH. exact Hin.
Qed.

(* ---- units ---------------------------------------------------------------------------------------- *)
(* [units_ok us]: us is the way Go cuts concat us into UTF-8 sequences *)
Fixpoint units_ok (us : list bytes) : Prop :=
  match us with
  | [] => True
  | u :: r => u <> [] /\ snd (decode_rune (u ++ concat r)) = length u /\ units_ok r
  end.

Lemma explode_fuel_ok : forall k s, length s <= k ->
  units_ok (explode_fuel k s) /\ concat (explode_fuel k s) = s.
Proof.
  induction k as [|k IH]; intros s Hk.
  - destruct s; [simpl; auto|simpl in Hk; lia].
  - destruct s as [|b s']; [simpl; auto|]. cbn [explode_fuel].
    destruct (decode_rune (b :: s')) as [r n] eqn:Ed.
    assert (Hne : b :: s' <> []) by discriminate.
    pose proof (decode_rune_size _ Hne) as Hsz. rewrite Ed in Hsz. cbn [snd] in Hsz.
    destruct (IH (skipn n (b :: s'))) as [Hok Hcat].
    { rewrite skipn_length. simpl length in *. lia. }
    cbn [units_ok concat]. rewrite Hcat, firstn_skipn, Ed. cbn [snd].
    split; [|reflexivity]. split; [|split; [|exact Hok]].
    + destruct n; [lia|]. discriminate.
    + rewrite firstn_length. lia.
Qed.

Lemma explode_ok d : units_ok (explode d) /\ concat (explode d) = d.
Proof. apply explode_fuel_ok. lia. Qed.

Lemma units_ok_app_r us1 us2 : units_ok (us1 ++ us2) -> units_ok us2.
Proof. induction us1 as [|u us1 IH]; [auto|]. intros (_ & _ & H). apply IH. exact H. Qed.

(* bytes of a unit after the first are continuation bytes *)
Lemma unit_tail_cont u r b ut : units_ok (u :: r) -> u = b :: ut -> forall x, In x ut -> is_cont x.
Proof.
  intros (_ & Hsz & _) -> x Hin.
  destruct (decode_rune ((b :: ut) ++ concat r)) as [rr n] eqn:Ed. cbn [snd] in Hsz. subst n.
  destruct ut as [|y ut']; [destruct Hin|].
  cbn [app] in Ed. destruct (decode_multi_cont _ _ _ _ Ed) as [_ Hc]; [simpl; lia|].
  apply In_nth_error in Hin as [k Hk].
  assert (k < length (y :: ut')) as Hlt by (apply nth_error_Some; congruence).
  destruct (Hc k) as (c' & Hc1 & Hc2); [simpl in *; lia|].
  change (y :: ut' ++ concat r) with ((y :: ut') ++ concat r) in Hc1.
  rewrite nth_error_app1 in Hc1 by exact Hlt. congruence.
Qed.

(* a unit that starts with a continuation byte is that byte alone *)
Lemma unit_cont_single u r b ut : units_ok (u :: r) -> u = b :: ut -> is_cont b -> ut = [].
Proof.
  intros (_ & Hsz & _) -> Hc. cbn [app] in Hsz. rewrite (decode_cont b _ Hc) in Hsz. cbn [snd] in Hsz.
  destruct ut; [reflexivity|simpl in Hsz; lia].
Qed.

(* ---- with ASCII first bytes the rune-wise encoder is the byte-wise one ------------------------------- *)
Lemma cont_not_ascii b : is_cont b -> ~ ascii_byte b.
Proof. unfold is_cont, ascii_byte. lia. Qed.

Lemma escape_b_app hs rel a b : escape_b hs rel (a ++ b) = escape_b hs rel a ++ escape_b hs rel b.
Proof. unfold escape_b. apply flat_map_app. Qed.

Lemma enc_units_ascii hs rel : Forall ascii_byte hs -> forall us, units_ok us ->
  enc_units hs rel us = escape_b hs rel (concat us).
Proof.
  intros Ha. induction us as [|w r IH]; intro Hok; [reflexivity|].
  pose proof Hok as (Hne & Hsz & Hr). cbn [concat]. rewrite escape_b_app, <- (IH Hr).
  unfold enc_units at 1. cbn [flat_map]. f_equal.
  destruct w as [|w0 wt]; [congruence|].
  assert (Htail : escape_b hs rel wt = wt).
  { assert (Hc : forall x, In x wt -> is_cont x) by (apply (unit_tail_cont (w0 :: wt) r w0 wt Hok eq_refl)).
    clear -Hc Ha. induction wt as [|y wt IH]; [reflexivity|]. unfold escape_b in *. cbn [flat_map].
    destruct (is_head hs y) eqn:Ey.
    - exfalso. apply is_head_In in Ey. rewrite Forall_forall in Ha.
      apply (cont_not_ascii y); [apply Hc; left; reflexivity|apply Ha; exact Ey].
    - cbn [app]. f_equal. apply IH. intros x Hx. apply Hc. right. exact Hx. }
  change (escape_b hs rel (w0 :: wt)) with ((if is_head hs w0 then rel ++ [w0] else [w0]) ++ escape_b hs rel wt).
  rewrite Htail. unfold escapable. destruct (is_head hs w0) eqn:Ew.
  - apply is_head_In in Ew. rewrite Forall_forall in Ha. pose proof (Ha w0 Ew) as Hw0.
    cbn [app] in Hsz. rewrite (decode_rune_ascii w0 _ Hw0) in Hsz. cbn [snd] in Hsz.
    destruct wt; [|simpl in Hsz; lia]. rewrite (decode_rune_ascii w0 [] Hw0). cbn [fst].
    assert (N.eqb (b2n w0) RuneError = false) as ->.
    { apply N.eqb_neq. unfold ascii_byte, RuneError in *. lia. }
    cbn [negb andb]. rewrite <- app_assoc. reflexivity.
  - rewrite andb_false_r. reflexivity.
Qed.

(* escape_ascii: when the first bytes are ASCII, escaping rune by rune is escaping byte by byte *)
Lemma escape_ascii hs rel d : Forall ascii_byte hs -> escape hs rel d = escape_b hs rel d.
Proof.
  intro Ha. destruct (explode_ok d) as [Hok Hcat]. unfold escape.
  rewrite (enc_units_ascii hs rel Ha _ Hok), Hcat. reflexivity.
Qed.
