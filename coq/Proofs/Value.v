(* C02 proofs, layer 1: laws of normalisation (Model/Value.v). *)
From Coq Require Import String List ZArith NArith Bool Lia.
From Coq.Strings Require Import Byte.
Import ListNotations.
From OV Require Import Base.Bytes Base.Cases Gen.Conv Model.Value.

(* non-string values are unaffected by no_trim *)
Lemma normalize_notrim_nonstring : forall keep rt v nt nt',
  (forall s, v <> VStr s) -> normalize nt keep rt v = normalize nt' keep rt v.
Proof.
  intros keep rt v nt nt' Hns. destruct v; try reflexivity. exfalso. apply (Hns s). reflexivity.
Qed.

(* ---- a saved value is never nil / empty unless keep_empty_or_null ----------------------------- *)
Lemma check_to_save_nonempty v v' : check_to_save false v = NSave v' -> v' = v /\ is_nil v = false /\ is_empty v = false.
Proof.
  unfold check_to_save. destruct (is_nil v) eqn:N, (is_empty v) eqn:E; simpl; intro H; try discriminate.
  injection H as <-. auto.
Qed.

Lemma normalize_nonempty nt rt v v' :
  normalize nt false rt v = NSave v' -> is_nil v' = false /\ is_empty v' = false.
Proof.
  unfold normalize.
  set (v1 := match v with VStr s => if nt then v else VStr (trim_space s) | _ => v end).
  destruct v1 eqn:E1; destruct rt as [t|];
    try (intro H; apply check_to_save_nonempty in H as (-> & ? & ?); auto; fail);
    (destruct (convert _ t) as [c|]; [|discriminate]);
    intro H; apply check_to_save_nonempty in H as (-> & ? & ?); auto.
Qed.

(* ---- a cast result has the requested kind (or the evaluation fails) ---------------------------- *)
Definition has_rtype (t : rtype) (v : value) : Prop :=
  match t, v with
  | RInt, VInt _ | RFloat, VFloat _ | RBoolean, VBool _ | RString, VStr _ => True
  | _, _ => False
  end.

Lemma convert_kind v t c : convert v t = Some c -> has_rtype t c.
Proof.
  unfold convert. destruct v, t; cbn; try discriminate;
    try (intro H; injection H as <-; exact I);
    try (destruct (parse_int s); cbn; [intro H; injection H as <-; exact I|discriminate]);
    try (destruct (parse_float s); cbn; [intro H; injection H as <-; exact I|discriminate]);
    try (destruct (parse_bool s); cbn; [intro H; injection H as <-; exact I|discriminate]).
Qed.

Lemma check_to_save_same keep v v' : check_to_save keep v = NSave v' -> v' = v.
Proof.
  unfold check_to_save. destruct (_ && _); [intro H; injection H as <-; reflexivity|].
  destruct keep; [intro H; injection H as <-; reflexivity|discriminate].
Qed.

Lemma normalize_cast nt keep t v v' :
  normalize nt keep (Some t) v = NSave v' -> v' = VNil \/ has_rtype t v'.
Proof.
  unfold normalize.
  set (v1 := match v with VStr s => if nt then v else VStr (trim_space s) | _ => v end).
  destruct v1 eqn:E1;
    try (intro H; apply check_to_save_same in H; left; exact H);
    (destruct (convert _ t) as [c|] eqn:C; [|discriminate]);
    intro H; apply check_to_save_same in H; subst v'; right; eapply convert_kind; eauto.
Qed.

(* ---- strings are trimmed unless no_trim ---------------------------------------------------------- *)
Lemma strip_prefix_length e s t : strip_prefix e s = Some t -> length s = length e + length t.
Proof.
  revert s. induction e as [|x e IH]; intros s; simpl.
  - intro H. injection H as <-. reflexivity.
  - destruct s as [|y s]; [discriminate|]. destruct (Byte.eqb x y); [|discriminate].
    intro H. apply IH in H. simpl. lia.
Qed.

Lemma strip_prefix_app e a b t : strip_prefix e a = Some t -> strip_prefix e (a ++ b) = Some (t ++ b).
Proof.
  revert a. induction e as [|x e IH]; intros a; simpl.
  - intro H. injection H as <-. reflexivity.
  - destruct a as [|y a]; [discriminate|]. simpl. destruct (Byte.eqb x y); [apply IH|discriminate].
Qed.

Lemma strip_any_none encs s : strip_any encs s = None <-> Forall (fun e => strip_prefix e s = None) encs.
Proof.
  induction encs as [|e r IH]; simpl.
  - split; [constructor|reflexivity].
  - destruct (strip_prefix e s) eqn:E.
    + split; [discriminate|]. intro H. inversion H; congruence.
    + rewrite IH. split; [intro H; constructor; assumption|intro H; inversion H; assumption].
Qed.

Lemma strip_any_shorter encs s t :
  Forall (fun e => e <> []) encs -> strip_any encs s = Some t -> length t < length s.
Proof.
  induction 1 as [|e r He _ IH]; simpl; [discriminate|].
  destruct (strip_prefix e s) eqn:E.
  - intro H. injection H as <-. apply strip_prefix_length in E. destruct e; [congruence|simpl in E; lia].
  - exact IH.
Qed.

Lemma strip_any_app_none encs a b : strip_any encs (a ++ b) = None -> strip_any encs a = None.
Proof.
  rewrite !strip_any_none. intro H. eapply Forall_impl; [|exact H]. simpl. intros e He.
  destruct (strip_prefix e a) eqn:E; [|reflexivity]. rewrite (strip_prefix_app _ _ b _ E) in He. discriminate.
Qed.

(* trimming reaches a fixpoint within [length s] steps and returns a suffix *)
Lemma trim_left_with_spec encs : Forall (fun e => e <> []) encs ->
  forall n s, length s <= n ->
  strip_any encs (trim_left_with encs n s) = None /\ exists pre, s = pre ++ trim_left_with encs n s.
Proof.
  intros Hne. induction n as [|n IH]; intros s Hl.
  - destruct s; [|simpl in Hl; lia]. simpl. split; [|exists []; reflexivity].
    apply strip_any_none. apply Forall_forall. intros e He. rewrite Forall_forall in Hne.
    destruct e; [exfalso; eapply Hne; eauto|reflexivity].
  - simpl. destruct (strip_any encs s) as [t|] eqn:E.
    + pose proof (strip_any_shorter _ _ _ Hne E) as Hlt.
      destruct (IH t ltac:(lia)) as [H1 [pre H2]]. split; [exact H1|].
      (* s = e ++ t for the encoding that matched *)
      assert (exists e, s = e ++ t) as [e ->].
      { clear - E. induction encs as [|e r IHr]; simpl in E; [discriminate|].
        destruct (strip_prefix e s) eqn:P.
        - injection E as <-. exists e. clear - P. revert s P. induction e as [|x e IHe]; intros s P; simpl in P.
          + injection P as <-. reflexivity.
          + destruct s as [|y s]; [discriminate|]. destruct (Byte.eqb x y) eqn:B; [|discriminate].
            apply Byte.byte_dec_bl in B. subst. simpl. f_equal. apply IHe. exact P.
        - apply IHr. exact E. }
      exists (e ++ pre). rewrite <- app_assoc. f_equal. exact H2.
    + split; [exact E|exists []; reflexivity].
Qed.

Definition ws_rev : list bytes := map (@rev byte) ws_encodings.

Lemma ws_nonempty : Forall (fun e : bytes => e <> []) ws_encodings.
Proof. repeat constructor; discriminate. Qed.
Lemma ws_rev_nonempty : Forall (fun e : bytes => e <> []) ws_rev.
Proof. repeat constructor; discriminate. Qed.

(* no leading and no trailing unicode.IsSpace rune *)
Definition trimmed (s : bytes) : Prop :=
  strip_any ws_encodings s = None /\ strip_any ws_rev (rev s) = None.

Lemma trim_space_trimmed s : trimmed (trim_space s).
Proof.
  unfold trim_space, trim_right, trim_left. fold ws_rev.
  destruct (trim_left_with_spec _ ws_nonempty (length s) s (le_n _)) as [HL _].
  set (u := trim_left_with ws_encodings (length s) s) in *.
  destruct (trim_left_with_spec _ ws_rev_nonempty (length u) (rev u) ltac:(rewrite rev_length; lia)) as [HR [pre Hpre]].
  set (w := trim_left_with ws_rev (length u) (rev u)) in *.
  split.
  - (* rev w is a prefix of u *)
    assert (Hu : u = rev w ++ rev pre).
    { rewrite <- rev_app_distr, <- Hpre, rev_involutive. reflexivity. }
    rewrite Hu in HL. eapply strip_any_app_none. exact HL.
  - rewrite rev_involutive. exact HR.
Qed.

(* the four laws together *)
Theorem normalize_laws :
  (* omitted unless keep_empty_or_null: a saved value is neither nil nor "" / [] / {} *)
  (forall nt rt v v', normalize nt false rt v = NSave v' -> is_nil v' = false /\ is_empty v' = false) /\
  (* strings are trimmed unless no_trim (before any cast; a string result without cast is trimmed) *)
  (forall keep s v', normalize false keep None (VStr s) = NSave v' -> v' = VStr (trim_space s) /\ trimmed (trim_space s)) /\
  (* with no_trim a string is passed on as it is *)
  (forall keep s v', normalize true keep None (VStr s) = NSave v' -> v' = VStr s) /\
  (* a cast result has the requested kind, otherwise the evaluation fails (NErr) or nothing is saved *)
  (forall nt keep t v v', normalize nt keep (Some t) v = NSave v' -> v' = VNil \/ has_rtype t v') /\
  (* non-string values are unaffected by no_trim *)
  (forall keep rt v nt nt', (forall s, v <> VStr s) -> normalize nt keep rt v = normalize nt' keep rt v).
Proof.
  split; [exact normalize_nonempty|].
  split.
  { intros keep s v' H. cbn in H. apply check_to_save_same in H. split; [exact H|apply trim_space_trimmed]. }
  split.
  { intros keep s v' H. cbn in H. apply check_to_save_same in H. exact H. }
  split; [exact normalize_cast|].
  intros. apply normalize_notrim_nonstring. assumption.
Qed.
