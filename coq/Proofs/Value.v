(* C02 proofs, layer 1: laws of normalisation (Model/Value.v). *)
From Coq Require Import String List ZArith NArith Bool Lia.
From Coq.Strings Require Import Byte.
Import ListNotations.
From OV Require Import Base.Bytes Base.Cases Gen.Conv Model.Value.

(* non-string values are unaffected by no_trim *)
Lemma normalize_notrim_nonstring : forall keep rt v nt nt',
  (forall s, v <> VStr s) -> normalize nt keep rt v = normalize nt' keep rt v.
Proof.
  intros keep rt v nt nt' Hns. destruct v; try reflexivity. exfalso. apply (Hns s). reflexivity.
Qed.
