(* C15, determinism across schema loads: validate.go validateObject appends the children of an
   object declaration in Go map iteration order (ANY permutation of the child set, different from
   load to load) and then sorts them with `<` on a key.  sort.Slice is modelled by what it
   guarantees: its result is a permutation of the input that is ordered by the key.  If the keys
   of the children are pairwise distinct (the full fqdn is: it contains the - escaped - field name,
   and JSON object keys are unique), the sorted list is a function of the child SET: every
   iteration order gives the same children order, hence the same evaluation order in parseObject.
   With a key that is not injective on the children (C15-r42: the text after the last '.') it is
   not: sort_order_refuted. *)
From Coq Require Import List NArith Bool Arith Lia Permutation Sorting.Sorted.
Import ListNotations.

Section Order.
  Variable A K : Type.
  Variable key : A -> K.
  Variable lt : K -> K -> Prop.               (* Go's < on strings: a strict total order *)
  Hypothesis lt_total : forall x y, lt x y \/ x = y \/ lt y x.

  (* what sort.Slice(l, less) returns: a permutation of l in which no element is `less` than an
     earlier one *)
  Definition sorted_by (l : list A) : Prop := StronglySorted (fun a b => ~ lt (key b) (key a)) l.
  Definition is_sort_of (l s : list A) : Prop := Permutation l s /\ sorted_by s.

  Lemma sorted_head_min a s : sorted_by (a :: s) -> forall b, In b s -> ~ lt (key b) (key a).
  Proof. intros H b Hb. inversion H; subst. rewrite Forall_forall in H3. auto. Qed.

  (* two sorted lists with pairwise distinct keys that are permutations of each other are equal *)
  Lemma sorted_perm_unique : forall s s',
    NoDup (map key s) -> Permutation s s' -> sorted_by s -> sorted_by s' -> s = s'.
  Proof.
    induction s as [|a s IH]; intros s' Hnd Hp Hs Hs'.
    - apply Permutation_nil in Hp. now subst.
    - destruct s' as [|b s']; [apply Permutation_sym, Permutation_nil in Hp; discriminate|].
      assert (Hab : a = b).
      { assert (Hb : In b (a :: s)) by (eapply Permutation_in; [apply Permutation_sym; exact Hp|now left]).
        assert (Ha : In a (b :: s')) by (eapply Permutation_in; [exact Hp|now left]).
        destruct Hb as [Hb|Hb]; [exact Hb|]. destruct Ha as [Ha|Ha]; [now symmetry|].
        (* b comes after a in s, and a comes after b in s': keys equal, contradiction with NoDup *)
        pose proof (sorted_head_min a s Hs b Hb) as H1.
        pose proof (sorted_head_min b s' Hs' a Ha) as H2.
        destruct (lt_total (key a) (key b)) as [L|[E|L]]; [contradiction| |contradiction].
        exfalso. simpl in Hnd. inversion Hnd; subst. apply H3. rewrite E. now apply in_map. }
      subst b. f_equal. apply IH.
      + simpl in Hnd. now inversion Hnd.
      + eapply Permutation_cons_inv; eauto.
      + now inversion Hs.
      + now inversion Hs'.
  Qed.

  (* the children order is a function of the child set: any two iteration orders of the Go map,
     sorted, give the same list *)
  Theorem sort_order_deterministic : forall l l' s s',
    NoDup (map key l) -> Permutation l l' -> is_sort_of l s -> is_sort_of l' s' -> s = s'.
  Proof.
    intros l l' s s' Hnd Hp [Hps Hs] [Hps' Hs'].
    apply sorted_perm_unique; auto.
    - eapply Permutation_NoDup; [|exact Hnd]. apply Permutation_map. exact Hps.
    - eapply Permutation_trans; [apply Permutation_sym; exact Hps|].
      eapply Permutation_trans; [exact Hp|exact Hps'].
  Qed.
End Order.

(* non-vacuity, and the refutation for a key that is not injective on the children *)
Definition nat_lt (a b : nat) : Prop := a < b.

Example sort_order_instance :
  is_sort_of nat nat (fun x => x) nat_lt [3; 1; 2] [1; 2; 3] /\
  is_sort_of nat nat (fun x => x) nat_lt [2; 3; 1] [1; 2; 3] /\ NoDup (map (fun x : nat => x) [3; 1; 2]).
Proof.
  assert (S : sorted_by nat nat (fun x => x) nat_lt [1; 2; 3]).
  { unfold sorted_by, nat_lt. repeat constructor; lia. }
  split; [split; [|exact S]|split; [split; [|exact S]|]].
  - apply Permutation_sym. apply perm_trans with [1; 3; 2]; [apply perm_skip, perm_swap|].
    apply perm_trans with [3; 1; 2]; [apply perm_swap|apply Permutation_refl].
  - apply perm_trans with [2; 1; 3]; [apply perm_skip, perm_swap|]. apply perm_swap.
  - repeat constructor; simpl; intuition lia.
Qed.

(* C15-r42 in miniature: the key keeps only the "last namelet" (here: the second component); two
   children with the same last namelet may stay in either order *)
Theorem sort_order_refuted :
  exists (l l' s s' : list (nat * nat)),
    Permutation l l' /\
    is_sort_of (nat * nat) nat snd nat_lt l s /\ is_sort_of (nat * nat) nat snd nat_lt l' s' /\ s <> s'.
Proof.
  exists [(1, 7); (2, 7)], [(2, 7); (1, 7)], [(1, 7); (2, 7)], [(2, 7); (1, 7)].
  split; [apply perm_swap|]. unfold is_sort_of, sorted_by, nat_lt.
  split; [split; [apply Permutation_refl|repeat constructor; simpl; lia]|].
  split; [split; [apply Permutation_refl|repeat constructor; simpl; lia]|discriminate].
Qed.
