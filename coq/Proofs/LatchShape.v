(* C01: the hand transcription Model.Latch.step is the interpretation of the statements extracted
   from transform.go (Gen/LatchShape.v), in every state and for every ingester. *)
From Coq Require Import List NArith Bool.
Import ListNotations.
From OV Require Import Base.Cases Base.ErrClass Model.Latch Gen.LatchShape Model.LatchShape Proofs.Latch.

Section ShapeProofs.
  Variable S : Type.
  Variable ing_step : S -> S * (option N * option N * option errv).
  Variable ing_cont : S -> errv -> bool.

  Notation step := (step S ing_step ing_cont).
  Notation run := (run S ing_step ing_cont).
  Notation read := (read S ing_step ing_cont).
  Notation src_step := (src_step S ing_step ing_cont).
  Notation src_run := (src_run S ing_step ing_cont).

  Lemma src_wrap_is_wrap e : src_wrap e = wrap_failed e.
  Proof. reflexivity. Qed.

  Lemma src_read_is_read st : src_step st OpRead = Some (read st).
  Proof.
    destruct st as [[le lr] s].
    unfold Model.LatchShape.src_step, Latch.read, Latch.do_read, read_prog.
    cbn -[is_failed wrap_failed src_wrap].
    destruct le as [e|]; cbn -[is_failed wrap_failed src_wrap].
    - destruct (is_failed e) eqn:Hf; cbn -[is_failed wrap_failed src_wrap]; [|reflexivity].
      destruct (ing_step s) as [s1 [[raw b] [e0|]]]; cbn -[is_failed wrap_failed src_wrap];
        [destruct (ing_cont s1 e0)|]; reflexivity.
    - destruct (ing_step s) as [s1 [[raw b] [e0|]]]; cbn -[is_failed wrap_failed src_wrap];
        [destruct (ing_cont s1 e0)|]; reflexivity.
  Qed.

  Lemma src_raw_is_raw st : src_step st OpRaw = Some (step st OpRaw).
  Proof.
    destruct st as [[le lr] s].
    unfold Model.LatchShape.src_step, Latch.step, Latch.rawrecord, rawrecord_prog.
    cbn [fst snd exec_list exec ev_c ev_e ev_b ev_r m_t m_s m_err m_raw m_bytes lastErr lastRaw].
    destruct le as [e|]; [reflexivity|].
    destruct lr as [r|]; reflexivity.
  Qed.

  (* One call: in every state, for every ingester result. *)
  Theorem step_is_source_shape st o : src_step st o = Some (step st o).
  Proof. destruct o; [apply src_read_is_read | apply src_raw_is_raw]. Qed.

  (* Every history. *)
  Theorem run_is_source_shape ops : forall st, src_run st ops = Some (run st ops).
  Proof.
    induction ops as [|o ops IH]; intro st; [reflexivity|].
    cbn [Model.LatchShape.src_run Latch.run]. rewrite step_is_source_shape.
    destruct (step st o) as [st1 x]. rewrite IH. destruct (run st1 ops). reflexivity.
  Qed.

  (* The contract, stated over what the extracted statements compute. *)
  Theorem src_trichotomy st ops r :
    src_run st ops = Some r ->
    Forall (fun o => match o with
                     | OutRaw _ => True
                     | _ => is_record o \/ is_failure o \/ exists e, is_terminal o e
                     end) (snd r).
  Proof.
    rewrite run_is_source_shape. intro H; inversion H; subst. apply latch_trichotomy.
  Qed.

  Theorem src_terminal_sticky st ops1 ops2 e st1 o1 st2 o :
    src_run st ops1 = Some (st1, o1) ->
    src_step st1 OpRead = Some (st2, o) -> is_terminal o e ->
    src_run st (ops1 ++ OpRead :: ops2) = Some (st2, o1 ++ o :: map (sticky_out e) ops2).
  Proof.
    rewrite !run_is_source_shape, step_is_source_shape. cbn [Latch.step].
    intros H1 H2 Ht. inversion H1 as [H1']. inversion H2 as [H2'].
    pose proof (latch_terminal_sticky S ing_step ing_cont st ops1 ops2 e) as L.
    cbn zeta in L. rewrite H1' in L. cbn [fst snd] in L. rewrite H2' in L. cbn [fst snd] in L.
    rewrite (L Ht). reflexivity.
  Qed.

  Theorem src_rawrecord_law (Hraw : ing_raw_on_success S ing_step) s ops r :
    src_run (t_init, s) ops = Some r -> raws_ok None (snd r).
  Proof.
    rewrite run_is_source_shape. intro H; inversion H; subst.
    apply rawrecord_law. exact Hraw.
  Qed.
End ShapeProofs.
