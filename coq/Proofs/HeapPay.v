(* C12 bridge proofs, part 1: AddChild and RemoveAndReleaseTree never touch Type / Data /
   FormatSpecific of a node that stays live; the payload tree read from the heap is stable. *)
From Coq Require Import List NArith ZArith Bool Lia.
From stdpp Require Import pmap.
From OV Require Import Base.Bytes Base.Cases Base.Tree Model.Heap
  Proofs.HeapIds Proofs.HeapTree Proofs.HeapOps Proofs.HeapPath Proofs.HeapRep Proofs.HeapRemove.
Import ListNotations.

Definition pay (x : node) : N * bytes * fspec := (n_ty x, n_data x, n_fs x).
Definition opay (o : option node) : option (N * bytes * fspec) := option_map pay o.
Definition pay_pres (h h' : heapT) : Prop := forall b, opay (h' !! b) = opay (h !! b).

Lemma pay_pres_refl h : pay_pres h h.
Proof. intros b. reflexivity. Qed.
Lemma pay_pres_trans h1 h2 h3 : pay_pres h1 h2 -> pay_pres h2 h3 -> pay_pres h1 h3.
Proof. intros H1 H2 b. rewrite H2, H1. reflexivity. Qed.

Lemma upd_pay site h a f h' :
  upd site h a f = Ok h' -> (forall x, pay (f x) = pay x) -> pay_pres h h'.
Proof.
  unfold upd. destruct (h !! a) as [x|] eqn:E; [|discriminate]. intros H Hf. inversion H; subst.
  intros b. destruct (decide (b = a)) as [->|Hne].
  - rewrite lookup_insert, E. simpl. f_equal. apply Hf.
  - rewrite lookup_insert_ne by congruence. reflexivity.
Qed.

Lemma updp_pay site h p f h' :
  updp site h p f = Ok h' -> (forall x, pay (f x) = pay x) -> pay_pres h h'.
Proof. destruct p; simpl; [apply upd_pay|discriminate]. Qed.

Ltac pay_setter := intros x; destruct x; reflexivity.

Lemma add_child_pay h p n h' : add_child h p n = Ok h' -> pay_pres h h'.
Proof.
  unfold add_child.
  destruct (upd 10 h n (set_parent (Some p))) as [h1| | |] eqn:E1; simpl; try discriminate.
  destruct (upd 11 h1 n (set_next None)) as [h2| | |] eqn:E2; simpl; try discriminate.
  destruct (load 12 h2 p) as [pn| | |] eqn:E3; simpl; try discriminate.
  pose proof (upd_pay _ _ _ _ _ E1 ltac:(pay_setter)) as P1.
  pose proof (upd_pay _ _ _ _ _ E2 ltac:(pay_setter)) as P2.
  assert (P12 : pay_pres h h2) by (eapply pay_pres_trans; eauto).
  destruct (n_first pn).
  - destruct (load 15 h2 p) as [pn1| | |] eqn:E4; simpl; try discriminate.
    destruct (updp 16 h2 (n_last pn1) (set_next (Some n))) as [h3| | |] eqn:E5; simpl; try discriminate.
    destruct (load 17 h3 p) as [pn2| | |] eqn:E6; simpl; try discriminate.
    destruct (upd 18 h3 n (set_prev (n_last pn2))) as [h4| | |] eqn:E7; simpl; try discriminate.
    intros E8.
    pose proof (updp_pay _ _ _ _ _ E5 ltac:(pay_setter)) as P3.
    pose proof (upd_pay _ _ _ _ _ E7 ltac:(pay_setter)) as P4.
    pose proof (upd_pay _ _ _ _ _ E8 ltac:(pay_setter)) as P5.
    eapply pay_pres_trans; [exact P12|]. eapply pay_pres_trans; [exact P3|]. eapply pay_pres_trans; eauto.
  - destruct (upd 13 h2 p (set_first (Some n))) as [h3| | |] eqn:E5; simpl; try discriminate.
    destruct (upd 14 h3 n (set_prev None)) as [h4| | |] eqn:E7; simpl; try discriminate.
    intros E8.
    pose proof (upd_pay _ _ _ _ _ E5 ltac:(pay_setter)) as P3.
    pose proof (upd_pay _ _ _ _ _ E7 ltac:(pay_setter)) as P4.
    pose proof (upd_pay _ _ _ _ _ E8 ltac:(pay_setter)) as P5.
    eapply pay_pres_trans; [exact P12|]. eapply pay_pres_trans; [exact P3|]. eapply pay_pres_trans; eauto.
Qed.

Lemma unlink_pay h n h' : unlink h n = Ok h' -> pay_pres h h'.
Proof.
  unfold unlink.
  destruct (load 20 h n) as [nn| | |] eqn:E0; simpl; try discriminate.
  destruct (n_parent nn) as [p|]; [|intros H; inversion H; apply pay_pres_refl].
  destruct (load 21 h p) as [pn| | |] eqn:E1; simpl; try discriminate.
  destruct (oaddr_eqb (n_first pn) (Some n)).
  - destruct (load 22 h p) as [pn1| | |] eqn:E2; simpl; try discriminate.
    destruct (oaddr_eqb (n_last pn1) (Some n)).
    + destruct (upd 23 h p (set_first None)) as [h1| | |] eqn:E3; simpl; try discriminate.
      intros E4. eapply pay_pres_trans; eapply upd_pay; eauto; pay_setter.
    + destruct (load 25 h n) as [nn1| | |] eqn:E3; simpl; try discriminate.
      destruct (upd 26 h p (set_first (n_next nn1))) as [h1| | |] eqn:E4; simpl; try discriminate.
      destruct (load 27 h1 n) as [nn2| | |] eqn:E5; simpl; try discriminate.
      intros E6. eapply pay_pres_trans; [eapply upd_pay|eapply updp_pay]; eauto; pay_setter.
  - destruct (load 29 h p) as [pn1| | |] eqn:E2; simpl; try discriminate.
    destruct (oaddr_eqb (n_last pn1) (Some n)).
    + destruct (load 30 h n) as [nn1| | |] eqn:E3; simpl; try discriminate.
      destruct (upd 31 h p (set_last (n_prev nn1))) as [h1| | |] eqn:E4; simpl; try discriminate.
      destruct (load 32 h1 n) as [nn2| | |] eqn:E5; simpl; try discriminate.
      intros E6. eapply pay_pres_trans; [eapply upd_pay|eapply updp_pay]; eauto; pay_setter.
    + destruct (load 34 h n) as [nn1| | |] eqn:E3; simpl; try discriminate.
      destruct (updp 35 h (n_prev nn1) (set_next (n_next nn1))) as [h1| | |] eqn:E4; simpl; try discriminate.
      destruct (load 36 h1 n) as [nn2| | |] eqn:E5; simpl; try discriminate.
      intros E6. eapply pay_pres_trans; eapply updp_pay; eauto; pay_setter.
Qed.

(* ---- RemoveAndReleaseTree: the nodes that stay live keep their payload -------------------------------- *)
Lemma remove_pay caching s F n s' :
  Rep caching s F -> n ∈ addrs_f F ->
  remove_and_release caching (fuel_of s) s n = Ok s' ->
  forall a, a ∈ addrs_f (prune n F) -> opay (heap s' !! a) = opay (heap s !! a).
Proof.
  intros HR Hn Hrm a Ha.
  pose proof (R_nodup _ _ _ HR) as Hnd. apply NoDup_app in Hnd as (HndF & _ & _).
  destruct (unlink_forest (heap s) F n (R_links _ _ _ HR) HndF Hn)
    as (h1 & tn & par' & pv' & nx' & Hun & Hrn & Hoktn & Hlinks1 & Hperm & Hout & Hidrec & Hdom).
  unfold remove_and_release in Hrm. rewrite Hun in Hrm. simpl in Hrm.
  pose proof (unlink_pay _ _ _ Hun) as P1.
  assert (HndGtn : NoDup (addrs_f (prune n F) ++ addrs tn)) by (rewrite <- Hperm; exact HndF).
  apply NoDup_app in HndGtn as (HndG & HdGtn & Hndtn).
  destruct caching.
  - assert (Hfuel : (2 * tsize tn <= fuel_of s)%nat).
    { unfold fuel_of. rewrite tsize_length.
      pose proof (nodup_below_length (addrs tn) (next_addr s) Hndtn) as Hlen.
      assert (Hlt : forall b, b ∈ addrs tn -> (b < next_addr s)%positive).
      { intros b Hb. apply (R_bound _ _ _ HR). apply elem_of_app. left. rewrite Hperm. apply elem_of_app. auto. }
      specialize (Hlen Hlt). lia. }
    rewrite <- Hrn in Hrm.
    rewrite (recycle_spec tn (fuel_of s) (with_heap s h1) par' pv' nx' Hoktn Hndtn Hfuel) in Hrm.
    inversion Hrm; subst s'. simpl.
    rewrite blank_all_notin; [apply P1|].
    rewrite postorder_perm. apply HdGtn. exact Ha.
  - inversion Hrm; subst s'. simpl. apply P1.
Qed.

(* ---- the payload tree of a shape ---------------------------------------------------------------------- *)
Fixpoint payloads (h : heapT) (l : list atree) : option (list tree) :=
  match l with
  | [] => Some []
  | k :: r => match payload h k, payloads h r with
              | Some t, Some ts => Some (t :: ts)
              | _, _ => None
              end
  end.

Lemma payload_unfold h a ks :
  payload h (AT a ks) =
  match h !! a with
  | None => None
  | Some x => match ntype_of_N (n_ty x) with
              | None => None
              | Some ty => match payloads h ks with
                           | Some kts => Some (T ty (n_data x) (n_fs x) kts)
                           | None => None
                           end
              end
  end.
Proof.
  simpl. destruct (h !! a) as [x|]; [|reflexivity]. destruct (ntype_of_N (n_ty x)); [|reflexivity].
  assert (E : (fix go (l : list atree) : option (list tree) :=
                 match l with
                 | [] => Some []
                 | k :: r => match payload h k, go r with
                             | Some t, Some ts => Some (t :: ts)
                             | _, _ => None
                             end
                 end) ks = payloads h ks).
  { induction ks as [|k r IH]; [reflexivity|]. simpl. rewrite IH. reflexivity. }
  rewrite E. reflexivity.
Qed.

Lemma payloads_Forall2 h ks ts :
  payloads h ks = Some ts <-> Forall2 (fun k t => payload h k = Some t) ks ts.
Proof.
  revert ts. induction ks as [|k r IH]; intros ts; simpl.
  - split; [intros H; inversion H; constructor|intros H; inversion H; reflexivity].
  - destruct (payload h k) as [t|] eqn:Ek.
    + destruct (payloads h r) as [ts'|] eqn:Er.
      * split.
        -- intros H; inversion H; subst. constructor; [exact Ek|apply IH; reflexivity].
        -- intros H. inversion H; subst. apply IH in H4. congruence.
      * split; [discriminate|]. intros H. inversion H; subst. apply IH in H4. discriminate.
    + split; [discriminate|]. intros H. inversion H; subst. congruence.
Qed.

Lemma payload_pres h h' : forall t,
  (forall a, a ∈ addrs t -> opay (h' !! a) = opay (h !! a)) -> payload h' t = payload h t.
Proof.
  induction t as [a ks IH] using atree_ind2. intros Hp. rewrite !payload_unfold.
  assert (Ha : opay (h' !! a) = opay (h !! a)) by (apply Hp; apply (root_in (AT a ks))).
  assert (Hk : payloads h' ks = payloads h ks).
  { rewrite Forall_forall in IH.
    assert (H : forall l, (forall k, k ∈ l -> k ∈ ks) -> payloads h' l = payloads h l).
    { induction l as [|k r IHr]; intros Hsub; [reflexivity|]. simpl.
      rewrite (IH k (Hsub k (elem_of_list_here _ _))).
      - rewrite IHr; [reflexivity|]. intros k' Hk'. apply Hsub. apply elem_of_cons. auto.
      - intros b Hb. apply Hp. eapply addrs_kid_in; [apply Hsub; apply elem_of_list_here|exact Hb]. }
    apply H. auto. }
  rewrite Hk. destruct (h' !! a) as [x'|], (h !! a) as [x|]; simpl in Ha; try discriminate; [|reflexivity].
  inversion Ha as [[E1 E2 E3]]. rewrite E1, E2, E3. reflexivity.
Qed.
