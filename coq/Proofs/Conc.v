(* C14 proofs: every atomic action preserves the invariant; no output depends on the shared
   state beyond the invariant; hence interleavings are invisible. *)
From Coq Require Import List NArith Bool Lia.
From stdpp Require Import gmap.
From OV Require Import Base.Bytes Base.Cases Model.Js Proofs.Js Model.Conc.
Import ListNotations.

(* ---- lists of goroutines ---------------------------------------------------------------------- *)
Lemma nth_error_split_set {A} : forall i (l : list A) x,
  nth_error l i = Some x ->
  exists l1 l2, l = l1 ++ x :: l2 /\ forall y, set_nth i y l = l1 ++ y :: l2.
Proof.
  induction i as [|i IH]; intros [|a l] x H; simpl in *; try discriminate.
  - inversion H; subst. exists [], l. split; auto.
  - destruct (IH l x H) as (l1 & l2 & -> & Hs). exists (a :: l1), l2. split; auto.
    intros y. simpl. rewrite Hs. reflexivity.
Qed.

Lemma concat_map_split {A B} (f : A -> list B) i (l : list A) x :
  nth_error l i = Some x ->
  exists R, concat (map f l) ≡ₚ f x ++ R /\ forall y, concat (map f (set_nth i y l)) ≡ₚ f y ++ R.
Proof.
  intros H. destruct (nth_error_split_set i l x H) as (l1 & l2 & -> & Hs).
  exists (concat (map f l1) ++ concat (map f l2)). split.
  - rewrite map_app, concat_app. simpl. rewrite !app_assoc.
    apply Permutation_app_tail. apply Permutation_app_comm.
  - intros y. rewrite Hs, map_app, concat_app. simpl. rewrite !app_assoc.
    apply Permutation_app_tail. apply Permutation_app_comm.
Qed.

Lemma Forall_set_nth {A} (P : A -> Prop) : forall i (l : list A) y,
  Forall P l -> P y -> Forall P (set_nth i y l).
Proof.
  induction i as [|i IH]; intros [|a l] y H Hy; simpl; auto; inversion H; subst; constructor; auto.
Qed.

Lemma nth_error_set_nth_eq {A} : forall i (l : list A) x y,
  nth_error l i = Some x -> nth_error (set_nth i y l) i = Some y.
Proof. induction i as [|i IH]; intros [|a l] x y H; simpl in *; try discriminate; eauto. Qed.

Lemma nth_error_set_nth_ne {A} : forall i j (l : list A) y,
  i <> j -> nth_error (set_nth i y l) j = nth_error l j.
Proof.
  induction i as [|i IH]; intros [|j] [|a l] y H; simpl; auto; try congruence.
Qed.

Lemma remove_nth_perm {A} : forall i (l : list A) x,
  nth_error l i = Some x -> l ≡ₚ x :: remove_nth i l.
Proof.
  induction i as [|i IH]; intros [|a l] x H; simpl in *; try discriminate.
  - inversion H; reflexivity.
  - rewrite (IH l x H) at 1. apply perm_swap.
Qed.

Lemma remove_nth_sub {A} : forall i (l : list A) x, In x (remove_nth i l) -> In x l.
Proof.
  induction i as [|i IH]; intros [|a l] x H; simpl in *; auto. destruct H; auto.
Qed.

Lemma remove_nth_NoDup {A} : forall i (l : list A), NoDup l -> NoDup (remove_nth i l).
Proof.
  induction i as [|i IH]; intros [|a l] H; simpl; auto; inversion H; subst; auto.
  constructor; auto. intros Hin. apply elem_of_list_In in Hin. apply remove_nth_sub in Hin.
  apply elem_of_list_In in Hin. contradiction.
Qed.

Lemma NoDup_app_In {A} (a b : list A) x : NoDup (a ++ b) -> In x a -> In x b -> False.
Proof.
  intros H Ha Hb. apply NoDup_app in H as (_ & H & _).
  apply (H x); apply elem_of_list_In; assumption.
Qed.

Lemma NoDup_concat_unique {A B} (f : A -> list B) : forall (l : list A) i j x y b,
  NoDup (concat (map f l)) -> nth_error l i = Some x -> nth_error l j = Some y ->
  In b (f x) -> In b (f y) -> i = j.
Proof.
  induction l as [|a l IH]; intros [|i] [|j] x y b Hnd Hi Hj Hx Hy; simpl in *; try discriminate; auto.
  - inversion Hi; subst. exfalso. eapply NoDup_app_In; eauto.
    apply in_concat. exists (f y). split; [|exact Hy]. apply in_map. eapply nth_error_In; eauto.
  - inversion Hj; subst. exfalso. eapply NoDup_app_In; eauto.
    apply in_concat. exists (f x). split; [|exact Hx]. apply in_map. eapply nth_error_In; eauto.
  - f_equal. apply NoDup_app in Hnd as (_ & _ & Hnd). eapply IH; eauto.
Qed.

Lemma NoDup_concat_each {A B} (f : A -> list B) : forall (l : list A) x,
  NoDup (concat (map f l)) -> In x l -> NoDup (f x).
Proof.
  induction l as [|a l IH]; intros x Hnd Hin; simpl in *; [contradiction|].
  apply NoDup_app in Hnd as (H1 & _ & H2). destruct Hin as [->|Hin]; auto.
Qed.

Lemma NoDup_fst_inj {A B} (l : list (A * B)) a b1 b2 :
  NoDup (map fst l) -> In (a, b1) l -> In (a, b2) l -> b1 = b2.
Proof.
  induction l as [|[a' b'] l IH]; simpl; intros Hnd H1 H2; [contradiction|].
  apply NoDup_cons in Hnd as [Hn Hnd].
  destruct H1 as [H1|H1], H2 as [H2|H2]; try (inversion H1; subst); try (inversion H2; subst); auto.
  - exfalso. apply Hn. apply elem_of_list_In. apply in_map_iff. exists (a, b2); auto.
  - exfalso. apply Hn. apply elem_of_list_In. apply in_map_iff. exists (a, b1); auto.
Qed.

Section ConcProofs.
  Variable S : Type.
  Variable r : rt.
  Variable compile : N -> option script.
  Variable xcompile : N -> N.
  Variable xeval : S -> N -> bytes -> N.
  Hypothesis Hrt : rt_wf r.

  Notation gstep := (gstep S r compile xcompile xeval).
  Notation cstep := (cstep S r compile xcompile xeval).
  Notation interleave := (interleave S r compile xcompile xeval).
  Notation spec_outs := (spec_outs S r compile xcompile xeval).
  Notation js_spec := (js_spec r compile).
  Notation hid := (hid S).

  (* ---- the schema is never written --------------------------------------------------------------- *)
  Lemma gstep_schema (h : hid) g ch : h_schema (fst (gstep h g ch)) = h_schema h.
  Proof.
    unfold gstep.
    repeat (match goal with
            | |- context [match ?x with _ => _ end] => destruct x eqn:?; simpl
            end); reflexivity.
  Qed.

  Lemma cstep_schema c c' : cstep c c' -> h_schema (fst c') = h_schema (fst c).
  Proof.
    intros H; inversion H; subst; simpl; auto.
    match goal with H : gstep ?h ?g ?ch = _ |- _ => pose proof (gstep_schema h g ch) as E; rewrite H in E; exact E end.
  Qed.

  Lemma schema_readonly c c' : interleave c c' -> h_schema (fst c') = h_schema (fst c).
  Proof.
    induction 1 as [|c1 c2 c3 Hs _ IH]; [reflexivity|]. rewrite IH. apply cstep_schema; exact Hs.
  Qed.

  (* ---- the invariant ------------------------------------------------------------------------------- *)
  Definition pend_ids (p : pend) : list N := match p with PReleasePut id => [id] | _ => [] end.
  Definition gids (g : gstate) : list N := pend_ids (g_pend g) ++ map fst (g_live g).
  Definition allids (h : hid) (gs : list gstate) : list N := h_npool h ++ concat (map gids gs).
  Definition allnodes (gs : list gstate) : list (N * bytes) := concat (map g_live gs).
  Definition pendids (gs : list gstate) : list N := concat (map (fun g => pend_ids (g_pend g)) gs).
  Definition alllogs (gs : list gstate) : list N := concat (map g_ids gs).

  Definition args_for (j : jsop) (lc : list bytes) : option (list (N * jsval)) :=
    match j_node j with
    | None => Some (j_args j)
    | Some k => match nth_error lc k with Some c => Some (node_arg j c) | None => None end
    end.

  Definition jsop_wf (j : jsop) : Prop :=
    match j_node j with
    | None => same_keys (j_args j) (j_wipe j)
    | Some _ => same_keys (node_arg j []) (j_wipe j)
    end.
  Definition op_wf (o : gop) : Prop := match o with GJs j => jsop_wf j | _ => True end.

  Definition pend_outs (sch : S) (lc : list bytes) (p : pend) : list gout :=
    match p with
    | PXAdd e c => [OutX (xeval sch (xcompile e) c)]
    | PCAdd e => [OutC (xcompile e)]
    | PJsProgAdd j _ | PJsNode j _ | PJsNodeAdd j _ _ _ | PJsVmGet j _ _ | PJsRun j _ _ _ => [js_spec j lc]
    | _ => []
    end.
  Definition pend_lc (lc : list bytes) (p : pend) : list bytes :=
    match p with PAllocNew c => c :: lc | _ => lc end.

  Definition pend_ok (g : gstate) : Prop :=
    let lc := map snd (g_live g) in
    match g_pend g with
    | PJsProgAdd j p | PJsNode j p => compile (j_js j) = Some p /\ jsop_wf j
    | PJsNodeAdd j p id b =>
        compile (j_js j) = Some p /\ jsop_wf j /\
        exists k, j_node j = Some k /\ nth_error (g_live g) k = Some (id, b)
    | PJsVmGet j p a => compile (j_js j) = Some p /\ jsop_wf j /\ args_for j lc = Some a
    | PJsRun j p a m => compile (j_js j) = Some p /\ jsop_wf j /\ args_for j lc = Some a /\ m = fresh_vm r
    | _ => True
    end.

  Definition gok (sch : S) (ops0 : list gop) (g : gstate) : Prop :=
    let lc := map snd (g_live g) in
    Forall op_wf (g_todo g) /\ pend_ok g /\
    g_out g ++ pend_outs sch lc (g_pend g) ++ spec_outs sch (pend_lc lc (g_pend g)) (g_todo g)
      = spec_outs sch [] ops0.

  Definition node_P (h : hid) (gs : list gstate) (id : N) (b : bytes) : Prop :=
    (id <= h_ctr h)%N /\ ~ In id (h_npool h ++ pendids gs) /\ forall c, In (id, c) (allnodes gs) -> c = b.

  Definition ids_inv (h : hid) (gs : list gstate) : Prop :=
    NoDup (allids h gs) /\ Forall (fun id => (id <= h_ctr h)%N) (allids h gs) /\
    NoDup (alllogs gs) /\ Forall (fun id => (id <= h_ctr h)%N) (alllogs gs) /\
    Forall (fun g => increasing (g_ids g) = true) gs.

  Definition Inv (sch : S) (opss : list (list gop)) (c : conf S) : Prop :=
    let '(h, gs) := c in
    h_schema h = sch /\
    pool_ok r (h_vms h) /\
    lru_ok (fun js p => compile js = Some p) (h_prog h) /\
    lru_ok (fun e v => v = xcompile e) (h_xc h) /\
    ids_inv h gs /\
    lru_ok (node_P h gs) (h_node h) /\
    Forall2 (fun g ops => gok sch ops g) gs opss.

  (* ---- frame lemmas ----------------------------------------------------------------------------------- *)
  Lemma in_concat_set_nth {B} (f : gstate -> list B) i gs g g' :
    nth_error gs i = Some g ->
    (forall x, In x (concat (map f (set_nth i g' gs))) -> In x (f g') \/ In x (concat (map f gs))) /\
    (forall x, In x (f g') -> In x (concat (map f (set_nth i g' gs)))) /\
    (forall x, In x (concat (map f gs)) -> In x (f g) \/ In x (concat (map f (set_nth i g' gs)))).
  Proof.
    intros H. destruct (concat_map_split f i gs g H) as (R & H1 & H2). repeat split; intros x Hx.
    - apply (Permutation_in _ (H2 g')) in Hx. apply in_app_or in Hx as [Hx|Hx]; [left; auto|].
      right. apply (Permutation_in _ (Permutation_sym H1)). apply in_or_app; right; auto.
    - apply (Permutation_in _ (Permutation_sym (H2 g'))). apply in_or_app; left; auto.
    - apply (Permutation_in _ H1) in Hx. apply in_app_or in Hx as [Hx|Hx]; [left; auto|].
      right. apply (Permutation_in _ (Permutation_sym (H2 g'))). apply in_or_app; right; auto.
  Qed.

  Lemma lru_ok_mono {V} (P Q : N -> V -> Prop) c :
    (forall k v, P k v -> Q k v) -> lru_ok P c -> lru_ok Q c.
  Proof. intros H. unfold lru_ok. apply List.Forall_impl. intros [k v]; simpl; auto. Qed.

  Lemma node_P_mono (h h' : hid) gs gs' id b :
    (h_ctr h <= h_ctr h')%N ->
    (forall x, In x (h_npool h' ++ pendids gs') -> In x (h_npool h ++ pendids gs) \/ (h_ctr h < x)%N) ->
    (forall x c, In (x, c) (allnodes gs') ->
       In (x, c) (allnodes gs) \/ (h_ctr h < x)%N \/ In x (h_npool h ++ pendids gs)) ->
    node_P h gs id b -> node_P h' gs' id b.
  Proof.
    intros Hc H1 H2 (Ha & Hb & Hd). split; [lia|]. split.
    - intros Hin. apply H1 in Hin as [Hin|Hin]; [contradiction|lia].
    - intros c Hin. apply H2 in Hin as [Hin|[Hin|Hin]]; [auto|lia|contradiction].
  Qed.

  (* the general shape of an action on the IDs: goroutine i and the pool exchange [keep], drop
     [drops], and obtain [news] from the counter *)
  Lemma ids_step (h h' : hid) gs i g g' news drops keep newlog :
    nth_error gs i = Some g ->
    (h_npool h' ++ gids g') ≡ₚ news ++ keep ->
    (h_npool h ++ gids g) ≡ₚ drops ++ keep ->
    g_ids g' = g_ids g ++ newlog ->
    (h_ctr h <= h_ctr h')%N ->
    (news = [] \/ (news = [N.succ (h_ctr h)] /\ h_ctr h' = N.succ (h_ctr h))) ->
    (newlog = [] \/ (newlog = [N.succ (h_ctr h)] /\ h_ctr h' = N.succ (h_ctr h))) ->
    ids_inv h gs -> ids_inv h' (set_nth i g' gs).
  Proof.
    intros Hn Hp' Hp Hlog Hc Hnews Hnl (Hnd & Hle & Hlnd & Hlle & Hinc).
    destruct (concat_map_split gids i gs g Hn) as (R & H1 & H2).
    assert (Ha : allids h gs ≡ₚ drops ++ keep ++ R).
    { unfold allids. rewrite H1, app_assoc, Hp, <- app_assoc. reflexivity. }
    assert (Ha' : allids h' (set_nth i g' gs) ≡ₚ news ++ keep ++ R).
    { unfold allids. rewrite (H2 g'), app_assoc, Hp', <- app_assoc. reflexivity. }
    assert (Hkr : NoDup (keep ++ R) /\ Forall (fun id => (id <= h_ctr h)%N) (keep ++ R)).
    { rewrite Ha in Hnd. rewrite Ha in Hle.
      apply NoDup_app in Hnd as (_ & _ & Hnd). apply Forall_app in Hle as [_ Hle]. auto. }
    destruct Hkr as [Hkr1 Hkr2].
    destruct (concat_map_split g_ids i gs g Hn) as (L & L1 & L2).
    assert (Hl' : alllogs (set_nth i g' gs) ≡ₚ newlog ++ alllogs gs).
    { unfold alllogs. rewrite (L2 g'), L1, Hlog. rewrite <- app_assoc.
      rewrite (Permutation_app_comm (g_ids g) (newlog ++ L)). rewrite <- app_assoc.
      apply Permutation_app_head. apply Permutation_app_comm. }
    split; [|split; [|split; [|split]]].
    - rewrite Ha'.
      destruct Hnews as [->|[-> _]]; simpl; [exact Hkr1|]. constructor; [|exact Hkr1].
      intros Hin. rewrite Forall_forall in Hkr2. apply Hkr2 in Hin. lia.
    - rewrite Ha'.
      apply Forall_app. split.
      + destruct Hnews as [->|[-> E]]; [constructor|]. constructor; [lia|constructor].
      + eapply List.Forall_impl; [|exact Hkr2]. simpl. intros; lia.
    - rewrite Hl'.
      destruct Hnl as [->|[-> _]]; simpl; [exact Hlnd|]. constructor; [|exact Hlnd].
      intros Hin. rewrite Forall_forall in Hlle. apply Hlle in Hin. lia.
    - rewrite Hl'. apply Forall_app. split.
      + destruct Hnl as [->|[-> E]]; [constructor|]. constructor; [lia|constructor].
      + eapply List.Forall_impl; [|exact Hlle]. simpl. intros; lia.
    - apply Forall_set_nth; [exact Hinc|]. rewrite Hlog.
      destruct Hnl as [->|[-> _]]; [rewrite app_nil_r|].
      + rewrite Forall_forall in Hinc. apply Hinc. apply elem_of_list_In. eapply nth_error_In; eauto.
      + assert (Hg : increasing (g_ids g) = true).
        { rewrite Forall_forall in Hinc. apply Hinc. apply elem_of_list_In. eapply nth_error_In; eauto. }
        assert (Hgl : Forall (fun id => (id <= h_ctr h)%N) (g_ids g)).
        { rewrite Forall_forall in *. intros x Hx. apply Hlle. apply elem_of_list_In.
          apply (Permutation_in _ (Permutation_sym L1)). apply in_or_app; left.
          apply elem_of_list_In; exact Hx. }
        clear - Hg Hgl. induction (g_ids g) as [|x [|y t] IH]; simpl in *; auto.
        * inversion Hgl; subst. apply andb_true_intro; split; [apply N.ltb_lt; lia|reflexivity].
        * apply andb_prop in Hg as [Hg1 Hg2]. inversion Hgl; subst.
          apply andb_true_intro; split; [exact Hg1|]. apply IH; auto.
  Qed.

  (* ---- one atomic action preserves each part of the invariant ---------------------------------- *)
  Lemma js_spec_run j lc p a :
    compile (j_js j) = Some p -> args_for j lc = Some a ->
    js_spec j lc = OutJs (outcome_of (snd (run_on r (fresh_vm r) a (j_wipe j) p))).
  Proof.
    unfold Conc.js_spec, args_for. intros -> H. destruct (j_node j) as [k|].
    - destruct (nth_error lc k); inversion H; subst; reflexivity.
    - inversion H; subst; reflexivity.
  Qed.

  Lemma args_for_wf j lc a : jsop_wf j -> args_for j lc = Some a -> same_keys a (j_wipe j).
  Proof.
    unfold jsop_wf, args_for. destruct (j_node j) as [k|].
    - destruct (nth_error lc k); intros Hw H; inversion H; subst. exact Hw.
    - intros Hw H; inversion H; subst. exact Hw.
  Qed.

  Ltac gcases H :=
    unfold Conc.gstep in H; simpl in H;
    repeat match type of H with
           | context [match ?x with _ => _ end] => destruct x eqn:?
           end;
    inversion H; subst; clear H; simpl in *.

  Lemma gstep_gok sch ops0 (h : hid) gs g ch h' g' :
    h_schema h = sch -> pool_ok r (h_vms h) ->
    lru_ok (fun js p => compile js = Some p) (h_prog h) ->
    lru_ok (fun e v => v = xcompile e) (h_xc h) ->
    lru_ok (node_P h gs) (h_node h) -> In g gs ->
    gok sch ops0 g -> gstep h g ch = (h', g') -> gok sch ops0 g'.
  Proof.
    intros Hs Hvm Hprog Hxc Hnode Hin (Hwf & Hpo & Hsp) Hstep. unfold gok, pend_ok in *.
    destruct g as [todo live pd out ids]; simpl in *.
    destruct pd; simpl in *.
    - (* PIdle *)
      destruct todo as [|[c| |e k|e|j] rest]; simpl in Hsp.
      + gcases Hstep. auto.
      + inversion Hwf; subst. gcases Hstep; auto.
      + inversion Hwf; subst. gcases Hstep; simpl; auto.
      + inversion Hwf; subst. rewrite nth_error_map in Hsp.
        gcases Hstep; rewrite ?Heqo in *; simpl in *.
        * split; [auto|]. split; [auto|]. rewrite <- Hsp, <- app_assoc. simpl.
          match goal with H : lru_get _ _ = (Some ?x, _) |- _ =>
            destruct (lru_get_ok _ (h_xc h) e Hxc) as [Hv _]; rewrite H in Hv; rewrite (Hv x eq_refl) end.
          reflexivity.
        * split; [auto|]. split; [auto|]. rewrite <- Hsp. reflexivity.
        * split; [auto|]. split; [auto|]. rewrite <- Hsp, <- app_assoc. reflexivity.
      + inversion Hwf; subst.
        gcases Hstep.
        * split; [auto|]. split; [auto|]. rewrite <- Hsp, <- app_assoc. simpl.
          match goal with H : lru_get _ _ = (Some ?x, _) |- _ =>
            destruct (lru_get_ok _ (h_xc h) e Hxc) as [Hv _]; rewrite H in Hv; rewrite (Hv x eq_refl) end.
          reflexivity.
        * split; [auto|]. split; [auto|]. exact Hsp.
      + inversion Hwf as [|? ? Hj Hrest]; subst. simpl in Hj.
        gcases Hstep.
        * match goal with H : lru_get _ _ = (Some ?x, _) |- _ =>
            destruct (lru_get_ok _ (h_prog h) (j_js j) Hprog) as [Hv _]; rewrite H in Hv;
            pose proof (Hv x eq_refl) as Hc end.
          split; [auto|]. split; [auto|]. exact Hsp.
        * split; [auto|]. split; [auto|]. exact Hsp.
        * split; [auto|]. split; [auto|]. rewrite <- Hsp, <- app_assoc. simpl.
          unfold Conc.js_spec.
          match goal with H : compile _ = None |- _ => rewrite H end. reflexivity.
    - (* PAllocNew *) gcases Hstep. auto.
    - (* PReleasePut *) gcases Hstep. auto.
    - (* PXAdd *) gcases Hstep. split; [auto|]. split; [auto|]. rewrite <- Hsp, <- app_assoc. reflexivity.
    - (* PCAdd *) gcases Hstep. split; [auto|]. split; [auto|]. rewrite <- Hsp, <- app_assoc. reflexivity.
    - (* PJsProgAdd *) gcases Hstep. auto.
    - (* PJsNode *)
      destruct Hpo as [Hc Hj].
      gcases Hstep.
      + (* hit *)
        match goal with H : lru_get _ ?id = (Some ?b, _) |- _ =>
          destruct (lru_get_ok _ (h_node h) id Hnode) as [Hv _]; rewrite H in Hv;
          destruct (Hv b eq_refl) as (_ & _ & Hb) end.
        assert (b = b0).
        { apply Hb. unfold allnodes. apply in_concat. exists live. split.
          - apply in_map_iff. exists (mkG todo live (PJsNode j p) out ids). split; auto.
          - eapply nth_error_In; eauto. }
        subst. split; [auto|]. split; [|exact Hsp]. repeat split; auto.
        unfold args_for. rewrite Heqo, nth_error_map, Heqo0. reflexivity.
      + split; [auto|]. split; [|exact Hsp]. repeat split; auto. eauto.
      + split; [auto|]. split; [auto|]. rewrite <- Hsp, <- app_assoc. simpl.
        unfold Conc.js_spec. rewrite Hc, Heqo, nth_error_map, Heqo0. reflexivity.
      + split; [auto|]. split; [|exact Hsp]. repeat split; auto.
        unfold args_for. rewrite Heqo. reflexivity.
    - (* PJsNodeAdd *)
      destruct Hpo as (Hc & Hj & k & Hk & Hn). gcases Hstep.
      split; [auto|]. split; [|exact Hsp]. repeat split; auto.
      unfold args_for. rewrite Hk, nth_error_map, Hn. reflexivity.
    - (* PJsVmGet *)
      destruct Hpo as (Hc & Hj & Ha). gcases Hstep.
      split; [auto|]. split; [|exact Hsp]. repeat split; auto.
      destruct (pool_get_ok r ch (h_vms h) Hvm) as [Hm _]. rewrite Heqp0 in Hm. exact Hm.
    - (* PJsRun *)
      destruct Hpo as (Hc & Hj & Ha & Hm). gcases Hstep.
      split; [auto|]. split; [auto|]. rewrite <- Hsp, <- app_assoc. simpl.
      rewrite (js_spec_run j _ p a Hc Ha). rewrite Heqp0. reflexivity.
  Qed.

  Lemma gstep_caches (h : hid) g ch h' g' :
    pool_ok r (h_vms h) ->
    lru_ok (fun js p => compile js = Some p) (h_prog h) ->
    lru_ok (fun e v => v = xcompile e) (h_xc h) ->
    pend_ok g -> gstep h g ch = (h', g') ->
    pool_ok r (h_vms h') /\
    lru_ok (fun js p => compile js = Some p) (h_prog h') /\
    lru_ok (fun e v => v = xcompile e) (h_xc h').
  Proof.
    intros Hvm Hprog Hxc Hpo Hstep. unfold pend_ok in Hpo.
    destruct g as [todo live pd out ids]; simpl in *.
    destruct pd; simpl in *; gcases Hstep; auto;
      try (split; [solve [auto]|split; [solve [auto]|]];
           first [ match goal with H : lru_get (h_xc h) ?e = _ |- _ =>
                     destruct (lru_get_ok _ (h_xc h) e Hxc) as [_ Hc]; rewrite H in Hc; exact Hc end
                 | apply lru_add_ok; auto ]);
      try (split; [solve [auto]|split; [|solve [auto]]];
           first [ match goal with H : lru_get (h_prog h) ?e = _ |- _ =>
                     destruct (lru_get_ok _ (h_prog h) e Hprog) as [_ Hc]; rewrite H in Hc; exact Hc end
                 | apply lru_add_ok; auto; apply Hpo ]).
    - split; [|auto]. destruct (pool_get_ok r ch (h_vms h) Hvm) as [_ Hp].
      match goal with H : pool_get _ _ _ = _ |- _ => rewrite H in Hp end. exact Hp.
    - split; [|auto]. destruct Hpo as (Hc & Hj & Ha & Hm). subst.
      pose proof (run_on_restores r a (j_wipe j) p Hrt (args_for_wf _ _ _ Hj Ha)) as Hr.
      match goal with H : run_on _ _ _ _ _ = _ |- _ => rewrite H in Hr end. simpl in Hr. subst.
      constructor; auto.
  Qed.

  Ltac ids_frame gs i :=
    eapply (ids_step _ _ gs i _ _ [] [] _ []);
    [eassumption | simpl; reflexivity | simpl; reflexivity | simpl; rewrite ?app_nil_r; reflexivity
    | simpl; lia | left; reflexivity | left; reflexivity | assumption].

  Lemma gstep_ids (h : hid) gs i g ch h' g' :
    nth_error gs i = Some g -> gstep h g ch = (h', g') ->
    ids_inv h gs -> ids_inv h' (set_nth i g' gs).
  Proof.
    intros Hn Hstep Hinv.
    destruct g as [todo live pd out ids]; simpl in *.
    destruct pd; simpl in *; gcases Hstep; try (ids_frame gs i; fail).
    - (* GAlloc from the pool *)
      eapply (ids_step _ _ gs i _ _ [] [] (h_npool h ++ map fst live) []).
      + eassumption.
      + simpl. unfold gids; simpl.
        match goal with H : nth_error (h_npool h) _ = Some _ |- _ => rewrite (remove_nth_perm _ _ _ H) at 2 end.
        simpl. symmetry. apply Permutation_middle.
      + simpl; reflexivity.
      + simpl; rewrite ?app_nil_r; reflexivity.
      + simpl; lia.
      + left; reflexivity.
      + left; reflexivity.
      + assumption.
    - (* GRelease *)
      match goal with H : nth_error gs i = Some (mkG _ (?pp :: ?ll) _ _ _) |- _ =>
        destruct pp as [oid oc];
        eapply (ids_step _ _ gs i _ _ [N.succ (h_ctr h)] [oid] (h_npool h ++ map fst ll) [N.succ (h_ctr h)]) end.
      + eassumption.
      + simpl. unfold gids; simpl. symmetry. apply Permutation_middle.
      + simpl. unfold gids; simpl. symmetry. apply Permutation_middle.
      + simpl; reflexivity.
      + apply N.le_succ_diag_r.
      + right; split; reflexivity.
      + right; split; reflexivity.
      + assumption.
    - (* PAllocNew *)
      eapply (ids_step _ _ gs i _ _ [N.succ (h_ctr h)] [] (h_npool h ++ map fst live) [N.succ (h_ctr h)]).
      + eassumption.
      + simpl. unfold gids; simpl. symmetry. apply Permutation_middle.
      + simpl; reflexivity.
      + simpl; reflexivity.
      + apply N.le_succ_diag_r.
      + right; split; reflexivity.
      + right; split; reflexivity.
      + assumption.
    - (* PReleasePut *)
      eapply (ids_step _ _ gs i _ _ [] [] (h_npool h ++ id :: map fst live) []).
      + eassumption.
      + simpl. unfold gids; simpl. apply Permutation_middle.
      + simpl. reflexivity.
      + simpl; rewrite ?app_nil_r; reflexivity.
      + simpl; lia.
      + left; reflexivity.
      + left; reflexivity.
      + assumption.
  Qed.

  Lemma node_mono_local (h h' : hid) gs i g g' :
    nth_error gs i = Some g -> (h_ctr h <= h_ctr h')%N ->
    (forall x, In x (h_npool h') -> In x (h_npool h) \/ In x (pend_ids (g_pend g)) \/ (h_ctr h < x)%N) ->
    (forall x, In x (pend_ids (g_pend g')) ->
       In x (pend_ids (g_pend g)) \/ In x (h_npool h) \/ (h_ctr h < x)%N) ->
    (forall x c, In (x, c) (g_live g') -> In (x, c) (g_live g) \/ (h_ctr h < x)%N \/ In x (h_npool h)) ->
    forall id b, node_P h gs id b -> node_P h' (set_nth i g' gs) id b.
  Proof.
    intros Hn Hc H1 H2 H3 id b. apply node_P_mono; [exact Hc| |].
    - intros x Hin. apply in_app_or in Hin as [Hin|Hin].
      + destruct (H1 x Hin) as [H|[H|H]]; [left; apply in_or_app; auto| |right; auto].
        left. apply in_or_app. right. unfold pendids. apply in_concat.
        exists (pend_ids (g_pend g)). split; [|exact H].
        apply (in_map (fun g => pend_ids (g_pend g))). eapply nth_error_In; eauto.
      + destruct (in_concat_set_nth (fun g => pend_ids (g_pend g)) i gs g g' Hn) as (Ha & _ & _).
        apply Ha in Hin as [Hin|Hin].
        * destruct (H2 x Hin) as [H|[H|H]]; [|left; apply in_or_app; auto|right; auto].
          left. apply in_or_app. right. unfold pendids. apply in_concat.
          exists (pend_ids (g_pend g)). split; [|exact H].
          apply (in_map (fun g => pend_ids (g_pend g))). eapply nth_error_In; eauto.
        * left. apply in_or_app. right. exact Hin.
    - intros x c Hin.
      destruct (in_concat_set_nth g_live i gs g g' Hn) as (Ha & _ & _).
      apply Ha in Hin as [Hin|Hin]; [|left; exact Hin].
      destruct (H3 x c Hin) as [H|[H|H]]; [|right; left; auto|right; right; apply in_or_app; auto].
      left. unfold allnodes. apply in_concat. exists (g_live g). split; [|exact H].
      apply in_map. eapply nth_error_In; eauto.
  Qed.

  (* a live node's ID is nobody else's: not pooled, not pending, and no other live node has it *)
  Lemma live_id_unique (h : hid) gs i g id b :
    ids_inv h gs -> nth_error gs i = Some g -> In (id, b) (g_live g) ->
    (id <= h_ctr h)%N /\ ~ In id (h_npool h) /\
    (forall j g2, nth_error gs j = Some g2 -> In id (gids g2) -> j = i) /\
    ~ In id (pend_ids (g_pend g)) /\
    (forall c, In (id, c) (g_live g) -> c = b).
  Proof.
    intros (Hnd & Hle & _) Hn Hin. unfold allids in *.
    assert (Hg : In id (gids g)).
    { unfold gids. apply in_or_app. right. apply in_map_iff. exists (id, b). auto. }
    assert (Hall : In id (concat (map gids gs))).
    { apply in_concat. exists (gids g). split; [|exact Hg]. apply in_map. eapply nth_error_In; eauto. }
    split.
    { rewrite Forall_forall in Hle. apply Hle. apply elem_of_list_In. apply in_or_app. right; exact Hall. }
    split.
    { intros Hp. eapply NoDup_app_In; eauto. }
    apply NoDup_app in Hnd as (_ & _ & Hnd).
    split.
    { intros j g2 Hj Hin2. eapply (NoDup_concat_unique gids gs j i g2 g id); eauto. }
    assert (Hgd : NoDup (gids g)).
    { eapply NoDup_concat_each; eauto. eapply nth_error_In; eauto. }
    unfold gids in Hgd. split.
    { intros Hp. eapply NoDup_app_In; eauto. apply in_map_iff. exists (id, b). auto. }
    intros c Hc. apply NoDup_app in Hgd as (_ & _ & Hgd). eapply NoDup_fst_inj; eauto.
  Qed.

  Ltac node_frame Hn :=
    eapply lru_ok_mono; [|eassumption];
    apply (node_mono_local _ _ _ _ _ _ Hn); simpl;
    [first [apply N.le_succ_diag_r | lia] | intros; auto | intros; auto | intros; auto].

  Lemma gstep_node (h : hid) gs i g ch h' g' :
    nth_error gs i = Some g -> gstep h g ch = (h', g') ->
    ids_inv h gs -> pend_ok g ->
    lru_ok (node_P h gs) (h_node h) -> lru_ok (node_P h' (set_nth i g' gs)) (h_node h').
  Proof.
    intros Hn Hstep Hids Hpo Hnode. unfold pend_ok in Hpo.
    destruct g as [todo live pd out ids]; simpl in *.
    destruct pd; simpl in *; gcases Hstep; try (node_frame Hn; fail).
    - (* GAlloc from the pool *)
      eapply lru_ok_mono; [|eassumption].
      apply (node_mono_local _ _ _ _ _ _ Hn); simpl; [lia| | |].
      + intros x Hx. left. eapply remove_nth_sub; eauto.
      + intros; auto.
      + intros x c0 [Hx|Hx]; [|auto]. inversion Hx; subst. right; right. eapply nth_error_In; eauto.
    - (* GRelease *)
      eapply lru_ok_mono; [|eassumption].
      apply (node_mono_local _ _ _ _ _ _ Hn); simpl; [apply N.le_succ_diag_r| | |].
      + intros; auto.
      + intros x [Hx|[]]. subst. right; right. lia.
      + intros; auto.
    - (* PAllocNew *)
      eapply lru_ok_mono; [|eassumption].
      apply (node_mono_local _ _ _ _ _ _ Hn); simpl; [apply N.le_succ_diag_r| | |].
      + intros; auto.
      + intros; auto.
      + intros x c0 [Hx|Hx]; [|auto]. inversion Hx; subst. right; left. lia.
    - (* PReleasePut *)
      eapply lru_ok_mono; [|eassumption].
      apply (node_mono_local _ _ _ _ _ _ Hn); simpl; [lia| | |].
      + intros x [Hx|Hx]; auto.
      + intros x [].
      + intros; auto.
    - (* node cache hit *)
      match goal with H : lru_get _ ?id = _ |- _ =>
        destruct (lru_get_ok _ (h_node h) id Hnode) as [_ Hc]; rewrite H in Hc end.
      simpl in Hc. eapply lru_ok_mono; [|exact Hc].
      apply (node_mono_local _ _ _ _ _ _ Hn); simpl; [lia|intros; auto|intros; auto|intros; auto].
    - (* node cache add *)
      destruct Hpo as (Hc & Hj & k & Hk & Hnk).
      assert (Hlive : In (id, b) live) by (eapply nth_error_In; eauto).
      destruct (live_id_unique h gs i _ id b Hids Hn Hlive) as (Hle & Hnp & Huniq & Hnpend & Hfun).
      apply lru_add_ok.
      + eapply lru_ok_mono; [|eassumption].
        apply (node_mono_local _ _ _ _ _ _ Hn); simpl; [lia|intros; auto|intros; auto|intros; auto].
      + split; [exact Hle|]. split.
        * intros Hin. apply in_app_or in Hin as [Hin|Hin]; [contradiction|].
          unfold pendids in Hin. apply in_concat in Hin as (l0 & Hl0 & Hin0).
          apply in_map_iff in Hl0 as (g2 & <- & Hg2).
          apply In_nth_error in Hg2 as (jx & Hjx).
          destruct (Nat.eq_dec jx i) as [->|Hne].
          -- rewrite (nth_error_set_nth_eq _ _ _ _ Hn) in Hjx. inversion Hjx; subst. simpl in Hin0. contradiction.
          -- rewrite nth_error_set_nth_ne in Hjx by auto.
             apply Hne. eapply Huniq; eauto. unfold gids. apply in_or_app; left; exact Hin0.
        * intros c Hin. unfold allnodes in Hin. apply in_concat in Hin as (l0 & Hl0 & Hin0).
          apply in_map_iff in Hl0 as (g2 & <- & Hg2).
          apply In_nth_error in Hg2 as (jx & Hjx).
          destruct (Nat.eq_dec jx i) as [->|Hne].
          -- rewrite (nth_error_set_nth_eq _ _ _ _ Hn) in Hjx. inversion Hjx; subst. simpl in Hin0. auto.
          -- rewrite nth_error_set_nth_ne in Hjx by auto.
             exfalso. apply Hne. eapply Huniq; eauto. unfold gids. apply in_or_app; right.
             apply in_map_iff. exists (id, c). auto.
  Qed.

  (* ---- every step of every schedule preserves the invariant ------------------------------------ *)
  Lemma Forall2_In_l {A B} (P : A -> B -> Prop) l l' i x :
    Forall2 P l l' -> nth_error l i = Some x -> exists y, nth_error l' i = Some y /\ P x y.
  Proof. apply Forall2_nth_error. Qed.

  Lemma set_nth_Forall2_l {A B} (P : A -> B -> Prop) : forall i (l : list A) (l' : list B) x y,
    Forall2 P l l' -> nth_error l' i = Some y -> P x y -> Forall2 P (set_nth i x l) l'.
  Proof. exact (set_nth_Forall2 P). Qed.

  Lemma inv_cstep sch opss c c' : cstep c c' -> Inv sch opss c -> Inv sch opss c'.
  Proof.
    intros Hstep. destruct Hstep as [h gs i g ch h' g' Hn Hg | h gs j | h gs j];
      intros (Hs & Hvm & Hprog & Hxc & Hids & Hnode & Hgok).
    - destruct (Forall2_In_l _ _ _ _ _ Hgok Hn) as (ops0 & Hops & Hok).
      assert (Hin : In g gs) by (eapply nth_error_In; eauto).
      destruct (gstep_caches h g ch h' g' Hvm Hprog Hxc (proj1 (proj2 Hok)) Hg) as (Hvm' & Hprog' & Hxc').
      split. { pose proof (gstep_schema h g ch) as E. rewrite Hg in E. simpl in E. congruence. }
      split; [exact Hvm'|]. split; [exact Hprog'|]. split; [exact Hxc'|].
      split; [eapply gstep_ids; eauto|].
      split; [eapply gstep_node; eauto; apply Hok|].
      eapply set_nth_Forall2_l; eauto. eapply gstep_gok; eauto.
    - simpl. split; [auto|]. split; [apply remove_nth_ok; exact Hvm|]. split; [auto|]. split; [auto|].
      split; [exact Hids|]. split; [exact Hnode|exact Hgok].
    - simpl. split; [auto|]. split; [auto|]. split; [auto|]. split; [auto|].
      assert (Hsub : forall x, In x (remove_nth j (h_npool h)) -> In x (h_npool h))
        by (intros x; apply remove_nth_sub).
      split; [|split; [|exact Hgok]].
      + destruct Hids as (Hnd & Hle & Hrest). split; [|split; [|exact Hrest]]; unfold allids in *; simpl.
        * apply NoDup_app in Hnd as (H1 & H2 & H3). apply NoDup_app. split; [apply remove_nth_NoDup; exact H1|].
          split; [|exact H3]. intros x Hx. apply H2. apply elem_of_list_In. apply Hsub. apply elem_of_list_In. exact Hx.
        * apply Forall_app in Hle as [H1 H2]. apply Forall_app. split; [|exact H2].
          rewrite Forall_forall in *. intros x Hx. apply H1. apply elem_of_list_In. apply Hsub.
          apply elem_of_list_In. exact Hx.
      + simpl. eapply lru_ok_mono; [|exact Hnode]. intros id b. apply node_P_mono; simpl; [lia| |auto].
        intros x Hx. left. apply in_app_or in Hx as [Hx|Hx]; apply in_or_app; auto.
  Qed.

  Lemma inv_interleave sch opss c c' : interleave c c' -> Inv sch opss c -> Inv sch opss c'.
  Proof. induction 1 as [|c1 c2 c3 Hs _ IH]; auto. intros H. apply IH. eapply inv_cstep; eauto. Qed.

  (* ---- initial configurations --------------------------------------------------------------------- *)
  Definition hid_ok (sch : S) (h : hid) : Prop :=
    h_schema h = sch /\ pool_ok r (h_vms h) /\
    lru_ok (fun js p => compile js = Some p) (h_prog h) /\
    lru_ok (fun e v => v = xcompile e) (h_xc h) /\
    NoDup (h_npool h) /\ Forall (fun id => (id <= h_ctr h)%N) (h_npool h) /\
    lru_ok (fun id _ => (id <= h_ctr h)%N /\ ~ In id (h_npool h)) (h_node h).

  Lemma concat_map_nil {A B} (f : A -> list B) l : (forall x, f x = []) -> concat (map f l) = [].
  Proof. intros H. induction l; simpl; auto. rewrite H, IHl. reflexivity. Qed.

  Lemma Inv_init sch opss (h : hid) :
    hid_ok sch h -> Forall (Forall op_wf) opss -> Inv sch opss (h, map (g_init) opss).
  Proof.
    intros (Hs & Hvm & Hprog & Hxc & Hnd & Hle & Hnode) Hwf.
    assert (E1 : concat (map gids (map g_init opss)) = []).
    { rewrite map_map. apply concat_map_nil. reflexivity. }
    assert (E2 : alllogs (map g_init opss) = []).
    { unfold alllogs. rewrite map_map. apply concat_map_nil. reflexivity. }
    assert (E3 : pendids (map g_init opss) = []).
    { unfold pendids. rewrite map_map. apply concat_map_nil. reflexivity. }
    assert (E4 : allnodes (map g_init opss) = []).
    { unfold allnodes. rewrite map_map. apply concat_map_nil. reflexivity. }
    split; [exact Hs|]. split; [exact Hvm|]. split; [exact Hprog|]. split; [exact Hxc|]. split.
    - unfold ids_inv, allids. rewrite E1, E2, app_nil_r. repeat split; auto; try constructor.
      apply Forall_forall. intros g Hg. apply elem_of_list_fmap in Hg as (ops & -> & _). reflexivity.
    - split.
      + eapply lru_ok_mono; [|exact Hnode]. intros id b [H1 H2]. split; [exact H1|]. split.
        * rewrite E3, app_nil_r. exact H2.
        * rewrite E4. intros c [].
      + induction Hwf as [|ops opss Ho Hwf IH]; simpl; constructor; auto.
        split; [exact Ho|]. split; [exact I|]. reflexivity.
  Qed.

  (* ---- main theorems ------------------------------------------------------------------------------ *)
  (* For every path of the interleaving relation: what goroutine g has output so far is a prefix
     of what its operations mean with no shared state at all, and all of it once g has finished. *)
  Theorem interleaving_spec sch opss (h : hid) c' :
    hid_ok sch h -> Forall (Forall op_wf) opss ->
    interleave (h, map g_init opss) c' ->
    Forall2 (fun g ops =>
       (exists rest, spec_outs sch [] ops = g_out g ++ rest) /\
       (finished g -> g_out g = spec_outs sch [] ops)) (snd c') opss.
  Proof.
    intros Hh Hwf Hil. pose proof (inv_interleave sch opss _ _ Hil (Inv_init sch opss h Hh Hwf)) as Hinv.
    destruct c' as [h' gs']. destruct Hinv as (_ & _ & _ & _ & _ & _ & Hgok). simpl.
    eapply Forall2_impl; [exact Hgok|]. intros g ops (_ & _ & Hsp). split.
    - eexists. symmetry. exact Hsp.
    - intros [Ht Hp]. rewrite Ht, Hp in Hsp. simpl in Hsp. rewrite !app_nil_r in Hsp. exact Hsp.
  Qed.

  (* running alone is one particular schedule of a one-goroutine configuration *)
  Lemma run_alone_interleave : forall fuel (h : hid) g,
    interleave (h, [g]) (fst (run_alone S r compile xcompile xeval fuel h g),
                         [snd (run_alone S r compile xcompile xeval fuel h g)]).
  Proof.
    induction fuel as [|k IH]; intros h g; simpl; [constructor|].
    assert (Hstep : forall h1 g1, gstep h g (ChPool 0) = (h1, g1) ->
              interleave (h, [g]) (fst (run_alone S r compile xcompile xeval k h1 g1),
                                   [snd (run_alone S r compile xcompile xeval k h1 g1)])).
    { intros h1 g1 E. eapply il_step; [|apply IH].
      apply (cs_act S r compile xcompile xeval h [g] 0 g (ChPool 0) h1 g1); auto. }
    destruct (g_todo g) eqn:Et; destruct (g_pend g) eqn:Ep;
      try (destruct (gstep h g (ChPool 0)) as [h1 g1] eqn:E; simpl; apply Hstep; reflexivity).
    simpl. constructor.
  Qed.

  (* outputs of g under ANY schedule among ANY other goroutines = outputs of g run alone from ANY
     shared state satisfying the invariant *)
  Theorem interleaving_invisible sch opss (h : hid) c' i g ops fuel (h0 : hid) :
    hid_ok sch h -> Forall (Forall op_wf) opss ->
    interleave (h, map g_init opss) c' ->
    nth_error (snd c') i = Some g -> nth_error opss i = Some ops -> finished g ->
    hid_ok sch h0 ->
    finished (snd (run_alone S r compile xcompile xeval fuel h0 (g_init ops))) ->
    g_out g = g_out (snd (run_alone S r compile xcompile xeval fuel h0 (g_init ops))).
  Proof.
    intros Hh Hwf Hil Hg Hops Hfin Hh0 Hfin0.
    pose proof (interleaving_spec sch opss h c' Hh Hwf Hil) as H1.
    destruct (Forall2_nth_error _ _ _ _ _ H1 Hg) as (ops' & Hops' & _ & Hsp).
    rewrite Hops in Hops'. inversion Hops'; subst ops'.
    assert (Hwf1 : Forall (Forall op_wf) [ops]).
    { constructor; [|constructor]. rewrite Forall_forall in Hwf. apply Hwf. apply elem_of_list_In.
      eapply nth_error_In; eauto. }
    pose proof (interleaving_spec sch [ops] h0 _ Hh0 Hwf1 (run_alone_interleave fuel h0 (g_init ops))) as H2.
    simpl in H2. inversion H2 as [|? ? ? ? [_ Hsp0] _]; subst.
    rewrite (Hsp Hfin), (Hsp0 Hfin0). reflexivity.
  Qed.

  (* ---- the counter ---------------------------------------------------------------------------------- *)
  Lemma gstep_log (h : hid) g ch :
    let '(h', g') := gstep h g ch in
    (h_ctr h' = h_ctr h /\ g_ids g' = g_ids g) \/
    (h_ctr h' = N.succ (h_ctr h) /\ g_ids g' = g_ids g ++ [N.succ (h_ctr h)]).
  Proof.
    destruct (gstep h g ch) as [h' g'] eqn:Hstep.
    destruct g as [todo live pd out ids]; simpl in *.
    destruct pd; simpl in *; gcases Hstep; auto.
  Qed.

  Definition log_lower (c0 : N) (c : conf S) : Prop :=
    (c0 <= h_ctr (fst c))%N /\ Forall (fun id => (c0 < id)%N) (alllogs (snd c)).

  Lemma log_lower_interleave c0 c c' : interleave c c' -> log_lower c0 c -> log_lower c0 c'.
  Proof.
    induction 1 as [|c1 c2 c3 Hs _ IH]; auto. intros H. apply IH. clear IH.
    destruct Hs as [h gs i g ch h' g' Hn Hg | h gs j | h gs j]; [|exact H|exact H].
    destruct H as [H1 H2]; simpl in *. pose proof (gstep_log h g ch) as Hl. rewrite Hg in Hl.
    destruct (concat_map_split g_ids i gs g Hn) as (L & L1 & L2).
    unfold log_lower, alllogs in *; simpl.
    rewrite (L2 g'). rewrite L1 in H2. apply Forall_app in H2 as [Ha Hb].
    destruct Hl as [[E1 E2]|[E1 E2]]; rewrite E1, E2.
    - split; [exact H1|]. apply Forall_app; auto.
    - split; [lia|]. apply Forall_app. split; [|exact Hb]. apply Forall_app. split; [exact Ha|].
      constructor; [lia|constructor].
  Qed.

  (* IDs obtained from the counter, under every interleaving: pairwise distinct over all
     goroutines, increasing per goroutine, all in (c0, counter] *)
  Theorem ids_unique_increasing sch opss (h : hid) c' :
    hid_ok sch h -> Forall (Forall op_wf) opss ->
    interleave (h, map g_init opss) c' ->
    NoDup (alllogs (snd c')) /\
    Forall (fun g => increasing (g_ids g) = true) (snd c') /\
    Forall (fun id => (h_ctr h < id <= h_ctr (fst c'))%N) (alllogs (snd c')).
  Proof.
    intros Hh Hwf Hil.
    pose proof (inv_interleave sch opss _ _ Hil (Inv_init sch opss h Hh Hwf)) as Hinv.
    assert (Hl0 : log_lower (h_ctr h) (h, map g_init opss)).
    { split; simpl; [lia|]. unfold alllogs. rewrite map_map, concat_map_nil; [constructor|reflexivity]. }
    pose proof (log_lower_interleave _ _ _ Hil Hl0) as [_ Hlow].
    destruct c' as [h' gs']. destruct Hinv as (_ & _ & _ & _ & (_ & _ & Hnd & Hle & Hinc) & _). simpl in *.
    split; [exact Hnd|]. split; [exact Hinc|].
    rewrite Forall_forall in *. intros x Hx. split; [apply Hlow|apply Hle]; exact Hx.
  Qed.

  (* ---- every step performs at most one of the listed atomic actions ------------------------------ *)
  Notation act_apply := (act_apply S r).

  Lemma gstep_one_action (h : hid) g ch : exists a, fst (gstep h g ch) = act_apply a h.
  Proof.
    destruct (gstep h g ch) as [h' g'] eqn:Hstep. simpl.
    destruct g as [todo live pd out ids]; simpl in *.
    destruct pd; simpl in *; gcases Hstep;
      try (exists ANone; reflexivity);
      try (exists AFetchAdd; reflexivity);
      try (eexists (ANodePoolTake _); reflexivity);
      try (eexists (ANodePoolPut _); reflexivity);
      try (eexists (AXAdd _ _); reflexivity);
      try (eexists (APAdd _ _); reflexivity);
      try (eexists (ANAdd _ _); reflexivity);
      try (eexists (AVmPut _); reflexivity);
      try (match goal with H : lru_get (h_xc h) ?e = _ |- _ => exists (AXGet e); simpl; rewrite H; reflexivity end);
      try (match goal with H : lru_get (h_prog h) ?e = _ |- _ => exists (APGet e); simpl; rewrite H; reflexivity end);
      try (match goal with H : lru_get (h_node h) ?e = _ |- _ => exists (ANGet e); simpl; rewrite H; reflexivity end);
      try (match goal with H : pool_get r ?c (h_vms h) = _ |- _ => exists (AVmTake c); simpl; rewrite H; reflexivity end).
  Qed.

  (* ---- schema creation ---------------------------------------------------------------------------- *)
  Lemma spec_outs_compile sch lc es :
    spec_outs sch lc (new_schema_ops es) = map (fun e => OutC (xcompile e)) es.
  Proof. induction es as [|e es IH]; simpl; [reflexivity|]. f_equal. exact IH. Qed.

  Lemma new_schema_ops_wf es : Forall op_wf (new_schema_ops es).
  Proof. induction es; simpl; constructor; auto. exact I. Qed.

  (* NewSchema running among ANY other goroutines (transforms, other NewSchema calls), from ANY
     shared state satisfying the invariant, returns the pure validation function applied to its
     own arguments and the compilation (a function of the text) of its own xpaths / regexps:
     it reads nothing else, and (schema_readonly / inv_cstep) writes nothing but cache entries *)
  Theorem new_schema_reads_args_only {A R} (validate : A -> list N -> R) (args : A)
      sch opss (h : hid) c' i g es :
    hid_ok sch h -> Forall (Forall op_wf) opss ->
    interleave (h, map g_init opss) c' ->
    nth_error opss i = Some (new_schema_ops es) -> nth_error (snd c') i = Some g -> finished g ->
    new_schema_result validate args (g_out g) = validate args (map xcompile es).
  Proof.
    intros Hh Hwf Hil Hops Hg Hfin.
    pose proof (interleaving_spec sch opss h c' Hh Hwf Hil) as H1.
    destruct (Forall2_nth_error _ _ _ _ _ H1 Hg) as (ops' & Hops' & _ & Hsp).
    rewrite Hops in Hops'. inversion Hops'; subst ops'.
    rewrite (Hsp Hfin), spec_outs_compile. unfold new_schema_result. f_equal.
    clear. induction es as [|e es IH]; simpl; [reflexivity|]. f_equal. exact IH.
  Qed.
End ConcProofs.

(* ---- the process-wide variables of the sources are the components of the model -------------------- *)
Lemma process_state_accounted : forallb var_ok OV.Gen.PkgVars.pkg_vars = true.
Proof. vm_compute. reflexivity. Qed.

Lemma shared_components_real : forallb component_real all_components = true.
Proof. vm_compute. reflexivity. Qed.

Lemma all_components_complete : forall c, In c all_components.
Proof. intros []; simpl; auto 10. Qed.
