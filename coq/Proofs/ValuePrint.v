(* C02 proofs: the printed forms of numbers and booleans carry no surrounding white space, so
   trimming them (the parent's second normalisation of a child's value) is the identity. *)
From Coq Require Import String List ZArith NArith Bool Lia.
From Coq.Strings Require Import Byte.
Import ListNotations.
From OV Require Import Base.Bytes Base.Cases Gen.Conv Model.Value Proofs.Value.

Lemma trim_left_fix encs n s : strip_any encs s = None -> trim_left_with encs n s = s.
Proof. intro H. destruct n; simpl; [reflexivity|]. rewrite H. reflexivity. Qed.

Lemma trimmed_trim_id s : trimmed s -> trim_space s = s.
Proof.
  intros [H1 H2]. unfold trim_space, trim_left, trim_right.
  rewrite (trim_left_fix _ _ _ H1). fold ws_rev. rewrite (trim_left_fix _ _ _ H2). apply rev_involutive.
Qed.

Lemma trim_space_idem s : trim_space (trim_space s) = trim_space s.
Proof. apply trimmed_trim_id. apply trim_space_trimmed. Qed.

(* a byte that starts no white-space encoding, forwards or backwards *)
Definition starts (b : byte) (e : bytes) : bool := match e with x :: _ => Byte.eqb x b | [] => true end.
Definition is_plain (b : byte) : bool :=
  negb (existsb (starts b) ws_encodings) && negb (existsb (starts b) ws_rev).

Lemma strip_any_head encs b r : existsb (starts b) encs = false -> strip_any encs (b :: r) = None.
Proof.
  induction encs as [|e t IH]; simpl; [reflexivity|].
  intro H. apply orb_false_elim in H as [H1 H2].
  destruct e as [|x p]; [discriminate|]. simpl in H1. simpl. rewrite H1. apply IH. exact H2.
Qed.

Lemma strip_any_nil_ws : strip_any ws_encodings [] = None /\ strip_any ws_rev [] = None.
Proof. split; reflexivity. Qed.

Lemma plain_trimmed s : Forall (fun b => is_plain b = true) s -> trimmed s.
Proof.
  intro H. split.
  - destruct s as [|b r]; [apply strip_any_nil_ws|]. inversion H as [|? ? Hb _]; subst.
    apply strip_any_head. unfold is_plain in Hb. apply andb_prop in Hb as [Hb _]. apply negb_true_iff. exact Hb.
  - apply Forall_rev in H. destruct (rev s) as [|b r]; [apply strip_any_nil_ws|]. inversion H as [|? ? Hb _]; subst.
    apply strip_any_head. unfold is_plain in Hb. apply andb_prop in Hb as [_ Hb]. apply negb_true_iff. exact Hb.
Qed.

Definition plainP (b : byte) : Prop := is_plain b = true.

Lemma digit_plain k : (k < 10)%N -> plainP (byte_of_N (48 + k)).
Proof.
  intro H.
  assert (A : forallb (fun j => is_plain (byte_of_N (48 + N.of_nat j))) (seq 0 10) = true) by (vm_compute; reflexivity).
  rewrite forallb_forall in A. specialize (A (N.to_nat k)). rewrite N2Nat.id in A. apply A.
  apply in_seq. lia.
Qed.

Lemma dec_digits_plain : forall fuel n acc, Forall plainP acc -> Forall plainP (dec_digits fuel n acc).
Proof.
  induction fuel as [|f IH]; intros n acc Ha; simpl; [exact Ha|].
  assert (Hd : plainP (byte_of_N (48 + N.modulo n 10))) by (apply digit_plain; apply N.mod_lt; discriminate).
  destruct (N.ltb n 10); [constructor; assumption|]. apply IH. constructor; assumption.
Qed.

Lemma N_to_dec_plain n : Forall plainP (N_to_dec n).
Proof. apply dec_digits_plain. constructor. Qed.

Lemma Z_to_dec_plain z : Forall plainP (Z_to_dec z).
Proof.
  unfold Z_to_dec. destruct (Z.ltb z 0); [constructor; [vm_compute; reflexivity|]|]; apply N_to_dec_plain.
Qed.

Theorem print_int_trim : forall z, trim_space (Z_to_dec z) = Z_to_dec z.
Proof. intro z. apply trimmed_trim_id, plain_trimmed, Z_to_dec_plain. Qed.

Lemma Forall_firstn {A} (P : A -> Prop) n l : Forall P l -> Forall P (firstn n l).
Proof.
  rewrite !Forall_forall. intros H x Hx. apply H. rewrite <- (firstn_skipn n l). apply in_or_app. left. exact Hx.
Qed.
Lemma Forall_skipn {A} (P : A -> Prop) n l : Forall P l -> Forall P (skipn n l).
Proof.
  rewrite !Forall_forall. intros H x Hx. apply H. rewrite <- (firstn_skipn n l). apply in_or_app. right. exact Hx.
Qed.
Lemma zeros_plain n : Forall plainP (zeros n).
Proof.
  apply Forall_forall. intros x Hx. apply repeat_spec in Hx. subst. vm_compute. reflexivity.
Qed.

Lemma fmt_float_plain f : Forall plainP (fmt_float f).
Proof.
  destruct f as [m e]. unfold fmt_float.
  set (ds := N_to_dec (Z.to_N (Z.abs m))).
  assert (Hds : Forall plainP ds) by apply N_to_dec_plain.
  assert (Hdot : plainP x2e) by (vm_compute; reflexivity).
  assert (Hz : plainP x30) by (vm_compute; reflexivity).
  assert (Hbody : Forall plainP
            (if Z.leb 0 e then ds ++ zeros (Z.to_nat e)
             else let k := Z.to_nat (- e) in let n := length ds in
                  if Nat.ltb k n then firstn (n - k) ds ++ [x2e] ++ skipn (n - k) ds
                  else [x30; x2e] ++ zeros (k - n) ++ ds)).
  { destruct (Z.leb 0 e).
    - apply Forall_app. split; [exact Hds|apply zeros_plain].
    - cbv zeta. destruct (Nat.ltb _ _).
      + apply Forall_app. split; [apply Forall_firstn; exact Hds|].
        apply Forall_app. split; [constructor; [exact Hdot|constructor]|apply Forall_skipn; exact Hds].
      + apply Forall_app. split; [repeat constructor; assumption|].
        apply Forall_app. split; [apply zeros_plain|exact Hds]. }
  destruct (Z.ltb m 0); [constructor; [vm_compute; reflexivity|]|]; exact Hbody.
Qed.

Theorem print_flt_trim : forall f, trim_space (fmt_float f) = fmt_float f.
Proof. intro f. apply trimmed_trim_id, plain_trimmed, fmt_float_plain. Qed.
