(* C07 proofs, part 1: go-corelib ByteIndexWithEsc / ByteSplitWithEsc / ByteUnescape over ALL byte
   strings (no side condition on the delimiter or the escape sequence beyond non-emptiness). *)
From Coq Require Import List NArith Bool Arith Lia.
From Coq.Strings Require Import Byte.
Import ListNotations.
From OV Require Import Base.Bytes Base.Cases Base.Utf8 Gen.EdiShape Model.Edi.

(* ---- bytes, prefixes ------------------------------------------------------------------------ *)
Lemma byte_eqb_eq a b : Byte.eqb a b = true <-> a = b.
Proof.
  split; intro H.
  - apply Byte.byte_dec_bl; exact H.
  - apply Byte.byte_dec_lb; exact H.
Qed.

Lemma byte_eqb_refl a : Byte.eqb a a = true.
Proof. apply byte_eqb_eq; reflexivity. Qed.

Lemma byte_eqb_neq a b : Byte.eqb a b = false <-> a <> b.
Proof.
  split; intro H.
  - intro E. apply byte_eqb_eq in E. congruence.
  - destruct (Byte.eqb a b) eqn:E; [apply byte_eqb_eq in E; contradiction|reflexivity].
Qed.

Lemma has_prefix_spec s p : has_prefix s p = true <-> exists r, s = p ++ r.
Proof.
  revert s; induction p as [|x p IH]; intros s.
  - split; [intros _; exists s; reflexivity|intros _; destruct s; reflexivity].
  - destruct s as [|y s]; simpl.
    + split; [discriminate|intros [r Hr]; discriminate].
    + rewrite andb_true_iff, byte_eqb_eq, IH. split.
      * intros [-> [r ->]]. exists r. reflexivity.
      * intros [r Hr]. inversion Hr; subst. split; [reflexivity|exists r; reflexivity].
Qed.

Lemma has_prefix_app p r : has_prefix (p ++ r) p = true.
Proof. apply has_prefix_spec. exists r. reflexivity. Qed.

Lemma has_prefix_nil s : has_prefix s [] = true.
Proof. destruct s; reflexivity. Qed.

(* [sep] occurs in [s] at position [i] *)
Definition occ_at (s sep : bytes) (i : nat) : Prop :=
  exists u v, s = u ++ sep ++ v /\ length u = i.

Lemma occ_at_prefix s sep i :
  occ_at s sep i <-> i <= length s /\ has_prefix (skipn i s) sep = true.
Proof.
  split.
  - intros (u & v & -> & <-). split.
    + rewrite app_length. lia.
    + rewrite skipn_app, skipn_all, Nat.sub_diag. simpl. apply has_prefix_app.
  - intros [Hi H]. apply has_prefix_spec in H as [r Hr].
    exists (firstn i s), r. split.
    + rewrite <- Hr. symmetry. apply firstn_skipn.
    + apply firstn_length_le. exact Hi.
Qed.

Lemma occ_at_cons b s sep i : occ_at (b :: s) sep (S i) <-> occ_at s sep i.
Proof.
  rewrite !occ_at_prefix. simpl. split; intros [H1 H2]; (split; [lia|exact H2]).
Qed.

Lemma bindex_spec s sep :
  match bindex s sep with
  | Some i => occ_at s sep i /\ forall j, j < i -> ~ occ_at s sep j
  | None => forall j, ~ occ_at s sep j
  end.
Proof.
  induction s as [|b s IH]; cbn [bindex].
  - destruct (has_prefix [] sep) eqn:E; simpl.
    + split; [apply occ_at_prefix; simpl; auto|intros j Hj; lia].
    + intros j Hj. apply occ_at_prefix in Hj as [Hl Hp]. simpl in Hl.
      assert (j = 0) by lia. subst. cbn [skipn] in Hp. congruence.
  - destruct (has_prefix (b :: s) sep) eqn:E; simpl.
    + split; [apply occ_at_prefix; simpl; split; [lia|exact E]|intros j Hj; lia].
    + destruct (bindex s sep) as [i|]; simpl.
      * destruct IH as [IH1 IH2]. split; [apply occ_at_cons; exact IH1|].
        intros [|j] Hj Ho.
        -- apply occ_at_prefix in Ho as [_ Ho]. cbn [skipn] in Ho. congruence.
        -- apply (proj1 (occ_at_cons _ _ _ _)) in Ho. apply (IH2 j); [lia|exact Ho].
      * intros [|j] Ho.
        -- apply occ_at_prefix in Ho as [_ Ho]. cbn [skipn] in Ho. congruence.
        -- apply (proj1 (occ_at_cons _ _ _ _)) in Ho. apply (IH j). exact Ho.
Qed.

Lemma bindex_prefix s sep : has_prefix s sep = true -> bindex s sep = Some 0.
Proof. intro H. destruct s; cbn [bindex]; rewrite H; reflexivity. Qed.

Lemma bindex_some_le s sep i : bindex s sep = Some i -> i + length sep <= length s.
Proof.
  intro H. pose proof (bindex_spec s sep) as Hs. rewrite H in Hs.
  destruct Hs as [(u & v & -> & <-) _]. rewrite !app_length. lia.
Qed.

(* ---- slices ----------------------------------------------------------------------------------- *)
Lemma slice_ok s a b : a <= b -> b <= length s -> slice s a b = Ok (firstn (b - a) (skipn a s)).
Proof.
  intros H1 H2. unfold slice.
  apply Nat.leb_le in H1. apply Nat.leb_le in H2. rewrite H1, H2. reflexivity.
Qed.

Lemma slice_from_ok s a : a <= length s -> slice_from s a = Ok (skipn a s).
Proof. intro H. unfold slice_from. apply Nat.leb_le in H. rewrite H. reflexivity. Qed.

(* ---- the run of escape sequences that ends at a position --------------------------------------- *)
(* [strip_suffix e u] = Some u' iff u = u' ++ e *)
Definition strip_suffix (e u : bytes) : option bytes :=
  if (length e <=? length u) && bytes_eqb (skipn (length u - length e) u) e
  then Some (firstn (length u - length e) u) else None.

Fixpoint trailing_f (fuel : nat) (e u : bytes) : nat :=
  match fuel with
  | O => 0
  | S k => match strip_suffix e u with
           | Some u' => S (trailing_f k e u')
           | None => 0
           end
  end.
(* number of consecutive copies of [e] that [u] ends with *)
Definition trailing (e u : bytes) : nat := trailing_f (length u) e u.

(* position i of s is escaped: an odd number of escape sequences end right before it *)
Definition escaped_at (esc s : bytes) (i : nat) : Prop := Nat.odd (trailing esc (firstn i s)) = true.

Lemma strip_suffix_some e u u' : strip_suffix e u = Some u' <-> u = u' ++ e.
Proof.
  unfold strip_suffix. split.
  - destruct (length e <=? length u) eqn:E1; simpl; [|discriminate].
    destruct (bytes_eqb _ e) eqn:E2; [|discriminate].
    intro H; inversion H; subst. apply bytes_eqb_eq in E2.
    rewrite <- E2 at 2. symmetry. apply firstn_skipn.
  - intros ->. rewrite app_length.
    replace (length u' + length e - length e) with (length u') by lia.
    assert (length e <=? length u' + length e = true) as -> by (apply Nat.leb_le; lia).
    rewrite skipn_app, skipn_all, Nat.sub_diag. simpl.
    assert (bytes_eqb e e = true) as -> by (apply bytes_eqb_eq; reflexivity).
    rewrite firstn_app, Nat.sub_diag, firstn_all. simpl. rewrite app_nil_r. reflexivity.
Qed.

Lemma strip_suffix_none e u : strip_suffix e u = None <-> forall u', u <> u' ++ e.
Proof.
  split.
  - intros H u' E. apply strip_suffix_some in E. congruence.
  - intro H. destruct (strip_suffix e u) as [u'|] eqn:E; [|reflexivity].
    apply strip_suffix_some in E. exfalso. apply (H u'). exact E.
Qed.

Lemma trailing_f_enough e : e <> [] -> forall k u, length u <= k -> trailing_f k e u = trailing e u.
Proof.
  intro He. unfold trailing.
  assert (forall k1 k2 u, length u <= k1 -> length u <= k2 -> trailing_f k1 e u = trailing_f k2 e u) as H.
  { induction k1 as [|k1 IH]; intros k2 u H1 H2.
    - destruct u; [|simpl in H1; lia]. destruct k2; simpl; [reflexivity|].
      destruct (strip_suffix e []) as [u'|] eqn:E; [|reflexivity].
      apply strip_suffix_some in E. destruct u'; destruct e; simpl in E; congruence.
    - destruct k2 as [|k2].
      + destruct u; [|simpl in H2; lia]. simpl.
        destruct (strip_suffix e []) as [u'|] eqn:E; [|reflexivity].
        apply strip_suffix_some in E. destruct u'; destruct e; simpl in E; congruence.
      + simpl. destruct (strip_suffix e u) as [u'|] eqn:E; [|reflexivity].
        apply strip_suffix_some in E. subst u. rewrite app_length in H1, H2.
        destruct e; [congruence|]. simpl in H1, H2. f_equal. apply IH; lia. }
  intros k u Hk. apply H; [exact Hk|lia].
Qed.

Lemma trailing_app e u : e <> [] -> trailing e (u ++ e) = S (trailing e u).
Proof.
  intro He. unfold trailing at 1. rewrite app_length.
  destruct e as [|b e]; [congruence|]. simpl length. rewrite Nat.add_succ_r. simpl.
  assert (strip_suffix (b :: e) (u ++ b :: e) = Some u) as -> by (apply strip_suffix_some; reflexivity).
  f_equal. apply trailing_f_enough; [discriminate|lia].
Qed.

Lemma trailing_none e u : (forall u', u <> u' ++ e) -> trailing e u = 0.
Proof.
  intro H. apply strip_suffix_none in H. unfold trailing. destruct (length u); simpl; [reflexivity|].
  rewrite H. reflexivity.
Qed.

Lemma app_eq_length_r {A} (a b c d : list A) :
  length b = length d -> a ++ b = c ++ d -> a = c /\ b = d.
Proof.
  intros Hl H. assert (length a = length c) as Hac.
  { apply (f_equal (@length A)) in H. rewrite !app_length in H. lia. }
  revert c H Hac. induction a as [|x a IH]; intros [|y c] H Hac; simpl in *; try lia.
  - auto.
  - inversion H; subst. destruct (IH c) as [-> ->]; auto.
Qed.

Lemma app_eq_length_l {A} (a b c d : list A) :
  length a = length c -> a ++ b = c ++ d -> a = c /\ b = d.
Proof.
  revert c. induction a as [|x a IH]; intros [|y c] Hl H; simpl in *; try lia.
  - auto.
  - inversion H; subst. destruct (IH c) as [-> ->]; auto.
Qed.

(* ---- isEscPreceding ---------------------------------------------------------------------------- *)
Lemma bindex_same_length w e : length w = length e ->
  (exists i, bindex w e = Some i) <-> w = e.
Proof.
  intro Hl. pose proof (bindex_spec w e) as Hs. split.
  - intros [i Hi]. rewrite Hi in Hs. destruct Hs as [(u & v & -> & _) _].
    rewrite !app_length in Hl. destruct u; [|simpl in Hl; lia]. destruct v; [|simpl in Hl; lia].
    simpl. apply app_nil_r.
  - intros ->. destruct (bindex e e) as [i|]; [eauto|]. exfalso. apply (Hs 0).
    exists [], []. simpl. rewrite app_nil_r. auto.
Qed.

Lemma esc_preceding_spec esc : esc <> [] -> forall fuel s i found,
  i <= length s -> i < fuel ->
  esc_preceding fuel s esc i found = Ok (Nat.odd (found + trailing esc (firstn i s))).
Proof.
  intros He fuel. induction fuel as [|k IH]; intros s i found Hi Hf; [lia|].
  simpl. destruct (length esc <=? i) eqn:E.
  - apply Nat.leb_le in E. rewrite slice_ok by lia. simpl.
    replace (i - (i - length esc)) with (length esc) by lia.
    set (w := firstn (length esc) (skipn (i - length esc) s)).
    assert (Hw : length w = length esc).
    { unfold w. rewrite firstn_length, skipn_length. lia. }
    assert (Hsplit : firstn i s = firstn (i - length esc) s ++ w).
    { unfold w. rewrite <- (firstn_skipn (i - length esc) (firstn i s)) at 1. f_equal.
      - rewrite firstn_firstn. f_equal. lia.
      - rewrite skipn_firstn_comm. f_equal. lia. }
    destruct (bindex w esc) as [j|] eqn:Ej.
    + assert (w = esc) as Hwe by (apply bindex_same_length; eauto).
      rewrite IH; [|lia|destruct esc; [congruence|cbn [length] in *; lia]].
      rewrite Hsplit, Hwe, trailing_app by exact He. f_equal. f_equal. lia.
    + f_equal. rewrite trailing_none; [f_equal; lia|].
      intros u' Hu. rewrite Hsplit in Hu.
      assert (w = esc) as Hwe.
      { apply app_eq_length_r in Hu; [apply Hu|exact Hw]. }
      assert (exists j, bindex w esc = Some j) as [j Hj] by (apply bindex_same_length; assumption).
      congruence.
  - apply Nat.leb_gt in E. f_equal. rewrite trailing_none; [f_equal; lia|].
    intros u' Hu. apply (f_equal (@length byte)) in Hu. rewrite firstn_length, app_length in Hu. lia.
Qed.

(* ---- utf8.DecodeRune: what the index loop needs ----------------------------------------------- *)
Local Open Scope N_scope.

Ltac decode_cases :=
  repeat match goal with
         | |- context [if ?c then _ else _] => destruct c eqn:?
         | |- context [match ?l with [] => _ | _ :: _ => _ end] => destruct l
         end.

Lemma decode_rune_size s : s <> [] -> (1 <= snd (decode_rune s) <= length s)%nat.
Proof.
  destruct s as [|b0 r]; [congruence|]. intros _. unfold decode_rune.
  decode_cases; simpl; lia.
Qed.

Lemma in_range_cont lo hi b : 128 <= lo -> hi <= 191 -> in_range lo hi b = true -> 128 <= b2n b <= 191.
Proof.
  unfold in_range. intros H1 H2 H. apply andb_prop in H as [Ha Hb].
  apply N.leb_le in Ha. apply N.leb_le in Hb. lia.
Qed.

(* a rune decoded with size > 1 starts with a byte >= 0xC2 and continues with bytes 0x80..0xBF *)
Lemma decode_rune_multi b0 r x n :
  decode_rune (b0 :: r) = (x, n) -> (1 < n)%nat ->
  194 <= b2n b0 /\
  forall k, (k < n - 1)%nat -> exists c, nth_error r k = Some c /\ 128 <= b2n c <= 191.
Proof.
  unfold decode_rune. intros H Hn.
  destruct (b2n b0 <? 128) eqn:E1; [inversion H; subst; lia|].
  destruct (b2n b0 <? 194) eqn:E2; [inversion H; subst; lia|].
  apply N.ltb_ge in E2. split; [exact E2|].
  destruct (b2n b0 <? 224) eqn:E3.
  { destruct r as [|b1 r]; [inversion H; subst; lia|].
    destruct (in_range 128 191 b1) eqn:R1; [|inversion H; subst; lia].
    inversion H; subst. intros k Hk. assert (k = 0%nat) by lia. subst. simpl.
    exists b1. split; [reflexivity|]. apply (in_range_cont 128 191); [lia|lia|exact R1]. }
  destruct (b2n b0 <? 240) eqn:E4.
  { destruct r as [|b1 [|b2 r]]; try (inversion H; subst; lia).
    match type of H with (if ?c then _ else _) = _ => destruct c eqn:R end; [|inversion H; subst; lia].
    apply andb_prop in R as [R1 R2]. inversion H; subst. intros k Hk.
    destruct k as [|[|k]]; [| |lia]; simpl.
    - exists b1. split; [reflexivity|].
      eapply in_range_cont; [| |exact R1]; destruct (b2n b0 =? 224); destruct (b2n b0 =? 237); lia.
    - exists b2. split; [reflexivity|]. apply (in_range_cont 128 191); [lia|lia|exact R2]. }
  destruct (b2n b0 <? 245) eqn:E5; [|inversion H; subst; lia].
  destruct r as [|b1 [|b2 [|b3 r]]]; try (inversion H; subst; lia).
  match type of H with (if ?c then _ else _) = _ => destruct c eqn:R end; [|inversion H; subst; lia].
  apply andb_prop in R as [R12 R3]. apply andb_prop in R12 as [R1 R2]. inversion H; subst. intros k Hk.
  destruct k as [|[|[|k]]]; [| | |lia]; simpl.
  - exists b1. split; [reflexivity|].
    eapply in_range_cont; [| |exact R1]; destruct (b2n b0 =? 240); destruct (b2n b0 =? 244); lia.
  - exists b2. split; [reflexivity|]. apply (in_range_cont 128 191); [lia|lia|exact R2].
  - exists b3. split; [reflexivity|]. apply (in_range_cont 128 191); [lia|lia|exact R3].
Qed.
Local Close Scope N_scope.

(* ---- ByteIndexWithEsc ---------------------------------------------------------------------------- *)
(* an occurrence of [delim] in [s] at [j] that counts: not preceded by an odd run of [esc] *)
Definition unesc_occ (esc s delim : bytes) (j : nat) : Prop :=
  occ_at s delim j /\ (esc = [] \/ ~ escaped_at esc s j).

(* the result is the first such occurrence, None iff there is none *)
Definition index_post (esc s delim : bytes) (r : option nat) : Prop :=
  match r with
  | Some i => unesc_occ esc s delim i /\ forall j, j < i -> ~ unesc_occ esc s delim j
  | None => forall j, ~ unesc_occ esc s delim j
  end.

Lemma skipn_skipn' {A} (l : list A) a b : skipn a (skipn b l) = skipn (a + b) l.
Proof.
  revert l; induction b as [|b IH]; intros l.
  - rewrite Nat.add_0_r. reflexivity.
  - rewrite Nat.add_succ_r. destruct l; [rewrite !skipn_nil; reflexivity|]. simpl. apply IH.
Qed.

Lemma occ_at_skipn s sep a j : a <= length s -> a <= j ->
  occ_at s sep j <-> occ_at (skipn a s) sep (j - a).
Proof.
  intros Ha H. rewrite !occ_at_prefix, skipn_skipn', skipn_length.
  replace (j - a + a) with j by lia. split; intros [H1 H2]; (split; [|exact H2]).
  - lia.
  - lia.
Qed.

Lemma occ_at_nth s d0 dr j : occ_at s (d0 :: dr) j -> nth_error s j = Some d0.
Proof.
  intros (u & v & -> & <-). rewrite nth_error_app2, Nat.sub_diag by lia. reflexivity.
Qed.

Lemma nth_error_skipn' {A} (s : list A) a k : nth_error (skipn a s) k = nth_error s (a + k).
Proof.
  revert s; induction a as [|a IH]; intros s; simpl; [reflexivity|].
  destruct s; [destruct k; reflexivity|apply IH].
Qed.

Lemma index_loop_spec delim esc : delim <> [] -> esc <> [] -> forall fuel s begin,
  begin <= length s -> length s - begin < fuel ->
  (forall j, j < begin -> ~ unesc_occ esc s delim j) ->
  exists r, index_loop fuel s delim esc begin = Ok r /\ index_post esc s delim r.
Proof.
  intros Hd He fuel. induction fuel as [|k IH]; intros s begin Hb Hf Hinv; [lia|].
  cbn [index_loop]. rewrite slice_from_ok by exact Hb. cbn [bind].
  pose proof (bindex_spec (skipn begin s) delim) as Hs.
  destruct (bindex (skipn begin s) delim) as [i|] eqn:Ei.
  - destruct Hs as [Hocc Hfirst].
    assert (Hocc' : occ_at s delim (begin + i)).
    { apply (occ_at_skipn s delim begin); [exact Hb|lia|]. replace (begin + i - begin) with i by lia. exact Hocc. }
    assert (Hle : begin + i <= length s).
    { apply occ_at_prefix in Hocc' as [H _]. exact H. }
    rewrite esc_preceding_spec by (try exact He; lia). cbn [bind]. rewrite Nat.add_0_l.
    assert (Hbefore : forall j, j < begin + i -> ~ unesc_occ esc s delim j).
    { intros j Hj. destruct (Nat.lt_ge_cases j begin) as [Hlt|Hge]; [apply Hinv; exact Hlt|].
      intros [Ho _]. apply (occ_at_skipn s delim begin) in Ho; [|exact Hb|exact Hge].
      apply (Hfirst (j - begin)); [lia|exact Ho]. }
    destruct (Nat.odd (trailing esc (firstn (begin + i) s))) eqn:Eodd.
    + rewrite slice_from_ok by exact Hle. cbn [bind].
      destruct (decode_rune (skipn (begin + i) s)) as [x size] eqn:Edec.
      assert (Hne : skipn (begin + i) s <> []).
      { apply occ_at_prefix in Hocc' as [_ Hp]. apply has_prefix_spec in Hp as [r Hr]. rewrite Hr.
        destruct delim; [congruence|discriminate]. }
      pose proof (decode_rune_size _ Hne) as Hsz. rewrite Edec in Hsz. cbn [snd] in Hsz.
      rewrite skipn_length in Hsz.
      apply IH; [lia|lia|].
      intros j Hj. destruct (Nat.lt_ge_cases j (begin + i)) as [Hlt|Hge]; [apply Hbefore; exact Hlt|].
      destruct (Nat.eq_dec j (begin + i)) as [->|Hneq].
      { intros [_ [Hc|Hc]]; [congruence|]. apply Hc. exact Eodd. }
      (* strictly inside the skipped rune: its bytes are continuation bytes, the delimiter's
         first byte is not *)
      intros [Ho _].
      destruct delim as [|d0 dr]; [congruence|].
      pose proof (occ_at_nth _ _ _ _ Hocc') as Hn0. pose proof (occ_at_nth _ _ _ _ Ho) as Hnj.
      destruct (skipn (begin + i) s) as [|b0 r] eqn:Esk; [congruence|].
      assert (nth_error (skipn (begin + i) s) 0 = Some d0) as H0.
      { rewrite nth_error_skipn', Nat.add_0_r. exact Hn0. }
      rewrite Esk in H0. simpl in H0. inversion H0; subst b0.
      assert (1 < size) as Hsize by lia.
      destruct (decode_rune_multi _ _ _ _ Edec Hsize) as [Hlead Hcont].
      destruct (Hcont (j - (begin + i) - 1)) as (c & Hc1 & Hc2); [lia|].
      assert (nth_error (skipn (begin + i) s) (j - (begin + i)) = Some d0) as Hj'.
      { rewrite nth_error_skipn'. replace (begin + i + (j - (begin + i))) with j by lia. exact Hnj. }
      rewrite Esk in Hj'. replace (j - (begin + i)) with (S (j - (begin + i) - 1)) in Hj' by lia.
      simpl in Hj'. rewrite Hc1 in Hj'. inversion Hj'; subst c. lia.
    + eexists. split; [reflexivity|]. split.
      * split; [exact Hocc'|]. right. unfold escaped_at. rewrite Eodd. discriminate.
      * exact Hbefore.
  - eexists. split; [reflexivity|]. intros j.
    destruct (Nat.lt_ge_cases j begin) as [Hlt|Hge]; [apply Hinv; exact Hlt|].
    intros [Ho _]. apply (occ_at_skipn s delim begin) in Ho; [|exact Hb|exact Hge]. apply (Hs (j - begin)). exact Ho.
Qed.

(* index_with_esc_spec: for every s and every non-empty delim (esc possibly empty), the result is
   the first occurrence of delim that is not preceded by an odd run of esc; None iff there is none;
   never a panic, never out of fuel. *)
Lemma index_with_esc_spec s delim esc : delim <> [] ->
  exists r, index_with_esc s delim esc = Ok r /\ index_post esc s delim r.
Proof.
  intro Hd. unfold index_with_esc.
  destruct s as [|b s].
  { cbn [is_empty orb bindex].
    assert (has_prefix [] delim = false) as -> by (destruct delim; [congruence|reflexivity]).
    eexists. split; [reflexivity|].
    intros j [Ho _]. apply occ_at_prefix in Ho as [Hj Hp]. simpl in Hj. assert (j = 0) by lia. subst.
    destruct delim; [congruence|discriminate]. }
  destruct delim as [|d0 dr]; [congruence|].
  destruct esc as [|e0 er].
  { cbn [is_empty orb]. eexists. split; [reflexivity|].
    pose proof (bindex_spec (b :: s) (d0 :: dr)) as Hs.
    destruct (bindex (b :: s) (d0 :: dr)) as [i|].
    - destruct Hs as [H1 H2]. split; [split; [exact H1|left; reflexivity]|].
      intros j Hj [Ho _]. apply (H2 j Hj Ho).
    - intros j [Ho _]. apply (Hs j Ho). }
  cbn [is_empty orb]. apply index_loop_spec; [discriminate|discriminate|lia|lia|intros j Hj; lia].
Qed.

(* ---- ByteSplitWithEsc ------------------------------------------------------------------------------ *)
Lemma unesc_occ_firstn esc s delim idx j : delim <> [] ->
  unesc_occ esc (firstn idx s) delim j -> j < idx /\ unesc_occ esc s delim j.
Proof.
  intros Hd [Ho Hesc].
  destruct Ho as (u & v & Hs & Hu).
  assert (Hlen : j + length delim <= idx).
  { apply (f_equal (@length byte)) in Hs. rewrite firstn_length, !app_length in Hs. lia. }
  assert (0 < length delim) by (destruct delim; [congruence|simpl; lia]).
  split; [lia|]. split.
  - exists u, (v ++ skipn idx s). split; [|exact Hu].
    rewrite <- (firstn_skipn idx s) at 1. rewrite Hs, <- !app_assoc. reflexivity.
  - destruct Hesc as [->|Hn]; [left; reflexivity|]. right. unfold escaped_at in *.
    rewrite firstn_firstn in Hn. replace (Nat.min j idx) with j in Hn by lia. exact Hn.
Qed.

Lemma firstn_skipn_app (s d : bytes) idx : idx + length d <= length s ->
  (exists u v, s = u ++ d ++ v /\ length u = idx) ->
  firstn idx s ++ d ++ skipn (idx + length d) s = s.
Proof.
  intros Hl (u & v & -> & <-).
  rewrite firstn_app, Nat.sub_diag, firstn_all. simpl. rewrite app_nil_r.
  replace (length u + length d) with (length (u ++ d)) by apply app_length.
  rewrite (app_assoc u d v), skipn_app, skipn_all, Nat.sub_diag. simpl. apply app_assoc.
Qed.

Lemma split_loop_spec delim esc : delim <> [] -> forall fuel s, length s < fuel ->
  exists l, split_loop fuel s delim esc = Ok l /\ join delim l = s /\ l <> [] /\
            Forall (fun p => forall j, ~ unesc_occ esc p delim j) l.
Proof.
  intros Hd fuel. induction fuel as [|k IH]; intros s Hf; [lia|].
  cbn [split_loop]. destruct (index_with_esc_spec s delim esc Hd) as (r & -> & Hpost). cbn [bind].
  destruct r as [idx|].
  - destruct Hpost as [[Ho _] Hfirst].
    destruct Ho as (u & v & Hs & Hu).
    assert (Hlen : idx + length delim <= length s).
    { rewrite Hs, !app_length. lia. }
    assert (0 < length delim) by (destruct delim; [congruence|simpl; lia]).
    rewrite slice_ok by lia. cbn [bind]. rewrite slice_from_ok by lia. cbn [bind].
    destruct (IH (skipn (idx + length delim) s)) as (l & -> & Hj & Hne & Hall).
    { rewrite skipn_length. lia. }
    cbn [bind]. eexists. split; [reflexivity|]. split; [|split; [discriminate|]].
    + cbn [skipn]. rewrite Nat.sub_0_r. destruct l as [|x l]; [congruence|].
      change (join delim (firstn idx s :: x :: l)) with (firstn idx s ++ delim ++ join delim (x :: l)).
      rewrite Hj. apply firstn_skipn_app; [exact Hlen|exists u, v; auto].
    + constructor; [|exact Hall]. cbn [skipn]. rewrite Nat.sub_0_r.
      intros j Hj'. apply unesc_occ_firstn in Hj' as [Hlt Hu']; [|exact Hd]. apply (Hfirst j Hlt Hu').
  - eexists. split; [reflexivity|]. split; [reflexivity|]. split; [discriminate|].
    constructor; [exact Hpost|constructor].
Qed.

(* split_concat: for every s and non-empty delim, the pieces joined by delim give s back and no
   piece contains an unescaped delim. *)
Lemma split_concat s delim esc : delim <> [] ->
  exists l, split_with_esc s delim esc = Ok l /\ join delim l = s /\
            Forall (fun p => forall j, ~ unesc_occ esc p delim j) l.
Proof.
  intro Hd. unfold split_with_esc, bytes_split.
  assert (is_empty delim = false) as Hde by (destruct delim; [congruence|reflexivity]).
  rewrite Hde. cbn [orb].
  destruct (is_empty s || is_empty esc) eqn:E; cbn [orb].
  - replace (is_empty s || false || is_empty esc) with true by (destruct (is_empty s); simpl in *; congruence).
    destruct (split_loop_spec delim [] Hd (S (length s)) s) as (l & Hl & Hj & _ & Hall); [lia|].
    exists l. split; [exact Hl|]. split; [exact Hj|].
    eapply Forall_impl; [|exact Hall]. intros p Hp j [Ho _]. apply (Hp j). split; [exact Ho|left; reflexivity].
  - replace (is_empty s || false || is_empty esc) with false by (destruct (is_empty s); simpl in *; congruence).
    destruct (split_loop_spec delim esc Hd (S (length s)) s) as (l & Hl & Hj & _ & Hall); [lia|].
    exists l. auto.
Qed.

(* ---- ByteUnescape ----------------------------------------------------------------------------------- *)
Lemma bind_ok {A B} (r : res A) (f : A -> res B) a : r = Ok a -> bind r f = f a.
Proof. intros ->. reflexivity. Qed.

(* the output never grows: the writes of the Go code into the len(b) buffer stay in range *)
Lemma unescape_loop_length esc : forall fuel b o,
  unescape_loop fuel b esc = Ok o -> length o <= length b.
Proof.
  induction fuel as [|k IH]; intros b o H; [discriminate|]. cbn [unescape_loop] in H.
  destruct (bindex b esc) as [i|] eqn:Ei; [|inversion H; subst; lia].
  pose proof (bindex_some_le _ _ _ Ei) as Hle.
  rewrite slice_ok in H by lia. cbn [bind] in H. rewrite slice_from_ok in H by lia. cbn [bind] in H.
  destruct (decode_rune (skipn (i + length esc) b)) as [r size] eqn:Ed.
  destruct (N.eqb r RuneError).
  { inversion H; subst. cbn [skipn]. rewrite firstn_length. lia. }
  unfold slice in H.
  destruct ((i + length esc <=? i + length esc + size) && (i + length esc + size <=? length b)) eqn:E;
    [|discriminate].
  apply andb_prop in E as [_ E]. apply Nat.leb_le in E. cbn [bind] in H.
  rewrite slice_from_ok in H by lia. cbn [bind] in H.
  destruct (unescape_loop k (skipn (i + length esc + size) b) esc) as [o'| |] eqn:Eo; try discriminate.
  cbn [bind] in H. inversion H; subst. apply IH in Eo. rewrite skipn_length in Eo.
  rewrite !app_length, !firstn_length, !skipn_length. cbn [skipn]. lia.
Qed.

Lemma unescape_length b esc o : unescape b esc = Ok o -> length o <= length b.
Proof.
  unfold unescape. destruct (is_empty esc); [intro H; inversion H; subst; lia|apply unescape_loop_length].
Qed.

(* never a panic, never out of fuel, for every b and esc *)
Lemma unescape_loop_total esc : esc <> [] -> forall fuel b, length b < fuel ->
  exists o, unescape_loop fuel b esc = Ok o.
Proof.
  intros He fuel. induction fuel as [|k IH]; intros b Hf; [lia|]. cbn [unescape_loop].
  destruct (bindex b esc) as [i|] eqn:Ei; [|eauto].
  pose proof (bindex_some_le _ _ _ Ei) as Hle.
  rewrite slice_ok by lia. cbn [bind]. rewrite slice_from_ok by lia. cbn [bind].
  destruct (decode_rune (skipn (i + length esc) b)) as [r size] eqn:Ed.
  destruct (N.eqb r RuneError) eqn:Er; [eauto|].
  assert (Hne : skipn (i + length esc) b <> []).
  { intro Hnil. rewrite Hnil in Ed. simpl in Ed. inversion Ed; subst. discriminate. }
  pose proof (decode_rune_size _ Hne) as Hsz. rewrite Ed in Hsz. cbn [snd] in Hsz.
  rewrite skipn_length in Hsz.
  rewrite slice_ok by lia. cbn [bind]. rewrite slice_from_ok by lia. cbn [bind].
  assert (0 < length esc) by (destruct esc; [congruence|simpl; lia]).
  destruct (IH (skipn (i + length esc + size) b)) as [o ->]; [rewrite skipn_length; lia|].
  cbn [bind]. eauto.
Qed.

Lemma unescape_total b esc : exists o, unescape b esc = Ok o.
Proof.
  unfold unescape. destruct esc as [|e0 er]; [simpl; eauto|].
  cbn [is_empty]. apply unescape_loop_total; [discriminate|lia].
Qed.

(* a byte that does not start an escape sequence is copied *)
Lemma unescape_loop_cons esc b t k : esc <> [] -> has_prefix (b :: t) esc = false ->
  unescape_loop (S k) (b :: t) esc = bind (unescape_loop (S k) t esc) (fun o => Ok (b :: o)).
Proof.
  intros He Hp. cbn [unescape_loop bindex]. rewrite Hp.
  destruct (bindex t esc) as [i|] eqn:Ei; cbn [option_map bind]; [|reflexivity].
  pose proof (bindex_some_le _ _ _ Ei) as Hle.
  rewrite !slice_ok by (cbn [length]; lia). cbn [bind].
  rewrite !slice_from_ok by (cbn [length]; lia). cbn [bind].
  cbn [Nat.add skipn]. rewrite !Nat.sub_0_r. cbn [firstn].
  destruct (decode_rune (skipn (i + length esc) t)) as [r size] eqn:Ed.
  destruct (N.eqb r RuneError); [reflexivity|].
  unfold slice. cbn [length].
  destruct ((i + length esc <=? i + length esc + size) && (i + length esc + size <=? length t)) eqn:E.
  - assert ((S (i + length esc) <=? S (i + length esc + size)) && (S (i + length esc + size) <=? S (length t)) = true) as ->.
    { exact E. }
    cbn [bind]. apply andb_prop in E as [_ E]. apply Nat.leb_le in E.
    rewrite !slice_from_ok by (cbn [length]; lia). cbn [bind skipn].
    replace (S (i + length esc + size) - S (i + length esc)) with (i + length esc + size - (i + length esc)) by lia.
    destruct (unescape_loop k (skipn (i + length esc + size) t) esc); reflexivity.
  - assert ((S (i + length esc) <=? S (i + length esc + size)) && (S (i + length esc + size) <=? S (length t)) = false) as ->.
    { exact E. }
    reflexivity.
Qed.

Definition ascii_byte (b : byte) : Prop := (b2n b < 128)%N.

(* the release character as the encoder needs it: absent, or its first byte is one of the
   escaped heads and no later byte of it is *)
Definition rel_ok (hs : list byte) (esc : bytes) : Prop :=
  match esc with
  | [] => True
  | e0 :: er => is_head hs e0 = true /\ forall b, In b er -> is_head hs b = false
  end.

Lemma is_head_In hs b : is_head hs b = true <-> In b hs.
Proof.
  unfold is_head. rewrite existsb_exists. split.
  - intros (x & Hx & E). apply byte_eqb_eq in E. subst. exact Hx.
  - intro H. exists b. split; [exact H|apply byte_eqb_refl].
Qed.

Lemma escape_b_cons hs esc b d :
  escape_b hs esc (b :: d) = (if is_head hs b then esc ++ [b] else [b]) ++ escape_b hs esc d.
Proof. reflexivity. Qed.

Lemma decode_rune_ascii b t : ascii_byte b -> decode_rune (b :: t) = (b2n b, 1).
Proof. unfold ascii_byte, decode_rune. intro H. apply N.ltb_lt in H. rewrite H. reflexivity. Qed.

Lemma skipn_app_exact {A} (u v : list A) : skipn (length u) (u ++ v) = v.
Proof. rewrite skipn_app, skipn_all, Nat.sub_diag. reflexivity. Qed.

(* an escape sequence followed by an ASCII byte: the byte is copied, the sequence dropped *)
Lemma unescape_loop_esc_step esc b t k : ascii_byte b ->
  unescape_loop (S k) (esc ++ b :: t) esc = bind (unescape_loop k t esc) (fun o => Ok (b :: o)).
Proof.
  intro Hb. cbn [unescape_loop]. rewrite bindex_prefix by apply has_prefix_app.
  rewrite slice_ok by lia. cbn [bind].
  rewrite slice_from_ok by (rewrite app_length; lia). cbn [bind].
  rewrite Nat.add_0_l, skipn_app_exact, decode_rune_ascii by exact Hb.
  assert (N.eqb (b2n b) RuneError = false) as ->.
  { apply N.eqb_neq. unfold ascii_byte, RuneError in *. lia. }
  rewrite slice_ok by (try rewrite app_length; cbn [length]; lia). cbn [bind].
  rewrite slice_from_ok by (rewrite app_length; cbn [length]; lia). cbn [bind].
  replace (length esc + 1 - length esc) with 1 by lia.
  rewrite skipn_app_exact. cbn [firstn skipn].
  replace (length esc + 1) with (length (esc ++ [b])) by (rewrite app_length; reflexivity).
  replace (esc ++ b :: t) with ((esc ++ [b]) ++ t) by (rewrite <- app_assoc; reflexivity).
  rewrite skipn_app_exact. reflexivity.
Qed.

(* an escape sequence followed by a decodable rune w: w is copied, the sequence dropped *)
Lemma unescape_loop_esc_unit esc w t k rw :
  decode_rune (w ++ t) = (rw, length w) -> rw <> RuneError ->
  unescape_loop (S k) (esc ++ w ++ t) esc = bind (unescape_loop k t esc) (fun o => Ok (w ++ o)).
Proof.
  intros Hd Hrw. cbn [unescape_loop]. rewrite bindex_prefix by apply has_prefix_app.
  rewrite slice_ok by lia. cbn [bind].
  rewrite slice_from_ok by (rewrite app_length; lia). cbn [bind].
  rewrite Nat.add_0_l, skipn_app_exact, Hd.
  assert (N.eqb rw RuneError = false) as -> by (apply N.eqb_neq; exact Hrw).
  rewrite slice_ok by (rewrite ?app_length; lia). cbn [bind].
  rewrite slice_from_ok by (rewrite !app_length; lia). cbn [bind].
  replace (length esc + length w - length esc) with (length w) by lia.
  cbn [Nat.sub firstn app]. rewrite skipn_app_exact.
  assert (firstn (length w) (w ++ t) = w) as ->.
  { rewrite firstn_app, Nat.sub_diag, firstn_all. cbn [firstn]. apply app_nil_r. }
  replace (length esc + length w) with (length (esc ++ w)) by apply app_length.
  rewrite (app_assoc esc w t), skipn_app_exact. reflexivity.
Qed.

(* bytes none of which starts an escape sequence are copied *)
Lemma unescape_loop_plain esc t k : esc <> [] -> forall p,
  (forall p1 p2, p = p1 ++ p2 -> p2 <> [] -> has_prefix (p2 ++ t) esc = false) ->
  unescape_loop (S k) (p ++ t) esc = bind (unescape_loop (S k) t esc) (fun o => Ok (p ++ o)).
Proof.
  intros He. induction p as [|b p IH]; intro Hp.
  - cbn [app]. destruct (unescape_loop (S k) t esc); reflexivity.
  - cbn [app]. rewrite unescape_loop_cons; [|exact He|apply (Hp [] (b :: p)); [reflexivity|discriminate]].
    rewrite IH.
    + destruct (unescape_loop (S k) t esc); reflexivity.
    + intros p1 p2 Hp12 Hne. apply (Hp (b :: p1) p2); [rewrite Hp12; reflexivity|exact Hne].
Qed.

Lemma unescape_loop_escape_b hs esc : esc <> [] -> Forall ascii_byte hs -> rel_ok hs esc ->
  forall d k, length (escape_b hs esc d) < k -> unescape_loop k (escape_b hs esc d) esc = Ok d.
Proof.
  intros He Hascii Hrel.
  induction d as [|b d IH]; intros k Hk.
  - destruct k; [simpl in Hk; lia|]. destruct esc; [congruence|reflexivity].
  - rewrite escape_b_cons in *. destruct (is_head hs b) eqn:Eb.
    + destruct k as [|k]; [lia|]. rewrite <- app_assoc in *. cbn [app] in *.
      assert (ascii_byte b) as Hb.
      { apply is_head_In in Eb. rewrite Forall_forall in Hascii. apply Hascii. exact Eb. }
      rewrite unescape_loop_esc_step by exact Hb.
      rewrite app_length in Hk. cbn [length] in Hk. rewrite IH by lia. reflexivity.
    + destruct k as [|k]; [lia|]. cbn [app] in *. rewrite unescape_loop_cons.
      * cbn [length] in Hk. rewrite IH by lia. reflexivity.
      * exact He.
      * destruct esc as [|e0 er]; [congruence|]. destruct Hrel as [Hh _].
        cbn [has_prefix]. destruct (Byte.eqb e0 b) eqn:E; [|reflexivity].
        apply byte_eqb_eq in E. subst. congruence.
Qed.

(* unescape_escape: whatever bytes d consists of, unescaping its escaped form gives d back (in
   particular the truncating branch of ByteUnescape -- release sequence last, or followed by an
   undecodable byte or U+FFFD -- is never reached on encoder output). *)
Lemma unescape_escape_b hs esc d : Forall ascii_byte hs -> rel_ok hs esc ->
  unescape (escape_b hs esc d) esc = Ok d.
Proof.
  intros Ha Hr. unfold unescape. destruct esc as [|e0 er].
  - cbn [is_empty]. f_equal. induction d as [|b d IH]; [reflexivity|].
    rewrite escape_b_cons, IH. destruct (is_head hs b); reflexivity.
  - cbn [is_empty]. apply (unescape_loop_escape_b hs (e0 :: er)); [discriminate|exact Ha|exact Hr|lia].
Qed.

(* ---- runeCountAndHasOnlyCRLF: a decoded rune below 0x40 is a single ASCII byte --------------------- *)
Local Open Scope N_scope.

Lemma small_lor t c6 : N.lor (N.shiftl t 6) c6 < 64 -> t = 0.
Proof.
  intro Hlt.
  assert (N.shiftr (N.lor (N.shiftl t 6) c6) 6 = 0) as Hs.
  { rewrite N.shiftr_div_pow2. apply N.div_small. exact Hlt. }
  rewrite N.shiftr_lor, N.shiftr_shiftl_l in Hs by lia. replace (6 - 6) with 0 in Hs by lia.
  rewrite N.shiftl_0_r in Hs. apply N.lor_eq_0_l in Hs. exact Hs.
Qed.

Lemma land_mod a k m : m = N.ones k -> N.land a m = a mod 2 ^ k.
Proof. intros ->. apply N.land_ones. Qed.

Lemma decode_rune_small s r n : decode_rune s = (r, n) -> r < 64 ->
  exists b t, s = b :: t /\ n = 1%nat /\ r = b2n b.
Proof.
  intros Hd Hr. destruct s as [|b0 rest]; [simpl in Hd; inversion Hd; subst; unfold RuneError in Hr; lia|].
  exists b0, rest. split; [reflexivity|]. revert Hd. unfold decode_rune.
  assert (HRE : forall k, (RuneError, k) = (r, n) -> False).
  { intros k Hk. inversion Hk; subst. unfold RuneError in Hr. lia. }
  destruct (b2n b0 <? 128) eqn:E1; [intro Hd; inversion Hd; subst; auto|].
  destruct (b2n b0 <? 194) eqn:E2; [intro Hd; exfalso; eapply HRE; exact Hd|].
  apply N.ltb_ge in E1. apply N.ltb_ge in E2.
  destruct (b2n b0 <? 224) eqn:E3.
  { apply N.ltb_lt in E3. destruct rest as [|b1 rest]; [intro Hd; exfalso; eapply HRE; exact Hd|].
    destruct (in_range 128 191 b1); [|intro Hd; exfalso; eapply HRE; exact Hd].
    intro Hd. inversion Hd; subst. exfalso. apply small_lor in Hr.
    rewrite (land_mod _ 5) in Hr by reflexivity.
    pose proof (N.div_mod' (b2n b0) (2 ^ 5)) as Hdm. change (2 ^ 5) with 32 in *. lia. }
  apply N.ltb_ge in E3.
  destruct (b2n b0 <? 240) eqn:E4.
  { apply N.ltb_lt in E4. destruct rest as [|b1 [|b2 rest]]; try (intro Hd; exfalso; eapply HRE; exact Hd).
    match goal with |- (if ?cnd then _ else _) = _ -> _ => destruct cnd eqn:R end;
      [|intro Hd; exfalso; eapply HRE; exact Hd].
    apply andb_prop in R as [R1 _].
    intro Hd. inversion Hd; subst. exfalso.
    replace 12 with (6 + 6) in Hr by reflexivity. rewrite <- N.shiftl_shiftl, <- N.shiftl_lor in Hr.
    apply small_lor in Hr. apply N.lor_eq_0_iff in Hr as [Ht Hc]. apply N.shiftl_eq_0_iff in Ht.
    rewrite (land_mod _ 4) in Ht by reflexivity.
    pose proof (N.div_mod' (b2n b0) (2 ^ 4)) as Hdm. change (2 ^ 4) with 16 in *.
    assert (b2n b0 = 224) as Hx by lia. rewrite Hx in R1. simpl in R1.
    unfold in_range in R1. apply andb_prop in R1 as [Ra Rb]. apply N.leb_le in Ra. apply N.leb_le in Rb.
    unfold low6 in Hc. rewrite (land_mod _ 6) in Hc by reflexivity.
    pose proof (N.div_mod' (b2n b1) (2 ^ 6)) as Hdm1. change (2 ^ 6) with 64 in *. lia. }
  apply N.ltb_ge in E4.
  destruct (b2n b0 <? 245) eqn:E5; [|intro Hd; exfalso; eapply HRE; exact Hd].
  apply N.ltb_lt in E5.
  destruct rest as [|b1 [|b2 [|b3 rest]]]; try (intro Hd; exfalso; eapply HRE; exact Hd).
  match goal with |- (if ?cnd then _ else _) = _ -> _ => destruct cnd eqn:R end;
    [|intro Hd; exfalso; eapply HRE; exact Hd].
  apply andb_prop in R as [R12 _]. apply andb_prop in R12 as [R1 _].
  intro Hd. inversion Hd; subst. exfalso.
  replace 18 with (6 + 6 + 6) in Hr by reflexivity. replace 12 with (6 + 6) in Hr by reflexivity.
  rewrite <- !N.shiftl_shiftl, <- !N.shiftl_lor in Hr.
  apply small_lor in Hr. apply N.lor_eq_0_iff in Hr as [Ht _]. apply N.shiftl_eq_0_iff in Ht.
  apply N.lor_eq_0_iff in Ht as [Ht Hc]. apply N.shiftl_eq_0_iff in Ht.
  rewrite (land_mod _ 3) in Ht by reflexivity.
  pose proof (N.div_mod' (b2n b0) (2 ^ 3)) as Hdm. change (2 ^ 3) with 8 in *.
  assert (b2n b0 = 240) as Hx by lia. rewrite Hx in R1. simpl in R1.
  unfold in_range in R1. apply andb_prop in R1 as [Ra Rb]. apply N.leb_le in Ra. apply N.leb_le in Rb.
  unfold low6 in Hc. rewrite (land_mod _ 6) in Hc by reflexivity.
  pose proof (N.div_mod' (b2n b1) (2 ^ 6)) as Hdm1. change (2 ^ 6) with 64 in *. lia.
Qed.

Lemma b2n_inj a b : b2n a = b2n b -> a = b.
Proof.
  unfold b2n. intro Hn. assert (Byte.of_N (Byte.to_N a) = Byte.of_N (Byte.to_N b)) as Ho by congruence.
  rewrite !Byte.of_to_N in Ho. congruence.
Qed.

(* the blank runes extracted from runeCountAndHasOnlyCRLF are LF and CR *)
Lemma blank_rune_spec r : existsb (N.eqb r) edi_blank_runes = (N.eqb r 10 || N.eqb r 13).
Proof. cbn. rewrite orb_false_r. reflexivity. Qed.

Lemma only_crlf_fuel_non : forall k t, (length t <= k)%nat ->
  (exists b, In b t /\ is_crlf b = false) -> only_crlf_fuel k t = false.
Proof.
  induction k as [|k IH]; intros t Hk (b & Hin & Hb).
  - destruct t; [destruct Hin|simpl in Hk; lia].
  - destruct t as [|b0 t]; [destruct Hin|]. cbn [only_crlf_fuel].
    destruct (decode_rune (b0 :: t)) as [r n] eqn:Ed. rewrite blank_rune_spec.
    destruct (N.eqb r 10 || N.eqb r 13) eqn:Er; [|reflexivity]. cbn [andb].
    assert (r < 64) as Hsmall.
    { apply orb_prop in Er as [Er|Er]; apply N.eqb_eq in Er; lia. }
    destruct (decode_rune_small _ _ _ Ed Hsmall) as (b' & t' & Hs & -> & Hrb). inversion Hs; subst b' t'.
    cbn [skipn]. apply IH; [simpl in Hk; lia|].
    destruct Hin as [<-|Hin]; [|exists b; auto].
    exfalso. unfold is_crlf in Hb. apply orb_false_elim in Hb as [H1 H2].
    apply byte_eqb_neq in H1. apply byte_eqb_neq in H2.
    apply orb_prop in Er as [Er|Er]; apply N.eqb_eq in Er; rewrite Hrb in Er.
    + apply H2. apply b2n_inj. exact Er.
    + apply H1. apply b2n_inj. exact Er.
Qed.

Lemma only_crlf_non t : (exists b, In b t /\ is_crlf b = false) -> only_crlf t = false.
Proof. apply only_crlf_fuel_non. lia. Qed.
Local Close Scope N_scope.
