(* C12 bridge proofs, part 7: the hierarchy readers (flatfile/hierarchyReader.go, edi/reader.go) as
   modelled in Model/Hier.v, executed on the node heap (Model/HeapReadersHier.v): every API call
   meets its precondition, the pointers the Go code uses (stackTop(1).recNode as AddChild parent,
   cur.recNode as r.target) are the addresses the tree structure dictates, the target is removed
   exactly once, and the abstract part of every step is the step of the C05 model. *)
From Coq Require Import List NArith ZArith Bool Arith Lia.
From stdpp Require Import pmap.
From OV Require Import Base.Bytes Base.Cases Base.Tree Model.Hier Model.Heap Model.HeapReaders Model.HeapReadersHier
  Proofs.HeapIds Proofs.HeapTree Proofs.HeapOps Proofs.HeapPath Proofs.HeapRep Proofs.HeapRemove
  Proofs.Heap Proofs.HeapPay Proofs.HeapZip Proofs.HeapPrims Proofs.HeapReaders Proofs.HeapHierBase.
Import ListNotations.

(* ---- building a record node ------------------------------------------------------------------------------- *)
Section Build.
  Variable caching : bool.
  Variable choose : st -> choice.
  Hypothesis HL : legal caching choose.

  Lemma build_cols_ok : forall cs st r,
    good caching (r_m r) -> wf r -> sim st r -> length (Stream.s_stack st) = 1 ->
    exists r' st', build_cols caching choose r cs = Some r' /\
      good caching (r_m r') /\ wf r' /\ r_env r' = r_env r /\ ext caching (r_m r) (r_m r') /\
      sim st' r' /\ length (Stream.s_stack st') = 1.
  Proof.
    induction cs as [|[cn cv] cs IH]; intros st r Hg Hwf Hsim Hlen; simpl.
    - exists r, st. split; [reflexivity|]. split; [auto|split; [auto|split; [auto|split; [apply ext_refl|auto]]]].
    - assert (Hne : r_stack r <> []).
      { apply (sim_ne _ _ Hsim). destruct (Stream.s_stack st); [discriminate|discriminate]. }
      destruct (new_child_ok caching choose st r ElementNode cn FNone true HL Hg Hwf Hsim Hne)
        as (r1 & E1 & G1 & W1 & V1 & X1 & S1). rewrite E1. simpl.
      assert (Hne1 : r_stack r1 <> []) by (apply (sim_ne _ _ S1); simpl; discriminate).
      destruct (new_child_ok caching choose _ r1 TextNode cv FNone false HL G1 W1 S1 Hne1)
        as (r2 & E2 & G2 & W2 & V2 & X2 & S2). rewrite E2. simpl.
      assert (Hne2 : r_stack r2 <> []) by (apply (sim_ne _ _ S2); unfold Stream.add_text; simpl; discriminate).
      destruct (go_up_ok _ r2 W2 S2 Hne2) as (r3 & E3 & M3 & W3 & V3 & S3 & _). rewrite E3. simpl.
      assert (G3 : good caching (r_m r3)) by (rewrite M3; exact G2).
      assert (Hlen3 : length (Stream.s_stack (abs_up (Stream.add_text (Stream.push (Stream.mkF ElementNode cn FNone []) st)
                                                       (T TextNode cv FNone [])))) = 1).
      { unfold abs_up, Stream.add_text. simpl. destruct (Stream.s_stack st) as [|f [|g rest]]; simpl in *; try discriminate. reflexivity. }
      destruct (IH _ r3 G3 W3 S3 Hlen3) as (r4 & st4 & E4 & G4 & W4 & V4 & X4 & S4 & L4).
      exists r4, st4. split; [exact E4|split; [auto|split; [auto|split; [congruence|split; [|auto]]]]].
      eapply ext_trans; [exact X1|]. eapply ext_trans; [exact X2|]. rewrite <- M3. exact X4.
  Qed.

  Lemma build_ok nm cols m d ids :
    good caching m ->
    exists body n cs, build caching choose nm cols m d ids = Some body /\
      good caching (r_m body) /\ wf body /\ r_env body = m_F m /\ ext caching m (r_m body) /\
      r_stack body = [(n, cs)] /\ r_done body = None.
  Proof.
    intros Hg. unfold build.
    destruct (tree_init_ok caching choose m ElementNode (nm (d_name d)) FNone HL Hg)
      as (r0 & n0 & E0 & G0 & W0 & V0 & X0 & Est0 & Ed0 & _ & S0). rewrite E0. simpl.
    destruct (build_cols_ok (if d_grp d then [] else cols (d_name d) ids) _ r0 G0 W0 S0 eq_refl)
      as (r1 & st1 & E1 & G1 & W1 & V1 & X1 & S1 & L1).
    destruct S1 as (Hst & _ & Hdn).
    assert (Hlen : length (r_stack r1) = 1) by (rewrite <- (Forall2_length _ _ _ Hst); exact L1).
    destruct (r_stack r1) as [|[n cs] [|f rest]] eqn:Est; simpl in Hlen; try discriminate.
    exists r1, n, cs. split; [exact E1|split; [auto|split; [auto|split; [congruence|split; [eapply ext_trans; eauto|split; [exact Est|]]]]]].
    apply Hdn. discriminate.
  Qed.
End Build.

(* ---- the bookkeeping script ---------------------------------------------------------------------------------- *)
Definition links (below : list ae) (r : rd) (pend : nat) : Prop :=
  map snd below = map (fun f : aframe => Some (fst f)) (skipn pend (r_stack r)).

Lemma skipn_S_tail {A} : forall n (l : list A) f rest, skipn n l = f :: rest -> skipn (S n) l = rest.
Proof.
  induction n as [|n IH]; intros l f rest H.
  - destruct l as [|x l]; simpl in H; [discriminate|]. inversion H. reflexivity.
  - destruct l as [|x l]; [discriminate|]. simpl in H. change (skipn (S (S n)) (x :: l)) with (skipn (S n) l).
    eapply IH; eauto.
Qed.

Definition closed_is (r : rd) (x : option addr) : Prop :=
  match x with Some a => exists t, last_closed r = Some t /\ root t = a | None => True end.

Lemma rec_done_a_ok : forall below cur tgt ta r pend stk' tgt' ta' sc,
  wf r -> links below r pend -> (r_stack r <> [] -> r_done r = None) ->
  (ta = None -> pend = 0) -> (tgt = None -> ta = None) -> (ta <> None -> tgt <> None) ->
  (ta = None -> closed_is r (snd cur)) ->
  (ta = None -> e_node (fst cur) <> None -> snd cur <> None) ->
  Forall (fun p : ae => snd p <> None) below ->
  closed_is r ta ->
  rec_done_a cur below tgt ta = AOk stk' tgt' ta' sc ->
  exists r' pend', exec_script sc r ta pend = Some (r', ta', pend') /\
    r_m r' = r_m r /\ wf r' /\ r_env r' = r_env r /\ (r_stack r' <> [] -> r_done r' = None) /\
    links (tl stk') r' pend' /\ (ta' = None -> pend' = 0) /\ (tgt' = None -> ta' = None) /\ (ta' <> None -> tgt' <> None) /\
    closed_is r' ta' /\ stk' <> [] /\ Forall (fun p : ae => snd p <> None) (tl stk').
Proof.
  induction below as [|p b IH]; intros cur tgt ta r pend stk' tgt' ta' sc Hwf Hl Hdn Hpend Htt Htt' Hcl Hcn Hbel Hta Hres;
    simpl in Hres.
  - (* only the root frame *)
    destruct (d_tgt (e_decl (fst cur))) eqn:Edt.
    + destruct tgt as [tg|]; [discriminate|]. destruct (e_node (fst cur)) as [nd|] eqn:En; [|discriminate].
      inversion Hres; subst. clear Hres. specialize (Htt eq_refl). subst ta. simpl.
      specialize (Hcl eq_refl). specialize (Hcn eq_refl).
      destruct (snd cur) as [x|] eqn:Ex; [|exfalso; apply Hcn; [discriminate|reflexivity]].
      destruct Hcl as [t [Hlc Hrt]]. rewrite Hlc, Hrt, Pos.eqb_refl.
      exists r, pend. split; [reflexivity|split; [reflexivity|split; [exact Hwf|split; [reflexivity|split; [exact Hdn|split; [exact Hl|split; [discriminate|split; [discriminate|split; [discriminate|split; [|split; [discriminate|constructor]]]]]]]]]]].
      exists t. auto.
    + inversion Hres; subst. clear Hres. simpl.
      exists r, pend. split; [reflexivity|split; [reflexivity|split; [exact Hwf|split; [reflexivity|split; [exact Hdn|split; [exact Hl|split; [exact Hpend|split; [exact Htt|split; [exact Htt'|split; [exact Hta|split; [discriminate|constructor]]]]]]]]]]].
  - (* a parent frame below *)
    inversion Hbel as [|p' b' Hp Hb]; subst.
    set (d := e_decl (fst cur)) in *.
    (* the marking step, common to all continuations *)
    assert (Hmark : forall tgt1 ta1 sc1,
              (if d_tgt d then
                 match tgt with
                 | Some _ => inl P_TARGET_SET
                 | None => match e_node (fst cur) with
                           | None => inl P_NODE_NIL
                           | Some n => inr (Some n, snd cur, [HMark (snd cur)])
                           end
                 end
               else inr (tgt, ta, [])) = inr (tgt1, ta1, sc1) ->
              exec_script sc1 r ta pend = Some (r, ta1, pend) /\
              (ta1 = None -> pend = 0) /\ (tgt1 = None -> ta1 = None) /\ (ta1 <> None -> tgt1 <> None) /\ closed_is r ta1 /\
              (ta1 = None -> ta = None)).
    { intros tgt1 ta1 sc1 E. destruct (d_tgt d).
      - destruct tgt as [tg|]; [discriminate|]. destruct (e_node (fst cur)) as [nd|] eqn:En; [|discriminate].
        inversion E; subst. specialize (Htt eq_refl). subst ta.
        specialize (Hcl eq_refl). specialize (Hcn eq_refl).
        destruct (snd cur) as [x|] eqn:Ex; [|exfalso; apply Hcn; [discriminate|reflexivity]].
        destruct Hcl as [t [Hlc Hrt]]. simpl. rewrite Hlc, Hrt, Pos.eqb_refl.
        split; [reflexivity|split; [discriminate|split; [discriminate|split; [discriminate|split; [exists t; auto|discriminate]]]]].
      - inversion E; subst. simpl. split; [reflexivity|auto 10]. }
    destruct (if d_tgt d then _ else _) as [site|[[tgt1 ta1] sc1]] eqn:Etg; [discriminate|].
    destruct (Hmark tgt1 ta1 sc1 eq_refl) as (Hex & Hpend1 & Htt1 & Htt1' & Hta1 & Hback).
    (* results that keep the stack height *)
    assert (Hkeep : forall (q : ae) (top : ae), snd q = snd p ->
              exists r' pend', exec_script sc1 r ta pend = Some (r', ta1, pend') /\
                r_m r' = r_m r /\ wf r' /\ r_env r' = r_env r /\ (r_stack r' <> [] -> r_done r' = None) /\
                links (tl (top :: q :: b)) r' pend' /\ (ta1 = None -> pend' = 0) /\ (tgt1 = None -> ta1 = None) /\
                (ta1 <> None -> tgt1 <> None) /\ closed_is r' ta1 /\ top :: q :: b <> [] /\
                Forall (fun p : ae => snd p <> None) (tl (top :: q :: b))).
    { intros q top Hq. exists r, pend. split; [exact Hex|split; [reflexivity|split; [exact Hwf|split; [reflexivity|split; [exact Hdn|]]]]].
      split; [|split; [exact Hpend1|split; [exact Htt1|split; [exact Htt1'|split; [exact Hta1|split; [discriminate|]]]]]].
      - simpl. unfold links in *. simpl in *. rewrite Hq. exact Hl.
      - simpl. constructor; [rewrite Hq; exact Hp|exact Hb]. }
    match type of Hres with (if ?c then _ else _) = _ => destruct c end;
      [inversion Hres; subst; apply Hkeep; reflexivity|].
    match type of Hres with (if ?c then _ else _) = _ => destruct c end;
      [inversion Hres; subst; apply Hkeep; reflexivity|].
    match type of Hres with (if ?c then _ else _) = _ => destruct c end.
    + match type of Hres with (match ?c with Some _ => _ | None => _ end) = _ => destruct c end; [|discriminate].
      inversion Hres; subst. apply Hkeep. reflexivity.
    + (* pop: the parent's node is closed (now, or after the target has been removed) *)
      destruct (rec_done_a (commit (fst p) (e_node (fst cur)), snd p) b tgt1 ta1) as [stk2 tgt2 ta2 sc2| |] eqn:Erec;
        simpl in Hres; try discriminate.
      inversion Hres; subst. clear Hres.
      rewrite <- app_assoc. simpl.
      (* execute sc1, then HUp, then the rest *)
      assert (Hsplit : forall l1 l2 r0 t0 p0 r1 t1 p1,
                exec_script l1 r0 t0 p0 = Some (r1, t1, p1) -> exec_script (l1 ++ l2) r0 t0 p0 = exec_script l2 r1 t1 p1).
      { induction l1 as [|[|a] l1 IHl]; intros l2 r0 t0 p0 r1 t1 p1 H; simpl in *.
        - inversion H; reflexivity.
        - destruct t0; [eapply IHl; eauto|]. destruct (go_up r0) as [r0'|]; simpl in *; [eapply IHl; eauto|discriminate].
        - destruct t0; [discriminate|]. destruct a; [|discriminate]. destruct (last_closed r0); [|discriminate].
          destruct (Pos.eqb _ _); [eapply IHl; eauto|discriminate]. }
      rewrite (Hsplit _ _ _ _ _ _ _ _ Hex). simpl.
      destruct (snd p) as [pa|] eqn:Epa; [|exfalso; apply Hp; reflexivity].
      destruct ta1 as [x1|].
      * (* postponed *)
        assert (Hl' : links b r (S pend)).
        { unfold links in *. simpl in Hl. destruct (skipn pend (r_stack r)) as [|f rest] eqn:Esk; simpl in Hl; [discriminate|].
          inversion Hl as [[E1 E2]]. rewrite E2.
          assert (Esk' : skipn (S pend) (r_stack r) = rest) by (eapply skipn_S_tail; eauto).
          rewrite Esk'. reflexivity. }
        destruct (IH (commit (fst p) (e_node (fst cur)), Some pa) tgt1 (Some x1) r (S pend) stk' tgt' ta' sc2
                     Hwf Hl' Hdn) as (r' & pend' & Hex2 & Hrest); try discriminate; auto.
        exists r', pend'. split; [exact Hex2|exact Hrest].
      * (* closed now *)
        specialize (Hpend1 eq_refl). subst pend.
        unfold links in Hl. simpl in Hl.
        destruct (r_stack r) as [|[fa fks] rest] eqn:Est; simpl in Hl; [discriminate|].
        inversion Hl as [[E1 E2]]. assert (Efa : fa = pa) by congruence. subst fa.
        destruct (go_up_wf r pa fks rest Hwf Est) as (r1 & Eg & Em & Hwf1 & Henv1 & Hlc1 & Hfst1 & Hlen1 & Hdn1).
        rewrite Eg. simpl.
        assert (Hl1 : links b r1 0).
        { assert (Hmm : forall l : list aframe, map (fun f : aframe => Some (fst f)) l = map Some (map fst l))
            by (intros; rewrite map_map; reflexivity).
          unfold links. change (skipn 0 (r_stack r1)) with (r_stack r1). rewrite E2, !Hmm, Hfst1. reflexivity. }
        destruct (IH (commit (fst p) (e_node (fst cur)), Some pa) tgt1 None r1 0 stk' tgt' ta' sc2
                     Hwf1 Hl1 Hdn1) as (r' & pend' & Hex2 & Em2 & Hrest); auto;
          try (intros; discriminate);
          try (intros _; simpl; exists (AT pa fks); split; [exact Hlc1|reflexivity]);
          try (simpl; exact I).
        exists r', pend'. split; [exact Hex2|]. destruct Hrest as (W & V & Rest).
        split; [congruence|split; [exact W|split; [congruence|exact Rest]]].
Qed.
