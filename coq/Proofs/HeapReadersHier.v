(* C12 bridge proofs, part 7: the hierarchy readers (flatfile/hierarchyReader.go, edi/reader.go) as
   modelled in Model/Hier.v, executed on the node heap (Model/HeapReadersHier.v): every API call
   meets its precondition, the pointers the Go code uses (stackTop(1).recNode as AddChild parent,
   cur.recNode as r.target) are the addresses the tree structure dictates, the target is removed
   exactly once, and the abstract part of every step is the step of the C05 model. *)
From Coq Require Import List NArith ZArith Bool Arith Lia.
From stdpp Require Import pmap.
From OV Require Import Base.Bytes Base.Cases Base.Tree Model.Hier Model.Heap Model.HeapReaders Model.HeapReadersHier
  Proofs.HeapIds Proofs.HeapTree Proofs.HeapOps Proofs.HeapPath Proofs.HeapRep Proofs.HeapRemove
  Proofs.Heap Proofs.HeapPay Proofs.HeapZip Proofs.HeapPrims Proofs.HeapReaders Proofs.HeapHierBase.
Import ListNotations.

(* ---- building a record node ------------------------------------------------------------------------------- *)
Section Build.
  Variable caching : bool.
  Variable choose : st -> choice.
  Hypothesis HL : legal caching choose.

  Lemma build_cols_ok : forall cs st r,
    good caching (r_m r) -> wf r -> sim st r -> length (Stream.s_stack st) = 1 ->
    exists r' st', build_cols caching choose r cs = Some r' /\
      good caching (r_m r') /\ wf r' /\ r_env r' = r_env r /\ ext caching (r_m r) (r_m r') /\
      sim st' r' /\ length (Stream.s_stack st') = 1.
  Proof.
    induction cs as [|[cn cv] cs IH]; intros st r Hg Hwf Hsim Hlen; simpl.
    - exists r, st. split; [reflexivity|]. split; [auto|split; [auto|split; [auto|split; [apply ext_refl|auto]]]].
    - assert (Hne : r_stack r <> []).
      { apply (sim_ne _ _ Hsim). destruct (Stream.s_stack st); [discriminate|discriminate]. }
      destruct (new_child_ok caching choose st r ElementNode cn FNone true HL Hg Hwf Hsim Hne)
        as (r1 & E1 & G1 & W1 & V1 & X1 & S1). rewrite E1. simpl.
      assert (Hne1 : r_stack r1 <> []) by (apply (sim_ne _ _ S1); simpl; discriminate).
      destruct (new_child_ok caching choose _ r1 TextNode cv FNone false HL G1 W1 S1 Hne1)
        as (r2 & E2 & G2 & W2 & V2 & X2 & S2). rewrite E2. simpl.
      assert (Hne2 : r_stack r2 <> []) by (apply (sim_ne _ _ S2); unfold Stream.add_text; simpl; discriminate).
      destruct (go_up_ok _ r2 W2 S2 Hne2) as (r3 & E3 & M3 & W3 & V3 & S3 & _). rewrite E3. simpl.
      assert (G3 : good caching (r_m r3)) by (rewrite M3; exact G2).
      assert (Hlen3 : length (Stream.s_stack (abs_up (Stream.add_text (Stream.push (Stream.mkF ElementNode cn FNone []) st)
                                                       (T TextNode cv FNone [])))) = 1).
      { unfold abs_up, Stream.add_text. simpl. destruct (Stream.s_stack st) as [|f [|g rest]]; simpl in *; try discriminate. reflexivity. }
      destruct (IH _ r3 G3 W3 S3 Hlen3) as (r4 & st4 & E4 & G4 & W4 & V4 & X4 & S4 & L4).
      exists r4, st4. split; [exact E4|split; [auto|split; [auto|split; [congruence|split; [|auto]]]]].
      eapply ext_trans; [exact X1|]. eapply ext_trans; [exact X2|]. rewrite <- M3. exact X4.
  Qed.

  Lemma build_ok nm cols m d ids :
    good caching m ->
    exists body n cs, build caching choose nm cols m d ids = Some body /\
      good caching (r_m body) /\ wf body /\ r_env body = m_F m /\ ext caching m (r_m body) /\
      r_stack body = [(n, cs)] /\ r_done body = None.
  Proof.
    intros Hg. unfold build.
    destruct (tree_init_ok caching choose m ElementNode (nm (d_name d)) FNone HL Hg)
      as (r0 & n0 & E0 & G0 & W0 & V0 & X0 & Est0 & Ed0 & _ & S0). rewrite E0. simpl.
    destruct (build_cols_ok (if d_grp d then [] else cols (d_name d) ids) _ r0 G0 W0 S0 eq_refl)
      as (r1 & st1 & E1 & G1 & W1 & V1 & X1 & S1 & L1).
    destruct S1 as (Hst & _ & Hdn).
    assert (Hlen : length (r_stack r1) = 1) by (rewrite <- (Forall2_length _ _ _ Hst); exact L1).
    destruct (r_stack r1) as [|[n cs] [|f rest]] eqn:Est; simpl in Hlen; try discriminate.
    exists r1, n, cs. split; [exact E1|split; [auto|split; [auto|split; [congruence|split; [eapply ext_trans; eauto|split; [exact Est|]]]]]].
    apply Hdn. discriminate.
  Qed.
End Build.

(* ---- the bookkeeping script ---------------------------------------------------------------------------------- *)
Definition links (below : list ae) (r : rd) (pend : nat) : Prop :=
  map snd below = map (fun f : aframe => Some (fst f)) (skipn pend (r_stack r)).

Lemma skipn_S_tail {A} : forall n (l : list A) f rest, skipn n l = f :: rest -> skipn (S n) l = rest.
Proof.
  induction n as [|n IH]; intros l f rest H.
  - destruct l as [|x l]; simpl in H; [discriminate|]. inversion H. reflexivity.
  - destruct l as [|x l]; [discriminate|]. simpl in H. change (skipn (S (S n)) (x :: l)) with (skipn (S n) l).
    eapply IH; eauto.
Qed.

Definition closed_is (r : rd) (x : option addr) : Prop :=
  match x with Some a => exists t, last_closed r = Some t /\ root t = a | None => True end.

Lemma skipn_cons_lt {A} : forall n (l : list A) f rest, skipn n l = f :: rest -> n < length l.
Proof.
  induction n as [|n IH]; intros l f rest H; destruct l as [|x l]; simpl in *; try discriminate; try lia.
  specialize (IH l f rest H). lia.
Qed.

Definition post (r0 : rd) (stk' : list ae) (tgt' : option inst) (ta' : option addr) (r' : rd) (pend' : nat) : Prop :=
  r_m r' = r_m r0 /\ wf r' /\ r_env r' = r_env r0 /\ (r_stack r' <> [] -> r_done r' = None) /\
  links (tl stk') r' pend' /\ (ta' = None -> pend' = 0) /\ (tgt' = None -> ta' = None) /\ (ta' = None -> tgt' = None) /\
  closed_is r' ta' /\ stk' <> [] /\ Forall (fun p : ae => snd p <> None) (tl stk') /\ pend' <= length (r_stack r').

Lemma rec_done_a_ok : forall below cur tgt ta r pend stk' tgt' ta' sc,
  wf r -> links below r pend -> (r_stack r <> [] -> r_done r = None) -> pend <= length (r_stack r) ->
  (ta = None -> pend = 0) -> (tgt = None -> ta = None) -> (ta = None -> tgt = None) ->
  (ta = None -> closed_is r (snd cur)) ->
  (ta = None -> e_node (fst cur) <> None -> snd cur <> None) ->
  Forall (fun p : ae => snd p <> None) below ->
  closed_is r ta ->
  rec_done_a cur below tgt ta = AOk stk' tgt' ta' sc ->
  exists r' pend', exec_script sc r ta pend = Some (r', ta', pend') /\ post r stk' tgt' ta' r' pend'.
Proof.
  unfold post.
  induction below as [|p b IH]; intros cur tgt ta r pend stk' tgt' ta' sc Hwf Hl Hdn Hple Hpend Htt Htt' Hcl Hcn Hbel Hta Hres;
    simpl in Hres.
  - (* only the root frame *)
    destruct (d_tgt (e_decl (fst cur))) eqn:Edt.
    + destruct tgt as [tg|]; [discriminate|]. destruct (e_node (fst cur)) as [nd|] eqn:En; [|discriminate].
      inversion Hres; subst. clear Hres. specialize (Htt eq_refl). subst ta. simpl.
      specialize (Hcl eq_refl). specialize (Hcn eq_refl).
      destruct (snd cur) as [x|] eqn:Ex; [|exfalso; apply Hcn; [discriminate|reflexivity]].
      destruct Hcl as [t [Hlc Hrt]]. rewrite Hlc, Hrt, Pos.eqb_refl.
      exists r, pend. split; [reflexivity|split; [reflexivity|split; [exact Hwf|split; [reflexivity|split; [exact Hdn|split; [exact Hl|split; [discriminate|split; [discriminate|split; [discriminate|split; [|split; [discriminate|split; [constructor|exact Hple]]]]]]]]]]]].
      exists t. auto.
    + inversion Hres; subst. clear Hres. simpl.
      exists r, pend. split; [reflexivity|split; [reflexivity|split; [exact Hwf|split; [reflexivity|split; [exact Hdn|split; [exact Hl|split; [exact Hpend|split; [exact Htt|split; [exact Htt'|split; [exact Hta|split; [discriminate|split; [constructor|exact Hple]]]]]]]]]]]].
  - (* a parent frame below *)
    inversion Hbel as [|p' b' Hp Hb]; subst.
    set (d := e_decl (fst cur)) in *.
    (* the marking step, common to all continuations *)
    assert (Hmark : forall tgt1 ta1 sc1,
              (if d_tgt d then
                 match tgt with
                 | Some _ => inl P_TARGET_SET
                 | None => match e_node (fst cur) with
                           | None => inl P_NODE_NIL
                           | Some n => inr (Some n, snd cur, [HMark (snd cur)])
                           end
                 end
               else inr (tgt, ta, [])) = inr (tgt1, ta1, sc1) ->
              exec_script sc1 r ta pend = Some (r, ta1, pend) /\
              (ta1 = None -> pend = 0) /\ (tgt1 = None -> ta1 = None) /\ (ta1 = None -> tgt1 = None) /\ closed_is r ta1 /\
              (ta1 = None -> ta = None)).
    { intros tgt1 ta1 sc1 E. destruct (d_tgt d).
      - destruct tgt as [tg|]; [discriminate|]. destruct (e_node (fst cur)) as [nd|] eqn:En; [|discriminate].
        inversion E; subst. specialize (Htt eq_refl). subst ta.
        specialize (Hcl eq_refl). specialize (Hcn eq_refl).
        destruct (snd cur) as [x|] eqn:Ex; [|exfalso; apply Hcn; [discriminate|reflexivity]].
        destruct Hcl as [t [Hlc Hrt]]. simpl. rewrite Hlc, Hrt, Pos.eqb_refl.
        split; [reflexivity|split; [discriminate|split; [discriminate|split; [discriminate|split; [exists t; auto|discriminate]]]]].
      - inversion E; subst. simpl. split; [reflexivity|auto 10]. }
    destruct (if d_tgt d then _ else _) as [site|[[tgt1 ta1] sc1]] eqn:Etg; [discriminate|].
    destruct (Hmark tgt1 ta1 sc1 eq_refl) as (Hex & Hpend1 & Htt1 & Htt1' & Hta1 & Hback).
    (* results that keep the stack height *)
    assert (Hkeep : forall (q : ae) (top : ae), snd q = snd p ->
              exists r' pend', exec_script sc1 r ta pend = Some (r', ta1, pend') /\
                r_m r' = r_m r /\ wf r' /\ r_env r' = r_env r /\ (r_stack r' <> [] -> r_done r' = None) /\
                links (tl (top :: q :: b)) r' pend' /\ (ta1 = None -> pend' = 0) /\ (tgt1 = None -> ta1 = None) /\
                (ta1 = None -> tgt1 = None) /\ closed_is r' ta1 /\ top :: q :: b <> [] /\
                Forall (fun p : ae => snd p <> None) (tl (top :: q :: b)) /\ pend' <= length (r_stack r')).
    { intros q top Hq. exists r, pend. split; [exact Hex|split; [reflexivity|split; [exact Hwf|split; [reflexivity|split; [exact Hdn|]]]]].
      split; [|split; [exact Hpend1|split; [exact Htt1|split; [exact Htt1'|split; [exact Hta1|split; [discriminate|]]]]]].
      - simpl. unfold links in *. simpl in *. rewrite Hq. exact Hl.
      - split; [|exact Hple]. simpl. constructor; [rewrite Hq; exact Hp|exact Hb]. }
    match type of Hres with (if ?c then _ else _) = _ => destruct c end;
      [inversion Hres; subst; apply Hkeep; reflexivity|].
    match type of Hres with (if ?c then _ else _) = _ => destruct c end;
      [inversion Hres; subst; apply Hkeep; reflexivity|].
    match type of Hres with (if ?c then _ else _) = _ => destruct c end.
    + match type of Hres with (match ?c with Some _ => _ | None => _ end) = _ => destruct c end; [|discriminate].
      inversion Hres; subst. apply Hkeep. reflexivity.
    + (* pop: the parent's node is closed (now, or after the target has been removed) *)
      destruct (rec_done_a (commit (fst p) (e_node (fst cur)), snd p) b tgt1 ta1) as [stk2 tgt2 ta2 sc2| |] eqn:Erec;
        simpl in Hres; try discriminate.
      inversion Hres; subst. clear Hres.
      rewrite <- app_assoc. simpl.
      (* execute sc1, then HUp, then the rest *)
      assert (Hsplit : forall l1 l2 r0 t0 p0 r1 t1 p1,
                exec_script l1 r0 t0 p0 = Some (r1, t1, p1) -> exec_script (l1 ++ l2) r0 t0 p0 = exec_script l2 r1 t1 p1).
      { induction l1 as [|[|a] l1 IHl]; intros l2 r0 t0 p0 r1 t1 p1 H; simpl in *.
        - inversion H; reflexivity.
        - destruct t0; [eapply IHl; eauto|]. destruct (go_up r0) as [r0'|]; simpl in *; [eapply IHl; eauto|discriminate].
        - destruct t0; [discriminate|]. destruct a; [|discriminate]. destruct (last_closed r0); [|discriminate].
          destruct (Pos.eqb _ _); [eapply IHl; eauto|discriminate]. }
      rewrite (Hsplit _ _ _ _ _ _ _ _ Hex). simpl.
      destruct (snd p) as [pa|] eqn:Epa; [|exfalso; apply Hp; reflexivity].
      destruct ta1 as [x1|].
      * (* postponed *)
        assert (Hl' : links b r (S pend)).
        { unfold links in *. simpl in Hl. destruct (skipn pend (r_stack r)) as [|f rest] eqn:Esk; simpl in Hl; [discriminate|].
          inversion Hl as [[E1 E2]]. rewrite E2.
          assert (Esk' : skipn (S pend) (r_stack r) = rest) by (eapply skipn_S_tail; eauto).
          rewrite Esk'. reflexivity. }
        assert (HpleS : S pend <= length (r_stack r)).
        { unfold links in Hl. simpl in Hl. destruct (skipn pend (r_stack r)) as [|f rest] eqn:Esk; simpl in Hl; [discriminate|].
          apply skipn_cons_lt in Esk. lia. }
        destruct (IH (commit (fst p) (e_node (fst cur)), Some pa) tgt1 (Some x1) r (S pend) stk' tgt' ta' sc2
                     Hwf Hl' Hdn HpleS) as (r' & pend' & Hex2 & Hrest); try discriminate; auto.
        exists r', pend'. split; [exact Hex2|exact Hrest].
      * (* closed now *)
        specialize (Hpend1 eq_refl). subst pend.
        unfold links in Hl. simpl in Hl.
        destruct (r_stack r) as [|[fa fks] rest] eqn:Est; simpl in Hl; [discriminate|].
        inversion Hl as [[E1 E2]]. assert (Efa : fa = pa) by congruence. subst fa.
        destruct (go_up_wf r pa fks rest Hwf Est) as (r1 & Eg & Em & Hwf1 & Henv1 & Hlc1 & Hfst1 & Hlen1 & Hdn1).
        rewrite Eg. simpl.
        assert (Hl1 : links b r1 0).
        { assert (Hmm : forall l : list aframe, map (fun f : aframe => Some (fst f)) l = map Some (map fst l))
            by (intros; rewrite map_map; reflexivity).
          unfold links. change (skipn 0 (r_stack r1)) with (r_stack r1). rewrite E2, !Hmm, Hfst1. reflexivity. }
        destruct (IH (commit (fst p) (e_node (fst cur)), Some pa) tgt1 None r1 0 stk' tgt' ta' sc2
                     Hwf1 Hl1 Hdn1 (Nat.le_0_l _)) as (r' & pend' & Hex2 & Em2 & Hrest); auto;
          try (intros; discriminate);
          try (intros _; simpl; exists (AT pa fks); split; [exact Hlc1|reflexivity]);
          try (simpl; exact Logic.I).
        exists r', pend'. split; [exact Hex2|]. destruct Hrest as (W & V & Rest).
        split; [congruence|split; [exact W|split; [congruence|exact Rest]]].
Qed.

Lemma rec_next_a_ok stk tgt ta r pend stk' tgt' ta' sc :
  wf r -> links (tl stk) r pend -> (r_stack r <> [] -> r_done r = None) -> pend <= length (r_stack r) ->
  (ta = None -> pend = 0) -> (tgt = None -> ta = None) -> (ta = None -> tgt = None) ->
  Forall (fun p : ae => snd p <> None) (tl stk) -> closed_is r ta ->
  rec_next_a stk tgt ta = AOk stk' tgt' ta' sc ->
  exists r' pend', exec_script sc r ta pend = Some (r', ta', pend') /\ post r stk' tgt' ta' r' pend'.
Proof.
  intros Hwf Hl Hdn Hple Hpend Htt Htt' Hbel Hta Hres. unfold rec_next_a in Hres.
  destruct stk as [|cur below]; [discriminate|]. simpl in Hl, Hbel.
  destruct (_ <? _); [discriminate|].
  destruct below as [|p b].
  - inversion Hres; subst. exists r, pend. split; [reflexivity|]. unfold post. simpl.
    split; [reflexivity|split; [exact Hwf|split; [reflexivity|split; [exact Hdn|split; [exact Hl|split; [exact Hpend|split; [exact Htt|split; [exact Htt'|split; [exact Hta|split; [discriminate|split; [constructor|exact Hple]]]]]]]]]]].
  - inversion Hbel as [|p' b' Hp Hb]; subst.
    match type of Hres with (if ?c then _ else _) = _ => destruct c end.
    + match type of Hres with (match ?c with Some _ => _ | None => _ end) = _ => destruct c end; [|discriminate].
      inversion Hres; subst. exists r, pend. split; [reflexivity|]. unfold post. simpl.
      split; [reflexivity|split; [exact Hwf|split; [reflexivity|split; [exact Hdn|split; [exact Hl|split; [exact Hpend|split; [exact Htt|split; [exact Htt'|split; [exact Hta|split; [discriminate|split; [constructor; assumption|exact Hple]]]]]]]]]]].
    + destruct (rec_done_a p b tgt ta) as [stk2 tgt2 ta2 sc2| |] eqn:Erec; simpl in Hres; try discriminate.
      inversion Hres; subst. clear Hres. simpl.
      destruct (snd p) as [pa|] eqn:Epa; [|exfalso; apply Hp; reflexivity].
      destruct ta as [x1|].
      * assert (Hl' : links b r (S pend)).
        { unfold links in *. simpl in Hl. destruct (skipn pend (r_stack r)) as [|f rest] eqn:Esk; simpl in Hl; [discriminate|].
          inversion Hl as [[E1 E2]]. rewrite E2.
          assert (Esk' : skipn (S pend) (r_stack r) = rest) by (eapply skipn_S_tail; eauto).
          rewrite Esk'. reflexivity. }
        assert (HpleS : S pend <= length (r_stack r)).
        { unfold links in Hl. simpl in Hl. destruct (skipn pend (r_stack r)) as [|f rest] eqn:Esk; simpl in Hl; [discriminate|].
          apply skipn_cons_lt in Esk. lia. }
        destruct (rec_done_a_ok b p tgt (Some x1) r (S pend) stk' tgt' ta' sc2 Hwf Hl' Hdn HpleS)
          as (r' & pend' & Hex2 & Hrest); try discriminate; auto.
        exists r', pend'. split; [exact Hex2|exact Hrest].
      * specialize (Hpend eq_refl). subst pend.
        unfold links in Hl. simpl in Hl.
        destruct (r_stack r) as [|[fa fks] rest] eqn:Est; simpl in Hl; [discriminate|].
        inversion Hl as [[E1 E2]]. assert (Efa : fa = pa) by congruence. subst fa.
        destruct (go_up_wf r pa fks rest Hwf Est) as (r1 & Eg & Em & Hwf1 & Henv1 & Hlc1 & Hfst1 & Hlen1 & Hdn1).
        rewrite Eg. simpl.
        assert (Hl1 : links b r1 0).
        { assert (Hmm : forall l : list aframe, map (fun f : aframe => Some (fst f)) l = map Some (map fst l))
            by (intros; rewrite map_map; reflexivity).
          unfold links. change (skipn 0 (r_stack r1)) with (r_stack r1). rewrite E2, !Hmm, Hfst1. reflexivity. }
        destruct (rec_done_a_ok b p tgt None r1 0 stk' tgt' ta' sc2 Hwf1 Hl1 Hdn1 (Nat.le_0_l _))
          as (r' & pend' & Hex2 & Hrest); auto;
          try (intros; discriminate);
          try (intros _; rewrite Epa; simpl; exists (AT pa fks); split; [exact Hlc1|reflexivity]);
          try (intros _ _; rewrite Epa; discriminate);
          try (simpl; exact Logic.I).
        exists r', pend'. split; [exact Hex2|]. unfold post in *. destruct Hrest as (M' & W & V & Rest).
        split; [congruence|split; [exact W|split; [congruence|exact Rest]]].
Qed.

(* ---- the invariant of the addressed state ------------------------------------------------------------------- *)
Definition HInv (caching : bool) (a : hst) : Prop :=
  good caching (r_m (a_rd a)) /\ post (a_rd a) (a_stk a) (a_tgt a) (a_ta a) (a_rd a) (a_pending a).

Lemma opt_eqb_refl (x : option addr) : opt_eqb Pos.eqb x x = true.
Proof. destruct x; simpl; [apply Pos.eqb_refl|reflexivity]. Qed.

Definition step_post (caching : bool) (a : hst) (s : astep) : Prop :=
  match s with
  | ACont a' => HInv caching a' /\ ext caching (r_m (a_rd a)) (r_m (a_rd a'))
  | ARet (ODeliver t) a' => a' = a /\ a_tgt a = Some t
  | ARet (OTerm _) a' => a' = a
  end.

Lemma of_ares_ok caching a r0 res rest :
  good caching (r_m r0) -> ext caching (r_m (a_rd a)) (r_m r0) ->
  (forall stk' tgt' ta' sc, res = AOk stk' tgt' ta' sc ->
     exists r' pend', exec_script sc r0 (a_ta a) (a_pending a) = Some (r', ta', pend') /\ post r0 stk' tgt' ta' r' pend') ->
  exists s, of_ares res rest a r0 = Some s /\ step_post caching a s.
Proof.
  intros Hg Hx Hres. destruct res as [stk' tgt' ta' sc|t|site]; simpl.
  - destruct (Hres _ _ _ _ eq_refl) as (r' & pend' & Hex & Hpost). rewrite Hex. simpl. rewrite opt_eqb_refl.
    eexists. split; [reflexivity|]. simpl. unfold post in Hpost. destruct Hpost as (M' & W & V & Rest).
    split; [|rewrite M'; exact Hx]. split; [simpl; rewrite M'; exact Hg|]. unfold post. simpl.
    split; [reflexivity|split; [exact W|split; [reflexivity|exact Rest]]].
  - eexists. split; [reflexivity|reflexivity].
  - eexists. split; [reflexivity|reflexivity].
Qed.

Section Steps.
  Variable caching : bool.
  Variable choose : st -> choice.
  Variable nm : nat -> bytes.
  Variable cols : nat -> list nat -> list (bytes * bytes).
  Variable try_leaf : leaf -> list unt -> option nat.
  Hypothesis HL : legal caching choose.

  Lemma hinv_unpack a : HInv caching a -> a_tgt a = None ->
    good caching (r_m (a_rd a)) /\ wf (a_rd a) /\ (r_stack (a_rd a) <> [] -> r_done (a_rd a) = None) /\
    links (tl (a_stk a)) (a_rd a) 0 /\ a_ta a = None /\ a_pending a = 0 /\
    Forall (fun p : ae => snd p <> None) (tl (a_stk a)) /\ a_stk a <> [].
  Proof.
    intros [Hg (_ & W & _ & Dn & L & P1 & P2 & _ & _ & Ne & Fa & _)] Ht.
    specialize (P2 Ht). specialize (P1 P2). rewrite P1 in L. auto 10.
  Qed.

  Lemma instantiate_a_ok cur below n us root_ok a :
    HInv caching a -> a_tgt a = None -> a_stk a = cur :: below ->
    exists s, instantiate_a caching choose nm cols cur below n us root_ok a = Some s /\ step_post caching a s.
  Proof.
    intros Hinv Ht Estk. destruct (hinv_unpack a Hinv Ht) as (Hg & Hwf & Hdn & Hl & Hta & Hpe & Hfa & _).
    rewrite Estk in Hl, Hfa. simpl in Hl, Hfa.
    unfold instantiate_a. destruct (length us <? n); [eexists; split; reflexivity|].
    set (d := e_decl (fst cur)). set (ids := map u_id (firstn n us)).
    destruct below as [|p b].
    - destruct root_ok; [|eexists; split; reflexivity].
      destruct (build_ok caching choose HL nm cols (r_m (a_rd a)) d ids Hg)
        as (body & x & cs & Eb & Gb & Wb & Vb & Xb & Sb & Db). rewrite Eb. simpl. rewrite Sb.
      destruct (d_kids d) as [|k kids] eqn:Ek.
      + destruct (go_up_wf body x cs [] Wb Sb) as (b1 & Eg & Em & W1 & V1 & Lc1 & Hf1 & Hlen1 & Dn1).
        rewrite Eg. simpl.
        apply of_ares_ok; [rewrite Em; exact Gb|rewrite Em; exact Xb|].
        intros stk' tgt' ta' sc Eres. rewrite Hta, Hpe. rewrite Hta in Eres.
        assert (Eb1 : r_stack b1 = []) by (destruct (r_stack b1); [reflexivity|simpl in Hlen1; discriminate]).
        eapply (rec_done_a_ok [] (E d (Some (I (d_name d) ids [])) (e_cur (fst cur)) (e_occ (fst cur)), Some x) (a_tgt a) None); eauto;
          try (unfold links; rewrite Eb1; reflexivity);
          try (rewrite Eb1; simpl; lia); try (rewrite Ht; auto; fail); try congruence; try exact Logic.I;
          try (intros _; simpl; exists (AT x cs); auto; fail); try (intros _ _; simpl; discriminate); try (simpl; exact Logic.I).
      + eexists. split; [reflexivity|]. simpl. split; [|exact Xb].
        split; [exact Gb|]. unfold post. simpl. rewrite Sb, Hta, Hpe, Ht.
        split; [reflexivity|split; [exact Wb|split; [reflexivity|split; [intros _; exact Db|split; [unfold links; simpl; rewrite Sb; reflexivity|]]]]].
        split; [auto|split; [auto|split; [congruence|split; [exact Logic.I|split; [discriminate|split; [|simpl; lia]]]]]].
        constructor; [simpl; discriminate|constructor].
    - inversion Hfa as [|p' b' Hp Hb]; subst.
      destruct (e_node (fst p)); [|eexists; split; reflexivity].
      destruct (snd p) as [parent|] eqn:Epar; [|exfalso; apply Hp; reflexivity].
      unfold links in Hl. simpl in Hl. change (skipn 0 (r_stack (a_rd a))) with (r_stack (a_rd a)) in Hl.
      destruct (r_stack (a_rd a)) as [|[pa ks] up] eqn:Est; simpl in Hl; [discriminate|].
      inversion Hl as [[E1 E2]]. assert (Epa : pa = parent) by congruence. subst pa.
      destruct (build_ok caching choose HL nm cols (r_m (a_rd a)) d ids Hg)
        as (body & x & cs & Eb & Gb & Wb & Vb & Xb & Sb & Db). rewrite Eb. simpl. rewrite Sb.
      assert (Hne : r_stack (a_rd a) <> []) by (rewrite Est; discriminate).
      destruct (r_tree_some (a_rd a) Hne) as [t Htree].
      assert (Henv : r_env body = r_env (a_rd a) ++ [t]).
      { rewrite Vb, Hwf. unfold r_forest. rewrite Htree. reflexivity. }
      unfold attach. rewrite Est, Sb, Pos.eqb_refl.
      destruct (attach_ok caching (a_rd a) body t x cs parent ks up (has_kids d) Gb Wb Sb Est Htree Henv)
        as (r' & Ea & Gr & Wr & Vr & Xr & Sr & Dr).
      rewrite Ea. simpl.
      assert (Xall : ext caching (r_m (a_rd a)) (r_m r')) by (eapply ext_trans; eauto).
      assert (Hmm : forall l : list aframe, map (fun f : aframe => Some (fst f)) l = map Some (map fst l))
        by (intros; rewrite map_map; reflexivity).
      destruct (d_kids d) as [|k kids] eqn:Ek.
      + assert (Hk : has_kids d = false) by (unfold has_kids; rewrite Ek; reflexivity). rewrite Hk in Sr.
        apply of_ares_ok; [exact Gr|exact Xall|].
        intros stk' tgt' ta' sc Eres. rewrite Hta, Hpe. rewrite Hta in Eres.
        assert (Hlc : last_closed r' = Some (AT x cs)).
        { unfold last_closed. rewrite Sr. rewrite rev_app_distr. reflexivity. }
        eapply (rec_done_a_ok (p :: b) (E d (Some (I (d_name d) ids [])) (e_cur (fst cur)) (e_occ (fst cur)), Some x) (a_tgt a) None); eauto;
          try (unfold links; simpl; rewrite Sr; simpl; rewrite Epar, E2; reflexivity);
          try (intros _; exact Dr); try lia; try (rewrite Ht; auto; fail); try congruence; try exact Logic.I;
          try (intros _; simpl; exists (AT x cs); auto; fail); try (intros _ _; simpl; discriminate); try (simpl; exact Logic.I);
          try (constructor; [rewrite Epar; discriminate|exact Hb]).
      + assert (Hk : has_kids d = true) by (unfold has_kids; rewrite Ek; reflexivity). rewrite Hk in Sr.
        eexists. split; [reflexivity|]. simpl. split; [|exact Xall].
        split; [exact Gr|]. unfold post. simpl. rewrite Sr, Hta, Hpe, Ht.
        split; [reflexivity|split; [exact Wr|split; [reflexivity|split; [intros _; exact Dr|split; [|]]]]].
        * unfold links. simpl. rewrite Sr. simpl. rewrite Epar, E2. reflexivity.
        * split; [auto|split; [auto|split; [congruence|split; [exact Logic.I|split; [discriminate|split; [|simpl; lia]]]]]].
          constructor; [simpl; discriminate|constructor; [rewrite Epar; discriminate|exact Hb]].
  Qed.

  Lemma rec_next_step_ok a rest :
    HInv caching a -> a_tgt a = None ->
    exists s, of_ares (rec_next_a (a_stk a) None (a_ta a)) rest a (a_rd a) = Some s /\ step_post caching a s.
  Proof.
    intros Hinv Ht. destruct (hinv_unpack a Hinv Ht) as (Hg & Hwf & Hdn & Hl & Hta & Hpe & Hfa & _).
    apply of_ares_ok; [exact Hg|apply ext_refl|].
    intros stk' tgt' ta' sc Eres. rewrite Hta, Hpe. rewrite Hta in Eres.
    eapply (rec_next_a_ok (a_stk a) None None); eauto; try congruence; try lia. exact Logic.I.
  Qed.

  Lemma hstep_a_ok a : HInv caching a ->
    exists s, hstep_a caching choose nm cols try_leaf a = Some s /\ step_post caching a s.
  Proof.
    intros Hinv. unfold hstep_a. destruct (a_tgt a) as [t|] eqn:Ht.
    - eexists. split; [reflexivity|]. simpl. auto.
    - destruct (a_rest a) as [|u us].
      + destruct (length (a_stk a) <=? 1); [eexists; split; reflexivity|]. apply rec_next_step_ok; auto.
      + destruct (length (a_stk a) <=? 1); [eexists; split; reflexivity|].
        destruct (a_stk a) as [|cur below] eqn:Estk; [eexists; split; reflexivity|].
        destruct (read_rec try_leaf (e_decl (fst cur)) (u :: us)).
        * apply instantiate_a_ok; auto.
        * rewrite <- Estk. apply rec_next_step_ok; auto.
  Qed.

  Lemma edi_step_a_ok a : HInv caching a ->
    exists s, edi_step_a caching choose nm cols try_leaf a = Some s /\ step_post caching a s.
  Proof.
    intros Hinv. unfold edi_step_a. destruct (a_tgt a) as [t|] eqn:Ht.
    - eexists. split; [reflexivity|]. simpl. auto.
    - destruct (a_rest a) as [|u us].
      + destruct (length (a_stk a) <=? 1); [eexists; split; reflexivity|]. apply rec_next_step_ok; auto.
      + destruct (a_stk a) as [|cur below] eqn:Estk; [eexists; split; reflexivity|].
        destruct (read_rec try_leaf (e_decl (fst cur)) (u :: us)).
        * apply instantiate_a_ok; auto.
        * destruct (length (cur :: below) <=? 1); [eexists; split; reflexivity|].
          rewrite <- Estk. apply rec_next_step_ok; auto.
  Qed.
End Steps.

(* ---- Read prologue / Release ---------------------------------------------------------------------------------- *)
Lemma ups_ok : forall n r,
  wf r -> (r_stack r <> [] -> r_done r = None) -> n <= length (r_stack r) ->
  exists r', ups n r = Some r' /\ r_m r' = r_m r /\ wf r' /\ r_env r' = r_env r /\
    (r_stack r' <> [] -> r_done r' = None) /\ map fst (r_stack r') = skipn n (map fst (r_stack r)).
Proof.
  induction n as [|n IH]; intros r Hwf Hdn Hle; simpl.
  - exists r. auto 10.
  - destruct (r_stack r) as [|[a ks] up] eqn:Est; [simpl in Hle; lia|].
    destruct (go_up_wf r a ks up Hwf Est) as (r1 & Eg & Em & W1 & V1 & _ & Hf1 & Hlen1 & Dn1).
    rewrite Eg. simpl. simpl in Hle.
    assert (Hle1 : n <= length (r_stack r1)) by (rewrite Hlen1; apply le_S_n; exact Hle).
    destruct (IH r1 W1 Dn1 Hle1) as (r2 & E2 & M2 & W2 & V2 & Dn2 & Hf2).
    exists r2. split; [exact E2|split; [congruence|split; [exact W2|split; [congruence|split; [exact Dn2|]]]]].
    rewrite Hf2, Hf1. reflexivity.
Qed.

Lemma clear_tgt_a_ok caching a :
  HInv caching a ->
  exists a2, clear_tgt_a caching a = Some a2 /\ HInv caching a2 /\ ext caching (r_m (a_rd a)) (r_m (a_rd a2)) /\
    a_stk a2 = a_stk a /\ a_rest a2 = a_rest a /\ a_tgt a2 = None.
Proof.
  intros [Hg (_ & W & _ & Dn & L & P1 & P2 & P3 & Cl & Ne & Fa & Ple)]. unfold clear_tgt_a.
  destruct (a_ta a) as [x|] eqn:Eta.
  - destruct Cl as [t [Hlc Hrt]]. rewrite Hlc, Hrt, Pos.eqb_refl.
    assert (Hlast : match r_stack (a_rd a) with
                    | [] => exists ta0, r_done (a_rd a) = Some ta0
                    | (_, ks) :: _ => exists ks' ta0, ks = ks' ++ [ta0]
                    end).
    { unfold last_closed in Hlc. destruct (r_stack (a_rd a)) as [|[p ks] up]; [eauto|].
      destruct (rev ks) as [|k rest] eqn:Er; [discriminate|]. exists (rev rest), k.
      rewrite <- (rev_involutive ks), Er. reflexivity. }
    destruct (remove_last_wf caching (a_rd a) Hg W Hlast) as (r1 & E1 & G1 & W1 & V1 & X1 & Hf1 & Dn1).
    rewrite E1. simpl.
    assert (Hlen1 : length (r_stack r1) = length (r_stack (a_rd a))).
    { apply (f_equal (@length _)) in Hf1. rewrite !map_length in Hf1. exact Hf1. }
    assert (Hple1 : a_pending a <= length (r_stack r1)) by lia.
    destruct (ups_ok (a_pending a) r1 W1 Dn1 Hple1) as (r2 & E2 & M2 & W2 & V2 & Dn2 & Hf2).
    rewrite E2. simpl. eexists. split; [reflexivity|]. simpl.
    split; [|split; [rewrite M2; exact X1|auto]].
    split; [simpl; rewrite M2; exact G1|]. unfold post. simpl.
    split; [reflexivity|split; [exact W2|split; [reflexivity|split; [exact Dn2|split; [|]]]]].
    + unfold links in *. change (skipn 0 (r_stack r2)) with (r_stack r2).
      assert (Hmm : forall l : list aframe, map (fun f : aframe => Some (fst f)) l = map Some (map fst l))
        by (intros; rewrite map_map; reflexivity).
      rewrite L, !Hmm, Hf2, Hf1. rewrite <- skipn_map. reflexivity.
    + split; [auto|split; [auto|split; [auto|split; [exact Logic.I|split; [exact Ne|split; [exact Fa|lia]]]]]].
  - eexists. split; [reflexivity|]. simpl. split; [|split; [apply ext_refl|auto]].
    split; [exact Hg|]. unfold post. simpl.
    split; [reflexivity|split; [exact W|split; [reflexivity|split; [exact Dn|split; [exact L|]]]]].
    split; [exact P1|split; [auto|split; [auto|split; [exact Logic.I|split; [exact Ne|split; [exact Fa|exact Ple]]]]]].
Qed.

(* ---- a whole run ------------------------------------------------------------------------------------------------ *)
(* a delivered node: the state is good, the address handed out is the root of a live subtree
   whose links are sound *)
Definition hdeliv_ok (caching : bool) (d : mach * addr * inst) : Prop :=
  let m := fst (fst d) in
  good caching m /\
  exists ta, root ta = snd (fst d) /\ (forall b, b ∈ addrs ta -> b ∈ addrs_f (m_F m)) /\
    exists par pv nx, tree_ok (heap (m_s m)) par pv nx ta.

Section RunOk.
  Variable caching : bool.
  Variable step_a : hst -> option astep.
  Hypothesis Hstep : forall a, HInv caching a -> exists s, step_a a = Some s /\ step_post caching a s.

  Lemma run_a_ok : forall fuel a, HInv caching a ->
    exists a' ds, run_a caching step_a fuel a = Some (a', ds) /\ HInv caching a' /\
      ext caching (r_m (a_rd a)) (r_m (a_rd a')) /\ Forall (hdeliv_ok caching) ds.
  Proof.
    induction fuel as [|f IH]; intros a Hinv; simpl.
    - exists a, []. split; [reflexivity|split; [exact Hinv|split; [apply ext_refl|constructor]]].
    - destruct (Hstep a Hinv) as (s & Es & Hpost). rewrite Es. simpl.
      destruct s as [a1|[t|e] a1]; simpl in Hpost.
      + destruct Hpost as [Hinv1 X1]. destruct (IH a1 Hinv1) as (a2 & ds & E2 & Hinv2 & X2 & Hds).
        exists a2, ds. split; [exact E2|split; [exact Hinv2|split; [eapply ext_trans; eauto|exact Hds]]].
      + destruct Hpost as [-> Ht].
        pose proof Hinv as [Hg (_ & W & _ & Dn & L & P1 & P2 & P3 & Cl & Ne & Fa & Ple)].
        destruct (a_ta a) as [x|] eqn:Eta; [|specialize (P3 eq_refl); congruence].
        destruct (clear_tgt_a_ok caching a Hinv) as (a2 & E2 & Hinv2 & X2 & _).
        rewrite E2. simpl.
        destruct (IH a2 Hinv2) as (a3 & ds & E3 & Hinv3 & X3 & Hds). rewrite E3. simpl.
        exists a3, ((r_m (a_rd a), x, t) :: ds).
        split; [reflexivity|split; [exact Hinv3|split; [eapply ext_trans; eauto|]]].
        constructor; [|exact Hds].
        destruct Cl as [ta [Hlc Hrt]].
        destruct (last_closed_ok caching (a_rd a) ta Hg W Hlc) as [Hin Hok].
        split; [exact Hg|]. exists ta. simpl. auto.
      + subst a1. exists a, []. split; [reflexivity|split; [exact Hinv|split; [apply ext_refl|constructor]]].
  Qed.
End RunOk.

(* ---- NewHierarchyReader / edi.NewReader --------------------------------------------------------------------------- *)
Lemma init_a_ok caching choose nm m ds us :
  legal caching choose -> good caching m ->
  exists a0, init_a caching choose nm m ds us = Some a0 /\ HInv caching a0 /\ ext caching m (r_m (a_rd a0)) /\
    erase a0 = Hier.init ds us.
Proof.
  intros HL Hg. unfold init_a.
  destruct (tree_init_ok caching choose m DocumentNode (nm ROOT_NAME) FNone HL Hg)
    as (r0 & x & E0 & G0 & W0 & V0 & X0 & S0 & D0 & _ & _). rewrite E0. simpl. rewrite S0.
  destruct ds as [|d ds'].
  - destruct (go_up_wf r0 x [] [] W0 S0) as (r1 & Eg & Em & W1 & V1 & Lc1 & Hf1 & Hlen1 & Dn1).
    rewrite Eg. simpl. eexists. split; [reflexivity|]. split; [|split; [simpl; rewrite Em; exact X0|reflexivity]].
    split; [simpl; rewrite Em; exact G0|]. unfold post. simpl.
    assert (Eb1 : r_stack r1 = []) by (destruct (r_stack r1); [reflexivity|simpl in Hlen1; discriminate]).
    split; [reflexivity|split; [exact W1|split; [reflexivity|split; [exact Dn1|split; [unfold links; rewrite Eb1; reflexivity|]]]]].
    split; [auto|split; [auto|split; [auto|split; [exact Logic.I|split; [discriminate|split; [constructor|lia]]]]]].
  - eexists. split; [reflexivity|]. split; [|split; [exact X0|reflexivity]].
    split; [exact G0|]. unfold post. simpl.
    split; [reflexivity|split; [exact W0|split; [reflexivity|split; [intros _; exact D0|split; [unfold links; simpl; rewrite S0; reflexivity|]]]]].
    split; [auto|split; [auto|split; [auto|split; [exact Logic.I|split; [discriminate|split; [|lia]]]]]].
    constructor; [simpl; discriminate|constructor].
Qed.

(* ---- the abstract part of every step is the step of Model/Hier.v ---------------------------------------------------- *)
Definition rel_res (ra : ares) (r : rres) : Prop :=
  match ra, r with
  | AOk stk tgt _ _, ROk stk' tgt' => map fst stk = stk' /\ tgt = tgt'
  | AErr t, RErr t' => t = t'
  | APanic s, RPanic s' => s = s'
  | _, _ => False
  end.

Lemma rel_prepend pre ra r : rel_res ra r -> rel_res (prepend pre ra) r.
Proof. destruct ra, r; simpl; auto. Qed.

Ltac split_conds :=
  repeat (match goal with
          | |- context [if ?c then _ else _] => destruct c
          | |- context [match ?c with Some _ => _ | None => _ end] => destruct c
          end; simpl).

Lemma rec_done_a_erase : forall below cur tgt ta,
  rel_res (rec_done_a cur below tgt ta) (rec_done (fst cur) (map fst below) tgt).
Proof.
  induction below as [|p b IH]; intros cur tgt ta; simpl.
  - destruct (d_tgt (e_decl (fst cur))); [destruct tgt; [reflexivity|destruct (e_node (fst cur)); simpl; auto]|simpl; auto].
  - destruct (d_tgt (e_decl (fst cur))).
    + destruct tgt; [reflexivity|]. destruct (e_node (fst cur)) eqn:En; [|reflexivity]. simpl.
      split_conds; auto. apply rel_prepend. apply (IH (commit (fst p) (Some i), snd p)).
    + simpl. split_conds; auto. apply rel_prepend. apply (IH (commit (fst p) (e_node (fst cur)), snd p)).
Qed.

Lemma rec_next_a_erase stk tgt ta : rel_res (rec_next_a stk tgt ta) (rec_next (map fst stk) tgt).
Proof.
  unfold rec_next_a, rec_next. destruct stk as [|cur below]; [reflexivity|]. simpl.
  destruct (_ <? _); [reflexivity|]. destruct below as [|p b]; [simpl; auto|]. simpl.
  split_conds; auto. apply rel_prepend. apply rec_done_a_erase.
Qed.

Definition erase_step (s : astep) : sres :=
  match s with ACont a => Cont (erase a) | ARet o a => Ret o (erase a) end.

Lemma of_ares_erase ra r rest a rd0 s :
  rel_res ra r -> of_ares ra rest a rd0 = Some s -> of_rres r rest (erase a) = erase_step s.
Proof.
  destruct ra as [stk tgt ta sc|t|site], r as [stk' tgt'|t'|site']; simpl; try contradiction.
  - intros [<- <-]. destruct (exec_script sc rd0 (a_ta a) (a_pending a)) as [[[r' ta'] pend']|]; simpl; [|discriminate].
    destruct (opt_eqb Pos.eqb ta ta'); [|discriminate]. intros H. inversion H. reflexivity.
  - intros <- H. inversion H. reflexivity.
  - intros <- H. inversion H. reflexivity.
Qed.

Section Erase.
  Variable caching : bool.
  Variable choose : st -> choice.
  Variable nm : nat -> bytes.
  Variable cols : nat -> list nat -> list (bytes * bytes).
  Variable try_leaf : leaf -> list unt -> option nat.

  Lemma instantiate_a_erase cur below n us root_ok a s :
    a_stk a = cur :: below ->
    instantiate_a caching choose nm cols cur below n us root_ok a = Some s ->
    instantiate (fst cur) (map fst below) (a_tgt a) n us root_ok (erase a) = erase_step s.
  Proof.
    intros Estk. unfold instantiate_a, instantiate.
    destruct (length us <? n); [intros H; inversion H; reflexivity|].
    destruct below as [|p b]; cbn [map].
    - destruct root_ok; [|intros H; inversion H; reflexivity].
      destruct (build _ _ _ _ _ _ _) as [body|]; cbn [obnd]; [|discriminate].
      destruct (r_stack body) as [|[x cs] [|f rest]]; try discriminate.
      destruct (d_kids (e_decl (fst cur))) as [|k kids].
      + destruct (go_up body) as [b1|]; cbn [obnd]; [|discriminate].
        apply of_ares_erase. exact (rec_done_a_erase [] (E (e_decl (fst cur)) (Some (I (d_name (e_decl (fst cur))) (map u_id (firstn n us)) [])) (e_cur (fst cur)) (e_occ (fst cur)), Some x) (a_tgt a) (a_ta a)).
      + intros H. inversion H. reflexivity.
    - destruct (e_node (fst p)); [|intros H; inversion H; reflexivity].
      destruct (snd p) as [parent|]; [|discriminate].
      destruct (build _ _ _ _ _ _ _) as [body|]; cbn [obnd]; [|discriminate].
      destruct (r_stack body) as [|[x cs] [|f rest]]; try discriminate.
      destruct (attach _ _ _ _ _) as [r'|]; cbn [obnd]; [|discriminate].
      destruct (d_kids (e_decl (fst cur))) as [|k kids].
      + apply of_ares_erase. exact (rec_done_a_erase (p :: b) (E (e_decl (fst cur)) (Some (I (d_name (e_decl (fst cur))) (map u_id (firstn n us)) [])) (e_cur (fst cur)) (e_occ (fst cur)), Some x) (a_tgt a) (a_ta a)).
      + intros H. inversion H. reflexivity.
  Qed.

  Lemma leb_alias x y : PeanoNat.Nat.leb x y = Init.Nat.leb x y.
  Proof. reflexivity. Qed.
  Ltac norm_leb := rewrite ?leb_alias.

  Lemma hstep_a_erase a s :
    hstep_a caching choose nm cols try_leaf a = Some s -> hstep try_leaf (erase a) = erase_step s.
  Proof.
    unfold hstep_a, hstep. simpl. destruct (a_tgt a) as [t|] eqn:Ht; [intros H; inversion H; reflexivity|].
    rewrite ?map_length. norm_leb.
    destruct (a_rest a) as [|u us].
    - destruct (length (a_stk a) <=? 1); [intros H; inversion H; reflexivity|].
      apply of_ares_erase. apply rec_next_a_erase.
    - destruct (length (a_stk a) <=? 1); [intros H; inversion H; reflexivity|].
      destruct (a_stk a) as [|cur below] eqn:Estk; [intros H; inversion H; reflexivity|]. cbn [map].
      destruct (read_rec try_leaf (e_decl (fst cur)) (u :: us)).
      + intros H. rewrite <- Ht. apply (instantiate_a_erase cur below n (u :: us) false a s Estk H).
      + apply of_ares_erase. exact (rec_next_a_erase (cur :: below) None (a_ta a)).
  Qed.

  Lemma edi_step_a_erase a s :
    edi_step_a caching choose nm cols try_leaf a = Some s -> edi_step try_leaf (erase a) = erase_step s.
  Proof.
    unfold edi_step_a, edi_step. simpl. destruct (a_tgt a) as [t|] eqn:Ht; [intros H; inversion H; reflexivity|].
    rewrite ?map_length. norm_leb.
    destruct (a_rest a) as [|u us].
    - destruct (length (a_stk a) <=? 1); [intros H; inversion H; reflexivity|].
      apply of_ares_erase. apply rec_next_a_erase.
    - destruct (a_stk a) as [|cur below] eqn:Estk; [intros H; inversion H; reflexivity|]. cbn [map].
      destruct (read_rec try_leaf (e_decl (fst cur)) (u :: us)).
      + intros H. rewrite <- Ht. apply (instantiate_a_erase cur below n (u :: us) true a s Estk H).
      + change (fst cur :: map fst below) with (map fst (cur :: below)). rewrite ?map_length. norm_leb.
        destruct (length (cur :: below) <=? 1); [intros H; inversion H; reflexivity|].
        apply of_ares_erase. exact (rec_next_a_erase (cur :: below) None (a_ta a)).
  Qed.

  Lemma clear_tgt_a_erase a a2 : clear_tgt_a caching a = Some a2 -> erase a2 = clear_tgt (erase a).
  Proof.
    unfold clear_tgt_a. destruct (a_ta a).
    - destruct (last_closed (a_rd a)); [|discriminate]. destruct (Pos.eqb _ _); [|discriminate].
      destruct (remove_last caching (a_rd a)) as [r1|]; simpl; [|discriminate].
      destruct (ups (a_pending a) r1); simpl; [|discriminate]. intros H. inversion H. reflexivity.
    - intros H. inversion H. reflexivity.
  Qed.

  Lemma run_a_erase (step_a : hst -> option astep) (step : mstate -> sres) :
    (forall a s, step_a a = Some s -> step (erase a) = erase_step s) ->
    forall fuel a a' dl, run_a caching step_a fuel a = Some (a', dl) ->
      fst (Hier.run step fuel (erase a)) = map snd dl.
  Proof.
    intros Hst. induction fuel as [|f IH]; intros a a' dl H; simpl in *.
    - inversion H. reflexivity.
    - destruct (step_a a) as [s|] eqn:Es; simpl in H; [|discriminate].
      rewrite (Hst a s Es). destruct s as [a1|[t|e] a1]; simpl.
      + apply (IH a1 a' dl H).
      + destruct (a_ta a1); [|discriminate].
        destruct (clear_tgt_a caching a1) as [a2|] eqn:Ec; simpl in H; [|discriminate].
        destruct (run_a caching step_a f a2) as [[a3 dl3]|] eqn:Er; simpl in H; [|discriminate].
        inversion H; subst. rewrite <- (clear_tgt_a_erase a1 a2 Ec).
        specialize (IH a2 a' dl3 Er). destruct (Hier.run step f (erase a2)) as [ds e]. simpl in *.
        rewrite IH. reflexivity.
      + inversion H. reflexivity.
  Qed.
End Erase.

(* ---- the statements exported by Props/C12.v ---------------------------------------------------------------------- *)
Section Top.
  Variable caching : bool.
  Variable choose : st -> choice.
  Variable nm : nat -> bytes.
  Variable cols : nat -> list nat -> list (bytes * bytes).
  Variable try_leaf : leaf -> list unt -> option nat.
  Hypothesis HL : legal caching choose.

  Theorem hier_reader_pf : forall m0 ds us fuel,
    good caching m0 ->
    exists a0 a' dl,
      init_a caching choose nm m0 ds us = Some a0 /\
      run_a caching (hstep_a caching choose nm cols try_leaf) fuel a0 = Some (a', dl) /\
      good caching (r_m (a_rd a')) /\ ext caching m0 (r_m (a_rd a')) /\
      Forall (hdeliv_ok caching) dl /\
      map snd dl = fst (Hier.run (hstep try_leaf) fuel (Hier.init ds us)).
  Proof.
    intros m0 ds us fuel Hg.
    destruct (init_a_ok caching choose nm m0 ds us HL Hg) as (a0 & E0 & I0 & X0 & Er0).
    destruct (run_a_ok caching _ (hstep_a_ok caching choose nm cols try_leaf HL) fuel a0 I0)
      as (a' & dl & E1 & I1 & X1 & Hds).
    exists a0, a', dl. split; [exact E0|split; [exact E1|split; [exact (proj1 I1)|split; [eapply ext_trans; eauto|split; [exact Hds|]]]]].
    rewrite <- Er0. symmetry. eapply run_a_erase; [|exact E1]. apply hstep_a_erase.
  Qed.

  Theorem edi_reader_pf : forall m0 ds us fuel,
    good caching m0 ->
    exists a0 a' dl,
      init_a caching choose nm m0 ds us = Some a0 /\
      run_a caching (edi_step_a caching choose nm cols try_leaf) fuel a0 = Some (a', dl) /\
      good caching (r_m (a_rd a')) /\ ext caching m0 (r_m (a_rd a')) /\
      Forall (hdeliv_ok caching) dl /\
      map snd dl = fst (Hier.run (edi_step try_leaf) fuel (Hier.init ds us)).
  Proof.
    intros m0 ds us fuel Hg.
    destruct (init_a_ok caching choose nm m0 ds us HL Hg) as (a0 & E0 & I0 & X0 & Er0).
    destruct (run_a_ok caching _ (edi_step_a_ok caching choose nm cols try_leaf HL) fuel a0 I0)
      as (a' & dl & E1 & I1 & X1 & Hds).
    exists a0, a', dl. split; [exact E0|split; [exact E1|split; [exact (proj1 I1)|split; [eapply ext_trans; eauto|split; [exact Hds|]]]]].
    rewrite <- Er0. symmetry. eapply run_a_erase; [|exact E1]. apply edi_step_a_erase.
  Qed.
End Top.

(* ---- errors and Reads after a terminal result issue no API call ---------------------------------------------------- *)
Lemma of_ares_ret res rest a r o a' : of_ares res rest a r = Some (ARet o a') -> a' = a.
Proof.
  destruct res as [stk tgt ta sc|t|site]; simpl.
  - destruct (exec_script sc r (a_ta a) (a_pending a)) as [[[r' ta'] pend']|]; simpl; [|discriminate].
    destruct (opt_eqb Pos.eqb ta ta'); discriminate.
  - intros H. inversion H. reflexivity.
  - intros H. inversion H. reflexivity.
Qed.

Section Terminal.
  Variable caching : bool.
  Variable choose : st -> choice.
  Variable nm : nat -> bytes.
  Variable cols : nat -> list nat -> list (bytes * bytes).
  Variable try_leaf : leaf -> list unt -> option nat.

  Lemma instantiate_a_ret cur below n us root_ok a o a' :
    instantiate_a caching choose nm cols cur below n us root_ok a = Some (ARet o a') -> a' = a.
  Proof.
    unfold instantiate_a. destruct (length us <? n); [intros H; inversion H; reflexivity|].
    destruct below as [|p b].
    - destruct root_ok; [|intros H; inversion H; reflexivity].
      destruct (build _ _ _ _ _ _ _) as [body|]; cbn [obnd]; [|discriminate].
      destruct (r_stack body) as [|[x cs] [|f rest]]; try discriminate.
      destruct (d_kids (e_decl (fst cur))) as [|k kids]; [|discriminate].
      destruct (go_up body) as [b1|]; cbn [obnd]; [|discriminate]. apply of_ares_ret.
    - destruct (e_node (fst p)); [|intros H; inversion H; reflexivity].
      destruct (snd p) as [parent|]; [|discriminate].
      destruct (build _ _ _ _ _ _ _) as [body|]; cbn [obnd]; [|discriminate].
      destruct (r_stack body) as [|[x cs] [|f rest]]; try discriminate.
      destruct (attach _ _ _ _ _) as [r'|]; cbn [obnd]; [|discriminate].
      destruct (d_kids (e_decl (fst cur))) as [|k kids]; [|discriminate]. apply of_ares_ret.
  Qed.

  (* whatever a step RETURNS (a delivery, EOF, an error, a panic of the model), it returns with the
     state it was called in: the step that detects an error has issued no API call at all *)
  Lemma hstep_a_ret a o a' : hstep_a caching choose nm cols try_leaf a = Some (ARet o a') -> a' = a.
  Proof.
    unfold hstep_a. destruct (a_tgt a); [intros H; inversion H; reflexivity|].
    destruct (a_rest a) as [|u us].
    - destruct (length (a_stk a) <=? 1); [intros H; inversion H; reflexivity|apply of_ares_ret].
    - destruct (length (a_stk a) <=? 1); [intros H; inversion H; reflexivity|].
      destruct (a_stk a) as [|cur below]; [intros H; inversion H; reflexivity|].
      destruct (read_rec try_leaf (e_decl (fst cur)) (u :: us)); [apply instantiate_a_ret|apply of_ares_ret].
  Qed.

  Lemma edi_step_a_ret a o a' : edi_step_a caching choose nm cols try_leaf a = Some (ARet o a') -> a' = a.
  Proof.
    unfold edi_step_a. destruct (a_tgt a); [intros H; inversion H; reflexivity|].
    destruct (a_rest a) as [|u us].
    - destruct (length (a_stk a) <=? 1); [intros H; inversion H; reflexivity|apply of_ares_ret].
    - destruct (a_stk a) as [|cur below]; [intros H; inversion H; reflexivity|].
      destruct (read_rec try_leaf (e_decl (fst cur)) (u :: us)); [apply instantiate_a_ret|].
      destruct (length (cur :: below) <=? 1); [intros H; inversion H; reflexivity|apply of_ares_ret].
  Qed.
End Terminal.

(* Read again after a terminal result: the prologue finds no target to release and the step
   returns the same terminal result in the same state - any number of times *)
Fixpoint read_again (caching : bool) (step_a : hst -> option astep) (k : nat) (a : hst) : option (list term * hst) :=
  match k with
  | O => Some ([], a)
  | S k' =>
      obnd (clear_tgt_a caching a) (fun a1 =>
      obnd (step_a a1) (fun s =>
      match s with
      | ARet (OTerm e) a2 => obnd (read_again caching step_a k' a2) (fun res => Some (e :: fst res, snd res))
      | _ => None
      end))
  end.

Lemma read_again_stable caching step_a :
  (forall a o a', step_a a = Some (ARet o a') -> a' = a) ->
  forall a e, HInv caching a -> a_tgt a = None -> step_a a = Some (ARet (OTerm e) a) ->
  forall k, read_again caching step_a k a = Some (repeat e k, a).
Proof.
  intros Hret a e Hinv Ht Hstep.
  assert (Hta : a_ta a = None).
  { destruct Hinv as [_ (_ & _ & _ & _ & _ & _ & P2 & _)]. exact (P2 Ht). }
  assert (Hclear : clear_tgt_a caching a = Some a).
  { unfold clear_tgt_a. rewrite Hta. destruct a; simpl in *. subst. reflexivity. }
  induction k as [|k IH]; simpl; [reflexivity|].
  rewrite Hclear. simpl. rewrite Hstep. simpl. rewrite IH. reflexivity.
Qed.
