(* C07 proofs, part 4: rawSegToNode over ALL raw segments and declaration lists (no cfg_ok), the
   class of its error, and what schema validation leaves open. *)
From Coq Require Import List NArith Bool Arith Lia.
From Coq.Strings Require Import Byte.
Import ListNotations.
From OV Require Import Base.Bytes Base.Cases Base.Utf8 Base.ErrClass Gen.Continuable Gen.EdiShape
  Model.Edi Proofs.Edi Proofs.EdiRT.

(* ByteUnescape as a total function (unescape_total: it never panics) *)
Definition unesc (rel d : bytes) : bytes := match unescape d rel with Ok o => o | _ => [] end.

Lemma unescape_unesc rel d : unescape d rel = Ok (unesc rel d).
Proof. unfold unesc. destruct (unescape_total d rel) as [o ->]. reflexivity. Qed.

(* the raw elements a declaration names: element index, component index (1 if not given) *)
Definition decl_matches (d : edecl) (raw : list rawelem) : list rawelem :=
  filter (fun e => Nat.eqb (re_ei e) (d_index d) && Nat.eqb (re_ci e) (spec_comp_index d)) raw.

(* rawSegToNode, declaratively: per declaration, in order, one node per matching raw element (in
   segment order) holding its unescaped data; if nothing matches, the default when
   empty_if_missing or a default is declared ("" without a default); otherwise the whole segment
   is an error (None) *)
Fixpoint nodes_spec (rel : bytes) (k : nat) (decls : list edecl) (raw : list rawelem)
  : option (list (nat * bytes)) :=
  match decls with
  | [] => Some []
  | d :: ds =>
      match decl_matches d raw with
      | m :: ms =>
          match nodes_spec rel (S k) ds raw with
          | Some l => Some (map (fun e => (k, unesc rel (re_data e))) (m :: ms) ++ l)
          | None => None
          end
      | [] =>
          if d_empty_if_missing d || (match d_default d with Some _ => true | None => false end)
          then match nodes_spec rel (S k) ds raw with
               | Some l => Some ((k, optb (d_default d)) :: l)
               | None => None
               end
          else None
      end
  end.

Lemma matching_spec rel k d : forall raw,
  matching rel k d raw = Ok (map (fun e => (k, unesc rel (re_data e))) (decl_matches d raw)).
Proof.
  induction raw as [|e raw IH]; [reflexivity|]. cbn [matching decl_matches filter].
  change (comp_index d) with (spec_comp_index d).
  destruct (Nat.eqb (re_ei e) (d_index d) && Nat.eqb (re_ci e) (spec_comp_index d)).
  - rewrite unescape_unesc. cbn [bind]. rewrite IH. reflexivity.
  - exact IH.
Qed.

(* seg_to_node_spec: for every release character, every raw segment and every declaration list,
   rawSegToNode never panics and computes exactly nodes_spec *)
Lemma seg_to_node_spec rel raw : forall decls k,
  seg_to_node rel k decls raw = Ok (nodes_spec rel k decls raw).
Proof.
  induction decls as [|d ds IH]; intro k; [reflexivity|].
  cbn [seg_to_node nodes_spec]. rewrite matching_spec. cbn [bind]. unfold edi_use_default.
  destruct (decl_matches d raw) as [|m ms]; cbn [map].
  - destruct (d_empty_if_missing d || match d_default d with Some _ => true | None => false end); [|reflexivity].
    rewrite IH. reflexivity.
  - rewrite IH. cbn [bind]. destruct (nodes_spec rel (S k) ds raw); reflexivity.
Qed.

(* the full reader over one declaration: never a panic either, and a fatal result ends the stream *)
Lemma full_results_total rel sname decls : forall segs, exists l, full_results rel sname decls segs = Ok l.
Proof.
  induction segs as [|s segs IH]; [eexists; reflexivity|]. destruct IH as [l Hl].
  cbn [full_results]. destruct s as [name raw|]; [|eexists; reflexivity].
  destruct (negb (bytes_eqb name sname)); [eexists; reflexivity|].
  rewrite seg_to_node_spec. cbn [bind]. destruct (nodes_spec rel 0 decls raw); [|eexists; reflexivity].
  rewrite Hl. eexists. reflexivity.
Qed.

Lemma full_results_fatal_last rel sname decls : forall segs l,
  full_results rel sname decls segs = Ok l ->
  forall i, nth_error l i = Some RFatal -> S i = length l.
Proof.
  induction segs as [|s segs IH]; intros l Hl i Hi.
  - inversion Hl; subst. destruct i; discriminate.
  - cbn [full_results] in Hl.
    assert (Hone : l = [RFatal] -> S i = length l).
    { intros ->. destruct i as [|[|i]]; simpl in Hi; try discriminate; reflexivity. }
    destruct s as [name raw|]; [|apply Hone; congruence].
    destruct (negb (bytes_eqb name sname)); [apply Hone; congruence|].
    rewrite seg_to_node_spec in Hl. cbn [bind] in Hl.
    destruct (nodes_spec rel 0 decls raw) as [kids|]; [|apply Hone; congruence].
    destruct (full_results rel sname decls segs) as [l'| |] eqn:El; try discriminate.
    cbn [bind] in Hl. inversion Hl; subst. destruct i as [|i]; [discriminate|].
    cbn [nth_error] in Hi. cbn [length]. f_equal. apply (IH l' eq_refl i Hi).
Qed.

(* ---- error classes: extracted constructors, extracted IsContinuableError ------------------------ *)
(* every error the EDI reader raises for a malformed segment or a missing declared element is the
   format's fatal type, which neither the reader nor the ingester calls continuable: the
   transform ends (C01's latch) *)
Lemma errors_terminal :
  Forall (fun k => k = RcFatal /\ continuable_edi k = false /\
                   continuable_ingester continuable_edi k = false)
         [edi_missing_name_class; edi_reader_wrap_class; edi_missing_elem_class].
Proof. repeat constructor. Qed.

(* ---- what validation demands, and the gap -------------------------------------------------------- *)
(* the JSON schema (ediFileDeclaration.json, extracted) only asks for minimal lengths *)
Definition schema_valid (c : cfg) : Prop :=
  edi_schema_minlen_segment_delimiter <= length (c_seg c) /\
  edi_schema_minlen_element_delimiter <= length (c_elem c) /\
  (forall x, c_comp c = Some x -> edi_schema_minlen_component_delimiter <= length x) /\
  (forall x, c_rep c = Some x -> edi_schema_minlen_repetition_delimiter <= length x) /\
  (forall x, c_rel c = Some x -> edi_schema_minlen_release_character <= length x).

Lemma schema_valid_nonempty c : schema_valid c -> c_seg c <> [] /\ c_elem c <> [].
Proof.
  intros (H1 & H2 & _). unfold edi_schema_minlen_segment_delimiter, edi_schema_minlen_element_delimiter in *.
  split; intro Hn; rewrite Hn in *; simpl in *; lia.
Qed.

(* validation_gap: a configuration the schema accepts (element delimiter "*?", release character
   "?") and a well-formed segment (A with an empty element) for which the round trip fails: the
   segment is lost.  cfg_ok (no first byte of a delimiter / the release character inside another)
   is not enforced by validation. *)
Lemma validation_gap : exists c segs,
  schema_valid c /\ Forall (segx_ok c) segs /\ ~ cfg_ok c /\
  nv_read_all c (edi_encode c segs) <> Ok (map (fun x => exp_seg c (ls_seg x)) segs).
Proof.
  exists (mkCfg [x7e] [x2a; x3f] None None (Some [x3f]) false).
  exists [mkLS [] [ [[ [x41] ]]; [[ [] ]] ] false].
  split; [|split; [|split]].
  - unfold schema_valid. cbn [c_seg c_elem c_comp c_rep c_rel].
    split; [vm_compute; lia|]. split; [vm_compute; lia|].
    split; [intros x Hx; discriminate|]. split; [intros x Hx; discriminate|].
    intros x Hx. inversion Hx; subst. vm_compute. lia.
  - constructor; [|constructor]. unfold segx_ok, elem_ok, rep_ok, data_ok. cbn.
    repeat match goal with
           | |- _ /\ _ => split
           | |- _ <> _ => discriminate
           | |- Forall _ _ => constructor
           | |- _ \/ _ => left; discriminate
           | |- _ -> _ => intro
           end; try discriminate; try contradiction; try reflexivity.
  - intros (_ & _ & _ & _ & Ht & _). cbn in Ht.
    inversion Ht as [|? ? _ Ht2]; subst. inversion Ht2 as [|? ? Hstar _]; subst.
    specialize (Hstar x3f (or_introl eq_refl)). vm_compute in Hstar. discriminate.
  - vm_compute. discriminate.
Qed.
