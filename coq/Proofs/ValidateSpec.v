(* C02 proofs: validate's template expansion is the substitution of the documented evaluation:
   what validate returns stands for (erase) exactly the expanded declarations (expand), up to
   the order of object members, which validate sorts. *)
From Coq Require Import String List ZArith NArith Bool Lia Permutation.
From Coq.Strings Require Import Byte.
Import ListNotations.
From OV Require Import Base.Bytes Base.Cases Base.Tree Gen.Conv Model.Value Model.XPathFrag Model.Decl Model.Eval.
From OV Require Import Proofs.ValueOrder Proofs.EvalPure Proofs.Validate Proofs.ValidateWf Proofs.EvalSpec.

(* object members sorted the way validateObject sorts the children: by escaped name *)
Fixpoint ins_member (kc : bytes * decl) (l : list (bytes * decl)) : list (bytes * decl) :=
  match l with
  | [] => [kc]
  | h :: r => if bytes_ltb (esc_name (fst h)) (esc_name (fst kc)) then h :: ins_member kc r else kc :: l
  end.
Definition sort_members (l : list (bytes * decl)) : list (bytes * decl) := fold_right ins_member [] l.

Fixpoint osort (d : decl) : decl :=
  let 'Decl c e x xd fn args ig pa tm ob ar ty nt kp := d in
  Decl c e x (match xd with Some q => Some (osort q) | None => None end)
       fn (map osort args) ig pa tm
       (match ob with
        | Some l => Some (sort_members (map (fun kc => (fst kc, osort (snd kc))) l))
        | None => None
        end)
       (match ar with Some l => Some (map osort l) | None => None end)
       ty nt kp.

(* sorting commutes with a key-respecting map *)
Lemma insert_kid_map (g : vdecl -> bytes * decl) c : forall l,
  (forall c0, In c0 (c :: l) -> kkey c0 = esc_name (fst (g c0))) ->
  map g (insert_kid c l) = ins_member (g c) (map g l).
Proof.
  induction l as [|h r IH]; intro Hk; [reflexivity|]. cbn [insert_kid map ins_member].
  fold (kkey h) (kkey c). rewrite (Hk h) by (right; left; reflexivity). rewrite (Hk c) by (left; reflexivity).
  destruct (bytes_ltb _ _); [|reflexivity]. cbn [map]. f_equal. apply IH.
  intros c0 [<-|H]; apply Hk; [left; reflexivity|right; right; exact H].
Qed.

Lemma sort_kids_map (g : vdecl -> bytes * decl) : forall l,
  (forall c0, In c0 l -> kkey c0 = esc_name (fst (g c0))) ->
  map g (sort_kids l) = sort_members (map g l).
Proof.
  induction l as [|c r IH]; intro Hk; [reflexivity|]. cbn [sort_kids sort_members fold_right map].
  rewrite insert_kid_map.
  - f_equal. apply IH. intros c0 H. apply Hk. right. exact H.
  - intros c0 [<-|H]; [apply Hk; left; reflexivity|]. apply Hk. right.
    eapply Permutation_in; [apply sort_kids_perm|exact H].
Qed.

Lemma spec_is_template_cases c e x xd fn args ig pa tm ob ar ty nt kp :
  let d := Decl c e x xd fn args ig pa tm ob ar ty nt kp in
  spec_is_template d = match resolve_kind d with KTemplate => tm | _ => None end.
Proof. cbv zeta. rewrite resolve_kind_cases. destruct c, e, fn, pa, ob, ar, tm; reflexivity. Qed.

Lemma oall_ok {A B} (f : A -> option B) : forall l l', oall f l = Some l' -> Forall2 (fun a b => f a = Some b) l l'.
Proof.
  induction l as [|a r IH]; intros l' H; simpl in H; [injection H as <-; constructor|].
  destruct (f a) eqn:E; [|discriminate]. destruct (oall f r) eqn:E'; [|discriminate]. injection H as <-.
  constructor; [exact E|apply IH; reflexivity].
Qed.

Lemma oall_build {A B} (f : A -> option B) : forall l l', Forall2 (fun a b => f a = Some b) l l' -> oall f l = Some l'.
Proof. induction 1 as [|a b l l' H _ IH]; simpl; [reflexivity|]. rewrite H, IH. reflexivity. Qed.

Lemma members_map_eq fqdn : forall (l l' : list (bytes * decl)) (vs : list vdecl),
  Forall2 (fun nc kc' => fst kc' = fst nc) l l' ->
  Forall2 (fun nc v0 => v_fqdn (vd_info v0) = fqdn ++ [esc_name (fst nc)]) l vs ->
  Forall2 (fun kc' v0 => osort (snd kc') = erase v0 /\ decl_nodup (snd kc') = true) l' vs ->
  map (fun kc => (fst kc, osort (snd kc))) l' = map (fun c0 => (obj_key (v_fqdn (vd_info c0)), erase c0)) vs.
Proof.
  induction l as [|nc l IH]; intros l' vs H1 H2 H3.
  - inversion H1; subst. inversion H3; subst. reflexivity.
  - inversion H1 as [|? kc' ? l'' Hk H1']; subst. inversion H2 as [|? v0 ? vs' Hf H2']; subst.
    inversion H3 as [|? ? ? ? [Ho _] H3']; subst. cbn [map]. f_equal; [|eapply IH; eauto].
    rewrite Ho, Hf, Hk. unfold obj_key, last_namelet. rewrite last_last, unesc_esc. reflexivity.
Qed.

Section Link.
  Variable ds : list (bytes * decl).
  Variable fe pe : bytes -> bool.
  Hypothesis ds_nodup : forall name body, lookup name ds = Some body -> decl_nodup body = true.

  (* v validated at fqdn stands for the expanded declaration d' *)
  Definition rel (fqdn : list bytes) (v : vdecl) (d' : decl) : Prop :=
    v_fqdn (vd_info v) = fqdn /\ osort d' = erase v /\ decl_nodup d' = true.

  Lemma erase_mk_vd p fqdn par vx ks :
    erase (mk_vd p fqdn par vx ks) = erase (VD (mkI p fqdn PD0 par) vx ks).
  Proof. reflexivity. Qed.

  Lemma vgo_xgo stack jumpV jumpX :
    (forall st fq dn par lk v, decl_nodup dn = true -> jumpV st fq dn par lk = VOk v ->
       exists d', jumpX dn = Some d' /\ rel fq v d') ->
    forall d fqdn par linked v, decl_nodup d = true ->
      vgo ds fe pe stack jumpV fqdn d par linked = VOk v ->
      exists d', xgo ds jumpX d = Some d' /\ rel fqdn v d'.
  Proof.
    intros Hj.
    induction d as [c e x xd fn args ig pa tm ob ar ty nt kp IHxd IHargs IHob IHar] using decl_ind2.
    intros fqdn par linked v Hnd H.
    cbn [decl_nodup] in Hnd. repeat (apply andb_prop in Hnd; destruct Hnd as [Hnd ?]).
    rename Hnd into Hnxd.
    match goal with Ha : forallb decl_nodup args = true |- _ => rename Ha into Hnargs end.
    cbn [vgo] in H. cbn [xgo].
    destruct (is_some x && is_some xd)%bool eqn:EX; [discriminate|].
    (* xpath_dynamic *)
    assert (Hvx : forall vx,
              (match xd with
               | Some q => match vgo ds fe pe stack jumpV (fqdn ++ [bs "xpath_dynamic"]) q None false with
                           | VOk v0 => VOk (Some v0) | VErr => VErr | VFuel => VFuel end
               | None => VOk None end) = VOk vx ->
              exists xd', (match xd with
                           | Some q => match xgo ds jumpX q with Some q' => Some (Some q') | None => None end
                           | None => Some None end) = Some xd' /\
                          match vx, xd' with
                          | Some q, Some q' => osort q' = erase q /\ decl_nodup q' = true
                          | None, None => True
                          | _, _ => False
                          end).
    { intros vx E. destruct xd as [q|]; [|injection E as <-; exists None; split; [reflexivity|exact I]].
      destruct (vgo ds fe pe stack jumpV (fqdn ++ [bs "xpath_dynamic"]) q None false) as [v0| |] eqn:Q; try discriminate.
      injection E as <-. simpl in IHxd. destruct (IHxd _ _ _ _ Hnxd Q) as (q' & Hq & _ & Ho & Hn).
      exists (Some q'). rewrite Hq. split; [reflexivity|split; assumption]. }
    match type of H with match ?t with VOk _ => _ | VErr => _ | VFuel => _ end = _ =>
      destruct t as [vx| |] eqn:EXD end; try discriminate.
    destruct (Hvx vx eq_refl) as (xd' & Hxd' & Hrelx). rewrite Hxd'. clear Hvx.
    assert (Hex : match xd' with Some q => Some (osort q) | None => None end
                  = match vx with Some q => Some (erase q) | None => None end).
    { destruct vx, xd'; try contradiction; [destruct Hrelx as [-> _]; reflexivity|reflexivity]. }
    assert (Hnx : match xd' with Some q => decl_nodup q | None => true end = true).
    { destruct vx, xd'; try contradiction; [destruct Hrelx as [_ Hq0]; exact Hq0|reflexivity]. }
    pose proof (spec_is_template_cases c e x xd fn args ig pa tm ob ar ty nt kp) as Hst. cbv zeta in Hst. rewrite Hst. clear Hst.
    pose proof (resolve_kind_cases c e x xd fn args ig pa tm ob ar ty nt kp) as Hrk.
    set (d := Decl c e x xd fn args ig pa tm ob ar ty nt kp) in *.
    destruct (resolve_kind d) eqn:K.
    - (* const *)
      injection H as <-. destruct c as [cv|]; [|destruct e, fn, pa, ob, ar, tm; discriminate].
      eexists. split; [reflexivity|]. unfold rel. rewrite erase_mk_vd.
      cbn [vd_info v_fqdn erase osort v_pub pinfo_of p_kind p_const p_external p_xpath p_fname p_ignore p_parse p_rtype p_notrim p_keep map decl_nodup forallb].
      rewrite Hex, Hnx. repeat split.
    - (* external *)
      injection H as <-. destruct c; [discriminate|]. destruct e as [ev|]; [|destruct fn, pa, ob, ar, tm; discriminate].
      eexists. split; [reflexivity|]. unfold rel. rewrite erase_mk_vd.
      cbn [vd_info v_fqdn erase osort v_pub pinfo_of p_kind p_const p_external p_xpath p_fname p_ignore p_parse p_rtype p_notrim p_keep map decl_nodup forallb].
      rewrite Hex, Hnx. repeat split.
    - (* field *)
      injection H as <-. destruct c, e, fn, pa, ob, ar, tm; try discriminate.
      eexists. split; [reflexivity|]. unfold rel. rewrite erase_mk_vd.
      cbn [vd_info v_fqdn erase osort v_pub pinfo_of p_kind p_const p_external p_xpath p_fname p_ignore p_parse p_rtype p_notrim p_keep map decl_nodup forallb].
      rewrite Hex, Hnx. repeat split.
    - (* object *)
      destruct c, e, fn, pa; try discriminate. destruct ob as [l|]; [|destruct ar, tm; discriminate].
      match goal with Ho : (nodup_keys _ && _)%bool = true |- _ => apply andb_prop in Ho as [Hkeys Hnl] end.
      match type of H with context [vmapi ?f 1 l] => destruct (vmapi f 1 l) as [vs| |] eqn:M end; try discriminate.
      injection H as <-. apply vmapi_ok in M.
      assert (Hmem : exists l', Forall2 (fun nc kc' => fst kc' = fst nc /\ xgo ds jumpX (snd nc) = Some (snd kc')) l l' /\
                                Forall2 (fun nc v0 => v_fqdn (vd_info v0) = fqdn ++ [esc_name (fst nc)]) l vs /\
                                Forall2 (fun kc' v0 => osort (snd kc') = erase v0 /\ decl_nodup (snd kc') = true) l' vs).
      { simpl in IHob. clear - M IHob Hnl. induction M as [|[name cd] v0 l vs [j Hv] M IH].
        - exists []. repeat split; constructor.
        - inversion IHob as [|? ? Hc Hr]; subst. simpl in Hnl. apply andb_prop in Hnl as [Hn Hnr].
          simpl in Hc. destruct (Hc _ _ _ _ Hn Hv) as (a' & Ha & Hf & Ho & Hnd).
          destruct (IH Hr Hnr) as (l' & H1 & H2 & H3).
          exists ((name, a') :: l'). repeat split; constructor; auto. }
      destruct Hmem as (l' & Hl1 & Hl2 & Hl3).
      assert (Hoall : oall (fun ka => let '(k, a) := ka in match xgo ds jumpX a with Some a' => Some (k, a') | None => None end) l = Some l').
      { apply oall_build. clear - Hl1. induction Hl1 as [|[k a] [k' a'] l l' [Hk Ha] _ IH]; constructor; [|exact IH].
        simpl in *. rewrite Ha. subst. reflexivity. }
      rewrite Hoall. eexists. split; [reflexivity|]. unfold rel. rewrite erase_mk_vd.
      cbn [vd_info v_fqdn erase osort v_pub pinfo_of p_kind p_const p_external p_xpath p_fname p_ignore p_parse p_rtype p_notrim p_keep map decl_nodup forallb].
      rewrite Hex, Hnx. split; [reflexivity|]. split.
      + f_equal. f_equal.
        rewrite (sort_kids_map (fun c0 => (obj_key (v_fqdn (vd_info c0)), erase c0))).
        * f_equal. apply (members_map_eq fqdn l l' vs); [|exact Hl2|exact Hl3].
          clear - Hl1. induction Hl1 as [|nc kc' l l' [Hk _] _ IH]; constructor; assumption.
        * intros c0 Hc0. clear - Hl2 Hc0. induction Hl2 as [|nc v0 l vs Hf _ IH]; [contradiction|].
          destruct Hc0 as [<-|Hc0]; [|apply IH; exact Hc0].
          unfold kkey, obj_key, last_namelet. simpl. rewrite Hf, last_last, unesc_esc. reflexivity.
      + simpl. apply andb_true_intro. split; [|reflexivity].
        apply andb_true_intro. split.
        * replace (map fst l') with (map fst l); [exact Hkeys|].
          clear - Hl1. induction Hl1 as [|nc kc' l l' [Hk _] _ IH]; [reflexivity|]. simpl. rewrite Hk, IH. reflexivity.
        * apply forallb_forall. intros kc' Hin. clear - Hl3 Hin. induction Hl3 as [|kc v0 l' vs [_ Hn] _ IH]; [contradiction|].
          destruct Hin as [<-|Hin]; [exact Hn|apply IH; exact Hin].
    - (* array *)
      destruct c, e, fn, pa, ob; try discriminate. destruct ar as [l|]; [|destruct tm; discriminate].
      match goal with Ha : forallb decl_nodup l = true |- _ => rename Ha into Hnl end.
      match type of H with context [vmapi ?f 1 l] => destruct (vmapi f 1 l) as [vs| |] eqn:M end; try discriminate.
      injection H as <-. apply vmapi_ok in M.
      assert (Hmem : exists l', Forall2 (fun a a' => xgo ds jumpX a = Some a') l l' /\
                                Forall2 (fun a' v0 => osort a' = erase v0 /\ decl_nodup a' = true) l' vs).
      { simpl in IHar. clear - M IHar Hnl. induction M as [|cd v0 l vs [j Hv] M IH].
        - exists []. split; constructor.
        - inversion IHar as [|? ? Hc Hr]; subst. simpl in Hnl. apply andb_prop in Hnl as [Hn Hnr].
          destruct (Hc _ _ _ _ Hn Hv) as (a' & Ha & Hf & Ho & Hnd).
          destruct (IH Hr Hnr) as (l' & H1 & H2). exists (a' :: l'). split; constructor; auto. }
      destruct Hmem as (l' & Hl1 & Hl3). rewrite (oall_build _ _ _ Hl1).
      eexists. split; [reflexivity|]. unfold rel. rewrite erase_mk_vd.
      cbn [vd_info v_fqdn erase osort v_pub pinfo_of p_kind p_const p_external p_xpath p_fname p_ignore p_parse p_rtype p_notrim p_keep map decl_nodup forallb].
      rewrite Hex, Hnx. split; [reflexivity|]. split.
      + f_equal. f_equal. clear - Hl3. induction Hl3 as [|a' v0 l' vs [Ho _] _ IH]; [reflexivity|]. simpl. rewrite Ho, IH. reflexivity.
      + cbn [decl_nodup forallb andb]. repeat match goal with |- (_ && _)%bool = true => apply andb_true_intro; split end; try reflexivity.
        apply forallb_forall. intros a' Hin. clear - Hl3 Hin.
        induction Hl3 as [|a v0 l' vs [_ Hn] _ IH]; [contradiction|]. destruct Hin as [<-|Hin]; [exact Hn|apply IH; exact Hin].
    - (* custom_func *)
      destruct c, e; try discriminate. destruct fn as [name|]; [|destruct pa, ob, ar, tm; discriminate].
      destruct (fe name); [|discriminate]. simpl in H.
      match type of H with context [vmapi ?f 1 args] => destruct (vmapi f 1 args) as [vs| |] eqn:M end; try discriminate.
      injection H as <-. apply vmapi_ok in M.
      assert (Hmem : exists l', Forall2 (fun a a' => xgo ds jumpX a = Some a') args l' /\
                                Forall2 (fun a' v0 => osort a' = erase v0 /\ decl_nodup a' = true) l' vs).
      { clear - M IHargs Hnargs. induction M as [|cd v0 l vs [j Hv] M IH].
        - exists []. split; constructor.
        - inversion IHargs as [|? ? Hc Hr]; subst. simpl in Hnargs. apply andb_prop in Hnargs as [Hn Hnr].
          destruct (Hc _ _ _ _ Hn Hv) as (a' & Ha & Hf & Ho & Hnd).
          destruct (IH Hr Hnr) as (l' & H1 & H2). exists (a' :: l'). split; constructor; auto. }
      destruct Hmem as (l' & Hl1 & Hl3). rewrite (oall_build _ _ _ Hl1).
      eexists. split; [reflexivity|]. unfold rel. rewrite erase_mk_vd.
      cbn [vd_info v_fqdn erase osort v_pub pinfo_of p_kind p_const p_external p_xpath p_fname p_ignore p_parse p_rtype p_notrim p_keep map decl_nodup forallb].
      rewrite Hex, Hnx. split; [reflexivity|]. split.
      + f_equal. clear - Hl3. induction Hl3 as [|a' v0 l' vs [Ho _] _ IH]; [reflexivity|]. simpl. rewrite Ho, IH. reflexivity.
      + cbn [decl_nodup forallb andb]. repeat match goal with |- (_ && _)%bool = true => apply andb_true_intro; split end; try reflexivity.
        apply forallb_forall. intros a' Hin. clear - Hl3 Hin.
        induction Hl3 as [|a v0 l' vs [_ Hn] _ IH]; [contradiction|]. destruct Hin as [<-|Hin]; [exact Hn|apply IH; exact Hin].
    - (* custom_parse *)
      destruct c, e, fn; try discriminate. destruct pa as [name|]; [|destruct ob, ar, tm; discriminate].
      destruct (pe name); [|discriminate]. injection H as <-.
      eexists. split; [reflexivity|]. unfold rel. rewrite erase_mk_vd.
      cbn [vd_info v_fqdn erase osort v_pub pinfo_of p_kind p_const p_external p_xpath p_fname p_ignore p_parse p_rtype p_notrim p_keep map decl_nodup forallb].
      rewrite Hex, Hnx. repeat split.
    - (* template *)
      destruct c, e, fn, pa, ob, ar; try discriminate. destruct tm as [name|]; [|discriminate].
      destruct (lookup name ds) as [body|] eqn:L; [|discriminate].
      destruct (has_dup (stack ++ [name])); [discriminate|].
      destruct (d_isx body && d_isx d)%bool; [discriminate|].
      apply Hj in H; [exact H|].
      destruct (d_isx d); [|eapply ds_nodup; eauto].
      apply with_xpath_nodup; [|eapply ds_nodup; eauto].
      unfold d. cbn [decl_nodup].
      repeat match goal with |- (_ && _)%bool = true => apply andb_true_intro; split end; try assumption; reflexivity.
  Qed.

  Lemma validate_decl_expand : forall fuel stack fqdn d par linked v, decl_nodup d = true ->
    validate_decl ds fe pe fuel stack fqdn d par linked = VOk v ->
    exists d', expand ds fuel d = Some d' /\ rel fqdn v d'.
  Proof.
    induction fuel as [|f IH]; intros stack fqdn d par linked v Hn H; [discriminate|].
    cbn [validate_decl] in H. cbn [expand]. eapply vgo_xgo; eauto.
  Qed.

  (* template substitution = validate's expansion *)
  Theorem validate_expand top : validate ds fe pe = VOk top ->
    exists d', expand_final ds = Some d' /\ osort d' = erase top /\ decl_nodup d' = true.
  Proof.
    unfold validate, expand_final. destruct (lookup FINAL_OUTPUT ds) as [d|] eqn:L; [|discriminate]. intro H.
    destruct (validate_decl_expand _ _ _ _ _ _ _ (ds_nodup _ _ L) H) as (d' & Hd & _ & Ho & Hn).
    exists d'. auto.
  Qed.
End Link.

(* ---- the documented evaluation does not depend on the order of object members -------------------- *)
Lemma ins_member_perm kc : forall l, Permutation (ins_member kc l) (kc :: l).
Proof.
  induction l as [|h r IH]; simpl; [apply Permutation_refl|].
  destruct (bytes_ltb _ _); [|apply Permutation_refl].
  eapply perm_trans; [apply perm_skip; exact IH|apply perm_swap].
Qed.
Lemma sort_members_perm : forall l, Permutation (sort_members l) l.
Proof.
  induction l as [|c r IH]; simpl; [constructor|].
  eapply perm_trans; [apply ins_member_perm|apply perm_skip; exact IH].
Qed.

Section ObjAllPerm.
  Variable F : decl -> sres.
  Definition m_ok (kc : bytes * decl) : bool := match F (snd kc) with SFail => false | _ => true end.
  Definition m_bind (kc : bytes * decl) : list (bytes * value) :=
    match F (snd kc) with SVal v => [(fst kc, v)] | _ => [] end.

  Lemma obj_all_char : forall l o,
    obj_all F l o = if forallb m_ok l then Some (set_all (flat_map m_bind l) o) else None.
  Proof.
    induction l as [|[k a] r IH]; intro o; simpl; [reflexivity|].
    unfold m_ok at 1, m_bind at 1. simpl. destruct (F a); simpl; try reflexivity; apply IH.
  Qed.

  Lemma m_bind_nodup : forall l, NoDup (map fst l) -> NoDup (map fst (flat_map m_bind l)).
  Proof.
    induction l as [|[k a] r IH]; intro N; simpl; [constructor|]. inversion N as [|? ? Hn Nr]; subst.
    assert (Hin : forall k0, In k0 (map fst (flat_map m_bind r)) -> In k0 (map fst r)).
    { clear. induction r as [|[k' a'] r IHr]; simpl; [auto|]. intros k0 H. rewrite map_app in H.
      apply in_app_or in H as [H|H]; [|right; apply IHr; exact H].
      unfold m_bind in H. simpl in H. destruct (F a'); simpl in H; try contradiction. destruct H as [H|[]]. left. exact H. }
    rewrite map_app. unfold m_bind at 1. simpl. destruct (F a); simpl; try (apply IH; exact Nr).
    constructor; [|apply IH; exact Nr]. intro H. apply Hn, Hin, H.
  Qed.

  Lemma obj_all_perm l l' o : NoDup (map fst l) -> osorted o -> Permutation l l' ->
    obj_all F l o = obj_all F l' o.
  Proof.
    intros N S P. rewrite !obj_all_char.
    assert (E : forallb m_ok l = forallb m_ok l').
    { destruct (forallb m_ok l) eqn:E1.
      - symmetry. apply forallb_forall. intros x Hx. rewrite forallb_forall in E1. apply E1.
        eapply Permutation_in; [apply Permutation_sym; exact P|exact Hx].
      - destruct (forallb m_ok l') eqn:E2; [|reflexivity]. rewrite forallb_forall in E2.
        assert (forallb m_ok l = true); [|congruence]. apply forallb_forall. intros x Hx. apply E2.
        eapply Permutation_in; eauto. }
    rewrite <- E. destruct (forallb m_ok l); [|reflexivity]. f_equal.
    apply set_all_perm; [apply m_bind_nodup; exact N|exact S|apply Permutation_flat_map; exact P].
  Qed.
End ObjAllPerm.

Lemma obj_all_map F (g : decl -> decl) : forall l o,
  obj_all F (map (fun kc => (fst kc, g (snd kc))) l) o = obj_all (fun a => F (g a)) l o.
Proof.
  induction l as [|[k a] r IH]; intro o; simpl; [reflexivity|]. destruct (F (g a)); try reflexivity; apply IH.
Qed.

Lemma obj_all_ext F F' : forall l o, Forall (fun kc => F (snd kc) = F' (snd kc)) l -> obj_all F l o = obj_all F' l o.
Proof.
  induction l as [|[k a] r IH]; intros o H; simpl; [reflexivity|]. inversion H as [|? ? Ha Hr]; subst.
  simpl in Ha. rewrite Ha. destruct (F' a); try reflexivity; apply IH; exact Hr.
Qed.

Lemma arr_each_ext f f' : forall ns acc, (forall n, f n = f' n) -> arr_each f ns acc = arr_each f' ns acc.
Proof.
  induction ns as [|n r IH]; intros acc H; simpl; [reflexivity|]. rewrite H. destruct (f' n); try reflexivity; apply IH; exact H.
Qed.

Lemma arr_all_map sel G (g : decl -> decl) : forall l acc,
  Forall (fun a => fst (G (g a)) = fst (G a) /\ forall n, snd (G (g a)) n = snd (G a) n) l ->
  arr_all sel G (map g l) acc = arr_all sel G l acc.
Proof.
  induction l as [|a r IH]; intros acc H; simpl; [reflexivity|]. inversion H as [|? ? [H1 H2] Hr]; subst.
  rewrite H1. destruct (fst (G a)) as [xp|]; [|apply IH; exact Hr].
  destruct (sel xp) as [ns|]; [|reflexivity]. rewrite (arr_each_ext _ _ ns acc H2).
  destruct (arr_each _ ns acc); [apply IH; exact Hr|reflexivity].
Qed.

Section SortInvariant.
  Variable root : tree.
  Variable query : bytes -> path -> option (list path).
  Variable ext : bytes -> option bytes.
  Variable fsigs : bytes -> option fsig.
  Variable fcall : bytes -> path -> list value -> cfres.
  Variable pcall : bytes -> path -> cfres.
  Notation spec_tf := (spec_tf root query ext fsigs fcall pcall).

  Lemma spec_at_ext norm cur f g : (forall n, f n = g n) -> spec_at norm cur f = spec_at norm cur g.
  Proof. intro H. destruct cur as [[n|]|]; simpl; auto. Qed.

  Definition inv (d : decl) : Prop := forall a p, spec_tf (osort d) a p = spec_tf d a p.

  Lemma spec_tf_osort_strong : forall d, decl_nodup d = true ->
    inv d /\ match d_xdyn_of d with Some q => inv q | None => True end.
  Proof.
    induction d as [c e x xd fn args ig pa tm ob ar ty nt kp IHxd IHargs IHob IHar] using decl_ind2.
    intros Hnd. cbn [decl_nodup] in Hnd. repeat (apply andb_prop in Hnd; destruct Hnd as [Hnd ?]).
    rename Hnd into Hnxd.
    match goal with Ha : forallb decl_nodup args = true |- _ => rename Ha into Hnargs end.
    assert (Hxd : match xd with Some q => inv q | None => True end).
    { destruct xd as [q|]; [|exact I]. simpl in IHxd. apply (IHxd Hnxd). }
    split; [|exact Hxd].
    intros a p. cbn [osort Eval.spec_tf].
    assert (Hx : match match xd with Some q => Some (osort q) | None => None end with
                 | Some q => Some (spec_tf q true p) | None => None end
                 = match xd with Some q => Some (spec_tf q true p) | None => None end).
    { destruct xd as [q|]; [|reflexivity]. rewrite (Hxd true p). reflexivity. }
    rewrite Hx. clear Hx.
    destruct c; [reflexivity|]. destruct e; [reflexivity|].
    destruct fn as [name|].
    { apply spec_at_ext. intro n. f_equal. rewrite map_map. apply map_ext_in. intros a0 Hin.
      rewrite Forall_forall in IHargs. apply IHargs; [exact Hin|]. rewrite forallb_forall in Hnargs. apply Hnargs. exact Hin. }
    destruct pa; [reflexivity|].
    destruct ob as [l|].
    { match goal with Ho : (nodup_keys _ && _)%bool = true |- _ => apply andb_prop in Ho as [Hkeys Hnl] end.
      apply spec_at_ext. intro n.
      rewrite (obj_all_perm _ _ (map (fun kc => (fst kc, osort (snd kc))) l) []).
      - rewrite obj_all_map. rewrite (obj_all_ext _ (fun a0 => spec_tf a0 true n)); [reflexivity|].
        simpl in IHob. apply Forall_forall. intros kc Hin. rewrite Forall_forall in IHob. apply IHob; [exact Hin|].
        rewrite forallb_forall in Hnl. apply Hnl. exact Hin.
      - eapply Permutation_NoDup; [apply Permutation_map, Permutation_sym, sort_members_perm|].
        rewrite map_map. simpl. apply nodup_keys_NoDup. exact Hkeys.
      - exact I.
      - apply sort_members_perm. }
    destruct ar as [l|]; [|reflexivity].
    match goal with Ha : forallb decl_nodup l = true |- _ => rename Ha into Hnl end.
    rewrite arr_all_map; [reflexivity|].
    simpl in IHar. apply Forall_forall. intros a0 Hin. rewrite Forall_forall in IHar.
    assert (Hn0 : decl_nodup a0 = true) by (rewrite forallb_forall in Hnl; apply Hnl; exact Hin).
    destruct (IHar a0 Hin Hn0) as [Ha0 Hq0].
    split.
    - destruct a0 as [c0 e0 x0 xd0 fn0 args0 ig0 pa0 tm0 ob0 ar0 ty0 nt0 kp0].
      cbn [osort fst d_xdyn_of] in *. f_equal.
      destruct xd0 as [q|]; [|reflexivity]. rewrite (Hq0 true p). reflexivity.
    - intro n. destruct a0 as [c0 e0 x0 xd0 fn0 args0 ig0 pa0 tm0 ob0 ar0 ty0 nt0 kp0].
      cbn [snd]. apply (Ha0 false n).
  Qed.

  Theorem spec_tf_osort : forall d, decl_nodup d = true -> forall a p, spec_tf (osort d) a p = spec_tf d a p.
  Proof. intros d H. apply (proj1 (spec_tf_osort_strong d H)). Qed.
End SortInvariant.
