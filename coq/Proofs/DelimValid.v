(* C06 proofs, part 8: on valid UTF-8 the fixed-length slice is the re-encoding of the runes
   [start_pos, start_pos+length) of the line.  The step "the bytes DecodeRune consumed are the
   encoding of the rune it returned" is a finite fact about at most four bytes; it is checked by
   complete sweeps over the possible lead / continuation bytes and lifted with forallb_forall. *)
From Coq Require Import List NArith Bool Arith Lia.
From Coq.Strings Require Import Byte.
Import ListNotations.
From OV Require Import Base.Bytes Base.Utf8 Base.Cases Model.Csv Model.Fixed Model.Delim
  Proofs.DelimUtf8 Proofs.DelimCsv Proofs.DelimSweepB.
Local Open Scope N_scope.

(* ---- the bytes DecodeRune consumed are the encoding of the rune it returned -------------------------- *)
Definition is_error_step (p : rune * nat) : bool := (fst p =? RuneError) && Nat.eqb (snd p) 1.

Lemma decode_then_encode b0 rest :
  is_error_step (decode_rune (b0 :: rest)) = false ->
  firstn (snd (decode_rune (b0 :: rest))) (b0 :: rest) = encode_rune (fst (decode_rune (b0 :: rest))).
Proof.
  unfold decode_rune.
  destruct (b2n b0 <? 128) eqn:E1.
  { intros _. cbn [fst snd firstn]. pose proof (t1_all b0) as H. unfold t1 in H. rewrite E1 in H.
    cbn [negb orb] in H. apply bytes_eqb_eq in H. exact H. }
  destruct (b2n b0 <? 194) eqn:E2; [intro H; discriminate H|].
  destruct (b2n b0 <? 224) eqn:E3.
  { destruct rest as [|b1 rest]; [intro H; discriminate H|].
    destruct (in_range 128 191 b1) eqn:Er; [|intro H; discriminate H].
    intros _. cbn [fst snd firstn]. pose proof (t2_all b0 b1) as H. unfold t2 in H. cbn zeta in H.
    rewrite E2, E3, Er in H. cbn [negb orb] in H. apply bytes_eqb_eq in H. exact H. }
  destruct (b2n b0 <? 240) eqn:E4.
  { destruct rest as [|b1 [|b2 rest]]; try (intro H; discriminate H).
    match goal with |- context [in_range ?lo ?hi b1 && in_range 128 191 b2] =>
      destruct (in_range lo hi b1 && in_range 128 191 b2) eqn:Er end; [|intro H; discriminate H].
    intros _. cbn [fst snd firstn].
    assert (Hb2 : in_range 128 191 b2 = true) by (apply andb_prop in Er as [_ Hx]; exact Hx).
    pose proof (t3_all b0 b1 b2 E3 E4 Hb2) as H. unfold t3 in H. cbn zeta in H.
    rewrite Er in H. cbn [negb orb] in H. apply bytes_eqb_eq in H. exact H. }
  destruct (b2n b0 <? 245) eqn:E5; [|intro H; discriminate H].
  destruct rest as [|b1 [|b2 [|b3 rest]]]; try (intro H; discriminate H).
  match goal with |- context [in_range ?lo ?hi b1 && in_range 128 191 b2 && in_range 128 191 b3] =>
    destruct (in_range lo hi b1 && in_range 128 191 b2 && in_range 128 191 b3) eqn:Er end;
    [|intro H; discriminate H].
  intros _. cbn [fst snd firstn].
  assert (Hb : in_range 128 191 b2 = true /\ in_range 128 191 b3 = true).
  { apply andb_prop in Er as [Hx Hb3]. apply andb_prop in Hx as [_ Hb2]. auto. }
  pose proof (t4_all b0 b1 b2 b3 E4 E5 (proj1 Hb) (proj2 Hb)) as H. unfold t4 in H. cbn zeta in H.
  rewrite Er in H. cbn [negb orb] in H. apply bytes_eqb_eq in H. exact H.
Qed.

Local Close Scope N_scope.

(* ---- chunks of a valid line are the encodings of its runes -------------------------------------------- *)
Lemma chunks_valid_fuel k : forall s,
  forallb (fun p => negb (is_error_step p)) (runes_fuel k s) = true ->
  chunks_fuel k s = map encode_rune (map fst (runes_fuel k s)).
Proof.
  induction k as [|k IH]; intros s H; [reflexivity|].
  destruct s as [|b r]; [reflexivity|].
  cbn [chunks_fuel runes_fuel] in *. destruct (decode_rune (b :: r)) as [rn n] eqn:E.
  cbn [forallb map fst snd] in *. apply andb_prop in H as [H1 H2]. apply negb_true_iff in H1.
  pose proof (decode_then_encode b r) as Hd. rewrite E in Hd. cbn [fst snd] in Hd.
  rewrite (Hd H1). f_equal. apply IH. exact H2.
Qed.

Lemma chunks_valid line : utf8_valid line = true -> chunks line = map encode_rune (runes line).
Proof. intro H. apply chunks_valid_fuel. exact H. Qed.

Theorem fixed_slice_valid_proof start_pos len line : utf8_valid line = true ->
  rune_slice start_pos len line = encode_runes (firstn len (skipn (start_pos - 1) (runes line))).
Proof.
  intro H. rewrite fixed_slice_spec, (chunks_valid line H).
  unfold encode_runes. rewrite flat_map_concat_map, skipn_map, firstn_map. reflexivity.
Qed.
