(* C09 proofs, part 11: bufio.Scanner with the go-corelib split function (growing buffer, shift,
   doubling up to MaxScanTokenSize) over any well-behaved reader yields a_scan_all of the stream:
   the tokens depend on the bytes only. *)
From Coq Require Import List NArith Bool Arith Lia.
From Coq.Strings Require Import Byte.
Import ListNotations.
From OV Require Import Base.Bytes Base.Cases Base.Utf8 Model.Chunk Proofs.Chunk Proofs.ChunkLines.

Lemma M_ge_4096 : 4096 < MaxScanTokenSize.
Proof. apply Nat.ltb_lt. vm_compute. reflexivity. Qed.

Section ScanProofs.
  Variable St : Type.
  Variable sread : St -> nat -> rres * St.
  Variable Rep : St -> bytes -> tail -> Prop.
  Variable wt : St -> nat.
  Variable lead : St -> nat.
  Hypothesis Hok : reader_ok St sread Rep wt lead.

  Variable find : bytes -> option nat.
  Variable dlen : nat.
  Variable incl eofd : bool.
  Hypothesis Hdlen : 1 <= dlen.
  Hypothesis Hfind_bound : forall d i, find d = Some i -> i + dlen <= length d.
  Hypothesis Hfind_ext : forall d r i, find d = Some i -> find (d ++ r) = Some i.

  Notation M := MaxScanTokenSize.
  Notation scan := (scan St sread find dlen incl eofd).
  Notation scan_read := (scan_read St sread).
  Notation scan_all := (scan_all St sread find dlen incl eofd).
  Notation a_scan_all := (a_scan_all find dlen incl eofd).

  Lemma find_nil : find [] = None.
  Proof. destruct (find []) as [i|] eqn:E; [|reflexivity]. apply Hfind_bound in E. simpl in E. lia. Qed.

  Definition SR (st : scanner * St) (data : bytes) (t : tail) : Prop :=
    let '(sc, x) := st in
    s_start sc + length (s_data sc) <= s_buflen sc /\ s_buflen sc <= M /\
    match s_err sc with
    | None => exists rest, Rep x rest t /\ data = s_data sc ++ rest
    | Some e => e = tail_err t /\ data = s_data sc
    end.

  Definition sm (st : scanner * St) : nat :=
    match s_err (fst st) with Some _ => 0 | None => wt (snd st) + 1 end.

  (* the read loop of Scan *)
  Lemma scan_read_spec i : forall sc x rest t,
    s_err sc = None -> Rep x rest t -> lead x < i ->
    s_start sc + length (s_data sc) < s_buflen sc -> s_buflen sc <= M ->
    let '(sc', x') := scan_read i sc x in
    SR (sc', x') (s_data sc ++ rest) t /\ s_start sc' = s_start sc /\ s_buflen sc' = s_buflen sc /\
    sm (sc', x') < sm (sc, x).
  Proof.
    induction i as [|i IH]; intros sc x rest t He HR Hl Hroom HM; [lia|].
    cbn [Chunk.scan_read].
    destruct (Hok x rest t (s_buflen sc - (s_start sc + length (s_data sc))) HR ltac:(lia)) as [Hle H].
    destruct (sread x (s_buflen sc - (s_start sc + length (s_data sc)))) as [[c [e|]] x'].
    - destruct H as (->&->&HR'&Hlc&Hw). rewrite He. cbn [set_err].
      unfold SR, sm. cbn [fst snd s_start s_data s_buflen s_err]. rewrite He.
      split; [|split; [reflexivity|split; [reflexivity|lia]]].
      split; [rewrite app_length; lia|]. split; [exact HM|]. split; reflexivity.
    - destruct H as (rest'&->&HR'&Hw&Hlc&Hld). destruct c as [|c0 c]; cbn [is_nil].
      + specialize (Hld eq_refl). rewrite app_nil_r.
        specialize (IH (mkScan (s_start sc) (s_data sc) (s_buflen sc) (s_err sc)) x' rest' t He HR'
                       ltac:(lia) Hroom HM).
        cbn [s_start s_data s_buflen s_err] in IH.
        destruct (scan_read i _ x') as [sc2 x2]. cbn [app].
        destruct IH as (A&B&C&E). split; [exact A|]. split; [exact B|]. split; [exact C|].
        unfold sm in *. cbn [fst snd s_err] in *. rewrite He in *. simpl in Hw. lia.
      + unfold SR, sm. cbn [fst snd s_start s_data s_buflen s_err]. rewrite He.
        split; [|split; [reflexivity|split; [reflexivity|simpl in Hw; lia]]].
        split; [rewrite app_length; lia|]. split; [exact HM|].
        exists rest'. split; [exact HR'|]. rewrite app_assoc. reflexivity.
  Qed.

  Definition tok_of (i : nat) (data : bytes) : bytes := firstn (i + (if incl then dlen else 0)) data.

  (* what one Scan must do, as a function of the stream *)
  Definition scan_post (data : bytes) (t : tail) (r : option bytes * (scanner * St)) : Prop :=
    let '(tok, (sc', x')) := r in
    match find (firstn M data) with
    | Some i => tok = Some (tok_of i data) /\ SR (sc', x') (skipn (i + dlen) data) t
    | None =>
        if M <? length data then tok = None /\ scan_err sc' = Some IoTooLong
        else if is_nil data || negb eofd then tok = None /\ scan_err sc' = scan_terr t
        else tok = Some data /\ SR (sc', x') [] t
    end.

  Lemma firstn_M_prefix (d rest : bytes) : length d <= M -> exists r, firstn M (d ++ rest) = d ++ r.
  Proof. intro H. rewrite firstn_app. rewrite firstn_all2 by exact H. eauto. Qed.

  Lemma scan_try_spec sc x data t :
    SR (sc, x) data t ->
    match scan_try find dlen incl eofd sc with
    | inl _ => False
    | inr (sc1, otok) => s_err sc1 = s_err sc /\
      match otok with
      | Some tok =>
        (exists i, find (firstn M data) = Some i /\ tok = tok_of i data /\
                   SR (sc1, x) (skipn (i + dlen) data) t) \/
        (find (firstn M data) = None /\ length data <= M /\ is_nil data = false /\ eofd = true /\
         tok = data /\ SR (sc1, x) [] t)
      | None =>
        s_start sc1 = s_start sc /\ s_data sc1 = s_data sc /\ s_buflen sc1 = s_buflen sc /\
        find (s_data sc) = None /\
        (s_err sc <> None -> is_nil data || negb eofd = true)
      end
    end.
  Proof.
    intros (Hcap&HM&HR). unfold scan_try, split. set (d := s_data sc) in *.
    assert (HdM : length d <= M) by lia.
    assert (Hpre : exists rest, data = d ++ rest /\ (s_err sc <> None -> rest = [])).
    { destruct (s_err sc); [destruct HR as (_&->); exists []; split; [symmetry; apply app_nil_r|auto]
                           |destruct HR as (r&_&->); exists r; split; [reflexivity|congruence]]. }
    destruct Hpre as (rest&Hdata&Hrest).
    destruct (firstn_M_prefix d rest HdM) as (r0&Hfm). rewrite <- Hdata in Hfm.
    destruct ((0 <? length d) || negb (is_none (s_err sc))) eqn:Etry.
    2:{ (* nothing buffered, no error: split is not called *)
        apply orb_false_elim in Etry as [E1 E2].
        assert (d = []) by (destruct d; [reflexivity|discriminate]).
        rewrite H. split; [reflexivity|]. repeat split; auto; [apply find_nil|].
        intro Hn. destruct (s_err sc); [discriminate|congruence]. }
    destruct (negb (is_none (s_err sc)) && is_nil d) eqn:Eeofnil.
    - apply andb_prop in Eeofnil as [Ee Ed].
      assert (d = []) by (destruct d; [reflexivity|discriminate]).
      cbn [length Nat.ltb Nat.leb]. rewrite H in *. cbn [length Nat.ltb Nat.leb skipn].
      cbn [s_start s_data s_buflen s_err]. split; [reflexivity|]. repeat split; auto; [apply find_nil|].
      intros Hne. rewrite Hdata, (Hrest Hne). reflexivity.
    - destruct (find d) as [i|] eqn:Efind.
      + pose proof (Hfind_bound d i Efind) as Hb.
        destruct (Nat.ltb_spec (length d) (i + dlen)) as [|_]; [lia|].
        split; [reflexivity|]. left. exists i. split; [rewrite Hfm; apply Hfind_ext; exact Efind|]. split.
        * unfold tok_of. rewrite Hdata. rewrite firstn_app_le; [reflexivity|destruct incl; lia].
        * unfold SR. cbn [s_start s_data s_buflen s_err]. fold d.
          split; [rewrite skipn_length; lia|]. split; [exact HM|].
          rewrite Hdata, skipn_app_le by lia.
          destruct (s_err sc) as [e|] eqn:Eerr.
          -- destruct HR as (->&_). split; [reflexivity|]. rewrite (Hrest ltac:(discriminate)).
             apply app_nil_r.
          -- destruct HR as (r&HRx&Hd2). rewrite Hdata in Hd2. apply app_inv_head in Hd2. subst r.
             exists rest. auto.
      + destruct (negb (is_none (s_err sc)) && eofd) eqn:Eeofd.
        * apply andb_prop in Eeofd as [Ee Eeo].
          destruct (s_err sc) as [e|] eqn:Eerr; [|discriminate]. destruct HR as (->&Hd2).
          fold d in Hd2. subst data.
          destruct (Nat.ltb_spec (length d) (length d)) as [|_]; [lia|].
          split; [reflexivity|]. right. rewrite firstn_all2 by exact HdM.
          assert (Hdn : is_nil d = false).
          { destruct d; [|reflexivity]. cbn [is_nil] in Eeofnil. rewrite andb_true_r in Eeofnil.
            cbn in Eeofnil. discriminate. }
          split; [exact Efind|]. split; [exact HdM|]. split; [exact Hdn|]. split; [exact Eeo|].
          split; [reflexivity|].
          unfold SR. cbn [s_start s_data s_buflen s_err]. rewrite skipn_all. cbn [length].
          split; [lia|]. split; [exact HM|]. split; reflexivity.
        * cbn [length Nat.ltb Nat.leb]. destruct (Nat.ltb_spec (length d) 0) as [|_]; [lia|].
          cbn [skipn s_start s_data s_buflen s_err]. split; [reflexivity|]. repeat split; auto.
          intro Hn. destruct (s_err sc) as [e|] eqn:Eerr; [|congruence].
          cbn [is_none negb andb] in *. rewrite Eeofd. cbn [negb]. apply orb_true_r.
  Qed.

  Lemma scan_grow_spec sc1 :
    s_err sc1 = None -> s_start sc1 + length (s_data sc1) <= s_buflen sc1 -> s_buflen sc1 <= M ->
    match scan_grow sc1 with
    | inr sct => length (s_data sc1) = M /\ scan_err sct = Some IoTooLong
    | inl sc2 => s_data sc2 = s_data sc1 /\ s_err sc2 = None /\
                 s_start sc2 + length (s_data sc1) < s_buflen sc2 /\ s_buflen sc2 <= M
    end.
  Proof.
    intros He Hcap HM. unfold scan_grow.
    set (sc2 := if (0 <? s_start sc1) && _ then _ else sc1).
    assert (H2 : s_data sc2 = s_data sc1 /\ s_err sc2 = None /\ s_buflen sc2 = s_buflen sc1 /\
                 s_start sc2 + length (s_data sc1) <= s_buflen sc1 /\
                 (s_start sc2 + length (s_data sc1) = s_buflen sc1 -> s_start sc2 = 0)).
    { unfold sc2.
      destruct (Nat.ltb_spec 0 (s_start sc1)) as [Hp|Hz]; cbn [andb].
      - destruct (Nat.eqb_spec (s_start sc1 + length (s_data sc1)) (s_buflen sc1)) as [Hfull|Hnf]; cbn [orb].
        + cbn [s_start s_data s_buflen s_err]. repeat split; auto; lia.
        + destruct (s_buflen sc1 / 2 <? s_start sc1);
            cbn [s_start s_data s_buflen s_err]; repeat split; auto; lia.
      - repeat split; auto; lia. }
    destruct H2 as (A&B&C&E&F). rewrite A, C.
    destruct (Nat.eqb_spec (s_start sc2 + length (s_data sc1)) (s_buflen sc1)) as [Hfull|Hnf].
    - specialize (F Hfull).
      destruct (Nat.leb_spec M (s_buflen sc1)) as [Hbig|Hsmall].
      + split; [lia|]. reflexivity.
      + cbn [s_start s_data s_buflen s_err]. repeat split; auto.
        * pose proof M_ge_4096. destruct (Nat.eqb_spec (s_buflen sc1) 0); lia.
        * pose proof M_ge_4096. destruct (Nat.eqb_spec (s_buflen sc1) 0); lia.
    - repeat split; auto; lia.
  Qed.

  Lemma scan_spec fuel : forall sc x data t,
    SR (sc, x) data t -> sm (sc, x) < fuel ->
    (find (firstn M data) = None -> length data <> M) ->
    exists r, scan fuel sc x = Ok r /\ scan_post data t r /\ sm (snd r) <= sm (sc, x).
  Proof.
    induction fuel as [|k IH]; intros sc x data t HSR Hf Hhaz; [lia|].
    cbn [Chunk.scan]. pose proof (scan_try_spec sc x data t HSR) as Htry.
    destruct (scan_try find dlen incl eofd sc) as [[]|[sc1 [tok|]]]; [contradiction| |];
      destruct Htry as [Herr1 Htry].
    - (* a token *)
      eexists. split; [reflexivity|]. split.
      + unfold scan_post. destruct Htry as [(i&Hi&->&HS)|(Hn&Hl&Hnil&He&->&HS)].
        * rewrite Hi. auto.
        * rewrite Hn. destruct (Nat.ltb_spec M (length data)) as [|_]; [lia|].
          rewrite Hnil, He. cbn [negb orb]. auto.
      + cbn [snd]. unfold sm. cbn [fst snd]. rewrite Herr1. lia.
    - (* no token in what is buffered *)
      destruct Htry as (Hst&Hd&Hbl&Hfn&Heof).
      destruct HSR as (Hcap&HM&HR).
      destruct (s_err sc1) as [e|] eqn:Ee1.
      + (* the error is pending: Scan returns false *)
        rewrite <- Herr1 in HR, Heof. destruct HR as (->&->).
        eexists. split; [reflexivity|]. split.
        * unfold scan_post. rewrite firstn_all2 by lia. rewrite Hfn.
          destruct (Nat.ltb_spec M (length (s_data sc))) as [|_]; [lia|].
          rewrite (Heof ltac:(discriminate)). split; [reflexivity|].
          unfold scan_err, scan_terr. cbn [s_err]. reflexivity.
        * cbn [snd]. unfold sm. cbn [fst snd s_err]. lia.
      + rewrite <- Herr1 in HR. destruct HR as (rest&HRx&->).
        pose proof (scan_grow_spec sc1 Ee1 ltac:(rewrite Hst, Hd, Hbl; lia) ltac:(rewrite Hbl; lia)) as Hg.
        destruct (scan_grow sc1) as [sc2|sct].
        * (* read more and go round again *)
          destruct Hg as (G1&G2&G3&G4). rewrite Hd in G1, G3.
          pose proof (scan_read_spec 101 sc2 x rest t G2 HRx) as Hrd.
          destruct (Hok x rest t 1 HRx ltac:(lia)) as [Hlead _].
          specialize (Hrd ltac:(lia)). rewrite G1 in Hrd. specialize (Hrd G3 G4).
          destruct (scan_read 101 sc2 x) as [sc3 x3]. destruct Hrd as (HSR3&_&_&Hsm3).
          assert (Hsm : sm (sc3, x3) < sm (sc, x)).
          { unfold sm in *. cbn [fst snd] in *. rewrite G2 in Hsm3. rewrite <- Herr1. exact Hsm3. }
          destruct (IH sc3 x3 (s_data sc ++ rest) t HSR3 ltac:(lia) Hhaz) as (r&A&B&C).
          exists r. split; [exact A|]. split; [exact B|lia].
        * (* buffer full at its maximal size *)
          destruct Hg as (G1&G2). rewrite Hd in G1.
          eexists. split; [reflexivity|]. split.
          -- unfold scan_post.
             assert (Hfm : firstn M (s_data sc ++ rest) = s_data sc).
             { rewrite <- G1. apply firstn_app_exact. }
             rewrite Hfm, Hfn.
             assert (length (s_data sc ++ rest) <> M) by (apply Hhaz; rewrite Hfm; exact Hfn).
             rewrite app_length in *.
             destruct (Nat.ltb_spec M (length (s_data sc) + length rest)) as [_|]; [|lia].
             split; [reflexivity|exact G2].
          -- cbn [snd]. unfold sm. cbn [fst snd]. rewrite <- Herr1; try rewrite Ee1. destruct (s_err sct); lia.
  Qed.

  (* all tokens *)
  Theorem scan_all_spec gas fuel : forall sc x data t res,
    SR (sc, x) data t -> sm (sc, x) < gas ->
    a_scan_all fuel data t = Ok res -> scan_all gas fuel sc x = Ok res.
  Proof.
    induction fuel as [|k IH]; intros sc x data t res HSR Hg Ha; [discriminate|].
    cbn [Chunk.a_scan_all Chunk.scan_all] in *.
    assert (Hhaz : find (firstn M data) = None -> length data <> M).
    { intros Hn E. rewrite Hn in Ha. apply Nat.eqb_eq in E. rewrite E in Ha. discriminate. }
    destruct (scan_spec gas sc x data t HSR Hg Hhaz) as ([tok [sc' x']]&A&B&C). rewrite A.
    unfold scan_post in B. cbn [snd] in C.
    destruct (find (firstn M data)) as [i|] eqn:Ef.
    - destruct B as (->&HS).
      destruct (a_scan_all k (skipn (i + dlen) data) t) as [[ts e]| |] eqn:E1; try discriminate.
      rewrite (IH sc' x' _ t (ts, e) HS ltac:(lia) E1). exact Ha.
    - destruct (Nat.eqb_spec (length data) M) as [|_]; [discriminate|].
      destruct (M <? length data).
      + destruct B as (->&->). exact Ha.
      + destruct (is_nil data || negb eofd).
        * destruct B as (->&->). exact Ha.
        * destruct B as (->&HS).
          destruct (a_scan_all k [] t) as [[ts e]| |] eqn:E1; try discriminate.
          rewrite (IH sc' x' [] t (ts, e) HS ltac:(lia) E1). exact Ha.
  Qed.
End ScanProofs.

(* Outside the guard (a_scan_all = Panic HAZARD) the statement is false of the faithful model, and
   of bufio.Scanner (known finding F23): exactly MaxScanTokenSize bytes without a delimiter at the
   end of the input -- io.EOF delivered after them: bufio.ErrTooLong; with them: no error, the
   bytes are dropped. *)
Definition f23_data : bytes := repeat x78 MaxScanTokenSize.
Theorem scan_chunk_refuted :
  exists cs cs' wl wl' gas fuel,
    concat cs = concat cs' /\ runs_ok cs = true /\ runs_ok cs' = true /\
    scan_all source io_read (byte_index_with_esc [x7e] []) 1 true false gas fuel (mkScan 0 [] 128 None) (mkSrc cs wl TEof) <>
    scan_all source io_read (byte_index_with_esc [x7e] []) 1 true false gas fuel (mkScan 0 [] 128 None) (mkSrc cs' wl' TEof).
Proof.
  exists [f23_data], [f23_data], false, true, 400000, 10.
  repeat split; try reflexivity. vm_compute. discriminate.
Qed.
