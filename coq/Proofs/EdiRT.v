(* C07 proofs, part 2: the round trip.  For every configuration satisfying [cfg_ok] and all
   logical segments satisfying [segs_ok], tokenising [edi_encode] gives the logical
   (ElemIndex, CompIndex, data) back, and rawSegToNode builds the declared element nodes. *)
From Coq Require Import List NArith Bool Arith Lia.
From Coq.Strings Require Import Byte.
Import ListNotations.
From OV Require Import Base.Bytes Base.Cases Base.Utf8 Gen.EdiConsts Gen.EdiShape Model.Edi Proofs.Edi Proofs.EdiUnits.

(* ---- side conditions ---------------------------------------------------------------------------- *)
(* "pairwise non-overlapping": the delimiters in use and the release character are non-empty
   (specials drops the absent ones), each starts with a rune that utf8.DecodeRune decodes and
   that is not U+FFFD (in particular: every valid UTF-8 string not starting with U+FFFD), their
   first bytes are pairwise distinct, and none of those first bytes occurs at a later position of
   any of them. *)
Definition tail_clean (hs : list byte) (x : bytes) : Prop :=
  forall b, In b (tl x) -> is_head hs b = false.

Definition first_rune_ok (x : bytes) : Prop := fst (decode_rune x) <> RuneError.

Definition ends_with_cr (x : bytes) : Prop := exists u, x = u ++ [CR].

Definition cfg_ok (c : cfg) : Prop :=
  c_seg c <> [] /\ c_elem c <> [] /\
  NoDup (heads (specials c)) /\
  Forall first_rune_ok (specials c) /\
  Forall (tail_clean (heads (specials c))) (specials c) /\
  (* with LF as segment delimiter a CR in front of it is dropped: the release character cannot end with CR *)
  (c_seg c = [LF] -> ~ ends_with_cr (optb (c_rel c))).

(* the configuration class of the first version of these proofs: first bytes ASCII *)
Definition cfg_ok_ascii (c : cfg) : Prop :=
  c_seg c <> [] /\ c_elem c <> [] /\
  NoDup (heads (specials c)) /\
  Forall ascii_byte (heads (specials c)) /\
  Forall (tail_clean (heads (specials c))) (specials c) /\
  (c_seg c = [LF] -> ~ ends_with_cr (optb (c_rel c))).

Lemma cfg_ok_ascii_ok c : cfg_ok_ascii c -> cfg_ok c.
Proof.
  intros (H1 & H2 & H3 & H4 & H5 & H6). repeat split; try assumption.
  apply Forall_forall. intros x Hx. unfold first_rune_ok.
  destruct x as [|b t].
  - exfalso. unfold specials, delims in Hx. rewrite in_app_iff, !filter_In in Hx.
    destruct Hx as [[_ Hx]|[_ Hx]]; discriminate.
  - rewrite Forall_forall in H4. assert (ascii_byte b) as Hb.
    { apply H4. unfold heads. apply in_flat_map. exists (b :: t). split; [exact Hx|left; reflexivity]. }
    rewrite (decode_rune_ascii b t Hb). cbn [fst]. unfold ascii_byte, RuneError in *.
    intro Hr. rewrite Hr in Hb. revert Hb. apply N.nlt_ge. discriminate.
Qed.

Section RT.
Variable c : cfg.
Hypothesis Hcfg : cfg_ok c.

Let SP := specials c.
Let H := heads SP.
Let esc := optb (c_rel c).
Let E := escape H esc.

Lemma sp_nonempty x : In x SP -> x <> [].
Proof.
  unfold SP, specials, delims. rewrite in_app_iff, !filter_In. intros [[_ Hx]|[_ Hx]] ->; discriminate.
Qed.

Lemma head_in x : In x SP -> exists x0 xt, x = x0 :: xt /\ In x0 H.
Proof.
  intro Hx. destruct x as [|x0 xt]; [exfalso; apply (sp_nonempty [] Hx); reflexivity|].
  exists x0, xt. split; [reflexivity|]. unfold H, heads. apply in_flat_map. exists (x0 :: xt).
  split; [exact Hx|left; reflexivity].
Qed.

Lemma tail_not_head x b : In x SP -> In b (tl x) -> ~ In b H.
Proof.
  intros Hx Hb Hin. destruct Hcfg as (_ & _ & _ & _ & Ht & _). rewrite Forall_forall in Ht.
  specialize (Ht x Hx b Hb). apply is_head_In in Hin. fold SP H in Ht. congruence.
Qed.

Lemma NoDup_app_r {A} (a b : list A) : NoDup (a ++ b) -> NoDup b.
Proof. induction a as [|x a IH]; simpl; intro Hn; [exact Hn|]. inversion Hn; subst. auto. Qed.

Lemma heads_inj l : NoDup (heads l) -> forall x y b xt yt,
  In x l -> In y l -> x = b :: xt -> y = b :: yt -> x = y.
Proof.
  induction l as [|z l IH]; intros Hnd x y b xt yt Hx Hy Ex Ey; [destruct Hx|].
  simpl in Hnd. pose proof (NoDup_app_r _ _ Hnd) as Hnd'.
  assert (Hno : forall w wt, In w l -> w = b :: wt -> z = b :: tl z -> False).
  { intros w wt Hw Ew Ez. rewrite Ez in Hnd. simpl in Hnd. inversion Hnd as [|? ? Hni _]; subst.
    apply Hni. apply in_flat_map. exists (b :: wt). split; [exact Hw|left; reflexivity]. }
  destruct Hx as [->|Hx]; destruct Hy as [->|Hy].
  - reflexivity.
  - exfalso. apply (Hno y yt Hy Ey). rewrite Ex. reflexivity.
  - exfalso. apply (Hno x xt Hx Ex). rewrite Ey. reflexivity.
  - apply (IH Hnd' x y b xt yt); assumption.
Qed.

Lemma sp_head_inj x y b xt yt : In x SP -> In y SP -> x = b :: xt -> y = b :: yt -> x = y.
Proof. destruct Hcfg as (_ & _ & Hnd & _). apply heads_inj. exact Hnd. Qed.

(* two occurrences of delimiters / release character in one string never overlap *)
Lemma no_overlap t x y ux vx uy vy : In x SP -> In y SP ->
  t = ux ++ x ++ vx -> t = uy ++ y ++ vy ->
  length ux <= length uy < length ux + length x -> ux = uy /\ x = y.
Proof.
  intros Hx Hy Ex Ey Hlen.
  destruct (head_in y Hy) as (y0 & yt & -> & Hy0).
  destruct (Nat.eq_dec (length ux) (length uy)) as [Heq|Hneq].
  - assert (ux = uy /\ x ++ vx = (y0 :: yt) ++ vy) as [-> Hrest].
    { apply app_eq_length_l; [exact Heq|congruence]. }
    split; [reflexivity|].
    destruct (head_in x Hx) as (x0 & xt & -> & _). simpl in Hrest. inversion Hrest; subst.
    eapply sp_head_inj; eauto.
  - exfalso.
    (* y0 sits inside the tail of x *)
    assert (nth_error t (length uy) = Some y0) as Hn.
    { rewrite Ey, nth_error_app2, Nat.sub_diag by lia. reflexivity. }
    rewrite Ex, nth_error_app2 in Hn by lia.
    rewrite nth_error_app1 in Hn by lia.
    destruct x as [|x0 xt]; [simpl in Hlen; lia|].
    replace (length uy - length ux) with (S (length uy - length ux - 1)) in Hn by lia.
    simpl in Hn. apply nth_error_In in Hn. apply (tail_not_head (x0 :: xt) y0 Hx Hn Hy0).
Qed.

Lemma delim_sp x : In x (delims c) -> In x SP.
Proof. intro Hx. unfold SP, specials. apply in_app_iff. left. exact Hx. Qed.

Lemma esc_sp : esc <> [] -> In esc SP.
Proof.
  intro He. unfold SP, specials. apply in_app_iff. right. fold esc.
  destruct esc; [congruence|]. left. reflexivity.
Qed.

Lemma heads_app l1 l2 : heads (l1 ++ l2) = heads l1 ++ heads l2.
Proof. unfold heads. apply flat_map_app. Qed.

Lemma esc_not_delim : esc <> [] -> ~ In esc (delims c).
Proof.
  intros He Hin. destruct Hcfg as (_ & _ & Hnd & _). unfold specials in Hnd. fold esc in Hnd.
  rewrite heads_app in Hnd. destruct esc as [|e0 er] eqn:Ee; [congruence|]. simpl in Hnd.
  apply NoDup_remove_2 in Hnd. apply Hnd. rewrite app_nil_r. unfold heads. apply in_flat_map.
  exists (e0 :: er). split; [exact Hin|left; reflexivity].
Qed.

Lemma app_split_ge {A} (a b c' d : list A) : a ++ b = c' ++ d -> length a <= length c' ->
  exists m, c' = a ++ m /\ b = m ++ d.
Proof.
  revert c'. induction a as [|x a IH]; intros c' Heq Hl; simpl in *.
  - exists c'. auto.
  - destruct c' as [|y c']; [simpl in Hl; lia|]. simpl in *. inversion Heq; subst.
    destruct (IH c') as (m & -> & ->); [assumption|lia|]. exists m. auto.
Qed.

(* the run of release characters seen from a position after a delimiter stops at the delimiter *)
Lemma trailing_after_delim_none z t u2 : In z (delims c) -> esc <> [] ->
  strip_suffix esc u2 = None -> trailing esc (t ++ z ++ u2) = trailing esc u2.
Proof.
  intros Hz He Es. pose proof (proj1 (strip_suffix_none _ _) Es) as Hns.
  rewrite (trailing_none esc u2) by exact Hns.
  apply trailing_none. intros u' Heq.
  pose proof (delim_sp z Hz) as Hzs. pose proof (esc_sp He) as Hes.
  assert (0 < length z) by (pose proof (sp_nonempty z Hzs); destruct z; [congruence|simpl; lia]).
  assert (Hlen : length t + length z + length u2 = length u' + length esc).
  { apply (f_equal (@length byte)) in Heq. rewrite !app_length in Heq. lia. }
  destruct (Nat.le_gt_cases (length t + length z) (length u')) as [Hge|Hlt].
  - replace (t ++ z ++ u2) with ((t ++ z) ++ u2) in Heq by (rewrite <- app_assoc; reflexivity).
    apply app_split_ge in Heq; [|rewrite app_length; lia].
    destruct Heq as (m & _ & Hu2). apply (Hns m). exact Hu2.
  - destruct (Nat.le_gt_cases (length t) (length u')) as [Hge|Hlt2].
    + destruct (no_overlap (t ++ z ++ u2) z esc t u2 u' [] Hzs Hes) as [_ Hze];
        [reflexivity|rewrite app_nil_r; exact Heq|lia|].
      apply (esc_not_delim He). rewrite <- Hze. exact Hz.
    + destruct (no_overlap (t ++ z ++ u2) esc z u' [] t u2 Hes Hzs) as [Hut _];
        [rewrite app_nil_r; exact Heq|reflexivity|lia|]. subst. lia.
Qed.

Lemma trailing_after_delim z t : In z (delims c) -> esc <> [] -> forall n u2, length u2 <= n ->
  trailing esc (t ++ z ++ u2) = trailing esc u2.
Proof.
  intros Hz He. induction n as [|n IH]; intros u2 Hn.
  - apply trailing_after_delim_none; [exact Hz|exact He|].
    destruct u2; [|simpl in Hn; lia]. apply strip_suffix_none. intros u' Hu.
    destruct u'; destruct esc; simpl in Hu; congruence.
  - destruct (strip_suffix esc u2) as [u2'|] eqn:Es.
    + apply strip_suffix_some in Es. subst u2. rewrite app_length in Hn.
      assert (0 < length esc) by (destruct esc; [congruence|simpl; lia]).
      replace (t ++ z ++ u2' ++ esc) with ((t ++ z ++ u2') ++ esc) by (rewrite <- !app_assoc; reflexivity).
      rewrite !trailing_app by exact He. f_equal. apply IH. lia.
    + apply trailing_after_delim_none; assumption.
Qed.

(* ---- pieces that can be cut out again ------------------------------------------------------------- *)
(* [sealed P p]: every occurrence inside p of a delimiter of class P is escaped, and p does not
   end in the middle of an escape (an even run of release characters ends p). *)
Definition sealed (P : bytes -> Prop) (p : bytes) : Prop :=
  (forall x u v, P x -> p = u ++ x ++ v -> esc <> [] /\ Nat.odd (trailing esc u) = true) /\
  (esc <> [] -> Nat.odd (trailing esc p) = false).

Definition hfollow (w : bytes) : Prop := match w with [] => True | h :: _ => In h H end.

Lemma sealed_weaken (P Q : bytes -> Prop) p : (forall x, Q x -> P x) -> sealed P p -> sealed Q p.
Proof. intros HQP [S1 S2]. split; [|exact S2]. intros x u v Hx. apply S1. apply HQP. exact Hx. Qed.

(* an occurrence that begins inside p ends inside p, when what follows p starts a delimiter *)
Lemma no_straddle x p w u v : In x SP -> hfollow w -> p ++ w = u ++ x ++ v -> length u < length p ->
  exists v1, p = u ++ x ++ v1.
Proof.
  intros Hx Hw Heq Hlt.
  destruct (Nat.le_gt_cases (length u + length x) (length p)) as [Hin|Hout].
  - replace (u ++ x ++ v) with ((u ++ x) ++ v) in Heq by (rewrite <- app_assoc; reflexivity).
    symmetry in Heq. apply app_split_ge in Heq; [|rewrite app_length; lia].
    destruct Heq as (m & -> & _). exists m. rewrite <- app_assoc. reflexivity.
  - exfalso.
    assert (length p < length (p ++ w)) as Hpw.
    { rewrite Heq, !app_length. lia. }
    destruct w as [|h w']; [rewrite app_nil_r in Hpw; lia|]. simpl in Hw.
    assert (nth_error (p ++ h :: w') (length p) = Some h) as Hn.
    { rewrite nth_error_app2, Nat.sub_diag by lia. reflexivity. }
    rewrite Heq, nth_error_app2 in Hn by lia. rewrite nth_error_app1 in Hn by lia.
    destruct x as [|x0 xt]; [simpl in Hout; lia|].
    replace (length p - length u) with (S (length p - length u - 1)) in Hn by lia.
    simpl in Hn. apply nth_error_In in Hn. apply (tail_not_head (x0 :: xt) h Hx Hn Hw).
Qed.

Section Level.
Variable P : bytes -> Prop.
Hypothesis Psub : forall x, P x -> In x (delims c).

Lemma sealed_join2 p1 z p2 : In z (delims c) -> ~ P z -> sealed P p1 -> sealed P p2 ->
  sealed P (p1 ++ z ++ p2).
Proof.
  intros Hz HnP [A1 A2] [B1 B2].
  pose proof (delim_sp z Hz) as Hzs.
  destruct (head_in z Hzs) as (z0 & zt & Ez & Hz0).
  split.
  - intros x u v Hx Heq. pose proof (delim_sp x (Psub x Hx)) as Hxs.
    destruct (Nat.lt_ge_cases (length u) (length p1)) as [Hlt|Hge].
    + destruct (no_straddle x p1 (z ++ p2) u v Hxs) as (v1 & Hp1); [rewrite Ez; exact Hz0|exact Heq|exact Hlt|].
      apply (A1 x u v1 Hx Hp1).
    + destruct (Nat.lt_ge_cases (length u) (length p1 + length z)) as [Hlt2|Hge2].
      * exfalso. destruct (no_overlap (p1 ++ z ++ p2) z x p1 p2 u v Hzs Hxs) as [_ Hzx];
          [reflexivity|exact Heq|lia|]. apply HnP. rewrite Hzx. exact Hx.
      * replace (p1 ++ z ++ p2) with ((p1 ++ z) ++ p2) in Heq by (rewrite <- app_assoc; reflexivity).
        apply app_split_ge in Heq; [|rewrite app_length; lia].
        destruct Heq as (m & -> & Hp2). destruct (B1 x m v Hx Hp2) as [He Hodd].
        split; [exact He|]. rewrite <- app_assoc.
        rewrite (trailing_after_delim z p1 Hz He (length m) m (le_n _)). exact Hodd.
  - intro He. rewrite (trailing_after_delim z p1 Hz He (length p2) p2 (le_n _)). apply B2. exact He.
Qed.

Lemma sealed_join z ps : In z (delims c) -> ~ P z -> ps <> [] -> Forall (sealed P) ps ->
  sealed P (join z ps).
Proof.
  intros Hz HnP. induction ps as [|p ps IH]; intros Hne Hall; [congruence|].
  inversion Hall as [|? ? Hp Hps]; subst. destruct ps as [|q ps]; [exact Hp|].
  change (join z (p :: q :: ps)) with (p ++ z ++ join z (q :: ps)).
  apply sealed_join2; [exact Hz|exact HnP|exact Hp|apply IH; [discriminate|exact Hps]].
Qed.

(* ByteIndexWithEsc on a sealed piece followed by its delimiter finds exactly that delimiter *)
Lemma index_sealed x p w : P x -> sealed P p ->
  index_with_esc (p ++ x ++ w) x esc = Ok (Some (length p)).
Proof.
  intros Hx [S1 S2]. pose proof (delim_sp x (Psub x Hx)) as Hxs.
  pose proof (sp_nonempty x Hxs) as Hxne.
  destruct (head_in x Hxs) as (x0 & xt & Ex & Hx0).
  destruct (index_with_esc_spec (p ++ x ++ w) x esc Hxne) as (r & Hr & Hpost). rewrite Hr. f_equal.
  assert (Hat : unesc_occ esc (p ++ x ++ w) x (length p)).
  { split; [exists p, w; auto|]. destruct esc as [|e0 er] eqn:Ee; [left; reflexivity|right].
    unfold escaped_at. rewrite firstn_app, Nat.sub_diag, firstn_all. simpl. rewrite app_nil_r.
    rewrite S2 by discriminate. discriminate. }
  assert (Hbefore : forall j, j < length p -> ~ unesc_occ esc (p ++ x ++ w) x j).
  { intros j Hj [(u & v & Heq & Hu) Hesc]. subst j.
    destruct (no_straddle x p (x ++ w) u v Hxs) as (v1 & Hp1); [rewrite Ex; exact Hx0|exact Heq|exact Hj|].
    destruct (S1 x u v1 Hx Hp1) as [He Hodd].
    destruct Hesc as [He0|Hne]; [congruence|]. apply Hne. unfold escaped_at.
    rewrite Heq, firstn_app, Nat.sub_diag, firstn_all. simpl. rewrite app_nil_r. exact Hodd. }
  destruct r as [i|].
  - destruct Hpost as [Hi Hfirst]. f_equal.
    destruct (Nat.lt_trichotomy i (length p)) as [Hlt|[Heq|Hgt]]; [|exact Heq|].
    + exfalso. apply (Hbefore i Hlt Hi).
    + exfalso. apply (Hfirst (length p) Hgt Hat).
  - exfalso. apply (Hpost (length p) Hat).
Qed.

Lemma index_sealed_none x p : P x -> sealed P p -> index_with_esc p x esc = Ok None.
Proof.
  intros Hx [S1 S2]. pose proof (delim_sp x (Psub x Hx)) as Hxs.
  pose proof (sp_nonempty x Hxs) as Hxne.
  destruct (index_with_esc_spec p x esc Hxne) as (r & Hr & Hpost). rewrite Hr. f_equal.
  destruct r as [i|]; [|reflexivity]. exfalso.
  destruct Hpost as [[(u & v & Heq & Hu) Hesc] _].
  destruct (S1 x u v Hx Heq) as [He Hodd]. destruct Hesc as [He0|Hne]; [congruence|].
  apply Hne. unfold escaped_at. subst i. rewrite Heq, firstn_app, Nat.sub_diag, firstn_all. simpl.
  rewrite app_nil_r. exact Hodd.
Qed.

Lemma split_loop_sealed x : P x -> forall ps fuel, ps <> [] -> Forall (sealed P) ps ->
  length (join x ps) < fuel -> split_loop fuel (join x ps) x esc = Ok ps.
Proof.
  intros Hx. induction ps as [|p ps IH]; intros fuel Hne Hall Hf; [congruence|].
  inversion Hall as [|? ? Hp Hps]; subst.
  destruct fuel as [|k]; [lia|]. cbn [split_loop].
  destruct ps as [|q ps].
  - cbn [join]. rewrite (index_sealed_none x p Hx Hp). reflexivity.
  - change (join x (p :: q :: ps)) with (p ++ x ++ join x (q :: ps)) in *.
    rewrite (index_sealed x p _ Hx Hp). cbn [bind].
    rewrite !app_length in Hf.
    rewrite slice_ok by (rewrite ?app_length; lia). cbn [bind].
    rewrite slice_from_ok by (rewrite !app_length; lia). cbn [bind].
    cbn [skipn]. rewrite Nat.sub_0_r, firstn_app, Nat.sub_diag, firstn_all. simpl firstn. rewrite app_nil_r.
    replace (length p + length x) with (length (p ++ x)) by apply app_length.
    rewrite app_assoc, skipn_app_exact.
    assert (0 < length x).
    { pose proof (sp_nonempty x (delim_sp x (Psub x Hx))). destruct x; [congruence|simpl; lia]. }
    rewrite IH; [reflexivity|discriminate|exact Hps|lia].
Qed.

Lemma split_sealed x ps : P x -> ps <> [] -> Forall (sealed P) ps ->
  split_with_esc (join x ps) x esc = Ok ps.
Proof.
  intros Hx Hne Hall. pose proof (sp_nonempty x (delim_sp x (Psub x Hx))) as Hxne.
  unfold split_with_esc, bytes_split.
  assert (is_empty x = false) as -> by (destruct x; [congruence|reflexivity]).
  destruct (is_empty (join x ps) || false || is_empty esc) eqn:Eb.
  - destruct (is_empty esc) eqn:Ee.
    + destruct esc eqn:Ee'; [|discriminate]. rewrite <- Ee'.
      apply split_loop_sealed; [exact Hx|exact Hne|exact Hall|lia].
    + rewrite orb_false_r in Eb. rewrite orb_false_r in Eb.
      destruct (join x ps) eqn:Ej; [|discriminate].
      destruct ps as [|p [|q ps]]; [congruence| |].
      * cbn [join] in Ej. subst p. cbn [length split_loop index_with_esc is_empty orb bindex].
        assert (has_prefix [] x = false) as -> by (destruct x; [congruence|reflexivity]). reflexivity.
      * change (join x (p :: q :: ps)) with (p ++ x ++ join x (q :: ps)) in Ej.
        apply (f_equal (@length byte)) in Ej. rewrite !app_length in Ej. simpl in Ej.
        destruct x; [congruence|simpl in Ej; lia].
  - apply split_loop_sealed; [exact Hx|exact Hne|exact Hall|lia].
Qed.
End Level.

(* ---- the escaped form of a data value is sealed against every delimiter ---------------------------- *)
Let EU := enc_units H esc.

Lemma E_units d : E d = EU (explode d).
Proof. reflexivity. Qed.

Lemma EU_cons u us : EU (u :: us) = (if escapable H u then esc else []) ++ u ++ EU us.
Proof. unfold EU, enc_units. cbn [flat_map]. rewrite <- app_assoc. reflexivity. Qed.

Lemma EU_app us1 us2 : EU (us1 ++ us2) = EU us1 ++ EU us2.
Proof. unfold EU, enc_units. apply flat_map_app. Qed.

Lemma not_head b : ~ In b H -> is_head H b = false.
Proof. intro Hn. destruct (is_head H b) eqn:Eh; [apply is_head_In in Eh; contradiction|reflexivity]. Qed.

Lemma in_heads_inv b : In b H -> exists xt, In (b :: xt) SP.
Proof.
  unfold H, heads. intro Hin. apply in_flat_map in Hin as (x & Hx & Hb).
  destruct x as [|x0 xt]; [destruct Hb|]. destruct Hb as [->|[]]. exists xt. exact Hx.
Qed.

Lemma sp_first_rune x : In x SP -> first_rune_ok x.
Proof. destruct Hcfg as (_ & _ & _ & Hf & _). rewrite Forall_forall in Hf. apply Hf. Qed.

Lemma head_not_cont b : In b H -> ~ is_cont b.
Proof.
  intro Hin. destruct (in_heads_inv b Hin) as (xt & Hx).
  apply (decode_ok_not_cont b xt). apply (sp_first_rune _ Hx).
Qed.

Lemma escapable_true u : escapable H u = true ->
  exists b ut, u = b :: ut /\ In b H /\ fst (decode_rune u) <> RuneError.
Proof.
  unfold escapable. destruct u as [|b ut]; [discriminate|]. intro He. apply andb_prop in He as [H1 H2].
  exists b, ut. split; [reflexivity|]. split; [apply is_head_In; exact H2|].
  intro Hr. rewrite Hr in H1. discriminate.
Qed.

(* the first byte of the encoded form is never a continuation byte unless it is a data byte *)
Lemma cont_prefix : forall cs, (forall x, In x cs -> is_cont x) -> forall r v, units_ok r ->
  EU r = cs ++ v -> exists v', concat r = cs ++ v'.
Proof.
  induction cs as [|c0 cs IH]; intros Hcs r v Hok Heq; [exists (concat r); reflexivity|].
  destruct r as [|w r]; [discriminate|]. rewrite EU_cons in Heq.
  assert (Hc0 : is_cont c0) by (apply Hcs; left; reflexivity).
  destruct Hok as (Hne & Hsz & Hr). destruct w as [|w0 wt]; [congruence|].
  destruct (escapable H (w0 :: wt)) eqn:Ew.
  - exfalso. destruct (escapable_true _ Ew) as (b & ut & Eb & Hb & Hd). inversion Eb; subst b ut.
    destruct esc as [|e0 er] eqn:Ee.
    + cbn [app] in Heq. inversion Heq; subst. apply (head_not_cont c0 Hb Hc0).
    + cbn [app] in Heq. inversion Heq; subst.
      assert (esc <> []) as He by (rewrite Ee; discriminate).
      destruct (head_in esc (esc_sp He)) as (x0 & xt & Ex & Hx0). rewrite Ee in Ex. inversion Ex; subst.
      apply (head_not_cont x0 Hx0 Hc0).
  - cbn [app] in Heq. injection Heq as Hw0 Hrest. subst w0.
    assert (wt = []) as -> by (apply (unit_cont_single (c0 :: wt) r c0 wt); [repeat split; assumption|reflexivity|exact Hc0]).
    cbn [app] in Hrest. destruct (IH (fun x Hx => Hcs x (or_intror Hx)) r v Hr Hrest) as (v' & Hv').
    exists v'. cbn [concat app]. rewrite Hv'. reflexivity.
Qed.

(* no delimiter / release character starts at a unit that the encoder left unescaped *)
Lemma no_occ_at_plain_unit u r x v : units_ok (u :: r) -> escapable H u = false -> In x SP ->
  hd_error u = hd_error x -> u ++ EU r = x ++ v -> False.
Proof.
  intros Hok Hesc Hx Hhd Heq. pose proof Hok as (Hne & Hsz & Hr).
  destruct (head_in x Hx) as (x0 & xt & Ex & Hx0).
  destruct u as [|u0 ut]; [congruence|]. rewrite Ex in Hhd. cbn in Hhd. inversion Hhd; subst u0.
  pose proof (sp_first_rune x Hx) as Hfr. unfold first_rune_ok in Hfr.
  destruct (decode_rune x) as [rx nx] eqn:Edx. cbn [fst] in Hfr.
  assert (Hxne : x <> []) by (rewrite Ex; discriminate).
  pose proof (decode_rune_size x Hxne) as Hnx. rewrite Edx in Hnx. cbn [snd] in Hnx.
  pose proof (decode_prefix x rx nx Edx (or_intror Hfr)) as Hpre.
  (* the unit and what follows it in the data start with the first rune of x *)
  assert (Hw : exists w, (x0 :: ut) ++ concat r = firstn nx x ++ w).
  { destruct (Nat.le_gt_cases nx (length (x0 :: ut))) as [Hge|Hlt].
    - exists (skipn nx (x0 :: ut) ++ concat r).
      assert (firstn nx x = firstn nx (x0 :: ut)) as ->.
      { transitivity (firstn nx (x ++ v)); [rewrite firstn_app; replace (nx - length x) with 0 by lia;
                                             simpl; rewrite app_nil_r; reflexivity|].
        rewrite <- Heq, firstn_app. replace (nx - length (x0 :: ut)) with 0 by lia. simpl firstn at 2.
        rewrite app_nil_r. reflexivity. }
      rewrite app_assoc, firstn_skipn. reflexivity.
    - (* the unit is shorter than that rune: the rest of the rune are continuation bytes, data bytes *)
      assert (Hcs : forall y, In y (skipn (length (x0 :: ut)) (firstn nx x)) -> is_cont y).
      { intros y Hy. rewrite Ex in Edx, Hy.
        destruct (decode_multi_cont x0 xt rx nx Edx) as [_ Hc]; [simpl in Hlt; lia|].
        destruct nx as [|nx']; [lia|]. cbn [firstn length skipn] in Hy.
        apply in_skipn in Hy. apply in_firstn_nth in Hy as (k & Hk & Hn).
        destruct (Hc k) as (c' & Hc1 & Hc2); [lia|]. congruence. }
      assert (Hsplit : firstn nx x = (x0 :: ut) ++ skipn (length (x0 :: ut)) (firstn nx x)).
      { rewrite <- (firstn_skipn (length (x0 :: ut)) (firstn nx x)) at 1. f_equal.
        rewrite firstn_firstn. replace (Nat.min (length (x0 :: ut)) nx) with (length (x0 :: ut)) by lia.
        transitivity (firstn (length (x0 :: ut)) (x ++ v)).
        - rewrite firstn_app. replace (length (x0 :: ut) - length x) with 0 by lia. simpl firstn at 2.
          rewrite app_nil_r. reflexivity.
        - rewrite <- Heq, firstn_app, Nat.sub_diag, firstn_all. simpl. rewrite app_nil_r. reflexivity. }
      assert (HEU : EU r = skipn (length (x0 :: ut)) (firstn nx x) ++ (skipn nx x ++ v)).
      { apply (app_inv_head (x0 :: ut)). rewrite Heq, app_assoc, <- Hsplit, app_assoc, firstn_skipn. reflexivity. }
      destruct (cont_prefix _ Hcs r _ Hr HEU) as (v' & Hv').
      exists v'. rewrite Hv', app_assoc, <- Hsplit. reflexivity. }
  destruct Hw as (w & Hw). rewrite Hw, Hpre in Hsz. cbn [snd] in Hsz.
  assert (x0 :: ut = firstn nx x) as Hu.
  { apply (app_eq_length_l (x0 :: ut) (concat r) (firstn nx x) w); [rewrite firstn_length; lia|exact Hw]. }
  (* so the unit is a decodable rune with its first byte among the heads: it was escaped *)
  assert (escapable H (x0 :: ut) = true) as Habs.
  { unfold escapable. rewrite Hu at 1. rewrite <- (app_nil_r (firstn nx x)), Hpre. cbn [fst].
    apply andb_true_intro. split; [apply negb_true_iff, N.eqb_neq; exact Hfr|apply is_head_In; exact Hx0]. }
  congruence.
Qed.

(* a byte inside a unit (not its first) starts no delimiter *)
Lemma no_occ_inside_unit u r t k x0 : units_ok (u :: r) -> 0 < k < length u ->
  nth_error (u ++ t) k = Some x0 -> In x0 H -> False.
Proof.
  intros Hok Hk Hn Hx0. destruct u as [|u0 ut]; [simpl in Hk; lia|].
  rewrite nth_error_app1 in Hn by lia. destruct k as [|k]; [lia|]. cbn [nth_error] in Hn.
  apply nth_error_In in Hn. apply (head_not_cont x0 Hx0).
  apply (unit_tail_cont (u0 :: ut) r u0 ut Hok eq_refl). exact Hn.
Qed.

(* every occurrence of a delimiter or of the release character in the encoded form is either an
   occurrence right after an inserted release character, or an inserted release character *)
Lemma occ_in_enc : esc <> [] -> forall us, units_ok us -> forall u x v, In x SP -> EU us = u ++ x ++ v ->
  (exists us1 us2, us = us1 ++ us2 /\ u = EU us1 ++ esc) \/
  (x = esc /\ exists us1 w us2, us = us1 ++ w :: us2 /\ escapable H w = true /\ u = EU us1).
Proof.
  intros He. pose proof (esc_sp He) as Hes.
  induction us as [|w r IH]; intros Hok u x v Hx Heq.
  - exfalso. destruct (head_in x Hx) as (x0 & xt & -> & _). destruct u; discriminate.
  - destruct (head_in x Hx) as (x0 & xt & Ex & Hx0). pose proof Hok as (Hne & Hsz & Hr).
    assert (Hnth : nth_error (u ++ x ++ v) (length u) = Some x0).
    { rewrite nth_error_app2, Nat.sub_diag, Ex by lia. reflexivity. }
    assert (Hlift : forall m, EU r = m ++ x ++ v -> forall pre, (forall us1, EU (w :: us1) = pre ++ EU us1) ->
              u = pre ++ m ->
              (exists us1 us2, w :: r = us1 ++ us2 /\ u = EU us1 ++ esc) \/
              (x = esc /\ exists us1 w' us2, w :: r = us1 ++ w' :: us2 /\ escapable H w' = true /\ u = EU us1)).
    { intros m Hm pre Hpre Hu.
      destruct (IH Hr m x v Hx Hm) as [(us1 & us2 & -> & ->)|(Hxe & us1 & w' & us2 & -> & Hw' & ->)].
      - left. exists (w :: us1), us2. split; [reflexivity|]. rewrite Hu, Hpre, app_assoc. reflexivity.
      - right. split; [exact Hxe|]. exists (w :: us1), w', us2. split; [reflexivity|]. split; [exact Hw'|].
        rewrite Hu, Hpre. reflexivity. }
    rewrite EU_cons in Heq. destruct (escapable H w) eqn:Ew.
    + destruct (Nat.lt_ge_cases (length u) (length esc)) as [Hlt|Hge].
      * destruct (no_overlap (esc ++ w ++ EU r) esc x [] (w ++ EU r) u v Hes Hx) as [Hu Hxe];
          [reflexivity|exact Heq|simpl; lia|].
        right. subst u. split; [auto|]. exists [], w, r. auto.
      * destruct (Nat.eq_dec (length u) (length esc)) as [Heql|Hneq].
        -- assert (esc = u /\ w ++ EU r = x ++ v) as [<- _] by (apply app_eq_length_l; [lia|exact Heq]).
           left. exists [], (w :: r). auto.
        -- destruct (Nat.lt_ge_cases (length u) (length esc + length w)) as [Hlt2|Hge2].
           ++ exfalso. rewrite <- Heq, nth_error_app2 in Hnth by lia.
              apply (no_occ_inside_unit w r (EU r) (length u - length esc) x0 Hok); [lia|exact Hnth|exact Hx0].
           ++ rewrite app_assoc in Heq. apply app_split_ge in Heq; [|rewrite app_length; lia].
              destruct Heq as (m & Hu & Hm).
              apply (Hlift m Hm (esc ++ w)); [|exact Hu].
              intros us1. rewrite EU_cons, Ew, app_assoc. reflexivity.
    + cbn [app] in Heq. destruct (Nat.eq_dec (length u) 0) as [Hz|Hnz].
      * exfalso. destruct u; [|simpl in Hz; lia]. cbn [app] in Heq.
        apply (no_occ_at_plain_unit w r x v Hok Ew Hx); [|exact Heq].
        destruct w as [|w0 wt]; [congruence|]. rewrite Ex in Heq |- *. cbn in Heq |- *. inversion Heq. reflexivity.
      * destruct (Nat.lt_ge_cases (length u) (length w)) as [Hlt2|Hge2].
        -- exfalso. rewrite <- Heq in Hnth.
           apply (no_occ_inside_unit w r (EU r) (length u) x0 Hok); [lia|exact Hnth|exact Hx0].
        -- apply app_split_ge in Heq; [|lia]. destruct Heq as (m & Hu & Hm).
           apply (Hlift m Hm w); [|exact Hu].
           intros us1. rewrite EU_cons, Ew. reflexivity.
Qed.

Lemma units_nonempty_len us : units_ok us -> length us <= length (EU us).
Proof.
  induction us as [|w r IH]; intro Hok; [simpl; lia|]. destruct Hok as (Hne & _ & Hr).
  rewrite EU_cons, !app_length. specialize (IH Hr). destruct w; [congruence|simpl; lia].
Qed.

(* two prefixes of one unit list: the one with the shorter encoding is a proper prefix of the other *)
Lemma prefix_shorter us a a2 b b2 : units_ok us -> us = a ++ a2 -> us = b ++ b2 ->
  length (EU a) < length (EU b) -> exists l, l <> [] /\ b = a ++ l.
Proof.
  intros Hok Ha Hb Hlt. rewrite Ha in Hb. apply app_eq_app in Hb as [l [[-> ->]|[-> ->]]].
  - exfalso. rewrite EU_app, app_length in Hlt. lia.
  - exists l. split; [|reflexivity]. intros ->. rewrite app_nil_r in Hlt. lia.
Qed.

Lemma enc_even : esc <> [] -> forall us, units_ok us -> forall n us1 us2, length us1 <= n ->
  us = us1 ++ us2 -> Nat.odd (trailing esc (EU us1)) = false.
Proof.
  intros He us Hok. induction n as [|n IH]; intros us1 us2 Hn Hus.
  - destruct us1; [|simpl in Hn; lia]. reflexivity.
  - destruct (strip_suffix esc (EU us1)) as [u|] eqn:Es.
    + apply strip_suffix_some in Es.
      assert (Heq : EU us = u ++ esc ++ EU us2) by (rewrite Hus, EU_app, Es, <- app_assoc; reflexivity).
      assert (0 < length esc) by (destruct esc; [congruence|simpl; lia]).
      destruct (occ_in_enc He us Hok u esc (EU us2) (esc_sp He) Heq)
        as [(a & a2 & Ha & Hu)|(_ & a & w & a2 & Ha & Hw & Hu)].
      * destruct (prefix_shorter us a a2 us1 us2 Hok Ha Hus) as (l & Hl & Hus1).
        { rewrite Es, Hu, !app_length. lia. }
        rewrite Es, Hu, !trailing_app by exact He.
        change (Nat.odd (S (S (trailing esc (EU a))))) with (Nat.odd (trailing esc (EU a))).
        apply (IH a a2); [|exact Ha]. rewrite Hus1, app_length in Hn. destruct l; [congruence|simpl in Hn; lia].
      * exfalso.
        destruct (prefix_shorter us a (w :: a2) us1 us2 Hok Ha Hus) as (l & Hl & Hus1).
        { rewrite Es, Hu, !app_length. lia. }
        (* us1 = a ++ w' :: l' with w' = w escapable: its encoding is longer than esc *)
        destruct l as [|w' l']; [congruence|].
        assert (w' = w) as ->.
        { rewrite Hus1, <- app_assoc in Hus. rewrite Ha in Hus. apply app_inv_head in Hus. inversion Hus. reflexivity. }
        pose proof Hok as Hok2. rewrite Ha in Hok2. apply units_ok_app_r in Hok2 as (Hwne & _).
        rewrite Hus1, EU_app, EU_cons, Hw, Hu in Es.
        apply (f_equal (@length byte)) in Es. rewrite !app_length in Es.
        destruct w; [congruence|simpl in Es; lia].
    + rewrite trailing_none by (apply strip_suffix_none; exact Es). reflexivity.
Qed.

(* what a data value must satisfy: nothing when there is a release character; otherwise it must
   not contain the first byte of any delimiter *)
Definition data_ok (d : bytes) : Prop := esc <> [] \/ forall b, In b d -> ~ In b H.

Lemma EU_no_esc us : esc = [] -> EU us = concat us.
Proof.
  intro He. induction us as [|w r IH]; [reflexivity|]. rewrite EU_cons, IH, He.
  destruct (escapable H w); reflexivity.
Qed.

Lemma E_no_esc d : esc = [] -> E d = d.
Proof. intro He. rewrite E_units, (EU_no_esc _ He). apply explode_ok. Qed.

Lemma E_nil_inv d : E d = [] -> d = [].
Proof.
  rewrite E_units. destruct (explode_ok d) as [Hok Hcat]. intro Hn.
  destruct (explode d) as [|w r]; [simpl in Hcat; congruence|]. exfalso.
  rewrite EU_cons in Hn. destruct Hok as (Hne & _). destruct w; [congruence|].
  destruct (escapable H (b :: w)); [|discriminate].
  apply app_eq_nil in Hn as [_ Hn]. discriminate.
Qed.

Lemma sealed_E d : data_ok d -> sealed (fun x => In x (delims c)) (E d).
Proof.
  intros Hd. destruct (explode_ok d) as [Hok Hcat]. rewrite E_units.
  destruct (list_eq_dec Byte.byte_eq_dec esc []) as [He|He].
  - destruct Hd as [Hd|Hd]; [congruence|].
    split; [|congruence]. intros x u v Hx Heq. exfalso. rewrite (EU_no_esc _ He), Hcat in Heq.
    destruct (head_in x (delim_sp x Hx)) as (x0 & xt & -> & Hx0).
    apply (Hd x0); [|exact Hx0]. rewrite Heq. apply in_or_app. right. left. reflexivity.
  - split; [|intros _; apply (enc_even He _ Hok (length (explode d)) (explode d) []); [lia|rewrite app_nil_r; reflexivity]].
    intros x u v Hx Heq. split; [exact He|].
    destruct (occ_in_enc He _ Hok u x v (delim_sp x Hx) Heq) as [(us1 & us2 & Hus & ->)|(Hxe & _)].
    + rewrite trailing_app by exact He. rewrite Nat.odd_succ, <- Nat.negb_odd.
      rewrite (enc_even He _ Hok (length us1) us1 us2) by (try exact Hus; lia). reflexivity.
    + exfalso. apply (esc_not_delim He). rewrite <- Hxe. exact Hx.
Qed.

(* ---- the four levels -------------------------------------------------------------------------------- *)
Let seg := c_seg c.
Let elem := c_elem c.
Let rep := optb (c_rep c).
Let comp := optb (c_comp c).

Definition Pc (x : bytes) : Prop := In x (delims c).
Definition Pr (x : bytes) : Prop := In x (delims c) /\ x <> comp.
Definition Pe (x : bytes) : Prop := In x (delims c) /\ x <> comp /\ x <> rep.
Definition Ps (x : bytes) : Prop := x = seg.

Lemma is_empty_true x : is_empty x = true <-> x = [].
Proof. destruct x; simpl; split; congruence. Qed.
Lemma is_empty_false x : is_empty x = false <-> x <> [].
Proof. destruct x; simpl; split; congruence. Qed.

Lemma NoDup_heads l : (forall x, In x l -> x <> []) -> NoDup (heads l) -> NoDup l.
Proof.
  induction l as [|x l IH]; intros Hne Hnd; [constructor|].
  destruct x as [|x0 xt]; [exfalso; apply (Hne []); [left|]; reflexivity|].
  simpl in Hnd. inversion Hnd as [|? ? Hni Hnd']; subst. constructor.
  - intro Hin. apply Hni. unfold heads. apply in_flat_map. exists (x0 :: xt). split; [exact Hin|left; reflexivity].
  - apply IH; [intros y Hy; apply Hne; right; exact Hy|exact Hnd'].
Qed.

Lemma delims_nodup : NoDup (delims c).
Proof.
  apply NoDup_heads.
  - intros x Hx. apply sp_nonempty. apply delim_sp. exact Hx.
  - destruct Hcfg as (_ & _ & Hnd & _). unfold specials in Hnd. rewrite heads_app in Hnd.
    revert Hnd. generalize (heads (delims c)). intros l Hnd.
    induction l as [|a l IH]; [constructor|]. simpl in Hnd. inversion Hnd; subst. constructor.
    + intro Hin. apply H2. apply in_or_app. left. exact Hin.
    + apply IH. assumption.
Qed.

Lemma seg_in : In seg (delims c).
Proof.
  destruct Hcfg as (Hs & _). unfold delims. apply filter_In. split; [left; reflexivity|].
  apply is_empty_false in Hs. fold seg in Hs |- *. rewrite Hs. reflexivity.
Qed.
Lemma elem_in : In elem (delims c).
Proof.
  destruct Hcfg as (_ & Hs & _). unfold delims. apply filter_In. split; [right; left; reflexivity|].
  apply is_empty_false in Hs. fold elem in Hs |- *. rewrite Hs. reflexivity.
Qed.
Lemma rep_in : rep <> [] -> In rep (delims c).
Proof.
  intro Hs. unfold delims. apply filter_In. split; [right; right; left; reflexivity|].
  apply is_empty_false in Hs. rewrite Hs. reflexivity.
Qed.
Lemma comp_in : comp <> [] -> In comp (delims c).
Proof.
  intro Hs. unfold delims. apply filter_In. split; [right; right; right; left; reflexivity|].
  apply is_empty_false in Hs. rewrite Hs. reflexivity.
Qed.

(* the delimiters in use are pairwise different *)
Lemma delims_distinct :
  seg <> elem /\ (rep <> [] -> rep <> seg /\ rep <> elem) /\
  (comp <> [] -> comp <> seg /\ comp <> elem /\ comp <> rep).
Proof.
  pose proof delims_nodup as Hnd. unfold delims in Hnd. fold seg elem rep comp in Hnd.
  destruct Hcfg as (Hs & He & _). fold seg in Hs. fold elem in He.
  apply is_empty_false in Hs. apply is_empty_false in He.
  cbn [filter] in Hnd. rewrite Hs, He in Hnd. cbn [negb] in Hnd.
  destruct (list_eq_dec Byte.byte_eq_dec rep []) as [Hr|Hr];
    [rewrite (proj2 (is_empty_true rep) Hr) in Hnd|rewrite (proj2 (is_empty_false rep) Hr) in Hnd];
    (destruct (list_eq_dec Byte.byte_eq_dec comp []) as [Hc|Hc];
     [rewrite (proj2 (is_empty_true comp) Hc) in Hnd|rewrite (proj2 (is_empty_false comp) Hc) in Hnd]);
    cbn [negb] in Hnd.
  all: repeat match goal with
              | Hn : NoDup (_ :: _) |- _ => let a := fresh "Hni" in let b := fresh "Hn" in
                                             inversion Hn as [|? ? a b]; subst; clear Hn
              end.
  all: cbn [In] in *.
  all: split; [intro Heq; rewrite Heq in *; tauto|].
  all: split; intro Hne; try congruence.
  all: repeat split; intro Heq; rewrite Heq in *; tauto.
Qed.

Lemma Pc_sub x : Pc x -> In x (delims c). Proof. auto. Qed.
Lemma Pr_sub x : Pr x -> In x (delims c). Proof. intros [Hx _]; exact Hx. Qed.
Lemma Pe_sub x : Pe x -> In x (delims c). Proof. intros [Hx _]; exact Hx. Qed.
Lemma Ps_sub x : Ps x -> In x (delims c). Proof. intros ->. apply seg_in. Qed.

Definition rep_ok (r : lrep) : Prop :=
  r <> [] /\ (comp = [] -> length r = 1) /\ Forall data_ok r.
Definition elem_ok (e : lelem) : Prop :=
  e <> [] /\ (rep = [] -> length e = 1) /\ Forall rep_ok e.

Lemma map_nonempty {A B} (f : A -> B) l : l <> [] -> map f l <> [].
Proof. destruct l; [congruence|discriminate]. Qed.

Lemma sealed_rep r : rep_ok r -> sealed Pr (enc_rep c r).
Proof.
  intros (Hne & Hone & Hd). unfold enc_rep. fold comp.
  change (escape (heads (specials c)) (optb (c_rel c))) with E.
  assert (Hall : Forall (sealed Pr) (map E r)).
  { apply Forall_forall. intros p Hp. apply in_map_iff in Hp as (d & <- & Hin).
    apply (sealed_weaken Pc); [apply Pr_sub|]. apply sealed_E. rewrite Forall_forall in Hd. auto. }
  destruct (list_eq_dec Byte.byte_eq_dec comp []) as [Hc|Hc].
  - specialize (Hone Hc). destruct r as [|d [|d' r]]; simpl in Hone; try lia.
    cbn [map join]. inversion Hall; assumption.
  - apply (sealed_join Pr Pr_sub); [apply comp_in; exact Hc|intros [_ Hn]; congruence|
                                     apply map_nonempty; exact Hne|exact Hall].
Qed.

Lemma sealed_elem e : elem_ok e -> sealed Pe (enc_elem c e).
Proof.
  intros (Hne & Hone & Hr). unfold enc_elem. fold rep.
  assert (Hall : Forall (sealed Pe) (map (enc_rep c) e)).
  { apply Forall_forall. intros p Hp. apply in_map_iff in Hp as (r & <- & Hin).
    apply (sealed_weaken Pr); [intros x (Hx & Hxc & _); split; assumption|].
    apply sealed_rep. rewrite Forall_forall in Hr. auto. }
  destruct (list_eq_dec Byte.byte_eq_dec rep []) as [Hc|Hc].
  - specialize (Hone Hc). destruct e as [|d [|d' e]]; simpl in Hone; try lia.
    cbn [map join]. inversion Hall; assumption.
  - apply (sealed_join Pe Pe_sub); [apply rep_in; exact Hc|intros (_ & _ & Hn); congruence|
                                     apply map_nonempty; exact Hne|exact Hall].
Qed.

Lemma Ps_Pe x : Ps x -> Pe x.
Proof.
  intros ->. destruct delims_distinct as (_ & Hr & Hc). split; [apply seg_in|]. split.
  - intro Heq. destruct (list_eq_dec Byte.byte_eq_dec comp []) as [Hce|Hce].
    + destruct Hcfg as (Hs & _). fold seg in Hs. congruence.
    + destruct (Hc Hce) as (Hn & _). congruence.
  - intro Heq. destruct (list_eq_dec Byte.byte_eq_dec rep []) as [Hre|Hre].
    + destruct Hcfg as (Hs & _). fold seg in Hs. congruence.
    + destruct (Hr Hre) as (Hn & _). congruence.
Qed.

Lemma sealed_seg s : s <> [] -> Forall elem_ok s -> sealed Ps (enc_seg c s).
Proof.
  intros Hne He. unfold enc_seg. fold elem.
  apply (sealed_join Ps Ps_sub); [apply elem_in| |apply map_nonempty; exact Hne|].
  - unfold Ps. destruct delims_distinct as (Hn & _). congruence.
  - apply Forall_forall. intros p Hp. apply in_map_iff in Hp as (e & <- & Hin).
    apply (sealed_weaken Pe); [apply Ps_Pe|]. apply sealed_elem. rewrite Forall_forall in He. auto.
Qed.

(* ---- readToken on an encoded segment ------------------------------------------------------------------ *)
Lemma vals_to_elems_enc i e : Forall rep_ok e ->
  vals_to_elems c i (map (enc_rep c) e) = Ok (flat_map (exp_rep c i) e).
Proof.
  induction e as [|r e IH]; intro Hall; [reflexivity|].
  inversion Hall as [|? ? Hr He]; subst. cbn [map vals_to_elems flat_map]. fold comp.
  destruct Hr as (Hne & Hone & Hd).
  assert (Hhere : (if is_empty comp then Ok [mkRE i 1 (enc_rep c r)]
                   else bind (split_with_esc (enc_rep c r) comp (optb (c_rel c)))
                             (fun cs => Ok (comps_of i 0 cs))) = Ok (exp_rep c i r)).
  { destruct (is_empty comp) eqn:Ec.
    - apply is_empty_true in Ec. specialize (Hone Ec).
      destruct r as [|d [|d' r]]; simpl in Hone; try lia. unfold enc_rep, exp_rep. reflexivity.
    - apply is_empty_false in Ec. unfold enc_rep at 1. fold comp.
      change (escape (heads (specials c)) (optb (c_rel c))) with E. fold esc.
      rewrite (split_sealed Pc Pc_sub comp (map E r)).
      + reflexivity.
      + apply comp_in. exact Ec.
      + apply map_nonempty. exact Hne.
      + apply Forall_forall. intros p Hp. apply in_map_iff in Hp as (d & <- & Hin).
        apply sealed_E. rewrite Forall_forall in Hd. auto. }
  rewrite Hhere. cbn [bind]. rewrite IH by exact He. reflexivity.
Qed.

Lemma elems_to_raw_enc s : Forall elem_ok s -> forall i,
  elems_to_raw c i (map (enc_elem c) s) = Ok (exp_elems c i s).
Proof.
  induction s as [|e s IH]; intros Hall i; [reflexivity|].
  inversion Hall as [|? ? He Hs]; subst. cbn [map elems_to_raw exp_elems]. fold rep.
  destruct He as (Hne & Hone & Hr).
  assert (Hvals : (if is_empty rep then Ok [enc_elem c e]
                   else split_with_esc (enc_elem c e) rep (optb (c_rel c))) = Ok (map (enc_rep c) e)).
  { destruct (is_empty rep) eqn:Ec.
    - apply is_empty_true in Ec. specialize (Hone Ec).
      destruct e as [|r [|r' e]]; simpl in Hone; try lia. reflexivity.
    - apply is_empty_false in Ec. unfold enc_elem. fold rep esc.
      apply (split_sealed Pr Pr_sub rep (map (enc_rep c) e)).
      + split; [apply rep_in; exact Ec|].
        destruct (list_eq_dec Byte.byte_eq_dec comp []) as [Hce|Hce]; [congruence|].
        destruct delims_distinct as (_ & _ & Hc). destruct (Hc Hce) as (_ & _ & Hn). congruence.
      + apply map_nonempty. exact Hne.
      + apply Forall_forall. intros p Hp. apply in_map_iff in Hp as (r & <- & Hin).
        apply sealed_rep. rewrite Forall_forall in Hr. auto. }
  rewrite Hvals. cbn [bind]. rewrite vals_to_elems_enc by exact Hr. cbn [bind].
  rewrite IH by exact Hs. reflexivity.
Qed.

Lemma has_suffix_snoc u b : has_suffix (u ++ [b]) [b] = true.
Proof. unfold has_suffix. rewrite rev_unit. simpl. rewrite byte_eqb_refl. destruct (rev u); reflexivity. Qed.

Lemma Pe_elem : Pe elem.
Proof.
  destruct delims_distinct as (Hse & Hr & Hc). split; [apply elem_in|]. split.
  - intro Heq. destruct (list_eq_dec Byte.byte_eq_dec comp []) as [Hce|Hce].
    + destruct Hcfg as (_ & Hs & _). fold elem in Hs. congruence.
    + destruct (Hc Hce) as (_ & Hn & _). congruence.
  - intro Heq. destruct (list_eq_dec Byte.byte_eq_dec rep []) as [Hre|Hre].
    + destruct Hcfg as (_ & Hs & _). fold elem in Hs. congruence.
    + destruct (Hr Hre) as (_ & Hn). congruence.
Qed.

Lemma read_token_enc s cr : s <> [] -> Forall elem_ok s -> seg_name s <> [] ->
  (cr = true -> seg = [LF]) -> (seg = [LF] -> has_suffix (enc_seg c s) [CR] = false) ->
  read_token c (enc_seg c s ++ cr_if cr ++ seg) = Ok (exp_seg c s).
Proof.
  intros Hne Hel Hname Hcr Hnocr. unfold read_token.
  (* the LF rule as extracted: delimiter "\n", suffix "\r", one byte dropped *)
  change lf_rule_delim with [LF]. change lf_rule_suffix with [CR]. change edi_lf_rule_drop with 1. fold seg.
  assert (length (enc_seg c s ++ cr_if cr ++ seg) <? length seg = false) as ->.
  { apply Nat.ltb_ge. rewrite !app_length. lia. }
  rewrite slice_ok by (rewrite ?app_length; lia). cbn [bind skipn]. rewrite Nat.sub_0_r.
  replace (length (enc_seg c s ++ cr_if cr ++ seg) - length seg) with (length (enc_seg c s ++ cr_if cr))
    by (rewrite !app_length; lia).
  rewrite app_assoc, firstn_app, Nat.sub_diag, firstn_all. simpl firstn. rewrite app_nil_r.
  assert (Hnsd : (if bytes_eqb seg [LF] && has_suffix (enc_seg c s ++ cr_if cr) [CR]
                  then slice (enc_seg c s ++ cr_if cr) 0 (length (enc_seg c s ++ cr_if cr) - 1)
                  else Ok (enc_seg c s ++ cr_if cr)) = Ok (enc_seg c s)).
  { destruct (bytes_eqb seg [LF]) eqn:Eseg; cbn [andb].
    - apply bytes_eqb_eq in Eseg. destruct cr; cbn [cr_if].
      + rewrite has_suffix_snoc. rewrite slice_ok by (rewrite ?app_length; simpl; lia). cbn [skipn].
        rewrite Nat.sub_0_r, app_length. simpl length. rewrite Nat.add_sub, firstn_app, Nat.sub_diag, firstn_all.
        simpl. rewrite app_nil_r. reflexivity.
      + rewrite app_nil_r, (Hnocr Eseg). reflexivity.
    - destruct cr; [|cbn [cr_if]; rewrite app_nil_r; reflexivity].
      rewrite (Hcr eq_refl) in Eseg. simpl in Eseg. discriminate. }
  match goal with |- bind ?X _ = _ => replace X with (Ok (enc_seg c s)) by (symmetry; exact Hnsd) end.
  cbn [bind]. fold elem.
  unfold enc_seg at 1. fold elem esc.
  rewrite (split_sealed Pe Pe_sub elem (map (enc_elem c) s)).
  - cbn [bind]. rewrite elems_to_raw_enc by exact Hel. cbn [bind].
    destruct s as [|e s]; [congruence|]. inversion Hel as [|? ? He _]; subst.
    destruct He as (Hene & _ & Hr). destruct e as [|r e]; [congruence|].
    inversion Hr as [|? ? Hr1 _]; subst. destruct Hr1 as (Hrne & _). destruct r as [|d r]; [congruence|].
    cbn [seg_name] in Hname. unfold exp_seg. cbn [seg_name exp_elems exp_elem flat_map exp_rep map comps_of app].
    change (escape (heads (specials c)) (optb (c_rel c))) with E.
    destruct (E d) eqn:Ed; [apply E_nil_inv in Ed; congruence|]. reflexivity.
  - apply Pe_elem.
  - apply map_nonempty. exact Hne.
  - apply Forall_forall. intros p Hp. apply in_map_iff in Hp as (e & <- & Hin).
    apply sealed_elem. rewrite Forall_forall in Hel. auto.
Qed.

(* ---- the scanner and the CR/LF-only tokens ---------------------------------------------------------------- *)
Lemma scan_tokens_sealed : forall ps fuel, Forall (sealed Ps) ps ->
  length (flat_map (fun p => p ++ seg) ps) < fuel ->
  scan_tokens fuel (flat_map (fun p => p ++ seg) ps) seg esc = Ok (map (fun p => p ++ seg) ps).
Proof.
  induction ps as [|p ps IH]; intros fuel Hall Hf.
  - destruct fuel; [simpl in Hf; lia|]. reflexivity.
  - inversion Hall as [|? ? Hp Hps]; subst. destruct fuel as [|k]; [lia|].
    cbn [flat_map map] in *. rewrite <- app_assoc in *.
    assert (0 < length seg).
    { destruct Hcfg as (Hs & _). fold seg in Hs. destruct seg; [congruence|simpl; lia]. }
    cbn [scan_tokens]. rewrite !app_length in Hf.
    destruct (p ++ seg ++ flat_map (fun p0 => p0 ++ seg) ps) as [|b0 t0] eqn:Ed.
    { apply (f_equal (@length byte)) in Ed. rewrite !app_length in Ed. simpl in Ed. lia. }
    rewrite <- Ed. rewrite (index_sealed Ps Ps_sub seg p _ eq_refl Hp). cbn [bind].
    (* the flags extracted from edi/reader.go: the delimiter stays in the token *)
    change edi_scanner_drop_delim with false. cbn iota.
    rewrite slice_ok by (rewrite ?app_length; lia). cbn [bind].
    rewrite slice_from_ok by (rewrite !app_length; lia). cbn [bind skipn]. rewrite Nat.sub_0_r.
    replace (length p + length seg) with (length (p ++ seg)) by apply app_length.
    rewrite app_assoc, firstn_app, Nat.sub_diag, firstn_all. simpl firstn. rewrite app_nil_r.
    rewrite skipn_app_exact. rewrite IH by (try exact Hps; lia). reflexivity.
Qed.

Lemma sealed_nil : sealed Ps [].
Proof.
  split.
  - intros x u v Hx Heq. exfalso. unfold Ps in Hx. subst x.
    destruct Hcfg as (Hs & _). fold seg in Hs. destruct u; destruct seg; simpl in Heq; congruence.
  - intros _. reflexivity.
Qed.

Lemma not_suffix_cr (e u u' : bytes) : e <> [] -> ~ ends_with_cr e -> u ++ [CR] <> u' ++ e.
Proof.
  intros He Hn Heq. apply Hn. destruct (@exists_last _ e He) as (e' & z & ->).
  rewrite app_assoc in Heq. apply app_inj_tail in Heq as [_ <-]. exists e'. reflexivity.
Qed.

Lemma esc_not_suffix_cr u : seg = [LF] -> esc <> [] -> Nat.odd (trailing esc (u ++ [CR])) = false.
Proof.
  intros Hs He. rewrite trailing_none; [reflexivity|]. intros u'.
  destruct Hcfg as (_ & _ & _ & _ & _ & Hcr). apply not_suffix_cr; [exact He|apply Hcr; exact Hs].
Qed.

Lemma sealed_snoc_cr p : seg = [LF] -> sealed Ps p -> sealed Ps (p ++ [CR]).
Proof.
  intros Hs [S1 S2]. split.
  - intros x u v Hx Heq. unfold Ps in Hx. subst x.
    destruct v as [|v0 v] using rev_ind.
    + exfalso. rewrite app_nil_r, Hs in Heq. apply app_inj_tail in Heq as [_ Hc]. discriminate.
    + clear IHv. rewrite !app_assoc in Heq. apply app_inj_tail in Heq as [Hp _].
      apply (S1 seg u v eq_refl). rewrite Hp, <- app_assoc. reflexivity.
  - apply esc_not_suffix_cr. exact Hs.
Qed.

Lemma sealed_cr_if b p : (b = true -> seg = [LF]) -> sealed Ps p -> sealed Ps (p ++ cr_if b).
Proof.
  intros Hb Hp. destruct b; cbn [cr_if]; [apply sealed_snoc_cr; auto|rewrite app_nil_r; exact Hp].
Qed.

Lemma only_crlf_fuel_all : forall t k, forallb is_crlf t = true -> only_crlf_fuel k t = true.
Proof.
  induction t as [|b t IH]; intros k Hall; [destruct k; reflexivity|].
  destruct k as [|k]; [reflexivity|]. cbn [forallb] in Hall. apply andb_prop in Hall as [Hb Ht].
  cbn [only_crlf_fuel]. unfold is_crlf in Hb. apply orb_prop in Hb.
  assert (Hdec : forall b t, (Byte.eqb b CR = true \/ Byte.eqb b LF = true) ->
            decode_rune (b :: t) = (b2n b, 1) /\ (N.eqb (b2n b) 10 || N.eqb (b2n b) 13 = true)).
  { intros b' t' Hb'. destruct Hb' as [Hb'|Hb']; apply byte_eqb_eq in Hb'; subst b'; split; reflexivity. }
  rewrite (proj1 (Hdec b t Hb)), blank_rune_spec, (proj2 (Hdec b t Hb)).
  assert (True /\ True) as [_ _].
  { split; exact I. }
  cbn [andb skipn]. apply IH. exact Ht.
Qed.

Lemma only_crlf_all t : forallb is_crlf t = true -> only_crlf t = true.
Proof. apply only_crlf_fuel_all. Qed.

(* ---- whole inputs ------------------------------------------------------------------------------------------- *)
Definition segx_ok_enc (x : lsegx) : Prop :=
  let s := ls_seg x in
  s <> [] /\ Forall elem_ok s /\ seg_name s <> [] /\
  (ls_cr x = true -> seg = [LF]) /\
  (seg = [LF] -> has_suffix (enc_seg c s) [CR] = false) /\
  (ls_blanks x <> [] -> forallb is_crlf seg = true) /\
  (In true (ls_blanks x) -> seg = [LF]) /\
  (forallb is_crlf seg = true -> exists b, In b (seg_name s) /\ is_crlf b = false).

Definition pieces (x : lsegx) : list bytes :=
  map cr_if (ls_blanks x) ++ [enc_seg c (ls_seg x) ++ cr_if (ls_cr x)].

Lemma flat_map_map {A B C} (f : B -> list C) (g : A -> B) l :
  flat_map f (map g l) = flat_map (fun a => f (g a)) l.
Proof. induction l as [|a l IH]; simpl; [reflexivity|rewrite IH; reflexivity]. Qed.

Lemma enc_segx_pieces x : enc_segx c x = flat_map (fun p => p ++ seg) (pieces x).
Proof.
  unfold enc_segx, pieces. rewrite flat_map_app, flat_map_map. cbn [flat_map]. fold seg.
  rewrite app_nil_r, <- !app_assoc. reflexivity.
Qed.

Lemma edi_encode_pieces segs : edi_encode c segs = flat_map (fun p => p ++ seg) (flat_map pieces segs).
Proof.
  unfold edi_encode. induction segs as [|x segs IH]; [reflexivity|].
  cbn [flat_map]. rewrite flat_map_app, IH, enc_segx_pieces. reflexivity.
Qed.

Lemma pieces_sealed x : segx_ok_enc x -> Forall (sealed Ps) (pieces x).
Proof.
  intros (Hne & Hel & _ & Hcr & _ & _ & Hbl & _). unfold pieces. apply Forall_app. split.
  - apply Forall_forall. intros p Hp. apply in_map_iff in Hp as (b & <- & Hin).
    rewrite <- (app_nil_l (cr_if b)). apply sealed_cr_if; [|apply sealed_nil].
    intros ->. apply Hbl. exact Hin.
  - constructor; [|constructor]. apply sealed_cr_if; [exact Hcr|]. apply sealed_seg; assumption.
Qed.

Lemma in_E b d : In b d -> In b (E d).
Proof.
  intro Hin. rewrite E_units. destruct (explode_ok d) as [_ Hcat]. rewrite <- Hcat in Hin.
  apply in_concat in Hin as (w & Hw & Hb). unfold EU, enc_units. apply in_flat_map. exists w.
  split; [exact Hw|]. apply in_or_app. right. exact Hb.
Qed.

Lemma in_join_first b z x l : In b x -> In b (join z (x :: l)).
Proof.
  intro Hin. destruct l as [|y l]; [exact Hin|].
  change (join z (x :: y :: l)) with (x ++ z ++ join z (y :: l)). apply in_or_app. left. exact Hin.
Qed.

Lemma name_in_enc s b : In b (seg_name s) -> In b (enc_seg c s).
Proof.
  destruct s as [|[|[|d r] e] s]; try (intros []).
  cbn [seg_name]. intro Hin. unfold enc_seg, enc_elem, enc_rep. cbn [map].
  apply in_join_first, in_join_first, in_join_first. apply in_E. exact Hin.
Qed.

Lemma forallb_false_ex {A} (f : A -> bool) l : forallb f l = false -> exists a, In a l /\ f a = false.
Proof.
  induction l as [|a l IH]; [discriminate|]. cbn [forallb]. destruct (f a) eqn:Ea.
  - intro Hf. destruct (IH Hf) as (a' & Hin & Ha'). exists a'. split; [right; exact Hin|exact Ha'].
  - intros _. exists a. split; [left; reflexivity|exact Ea].
Qed.

Lemma read_tokens_pieces x rest : segx_ok_enc x ->
  read_tokens c (map (fun p => p ++ seg) (pieces x) ++ rest) =
  bind (read_tokens c rest) (fun l => Ok (exp_seg c (ls_seg x) :: l)).
Proof.
  intros (Hne & Hel & Hname & Hcr & Hnocr & Hbl & Hblcr & Hnoncrlf). unfold pieces.
  rewrite map_app, <- app_assoc.
  assert (Hblank : forall bl, (forall b, In b bl -> In b (ls_blanks x)) -> forall tl,
            read_tokens c (map (fun p => p ++ seg) (map cr_if bl) ++ tl) = read_tokens c tl).
  { induction bl as [|b bl IH]; intros Hsub tl; [reflexivity|]. cbn [map app read_tokens].
    rewrite only_crlf_all.
    - apply IH. intros b' Hb'. apply Hsub. right. exact Hb'.
    - rewrite forallb_app. apply andb_true_intro. split; [destruct b; reflexivity|].
      apply Hbl. intro Hn. specialize (Hsub b (or_introl eq_refl)). rewrite Hn in Hsub. destruct Hsub. }
  rewrite Hblank by auto. cbn [map app read_tokens].
  rewrite only_crlf_non.
  - rewrite <- app_assoc, read_token_enc by assumption. reflexivity.
  - destruct (forallb is_crlf seg) eqn:Es.
    + destruct (Hnoncrlf eq_refl) as (b & Hin & Hb). exists b. split; [|exact Hb].
      apply in_or_app. left. apply in_or_app. left. apply name_in_enc. exact Hin.
    + destruct (forallb_false_ex _ _ Es) as (b & Hin & Hb). exists b. split; [|exact Hb].
      apply in_or_app. right. exact Hin.
Qed.

Lemma read_tokens_all segs : Forall segx_ok_enc segs ->
  read_tokens c (map (fun p => p ++ seg) (flat_map pieces segs)) =
  Ok (map (fun x => exp_seg c (ls_seg x)) segs).
Proof.
  induction segs as [|x segs IH]; intro Hall; [reflexivity|].
  inversion Hall as [|? ? Hx Hs]; subst. cbn [flat_map map]. rewrite map_app.
  rewrite read_tokens_pieces by exact Hx.
  match goal with |- bind ?X _ = _ =>
    replace X with (Ok (map (fun x => exp_seg c (ls_seg x)) segs)) by (symmetry; apply IH; exact Hs) end.
  reflexivity.
Qed.

Lemma Forall_flat_map_sealed segs : Forall segx_ok_enc segs -> Forall (sealed Ps) (flat_map pieces segs).
Proof.
  induction segs as [|x segs IH]; intro Hall; [constructor|].
  inversion Hall; subst. cbn [flat_map]. apply Forall_app. split; [apply pieces_sealed; assumption|auto].
Qed.

Lemma roundtrip_enc segs inp : Forall segx_ok_enc segs ->
  (if c_ignore_crlf c then strip_crlf inp else inp) = edi_encode c segs ->
  nv_read_all c inp = Ok (map (fun x => exp_seg c (ls_seg x)) segs).
Proof.
  intros Hall Hin. unfold nv_read_all.
  assert (is_empty (c_seg c) = false) as ->.
  { destruct Hcfg as (Hs & _). apply is_empty_false. exact Hs. }
  rewrite Hin, edi_encode_pieces. fold seg esc.
  rewrite scan_tokens_sealed; [|apply Forall_flat_map_sealed; exact Hall|lia].
  cbn [bind]. apply read_tokens_all. exact Hall.
Qed.

(* ---- rawSegToNode ------------------------------------------------------------------------------------------- *)
Lemma escapable_decode w r : units_ok (w :: r) -> escapable H w = true ->
  exists rw, rw <> RuneError /\ forall t, decode_rune (w ++ t) = (rw, length w).
Proof.
  intros (Hne & Hsz & _) Hw. destruct (escapable_true w Hw) as (b & ut & Eb & _ & Hd).
  destruct (decode_rune w) as [rw nw] eqn:Edw. cbn [fst] in Hd.
  pose proof (decode_prefix w rw nw Edw (or_intror Hd)) as Hpre.
  pose proof (decode_rune_size w Hne) as Hnw. rewrite Edw in Hnw. cbn [snd] in Hnw.
  assert (nw = length w) as Hl.
  { rewrite <- (firstn_skipn nw w), <- app_assoc, Hpre in Hsz. cbn [snd] in Hsz.
    rewrite firstn_skipn in Hsz. exact Hsz. }
  exists rw. split; [exact Hd|]. intro t. specialize (Hpre t). rewrite Hl, firstn_all in Hpre. exact Hpre.
Qed.

Lemma unescape_EU : esc <> [] -> forall us, units_ok us -> forall k, length (EU us) < k ->
  unescape_loop k (EU us) esc = Ok (concat us).
Proof.
  intros He. pose proof (esc_sp He) as Hes. destruct (head_in esc Hes) as (e0 & er & Ee & He0).
  induction us as [|w r IH]; intros Hok k Hk.
  - destruct k; [simpl in Hk; lia|]. cbn [unescape_loop EU enc_units flat_map].
    destruct esc; [congruence|reflexivity].
  - pose proof Hok as (Hne & Hsz & Hr). rewrite EU_cons in *.
    assert (0 < length w) as Hwl by (destruct w; [congruence|simpl; lia]).
    destruct (escapable H w) eqn:Ew.
    + destruct (escapable_decode w r Hok Ew) as (rw & Hrw & Hdec).
      rewrite !app_length in Hk.
      destruct k as [|k]; [lia|]. rewrite (unescape_loop_esc_unit esc w (EU r) k rw (Hdec _) Hrw).
      rewrite IH by (try exact Hr; lia). reflexivity.
    + cbn [app] in *. rewrite app_length in Hk. destruct k as [|k]; [lia|]. rewrite unescape_loop_plain.
      * rewrite IH by (try exact Hr; lia). reflexivity.
      * exact He.
      * intros p1 p2 Hp Hp2. destruct (has_prefix (p2 ++ EU r) esc) eqn:Ehp; [|reflexivity]. exfalso.
        apply has_prefix_spec in Ehp as [v Hv]. destruct p1 as [|q p1].
        -- cbn [app] in Hp. subst p2.
           apply (no_occ_at_plain_unit w r esc v Hok Ew Hes); [|exact Hv].
           rewrite Ee in Hv |- *. destruct w as [|w0 wt]; [congruence|]. cbn in Hv |- *. inversion Hv. reflexivity.
        -- (* p2 starts inside the unit: a continuation byte, the release character does not start with one *)
           destruct p2 as [|y p2]; [congruence|]. rewrite Ee in Hv. cbn [app] in Hv. injection Hv as Hy _. subst y.
           apply (head_not_cont e0 He0). subst w.
           apply (unit_tail_cont (q :: p1 ++ e0 :: p2) r q (p1 ++ e0 :: p2) Hok eq_refl).
           apply in_or_app. right. left. reflexivity.
Qed.

Lemma unescape_E d : unescape (E d) esc = Ok d.
Proof.
  destruct (explode_ok d) as [Hok Hcat]. unfold unescape.
  destruct (is_empty esc) eqn:Ee.
  - apply is_empty_true in Ee. rewrite (E_no_esc d Ee). reflexivity.
  - apply is_empty_false in Ee. rewrite E_units, (unescape_EU Ee _ Hok) by lia. rewrite Hcat. reflexivity.
Qed.

Section Decl.
Variable k : nat.
Variable d : edecl.
Let idx := d_index d.
Let ci := comp_index d.

Lemma matching_app r1 r2 :
  matching esc k d (r1 ++ r2) =
  bind (matching esc k d r1) (fun a => bind (matching esc k d r2) (fun b => Ok (a ++ b))).
Proof.
  induction r1 as [|e r1 IH]; cbn [app matching].
  - cbn [bind]. destruct (matching esc k d r2); reflexivity.
  - destruct (Nat.eqb (re_ei e) (d_index d) && Nat.eqb (re_ci e) (comp_index d)).
    + destruct (unescape (re_data e) esc) as [txt| |]; cbn [bind]; try reflexivity.
      rewrite IH. destruct (matching esc k d r1) as [a| |]; cbn [bind]; try reflexivity.
      destruct (matching esc k d r2) as [b| |]; reflexivity.
    + exact IH.
Qed.

(* the values the declaration selects from one element *)
Definition lk (e : lelem) : list bytes :=
  match ci with
  | O => []
  | S j => flat_map (fun r => match nth_error r j with Some v => [v] | None => [] end) e
  end.

Lemma matching_comps i : forall r j,
  matching esc k d (comps_of i j (map E r)) =
  Ok (if Nat.eqb i idx && (j <? ci)
      then match nth_error r (ci - 1 - j) with Some v => [(k, v)] | None => [] end
      else []).
Proof.
  induction r as [|v r IH]; intros j.
  - cbn [map comps_of matching]. destruct (Nat.eqb i idx && (j <? ci)); [|reflexivity].
    destruct (ci - 1 - j); reflexivity.
  - cbn [map comps_of matching re_ei re_ci re_data]. fold idx ci. rewrite IH.
    destruct (Nat.eqb i idx) eqn:Ei; cbn [andb]; [|reflexivity].
    destruct (Nat.eqb (S j) ci) eqn:Ej.
    + apply Nat.eqb_eq in Ej. rewrite unescape_E. cbn [bind].
      assert (S j <? ci = false) as -> by (apply Nat.ltb_ge; lia).
      assert (j <? ci = true) as -> by (apply Nat.ltb_lt; lia).
      replace (ci - 1 - j) with 0 by lia. reflexivity.
    + apply Nat.eqb_neq in Ej. destruct (j <? ci) eqn:Ej2.
      * apply Nat.ltb_lt in Ej2. assert (S j <? ci = true) as -> by (apply Nat.ltb_lt; lia).
        replace (ci - 1 - j) with (S (ci - 1 - S j)) by lia. reflexivity.
      * apply Nat.ltb_ge in Ej2. assert (S j <? ci = false) as -> by (apply Nat.ltb_ge; lia). reflexivity.
Qed.

Lemma matching_elem i e :
  matching esc k d (exp_elem c i e) = Ok (if Nat.eqb i idx then map (fun v => (k, v)) (lk e) else []).
Proof.
  unfold exp_elem, lk. induction e as [|r e IH]; cbn [flat_map].
  - cbn [matching]. destruct (Nat.eqb i idx); [destruct ci|]; reflexivity.
  - rewrite matching_app, IH. unfold exp_rep.
    change (escape (heads (specials c)) (optb (c_rel c))) with E. rewrite matching_comps.
    cbn [bind]. f_equal. destruct (Nat.eqb i idx); cbn [andb]; [|reflexivity].
    destruct ci as [|j]; [reflexivity|].
    assert (0 <? S j = true) as -> by reflexivity. replace (S j - 1 - 0) with j by lia.
    cbn [flat_map]. rewrite map_app. destruct (nth_error r j); reflexivity.
Qed.

Lemma matching_elems : forall s i,
  matching esc k d (exp_elems c i s) =
  Ok (map (fun v => (k, v)) (if i <=? idx then lk (nth (idx - i) s []) else [])).
Proof.
  induction s as [|e s IH]; intros i.
  - cbn [exp_elems matching]. destruct (i <=? idx); [|reflexivity].
    destruct (idx - i); unfold lk; destruct ci; reflexivity.
  - cbn [exp_elems]. rewrite matching_app, matching_elem, IH. cbn [bind]. f_equal.
    destruct (Nat.eqb i idx) eqn:Ei.
    + apply Nat.eqb_eq in Ei. assert (S i <=? idx = false) as -> by (apply Nat.leb_gt; lia).
      assert (i <=? idx = true) as -> by (apply Nat.leb_le; lia).
      replace (idx - i) with 0 by lia. cbn [nth map]. apply app_nil_r.
    + apply Nat.eqb_neq in Ei. destruct (i <=? idx) eqn:El.
      * apply Nat.leb_le in El. assert (S i <=? idx = true) as -> by (apply Nat.leb_le; lia).
        replace (idx - i) with (S (idx - S i)) by lia. reflexivity.
      * apply Nat.leb_gt in El. assert (S i <=? idx = false) as -> by (apply Nat.leb_gt; lia). reflexivity.
Qed.

(* the default component index extracted from Elem.compIndex is the documented 1 *)
Lemma comp_index_spec : comp_index d = spec_comp_index d.
Proof. reflexivity. Qed.

Lemma matching_lookup s : matching esc k d (exp_elems c 0 s) = Ok (map (fun v => (k, v)) (lookup s d)).
Proof.
  rewrite matching_elems. cbn [Nat.leb]. rewrite Nat.sub_0_r. unfold lookup, lk, ci. rewrite comp_index_spec. reflexivity.
Qed.
End Decl.

(* edi_elem_nodes, for every list of element declarations (duplicates included) *)
Lemma elem_nodes s : forall decls k,
  seg_to_node esc k decls (exp_elems c 0 s) = Ok (exp_nodes k decls s).
Proof.
  induction decls as [|d ds IH]; intros k; [reflexivity|].
  cbn [seg_to_node exp_nodes]. rewrite matching_lookup. cbn [bind].
  (* the "use the default" condition extracted from rawSegToNode is empty_if_missing || default != nil *)
  unfold edi_use_default.
  destruct (lookup s d) as [|v vs]; cbn [map].
  - destruct (d_empty_if_missing d || match d_default d with Some _ => true | None => false end); [|reflexivity].
    rewrite IH. reflexivity.
  - rewrite IH. cbn [bind]. destruct (exp_nodes (S k) ds s); reflexivity.
Qed.

Lemma full_results_enc sname decls : forall segs,
  (forall x, In x segs -> E (seg_name (ls_seg x)) = sname) ->
  full_results esc sname decls (map (fun x => exp_seg c (ls_seg x)) segs) =
  Ok (exp_full decls (map ls_seg segs)).
Proof.
  induction segs as [|x segs IH]; intro Hn; [reflexivity|].
  cbn [map full_results exp_seg exp_full]. fold E.
  change (escape (heads (specials c)) (optb (c_rel c))) with E.
  rewrite (Hn x (or_introl eq_refl)).
  assert (bytes_eqb sname sname = true) as -> by (apply bytes_eqb_eq; reflexivity). cbn [negb].
  rewrite elem_nodes. cbn [bind]. destruct (exp_nodes 0 decls (ls_seg x)); [|reflexivity].
  rewrite IH by (intros y Hy; apply Hn; right; exact Hy). reflexivity.
Qed.

Lemma full_roundtrip_enc segs inp sname decls : Forall segx_ok_enc segs ->
  (forall x, In x segs -> E (seg_name (ls_seg x)) = sname) ->
  (if c_ignore_crlf c then strip_crlf inp else inp) = edi_encode c segs ->
  full_read_all c sname decls inp = Ok (exp_full decls (map ls_seg segs)).
Proof.
  intros Hall Hn Hin. unfold full_read_all. rewrite (roundtrip_enc segs inp Hall Hin). cbn [bind].
  apply full_results_enc. exact Hn.
Qed.

(* ---- "no CR before an LF delimiter", from the logical values ----------------------------------------- *)
Definition last_rep (s : lseg) : lrep := last (last s []) [].
Definition last_val (s : lseg) : bytes := last (last_rep s) [].
(* the delimiter that stands right before the last value of the segment *)
Definition pre_delim (s : lseg) : bytes :=
  if 2 <=? length (last_rep s) then comp
  else if 2 <=? length (last s []) then rep
  else if 2 <=? length s then elem else [].
(* the encoded segment does not end with CR: its last value does not, and if that value is empty
   the delimiter before it does not *)
Definition no_cr_end (s : lseg) : Prop :=
  ~ ends_with_cr (last_val s) /\ (last_val s = [] -> ~ ends_with_cr (pre_delim s)).

Lemma has_suffix_cr t : has_suffix t [CR] = true <-> ends_with_cr t.
Proof.
  unfold has_suffix, ends_with_cr. cbn [rev app]. split.
  - intro Hp. apply has_prefix_spec in Hp as [r Hr]. exists (rev r).
    rewrite <- (rev_involutive t), Hr. cbn [app rev]. reflexivity.
  - intros [u ->]. rewrite rev_unit. cbn [has_prefix]. rewrite byte_eqb_refl. destruct (rev u); reflexivity.
Qed.

Lemma ends_cr_app_r a b : b <> [] -> ends_with_cr (a ++ b) -> ends_with_cr b.
Proof.
  intros Hb [u Hu]. destruct (@exists_last _ b Hb) as (b' & z & ->).
  rewrite app_assoc in Hu. apply app_inj_tail in Hu as [_ ->]. exists b'. reflexivity.
Qed.

Lemma E_last d : ends_with_cr (E d) -> ends_with_cr d.
Proof.
  intros [u Hu]. rewrite E_units in Hu. destruct (explode_ok d) as [Hok Hcat].
  destruct (explode d) as [|w0 r0] eqn:Ex; [destruct u; discriminate|].
  assert (Hne : w0 :: r0 <> []) by discriminate.
  destruct (@exists_last _ (w0 :: r0) Hne) as (us' & w & Hus). rewrite Hus in *.
  apply units_ok_app_r in Hok as (Hwne & _).
  destruct (@exists_last _ w Hwne) as (w' & z & ->).
  rewrite EU_app, EU_cons in Hu. cbn [EU enc_units flat_map] in Hu. rewrite app_nil_r, !app_assoc in Hu.
  apply app_inj_tail in Hu as [_ ->]. exists (concat us' ++ w'). rewrite <- Hcat, concat_app. cbn [concat].
  rewrite app_nil_r, app_assoc. reflexivity.
Qed.

Lemma join_nil_inv z ps : join z ps = [] -> ps <> [] -> (z = [] -> length ps = 1) -> ps = [[]].
Proof.
  intros Hj Hne Hz. destruct ps as [|p [|q ps]]; [congruence|cbn [join] in Hj; subst; reflexivity|].
  exfalso. change (join z (p :: q :: ps)) with (p ++ z ++ join z (q :: ps)) in Hj.
  apply app_eq_nil in Hj as [_ Hj]. apply app_eq_nil in Hj as [Hzn _]. specialize (Hz Hzn). simpl in Hz. lia.
Qed.

Lemma join_ends z ps : ps <> [] -> (z = [] -> length ps = 1) -> ends_with_cr (join z ps) ->
  ends_with_cr (last ps []) \/ (last ps [] = [] /\ 2 <= length ps /\ ends_with_cr z).
Proof.
  induction ps as [|p ps IH]; intros Hne Hz He; [congruence|].
  destruct ps as [|q ps]; [left; exact He|].
  change (join z (p :: q :: ps)) with (p ++ z ++ join z (q :: ps)) in He.
  change (last (p :: q :: ps) []) with (last (q :: ps) []).
  assert (Hzne : z <> []) by (intro Hzn; specialize (Hz Hzn); simpl in Hz; lia).
  destruct (list_eq_dec Byte.byte_eq_dec (join z (q :: ps)) []) as [Hj|Hj].
  - right. apply join_nil_inv in Hj; [|discriminate|congruence]. inversion Hj; subst.
    split; [reflexivity|]. split; [simpl; lia|].
    rewrite app_nil_r in He. apply (ends_cr_app_r p z Hzne He).
  - rewrite app_assoc in He. apply ends_cr_app_r in He; [|exact Hj].
    destruct (IH ltac:(discriminate) ltac:(congruence) He) as [Hl|(Hl & Hlen & Hzc)]; [left; exact Hl|].
    right. split; [exact Hl|]. split; [simpl in *; lia|exact Hzc].
Qed.

Lemma last_map {A B} (f : A -> B) l a b : l <> [] -> last (map f l) b = f (last l a).
Proof.
  induction l as [|x l IH]; intro Hne; [congruence|]. destruct l as [|y l]; [reflexivity|].
  change (last (map f (x :: y :: l)) b) with (last (map f (y :: l)) b).
  change (last (x :: y :: l) a) with (last (y :: l) a). apply IH. discriminate.
Qed.

Lemma last_in {A} (l : list A) a : l <> [] -> In (last l a) l.
Proof.
  induction l as [|x l IH]; intro Hne; [congruence|]. destruct l as [|y l]; [left; reflexivity|].
  right. apply IH. discriminate.
Qed.

Lemma enc_no_cr s : s <> [] -> Forall elem_ok s -> no_cr_end s -> has_suffix (enc_seg c s) [CR] = false.
Proof.
  intros Hne Hel [Hv Hpre]. destruct (has_suffix (enc_seg c s) [CR]) eqn:Hs; [|reflexivity]. exfalso.
  apply has_suffix_cr in Hs. unfold enc_seg in Hs. fold elem in Hs.
  pose proof (last_in s [] Hne) as Hein. rewrite Forall_forall in Hel.
  destruct (Hel _ Hein) as (Hene & Heone & Hrs). rewrite Forall_forall in Hrs.
  pose proof (last_in (last s []) [] Hene) as Hrin. fold (last_rep s) in Hrin.
  destruct (Hrs _ Hrin) as (Hrne & Hrone & _).
  assert (Helem_ne : elem <> []) by (destruct Hcfg as (_ & He & _); exact He).
  (* an empty encoded repetition / element has exactly one (empty) member *)
  assert (Hrep_nil : enc_rep c (last_rep s) = [] -> length (last_rep s) = 1 /\ last_val s = []).
  { unfold enc_rep. fold comp. change (escape (heads (specials c)) (optb (c_rel c))) with E. intro Hj.
    apply join_nil_inv in Hj; [|apply map_nonempty; exact Hrne|rewrite map_length; exact Hrone].
    unfold last_val. destruct (last_rep s) as [|v [|v' r]]; try discriminate. cbn in Hj |- *.
    injection Hj as Hv0. apply E_nil_inv in Hv0. auto. }
  assert (Helem_nil : enc_elem c (last s []) = [] ->
            length (last s []) = 1 /\ length (last_rep s) = 1 /\ last_val s = []).
  { unfold enc_elem. fold rep. intro Hj.
    apply join_nil_inv in Hj; [|apply map_nonempty; exact Hene|rewrite map_length; exact Heone].
    unfold last_rep in *. destruct (last s []) as [|r0 [|r1 e]]; try discriminate. cbn in Hj, Hrep_nil |- *.
    injection Hj as Hr0. destruct (Hrep_nil Hr0). auto. }
  destruct (join_ends elem (map (enc_elem c) s)) as [Hl|(Hl & Hlen & Hz)];
    [apply map_nonempty; exact Hne|congruence|exact Hs| |].
  - rewrite (last_map _ s []) in Hl by exact Hne. unfold enc_elem in Hl. fold rep in Hl.
    destruct (join_ends rep (map (enc_rep c) (last s []))) as [Hl2|(Hl2 & Hlen2 & Hz2)];
      [apply map_nonempty; exact Hene|rewrite map_length; exact Heone|exact Hl| |].
    + rewrite (last_map _ (last s []) []) in Hl2 by exact Hene. fold (last_rep s) in Hl2.
      unfold enc_rep in Hl2. fold comp in Hl2. change (escape (heads (specials c)) (optb (c_rel c))) with E in Hl2.
      destruct (join_ends comp (map E (last_rep s))) as [Hl3|(Hl3 & Hlen3 & Hz3)];
        [apply map_nonempty; exact Hrne|rewrite map_length; exact Hrone|exact Hl2| |].
      * rewrite (last_map _ (last_rep s) []) in Hl3 by exact Hrne. apply E_last in Hl3. apply Hv. exact Hl3.
      * rewrite (last_map _ (last_rep s) []) in Hl3 by exact Hrne. apply E_nil_inv in Hl3.
        apply (Hpre Hl3). unfold pre_delim. rewrite map_length in Hlen3.
        assert (2 <=? length (last_rep s) = true) as -> by (apply Nat.leb_le; exact Hlen3). exact Hz3.
    + rewrite (last_map _ (last s []) []) in Hl2 by exact Hene. fold (last_rep s) in Hl2.
      destruct (Hrep_nil Hl2) as [Hone Hlv]. apply (Hpre Hlv). unfold pre_delim. rewrite map_length in Hlen2.
      rewrite Hone. change (2 <=? 1) with false. cbn iota. assert (2 <=? length (last s []) = true) as -> by (apply Nat.leb_le; exact Hlen2).
      exact Hz2.
  - rewrite (last_map _ s []) in Hl by exact Hne. destruct (Helem_nil Hl) as (H1 & H2 & Hlv).
    apply (Hpre Hlv). unfold pre_delim. rewrite map_length in Hlen. rewrite H1, H2. change (2 <=? 1) with false. cbn iota.
    assert (2 <=? length s = true) as -> by (apply Nat.leb_le; exact Hlen). exact Hz.
Qed.

(* the conditions on a logical segment, all on the logical values *)
Definition segx_ok (x : lsegx) : Prop :=
  let s := ls_seg x in
  s <> [] /\ Forall elem_ok s /\ seg_name s <> [] /\
  (ls_cr x = true -> seg = [LF]) /\
  (seg = [LF] -> no_cr_end s) /\
  (ls_blanks x <> [] -> forallb is_crlf seg = true) /\
  (In true (ls_blanks x) -> seg = [LF]) /\
  (forallb is_crlf seg = true -> exists b, In b (seg_name s) /\ is_crlf b = false).

Lemma segx_ok_enc_of x : segx_ok x -> segx_ok_enc x.
Proof.
  intros (H1 & H2 & H3 & H4 & H5 & H6 & H7 & H8). repeat split; try assumption.
  intro Hs. apply enc_no_cr; auto.
Qed.

Lemma roundtrip segs inp : Forall segx_ok segs ->
  (if c_ignore_crlf c then strip_crlf inp else inp) = edi_encode c segs ->
  nv_read_all c inp = Ok (map (fun x => exp_seg c (ls_seg x)) segs).
Proof.
  intros Hall. apply roundtrip_enc. eapply Forall_impl; [|exact Hall]. intros x. apply segx_ok_enc_of.
Qed.

Lemma full_roundtrip segs inp sname decls : Forall segx_ok segs ->
  (forall x, In x segs -> E (seg_name (ls_seg x)) = sname) ->
  (if c_ignore_crlf c then strip_crlf inp else inp) = edi_encode c segs ->
  full_read_all c sname decls inp = Ok (exp_full decls (map ls_seg segs)).
Proof.
  intros Hall. apply full_roundtrip_enc. eapply Forall_impl; [|exact Hall]. intros x. apply segx_ok_enc_of.
Qed.
End RT.
